(* JudgeSoundC08P.v — the executable properties of Check/C08_check.v (add_ok, add_nonce_ok, mm_ok, sel_ok, out_ok,
   out_nonce_ok) tied to the Prop-level clauses of Props/C08.v.  For every sink: the model's own output passes the judge
   (so code 2 never fires on an agreeing case), and an ARBITRARY output that passes the judge satisfies the property
   clause, stated in the vocabulary of Proofs/ExecReportP.v and Proofs/MerkleP.v. *)
Require Import Verif.Model.Base Verif.Proofs.BaseP Verif.Model.Merkle Verif.Model.ExecReport.
Require Import Verif.Proofs.MerkleP Verif.Proofs.ExecReportP.
Require Import Verif.Check.C08_check.
From Coq Require Import Sorting.Sorted FSets.FMapPositive ZifyN ZifyNat ZifyBool.

(* ---------- reflection of the boolean equalities used by the case types ---------- *)
Lemma js08_list_eqb_eq {A} (e : A -> A -> bool) :
  (forall a b, e a b = true <-> a = b) -> forall l1 l2, list_eqb e l1 l2 = true <-> l1 = l2.
Proof.
  intros He. induction l1 as [|x l1 IH]; intros [|y l2]; cbn [list_eqb]; try (split; [discriminate|discriminate]).
  - split; reflexivity.
  - rewrite andb_true_iff, He, IH. split; [intros [-> ->]; reflexivity| intros H; inversion H; split; reflexivity].
Qed.
Lemma js08_listN_eqb_eq l1 l2 : list_eqb N.eqb l1 l2 = true <-> l1 = l2.
Proof. apply js08_list_eqb_eq. exact N.eqb_eq. Qed.
Lemma js08_listB_eqb_eq l1 l2 : list_eqb Bool.eqb l1 l2 = true <-> l1 = l2.
Proof. apply js08_list_eqb_eq. intros a b. apply eqb_true_iff. Qed.
Lemma js08_pair_eqb_eq {A B} (ea : A -> A -> bool) (eb : B -> B -> bool) :
  (forall a b, ea a b = true <-> a = b) -> (forall a b, eb a b = true <-> a = b) ->
  forall p q, pair_eqb ea eb p q = true <-> p = q.
Proof.
  intros Ha Hb [a b] [c d]. unfold pair_eqb. cbn [fst snd]. rewrite andb_true_iff, Ha, Hb.
  split; [intros [-> ->]; reflexivity|intros H; inversion H; split; reflexivity].
Qed.

Lemma msg_eqb_eq a b : msg_eqb a b = true <-> a = b.
Proof.
  unfold msg_eqb. destruct a, b. cbn.
  rewrite !andb_true_iff, !N.eqb_eq. split.
  - intros [[[[[[-> ->] ->] ->] ->] ->] ->]. reflexivity.
  - intros H; inversion H. repeat split; reflexivity.
Qed.
Lemma td_eqb_eq (a b : tokdata) : td_eqb a b = true <-> a = b.
Proof.
  unfold td_eqb. apply js08_list_eqb_eq. apply js08_pair_eqb_eq; [intros x y; apply eqb_true_iff|exact N.eqb_eq].
Qed.
Lemma cdata_eqb_eq a b : cdata_eqb a b = true <-> a = b.
Proof.
  unfold cdata_eqb. destruct a, b. cbn.
  rewrite !andb_true_iff, !N.eqb_eq, !js08_listN_eqb_eq, (js08_list_eqb_eq _ msg_eqb_eq), (js08_list_eqb_eq _ td_eqb_eq).
  split.
  - intros [[[[[[[-> ->] ->] ->] ->] ->] ->] ->]. reflexivity.
  - intros H; inversion H. repeat split; reflexivity.
Qed.
Lemma creport_eqb_eq a b : creport_eqb a b = true <-> a = b.
Proof.
  unfold creport_eqb. destruct a, b. cbn.
  rewrite !andb_true_iff, !N.eqb_eq, Z.eqb_eq, js08_listN_eqb_eq, (js08_list_eqb_eq _ msg_eqb_eq),
    (js08_list_eqb_eq _ js08_listN_eqb_eq).
  split.
  - intros [[[[-> ->] ->] ->] ->]. reflexivity.
  - intros H; inversion H. repeat split; reflexivity.
Qed.
Lemma creports_eqb_eq a b : list_eqb creport_eqb a b = true <-> a = b.
Proof. apply js08_list_eqb_eq. exact creport_eqb_eq. Qed.
Lemma cdatas_eqb_eq a b : list_eqb cdata_eqb a b = true <-> a = b.
Proof. apply js08_list_eqb_eq. exact cdata_eqb_eq. Qed.

(* ================================ part mm: merklemulti directly ================================ *)
Lemma ahash_comm a b : ahash a b = ahash b a.
Proof. unfold ahash. now rewrite N.min_comm, N.max_comm. Qed.

Lemma strictly_asc_nat_ascn l : strictly_asc_nat l = true <-> ascn l.
Proof.
  unfold ascn. induction l as [|x l IH]; [split; [constructor|reflexivity]|].
  destruct l as [|y l]; [split; [repeat constructor|reflexivity]|].
  change (strictly_asc_nat (x :: y :: l)) with (Nat.ltb x y && strictly_asc_nat (y :: l)).
  rewrite andb_true_iff, IH, Nat.ltb_lt. split.
  - intros [Hxy Hs]. constructor; [exact Hs|]. inversion Hs as [|? ? _ Hall]; subst.
    constructor; [exact Hxy|]. eapply Forall_impl; [|exact Hall]. intros z Hz. cbn beta in Hz. lia.
  - intros Hs. inversion Hs as [|? ? Hs' Hall]; subst. inversion Hall; subst. split; assumption.
Qed.

Lemma mm_select_vals (leaves : list N) idxs :
  (forall i, In i idxs -> i < length leaves) -> select leaves idxs = vals mm_zero leaves idxs.
Proof.
  induction idxs as [|i idxs IH]; intros Hr; [reflexivity|].
  assert (Hi : i < length leaves) by (apply Hr; now left).
  rewrite (select_cons leaves i idxs (nth i leaves mm_zero)) by (now apply nth_error_nth').
  unfold vals in *. cbn [map]. f_equal. apply IH. intros j Hj. apply Hr. now right.
Qed.

(* the four side conditions of the multiproof theorem, as the boolean mm_ok tests them *)
Lemma mm_guard (leaves : list N) idxs :
  strictly_asc_nat idxs && forallb (fun x => Nat.ltb x (length leaves)) idxs &&
    negb (match idxs with [] => true | _ => false end) && Nat.leb (length leaves) 256 = true <->
  ascn idxs /\ (forall i, In i idxs -> i < length leaves) /\ idxs <> [] /\ length leaves <= max_leaves.
Proof.
  rewrite !andb_true_iff, strictly_asc_nat_ascn, forallb_forall, Nat.leb_le, negb_true_iff. unfold max_leaves.
  split.
  - intros [[[H1 H2] H3] H4]. repeat split; try assumption.
    + intros i Hi. apply Nat.ltb_lt. now apply H2.
    + intros ->. discriminate.
  - intros [H1 [H2 [H3 H4]]]. repeat split; try assumption.
    + intros i Hi. apply Nat.ltb_lt. now apply H2.
    + destruct idxs; [contradiction|reflexivity].
Qed.

(* (a) the model passes: this is the multiproof theorem (C08_multiproof) at the arithmetic commutative hash *)
Lemma mm_model_passes : forall i, mm_ok i (mm_model i) = true.
Proof.
  intros [[leaves idxs] [[vl vp] vf]]. unfold mm_ok, mm_model.
  destruct (strictly_asc_nat idxs && forallb (fun x => Nat.ltb x (length leaves)) idxs &&
            negb (match idxs with [] => true | _ => false end) && Nat.leb (length leaves) 256) eqn:G.
  - apply mm_guard in G. destruct G as [G1 [G2 [G3 G4]]].
    destruct (multiproof ahash mm_zero ahash_comm leaves idxs G4 G1 G3 G2) as [t [ps [fl [M1 [M2 [M3 _]]]]]].
    rewrite M1, M2. rewrite <- (mm_select_vals leaves idxs G2) in M3. rewrite M3, N.eqb_refl. cbn [andb].
    destruct (list_eqb N.eqb vl (select leaves idxs) && list_eqb N.eqb vp ps && list_eqb Bool.eqb vf fl) eqn:E;
      [|reflexivity].
    rewrite !andb_true_iff, !js08_listN_eqb_eq, js08_listB_eqb_eq in E. destruct E as [[-> ->] ->].
    rewrite M3. cbn [res_eqb]. apply N.eqb_refl.
  - destruct (new_tree ahash mm_zero leaves); reflexivity.
Qed.

(* (b) soundness: an implementation answer (Prove result, Root, VerifyComputeRoot result) that passes mm_ok satisfies
   the conclusion of the multiproof theorem about ITS OWN root: under the theorem's hypotheses Prove succeeded and its
   proof verifies the selected leaves to the root; and the implementation's verifier, handed exactly that proof,
   answered the root.  (That the root is mroot of the leaves is the model-equality check, code 1.) *)
Definition mm_prop (i : mm_in) (o : mm_out) : Prop :=
  let '(leaves, idxs, (vl, vp, vf)) := i in
  let '(pr, root, vr) := o in
  length leaves <= max_leaves -> ascn idxs -> idxs <> [] -> (forall k, In k idxs -> k < length leaves) ->
  exists ps fl, pr = Ok (ps, fl) /\ verify ahash (vals mm_zero leaves idxs) ps fl = Ok root /\
    (vl = vals mm_zero leaves idxs -> vp = ps -> vf = fl -> vr = Ok root).

Lemma mm_sound : forall i o, mm_ok i o = true -> mm_prop i o.
Proof.
  intros [[leaves idxs] [[vl vp] vf]] [[pr root] vr]. unfold mm_ok, mm_prop. intros Hok H4 H1 H3 H2.
  assert (G : strictly_asc_nat idxs && forallb (fun x => Nat.ltb x (length leaves)) idxs &&
              negb (match idxs with [] => true | _ => false end) && Nat.leb (length leaves) 256 = true)
    by (apply mm_guard; auto).
  rewrite G in Hok. destruct pr as [[ps fl]| | |]; try discriminate.
  apply andb_true_iff in Hok. destruct Hok as [Hv Hr]. exists ps, fl. split; [reflexivity|].
  rewrite <- (mm_select_vals leaves idxs H2).
  destruct (verify ahash (select leaves idxs) ps fl) as [x| | |] eqn:Ev; try discriminate.
  apply N.eqb_eq in Hv. subst x. split; [reflexivity|].
  intros -> -> ->. rewrite !(proj2 (js08_listN_eqb_eq _ _) eq_refl), (proj2 (js08_listB_eqb_eq _ _) eq_refl) in Hr.
  cbn [andb] in Hr. destruct vr as [x| | |]; cbn [res_eqb] in Hr; try discriminate.
  apply N.eqb_eq in Hr. now subst x.
Qed.

Example mm_ok_example :
  mm_ok ([11; 12; 13; 14; 15]%N, [1; 2; 4], ([12; 13; 15]%N, [11; 14; 2147483646; 2147483646]%N,
                                             [false; false; false; true; false; true]))
        (mm_model ([11; 12; 13; 14; 15]%N, [1; 2; 4], ([12; 13; 15]%N, [11; 14; 2147483646; 2147483646]%N,
                                             [false; false; false; true; false; true]))) = true /\
  fst (fst (mm_model ([11; 12; 13; 14; 15]%N, [1; 2; 4], ([]%N, []%N, [])))) =
    Ok ([11; 14; 2147483646; 2147483646]%N, [false; false; false; true; false; true]).
Proof. split; vm_compute; reflexivity. Qed.

(* ================================ part sel: selectReport with a scripted builder ================================ *)
Definition sel_entry (cd : cdata) : N * N := (c_src cd, N.of_nat (length (c_exec cd))).

Lemma sel_cd_exec_len pos x : N.of_nat (length (c_exec (sel_cd pos x))) = snd x.
Proof. unfold sel_cd. cbn [c_exec]. rewrite map_length, seq_length. lia. Qed.
Lemma sel_cd_msgs_len pos x : length (c_msgs (sel_cd pos x)) = N.to_nat (fst x).
Proof. unfold sel_cd. cbn [c_msgs]. now rewrite map_length, seq_length. Qed.

Lemma sel_add_cases (st : sel_st) (cd : cdata) :
  sel_add st cd = Err \/
  exists st1 extra, sel_add st cd = Ok (st1, set_exec cd (c_exec cd ++ extra)) /\ snd st1 = snd st ++ [c_src cd].
Proof.
  destruct st as [[script cnt] calls]. unfold sel_add. destruct script as [|[k|] rest].
  - right. eexists. exists []. rewrite app_nil_r. split; reflexivity.
  - right. eexists. eexists. split; reflexivity.
  - now left.
Qed.

Lemma sel_loop_passes : forall l pos st,
  match select_loop_with sel_add st (sel_cds pos l) with
  | Ok (st', pend) =>
      sel_pending_ok pos l (map sel_entry pend) = true /\
      Forall (fun e => (pos <= fst e)%N) (map sel_entry pend) /\
      exists newcalls, snd st' = snd st ++ newcalls /\
        forall p, In p newcalls ->
          (pos <= p)%N /\ exists nm ne, nth_error l (N.to_nat (p - pos)) = Some (nm, ne) /\ nm <> 0%N
  | Err => True
  | _ => False
  end.
Proof.
  induction l as [|[nm ne] l IH]; intros pos st.
  - cbn. split; [reflexivity|]. split; [constructor|]. exists []. rewrite app_nil_r. split; [reflexivity|intros p []].
  - cbn [sel_cds select_loop_with].
    pose proof (sel_cd_exec_len pos (nm, ne)) as Hel. pose proof (sel_cd_msgs_len pos (nm, ne)) as Hml.
    assert (Hsrc : c_src (sel_cd pos (nm, ne)) = pos) by reflexivity.
    cbn [fst snd] in Hel, Hml. remember (sel_cd pos (nm, ne)) as cd eqn:Hcd. clear Hcd.
    assert (Hshift : forall p, (N.succ pos <= p)%N -> N.to_nat (p - pos) = S (N.to_nat (p - N.succ pos))) by (intros; lia).
    destruct (c_msgs cd) as [|m0 ms0] eqn:Em.
    + assert (Hnm : nm = 0%N) by (cbn [length] in Hml; lia).
      specialize (IH (N.succ pos) st).
      destruct (select_loop_with sel_add st (sel_cds (N.succ pos) l)) as [[st' pend]| | |]; cbn [rbind fst snd]; try exact IH.
      destruct IH as [I1 [I2 [nc [I3 I4]]]]. cbn [map]. split; [|split].
      * unfold sel_entry at 1. rewrite Hsrc, Hel. cbn [sel_pending_ok]. rewrite N.eqb_refl, Hnm. cbn [N.eqb].
        rewrite N.eqb_refl. exact I1.
      * constructor; [unfold sel_entry; cbn [fst]; lia|].
        eapply Forall_impl; [|exact I2]. intros a Ha. cbn beta in Ha. lia.
      * exists nc. split; [exact I3|]. intros p Hp. destruct (I4 p Hp) as [Hle [nm' [ne' [Hn Hz]]]].
        split; [lia|]. exists nm', ne'. rewrite (Hshift p Hle). cbn [nth_error]. split; assumption.
    + assert (Hnm : nm <> 0%N) by (cbn [length] in Hml; lia).
      destruct (sel_add_cases st cd) as [E|[st1 [extra [E Hc]]]]; rewrite E; cbn [rbind]; [exact I|].
      cbn [fst snd]. specialize (IH (N.succ pos) st1).
      destruct (select_loop_with sel_add st1 (sel_cds (N.succ pos) l)) as [[st' pend]| | |]; cbn [rbind fst snd]; try exact IH.
      destruct IH as [I1 [I2 [nc [I3 I4]]]].
      set (cd1 := set_exec cd (c_exec cd ++ extra)) in *.
      assert (Hcalls : exists newcalls, snd st' = snd st ++ newcalls /\
                forall p, In p newcalls -> (pos <= p)%N /\
                  exists nm0 ne0, nth_error ((nm, ne) :: l) (N.to_nat (p - pos)) = Some (nm0, ne0) /\ nm0 <> 0%N).
      { exists (pos :: nc). rewrite I3, Hc, Hsrc, <- app_assoc. split; [reflexivity|].
        intros p [<-|Hp].
        - split; [lia|]. exists nm, ne. rewrite N.sub_diag. cbn [N.to_nat nth_error]. split; [reflexivity|exact Hnm].
        - destruct (I4 p Hp) as [Hle [nm' [ne' [Hn Hz]]]]. split; [lia|]. exists nm', ne'.
          rewrite (Hshift p Hle). cbn [nth_error]. split; assumption. }
      assert (Hskip : sel_pending_ok pos ((nm, ne) :: l) (map sel_entry pend) = true).
      { cbn [sel_pending_ok]. destruct (map sel_entry pend) as [|[p e] q] eqn:Ep.
        - destruct (N.eqb_spec nm 0); [contradiction|]. cbn [negb andb]. exact I1.
        - pose proof (Forall_inv I2) as Hp. cbn [fst] in Hp.
          destruct (N.eqb_spec p pos); [lia|]. destruct (N.eqb_spec nm 0); [contradiction|]. cbn [negb andb]. exact I1. }
      assert (Hall : Forall (fun e => (pos <= fst e)%N) (map sel_entry pend)).
      { eapply Forall_impl; [|exact I2]. intros a Ha. cbn beta in Ha. lia. }
      destruct (Nat.ltb_spec (length (c_exec cd1)) (length (c_msgs cd1))) as [Hlt|Hge].
      * cbn [map]. split; [|split; [|exact Hcalls]].
        -- unfold sel_entry at 1. change (c_src cd1) with (c_src cd). rewrite Hsrc. cbn [sel_pending_ok].
           rewrite N.eqb_refl. destruct (N.eqb_spec nm 0); [contradiction|].
           change (c_msgs cd1) with (c_msgs cd) in Hlt. rewrite Em in Hlt.
           destruct (N.ltb_spec (N.of_nat (length (c_exec cd1))) nm) as [_|Hbad]; [exact I1|lia].
        -- constructor; [|exact Hall]. unfold sel_entry. cbn [fst]. change (c_src cd1) with (c_src cd). lia.
      * split; [exact Hskip|]. split; [exact Hall|exact Hcalls].
Qed.

(* (a) the model passes its own judge, for every script and every list of commit reports *)
Lemma sel_model_passes : forall i, sel_ok i (sel_model i) = true.
Proof.
  intros [script l]. unfold sel_model, sel_ok. cbn [fst snd].
  pose proof (sel_loop_passes l 0%N (script, 0%N, [])) as H.
  destruct (select_loop_with sel_add (script, 0%N, []) (sel_cds 0 l)) as [[[[s c] calls] pend]| | |]; try contradiction;
    [|reflexivity].
  destruct H as [H1 [_ [nc [H3 H4]]]]. cbn [snd app] in H3. subst calls.
  apply andb_true_iff. split; [exact H1|]. apply forallb_forall. intros p Hp.
  destruct (H4 p Hp) as [_ [nm [ne [Hn Hz]]]]. rewrite N.sub_0_r in Hn. rewrite Hn.
  destruct (N.eqb_spec nm 0); [contradiction|reflexivity].
Qed.

(* (b) soundness.  There is no Props theorem about the pending bookkeeping of selectReport (it is the definition of
   select_loop_with); the clause, stated on an arbitrary answer: the pending entries are input positions in strictly
   ascending order; a pending entry of a report without messages shows its executed count untouched, one of a report
   with messages has fewer executed entries than messages; every report without messages is pending; and the builder
   was only ever handed reports that have messages. *)
Definition sel_prop (i : sel_in) (o : sel_out) : Prop :=
  match o with
  | Ok (_, pend, calls) =>
      StronglySorted N.lt (map fst pend) /\
      (forall p e, In (p, e) pend -> exists nm ne, nth_error (snd i) (N.to_nat p) = Some (nm, ne) /\
                                       (nm = 0%N -> e = ne) /\ (nm <> 0%N -> (e < nm)%N)) /\
      (forall k ne, nth_error (snd i) k = Some (0%N, ne) -> In (N.of_nat k, ne) pend) /\
      (forall p, In p calls -> exists nm ne, nth_error (snd i) (N.to_nat p) = Some (nm, ne) /\ nm <> 0%N)
  | Err => True
  | _ => False
  end.

Lemma sel_pending_ok_sound : forall l pos pend, sel_pending_ok pos l pend = true ->
  Forall (fun pe => (pos <= fst pe)%N) pend /\ StronglySorted N.lt (map fst pend) /\
  (forall p e, In (p, e) pend -> exists nm ne, nth_error l (N.to_nat (p - pos)) = Some (nm, ne) /\
                                   (nm = 0%N -> e = ne) /\ (nm <> 0%N -> (e < nm)%N)) /\
  (forall k ne, nth_error l k = Some (0%N, ne) -> In ((pos + N.of_nat k)%N, ne) pend).
Proof.
  induction l as [|[nm ne] l IH]; intros pos pend H.
  - destruct pend; [|discriminate]. split; [constructor|]. split; [constructor|]. split; [intros p e []|].
    intros [|k] ne0 Hk; discriminate.
  - assert (Hshift : forall p, (N.succ pos <= p)%N -> N.to_nat (p - pos) = S (N.to_nat (p - N.succ pos))) by (intros; lia).
    cbn [sel_pending_ok] in H. destruct pend as [|[p e] pend'].
    + apply andb_true_iff in H. destruct H as [Hz H]. apply negb_true_iff, N.eqb_neq in Hz.
      destruct (IH _ _ H) as [_ [_ [_ I4]]].
      split; [constructor|]. split; [constructor|]. split; [intros p e []|].
      intros [|k] ne0 Hk; cbn [nth_error] in Hk; [inversion Hk; congruence|]. exact (I4 k ne0 Hk).
    + destruct (N.eqb_spec p pos) as [->|Hne].
      * apply andb_true_iff in H. destruct H as [Hhd H]. destruct (IH _ _ H) as [I1 [I2 [I3 I4]]].
        split; [|split; [|split]].
        -- constructor; [cbn [fst]; lia|]. eapply Forall_impl; [|exact I1]. intros a Ha. cbn beta in Ha. lia.
        -- cbn [map fst]. constructor; [exact I2|]. rewrite Forall_map. eapply Forall_impl; [|exact I1].
           intros a Ha. cbn beta in Ha. lia.
        -- intros p0 e0 [Heq|Hin].
           ++ inversion Heq; subst p0 e0. exists nm, ne. rewrite N.sub_diag. cbn [N.to_nat nth_error].
              split; [reflexivity|]. destruct (N.eqb_spec nm 0) as [Hz|Hz].
              ** apply N.eqb_eq in Hhd. split; [intros _; exact Hhd|intros Hc; contradiction].
              ** apply N.ltb_lt in Hhd. split; [intros Hc; contradiction|intros _; exact Hhd].
           ++ destruct (I3 p0 e0 Hin) as [nm' [ne' [Hn Hc]]]. exists nm', ne'.
              rewrite Forall_forall in I1. specialize (I1 _ Hin). cbn [fst] in I1.
              rewrite (Hshift p0 I1). cbn [nth_error]. split; assumption.
        -- intros [|k] ne0 Hk; cbn [nth_error] in Hk.
           ++ inversion Hk; subst nm ne0. cbn [N.eqb] in Hhd. apply N.eqb_eq in Hhd. subst e.
              left. f_equal. lia.
           ++ right. replace (pos + N.of_nat (S k))%N with (N.succ pos + N.of_nat k)%N by lia. exact (I4 k ne0 Hk).
      * apply andb_true_iff in H. destruct H as [Hz H]. apply negb_true_iff, N.eqb_neq in Hz.
        destruct (IH _ _ H) as [I1 [I2 [I3 I4]]].
        split; [|split; [exact I2|split]].
        -- eapply Forall_impl; [|exact I1]. intros a Ha. cbn beta in Ha. lia.
        -- intros p0 e0 Hin. destruct (I3 p0 e0 Hin) as [nm' [ne' [Hn Hc]]]. exists nm', ne'.
           rewrite Forall_forall in I1. specialize (I1 _ Hin). cbn [fst] in I1.
           rewrite (Hshift p0 I1). cbn [nth_error]. split; assumption.
        -- intros [|k] ne0 Hk; cbn [nth_error] in Hk; [inversion Hk; congruence|].
           replace (pos + N.of_nat (S k))%N with (N.succ pos + N.of_nat k)%N by lia. exact (I4 k ne0 Hk).
Qed.

Lemma sel_sound : forall i o, sel_ok i o = true -> sel_prop i o.
Proof.
  intros [script l] [[[n pend] calls]| | |]; unfold sel_ok, sel_prop; cbn [snd]; try discriminate; [|trivial].
  intros H. apply andb_true_iff in H. destruct H as [H1 H2].
  destruct (sel_pending_ok_sound _ _ _ H1) as [_ [S2 [S3 S4]]].
  split; [exact S2|]. split; [|split].
  - intros p e Hin. destruct (S3 p e Hin) as [nm [ne [Hn Hc]]]. rewrite N.sub_0_r in Hn. exists nm, ne. auto.
  - intros k ne Hk. exact (S4 k ne Hk).
  - intros p Hp. rewrite forallb_forall in H2. specialize (H2 p Hp).
    destruct (nth_error l (N.to_nat p)) as [[nm ne]|]; [|discriminate]. exists nm, ne. split; [reflexivity|].
    apply negb_true_iff, N.eqb_neq in H2. exact H2.
Qed.

Example sel_ok_example :
  sel_model ([Some 2; Some 0; None]%N, [(3, 0); (0, 1); (2, 1)]%N) = Ok (1, [(0, 2); (1, 1); (2, 1)], [0; 2])%N /\
  sel_ok ([Some 2; Some 0; None]%N, [(3, 0); (0, 1); (2, 1)]%N) (Ok (1, [(0, 2); (1, 1); (2, 1)], [0; 2])%N) = true.
Proof. split; vm_compute; reflexivity. Qed.

(* ================================ part add: the real builder ================================ *)
Lemma hkey_comm a b : hkey a b = hkey b a.
Proof. unfold hkey. now rewrite N.min_comm, N.max_comm. Qed.
Lemma thash_comm t a b : thash t a b = thash t b a.
Proof. unfold thash. now rewrite hkey_comm. Qed.

Lemma lhash_ids (ms : list msg) : Forall2 (fun m x => lhash m = Some x) ms (map m_id ms).
Proof. induction ms as [|m ms IH]; cbn [map]; constructor; [reflexivity|exact IH]. Qed.
Lemma lhash_ids_inv ms hs : Forall2 (fun m x => lhash m = Some x) ms hs -> hs = map m_id ms.
Proof.
  induction 1 as [|m x ms hs Hm _ IH]; [reflexivity|]. cbn [map]. unfold lhash in Hm. inversion Hm. now subst.
Qed.

Lemma reverify_iff h r root : reverify h r root = true <->
  verify h (map m_id (r_msgs r)) (r_proofs r)
    (flags_to_bools (r_flags r) (length (map m_id (r_msgs r)) + length (r_proofs r) - 1)) = Ok root.
Proof.
  unfold reverify. cbv zeta.
  destruct (verify h (map m_id (r_msgs r)) (r_proofs r) _) as [x| | |]; split; try discriminate.
  - intros H. apply N.eqb_eq in H. now subst.
  - intros H. inversion H. apply N.eqb_refl.
Qed.

(* the unwrapped gas of a report, as the judge adds it up *)
Definition usum (ms : list msg) : N := fold_left (fun a m => a + m_gas m)%N ms 0%N.
Lemma usum_acc : forall ms a, fold_left (fun a m => a + m_gas m)%N ms a = (a + usum ms)%N.
Proof.
  unfold usum. induction ms as [|m ms IH]; intros a; cbn [fold_left]; [lia|].
  rewrite (IH (a + m_gas m)%N), (IH (0 + m_gas m)%N). lia.
Qed.
Lemma usum_cons m ms : usum (m :: ms) = (m_gas m + usum ms)%N.
Proof. unfold usum at 1. cbn [fold_left]. rewrite usum_acc. lia. Qed.

Lemma gas_sum_mod : forall ms a,
  fold_left (fun a m => add64 a (m_gas m)) ms (a mod two64)%N = (fold_left (fun a m => a + m_gas m)%N ms a mod two64)%N.
Proof.
  induction ms as [|m ms IH]; intros a; cbn [fold_left]; [reflexivity|].
  rewrite <- IH. f_equal. unfold add64. apply N.add_mod_idemp_l. unfold two64. lia.
Qed.
Lemma report_gas_mod tg r :
  report_gas tg r = ((usum (r_msgs r) + tg (N.of_nat (length (r_msgs r)))) mod two64)%N.
Proof.
  unfold report_gas, gas_sum. change 0%N with (0 mod two64)%N at 1. rewrite gas_sum_mod. fold (usum (r_msgs r)).
  unfold add64. apply N.add_mod_idemp_l. unfold two64. lia.
Qed.

(* ---- the selection clause: an embedding of the report's messages into the commit data ---- *)
Inductive emb (cd : cdata) : list msg -> list tokdata -> list msg -> list (list N) -> Prop :=
| emb_nil ms tds : emb cd ms tds [] []
| emb_take m td ms tds rm rt :
    td_ready td = true -> memN (m_seq m) (c_exec cd) = false -> memN (m_id m) (c_costly cd) = false ->
    emb cd ms tds rm rt -> emb cd (m :: ms) (td :: tds) (m :: rm) (td_bytes td :: rt)
| emb_skip m td ms tds rm rt : emb cd ms tds rm rt -> emb cd (m :: ms) (td :: tds) rm rt.

Lemma emb_tail cd ms tds m rm t rt : emb cd ms tds (m :: rm) (t :: rt) -> emb cd ms tds rm rt.
Proof.
  intros H. remember (m :: rm) as rm0 eqn:E1. remember (t :: rt) as rt0 eqn:E2. revert m rm t rt E1 E2.
  induction H as [ms tds|m0 td ms tds rm0 rt0 Hr Hx Hc H IH|m0 td ms tds rm0 rt0 H IH]; intros m rm t rt E1 E2.
  - discriminate.
  - inversion E1; inversion E2; subst. apply emb_skip. exact H.
  - apply emb_skip. eapply IH; eassumption.
Qed.
Lemma emb_head cd ms tds m rm t rt : emb cd ms tds (m :: rm) (t :: rt) ->
  memN (m_seq m) (c_exec cd) = false /\ memN (m_id m) (c_costly cd) = false.
Proof.
  intros H. remember (m :: rm) as rm0 eqn:E1. remember (t :: rt) as rt0 eqn:E2. revert m rm t rt E1 E2.
  induction H as [ms tds|m0 td ms tds rm0 rt0 Hr Hx Hc H IH|m0 td ms tds rm0 rt0 H IH]; intros m rm t rt E1 E2.
  - discriminate.
  - inversion E1; subst. split; assumption.
  - eapply IH; eassumption.
Qed.
Lemma emb_len cd ms tds rm rt : emb cd ms tds rm rt -> length rm = length rt.
Proof. induction 1; cbn [length]; congruence. Qed.
Lemma emb_usum cd ms tds rm rt : emb cd ms tds rm rt -> (usum rm <= usum ms)%N.
Proof.
  induction 1 as [ms tds|m0 td ms tds rm0 rt0 Hr Hx Hc H IH|m0 td ms tds rm0 rt0 H IH].
  - unfold usum at 1. cbn [fold_left]. lia.
  - rewrite !usum_cons. lia.
  - rewrite usum_cons. lia.
Qed.

Lemma emb_sel_match cd : forall ms tds rm rt, emb cd ms tds rm rt -> sel_match cd ms tds rm rt = true.
Proof.
  induction ms as [|m0 ms IH]; intros tds rm rt He.
  - inversion He; subst. reflexivity.
  - destruct rm as [|m rm], rt as [|t rt]; try (apply emb_len in He; discriminate); [reflexivity|].
    inversion He as [|m' td ms' tds' rm' rt' Hr Hx Hc He'|m' td ms' tds' rm' rt' He']; subst.
    + cbn [sel_match]. rewrite (proj2 (msg_eqb_eq m m) eq_refl), (proj2 (js08_listN_eqb_eq _ _) eq_refl), Hr.
      cbn [andb]. rewrite Hx, Hc. cbn [negb andb]. apply IH. exact He'.
    + cbn [sel_match].
      destruct (msg_eqb m0 m && list_eqb N.eqb (td_bytes td) t && td_ready td) eqn:E.
      * destruct (emb_head _ _ _ _ _ _ _ He') as [Hx Hc]. rewrite Hx, Hc. cbn [negb andb].
        apply IH. eapply emb_tail. exact He'.
      * apply IH. exact He'.
Qed.

Lemma select_emb cd : forall ms tds pm pt idxs,
  c_msgs cd = pm ++ ms -> c_td cd = pt ++ tds -> length pt = length pm ->
  asc idxs -> (forall i, In i idxs -> length pm <= i /\ eligible cd i) ->
  emb cd ms tds (select (c_msgs cd) idxs) (map td_bytes (select (c_td cd) idxs)).
Proof.
  induction ms as [|m0 ms IH]; intros tds pm pt idxs Hm Ht Hl Hs Hr.
  - destruct idxs as [|i idxs]; [apply emb_nil|]. exfalso.
    destruct (Hr i (or_introl eq_refl)) as [Hi [m [td [Hn _]]]].
    assert (i < length (c_msgs cd)) by (apply nth_error_Some; congruence).
    rewrite Hm, app_nil_r in H. lia.
  - destruct idxs as [|i idxs]; [apply emb_nil|].
    destruct (Hr i (or_introl eq_refl)) as [Hi [m [td [Hn [Hd [Hx [Hc Hy]]]]]]].
    inversion Hs as [|? ? Hs' Hall]; subst. rewrite Forall_forall in Hall.
    destruct tds as [|td0 tds].
    { exfalso. assert (i < length (c_td cd)) by (apply nth_error_Some; congruence).
      rewrite Ht, app_nil_r in H. lia. }
    assert (Hm' : c_msgs cd = (pm ++ [m0]) ++ ms) by (rewrite <- app_assoc; exact Hm).
    assert (Ht' : c_td cd = (pt ++ [td0]) ++ tds) by (rewrite <- app_assoc; exact Ht).
    assert (Hl' : length (pt ++ [td0]) = length (pm ++ [m0])) by (rewrite !app_length; cbn [length]; lia).
    assert (Hlen : length (pm ++ [m0]) = S (length pm)) by (rewrite app_length; cbn [length]; lia).
    destruct (Nat.eq_dec i (length pm)) as [->|Hne].
    + assert (m = m0).
      { rewrite Hm, nth_error_app2, Nat.sub_diag in Hn by lia. cbn [nth_error] in Hn. congruence. }
      assert (td = td0).
      { rewrite Ht, nth_error_app2 in Hd by lia. rewrite Hl, Nat.sub_diag in Hd. cbn [nth_error] in Hd. congruence. }
      subst m td. rewrite (select_cons _ _ _ _ Hn), (select_cons _ _ _ _ Hd). cbn [map].
      apply emb_take; try assumption.
      apply (IH tds (pm ++ [m0]) (pt ++ [td0]) idxs Hm' Ht' Hl' Hs').
      intros j Hj. split; [specialize (Hall j Hj); lia|]. apply Hr. now right.
    + apply emb_skip. apply (IH tds (pm ++ [m0]) (pt ++ [td0]) (i :: idxs) Hm' Ht' Hl' Hs).
      intros j [<-|Hj]; (split; [|apply Hr; auto using in_eq, in_cons]).
      * lia.
      * specialize (Hall j Hj). lia.
Qed.

Lemma sel_match_sound cd : forall ms tds pm pt rm rt,
  c_msgs cd = pm ++ ms -> c_td cd = pt ++ tds -> length pt = length pm ->
  sel_match cd ms tds rm rt = true ->
  exists idxs, asc idxs /\
    (forall i, In i idxs -> length pm <= i /\ i < length (c_msgs cd) /\ eligible cd i) /\
    rm = select (c_msgs cd) idxs /\ rt = map td_bytes (select (c_td cd) idxs).
Proof.
  induction ms as [|m0 ms IH]; intros tds pm pt rm rt Hm Ht Hl H.
  - cbn [sel_match] in H. destruct rm as [|m rm], rt as [|t rt]; try discriminate.
    exists []. split; [constructor|]. split; [intros i []|]. split; reflexivity.
  - destruct rm as [|m rm], rt as [|t rt]; cbn [sel_match] in H; try discriminate.
    { exists []. split; [constructor|]. split; [intros i []|]. split; reflexivity. }
    destruct tds as [|td0 tds]; [discriminate|].
    assert (Hm' : c_msgs cd = (pm ++ [m0]) ++ ms) by (rewrite <- app_assoc; exact Hm).
    assert (Ht' : c_td cd = (pt ++ [td0]) ++ tds) by (rewrite <- app_assoc; exact Ht).
    assert (Hl' : length (pt ++ [td0]) = length (pm ++ [m0])) by (rewrite !app_length; cbn [length]; lia).
    assert (Hlen : length (pm ++ [m0]) = S (length pm)) by (rewrite app_length; cbn [length]; lia).
    destruct (msg_eqb m0 m && list_eqb N.eqb (td_bytes td0) t && td_ready td0) eqn:E.
    + rewrite !andb_true_iff in E, H. destruct E as [[E1 E2] E3]. destruct H as [[Hx Hc] H].
      apply msg_eqb_eq in E1. apply js08_listN_eqb_eq in E2. subst m t.
      apply negb_true_iff in Hx, Hc.
      destruct (IH tds _ _ rm rt Hm' Ht' Hl' H) as [idxs [I1 [I2 [I3 I4]]]].
      assert (Hn : nth_error (c_msgs cd) (length pm) = Some m0).
      { rewrite Hm, nth_error_app2, Nat.sub_diag by lia. reflexivity. }
      assert (Hd : nth_error (c_td cd) (length pm) = Some td0).
      { rewrite Ht, nth_error_app2 by lia. rewrite Hl, Nat.sub_diag. reflexivity. }
      exists (length pm :: idxs). split; [|split; [|split]].
      * constructor; [exact I1|]. rewrite Forall_forall. intros j Hj. destruct (I2 j Hj) as [Hj' _]. lia.
      * intros i [<-|Hi].
        -- split; [lia|]. split; [rewrite Hm, app_length; cbn [length]; lia|].
           exists m0, td0. repeat split; assumption.
        -- destruct (I2 i Hi) as [Hi1 [Hi2 Hi3]]. split; [lia|]. split; assumption.
      * rewrite (select_cons _ _ _ _ Hn). now f_equal.
      * rewrite (select_cons _ _ _ _ Hd). cbn [map]. now f_equal.
    + destruct (IH tds _ _ (m :: rm) (t :: rt) Hm' Ht' Hl' H) as [idxs [I1 [I2 [I3 I4]]]].
      exists idxs. split; [exact I1|]. split; [|split; assumption].
      intros i Hi. destruct (I2 i Hi) as [Hi1 [Hi2 Hi3]]. split; [lia|]. split; assumption.
Qed.

Section AddJudge.
  Variable g : cfg.
  Variable h : N -> N -> N.
  Notation zero := (g_zero g).
  Notation Add := (add h (g_zero g) lhash (codec_size g) (tgas g) (g_nonces g) (g_max_size g) (g_max_gas g)).
  Notation Budget := (budget_inv (codec_size g) (tgas g) (g_max_size g) (g_max_gas g)).

  (* "the report is provable": handed to VerifyComputeRoot the way the destination does it, it yields the committed
     root (the conclusion of C08_provable) *)
  Definition provable (cd : cdata) (r : creport) : Prop :=
    forall hs, Forall2 (fun m x => lhash m = Some x) (r_msgs r) hs ->
      verify h hs (r_proofs r) (flags_to_bools (r_flags r) (length hs + length (r_proofs r) - 1)) = Ok (c_root cd).

  (* what the judge establishes of one chain report r against the commit data cd: the clauses of C08_add
     (membership, eligibility, token-data alignment), of C08_bad_root_no_report (the commit data reproduces its root)
     and of C08_provable.  Compared with [good_report] only "the proof is literally Prove's output" is replaced by
     "the proof verifies". *)
  Definition judged_report (cd : cdata) (r : creport) : Prop :=
    r_src r = c_src cd /\
    (exists t, construct_tree h zero lhash cd = Ok t /\ troot zero t = c_root cd) /\
    (exists idxs, idxs <> [] /\ asc idxs /\ (forall i, In i idxs -> i < length (c_msgs cd) /\ eligible cd i) /\
        r_msgs r = select (c_msgs cd) idxs /\ r_td r = map td_bytes (select (c_td cd) idxs)) /\
    provable cd r.

  Definition ugas (r : creport) : N := (usum (r_msgs r) + tgas g (N.of_nat (length (r_msgs r))))%N.
  Definition utotal_gas (rs : list creport) : N := fold_right (fun r a => ugas r + a)%N 0%N rs.

  Lemma report_gas_le_ugas r : (report_gas (tgas g) r <= ugas r)%N.
  Proof. rewrite report_gas_mod. unfold ugas. apply N.mod_le. unfold two64. lia. Qed.
  Lemma total_gas_le_utotal rs : (total_gas (tgas g) rs <= utotal_gas rs)%N.
  Proof.
    induction rs as [|r rs IH]; unfold total_gas, utotal_gas in *; cbn [fold_right]; [lia|].
    pose proof (report_gas_le_ugas r). lia.
  Qed.

  Lemma report_checks_sound cd r :
    reverify h r (c_root cd) = true -> root_ok g h cd = true -> r_src r = c_src cd ->
    sel_match cd (c_msgs cd) (c_td cd) (r_msgs r) (r_td r) = true -> r_msgs r <> [] ->
    judged_report cd r.
  Proof.
    intros Hv Hroot Hsrc Hsel Hne. split; [exact Hsrc|]. split; [|split].
    - unfold root_ok in Hroot. destruct (construct_tree h zero lhash cd) as [t| | |]; try discriminate.
      exists t. split; [reflexivity|]. now apply N.eqb_eq.
    - destruct (sel_match_sound cd (c_msgs cd) (c_td cd) [] [] _ _ eq_refl eq_refl eq_refl Hsel)
        as [idxs [I1 [I2 [I3 I4]]]].
      exists idxs. split; [intros ->; now apply Hne|]. split; [exact I1|]. split; [|split; assumption].
      intros i Hi. destruct (I2 i Hi) as [_ [H1 H2]]. split; assumption.
    - intros hs HF. apply lhash_ids_inv in HF. subst hs. now apply reverify_iff.
  Qed.

  (* ---- the walk over the Add results ---- *)
  Definition appended (outs : list add_out) : list creport :=
    flat_map (fun o => match o with AOk (Some (r, _)) _ => [r] | _ => [] end) outs.

  (* one Add result against its commit data: nothing appended and the commit data returned unchanged, or one report
     appended that the implementation's own verifier accepted, the commit data returned with exactly the new sequence
     numbers marked executed (C08_mark), and the report judged as above *)
  Definition step_prop (cd : cdata) (o : add_out) : Prop :=
    match o with
    | AErr => True
    | APanic => False
    | AOk None cd1 => cd1 = cd
    | AOk (Some (r, v)) cd1 => v = true /\ cd1 = mark_executed r cd /\ judged_report cd r
    end.

  Lemma steps_ok_sound : forall cds outs size gas acc built,
    steps_ok g h size gas acc cds outs built = true ->
    built = acc ++ appended outs /\
    (forall k o, nth_error outs k = Some o -> exists cd, nth_error cds k = Some cd /\ step_prop cd o) /\
    ((size <= g_max_size g)%N -> (size + total_size (codec_size g) (appended outs) <= g_max_size g)%N) /\
    ((gas <= g_max_gas g)%N -> (gas + utotal_gas (appended outs) <= g_max_gas g)%N).
  Proof.
    assert (Hnil : forall size gas acc built, list_eqb creport_eqb acc built = true ->
      built = acc ++ appended [] /\
      (forall k o, nth_error (@nil add_out) k = Some o -> exists cd, nth_error (@nil cdata) k = Some cd /\ step_prop cd o) /\
      ((size <= g_max_size g)%N -> (size + total_size (codec_size g) (appended []) <= g_max_size g)%N) /\
      ((gas <= g_max_gas g)%N -> (gas + utotal_gas (appended []) <= g_max_gas g)%N)).
    { intros size gas acc built H. apply creports_eqb_eq in H. subst built. cbn. rewrite app_nil_r.
      split; [reflexivity|]. split; [intros [|k] o Hk; discriminate|]. split; intros; lia. }
    induction cds as [|cd cds IH]; intros outs size gas acc built H.
    - destruct outs as [|o outs]; [|destruct o; discriminate]. cbn [steps_ok] in H. now apply Hnil.
    - destruct outs as [|o outs].
      { cbn [steps_ok] in H. destruct (Hnil size gas acc built H) as [H1 [_ [H3 H4]]].
        split; [exact H1|]. split; [intros [|k] o Hk; discriminate|]. split; assumption. }
      destruct o as [| |[[r v]|] cd1].
      + destruct outs as [|o2 outs]; [|discriminate]. cbn [steps_ok] in H.
        destruct (Hnil size gas acc built H) as [H1 [_ [H3 H4]]].
        split; [exact H1|]. split; [|split; assumption].
        intros [|k] o Hk; [|destruct k; discriminate]. inversion Hk; subst o. exists cd. split; [reflexivity|exact I].
      + discriminate.
      + cbn [steps_ok] in H. rewrite !andb_true_iff in H.
        destruct H as [[[[[[[Hv Hrv] Hro] Hsrc] Hne] Hsm] Hce] Hrest].
        destruct (codec_size g r) as [sz|] eqn:Ec; [|discriminate].
        rewrite !andb_true_iff in Hrest. destruct Hrest as [[Hsz Hgs] Hrest].
        apply N.leb_le in Hsz, Hgs. apply N.eqb_eq in Hsrc. apply cdata_eqb_eq in Hce.
        destruct (IH _ _ _ _ _ Hrest) as [I1 [I2 [I3 I4]]].
        assert (Hne' : r_msgs r <> []) by (intros E; rewrite E in Hne; discriminate).
        change (appended (AOk (Some (r, v)) cd1 :: outs)) with (r :: appended outs).
        split; [rewrite I1, <- app_assoc; reflexivity|]. split; [|split].
        * intros [|k] o Hk; cbn [nth_error] in *; [|exact (I2 k o Hk)].
          inversion Hk; subst o. exists cd. split; [reflexivity|]. cbn [step_prop].
          split; [exact Hv|]. split; [exact Hce|]. now apply report_checks_sound.
        * intros _. specialize (I3 Hsz).
          change (total_size (codec_size g) (r :: appended outs))
            with (size_of (codec_size g) r + total_size (codec_size g) (appended outs))%N.
          unfold size_of. rewrite Ec. lia.
        * intros _. specialize (I4 Hgs).
          change (utotal_gas (r :: appended outs)) with (ugas r + utotal_gas (appended outs))%N.
          unfold ugas, usum. lia.
      + cbn [steps_ok] in H. apply andb_true_iff in H. destruct H as [Hce Hrest]. apply cdata_eqb_eq in Hce.
        destruct (IH _ _ _ _ _ Hrest) as [I1 [I2 [I3 I4]]].
        change (appended (AOk None cd1 :: outs)) with (appended outs).
        split; [exact I1|]. split; [|split; assumption].
        intros [|k] o Hk; cbn [nth_error] in *; [|exact (I2 k o Hk)].
        inversion Hk; subst o. exists cd. split; [reflexivity|]. cbn [step_prop]. now symmetry.
  Qed.

  Lemma appended_In r outs : In r (appended outs) -> exists k v cd1, nth_error outs k = Some (AOk (Some (r, v)) cd1).
  Proof.
    unfold appended. rewrite in_flat_map. intros [o [Ho Hr]].
    destruct o as [| |[[r0 v]|] cd1]; try contradiction. destruct Hr as [->|[]].
    destruct (In_nth_error _ _ Ho) as [k Hk]. exists k, v, cd1. exact Hk.
  Qed.

  (* (b) soundness of add_ok for an arbitrary implementation output (per-Add results, Build()) *)
  Definition add_prop (cds : list cdata) (o : c08_out) : Prop :=
    snd o = appended (fst o) /\ length (fst o) <= length cds /\
    (forall k x, nth_error (fst o) k = Some x -> exists cd, nth_error cds k = Some cd /\ step_prop cd x) /\
    Forall (fun r => exists cd, In cd cds /\ judged_report cd r) (snd o) /\
    (total_size (codec_size g) (snd o) <= g_max_size g)%N /\
    (total_gas (tgas g) (snd o) <= utotal_gas (snd o))%N /\ (utotal_gas (snd o) <= g_max_gas g)%N.

  Lemma add_checks_sound cds o :
    Nat.leb (length (fst o)) (length cds) && steps_ok g h 0 0 [] cds (fst o) (snd o) = true -> add_prop cds o.
  Proof.
    intros H. apply andb_true_iff in H. destruct H as [Hlen H]. apply Nat.leb_le in Hlen.
    destruct (steps_ok_sound _ _ _ _ _ _ H) as [S1 [S2 [S3 S4]]]. cbn [app] in S1.
    unfold add_prop. split; [exact S1|]. split; [exact Hlen|]. split; [exact S2|]. rewrite S1.
    split; [|split; [|split]].
    - rewrite Forall_forall. intros r Hr. destruct (appended_In _ _ Hr) as [k [v [cd1 Hk]]].
      destruct (S2 _ _ Hk) as [cd [Hcd [_ [_ Hj]]]]. exists cd. split; [eapply nth_error_In; exact Hcd|exact Hj].
    - specialize (S3 (N.le_0_l _)). lia.
    - apply total_gas_le_utotal.
    - specialize (S4 (N.le_0_l _)). lia.
  Qed.

  (* ---- (a): the model's own run passes ---- *)
  Hypothesis h_comm : forall a b, h a b = h b a.

  Definition cd_wf (cd : cdata) : Prop :=
    length (c_msgs cd) <= 256 /\
    (usum (c_msgs cd) + g_tga g + g_tgb g * N.of_nat (length (c_msgs cd)) < two64)%N.

  Lemma tgas_le n : (tgas g n <= g_tga g + g_tgb g * n)%N.
  Proof.
    unfold tgas, add64, mul64.
    assert (T : (0 < two64)%N) by (unfold two64; lia).
    pose proof (N.mod_le (g_tga g + (g_tgb g * n) mod two64) two64 ltac:(lia)).
    pose proof (N.mod_le (g_tgb g * n) two64 ltac:(lia)). lia.
  Qed.

  (* one Add of the model that appended a report: every boolean the judges test of it is true, and the judge's
     unwrapped accumulators are the builder's *)
  Lemma add_step_checks st cd st1 cd1 r :
    (g_max_size g < two64)%N -> (g_max_gas g < two64)%N -> cd_wf cd -> Budget st ->
    Add st cd = Ok (st1, cd1) -> b_reports st1 = b_reports st ++ [r] ->
    reverify h r (c_root cd) = true /\ root_ok g h cd = true /\ r_src r = c_src cd /\ r_msgs r <> [] /\
    sel_match cd (c_msgs cd) (c_td cd) (r_msgs r) (r_td r) = true /\ cd1 = mark_executed r cd /\
    exists sz, codec_size g r = Some sz /\ b_size st1 = (b_size st + sz)%N /\ b_gas st1 = (b_gas st + ugas r)%N /\
               (b_size st1 <= g_max_size g)%N /\ (b_gas st1 <= g_max_gas g)%N.
  Proof.
    intros Hms Hmg [Hlen Hwrap] Hinv Ha Hb.
    pose proof (add_budget _ _ _ _ _ _ _ _ _ _ _ _ Hms Hmg Hinv Ha) as Hinv1.
    pose proof (add_provable _ _ _ _ _ _ _ _ _ _ _ _ _ _ h_comm Hlen Ha Hb (lhash_ids (r_msgs r))) as Hprov.
    destruct (add_spec _ _ _ _ _ _ _ _ _ _ _ _ Ha) as [[A1 _]|[idxs [r0 [sz [A1 [A2 [A3 [A4 [A5 [A6 [A7 _]]]]]]]]]]].
    { exfalso. rewrite A1 in Hb. apply (f_equal (@length _)) in Hb. rewrite app_length in Hb. cbn in Hb. lia. }
    rewrite A1 in Hb. apply app_inv_head in Hb. inversion Hb; subst r0; clear Hb.
    destruct A6 as [t [pf [Ht [Hroot [Hp [Hl Hr]]]]]].
    assert (Hmsgs : r_msgs r = select (c_msgs cd) idxs) by (subst r; reflexivity).
    assert (Htd : r_td r = map td_bytes (select (c_td cd) idxs)) by (subst r; reflexivity).
    assert (Hemb : emb cd (c_msgs cd) (c_td cd) (r_msgs r) (r_td r)).
    { rewrite Hmsgs, Htd. apply (select_emb cd (c_msgs cd) (c_td cd) [] [] idxs eq_refl eq_refl eq_refl A4).
      intros i Hi. split; [cbn [length]; lia|]. apply A5, Hi. }
    assert (Hrl : length (r_msgs r) = length idxs).
    { rewrite Hmsgs. apply select_length. intros i Hi. apply A5, Hi. }
    split; [apply reverify_iff; exact Hprov|].
    split; [unfold root_ok; rewrite Ht; now apply N.eqb_eq|].
    split; [subst r; reflexivity|].
    split; [intros E; rewrite E in Hrl; destruct idxs; [contradiction|discriminate]|].
    split; [now apply emb_sel_match|]. split; [exact A2|].
    exists sz. split; [exact A7|].
    destruct Hinv as [I1 [I2 [I3 I4]]]. destruct Hinv1 as [J1 [J2 [J3 J4]]].
    rewrite A1 in J1, J2.
    rewrite (total_size_app h (codec_size g) (tgas g) 0%N) in J1. rewrite (total_gas_app h (codec_size g) (tgas g) 0%N) in J2.
    unfold size_of in J1. rewrite A7 in J1.
    assert (Hug : report_gas (tgas g) r = ugas r).
    { rewrite report_gas_mod. unfold ugas. apply N.mod_small.
      pose proof (emb_usum _ _ _ _ _ Hemb) as Hu.
      pose proof (tgas_le (N.of_nat (length (r_msgs r)))) as Htg.
      assert (length idxs <= length (c_msgs cd)).
      { apply asc_below_length; [exact A4|]. intros i Hi. apply A5, Hi. }
      assert (g_tgb g * N.of_nat (length (r_msgs r)) <= g_tgb g * N.of_nat (length (c_msgs cd)))%N
        by (apply N.mul_le_mono_l; lia).
      lia. }
    rewrite Hug in J2. repeat split; lia.
  Qed.

  Lemma run_model_passes : forall cds st outs stf,
    (g_max_size g < two64)%N -> (g_max_gas g < two64)%N -> (forall cd, In cd cds -> cd_wf cd) -> Budget st ->
    run_model g h st cds = (outs, stf) ->
    steps_ok g h (b_size st) (b_gas st) (b_reports st) cds outs (b_reports stf) = true /\ length outs <= length cds.
  Proof.
    induction cds as [|cd cds IH]; intros st outs stf Hms Hmg Hwf Hinv Hrun.
    - cbn in Hrun. inversion Hrun; subst. cbn [steps_ok]. split; [now apply creports_eqb_eq|cbn; lia].
    - cbn [run_model] in Hrun. cbv zeta in Hrun.
      destruct (Add st cd) as [[st1 cd1]| | |] eqn:Ea;
        try (inversion Hrun; subst; cbn [steps_ok length]; split; [now apply creports_eqb_eq|lia]).
      destruct (run_model g h st1 cds) as [outs' stf'] eqn:Er.
      pose proof (add_budget _ _ _ _ _ _ _ _ _ _ _ _ Hms Hmg Hinv Ea) as Hinv1.
      destruct (IH st1 outs' stf' Hms Hmg (fun c Hc => Hwf c (or_intror Hc)) Hinv1 Er) as [IH1 IH2].
      destruct (add_spec _ _ _ _ _ _ _ _ _ _ _ _ Ea) as [[A1 [A2 [A3 A4]]]|[idxs [r [sz [A1 _]]]]].
      + rewrite A1, Nat.ltb_irrefl in Hrun. inversion Hrun; subst outs stf. cbn [steps_ok length].
        rewrite A2, (proj2 (cdata_eqb_eq cd cd) eq_refl). cbn [andb]. rewrite <- A1, <- A3, <- A4.
        split; [exact IH1|lia].
      + destruct (add_step_checks st cd st1 cd1 r Hms Hmg (Hwf cd (or_introl eq_refl)) Hinv Ea A1)
          as [C1 [C2 [C3 [C4 [C5 [C6 [sz' [C7 [C8 [C9 [C10 C11]]]]]]]]]]].
        assert (Hlt : Nat.ltb (length (b_reports st)) (length (b_reports st1)) = true).
        { apply Nat.ltb_lt. rewrite A1, app_length. cbn [length]. lia. }
        rewrite Hlt, A1, last_last in Hrun. inversion Hrun; subst outs stf. cbn [steps_ok length].
        rewrite C1, C2, C3, N.eqb_refl, C5, C7. cbn [andb].
        destruct (r_msgs r) as [|m0 ms0] eqn:Em; [contradiction|]. cbn [negb andb]. rewrite <- Em.
        unfold mark_executed in C6. rewrite C6, (proj2 (cdata_eqb_eq _ _) eq_refl). cbn [andb].
        fold (usum (r_msgs r)).
        replace (b_gas st + usum (r_msgs r) + tgas g (N.of_nat (length (r_msgs r))))%N with (b_gas st1)
          by (rewrite C9; unfold ugas; lia).
        rewrite <- C8, <- A1.
        rewrite (proj2 (N.leb_le _ _) C10), (proj2 (N.leb_le _ _) C11). cbn [andb].
        split; [exact IH1|lia].
  Qed.
End AddJudge.

(* the harness-side well-formedness of an add / out input: the limits are uint64 values, no commit report has more
   than 256 messages (the verifier's own limit, C08_provable) and the gas of one commit report cannot wrap uint64 *)
Definition add_wf (i : add_in) : Prop :=
  (g_max_size (fst i) < two64)%N /\ (g_max_gas (fst i) < two64)%N /\ forall cd, In cd (snd i) -> cd_wf (fst i) cd.

(* (a) *)
Lemma add_model_passes : forall i, add_wf i -> add_ok i (add_model i) = true.
Proof.
  intros [g cds] [Hms [Hmg Hwf]]. cbn [fst snd] in *. unfold add_ok, add_model.
  destruct (run_model g (thash (mk_htable (g_table g))) b_init cds) as [outs st] eqn:Er. cbn [fst snd].
  destruct (run_model_passes g _ (thash_comm _) cds b_init outs st Hms Hmg Hwf
              (budget_init (thash (mk_htable (g_table g))) _ _ _ _) Er) as [H1 H2].
  cbn [b_init b_size b_gas b_reports] in H1. unfold build. rewrite H1. rewrite (proj2 (Nat.leb_le _ _) H2). reflexivity.
Qed.

(* (b) *)
Lemma add_sound : forall i o, add_ok i o = true ->
  add_prop (fst i) (thash (mk_htable (g_table (fst i)))) (snd i) o.
Proof. intros [g cds] o H. unfold add_ok in H. cbn [fst snd]. now apply add_checks_sound. Qed.

(* transfer to the vocabulary of C08_outcome: every report of Build() is a judged report of one of the commit
   reports, and the totals (the code's own uint64 sums) are inside the limits *)
Corollary add_sound_outcome : forall i o, add_ok i o = true ->
  let g := fst i in let h := thash (mk_htable (g_table g)) in
  Forall (fun r => exists cd, In cd (snd i) /\ judged_report g h cd r) (snd o) /\
  (total_size (codec_size g) (snd o) <= g_max_size g)%N /\ (total_gas (tgas g) (snd o) <= g_max_gas g)%N.
Proof.
  intros i o H. destruct (add_sound i o H) as [_ [_ [_ [H4 [H5 [H6 H7]]]]]]. cbv zeta.
  split; [exact H4|]. split; [exact H5|lia].
Qed.

(* ---------- the nonce clause: Check's nonce_run / nonce_ok against the specification nonce_run_reports ----------
   The judge counts expectations in N without wrap ("onchain + 1"), the specification in uint64 (add64).  On uint64
   data they are the same function: the judge's expectation map, read modulo 2^64, is the specification's. *)
Definition wrapmap (m : nmap) : nmap := map (fun kv => (fst kv, (snd kv mod two64)%N)) m.
Definition bounded (m : nmap) : Prop := Forall (fun kv : N * N * N => (snd kv <= two64)%N) m.

Lemma nlookup_wrapmap c s m :
  nlookup c s (wrapmap m) = option_map (fun v => (v mod two64)%N) (nlookup c s m).
Proof.
  induction m as [|[[c' s'] v] m IH]; [reflexivity|]. cbn [wrapmap map fst snd nlookup].
  destruct (N.eqb c c' && N.eqb s s'); [reflexivity|exact IH].
Qed.
Lemma nupdate_wrapmap c s v m : nupdate c s (v mod two64)%N (wrapmap m) = wrapmap (nupdate c s v m).
Proof.
  induction m as [|[[c' s'] v'] m IH]; [reflexivity|]. cbn [wrapmap map fst snd nupdate].
  destruct (N.eqb c c' && N.eqb s s'); cbn [map fst snd]; [reflexivity|]. f_equal. exact IH.
Qed.
Lemma nlookup_bounded c s m v : bounded m -> nlookup c s m = Some v -> (v <= two64)%N.
Proof.
  induction 1 as [|[[c' s'] v'] m Hv _ IH]; cbn [nlookup]; [discriminate|].
  destruct (N.eqb c c' && N.eqb s s'); [|exact IH]. intros H; inversion H; subst. exact Hv.
Qed.
Lemma nupdate_bounded c s v m : bounded m -> (v <= two64)%N -> bounded (nupdate c s v m).
Proof.
  intros Hb Hv. induction Hb as [|[[c' s'] v'] m Hv' Hb IH]; cbn [nupdate]; [repeat constructor; exact Hv|].
  destruct (N.eqb c c' && N.eqb s s'); constructor; try assumption.
Qed.

Definition uint_nonce_map (nonces : nmap) : Prop := forall c s v, nlookup c s nonces = Some v -> (v < two64)%N.
Definition uint_msg_nonces (ms : list msg) : Prop := Forall (fun m => (m_nonce m < two64)%N) ms.

Lemma nonce_run_wrap g : uint_nonce_map (g_nonces g) ->
  forall ms exp src, bounded exp -> uint_msg_nonces ms ->
  ExecReportP.nonce_run (g_nonces g) (wrapmap exp) src ms = option_map wrapmap (C08_check.nonce_run g exp src ms) /\
  (forall exp', C08_check.nonce_run g exp src ms = Some exp' -> bounded exp').
Proof.
  intros Hn. induction ms as [|m ms IH]; intros exp src Hb Hms.
  - cbn. split; [reflexivity|]. intros exp' H; inversion H; subst; exact Hb.
  - inversion Hms as [|? ? Hm Hms']; subst. cbn [ExecReportP.nonce_run C08_check.nonce_run].
    destruct (N.eqb_spec (m_nonce m) 0) as [E0|E0]; [now apply IH|].
    destruct (nlookup src (m_sender m) (g_nonces g)) as [on|] eqn:Eon; [|split; [reflexivity|discriminate]].
    specialize (Hn _ _ _ Eon). rewrite nlookup_wrapmap.
    set (e0 := match nlookup src (m_sender m) exp with Some e => e | None => (on + 1)%N end).
    assert (He0 : (e0 <= two64)%N).
    { unfold e0. destruct (nlookup src (m_sender m) exp) as [e|] eqn:Ee; [eapply nlookup_bounded; eassumption|lia]. }
    assert (Hw : match option_map (fun v => (v mod two64)%N) (nlookup src (m_sender m) exp) with
                 | Some e => e | None => add64 on 1 end = (e0 mod two64)%N).
    { unfold e0. destruct (nlookup src (m_sender m) exp); reflexivity. }
    rewrite Hw.
    assert (T : two64 = 18446744073709551616%N) by reflexivity.
    destruct (N.eqb_spec (m_nonce m) e0) as [E|E].
    + assert (e0 < two64)%N by lia. rewrite (N.mod_small e0) by lia. rewrite <- E, N.eqb_refl.
      assert (Ha : add64 (m_nonce m) 1 = ((m_nonce m + 1) mod two64)%N) by reflexivity.
      rewrite Ha, nupdate_wrapmap. apply IH; [|exact Hms']. apply nupdate_bounded; [exact Hb|lia].
    + destruct (N.eqb_spec (m_nonce m) (e0 mod two64)) as [E'|E']; [|split; [reflexivity|discriminate]].
      exfalso. destruct (N.eq_dec e0 two64) as [->|Hne].
      * rewrite N.mod_same in E' by lia. contradiction.
      * rewrite N.mod_small in E' by lia. contradiction.
Qed.

Lemma nonce_ok_wrap g : uint_nonce_map (g_nonces g) ->
  forall rs exp, bounded exp -> (forall r, In r rs -> uint_msg_nonces (r_msgs r)) ->
  nonce_ok g exp rs = true <-> nonce_run_reports (g_nonces g) (wrapmap exp) rs <> None.
Proof.
  intros Hn. induction rs as [|r rs IH]; intros exp Hb Hrs.
  - cbn. split; [discriminate|reflexivity].
  - cbn [nonce_ok nonce_run_reports].
    destruct (nonce_run_wrap g Hn (r_msgs r) exp (r_src r) Hb (Hrs r (or_introl eq_refl))) as [W1 W2].
    rewrite W1. destruct (C08_check.nonce_run g exp (r_src r) (r_msgs r)) as [exp1|]; cbn [option_map].
    + apply IH; [now apply W2|]. intros r0 Hr0. apply Hrs. now right.
    + split; [discriminate|intros H; now contradiction H].
Qed.

(* (b) the nonce clause of the add and out judges is the specification's nonce order, on uint64 data *)
Lemma add_nonce_sound : forall i o, add_nonce_ok i o = true ->
  uint_nonce_map (g_nonces (fst i)) -> (forall r, In r (snd o) -> uint_msg_nonces (r_msgs r)) ->
  nonce_run_reports (g_nonces (fst i)) [] (snd o) <> None.
Proof.
  intros i o H Hn Hrs. unfold add_nonce_ok in H.
  apply (nonce_ok_wrap (fst i) Hn (snd o) [] (Forall_nil _) Hrs). exact H.
Qed.

(* ================================ part out: Plugin.Outcome in the Filter state ================================ *)
Section OutJudge.
  Variable g : cfg.
  Variable h : N -> N -> N.

  Lemma still_pending_In x cd :
    In x (still_pending cd) <-> x = cd /\ (c_msgs cd = [] \/ length (c_exec cd) < length (c_msgs cd)).
  Proof.
    unfold still_pending. destruct (c_msgs cd) as [|m ms] eqn:Em.
    - cbn [In]. split; [intros [<-|[]]; auto|intros [-> _]; now left].
    - destruct (Nat.ltb_spec (length (c_exec cd)) (length (m :: ms))) as [Hl|Hl]; cbn [In].
      + split; [intros [<-|[]]; auto|intros [-> _]; now left].
      + split; [intros []|intros [_ [Hc|Hc]]; [discriminate|lia]].
  Qed.

  Lemma owns_spec cd r : owns cd r = true -> r_src r = c_src cd /\ r_msgs r <> [].
  Proof.
    unfold owns. intros H. apply andb_true_iff in H. destruct H as [H1 H2]. apply N.eqb_eq in H1.
    split; [now symmetry|]. destruct (r_msgs r); [discriminate|discriminate].
  Qed.

  (* inversion of one step of the walk *)
  Lemma out_walk_cons size gas cd cds rs p :
    out_walk g h size gas (cd :: cds) rs = Some p ->
    (exists p', out_walk g h size gas cds rs = Some p' /\ p = still_pending cd ++ p') \/
    (exists r rs' sz p', rs = r :: rs' /\ judged_report g h cd r /\ codec_size g r = Some sz /\
       (size + sz <= g_max_size g)%N /\ (gas + ugas g r <= g_max_gas g)%N /\
       out_walk g h (size + sz) (gas + ugas g r) cds rs' = Some p' /\
       p = still_pending (mark_executed r cd) ++ p').
  Proof.
    cbn [out_walk]. destruct rs as [|r rs].
    - destruct (out_walk g h size gas cds []) as [p'|]; [|discriminate].
      intros H; inversion H. left. exists p'. auto.
    - destruct (owns cd r) eqn:Eo.
      + destruct (reverify h r (c_root cd) && root_ok g h cd &&
                  sel_match cd (c_msgs cd) (c_td cd) (r_msgs r) (r_td r)) eqn:Ec; [|discriminate].
        rewrite !andb_true_iff in Ec. destruct Ec as [[C1 C2] C3].
        destruct (codec_size g r) as [sz|] eqn:Es; [|discriminate].
        destruct (N.leb (size + sz) (g_max_size g) &&
                  N.leb (gas + fold_left (fun a m => a + m_gas m) (r_msgs r) 0 + tgas g (N.of_nat (length (r_msgs r))))
                        (g_max_gas g))%N eqn:El; [|discriminate].
        rewrite andb_true_iff, !N.leb_le in El. destruct El as [L1 L2].
        assert (Hg : (gas + fold_left (fun a m => a + m_gas m) (r_msgs r) 0 + tgas g (N.of_nat (length (r_msgs r))) =
                      gas + ugas g r)%N) by (unfold ugas, usum; lia).
        rewrite Hg in *.
        destruct (out_walk g h (size + sz) (gas + ugas g r) cds rs) as [p'|] eqn:Ew; [|discriminate].
        intros H; inversion H. right. exists r, rs, sz, p'.
        destruct (owns_spec _ _ Eo) as [O1 O2].
        split; [reflexivity|]. split; [now apply report_checks_sound|]. auto 10.
      + destruct (out_walk g h size gas cds (r :: rs)) as [p'|]; [|discriminate].
        intros H; inversion H. left. exists p'. auto.
  Qed.

  (* reports and limits *)
  Lemma out_walk_reports : forall cds rs size gas p, out_walk g h size gas cds rs = Some p ->
    Forall (fun r => exists cd, In cd cds /\ judged_report g h cd r) rs /\
    ((size <= g_max_size g)%N -> (size + total_size (codec_size g) rs <= g_max_size g)%N) /\
    ((gas <= g_max_gas g)%N -> (gas + utotal_gas g rs <= g_max_gas g)%N).
  Proof.
    induction cds as [|cd cds IH]; intros rs size gas p H.
    - cbn [out_walk] in H. destruct rs; [|discriminate]. cbn. split; [constructor|]. split; intros; lia.
    - destruct (out_walk_cons _ _ _ _ _ _ H) as [[p' [Hw _]]|[r [rs' [sz [p' [-> [Hj [Hs [L1 [L2 [Hw _]]]]]]]]]]].
      + destruct (IH _ _ _ _ Hw) as [I1 [I2 I3]]. split; [|split; assumption].
        eapply Forall_impl; [|exact I1]. intros r [cd0 [Hi Hg]]. exists cd0. split; [now right|exact Hg].
      + destruct (IH _ _ _ _ Hw) as [I1 [I2 I3]]. split; [|split].
        * constructor; [exists cd; split; [now left|exact Hj]|].
          eapply Forall_impl; [|exact I1]. intros r0 [cd0 [Hi Hg]]. exists cd0. split; [now right|exact Hg].
        * intros _. specialize (I2 L1).
          change (total_size (codec_size g) (r :: rs'))
            with (size_of (codec_size g) r + total_size (codec_size g) rs')%N.
          unfold size_of. rewrite Hs. lia.
        * intros _. specialize (I3 L2).
          change (utotal_gas g (r :: rs')) with (ugas g r + utotal_gas g rs')%N. lia.
  Qed.

  (* every pending entry shown is an input commit report, unchanged or with exactly the sequence numbers of its chain
     report marked executed, that has no messages or more messages than executed entries *)
  Definition pending_entry (cds : list cdata) (rs : list creport) (x : cdata) : Prop :=
    (c_msgs x = [] \/ length (c_exec x) < length (c_msgs x)) /\
    (In x cds \/ exists cd r, In cd cds /\ In r rs /\ judged_report g h cd r /\ x = mark_executed r cd).
  (* every input commit report is accounted for: still pending unchanged; or it has messages and all are executed;
     or it has a chain report in the outcome and is pending with those marked, or is thereby fully executed *)
  Definition accounted (rs : list creport) (p : list cdata) (cd : cdata) : Prop :=
    In cd p \/ (c_msgs cd <> [] /\ length (c_msgs cd) <= length (c_exec cd)) \/
    exists r, In r rs /\ judged_report g h cd r /\
      (In (mark_executed r cd) p \/ length (c_msgs cd) <= length (c_exec (mark_executed r cd))).

  Lemma out_walk_pending : forall cds rs size gas p, out_walk g h size gas cds rs = Some p ->
    (forall x, In x p -> pending_entry cds rs x) /\ (forall cd, In cd cds -> accounted rs p cd).
  Proof.
    induction cds as [|cd cds IH]; intros rs size gas p H.
    - cbn [out_walk] in H. destruct rs; [|discriminate]. inversion H; subst. split; [intros x []|intros cd []].
    - destruct (out_walk_cons _ _ _ _ _ _ H) as [[p' [Hw ->]]|[r [rs' [sz [p' [-> [Hj [Hs [L1 [L2 [Hw ->]]]]]]]]]]].
      + destruct (IH _ _ _ _ Hw) as [I1 I2]. split.
        * intros x Hx. apply in_app_or in Hx. destruct Hx as [Hx|Hx].
          -- apply still_pending_In in Hx. destruct Hx as [-> Hc]. split; [exact Hc|]. left. now left.
          -- destruct (I1 x Hx) as [Hc [Hi|[cd0 [r [Hi [Hr [Hg He]]]]]]]; (split; [exact Hc|]).
             ++ left. now right.
             ++ right. exists cd0, r. split; [now right|]. auto.
        * intros cd0 [<-|Hi].
          -- destruct (c_msgs cd) as [|m ms] eqn:Em.
             ++ left. apply in_or_app. left. apply still_pending_In. split; [reflexivity|]. now left.
             ++ destruct (Nat.lt_ge_cases (length (c_exec cd)) (length (c_msgs cd))) as [Hl|Hl].
                ** left. apply in_or_app. left. apply still_pending_In. split; [reflexivity|]. now right.
                ** right. left. rewrite Em in *. split; [discriminate|exact Hl].
          -- destruct (I2 cd0 Hi) as [Hp|[Hf|[r [Hr [Hg Hc]]]]].
             ++ left. apply in_or_app. now right.
             ++ right. now left.
             ++ right. right. exists r. split; [exact Hr|]. split; [exact Hg|].
                destruct Hc as [Hc|Hc]; [left; apply in_or_app; now right|now right].
      + destruct (IH _ _ _ _ Hw) as [I1 I2]. split.
        * intros x Hx. apply in_app_or in Hx. destruct Hx as [Hx|Hx].
          -- apply still_pending_In in Hx. destruct Hx as [-> Hc]. split; [exact Hc|].
             right. exists cd, r. split; [now left|]. split; [now left|]. split; [exact Hj|reflexivity].
          -- destruct (I1 x Hx) as [Hc [Hi|[cd0 [r0 [Hi [Hr [Hg He]]]]]]]; (split; [exact Hc|]).
             ++ left. now right.
             ++ right. exists cd0, r0. split; [now right|]. split; [now right|]. auto.
        * intros cd0 [<-|Hi].
          -- right. right. exists r. split; [now left|]. split; [exact Hj|].
             destruct (Nat.lt_ge_cases (length (c_exec (mark_executed r cd))) (length (c_msgs cd))) as [Hl|Hl];
               [left|now right].
             apply in_or_app. left. apply still_pending_In. split; [reflexivity|]. right. exact Hl.
          -- destruct (I2 cd0 Hi) as [Hp|[Hf|[r0 [Hr [Hg Hc]]]]].
             ++ left. apply in_or_app. now right.
             ++ right. now left.
             ++ right. right. exists r0. split; [now right|]. split; [exact Hg|].
                destruct Hc as [Hc|Hc]; [left; apply in_or_app; now right|now right].
  Qed.
End OutJudge.

(* (b) soundness of out_ok on an arbitrary decoded outcome: every chain report is a judged report (provable against
   the committed root, made of eligible messages in order, token data aligned) of one of the pending commit reports
   of the previous outcome; the totals are inside maxReportLength and the BatchGasLimit; the pending list is accounted
   for.  Configuration = what the plugin SHOULD hand to the builder (out_cfg). *)
Definition out_prop (i : out_in) (o : out_out) : Prop :=
  let g := out_cfg i in
  let h := thash (mk_htable (g_table g)) in
  match o with
  | Ok (rs, pend) =>
      Forall (fun r => exists cd, In cd (snd i) /\ judged_report g h cd r) rs /\
      (total_size (codec_size g) rs <= plugin_max_report)%N /\
      (total_gas (tgas g) rs <= utotal_gas g rs)%N /\ (utotal_gas g rs <= g_max_gas g)%N /\
      (forall x, In x pend -> pending_entry g h (snd i) rs x) /\
      (forall cd, In cd (snd i) -> accounted g h rs pend cd)
  | Err => True
  | _ => False
  end.

Lemma out_cfg_max_size i : g_max_size (out_cfg i) = plugin_max_report.
Proof. destruct i as [[[g f] obs] cds]. reflexivity. Qed.

Lemma out_sound : forall i o, out_ok i o = true -> out_prop i o.
Proof.
  intros i o H. unfold out_ok in H. unfold out_prop. cbv zeta in *.
  destruct o as [[rs pend]| | |]; try discriminate; [|exact I].
  destruct (out_walk (out_cfg i) (thash (mk_htable (g_table (out_cfg i)))) 0 0 (snd i) rs) as [p|] eqn:Ew; [|discriminate].
  apply cdatas_eqb_eq in H.
  destruct (out_walk_reports _ _ _ _ _ _ _ Ew) as [R1 [R2 R3]].
  destruct (out_walk_pending _ _ _ _ _ _ _ Ew) as [P1 P2].
  specialize (R2 (N.le_0_l _)). specialize (R3 (N.le_0_l _)). rewrite out_cfg_max_size in R2.
  assert (Hin : forall x, In x pend <-> In x p) by (intros x; rewrite <- H; apply sort_by_in).
  split; [exact R1|]. split; [lia|]. split; [apply total_gas_le_utotal|]. split; [lia|]. split.
  - intros x Hx. apply P1. now apply Hin.
  - intros cd Hcd. destruct (P2 cd Hcd) as [Hp|[Hf|[r [Hr [Hg Hc]]]]].
    + left. now apply Hin.
    + right. now left.
    + right. right. exists r. split; [exact Hr|]. split; [exact Hg|].
      destruct Hc as [Hc|Hc]; [left; now apply Hin|now right].
Qed.

Lemma out_nonce_sound : forall i o, out_nonce_ok i o = true ->
  match o with
  | Ok (rs, _) =>
      uint_nonce_map (g_nonces (out_cfg i)) -> (forall r, In r rs -> uint_msg_nonces (r_msgs r)) ->
      nonce_run_reports (g_nonces (out_cfg i)) [] rs <> None
  | _ => True
  end.
Proof.
  intros i [[rs pend]| | |] H; try exact I. intros Hn Hrs. unfold out_nonce_ok in H.
  apply (nonce_ok_wrap (out_cfg i) Hn rs [] (Forall_nil _) Hrs). exact H.
Qed.

(* ---------- non-vacuity: concrete cases on which the executable properties hold ---------- *)
Module JS08Ex.
  Definition m1 := mkMsg 101 1 1 1 77 20 5.
  Definition m2 := mkMsg 102 1 2 2 77 20 5.
  Definition m3 := mkMsg 103 1 3 0 78 20 5.
  Definition gx := mkCfg [(101, 102, 5001); (103, 999, 5002); (5001, 5002, 6000)]%N 999 [((1, 77), 0)]%N 1000 1000 0 1 10 1999.
  Definition cdx := mkCD 1 6000 1 3 [] [m1; m2; m3] [] [[]; [(true, 7%N)]; []].
  Definition cdy := mkCD 1 6000 1 3 [2%N] [m1; m2; m3] [] [[]; [(true, 7%N)]; [(false, 8%N)]].
  Definition ix : out_in :=
    (gx, 1%N, [[((1, 77), 0)]; [((1, 77), 0)]; [((1, 77), 5)]]%N, [cdy; mkCD 2 0 0 0 [] [] [] []]).
End JS08Ex.

(* two Adds: the first appends a three-message report (two sequenced, one with token data), the second nothing *)
Example add_ok_example :
  let i := (JS08Ex.gx, [JS08Ex.cdx; JS08Ex.cdy]) in
  add_ok i (add_model i) = true /\ add_nonce_ok i (add_model i) = true /\
  map (fun r => map m_seq (r_msgs r)) (snd (add_model i)) = [[1; 2; 3]%N] /\ length (fst (add_model i)) = 2.
Proof. cbv zeta. repeat split; vm_compute; reflexivity. Qed.

Example add_wf_example : add_wf (JS08Ex.gx, [JS08Ex.cdx; JS08Ex.cdy]).
Proof.
  split; [reflexivity|]. split; [reflexivity|]. intros cd [<-|[<-|[]]]; (split; [cbn; lia|vm_compute; reflexivity]).
Qed.

(* an outcome with one chain report (message 1 of a commit report whose message 2 is executed and message 3 not ready)
   and two pending entries, nonces agreed by two of three oracles *)
Example out_ok_example :
  out_ok JS08Ex.ix (out_model JS08Ex.ix) = true /\ out_nonce_ok JS08Ex.ix (out_model JS08Ex.ix) = true /\
  exists r p1 p2, out_model JS08Ex.ix = Ok ([r], [p1; p2]) /\ map m_seq (r_msgs r) = [1%N] /\ c_exec p1 = [1; 2]%N.
Proof.
  split; [vm_compute; reflexivity|]. split; [vm_compute; reflexivity|].
  eexists. eexists. eexists. split; [vm_compute; reflexivity|]. split; reflexivity.
Qed.

(* ---------- (a) for the nonce clause: outside the recorded class (no Add of the run drops a ready sequenced message
   in the size / gas fallback) the reports of the whole run are in nonce order.  This is the full-strength clause of
   Props/C08.v (the one refuted inside the class by C08_nonce_order_refuted), proved for the model outside it. ---------- *)
Section NonceRun.
  Variable hash : N -> N -> N.
  Variable zero : N.
  Variable leaf_hash : msg -> option N.
  Variable enc_size : creport -> option N.
  Variable tree_gas : N -> N.
  Variable nonces : nmap.
  Variable max_size max_gas : N.
  Notation Add := (add hash zero leaf_hash enc_size tree_gas nonces max_size max_gas).
  Notation Drop := (fallback_drop hash zero leaf_hash enc_size tree_gas nonces max_size max_gas).
  Notation NRun := (ExecReportP.nonce_run nonces).

  (* the builder's expectedNonce map and the specification's map give every (chain, sender) the same expectation *)
  Definition agree (eb er : nmap) : Prop := forall c s, eff nonces c s eb = eff nonces c s er.

  Lemma nonce_run_sim cd : forall ms pre exp exp' ready idxs er,
    c_msgs cd = pre ++ ms ->
    check_all nonces exp cd (length pre) ms = Ok (exp', ready) ->
    asc idxs -> (forall i, In i idxs -> In i ready) ->
    (forall i, In i (adv_all nonces exp cd (length pre) ms) -> In i idxs) ->
    agree exp er ->
    exists er', NRun er (c_src cd) (select (c_msgs cd) idxs) = Some er' /\ agree exp' er'.
  Proof.
    induction ms as [|m ms IH]; intros pre exp exp' ready idxs er Hm Hc Hs Hsub Hadv Hag.
    - cbn in Hc. inversion Hc; subst exp' ready.
      destruct idxs as [|i idxs]; [|destruct (Hsub i (or_introl eq_refl))].
      exists er. split; [reflexivity|exact Hag].
    - cbn [check_all] in Hc.
      destruct (check_message nonces exp cd (length pre) m) as [[exp1 rdy]| | |] eqn:E1; try discriminate.
      cbn [rbind fst snd] in Hc.
      destruct (check_all nonces exp1 cd (S (length pre)) ms) as [[exp2 r2]| | |] eqn:E2; try discriminate.
      cbn [rbind fst snd] in Hc. inversion Hc; subst exp' ready; clear Hc.
      assert (Hm' : c_msgs cd = (pre ++ [m]) ++ ms) by (rewrite <- app_assoc; exact Hm).
      assert (Hl : length (pre ++ [m]) = S (length pre)) by (rewrite app_length; cbn; lia).
      rewrite <- Hl in E2.
      destruct (check_all_spec hash leaf_hash tree_gas nonces 0%N cd ms (pre ++ [m]) _ _ _ Hm' E2) as [_ Hr2].
      cbn [adv_all] in Hadv. rewrite E1 in Hadv. rewrite <- Hl in Hadv.
      assert (Hnth : nth_error (c_msgs cd) (length pre) = Some m).
      { rewrite Hm, nth_error_app2 by lia. now rewrite Nat.sub_diag. }
      assert (Hr2' : forall j, In j r2 -> S (length pre) <= j).
      { intros j Hj. destruct (Hr2 j Hj) as [Hj' _]. lia. }
      (* the message at this position is not in the report *)
      assert (Hskip : forall idxs0, asc idxs0 -> (forall j, In j idxs0 -> In j (if rdy then length pre :: r2 else r2)) ->
                (forall j, In j ((if advances nonces exp cd (length pre) m then [length pre] else []) ++
                                 adv_all nonces exp1 cd (length (pre ++ [m])) ms) -> In j idxs0) ->
                (forall j, In j idxs0 -> S (length pre) <= j) ->
                exists er', NRun er (c_src cd) (select (c_msgs cd) idxs0) = Some er' /\ agree exp2 er').
      { intros idxs0 Hs0 Hsub0 Hadv0 Hgt.
        assert (Ea : advances nonces exp cd (length pre) m = false).
        { destruct (advances nonces exp cd (length pre) m) eqn:Ea; [|reflexivity].
          specialize (Hgt _ (Hadv0 _ (or_introl eq_refl))). lia. }
        rewrite Ea in Hadv0. cbn [app] in Hadv0.
        apply (IH (pre ++ [m]) exp1 exp2 r2 idxs0 er Hm' E2 Hs0); [|exact Hadv0|].
        - intros j Hj. specialize (Hsub0 j Hj). destruct rdy; [|exact Hsub0].
          destruct Hsub0 as [<-|Hin]; [|exact Hin]. specialize (Hgt _ Hj). lia.
        - intros c s. destruct (check_message_eff nonces c s cd _ _ _ _ _ E1) as [_ [_ C3]].
          rewrite Ea in C3. cbn [andb] in C3. rewrite C3. apply Hag. }
      destruct idxs as [|i idxs']; [apply Hskip; try assumption; intros j []|].
      inversion Hs as [|? ? Hs' Hall]; subst. rewrite Forall_forall in Hall.
      destruct (Nat.eq_dec i (length pre)) as [->|Hne].
      2:{ apply Hskip; try assumption. intros j [<-|Hj].
          - specialize (Hsub i (or_introl eq_refl)). destruct rdy.
            + destruct Hsub as [E|Hin]; [congruence|now apply Hr2'].
            + now apply Hr2'.
          - specialize (Hall j Hj). specialize (Hsub i (or_introl eq_refl)).
            assert (S (length pre) <= i); [|lia].
            destruct rdy; [destruct Hsub as [E|Hin]; [congruence|now apply Hr2']|now apply Hr2']. }
      (* the message at this position is the next one of the report *)
      assert (Hrdy : rdy = true).
      { destruct rdy; [reflexivity|]. specialize (Hr2' _ (Hsub _ (or_introl eq_refl))). lia. }
      subst rdy. rewrite (select_cons _ _ _ _ Hnth).
      assert (Hsub' : forall j, In j idxs' -> In j r2).
      { intros j Hj. destruct (Hsub j (or_intror Hj)) as [E|Hin]; [|exact Hin]. specialize (Hall j Hj). lia. }
      assert (Hadv' : forall j, In j (adv_all nonces exp1 cd (length (pre ++ [m])) ms) -> In j idxs').
      { intros j Hj. destruct (Hadv j (in_or_app _ _ _ (or_intror Hj))) as [E|Hin]; [|exact Hin].
        destruct (check_all_eff hash leaf_hash tree_gas nonces 0%N 0%N cd ms (pre ++ [m]) _ _ _ Hm' E2)
          as [_ [Hge _]]. specialize (Hge j Hj). lia. }
      cbn [ExecReportP.nonce_run].
      destruct (N.eqb_spec (m_nonce m) 0) as [E0|E0].
      + apply (IH (pre ++ [m]) exp1 exp2 r2 idxs' er Hm' E2 Hs' Hsub' Hadv').
        intros c s. destruct (check_message_eff nonces c s cd _ _ _ _ _ E1) as [_ [C2 C3]].
        destruct (advances nonces exp cd (length pre) m); [destruct (C2 eq_refl) as [C _]; contradiction|].
        cbn [andb] in C3. rewrite C3. apply Hag.
      + destruct (check_message_eff nonces (c_src cd) (m_sender m) cd _ _ _ _ _ E1) as [C1 [_ C3]].
        destruct (C1 eq_refl) as [C|Ea]; [contradiction|]. rewrite Ea in C3.
        assert (Hk : key (c_src cd) (m_sender m) cd m = true).
        { unfold key. rewrite !N.eqb_refl. destruct (N.eqb_spec (m_nonce m) 0); [contradiction|reflexivity]. }
        rewrite Hk in C3. cbn [andb] in C3. destruct C3 as [e [Ee [En Ee1]]].
        pose proof (Hag (c_src cd) (m_sender m)) as Hag0. rewrite Ee in Hag0. unfold eff in Hag0.
        destruct (nlookup (c_src cd) (m_sender m) nonces) as [on|] eqn:Eon; [|discriminate].
        inversion Hag0 as [He]. rewrite <- He, <- En, N.eqb_refl.
        apply (IH (pre ++ [m]) exp1 exp2 r2 idxs' _ Hm' E2 Hs' Hsub' Hadv').
        intros c s. destruct (N.eq_dec c (c_src cd)) as [->|Hc]; [destruct (N.eq_dec s (m_sender m)) as [->|Hs0]|].
        * rewrite Ee1. unfold eff. rewrite Eon, nlookup_nupdate_same. now rewrite En.
        * destruct (check_message_eff nonces (c_src cd) s cd _ _ _ _ _ E1) as [_ [_ C3]].
          assert (Hk' : key (c_src cd) s cd m = false).
          { unfold key. destruct (N.eqb_spec (m_sender m) s); [congruence|]. now rewrite andb_false_r. }
          rewrite Hk', andb_false_r in C3. rewrite C3, (Hag (c_src cd) s). unfold eff.
          rewrite nlookup_nupdate_other by (intros H; inversion H; congruence). reflexivity.
        * destruct (check_message_eff nonces c s cd _ _ _ _ _ E1) as [_ [_ C3]].
          assert (Hk' : key c s cd m = false).
          { unfold key. destruct (N.eqb_spec (c_src cd) c); [congruence|]. now rewrite andb_false_r. }
          rewrite Hk', andb_false_r in C3. rewrite C3, (Hag c s). unfold eff.
          rewrite nlookup_nupdate_other by (intros H; inversion H; congruence). reflexivity.
  Qed.

  Lemma nonce_run_reports_app : forall a b exp,
    nonce_run_reports nonces exp (a ++ b) =
    match nonce_run_reports nonces exp a with Some e => nonce_run_reports nonces e b | None => None end.
  Proof.
    induction a as [|r a IH]; intros b exp; [reflexivity|]. cbn [app nonce_run_reports].
    destruct (NRun exp (r_src r) (r_msgs r)); [apply IH|reflexivity].
  Qed.

  Lemma add_nonce_run st cd st' cd' er :
    Add st cd = Ok (st', cd') -> Drop st cd = false -> agree (b_exp st) er ->
    exists new er', b_reports st' = b_reports st ++ new /\
      nonce_run_reports nonces er new = Some er' /\ agree (b_exp st') er' /\
      forall r, In r new -> incl (r_msgs r) (c_msgs cd).
  Proof.
    intros Ha Hleak Hag. unfold fallback_drop, included, ready_of in Hleak. unfold add in Ha. unfold build_single in *.
    destruct (check_all nonces (b_exp st) cd 0 (c_msgs cd)) as [[exp1 ready]| | |] eqn:Ec; try discriminate.
    destruct (check_all_spec hash leaf_hash tree_gas nonces 0%N cd (c_msgs cd) [] _ _ _ eq_refl Ec) as [Hs Hr].
    pose proof (check_all_eff hash leaf_hash tree_gas nonces 0%N 0%N cd (c_msgs cd) [] _ _ _ eq_refl Ec) as He.
    cbn [length] in He. cbn zeta in He.
    set (A := adv_all nonces (b_exp st) cd 0 (c_msgs cd)) in *.
    destruct He as [_ [_ [_ [E4 [E6 _]]]]].
    assert (Hseq : forall i, In i A -> sequenced_at cd i = true).
    { intros i Hi. destruct (E4 i Hi) as [m [Hm Hz]]. unfold sequenced_at. rewrite Hm.
      destruct (N.eqb_spec (m_nonce m) 0); [contradiction|reflexivity]. }
    assert (Hnone : (forall i, In i A -> False) -> st' = mkB (b_size st) (b_gas st) exp1 (b_reports st) ->
      exists new er', b_reports st' = b_reports st ++ new /\
        nonce_run_reports nonces er new = Some er' /\ agree (b_exp st') er' /\
        forall r, In r new -> incl (r_msgs r) (c_msgs cd)).
    { intros HA ->. exists [], er. cbn [b_reports b_exp]. rewrite app_nil_r. split; [reflexivity|].
      split; [reflexivity|]. split; [|intros r []].
      destruct (nonce_run_sim cd (c_msgs cd) [] (b_exp st) exp1 ready [] er eq_refl Ec (SSorted_nil _)
                  (fun i (H : In i []) => match H with end) (fun i Hi => match HA i Hi with end) Hag) as [er' [R1 R2]].
      cbn in R1. inversion R1; subst er'. exact R2. }
    destruct ready as [|i0 ready'].
    - inversion Ha; subst st' cd'; clear Ha. apply Hnone; [|reflexivity]. intros i Hi. destruct (E6 i Hi).
    - set (ready := i0 :: ready') in *.
      set (st1 := mkB (b_size st) (b_gas st) exp1 (b_reports st)) in *.
      destruct (choose hash zero leaf_hash enc_size tree_gas max_size max_gas st1 cd ready)
        as [[[[idxs r] meta]|]| | |] eqn:Ech; try discriminate.
      + destruct (choose_spec hash zero leaf_hash enc_size tree_gas max_size max_gas st1 cd ready idxs r meta) as [H1 [H2 [H3 [H4 H5]]]]; try assumption;
          [discriminate|].
        unfold finalize in *. inversion Ha; subst st' cd'; clear Ha. cbn [b_exp b_reports] in *.
        assert (Hin : forall i, In i idxs -> i < length (c_msgs cd)).
        { intros i Hi. destruct (Hr i (H3 i Hi)) as [Hi' _]. lia. }
        destruct (build_helper_spec hash zero leaf_hash enc_size tree_gas 0%N cd idxs r H1 H2 Hin H4)
          as [t [pf [_ [_ [_ [_ Hrr]]]]]].
        assert (HA : forall i, In i A -> In i idxs).
        { intros i Hi. apply mem_nat_In. destruct (mem_nat i idxs) eqn:Em; [reflexivity|].
          assert (existsb (fun i => sequenced_at cd i && negb (mem_nat i idxs)) ready = true); [|congruence].
          apply existsb_exists. exists i. split; [now apply E6|]. now rewrite (Hseq i Hi), Em. }
        destruct (nonce_run_sim cd (c_msgs cd) [] (b_exp st) exp1 ready idxs er eq_refl Ec H2 H3 HA Hag)
          as [er' [R1 R2]].
        exists [r], er'. split; [reflexivity|]. split; [|split; [exact R2|]].
        * cbn [nonce_run_reports]. rewrite Hrr. cbn [r_src r_msgs]. now rewrite R1.
        * intros r0 [<-|[]]. rewrite Hrr. cbn [r_msgs]. intros m Hm.
          destruct (select_In _ _ _ Hm) as [i [_ Hn]]. eapply nth_error_In. exact Hn.
      + inversion Ha; subst st' cd'; clear Ha. apply Hnone; [|reflexivity].
        intros i Hi.
        assert (existsb (fun i => sequenced_at cd i && negb (mem_nat i [])) ready = true); [|congruence].
        apply existsb_exists. exists i. split; [now apply E6|]. now rewrite (Hseq i Hi).
  Qed.
End NonceRun.

Lemma run_model_nonce g h : forall cds st outs stf er,
  run_model g h st cds = (outs, stf) -> known_run g h st cds = false ->
  agree (g_nonces g) (b_exp st) er -> nonce_run_reports (g_nonces g) [] (b_reports st) = Some er ->
  nonce_run_reports (g_nonces g) [] (b_reports stf) <> None.
Proof.
  induction cds as [|cd cds IH]; intros st outs stf er Hrun Hk Hag Hnr.
  - cbn in Hrun. inversion Hrun; subst. congruence.
  - cbn [run_model known_run] in Hrun, Hk. cbv zeta in Hrun. apply orb_false_iff in Hk. destruct Hk as [Hd Hk].
    destruct (add h (g_zero g) lhash (codec_size g) (tgas g) (g_nonces g) (g_max_size g) (g_max_gas g) st cd)
      as [[st1 cd1]| | |] eqn:Ea; try (inversion Hrun; subst; congruence).
    destruct (run_model g h st1 cds) as [outs' stf'] eqn:Er. inversion Hrun; subst outs stf; clear Hrun.
    destruct (add_nonce_run _ _ _ _ _ _ _ _ _ _ _ _ _ Ea Hd Hag) as [new [er1 [N1 [N2 [N3 _]]]]].
    apply (IH st1 outs' stf' er1 Er Hk N3). rewrite N1, nonce_run_reports_app, Hnr. exact N2.
Qed.

(* the messages of the model's reports are messages of the commit reports *)
Lemma run_model_msgs g h : forall cds st outs stf,
  run_model g h st cds = (outs, stf) ->
  forall r, In r (b_reports stf) -> In r (b_reports st) \/ exists cd, In cd cds /\ incl (r_msgs r) (c_msgs cd).
Proof.
  induction cds as [|cd cds IH]; intros st outs stf Hrun r Hr.
  - cbn in Hrun. inversion Hrun; subst. now left.
  - cbn [run_model] in Hrun. cbv zeta in Hrun.
    destruct (add h (g_zero g) lhash (codec_size g) (tgas g) (g_nonces g) (g_max_size g) (g_max_gas g) st cd)
      as [[st1 cd1]| | |] eqn:Ea; try (inversion Hrun; subst; now left).
    destruct (run_model g h st1 cds) as [outs' stf'] eqn:Er. inversion Hrun; subst outs stf; clear Hrun.
    destruct (IH _ _ _ Er r Hr) as [H1|[cd0 [H1 H2]]]; [|right; exists cd0; split; [now right|exact H2]].
    destruct (add_spec _ _ _ _ _ _ _ _ _ _ _ _ Ea) as [[A1 _]|[idxs [r0 [sz [A1 [_ [_ [_ [_ [A6 _]]]]]]]]]].
    + left. now rewrite <- A1.
    + rewrite A1 in H1. apply in_app_or in H1. destruct H1 as [H1|[<-|[]]]; [now left|].
      right. exists cd. split; [now left|]. destruct A6 as [t [pf [_ [_ [_ [_ ->]]]]]]. cbn [r_msgs].
      intros m Hm. destruct (select_In _ _ _ Hm) as [i [_ Hn]]. eapply nth_error_In. exact Hn.
Qed.

(* uint64 nonces on the input side: the on-chain nonces and the nonces of all messages *)
Definition uint_nonces (nonces : nmap) (cds : list cdata) : Prop :=
  uint_nonce_map nonces /\ forall cd, In cd cds -> uint_msg_nonces (c_msgs cd).

(* (a) outside the recorded class the model's own reports pass the nonce clause *)
Lemma add_nonce_model_passes : forall i, add_known i = 0%N -> uint_nonces (g_nonces (fst i)) (snd i) ->
  add_nonce_ok i (add_model i) = true.
Proof.
  intros [g cds] Hk [Hn Hm]. cbn [fst snd] in *. unfold add_known in Hk. unfold add_nonce_ok, add_model.
  destruct (known_run g (thash (mk_htable (g_table g))) b_init cds) eqn:Ek; [discriminate|].
  destruct (run_model g (thash (mk_htable (g_table g))) b_init cds) as [outs st] eqn:Er. cbn [fst snd]. unfold build.
  apply (nonce_ok_wrap g Hn (b_reports st) [] (Forall_nil _)).
  - intros r Hr. destruct (run_model_msgs _ _ _ _ _ _ Er r Hr) as [[]|[cd [Hc Hi]]].
    unfold uint_msg_nonces. rewrite Forall_forall. intros m Hmm.
    specialize (Hm cd Hc). unfold uint_msg_nonces in Hm. rewrite Forall_forall in Hm. apply Hm, Hi, Hmm.
  - apply (run_model_nonce g _ cds b_init outs st [] Er Ek); [intros c s; reflexivity|reflexivity].
Qed.

(* ================================ part out, (a): the model's outcome passes ================================ *)
Lemma sort_by_sorted_id {A} (le : A -> A -> bool) : forall l,
  StronglySorted (fun a b => le a b = true) l -> sort_by le l = l.
Proof.
  induction l as [|x l IH]; intros Hs; [reflexivity|]. inversion Hs as [|? ? Hs' Hall]; subst.
  cbn [sort_by]. rewrite (IH Hs'). destruct l as [|y l]; [reflexivity|]. cbn [insert_by].
  inversion Hall as [|? ? Hxy _]; subst. now rewrite Hxy.
Qed.

Lemma sel_match_incl cd rm rt : sel_match cd (c_msgs cd) (c_td cd) rm rt = true -> incl rm (c_msgs cd).
Proof.
  intros H. destruct (sel_match_sound cd (c_msgs cd) (c_td cd) [] [] rm rt eq_refl eq_refl eq_refl H)
    as [idxs [_ [_ [-> _]]]].
  intros m Hm. destruct (select_In _ _ _ Hm) as [i [_ Hn]]. eapply nth_error_In. exact Hn.
Qed.

(* two commit reports of the same source chain share no message (disjoint sequence-number ranges) *)
Definition sep (a b : cdata) : Prop := c_src a = c_src b -> forall m, In m (c_msgs a) -> ~ In m (c_msgs b).
Definition from_cd (cd : cdata) (r : creport) : Prop :=
  r_src r = c_src cd /\ r_msgs r <> [] /\ incl (r_msgs r) (c_msgs cd).

Lemma owns_from cd r : from_cd cd r -> owns cd r = true.
Proof.
  intros [H1 [H2 H3]]. unfold owns. rewrite H1, N.eqb_refl. cbn [andb].
  destruct (r_msgs r) as [|m ms]; [contradiction|]. apply existsb_exists. exists m.
  split; [apply H3; now left|now apply msg_eqb_eq].
Qed.
Lemma owns_sep cd cd' r : sep cd cd' -> from_cd cd' r -> owns cd r = false.
Proof.
  intros Hsep [H1 [H2 H3]]. unfold owns. destruct (N.eqb_spec (c_src cd) (r_src r)) as [E|E]; [|reflexivity].
  cbn [andb]. destruct (r_msgs r) as [|m ms]; [reflexivity|].
  destruct (existsb (msg_eqb m) (c_msgs cd)) eqn:Ex; [|reflexivity]. exfalso.
  apply existsb_exists in Ex. destruct Ex as [m' [Hin He]]. apply msg_eqb_eq in He. subst m'.
  apply (Hsep (eq_trans E H1) m Hin). apply H3. now left.
Qed.

Section OutModel.
  Variable g : cfg.
  Variable h : N -> N -> N.
  Hypothesis h_comm : forall a b, h a b = h b a.
  Notation Add := (add h (g_zero g) lhash (codec_size g) (tgas g) (g_nonces g) (g_max_size g) (g_max_gas g)).
  Notation Loop := (select_loop_with Add).
  Notation Budget := (budget_inv (codec_size g) (tgas g) (g_max_size g) (g_max_gas g)).

  Lemma add_no_crash st cd : Add st cd <> Panic /\ Add st cd <> Spin.
  Proof. unfold add. destruct (build_single _ _ _ _ _ _ _ _ st cd); split; discriminate. Qed.

  Lemma loop_no_crash : forall cds st, Loop st cds <> Panic /\ Loop st cds <> Spin.
  Proof.
    induction cds as [|cd cds IH]; intros st; [split; discriminate|]. cbn [select_loop_with].
    destruct (c_msgs cd) as [|m0 ms0].
    - destruct (IH st) as [I1 I2]. destruct (Loop st cds) as [x| | |]; cbn [rbind]; try contradiction; split; discriminate.
    - destruct (add_no_crash st cd) as [A1 A2]. destruct (Add st cd) as [y| | |]; cbn [rbind]; try contradiction;
        [|split; discriminate].
      destruct (IH (fst y)) as [I1 I2].
      destruct (Loop (fst y) cds) as [x| | |]; cbn [rbind]; try contradiction; split; discriminate.
  Qed.

  Lemma add_empty st cd : c_msgs cd = [] -> Add st cd = Ok (st, cd).
  Proof. intros E. destruct st as [a b c d]. unfold add, build_single. rewrite E. reflexivity. Qed.

  Lemma select_loop_walk : forall cds st st' pend,
    (g_max_size g < two64)%N -> (g_max_gas g < two64)%N -> (forall cd, In cd cds -> cd_wf g cd) ->
    ForallOrdPairs sep cds -> Budget st ->
    Loop st cds = Ok (st', pend) ->
    exists new, b_reports st' = b_reports st ++ new /\
      out_walk g h (b_size st) (b_gas st) cds new = Some pend /\
      Forall (fun r => exists cd, In cd cds /\ from_cd cd r) new /\
      (StronglySorted (fun a b => (c_src a <= c_src b)%N) cds ->
       StronglySorted (fun a b => N.leb (r_src a) (r_src b) = true) new).
  Proof.
    induction cds as [|cd cds IH]; intros st st' pend Hms Hmg Hwf Hsep Hinv Hsel.
    - cbn in Hsel. inversion Hsel; subst. exists []. rewrite app_nil_r. split; [reflexivity|].
      split; [reflexivity|]. split; constructor.
    - inversion Hsep as [|? ? Hsep1 Hsep2]; subst.
      assert (Hwf' : forall c, In c cds -> cd_wf g c) by (intros c Hc; apply Hwf; now right).
      assert (Hlift : forall l, Forall (fun r => exists cd0, In cd0 cds /\ from_cd cd0 r) l ->
                                Forall (fun r => exists cd0, In cd0 (cd :: cds) /\ from_cd cd0 r) l).
      { intros l Hl. eapply Forall_impl; [|exact Hl]. intros r [cd0 [Hi Hf]]. exists cd0. split; [now right|exact Hf]. }
      (* the walk passes over a commit report that got no chain report *)
      assert (Hpass : forall new p2, Forall (fun r => exists cd0, In cd0 cds /\ from_cd cd0 r) new ->
                out_walk g h (b_size st) (b_gas st) cds new = Some p2 ->
                out_walk g h (b_size st) (b_gas st) (cd :: cds) new = Some (still_pending cd ++ p2)).
      { intros new p2 Hnew Hw. cbn [out_walk]. destruct new as [|r new']; [now rewrite Hw|].
        inversion Hnew as [|? ? [cd0 [Hi Hf]] _]; subst. rewrite Forall_forall in Hsep1.
        rewrite (owns_sep cd cd0 r (Hsep1 cd0 Hi) Hf). now rewrite Hw. }
      cbn [select_loop_with] in Hsel. destruct (c_msgs cd) as [|m0 ms0] eqn:Em.
      + destruct (Loop st cds) as [[st2 p2]| | |] eqn:E2; cbn [rbind fst snd] in Hsel; try discriminate.
        inversion Hsel; subst st' pend; clear Hsel.
        destruct (IH _ _ _ Hms Hmg Hwf' Hsep2 Hinv E2) as [new [I1 [I2 [I3 I4]]]].
        exists new. split; [exact I1|]. split; [|split; [now apply Hlift|]].
        * rewrite (Hpass new p2 I3 I2). unfold still_pending. now rewrite Em.
        * intros Hs. inversion Hs; subst. now apply I4.
      + destruct (Add st cd) as [[st1 cd1]| | |] eqn:Ea; cbn [rbind fst snd] in Hsel; try discriminate.
        destruct (Loop st1 cds) as [[st2 p2]| | |] eqn:E2; cbn [rbind fst snd] in Hsel; try discriminate.
        inversion Hsel; subst st' pend; clear Hsel.
        pose proof (add_budget _ _ _ _ _ _ _ _ _ _ _ _ Hms Hmg Hinv Ea) as Hinv1.
        destruct (IH _ _ _ Hms Hmg Hwf' Hsep2 Hinv1 E2) as [new [I1 [I2 [I3 I4]]]].
        destruct (add_spec _ _ _ _ _ _ _ _ _ _ _ _ Ea) as [[A1 [A2 [A3 A4]]]|[idxs [r [sz [A1 _]]]]].
        * subst cd1. exists new. rewrite I1, A1. split; [reflexivity|]. rewrite A3, A4 in I2.
          split; [|split; [now apply Hlift|]].
          -- rewrite (Hpass new p2 I3 I2). unfold still_pending. rewrite Em.
             destruct (Nat.ltb (length (c_exec cd)) (length (m0 :: ms0))); reflexivity.
          -- intros Hs. inversion Hs; subst. now apply I4.
        * destruct (add_step_checks g h h_comm st cd st1 cd1 r Hms Hmg (Hwf cd (or_introl eq_refl)) Hinv Ea A1)
            as [C1 [C2 [C3 [C4 [C5 [C6 [sz' [C7 [C8 [C9 [C10 C11]]]]]]]]]]].
          assert (Hfrom : from_cd cd r).
          { split; [exact C3|]. split; [exact C4|]. now apply sel_match_incl with (rt := r_td r). }
          exists (r :: new). rewrite I1, A1, <- app_assoc. split; [reflexivity|]. split; [|split].
          -- cbn [out_walk]. rewrite (owns_from cd r Hfrom), C1, C2, C5, C7. cbn [andb].
             fold (usum (r_msgs r)).
             replace (b_gas st + usum (r_msgs r) + tgas g (N.of_nat (length (r_msgs r))))%N with (b_gas st1)
               by (rewrite C9; unfold ugas; lia).
             rewrite <- C8. rewrite (proj2 (N.leb_le _ _) C10), (proj2 (N.leb_le _ _) C11). cbn [andb].
             rewrite I2. unfold mark_executed in C6. rewrite <- C6.
             unfold still_pending. replace (c_msgs cd1) with (c_msgs cd) by (rewrite C6; reflexivity). rewrite Em.
             destruct (Nat.ltb (length (c_exec cd1)) (length (m0 :: ms0))); reflexivity.
          -- constructor; [exists cd; split; [now left|exact Hfrom]|now apply Hlift].
          -- intros Hs. inversion Hs as [|? ? Hs' Hall]; subst. constructor; [now apply I4|].
             rewrite Forall_forall in *. intros r' Hr'. destruct (I3 r' Hr') as [cd0 [Hi [Hf _]]].
             apply N.leb_le. rewrite C3, Hf. now apply Hall.
  Qed.

  (* the nonce order of the reports selectReport builds, outside the recorded class *)
  Lemma loop_nonce : forall cds st st' pend er,
    Loop st cds = Ok (st', pend) -> known_run g h st cds = false ->
    agree (g_nonces g) (b_exp st) er -> nonce_run_reports (g_nonces g) [] (b_reports st) = Some er ->
    nonce_run_reports (g_nonces g) [] (b_reports st') <> None.
  Proof.
    induction cds as [|cd cds IH]; intros st st' pend er Hsel Hk Hag Hnr.
    - cbn in Hsel. inversion Hsel; subst. congruence.
    - cbn [select_loop_with] in Hsel. cbn [known_run] in Hk. apply orb_false_iff in Hk. destruct Hk as [Hd Hk].
      destruct (c_msgs cd) as [|m0 ms0] eqn:Em.
      + rewrite (add_empty st cd Em) in Hk.
        destruct (Loop st cds) as [[st2 p2]| | |] eqn:E2; cbn [rbind fst snd] in Hsel; try discriminate.
        inversion Hsel; subst st' pend. exact (IH _ _ _ _ E2 Hk Hag Hnr).
      + destruct (Add st cd) as [[st1 cd1]| | |] eqn:Ea; cbn [rbind fst snd] in Hsel; try discriminate.
        destruct (Loop st1 cds) as [[st2 p2]| | |] eqn:E2; cbn [rbind fst snd] in Hsel; try discriminate.
        inversion Hsel; subst st' pend.
        destruct (add_nonce_run _ _ _ _ _ _ _ _ _ _ _ _ _ Ea Hd Hag) as [new [er1 [N1 [N2 [N3 _]]]]].
        apply (IH _ _ _ er1 E2 Hk N3). rewrite N1, nonce_run_reports_app, Hnr. exact N2.
  Qed.
End OutModel.

(* harness-side well-formedness of an out input: the BatchGasLimit is a uint64 value, commit reports have at most 256
   messages and gas that cannot wrap, commit reports of one chain share no message, and the pending commit reports
   come in the order of the previous outcome's encoding (by source chain) *)
Definition out_wf (i : out_in) : Prop :=
  (g_max_gas (out_cfg i) < two64)%N /\ (forall cd, In cd (snd i) -> cd_wf (out_cfg i) cd) /\
  ForallOrdPairs sep (snd i) /\ StronglySorted (fun a b => (c_src a <= c_src b)%N) (snd i).

Lemma out_model_run i : out_wf i ->
  let g := out_cfg i in
  match select_report (thash (mk_htable (g_table g))) (g_zero g) lhash (codec_size g) (tgas g) (g_nonces g)
          (g_max_size g) (g_max_gas g) (snd i) with
  | Ok (rs, pend) =>
      sort_reports rs = rs /\
      out_walk g (thash (mk_htable (g_table g))) 0 0 (snd i) rs = Some pend /\
      (forall r, In r rs -> exists cd, In cd (snd i) /\ from_cd cd r)
  | Err => True
  | _ => False
  end.
Proof.
  intros [Hmg [Hwf [Hsep Hsort]]]. cbv zeta. unfold select_report, select_loop.
  set (g := out_cfg i) in *. set (h := thash (mk_htable (g_table g))).
  assert (Hms : (g_max_size g < two64)%N).
  { unfold g. rewrite out_cfg_max_size. unfold plugin_max_report, two64. lia. }
  pose proof (loop_no_crash g h (snd i) b_init) as [Hp Hs].
  destruct (select_loop_with (add h (g_zero g) lhash (codec_size g) (tgas g) (g_nonces g) (g_max_size g) (g_max_gas g))
              b_init (snd i)) as [[st pend]| | |] eqn:E; cbn [rbind fst snd]; try contradiction; [|exact I].
  destruct (select_loop_walk g h (thash_comm _) (snd i) b_init st pend Hms Hmg Hwf Hsep (budget_init h _ _ _ _) E)
    as [new [W1 [W2 [W3 W4]]]].
  cbn [b_init b_reports b_size b_gas app] in W1, W2. unfold build. rewrite W1.
  split; [apply sort_by_sorted_id; now apply W4|]. split; [exact W2|].
  intros r Hr. rewrite Forall_forall in W3. now apply W3.
Qed.

Lemma out_model_passes : forall i, out_wf i -> out_ok i (out_model i) = true.
Proof.
  intros i Hwf. pose proof (out_model_run i Hwf) as H. cbv zeta in H. unfold out_model, out_ok. cbv zeta.
  destruct (select_report _ _ _ _ _ _ _ _ (snd i)) as [[rs pend]| | |]; try contradiction; [|reflexivity].
  destruct H as [H1 [H2 _]]. rewrite H1, H2. now apply cdatas_eqb_eq.
Qed.

Lemma out_nonce_model_passes : forall i, out_known i = 0%N -> out_wf i ->
  uint_nonces (g_nonces (out_cfg i)) (snd i) -> out_nonce_ok i (out_model i) = true.
Proof.
  intros i Hk Hwf [Hn Hm]. pose proof (out_model_run i Hwf) as H. cbv zeta in H.
  unfold out_known in Hk. unfold out_model, out_nonce_ok. cbv zeta.
  set (g := out_cfg i) in *. set (h := thash (mk_htable (g_table g))) in *.
  destruct (known_run g h b_init (snd i)) eqn:Ek; [discriminate|].
  unfold select_report, select_loop in *.
  destruct (select_loop_with (add h (g_zero g) lhash (codec_size g) (tgas g) (g_nonces g) (g_max_size g) (g_max_gas g))
              b_init (snd i)) as [[st pend]| | |] eqn:E; cbn [rbind fst snd] in *; try contradiction; [|reflexivity].
  destruct H as [H1 [_ H3]]. rewrite H1. unfold build in *.
  apply (nonce_ok_wrap g Hn (b_reports st) [] (Forall_nil _)).
  - intros r Hr. destruct (H3 r Hr) as [cd [Hc [_ [_ Hi]]]].
    unfold uint_msg_nonces. rewrite Forall_forall. intros m Hmm.
    specialize (Hm cd Hc). unfold uint_msg_nonces in Hm. rewrite Forall_forall in Hm. apply Hm, Hi, Hmm.
  - apply (loop_nonce g h (snd i) b_init st pend [] E Ek); [intros c s; reflexivity|reflexivity].
Qed.

Example out_wf_example : out_wf JS08Ex.ix.
Proof.
  split; [reflexivity|]. split; [|split].
  - intros cd [<-|[<-|[]]]; (split; [cbn; lia|vm_compute; reflexivity]).
  - constructor; [|constructor; [constructor|constructor]]. constructor; [|constructor]. intros E. discriminate.
  - repeat constructor. cbn. lia.
Qed.

(* JudgeSoundC04LiveP.v — the liveness theorems of Props/C04.v (8.-10.) and the judge of sink C04_round.
   rd_ok (Check/C04_check.v) carries the round-level liveness steps (rd_live_ok).  Here:
     rd_select_round / rd_build_round : the two steps of C04_liveness (CommitLiveP.select_round / build_round) with an
        ARBITRARY outcome that passes rd_ok in the place of the model's, hypotheses = round_live verbatim (same-view
        honest quorum; through C04_honest_quorum_consensus, 8.);
     rd_build_round_true_root         : ... and the root reported is the true one (10., through C04_agreed_root_true);
     judged_liveness                  : C04_liveness (9.) for EVERY history of outcomes whose rounds each pass rd_ok,
        each round judged with the outcome that precedes it - the statement of 9. with the implementation's outcomes in
        the place of sys_run's. *)
Require Import Verif.Model.Base Verif.Proofs.BaseP Verif.Model.Consensus Verif.Proofs.ConsensusP
               Verif.Model.SeqRange Verif.Model.CommitMerkle Verif.Proofs.CommitMerkleP
               Verif.Model.CommitConsensus Verif.Proofs.CommitConsensusP
               Verif.Model.CommitSys Verif.Proofs.CommitSysP Verif.Proofs.CommitSysConsP
               Verif.Model.CommitLive Verif.Proofs.CommitLiveP.
Require Verif.Model.CommitSM Verif.Proofs.CommitSMP.
Require Verif.Check.C03_check Verif.Check.C04_check Verif.Proofs.JudgeSoundC03P Verif.Proofs.JudgeSoundC04P.
From Coq Require Import ZifyN ZifyNat ZifyBool.
Module K := Verif.Check.C04_check.
Module J := Verif.Proofs.JudgeSoundC04P.
Module J3 := Verif.Proofs.JudgeSoundC03P.

Local Notation state o := (SM.next_state (SM.o_type o)).

(* the round function of the sink is the one of Model/CommitLive.v with the RMN remote config taken as empty *)
Lemma rd_cons_live F dest aos : K.round_cons F dest aos = round_cons lx_cfg F dest aos.
Proof. reflexivity. Qed.

Section Steps.
  Variables (F : Z) (dest max n : N) (prev : SM.outcome) (retry : bool) (aos : list aobs) (o : SM.outcome).
  Variables (roles : roles_t) (known : list N) (k : N) (f fd : Z) (readable : N -> N -> Prop).
  Hypothesis Hok : K.rd_ok (F, dest, max, n, prev, retry, aos) o = true.
  Hypotheses (HF : (0 <= F < 2^63)%Z) (Hf : (f < 2^63)%Z) (Hfd : (fd < 2^63)%Z).

  (* the selecting step of C04_liveness on the implementation's outcome *)
  Lemma rd_select_round :
    (1 <= n)%N -> state prev = SM.Selecting ->
    round_live F dest roles known k f fd readable n prev (SM.mkQuery retry None, aos) ->
    exists off on,
      same_view offramp_kv aos k fd off /\ same_view onramp_kv aos k f on /\ (off <= on)%N /\
      readable off (N.min on (off + n - 1)) /\
      SM.o_type o = SM.T_selected /\ In (k, (off, N.min on (off + n - 1))) (SM.o_ranges o).
  Proof.
    intros Hn St HL. unfold round_live in HL. rewrite St in HL. cbn [fst snd SM.q_retry] in HL.
    destruct HL as [Hv [Hu [[Vd Vk] [off [on [Voff [Von [Hle Hrd]]]]]]]].
    destruct (honest_quorum_consensus _ roles known dest aos Hv F fd k f HF Hf Hfd Vd Vk)
      as [c [Hc [_ [Hfk [_ [Hon Hoff]]]]]].
    specialize (Hon _ Von). specialize (Hoff _ Voff).
    exists off, on. split; [exact Voff|]. split; [exact Von|]. split; [exact Hle|]. split; [exact Hrd|].
    destruct (get_consensus_inv _ roles known dest aos Hv F c Hc) as [_ [[fd' [_ Eoff]] [_ [Eon _]]]].
    assert (ND : NoDup (map fst (c_offramp c))).
    { rewrite Eoff. apply consensus_map_keys_nodup, agg_map_keys_nodup. }
    assert (Hu64 : forall kk m, alookup kk (c_onramp c) = Some m -> u64 m).
    { intros kk m Hm. apply alookup_In in Hm. rewrite Eon in Hm.
      apply (consensus_value_reported onramp_kv N.eqb N_eqb_reflect) in Hm.
      destruct Hm as [o' [ob [Hi Hg]]]. exact (Hu o' ob kk m Hi Hg). }
    apply J.rd_ok_sound in Hok. cbn [J.rd_P] in Hok. destruct Hok as [_ [_ [S _]]].
    assert (Ec : K.round_cons F dest aos = Some (K.conv_cons c)) by (unfold K.round_cons; now rewrite Hc).
    apply (S (K.conv_cons c) k off on Ec St); cbn [K.conv_cons SM.c_off SM.c_on]; try assumption.
    now apply alookup_In.
  Qed.

  (* the building step of C04_liveness on the implementation's outcome (no bundle in this sink: bundle_covers holds) *)
  Lemma rd_build_round s e :
    state prev = SM.Building -> retry = false ->
    round_live F dest roles known k f fd readable n prev (SM.mkQuery retry None, aos) ->
    In (k, (s, e)) (SM.o_ranges prev) -> readable s e ->
    exists a rt,
      valid_input false roles known dest aos /\ fchain_view F dest k f fd aos /\
      same_view roots_kv aos k f (k, a, (s, e), rt) /\
      SM.o_type o = SM.T_generated /\ In (k, (s, e), a, rt) (SM.o_roots o).
  Proof.
    intros St Hq HL Hin Hrd. subst retry. unfold round_live in HL. rewrite St in HL. cbn [fst snd SM.q_retry] in HL.
    destruct (HL eq_refl) as [Hv [[Vd Vk] Hroots]].
    destruct (Hroots s e Hin Hrd) as [a [rt [Vr _]]].
    destruct (honest_quorum_consensus _ roles known dest aos Hv F fd k f HF Hf Hfd Vd Vk)
      as [c [Hc [_ [Hfk [Hr _]]]]].
    specialize (Hr _ Vr).
    exists a, rt. split; [exact Hv|]. split; [split; assumption|]. split; [exact Vr|].
    apply J.rd_ok_sound in Hok. cbn [J.rd_P] in Hok. destruct Hok as [_ [_ [_ B]]].
    assert (Ec : K.round_cons F dest aos = Some (K.conv_cons c)) by (unfold K.round_cons; now rewrite Hc).
    apply (B (K.conv_cons c) (k, (s, e), a, rt) Ec St eq_refl).
    cbn [K.conv_cons SM.c_roots]. apply alookup_In in Hr. apply in_map_iff.
    exists (k, (k, a, (s, e), rt)). split; [reflexivity|exact Hr].
  Qed.

  (* ... and the root it reports for k is the true one (C04_liveness_true_root's step: C04_agreed_root_true) *)
  Lemma rd_build_round_true_root h zero log s e :
    state prev = SM.Building -> retry = false ->
    round_live F dest roles known k f fd readable n prev (SM.mkQuery retry None, aos) ->
    honest_round h zero log f prev (SM.mkQuery retry None, aos) ->
    In (k, (s, e)) (SM.o_ranges prev) -> readable s e ->
    exists a rt,
      SM.o_type o = SM.T_generated /\ In (k, (s, e), a, rt) (SM.o_roots o) /\ true_root h zero log k s e rt.
  Proof.
    intros St Hq HL Hhon Hin Hrd.
    destruct (rd_build_round s e St Hq HL Hin Hrd) as [a [rt [Hv [[Vd Vk] [Vr [T R]]]]]].
    exists a, rt. split; [exact T|]. split; [exact R|].
    subst retry. destruct (Hhon St eq_refl) as [Bz [NDB [HB Hhr]]]. cbn [snd] in Hhr.
    destruct (honest_quorum_consensus _ roles known dest aos Hv F fd k f HF Hf Hfd Vd Vk)
      as [c [Hc [_ [Hfk [Hr _]]]]].
    specialize (Hr _ Vr).
    exact (proj2 (agreed_root_is_true_root h zero log _ roles known dest aos F c k f Bz Hv Hc Hfk Hf NDB HB Hhr
                   _ _ _ _ _ Hr)).
  Qed.
End Steps.

(* ====================================================================================================== *)
(*  C04_liveness (9.) over histories of JUDGED outcomes                                                     *)
(* ====================================================================================================== *)
(* A judged history: rounds (query without bundle, validated attributed observations) each paired with the outcome
   the implementation produced; every round passes rd_ok with the outcome that precedes it as previous outcome (the
   harness feeds each outcome back as the next round's previous outcome; each pair is one case of sink C04_round). *)
Definition jround := (round * SM.outcome)%type.

Section Judged.
  Variables (F : Z) (dest max n : N).

  Fixpoint judged (prev : SM.outcome) (tr : list jround) : Prop :=
    match tr with
    | [] => True
    | (r, o) :: t =>
        SM.q_sigs (fst r) = None /\
        K.rd_ok (F, dest, max, n, prev, SM.q_retry (fst r), snd r) o = true /\ judged o t
    end.
  (* P holds of every round, each taken with the (implementation's) outcome that precedes it *)
  Fixpoint live_all (P : SM.outcome -> round -> Prop) (prev : SM.outcome) (tr : list jround) : Prop :=
    match tr with [] => True | (r, o) :: t => P prev r /\ live_all P o t end.
  Fixpoint last_out (prev : SM.outcome) (tr : list jround) : SM.outcome :=
    match tr with [] => prev | (_, o) :: t => last_out o t end.
  Definition retry_round (prev : SM.outcome) (r : round) : bool :=
    SM.state_eqb (state prev) SM.Building && SM.q_retry (fst r).
  (* number of rounds that are not RMN-retry rounds *)
  Fixpoint eff_tr (prev : SM.outcome) (tr : list jround) : N :=
    match tr with
    | [] => 0%N
    | (r, o) :: t => ((if retry_round prev r then 0 else 1) + eff_tr o t)%N
    end.

  Lemma retry_round_is prev r cfg_of : retry_round prev r = SMP.is_retry prev (to_round_in cfg_of F dest r).
  Proof. reflexivity. Qed.

  Lemma judged_app : forall t1 t2 prev, judged prev (t1 ++ t2) <-> judged prev t1 /\ judged (last_out prev t1) t2.
  Proof.
    induction t1 as [|[r o] t1 IH]; intros t2 prev; cbn [app judged last_out]; [tauto|]. rewrite IH. tauto.
  Qed.
  Lemma live_all_app P : forall t1 t2 prev,
    live_all P prev (t1 ++ t2) <-> live_all P prev t1 /\ live_all P (last_out prev t1) t2.
  Proof.
    induction t1 as [|[r o] t1 IH]; intros t2 prev; cbn [app live_all last_out]; [tauto|]. rewrite IH. tauto.
  Qed.
  Lemma eff_tr_app : forall t1 t2 prev, eff_tr prev (t1 ++ t2) = (eff_tr prev t1 + eff_tr (last_out prev t1) t2)%N.
  Proof.
    induction t1 as [|[r o] t1 IH]; intros t2 prev; cbn [app eff_tr last_out]; [reflexivity|]. rewrite IH. lia.
  Qed.
  Lemma last_out_app : forall t1 t2 prev, last_out prev (t1 ++ t2) = last_out (last_out prev t1) t2.
  Proof. induction t1 as [|[r o] t1 IH]; intros t2 prev; cbn [app last_out]; [reflexivity|]. apply IH. Qed.

  (* what one judged round gives (C03 clauses of rd_ok): an RMN-retry round reproduces the previous outcome, any other
     round makes progress towards the selecting state *)
  Lemma judged_round prev r o :
    SM.q_sigs (fst r) = None -> K.rd_ok (F, dest, max, n, prev, SM.q_retry (fst r), snd r) o = true ->
    (retry_round prev r = true -> o = prev) /\
    (u64 max -> retry_round prev r = false -> (0 < SMP.rounds_left max prev)%N ->
     (SMP.rounds_left max o < SMP.rounds_left max prev)%N).
  Proof.
    intros _ H. apply J.rd_ok_sound in H. cbn [J.rd_P] in H. destruct H as [[_ [_ [_ [R P]]]] _].
    cbn [fst snd SM.q_retry] in R, P. split.
    - unfold retry_round. intros E. apply andb_true_iff in E. destruct E as [E1 E2]. apply R; [|exact E2].
      destruct (state prev); cbn in E1; congruence.
    - intros Hm E L. apply P; [exact Hm| |exact L]. exact E.
  Qed.

  Lemma rounds_left_zero o : SMP.rounds_left max o = 0%N -> state o = SM.Selecting.
  Proof.
    unfold SMP.rounds_left, SMP.wait_left. destruct (state o); [reflexivity| |]; intros Z.
    - destruct (N.ltb (add64 0 1) max); lia.
    - destruct (N.ltb (add64 (SM.o_attempts o) 1) max); lia.
  Qed.

  (* C03_recovery along a judged history: the selecting state is reached within rounds_left <= max+2 non-retry rounds *)
  Lemma recovery_tr : u64 max -> forall tr prev,
    judged prev tr -> (SMP.rounds_left max prev <= eff_tr prev tr)%N ->
    exists t1 t2, tr = t1 ++ t2 /\ (eff_tr prev t1 <= SMP.rounds_left max prev)%N /\
                  state (last_out prev t1) = SM.Selecting.
  Proof.
    intros Hm. induction tr as [|[r o] tr IH]; intros prev Hj He.
    - exists [], []. cbn [eff_tr] in He. split; [reflexivity|]. split; [cbn; lia|].
      cbn [last_out]. apply rounds_left_zero. lia.
    - destruct (N.eq_dec (SMP.rounds_left max prev) 0) as [Z|NZ].
      + exists [], ((r, o) :: tr). split; [reflexivity|]. split; [cbn; lia|]. now apply rounds_left_zero.
      + cbn [judged] in Hj. destruct Hj as [Hs [Hok Hj]]. destruct (judged_round prev r o Hs Hok) as [Rid Prog].
        cbn [eff_tr] in He. destruct (retry_round prev r) eqn:R.
        * rewrite (Rid eq_refl) in *. destruct (IH prev Hj) as [t1 [t2 [E [K2 K3]]]]; [lia|].
          exists ((r, prev) :: t1), t2. split; [now rewrite E|]. cbn [eff_tr last_out]. rewrite R. split; [lia|exact K3].
        * pose proof (Prog Hm eq_refl ltac:(lia)) as D.
          destruct (IH o Hj) as [t1 [t2 [E [K2 K3]]]]; [lia|].
          exists ((r, o) :: t1), t2. split; [now rewrite E|]. cbn [eff_tr last_out]. rewrite R. split; [lia|exact K3].
  Qed.

  (* RMN-retry rounds leave the building state untouched; the next other round comes *)
  Lemma skip_retries_tr : forall tr prev,
    judged prev tr -> state prev = SM.Building -> (1 <= eff_tr prev tr)%N ->
    exists mid r o post, tr = mid ++ (r, o) :: post /\ last_out prev mid = prev /\ eff_tr prev mid = 0%N /\
                         SM.q_retry (fst r) = false.
  Proof.
    induction tr as [|[r o] tr IH]; intros prev Hj St He; [cbn in He; lia|].
    cbn [judged] in Hj. destruct Hj as [Hs [Hok Hj]]. destruct (judged_round prev r o Hs Hok) as [Rid _].
    destruct (SM.q_retry (fst r)) eqn:Q.
    - assert (R : retry_round prev r = true) by (unfold retry_round; rewrite St, Q; reflexivity).
      rewrite (Rid R) in *. cbn [eff_tr] in He. rewrite R in He.
      destruct (IH prev Hj St) as [mid [r' [o' [post [E [L [Z Q']]]]]]]; [lia|].
      exists ((r, prev) :: mid), r', o', post. split; [now rewrite E|]. cbn [last_out eff_tr]. rewrite R.
      split; [exact L|]. split; [lia|exact Q'].
    - exists [], r, o, tr. repeat split. exact Q.
  Qed.

  (* C04_liveness with the implementation's outcomes in the place of sys_run's: for every judged history in which each
     round offers round_live (taken with the implementation's previous outcome), once (max+2)+2 rounds that are not
     RMN-retry rounds have happened there has been a selecting round r1 with the quorum's view (off, on) of k,
     off <= on, followed - only RMN-retry rounds in between - by a round r2 whose OUTCOME o2 is a generated report with
     a root of k over [off, min(on, off+n-1)]; r2 is at most the (max+2)+2-th non-retry round. *)
  Theorem judged_liveness_core roles known k f fd (readable : N -> N -> Prop) prev tr :
    u64 max -> (1 <= n)%N -> (0 <= F < 2^63)%Z -> (f < 2^63)%Z -> (fd < 2^63)%Z ->
    judged prev tr ->
    live_all (round_live F dest roles known k f fd readable n) prev tr ->
    (max + 2 + 2 <= eff_tr prev tr)%N ->
    exists pre r1 o1 mid r2 o2 post off on a rt,
      tr = pre ++ (r1, o1) :: mid ++ (r2, o2) :: post /\
      (eff_tr prev (pre ++ (r1, o1) :: mid ++ [(r2, o2)]) <= max + 2 + 2)%N /\
      state (last_out prev pre) = SM.Selecting /\
      same_view offramp_kv (snd r1) k fd off /\ same_view onramp_kv (snd r1) k f on /\ (off <= on)%N /\
      readable off (N.min on (off + n - 1)) /\
      (* r1 selected the interval; mid: RMN-retry rounds only; r2: the building round, judged against o1 *)
      state o1 = SM.Building /\ In (k, (off, N.min on (off + n - 1))) (SM.o_ranges o1) /\
      last_out o1 mid = o1 /\ SM.q_retry (fst r2) = false /\
      K.rd_ok (F, dest, max, n, o1, SM.q_retry (fst r2), snd r2) o2 = true /\
      round_live F dest roles known k f fd readable n o1 (SM.mkQuery (SM.q_retry (fst r2)) None, snd r2) /\
      SM.o_type o2 = SM.T_generated /\ In (k, (off, N.min on (off + n - 1)), a, rt) (SM.o_roots o2).
  Proof.
    intros Hm Hn HF Hf Hfd Hj Hl He.
    pose proof (SMP.rounds_left_bound max prev) as B.
    destruct (recovery_tr Hm tr prev Hj ltac:(lia)) as [pre [l2 [E [K2 Ssel]]]]. subst tr.
    apply judged_app in Hj. destruct Hj as [_ Hj]. apply live_all_app in Hl. destruct Hl as [_ Hl].
    rewrite eff_tr_app in He. set (p1 := last_out prev pre) in *.
    destruct l2 as [|[r1 o1] l3]; [cbn in He; lia|].
    cbn [judged] in Hj. destruct Hj as [Hs1 [Hok1 Hj]]. cbn [live_all] in Hl. destruct Hl as [HL1 Hl].
    destruct r1 as [q1 aos1]. cbn [fst snd] in *.
    assert (Eq1 : q1 = SM.mkQuery (SM.q_retry q1) None) by (destruct q1 as [rt sg]; cbn in *; now subst).
    rewrite Eq1 in HL1.
    destruct (rd_select_round F dest max n p1 (SM.q_retry q1) aos1 o1 roles known k f fd readable Hok1 HF Hf Hfd Hn Ssel HL1)
      as [off [on [Voff [Von [Hle [Hrd [T1 R1]]]]]]].
    assert (S1 : state o1 = SM.Building) by (rewrite T1; reflexivity).
    cbn [eff_tr] in He.
    destruct (skip_retries_tr l3 o1 Hj S1) as [mid [r2 [o2 [post [El3 [Lm [Zm Q2]]]]]]].
    { destruct (retry_round p1 (q1, aos1)); lia. }
    subst l3. apply judged_app in Hj. destruct Hj as [_ Hj]. rewrite Lm in Hj.
    cbn [judged] in Hj. destruct Hj as [Hs2 [Hok2 _]].
    apply live_all_app in Hl. destruct Hl as [_ Hl]. rewrite Lm in Hl. cbn [live_all] in Hl. destruct Hl as [HL2 _].
    destruct r2 as [q2 aos2]. cbn [fst snd] in *.
    assert (Eq2 : q2 = SM.mkQuery (SM.q_retry q2) None) by (destruct q2 as [rt sg]; cbn in *; now subst).
    rewrite Eq2 in HL2.
    destruct (rd_build_round F dest max n o1 (SM.q_retry q2) aos2 o2 roles known k f fd readable Hok2 HF Hf Hfd
                off (N.min on (off + n - 1)) S1 Q2 HL2 R1 Hrd) as [a [rt [_ [_ [_ [T2 R2]]]]]].
    exists pre, (q1, aos1), o1, mid, (q2, aos2), o2, post, off, on, a, rt.
    split; [reflexivity|]. split.
    { rewrite eff_tr_app. fold p1. cbn [eff_tr]. rewrite eff_tr_app, Lm, Zm. cbn [eff_tr].
      destruct (retry_round p1 (q1, aos1)); destruct (retry_round o1 (q2, aos2)); lia. }
    split; [exact Ssel|]. split; [exact Voff|]. split; [exact Von|]. split; [exact Hle|]. split; [exact Hrd|].
    split; [exact S1|]. split; [exact R1|].
    split; [exact Lm|]. split; [exact Q2|]. split; [exact Hok2|]. split; [exact HL2|]. split; [exact T2|exact R2].
  Qed.

  (* C04_liveness (9.), the statement with the implementation's outcomes *)
  Theorem judged_liveness roles known k f fd (readable : N -> N -> Prop) prev tr :
    u64 max -> (1 <= n)%N -> (0 <= F < 2^63)%Z -> (f < 2^63)%Z -> (fd < 2^63)%Z ->
    judged prev tr ->
    live_all (round_live F dest roles known k f fd readable n) prev tr ->
    (max + 2 + 2 <= eff_tr prev tr)%N ->
    exists pre r1 o1 mid r2 o2 post off on a rt,
      tr = pre ++ (r1, o1) :: mid ++ (r2, o2) :: post /\
      (eff_tr prev (pre ++ (r1, o1) :: mid ++ [(r2, o2)]) <= max + 2 + 2)%N /\
      state (last_out prev pre) = SM.Selecting /\
      same_view offramp_kv (snd r1) k fd off /\ same_view onramp_kv (snd r1) k f on /\ (off <= on)%N /\
      readable off (N.min on (off + n - 1)) /\
      SM.o_type o2 = SM.T_generated /\ In (k, (off, N.min on (off + n - 1)), a, rt) (SM.o_roots o2).
  Proof.
    intros Hm Hn HF Hf Hfd Hj Hl He.
    destruct (judged_liveness_core roles known k f fd readable prev tr Hm Hn HF Hf Hfd Hj Hl He)
      as (pre & r1 & o1 & mid & r2 & o2 & post & off & on & a & rt & E & Hb & Hs & Vo & Vn & Hle & Hr & _ & _ & _ & _ & _ & _ & T & R).
    exists pre, r1, o1, mid, r2, o2, post, off, on, a, rt. tauto.
  Qed.

  (* C04_liveness_fixed_cursor: nothing lands meanwhile - the report starts exactly at off0 *)
  Theorem judged_liveness_fixed_cursor roles known k f fd (readable : N -> N -> Prop) off0 prev tr :
    u64 max -> (1 <= n)%N -> (0 <= F < 2^63)%Z -> (f < 2^63)%Z -> (fd < 2^63)%Z ->
    judged prev tr ->
    live_all (round_live F dest roles known k f fd (fun s e => s = off0 /\ readable s e) n) prev tr ->
    (max + 2 + 2 <= eff_tr prev tr)%N ->
    exists pre r1 o1 mid r2 o2 post on a rt,
      tr = pre ++ (r1, o1) :: mid ++ (r2, o2) :: post /\
      (eff_tr prev (pre ++ (r1, o1) :: mid ++ [(r2, o2)]) <= max + 2 + 2)%N /\
      same_view onramp_kv (snd r1) k f on /\ (off0 <= on)%N /\
      SM.o_type o2 = SM.T_generated /\ In (k, (off0, N.min on (off0 + n - 1)), a, rt) (SM.o_roots o2).
  Proof.
    intros Hm Hn HF Hf Hfd Hj Hl He.
    destruct (judged_liveness roles known k f fd _ prev tr Hm Hn HF Hf Hfd Hj Hl He)
      as (pre & r1 & o1 & mid & r2 & o2 & post & off & on & a & rt & E & Hb & _ & _ & Vn & Hle & [E0 _] & T & R).
    subst off. exists pre, r1, o1, mid, r2, o2, post, on, a, rt. tauto.
  Qed.

  (* C04_liveness_true_root (10.): if moreover, in the building rounds, the oracles outside a set of at most f are
     honest root observers, the report carries for k over that interval the TRUE merkle root *)
  Theorem judged_liveness_true_root h zero log roles known k f fd (readable : N -> N -> Prop) prev tr :
    u64 max -> (1 <= n)%N -> (0 <= F < 2^63)%Z -> (f < 2^63)%Z -> (fd < 2^63)%Z ->
    judged prev tr ->
    live_all (round_live F dest roles known k f fd readable n) prev tr ->
    live_all (honest_round h zero log f) prev tr ->
    (max + 2 + 2 <= eff_tr prev tr)%N ->
    exists pre r1 o1 mid r2 o2 post off on a rt,
      tr = pre ++ (r1, o1) :: mid ++ (r2, o2) :: post /\
      (eff_tr prev (pre ++ (r1, o1) :: mid ++ [(r2, o2)]) <= max + 2 + 2)%N /\
      same_view offramp_kv (snd r1) k fd off /\ same_view onramp_kv (snd r1) k f on /\ (off <= on)%N /\
      SM.o_type o2 = SM.T_generated /\ In (k, (off, N.min on (off + n - 1)), a, rt) (SM.o_roots o2) /\
      true_root h zero log k off (N.min on (off + n - 1)) rt.
  Proof.
    intros Hm Hn HF Hf Hfd Hj Hl Hh He.
    destruct (judged_liveness_core roles known k f fd readable prev tr Hm Hn HF Hf Hfd Hj Hl He)
      as (pre & r1 & o1 & mid & r2 & o2 & post & off & on & a & rt & E & Hb & Hs & Vo & Vn & Hle & Hr & S1 & R1 & Lm & Q2 & Hok2 & HL2 & T & R).
    subst tr. apply live_all_app in Hh. destruct Hh as [_ Hh]. cbn [live_all] in Hh. destruct Hh as [_ Hh].
    apply live_all_app in Hh. destruct Hh as [_ Hh]. rewrite Lm in Hh. cbn [live_all] in Hh. destruct Hh as [Hh _].
    assert (Hh' : honest_round h zero log f o1 (SM.mkQuery (SM.q_retry (fst r2)) None, snd r2)).
    { unfold honest_round in *. cbn [fst snd SM.q_retry] in *. exact Hh. }
    destruct (rd_build_round_true_root F dest max n o1 (SM.q_retry (fst r2)) (snd r2) o2 roles known k f fd readable
                Hok2 HF Hf Hfd h zero log off (N.min on (off + n - 1)) S1 Q2 HL2 Hh' R1 Hr) as [a' [rt' [T' [R' TR]]]].
    exists pre, r1, o1, mid, r2, o2, post, off, on, a', rt'. tauto.
  Qed.

  (* ---- the model's own history is a judged history (rd_model_passes): C04_liveness is the instance of
          judged_liveness at the model's outcomes, and the hypotheses of judged_liveness are satisfiable ---- *)
  Fixpoint model_trace (prev : SM.outcome) (rs : list round) : list jround :=
    match rs with
    | [] => []
    | r :: t => let o := sys_step lx_cfg F dest max n prev r in (r, o) :: model_trace o t
    end.
  Lemma model_step_is_rd_model prev r :
    SM.q_sigs (fst r) = None ->
    sys_step lx_cfg F dest max n prev r = K.rd_model (F, dest, max, n, prev, SM.q_retry (fst r), snd r).
  Proof.
    destruct r as [[rt sg] aos]. cbn [fst snd SM.q_sigs SM.q_retry]. intros ->. reflexivity.
  Qed.
  Lemma model_trace_judged : forall rs prev,
    Forall (fun r : round => SM.q_sigs (fst r) = None) rs -> judged prev (model_trace prev rs).
  Proof.
    induction rs as [|r rs IH]; intros prev H; cbn [model_trace judged]; [exact I|].
    inversion H as [|x l Hr Hrs]; subst. split; [exact Hr|]. split; [|now apply IH].
    rewrite (model_step_is_rd_model prev r Hr). apply J.rd_model_passes.
  Qed.
  Lemma model_trace_live P : forall rs prev,
    hist_all lx_cfg F dest max n P prev rs <-> live_all P prev (model_trace prev rs).
  Proof. induction rs as [|r rs IH]; intros prev; cbn [model_trace hist_all live_all]; [tauto|]. rewrite IH. tauto. Qed.
  Lemma model_trace_eff : forall rs prev,
    eff_tr prev (model_trace prev rs) = SMP.eff_count max n prev (sys_rounds lx_cfg F dest rs).
  Proof.
    induction rs as [|r rs IH]; intros prev; cbn [model_trace eff_tr sys_rounds map SMP.eff_count]; [reflexivity|].
    rewrite IH. reflexivity.
  Qed.
End Judged.

(* the history A B C D E of C04_liveness_nonvacuous, with the model's outcomes, meets every hypothesis of
   judged_liveness (max = 0, n = 256: exactly (0+2)+2 non-retry rounds) *)
Example judged_liveness_hyps :
  let tr := model_trace 1 9 0 256 lx_prev lx_hist in
  u64 0 /\ (1 <= 256)%N /\ judged 1 9 0 256 lx_prev tr /\
  live_all (round_live 1 9 lx_roles lx_known 1 1 1 (fun _ _ => True) 256) lx_prev tr /\
  eff_tr lx_prev tr = (0 + 2 + 2)%N /\
  map (fun ro : jround => (SM.o_type (snd ro), SM.o_roots (snd ro))) tr =
  [ (SM.T_generated, [(2, (5, 6), 7, 200)%N]); (SM.T_failed, []); (SM.T_selected, []); (SM.T_selected, []);
    (SM.T_generated, [(1, (10, 12), 7, 300)%N]) ].
Proof.
  cbv zeta. destruct ex_liveness_hyps as [H1 [H2 [H3 H4]]].
  split; [exact H1|]. split; [exact H2|]. split.
  { apply model_trace_judged. repeat constructor. }
  split; [now apply model_trace_live|]. split; [rewrite model_trace_eff; exact H4|].
  vm_compute. reflexivity.
Qed.

(* JudgeSoundC04P.v — the executable properties of Check/C04_check.v (tr_ok, st_ok, fin_ok, rd_ok) tied to the
   Prop-level clauses of Props/C04.v.  For every sink: the model's own output passes the judge, and an ARBITRARY
   output that passes the judge satisfies the property clause (stated with In / NoDup / contiguous_from /
   apply_roots, as in the theorems).  Two executable properties were weaker than their clause although the case
   carries the data; both are strengthened in Check/C04_check.v, the old definitions are kept here under *_before
   with the witnesses they wrongly accepted. *)
Require Import Verif.Model.Base Verif.Proofs.BaseP Verif.Model.SeqRange Verif.Model.CommitMerkle
               Verif.Model.Transmit Verif.Model.CommitSys Verif.Proofs.CommitSysP
               Verif.Model.CommitSM Verif.Proofs.CommitSMP Verif.Proofs.CommitSysSMP.
Require Import Verif.Check.C03_check Verif.Proofs.JudgeSoundC03P.
Require Import Verif.Check.C04_check.

(* ---------- shared: a report whose intervals start at the cursor, one per chain, is accepted by the off-ramp ----------
   (the second half of C04_no_stale_send, from the conclusion of C04_transmit_starts_at_cursor) *)
Lemma starts_at_cursor_not_stale roots : forall c,
  NoDup (map rr_chain roots) ->
  (forall r, In r roots -> rr_start r = next_of c (rr_chain r)) ->
  (forall r, In r roots -> (rr_start r <= rr_end r)%N) ->
  exists c', apply_roots c roots = Some c'.
Proof.
  induction roots as [|r roots IH]; intros c ND Hs Hwf; cbn [apply_roots]; [now eexists|].
  unfold root_acceptable. rewrite (Hs r (or_introl eq_refl)), N.eqb_refl.
  destruct (N.leb_spec (next_of c (rr_chain r)) (rr_end r)) as [_|Hlt].
  - cbn [andb]. cbn [map] in ND. inversion ND as [|? ? Hn ND']; subst. apply IH.
    + exact ND'.
    + intros x Hx. rewrite next_of_set_next_other; [apply Hs; now right|].
      intros E. apply Hn. rewrite <- E. now apply in_map.
    + intros x Hx. apply Hwf. now right.
  - exfalso. specialize (Hwf r (or_introl eq_refl)). rewrite (Hs r (or_introl eq_refl)) in Hwf. lia.
Qed.

(* ====================================================================================================== *)
(* sink C04_transmit: tr_judge                                                                              *)
(* ====================================================================================================== *)
(* the clause set: C04_transmit_starts_at_cursor, C04_transmit_reader_failure, C04_no_stale_send on the verdict of
   the implementation, plus the harness's ground truth (every root of a report an honest oracle agrees to transmit
   is the true root: C04_agreed_root_true + C04_report_roots_are_agreed) *)
Definition tr_P (i : tr_in) (o : N) : Prop :=
  let '(roots, c, fails) := i in
  let rr := map to_rroot roots in
  o = 1%N ->
  (NoDup (map rr_chain rr) /\ forall r, In r rr -> rr_start r = next_of c (rr_chain r)) /\
  (rr <> [] -> fails = false) /\
  ((forall r, In r rr -> (rr_start r <= rr_end r)%N) -> exists c', apply_roots c rr = Some c') /\
  (forall t, In t roots -> snd t = true).

Theorem tr_ok_sound i o : tr_ok i o = true -> tr_P i o.
Proof.
  destruct i as [[roots c] fails]. unfold tr_ok, tr_P. intros H E. subst o. cbn [N.eqb Pos.eqb] in H.
  apply andb_true_iff in H. destruct H as [H HF]. apply andb_true_iff in H. destruct H as [HA HN].
  rewrite forallb_forall in HA. apply nodupb_NoDupN in HN.
  assert (ND : NoDup (map rr_chain (map to_rroot roots))) by (rewrite map_map; exact HN).
  assert (HS : forall r, In r (map to_rroot roots) -> rr_start r = next_of c (rr_chain r)).
  { intros r Hr. apply in_map_iff in Hr. destruct Hr as [t [<- Ht]]. specialize (HA t Ht).
    apply andb_true_iff in HA. destruct HA as [HA _]. apply N.eqb_eq in HA. exact HA. }
  split; [split; assumption|]. split; [|split].
  - destruct roots as [|t roots]; [intros X; now contradiction X|]. intros _. now apply negb_true_iff in HF.
  - intros Hwf. now apply starts_at_cursor_not_stale.
  - intros t Ht. specialize (HA t Ht). apply andb_true_iff in HA. tauto.
Qed.

(* the model's verdict passes — given the ground-truth bits: the model cannot know them; that they are all true on a
   report an honest oracle checks is the system-level property (C04_agreed_root_true, C04_report_roots_are_agreed)
   the sink is there to test, not something the generator forces *)
Theorem tr_model_passes roots c fails :
  (forall t, In t roots -> snd t = true) -> tr_ok (roots, c, fails) (tr_model (roots, c, fails)) = true.
Proof.
  intros HT. unfold tr_model, commit_should_transmit. cbn [N.eqb Pos.eqb negb].
  destruct (roots_state_ok (map to_rroot roots) (honest_next_reader c fails)) eqn:E; cbn [negb]; [|reflexivity].
  unfold tr_ok. cbn [N.eqb Pos.eqb].
  pose proof (roots_state_ok_sound _ _ _ E) as [ND HS].
  apply andb_true_iff. split; [apply andb_true_iff; split|].
  - apply forallb_forall. intros t Ht. rewrite (HT t Ht), andb_true_r. apply N.eqb_eq.
    exact (HS (to_rroot t) (in_map to_rroot roots t Ht)).
  - apply nodupb_NoDupN. rewrite map_map in ND. exact ND.
  - destruct roots as [|t roots]; [reflexivity|]. destruct fails; [|reflexivity].
    cbn [map] in E. rewrite roots_state_reader_failure in E. discriminate.
Qed.

(* the executable property before the repair accepted "transmit" although the oracle's destination read failed *)
Definition tr_ok_before (i : tr_in) (o : N) : bool :=
  let '(roots, c, fails) := i in
  if N.eqb o 1 then
    forallb (fun t : troot => N.eqb (fst (snd (fst t))) (next_of c (fst (fst t))) && snd t) roots &&
    nodupb N.eqb (map (fun t : troot => fst (fst t)) roots)
  else true.
Example tr_ok_before_unsound :
  let i := ([(5, (10, 12), true)]%N, [(5, 10)]%N, true) in
  tr_ok_before i 1 = true /\ ~ tr_P i 1%N /\ tr_ok i 1 = false /\ tr_model i = 0%N.
Proof.
  cbv zeta. split; [vm_compute; reflexivity|]. split; [|split; vm_compute; reflexivity].
  intros P. destruct (P eq_refl) as [_ [F _]]. discriminate F. cbn. discriminate.
Qed.
(* the strengthening only adds a conjunct *)
Lemma tr_ok_stronger i o : tr_ok i o = true -> tr_ok_before i o = true.
Proof.
  destruct i as [[roots c] fails]. unfold tr_ok, tr_ok_before. destruct (N.eqb o 1); [|reflexivity].
  intros H. apply andb_true_iff in H. tauto.
Qed.

Example tr_ok_nonvacuous :
  let i := ([(5, (10, 12), true); (7, (3, 3), true)]%N, [(7, 3); (5, 10)]%N, false) in
  tr_model i = 1%N /\ tr_ok i 1 = true.
Proof. vm_compute. split; reflexivity. Qed.

(* ====================================================================================================== *)
(* sink C04_state: st_judge                                                                                 *)
(* ====================================================================================================== *)
Definition st_P (i : st_in) (o : bool) : Prop :=
  let '(roots, c, mode) := i in
  o = true ->
  (NoDup (map rr_chain roots) /\ forall r, In r roots -> rr_start r = next_of c (rr_chain r)) /\
  (roots <> [] -> mode = 0%N) /\
  ((forall r, In r roots -> (rr_start r <= rr_end r)%N) -> exists c', apply_roots c roots = Some c').

Theorem st_ok_sound i o : st_ok i o = true -> st_P i o.
Proof.
  destruct i as [[roots c] mode]. unfold st_ok, st_P. intros H E. subst o.
  apply andb_true_iff in H. destruct H as [H HM]. apply andb_true_iff in H. destruct H as [HA HN].
  rewrite forallb_forall in HA. apply nodupb_NoDupN in HN.
  assert (HS : forall r, In r roots -> rr_start r = next_of c (rr_chain r)).
  { intros r Hr. apply N.eqb_eq. now apply HA. }
  split; [split; assumption|]. split.
  - destruct roots as [|r roots]; [intros X; now contradiction X|]. intros _. now apply N.eqb_eq.
  - intros Hwf. now apply starts_at_cursor_not_stale.
Qed.

Lemma removelast_length_lt {A} (l : list A) : l <> [] -> S (length (removelast l)) = length l.
Proof.
  intros Hne. destruct l as [|a l0]; [now contradiction Hne|].
  rewrite (app_removelast_last a Hne) at 2. rewrite app_length. cbn [length]. lia.
Qed.

(* scripted readers other than the honest one never let a report with roots through *)
Lemma st_reader_scripted_blocks r roots c mode :
  (mode = 1 \/ mode = 2 \/ mode = 3)%N -> roots_state_ok (r :: roots) (st_reader c mode) = false.
Proof.
  intros M. unfold roots_state_ok. destruct (nodupb N.eqb (map rr_chain (r :: roots))); cbn [negb]; [|reflexivity].
  set (chains := sortN (map rr_chain (r :: roots))).
  assert (L : length chains = S (length roots)).
  { unfold chains, sortN. rewrite sort_by_length, map_length. reflexivity. }
  destruct M as [M|[M|M]]; subst mode.
  - reflexivity.
  - change (st_reader c 2 chains) with (Some (removelast (map (next_of c) chains))).
    assert (NE : map (next_of c) chains <> []) by (destruct chains; [discriminate L|discriminate]).
    pose proof (removelast_length_lt _ NE) as RL. rewrite map_length in RL.
    assert (Q : Nat.eqb (length (removelast (map (next_of c) chains))) (length chains) = false) by (apply Nat.eqb_neq; lia).
    cbv beta iota. rewrite Q. reflexivity.
  - change (st_reader c 3 chains) with (Some (map (next_of c) chains ++ [1%N])).
    assert (Q : Nat.eqb (length (map (next_of c) chains ++ [1%N])) (length chains) = false).
    { apply Nat.eqb_neq. rewrite app_length, map_length. cbn [length]. lia. }
    cbv beta iota. rewrite Q. reflexivity.
Qed.

(* the model's verdict passes; the generator draws mode from {0,1,2,3} *)
Theorem st_model_passes roots c mode :
  (mode <= 3)%N -> st_ok (roots, c, mode) (st_model (roots, c, mode)) = true.
Proof.
  intros M. unfold st_ok, st_model.
  destruct (roots_state_ok roots (st_reader c mode)) eqn:E; [|reflexivity].
  assert (M0 : roots <> [] -> mode = 0%N).
  { intros NE. destruct roots as [|r roots]; [now contradiction NE|].
    assert (C : (mode = 0 \/ (mode = 1 \/ mode = 2 \/ mode = 3))%N) by lia.
    destruct C as [C|C]; [exact C|]. rewrite (st_reader_scripted_blocks r roots c mode C) in E. discriminate. }
  assert (S : NoDup (map rr_chain roots) /\ forall r, In r roots -> rr_start r = next_of c (rr_chain r)).
  { destruct roots as [|r roots]; [split; [constructor|intros ? []]|].
    rewrite M0 in E by discriminate.
    change (st_reader c 0) with (honest_next_reader c false) in E. now apply roots_state_ok_sound in E. }
  destruct S as [ND HS].
  apply andb_true_iff. split; [apply andb_true_iff; split|].
  - apply forallb_forall. intros r Hr. apply N.eqb_eq. now apply HS.
  - now apply nodupb_NoDupN.
  - destruct roots as [|r roots]; [reflexivity|]. rewrite M0 by discriminate. reflexivity.
Qed.

(* outside the generator's range the premise is needed: st_reader treats any other mode as honest, st_ok does not *)
Example st_model_needs_mode_range :
  st_ok ([(5, (10, 12), 1)]%N, [(5, 10)]%N, 4%N) (st_model ([(5, (10, 12), 1)]%N, [(5, 10)]%N, 4%N)) = false.
Proof. vm_compute. reflexivity. Qed.

Example st_ok_nonvacuous :
  let i := ([(5, (10, 12), 1); (7, (3, 3), 2)]%N, [(7, 3); (5, 10)]%N, 0%N) in
  st_model i = true /\ st_ok i true = true /\
  st_ok ([(5, (11, 12), 1)]%N, [(5, 10)]%N, 0%N) true = false.
Proof. vm_compute. repeat split; reflexivity. Qed.

(* ====================================================================================================== *)
(* sink C04_final: fin_judge                                                                                *)
(* ====================================================================================================== *)
Lemma contiguousb_iff l : forall start, contiguousb start l = true <-> contiguous_from start l.
Proof.
  induction l as [|[s e] l IH]; intros start; cbn [contiguousb contiguous_from]; [tauto|].
  rewrite !andb_true_iff, N.eqb_eq, N.leb_le, IH. tauto.
Qed.

(* C04_committed_contiguous on what the off-ramp of the simulated history holds at the end, for every chain the
   final state lists; plus: no divergence between the honest oracles' outcomes *)
Definition fin_P (i : fin_in) (o : fin_out) : Prop :=
  let '(init, _) := i in let '(comm, _, div) := o in
  (forall k ivs, In (k, ivs) comm -> contiguous_from (next_of init k) ivs) /\ div = 0%N.

Theorem fin_ok_sound i o : fin_ok i o = true -> fin_P i o.
Proof.
  destruct i as [init reports], o as [[comm cur] div]. unfold fin_ok, fin_P. intros H.
  apply andb_true_iff in H. destruct H as [H D]. apply N.eqb_eq in D. split; [|exact D].
  rewrite forallb_forall in H. intros k ivs Hin. apply contiguousb_iff. exact (H (k, ivs) Hin).
Qed.

Theorem fin_model_passes i : fin_ok i (fin_model i) = true.
Proof.
  destruct i as [init reports]. unfold fin_ok, fin_model. cbv zeta. rewrite N.eqb_refl, andb_true_r.
  apply forallb_forall. intros [k ivs] Hin. apply in_map_iff in Hin. destruct Hin as [kc [E _]].
  inversion E; subst. cbn [fst snd]. apply contiguousb_iff. apply lands_contiguous.
Qed.

(* ... and conversely for the model's final state every chain of the initial cursor is listed *)
Lemma fin_model_lists_init init reports :
  map fst (fst (fst (fin_model (init, reports)))) = map fst init.
Proof. unfold fin_model. cbv zeta. cbn [fst]. rewrite map_map. reflexivity. Qed.

Example fin_ok_nonvacuous :
  let i := ([(5, 10)]%N, [[((5, (8, 12)), 1)]; [((5, (10, 12)), 2)]; [((5, (10, 12)), 2)]; [((5, (13, 13)), 3)]]%N) in
  fin_model i = ([(5, [(10, 12); (13, 13)])]%N, [(5, 14)]%N, 0%N) /\ fin_ok i (fin_model i) = true /\
  (* a gap, an overlap, a repeat are rejected *)
  fin_ok i ([(5, [(10, 12); (14, 14)])]%N, [(5, 15)]%N, 0%N) = false /\
  fin_ok i ([(5, [(10, 12); (12, 13)])]%N, [(5, 14)]%N, 0%N) = false /\
  fin_ok i ([(5, [(10, 12); (10, 12)])]%N, [(5, 13)]%N, 0%N) = false.
Proof. vm_compute. repeat split; reflexivity. Qed.

(* ====================================================================================================== *)
(* sink C04_round: rd_judge                                                                                 *)
(* ====================================================================================================== *)
Lemma existsb_root_eqb_In r l : existsb (root_eqb r) l = true <-> In r l.
Proof.
  rewrite existsb_exists. split.
  - intros [x [Hx E]]. apply root_eqb_eq in E. now subst.
  - intros H. exists r. split; [exact H|apply root_eqb_refl].
Qed.

(* C04_report_roots_are_agreed with an arbitrary outcome o in the place of get_outcome *)
Definition roots_agreed_P (prev : outcome) (retry : bool) (co : option cons) (o : outcome) : Prop :=
  forall c r, co = Some c -> In r (o_roots o) ->
    (next_state (o_type prev) = Building /\ retry = true /\ In r (o_roots prev)) \/ In r (c_roots c).

Lemma rd_roots_ok_sound prev retry co o : rd_roots_ok prev retry co o = true -> roots_agreed_P prev retry co o.
Proof.
  unfold rd_roots_ok, roots_agreed_P. intros H c r -> Hin.
  rewrite forallb_forall in H. specialize (H r Hin). apply orb_true_iff in H. destruct H as [H|H].
  - left. apply andb_true_iff in H. destruct H as [H H3]. apply andb_true_iff in H. destruct H as [H1 H2].
    split; [|split; [exact H2|now apply existsb_root_eqb_In]].
    destruct (next_state (o_type prev)); cbn in H1; congruence.
  - right. now apply existsb_root_eqb_In.
Qed.

Lemma rd_roots_model_passes max n prev retry s co :
  rd_roots_ok prev retry co (get_outcome max n prev (mkQuery retry s) co) = true.
Proof.
  unfold rd_roots_ok. destruct co as [c|]; [|reflexivity].
  apply forallb_forall. intros r Hin. apply get_outcome_roots_agreed in Hin. cbn [q_retry] in Hin.
  apply orb_true_iff. destruct Hin as [[ST [R Hp]]|Hc].
  - left. rewrite ST, R. cbn [state_eqb andb]. now apply existsb_root_eqb_In.
  - right. now apply existsb_root_eqb_In.
Qed.

(* ---------- liveness, the round-level steps: C04_liveness_round_partial (7.) split into its two rounds ---------- *)
(* the selecting round of 7. with an arbitrary outcome o in the place of get_outcome: hypotheses verbatim *)
Definition live_select_P (n : N) (prev : outcome) (co : option cons) (o : outcome) : Prop :=
  forall c k off on, co = Some c -> next_state (o_type prev) = Selecting ->
    NoDup (map fst (c_off c)) -> (forall k m, alookup k (c_on c) = Some m -> u64 m) -> (1 <= n)%N ->
    In (k, off) (c_off c) -> alookup k (c_on c) = Some on -> (off <= on)%N ->
    o_type o = T_selected /\ In (k, (off, N.min on (off + n - 1))) (o_ranges o).
(* the building round of 7. (not an RMN retry; no bundle: the query of this sink never has one) *)
Definition live_build_P (prev : outcome) (retry : bool) (co : option cons) (o : outcome) : Prop :=
  forall c r, co = Some c -> next_state (o_type prev) = Building -> retry = false -> In r (c_roots c) ->
    o_type o = T_generated /\ In r (o_roots o).

Lemma u64_allb_iff (on : list (N * N)) :
  forallb (fun e : N * N => match alookup (fst e) on with Some m => u64b m | None => true end) on = true <->
  (forall k m, alookup k on = Some m -> u64 m).
Proof.
  rewrite forallb_forall. split.
  - intros H k m Hk. specialize (H (k, m) (alookup_In _ _ _ Hk)). cbn [fst] in H. rewrite Hk in H.
    unfold u64b in H. now apply N.ltb_lt in H.
  - intros H [k m0] _. cbn [fst]. destruct (alookup k on) as [m|] eqn:E; [|reflexivity].
    unfold u64b. apply N.ltb_lt. exact (H k m E).
Qed.
Lemma existsb_cr_eqb_In x l : existsb (cr_eqb x) l = true <-> In x l.
Proof.
  rewrite existsb_exists. split.
  - intros [y [Hy E]]. apply cr_eqb_eq in E. now subst.
  - intros H. exists x. split; [exact H|apply cr_eqb_refl].
Qed.

Lemma rd_live_ok_sound n prev retry co o :
  rd_live_ok n prev retry co o = true -> live_select_P n prev co o /\ live_build_P prev retry co o.
Proof.
  unfold rd_live_ok, live_select_P, live_build_P. intros H. split.
  - intros c k off on -> ST ND Hu Hn Hoff Hon Hle. rewrite ST in H.
    apply nodupb_NoDupN in ND. apply u64_allb_iff in Hu. apply N.leb_le in Hn. rewrite ND, Hu, Hn in H. cbn [andb] in H.
    rewrite forallb_forall in H. specialize (H (k, off) Hoff). cbn [fst snd] in H. rewrite Hon in H.
    apply N.leb_le in Hle. rewrite Hle in H. apply andb_true_iff in H. destruct H as [H1 H2].
    split; [now apply Z.eqb_eq|now apply existsb_cr_eqb_In].
  - intros c r -> ST -> Hr. rewrite ST in H. rewrite forallb_forall in H. specialize (H r Hr).
    apply andb_true_iff in H. destruct H as [H1 H2]. split; [now apply Z.eqb_eq|now apply existsb_root_eqb_In].
Qed.

(* (a): at the model's outcome the clauses are C04_liveness_round_partial (select_then_build_reports) *)
Lemma rd_live_model_passes max n prev retry co :
  rd_live_ok n prev retry co (get_outcome max n prev (mkQuery retry None) co) = true.
Proof.
  unfold rd_live_ok. destruct co as [c|]; [|reflexivity].
  destruct (next_state (o_type prev)) eqn:ST; [| |reflexivity].
  - destruct (nodupb N.eqb (map fst (c_off c)) &&
              forallb (fun e : N * N => match alookup (fst e) (c_on c) with Some m => u64b m | None => true end) (c_on c) &&
              N.leb 1 n) eqn:Pre; [|reflexivity].
    apply andb_true_iff in Pre. destruct Pre as [Pre Hn]. apply andb_true_iff in Pre. destruct Pre as [ND Hu].
    apply nodupb_NoDupN in ND. pose proof (proj1 (u64_allb_iff (c_on c)) Hu) as Hu'. clear Hu. rename Hu' into Hu. apply N.leb_le in Hn.
    apply forallb_forall. intros [k off] Hoff. cbn [fst snd].
    destruct (alookup k (c_on c)) as [on|] eqn:Hon; [|reflexivity].
    destruct (N.leb off on) eqn:Hle; [|reflexivity]. apply N.leb_le in Hle.
    pose (r0 := (0, (0, 0), 0, 0)%N : root).
    destruct (select_then_build_reports max n prev (mkQuery retry None) (mkQuery false None) c
                (mkCons [r0] [] [] cfg_empty) k off on r0 ST ND Hu Hn Hoff Hon Hle eq_refl eq_refl (or_introl eq_refl))
      as [T [R _]].
    apply andb_true_iff. split; [now apply Z.eqb_eq|now apply existsb_cr_eqb_In].
  - destruct retry; [reflexivity|]. apply forallb_forall. intros r Hr.
    unfold get_outcome, get_outcome_with. rewrite ST. cbn [state_eqb q_retry andb].
    unfold build_report. cbn [q_sigs].
    assert (Hs : In r (sort_by root_le (c_roots c))) by (now apply sort_by_in).
    unfold finish_report. destruct (sort_by root_le (c_roots c)) as [|x l]; [destruct Hs|].
    cbn [o_type o_roots]. apply andb_true_iff. split; [reflexivity|now apply existsb_root_eqb_In].
Qed.

(* the whole-plugin round: the C03 clauses (JudgeSoundC03P.round_P) on the composed round + agreed roots + the
   round-level liveness steps *)
Definition rd_P (i : rd_in) (o : outcome) : Prop :=
  let '(F, dest, max, n, prev, retry, aos) := i in
  let r := (mkQuery retry None, round_cons F dest aos) in
  round_P max prev r o /\ roots_agreed_P prev retry (round_cons F dest aos) o /\
  live_select_P n prev (round_cons F dest aos) o /\ live_build_P prev retry (round_cons F dest aos) o.

Theorem rd_ok_sound i o : rd_ok i o = true -> rd_P i o.
Proof.
  destruct i as [[[[[[F dest] max] n] prev] retry] aos]. unfold rd_ok, rd_P. intros H.
  apply andb_true_iff in H. destruct H as [H H3]. apply andb_true_iff in H. destruct H as [H1 H2].
  split; [now apply step_ok_sound|]. split; [now apply rd_roots_ok_sound|]. now apply rd_live_ok_sound.
Qed.

Theorem rd_model_passes i : rd_ok i (rd_model i) = true.
Proof.
  destruct i as [[[[[[F dest] max] n] prev] retry] aos]. unfold rd_ok, rd_model. rewrite !andb_true_iff. repeat split.
  - exact (step_model_passes max n prev (mkQuery retry None, round_cons F dest aos)).
  - apply rd_roots_model_passes.
  - apply rd_live_model_passes.
Qed.

(* C04_liveness_round_partial (7.) for ANY two outcomes that pass the judge in consecutive rounds (the second round's
   previous outcome is the first round's outcome): hypotheses and conclusion verbatim, c1 / c2 being the agreed values
   of the two rounds *)
Theorem rd_ok_two_rounds F dest max n prev retry1 aos1 aos2 o1 o2 c1 c2 k off on r :
  rd_ok (F, dest, max, n, prev, retry1, aos1) o1 = true ->
  rd_ok (F, dest, max, n, o1, false, aos2) o2 = true ->
  round_cons F dest aos1 = Some c1 -> round_cons F dest aos2 = Some c2 ->
  next_state (o_type prev) = Selecting ->
  NoDup (map fst (c_off c1)) -> (forall k m, alookup k (c_on c1) = Some m -> u64 m) -> (1 <= n)%N ->
  In (k, off) (c_off c1) -> alookup k (c_on c1) = Some on -> (off <= on)%N ->
  In r (c_roots c2) ->
  o_type o1 = T_selected /\ In (k, (off, N.min on (off + n - 1))) (o_ranges o1) /\
  o_type o2 = T_generated /\ In r (o_roots o2).
Proof.
  intros H1 H2 C1 C2 ST ND Hu Hn Hoff Hon Hle Hr.
  apply rd_ok_sound in H1. apply rd_ok_sound in H2. cbn [rd_P] in H1, H2.
  destruct H1 as [_ [_ [S1 _]]]. destruct H2 as [_ [_ [_ B2]]].
  destruct (S1 c1 k off on C1 ST ND Hu Hn Hoff Hon Hle) as [T1 R1].
  split; [exact T1|]. split; [exact R1|].
  apply (B2 c2 r C2); [rewrite T1; reflexivity|reflexivity|exact Hr].
Qed.

(* the judge compares outcomes with outcome_eqb: agreement is equality, so every theorem about the composed round
   function (the liveness theorems of Props/C04.v are stated over it) transfers to an agreeing implementation *)
Lemma rd_agree_eq i o : outcome_eqb (rd_model i) o = true -> o = rd_model i.
Proof. intros H. symmetry. now apply outcome_eqb_eq. Qed.

(* the executable property before the repair accepted a generated report with a root nobody agreed on *)
Definition rd_ok_before (i : rd_in) (o : outcome) : bool :=
  let '(F, dest, max, n, prev, retry, aos) := i in
  step_ok max prev (mkQuery retry None, round_cons F dest aos) o.
(* ... and before the liveness steps were added: the C03 clauses and the agreed-roots clause only *)
Definition rd_ok_before_live (i : rd_in) (o : outcome) : bool :=
  let '(F, dest, max, n, prev, retry, aos) := i in
  step_ok max prev (mkQuery retry None, round_cons F dest aos) o &&
  rd_roots_ok prev retry (round_cons F dest aos) o.

(* four oracles, F = 1, agreeing on fChain and on one root of chain 1 *)
Definition jx_ob : CommitConsensus.obs :=
  mkObs [(1, 7, (10, 12), 300)]%N [] [] rmn_none [(9%N, 1%Z); (1%N, 1%Z)].
Definition jx_aos : list CommitConsensus.aobs := [(0, jx_ob); (1, jx_ob); (2, jx_ob); (3, jx_ob)]%N.
Definition jx_prev : outcome := mkOutcome T_selected [(1, (10, 12))%N] [] [(1, 10)%N] 0 [] cfg_empty.
Definition jx_in : rd_in := (1%Z, 9%N, 3%N, 256%N, jx_prev, false, jx_aos).

Example rd_ok_nonvacuous :
  o_type (rd_model jx_in) = T_generated /\ o_roots (rd_model jx_in) = [(1, (10, 12), 7, 300)%N] /\
  rd_ok jx_in (rd_model jx_in) = true.
Proof. vm_compute. repeat split; reflexivity. Qed.

Example rd_ok_before_unsound :
  let o := mkOutcome T_generated [] [(1, (10, 12), 7, 666)%N] [(1, 10)%N] 0 [] cfg_empty in
  rd_ok_before jx_in o = true /\ ~ rd_P jx_in o /\ rd_ok jx_in o = false.
Proof.
  cbv zeta. split; [vm_compute; reflexivity|]. split; [|vm_compute; reflexivity].
  intros [_ [P _]]. unfold roots_agreed_P in P.
  assert (C : exists c, round_cons 1 9 jx_aos = Some c /\ c_roots c = [(1, (10, 12), 7, 300)%N]).
  { eexists. split; vm_compute; reflexivity. }
  destruct C as [c [C1 C2]].
  destruct (P c (1, (10, 12), 7, 666)%N C1 (or_introl eq_refl)) as [[_ [R _]]|Hin]; [discriminate R|].
  rewrite C2 in Hin. destruct Hin as [E|[]]. discriminate E.
Qed.
Lemma rd_ok_stronger_live i o : rd_ok i o = true -> rd_ok_before_live i o = true.
Proof.
  destruct i as [[[[[[F dest] max] n] prev] retry] aos]. unfold rd_ok, rd_ok_before_live.
  intros H. apply andb_true_iff in H. tauto.
Qed.
Lemma rd_ok_stronger i o : rd_ok i o = true -> rd_ok_before i o = true.
Proof.
  intros H. apply rd_ok_stronger_live in H.
  destruct i as [[[[[[F dest] max] n] prev] retry] aos]. unfold rd_ok_before_live, rd_ok_before in *.
  apply andb_true_iff in H. tauto.
Qed.

(* WITNESSES of the weakness before the liveness steps were added.
   Selecting: the four oracles agree on next = 10 / latest = 12 for chain 1; an outcome "ranges selected" that selects
   NOTHING passed (step_ok asks for the type only).  Building: they agree on root 300 of chain 1 over [10,12]; the EMPTY
   outcome passed (step_ok allows it in the building state, and it carries no root to be checked).  Both violate the
   clause of C04_liveness_round_partial, the new rd_ok rejects them and accepts the model's outcomes. *)
Definition lx_ob : CommitConsensus.obs := mkObs [] [(1, 12)]%N [(1, 10)]%N rmn_none [(9%N, 1%Z); (1%N, 1%Z)].
Definition lx_aos : list CommitConsensus.aobs := [(0, lx_ob); (1, lx_ob); (2, lx_ob); (3, lx_ob)]%N.
Definition lx_sel_in : rd_in := (1%Z, 9%N, 3%N, 256%N, empty_outcome, false, lx_aos).
Definition lx_nothing : outcome := mkOutcome T_selected [] [] [(1, 10)%N] 0 [] cfg_empty.
Example rd_ok_before_live_weak :
  (rd_ok_before_live lx_sel_in lx_nothing = true /\ rd_ok lx_sel_in lx_nothing = false /\ ~ rd_P lx_sel_in lx_nothing) /\
  o_ranges (rd_model lx_sel_in) = [(1, (10, 12))%N] /\ rd_ok lx_sel_in (rd_model lx_sel_in) = true /\
  (rd_ok_before_live jx_in empty_outcome = true /\ rd_ok jx_in empty_outcome = false /\ ~ rd_P jx_in empty_outcome).
Proof.
  assert (C : exists c, round_cons 1 9 lx_aos = Some c /\ c_off c = [(1, 10)%N] /\ c_on c = [(1, 12)%N]).
  { eexists. repeat split; vm_compute; reflexivity. }
  destruct C as [c [C1 [C2 C3]]].
  split; [|split; [vm_compute; reflexivity|split; [vm_compute; reflexivity|]]].
  - split; [vm_compute; reflexivity|]. split; [vm_compute; reflexivity|].
    intros [_ [_ [S _]]]. unfold live_select_P in S.
    destruct (S c 1%N 10%N 12%N C1 eq_refl) as [_ Hin].
    + rewrite C2. repeat constructor. intros [].
    + rewrite C3. intros k m Hk. cbn [alookup] in Hk. destruct (N.eqb k 1); [|discriminate]. inversion Hk. vm_compute. reflexivity.
    + lia.
    + rewrite C2. now left.
    + rewrite C3. reflexivity.
    + lia.
    + exact Hin.
  - split; [vm_compute; reflexivity|]. split; [vm_compute; reflexivity|].
    intros [_ [_ [_ B]]]. unfold live_build_P in B.
    assert (D : exists c, round_cons 1 9 jx_aos = Some c /\ c_roots c = [(1, (10, 12), 7, 300)%N]).
    { eexists. split; vm_compute; reflexivity. }
    destruct D as [d [D1 D2]].
    destruct (B d (1, (10, 12), 7, 300)%N D1 eq_refl eq_refl) as [T _]; [rewrite D2; now left|]. discriminate T.
Qed.

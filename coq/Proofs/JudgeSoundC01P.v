(* JudgeSoundC01P.v — the executable properties of Check/C01_check.v (mr_ok, disc_ok, plug_ok, the quorum check)
   tied to the Prop-level clauses of Props/C01.v.  For every sink: the model's own output passes the judge (code 2
   never fires on an agreeing case), and an ARBITRARY output that passes the judge satisfies the clauses of
   C01_fchain / C01_dest_required / C01_per_chain / C01_one_vote / C01_designated / C01_discovery, stated with the
   vocabulary of Proofs/CommitConsensusP.v (agreed_value, supported_by, reported, designated). *)
Require Import Verif.Model.Base Verif.Proofs.BaseP Verif.Model.Consensus Verif.Proofs.ConsensusP
               Verif.Model.CommitConsensus Verif.Proofs.CommitConsensusP Verif.Model.Discovery Verif.Proofs.DiscoveryP
               Verif.Model.CommitMerkle Verif.Proofs.CommitMerkleP Verif.Check.C01_check.
From Coq Require Import ZifyN ZifyNat ZifyBool.

(* ====================================================================================================== *)
(*                                      small generic facts                                               *)
(* ====================================================================================================== *)
Lemma js01_nodup_singleton {A} (l : list A) v :
  NoDup l -> (l = [v] <-> In v l /\ forall x, In x l -> x = v).
Proof.
  intros ND. split.
  - intros ->. split; [now left|]. intros x [H|[]]. now symmetry.
  - intros [Hin Hall]. destruct l as [|a [|b l]].
    + contradiction.
    + f_equal. apply Hall. now left.
    + exfalso. assert (Ha : a = v) by (apply Hall; now left). assert (Hb : b = v) by (apply Hall; right; now left).
      subst. inversion ND as [|? ? Hn _]. apply Hn. now left.
Qed.

Lemma js01_single_match {A} (l : list A) v :
  match l with [x] => Some x | _ => None end = Some v <-> l = [v].
Proof.
  destruct l as [|a [|b l]]; split; intros H; try discriminate; inversion H; reflexivity.
Qed.

Lemma js01_option_ext {A} (a b : option A) : (forall v, a = Some v <-> b = Some v) -> a = b.
Proof.
  intros H. destruct a as [x|], b as [y|]; try reflexivity.
  - symmetry. now apply (H x).
  - symmetry. now apply (H x).
  - now apply (H y).
Qed.

Lemma js01_option_eqb_eq {A} (e : A -> A -> bool) (He : forall x y, reflect (x = y) (e x y)) a b :
  option_eqb e a b = true <-> a = b.
Proof.
  destruct a as [x|], b as [y|]; cbn [option_eqb]; try (split; [discriminate|discriminate]).
  - destruct (He x y) as [->|Hne]; split; try reflexivity; try discriminate. intros H. inversion H. contradiction.
  - split; reflexivity.
Qed.

Lemma js01_alookup_notin {V} k (m : list (N * V)) : ~ In k (map fst m) -> alookup k m = None.
Proof.
  induction m as [|[k' v] m IH]; cbn [alookup map fst In]; intros Hn; [reflexivity|].
  destruct (N.eqb_spec k k') as [->|Hne]; [exfalso; apply Hn; now left|]. apply IH. intros Hi. apply Hn. now right.
Qed.

Lemma js01_alookup_in_keys {V} k (m : list (N * V)) v : alookup k m = Some v -> In k (map fst m).
Proof. intros H. apply alookup_In in H. apply in_map_iff. exists (k, v). split; [reflexivity|exact H]. Qed.

Lemma js01_alookup_iff {V} k (m : list (N * V)) v : NoDup (map fst m) -> (alookup k m = Some v <-> In (k, v) m).
Proof. intros ND. split; [apply alookup_In|now apply alookup_NoDup_In]. Qed.

Lemma js01_list_eqb_eq {A} (e : A -> A -> bool) :
  (forall a b, e a b = true <-> a = b) -> forall l1 l2, list_eqb e l1 l2 = true <-> l1 = l2.
Proof.
  intros He. induction l1 as [|x l1 IH]; intros [|y l2]; cbn [list_eqb]; try (split; [discriminate|discriminate]).
  - split; reflexivity.
  - rewrite andb_true_iff, He, IH. split; [intros [-> ->]; reflexivity| intros H; inversion H; split; reflexivity].
Qed.

Lemma js01_bool_eqb_eq a b : Bool.eqb a b = true <-> a = b.
Proof. destruct a, b; cbn; split; try reflexivity; discriminate. Qed.

(* ---------- sortk: a permutation, hence the same lookups on unique keys ---------- *)
Lemma js01_sortk_perm {V} (m : list (N * V)) : Permutation (sortk m) m.
Proof. apply sort_by_perm. Qed.

Lemma js01_sortk_keys_nodup {V} (m : list (N * V)) : NoDup (map fst m) -> NoDup (map fst (sortk m)).
Proof.
  intros ND. eapply Permutation_NoDup; [|exact ND]. apply Permutation_map. symmetry. apply js01_sortk_perm.
Qed.

Lemma js01_sortk_alookup {V} (m : list (N * V)) k : NoDup (map fst m) -> alookup k (sortk m) = alookup k m.
Proof.
  intros ND. apply js01_option_ext. intros v.
  rewrite (js01_alookup_iff k (sortk m) v (js01_sortk_keys_nodup m ND)), (js01_alookup_iff k m v ND).
  split; apply Permutation_in; [|symmetry]; apply js01_sortk_perm.
Qed.

Lemma js01_thr_2f1_ext fch fch' : (forall k, alookup k fch = alookup k fch') -> forall k, thr_2f1 fch k = thr_2f1 fch' k.
Proof. intros H k. unfold thr_2f1. now rewrite H. Qed.

(* ---------- select: the observations with verdict true, in slice order ---------- *)
Lemma js01_select_map {A} (f : A -> bool) (l : list A) : select (map f l) l = filter f l.
Proof.
  unfold select. induction l as [|a l IH]; cbn [map combine filter]; [reflexivity|].
  cbn [fst]. destruct (f a); cbn [map snd]; now rewrite IH.
Qed.

Lemma js01_select_incl {A} (bs : list bool) (l : list A) x : In x (select bs l) -> In x l.
Proof.
  unfold select. intros H. apply in_map_iff in H. destruct H as [[b y] [He Hf]]. cbn in He. subst y.
  apply filter_In in Hf. destruct Hf as [Hi _]. eapply in_combine_r; exact Hi.
Qed.

Lemma js01_select_nodup {A B} (g : A -> B) (bs : list bool) : forall l : list A,
  NoDup (map g l) -> NoDup (map g (select bs l)).
Proof.
  unfold select. induction bs as [|b bs IH]; intros [|a l] ND; cbn [combine filter map]; try constructor.
  inversion ND as [|? ? Hn ND']; subst. cbn [fst]. destruct b; cbn [map snd]; [|now apply IH].
  constructor; [|now apply IH]. intros Hi. apply Hn.
  apply in_map_iff in Hi. destruct Hi as [y [He Hy]]. apply in_map_iff. exists y. split; [exact He|].
  exact (js01_select_incl bs l y Hy).
Qed.

(* ====================================================================================================== *)
(*      counting DISTINCT oracles (distinct_reporters / d_reporters) is supported_by of the theorems      *)
(* ====================================================================================================== *)
Section Holders.
  Context {O : Type}.
  (* the oracles (each once) whose observation satisfies p *)
  Definition holders (p : O -> bool) (aos : list (N * O)) : list N :=
    dedup N.eqb (map fst (filter (fun ao => p (snd ao)) aos)).

  Lemma holders_nodup p aos : NoDup (holders p aos).
  Proof. apply dedup_nodup. exact N_eqb_reflect. Qed.

  Lemma holders_in p aos o : In o (holders p aos) <-> exists ob, In (o, ob) aos /\ p ob = true.
  Proof.
    unfold holders. rewrite (dedup_in N.eqb N_eqb_reflect), in_map_iff. split.
    - intros [[o' ob] [He Hf]]. cbn in He. subst o'. apply filter_In in Hf. exists ob. exact Hf.
    - intros [ob [Hi Hp]]. exists (o, ob). split; [reflexivity|]. apply filter_In. split; [exact Hi|exact Hp].
  Qed.

  Lemma holders_supported p aos (P : N -> Prop) thr :
    (forall o, P o <-> exists ob, In (o, ob) aos /\ p ob = true) ->
    ((thr <= N.of_nat (length (holders p aos)))%N <-> supported_by P thr).
  Proof.
    intros HP. split.
    - intros Hl. exists (holders p aos). split; [apply holders_nodup|]. split; [exact Hl|].
      intros o. rewrite holders_in. symmetry. apply HP.
    - intros [rs [ND [Hl Hin]]].
      assert (Pm : Permutation rs (holders p aos)).
      { apply NoDup_Permutation; [exact ND|apply holders_nodup|]. intros o. rewrite Hin, holders_in. apply HP. }
      rewrite <- (Permutation_length Pm). exact Hl.
  Qed.
End Holders.

Lemma supported_by_witness (P : N -> Prop) thr : (0 < thr)%N -> supported_by P thr -> exists o, P o.
Proof.
  intros Hp [rs [_ [Hl Hin]]]. destruct rs as [|o rs]; [cbn in Hl; lia|]. exists o. apply Hin. now left.
Qed.

Lemma agreed_value_ext {O V O' } (get : O -> list (N * V)) (get' : O' -> list (N * V)) aos aos' k thr v :
  (forall o v', reported get aos o k v' <-> reported get' aos' o k v') ->
  (agreed_value get aos k thr v <-> agreed_value get' aos' k thr v).
Proof.
  intros H. unfold agreed_value. split; intros [Hs Hu]; split.
  - eapply supported_by_ext; [|exact Hs]. intros o. apply H.
  - intros v' Hs'. apply Hu. eapply supported_by_ext; [|exact Hs']. intros o. symmetry. apply H.
  - eapply supported_by_ext; [|exact Hs]. intros o. symmetry. apply H.
  - intros v' Hs'. apply Hu. eapply supported_by_ext; [|exact Hs']. intros o. apply H.
Qed.

Lemma agreed_value_functional {O V} (get : O -> list (N * V)) aos k thr v v' :
  agreed_value get aos k thr v -> agreed_value get aos k thr v' -> v = v'.
Proof. intros [Hs _] [_ Hu]. now apply Hu. Qed.

(* ====================================================================================================== *)
(*   field_ok: the executable "k |-> v iff v is THE value with >= thr distinct reporters" of one map        *)
(* ====================================================================================================== *)
(* the Prop-level clause, shape of C01_fchain / C01_per_chain / C01_discovery for one map [out]:
   at most one value per key, and k |-> v is in the map iff k has a threshold and v is the agreed value at it *)
Definition field_spec {O V} (get : O -> list (N * V)) (aos : list (N * O)) (thr_of : N -> option N)
           (out : list (N * V)) : Prop :=
  NoDup (map fst out) /\
  forall k v, alookup k out = Some v <-> exists thr, thr_of k = Some thr /\ agreed_value get aos k thr v.

Section FieldOk.
  Context {O V : Type}.
  Variable e : V -> V -> bool.
  Hypothesis e_spec : forall x y, reflect (x = y) (e x y).
  Variable get : O -> list (N * V).
  Variable aos : list (N * O).

  Lemma entry_existsb k v (l : list (N * V)) :
    existsb (fun kv => N.eqb (fst kv) k && e (snd kv) v) l = true <-> In (k, v) l.
  Proof.
    rewrite existsb_exists. split.
    - intros [[k' v'] [Hi Hb]]. cbn [fst snd] in Hb. apply andb_true_iff in Hb. destruct Hb as [Hk Hv].
      apply N.eqb_eq in Hk. destruct (e_spec v' v) as [->|]; [|discriminate]. now subst.
    - intros Hi. exists (k, v). split; [exact Hi|]. cbn [fst snd]. rewrite N.eqb_refl.
      destruct (e_spec v v); [reflexivity|congruence].
  Qed.

  Lemma distinct_reporters_supported k v thr :
    (thr <= distinct_reporters e get aos k v)%N <-> supported_by (fun o => reported get aos o k v) thr.
  Proof.
    change (distinct_reporters e get aos k v)
      with (N.of_nat (length (holders (fun ob => existsb (fun kv => N.eqb (fst kv) k && e (snd kv) v) (get ob)) aos))).
    apply holders_supported. intros o. unfold reported. split.
    - intros [ob [Hi Hg]]. exists ob. split; [exact Hi|]. now apply entry_existsb.
    - intros [ob [Hi Hg]]. exists ob. split; [exact Hi|]. now apply entry_existsb.
  Qed.

  Lemma values_for_nodup k : NoDup (values_for e get aos k).
  Proof. apply dedup_nodup. exact e_spec. Qed.

  Lemma values_for_in k v : In v (values_for e get aos k) <-> exists o, reported get aos o k v.
  Proof.
    unfold values_for. rewrite (dedup_in e e_spec), in_flat_map. split.
    - intros [[o ob] [Hi Hm]]. cbn [snd] in Hm. apply in_map_iff in Hm. destruct Hm as [[k' v'] [He Hf]].
      cbn in He. subst v'. apply filter_In in Hf. destruct Hf as [Hg Hk]. cbn in Hk. apply N.eqb_eq in Hk. subst k'.
      exists o, ob. split; assumption.
    - intros [o [ob [Hi Hg]]]. exists (o, ob). split; [exact Hi|]. cbn [snd]. apply in_map_iff.
      exists (k, v). split; [reflexivity|]. apply filter_In. split; [exact Hg|]. cbn. apply N.eqb_refl.
  Qed.

  Lemma keys_of_in k : In k (keys_of get aos) <-> exists o v, reported get aos o k v.
  Proof.
    unfold keys_of. rewrite (dedup_in N.eqb N_eqb_reflect), in_flat_map. split.
    - intros [[o ob] [Hi Hm]]. cbn [snd] in Hm. apply in_map_iff in Hm. destruct Hm as [[k' v] [He Hg]].
      cbn in He. subst k'. exists o, v, ob. split; assumption.
    - intros [o [v [ob [Hi Hg]]]]. exists (o, ob). split; [exact Hi|]. cbn [snd]. apply in_map_iff.
      exists (k, v). split; [reflexivity|exact Hg].
  Qed.

  Variable thr_of : N -> option N.
  Hypothesis thr_pos : forall k t, thr_of k = Some t -> (0 < t)%N.

  (* the prescribed value is THE agreed value of the theorems *)
  Theorem prescribed_iff k v :
    prescribed e get aos thr_of k = Some v <-> exists thr, thr_of k = Some thr /\ agreed_value get aos k thr v.
  Proof.
    unfold prescribed. destruct (thr_of k) as [thr|] eqn:Et.
    - specialize (thr_pos k thr Et).
      rewrite js01_single_match.
      rewrite js01_nodup_singleton by (apply NoDup_filter, values_for_nodup).
      assert (Hf : forall x, In x (filter (fun v0 => N.leb thr (distinct_reporters e get aos k v0)) (values_for e get aos k))
                   <-> supported_by (fun o => reported get aos o k x) thr).
      { intros x. rewrite filter_In, N.leb_le, distinct_reporters_supported, values_for_in. split; [tauto|].
        intros Hs. split; [|exact Hs]. exact (supported_by_witness _ thr thr_pos Hs). }
      unfold agreed_value. split.
      + intros [Hin Hall]. exists thr. split; [reflexivity|]. split; [now apply Hf|].
        intros v' Hs. apply Hall. now apply Hf.
      + intros [thr' [Ht [Hs Hu]]]. inversion Ht; subst thr'. split; [now apply Hf|].
        intros x Hx. apply Hu. now apply Hf.
    - split; [discriminate|]. intros [thr [Ht _]]. discriminate.
  Qed.

  Theorem field_ok_iff out : field_ok e get aos thr_of out = true <-> field_spec get aos thr_of out.
  Proof.
    unfold field_ok, field_spec. rewrite andb_true_iff, nodupb_NoDup, forallb_forall. split.
    - intros [ND Hall]. split; [exact ND|]. intros k v.
      destruct (in_dec N.eq_dec k (keys_of get aos ++ map fst out)) as [Hi|Hn].
      + specialize (Hall k Hi). apply (js01_option_eqb_eq e e_spec) in Hall. rewrite Hall. apply prescribed_iff.
      + split.
        * intros H. exfalso. apply Hn. apply in_or_app. right. eapply js01_alookup_in_keys; exact H.
        * intros [thr [Ht [Hs _]]]. exfalso. apply Hn. apply in_or_app. left. apply keys_of_in.
          destruct (supported_by_witness _ thr (thr_pos k thr Ht) Hs) as [o Ho]. exists o, v. exact Ho.
    - intros [ND Hiff]. split; [exact ND|]. intros k _. apply (js01_option_eqb_eq e e_spec).
      apply js01_option_ext. intros v. rewrite Hiff. symmetry. apply prescribed_iff.
  Qed.
End FieldOk.

Lemma field_spec_ext {O V} (get : O -> list (N * V)) aos thr_of thr_of' out :
  (forall k, thr_of k = thr_of' k) -> field_spec get aos thr_of out -> field_spec get aos thr_of' out.
Proof. intros H [ND Hi]. split; [exact ND|]. intros k v. rewrite <- H. apply Hi. Qed.

Lemma field_spec_sortk {O V} (get : O -> list (N * V)) aos thr_of out :
  field_spec get aos thr_of out -> field_spec get aos thr_of (sortk out).
Proof.
  intros [ND Hi]. split; [now apply js01_sortk_keys_nodup|]. intros k v. rewrite js01_sortk_alookup by exact ND. apply Hi.
Qed.

Lemma const_thr_pos f : forall (k : N) t, (fun _ : N => Some (two_f_plus_1 f)) k = Some t -> (0 < t)%N.
Proof. intros k t H. inversion H. apply two_f_plus_1_positive. Qed.

(* ====================================================================================================== *)
(*                 sink C01_mr — mr_judge: ValidateObservation + getConsensusObservation                  *)
(* ====================================================================================================== *)
(* what mr_ok demands of an accepted observation (one_vote_ok), in the vocabulary of C01_one_vote / C01_designated *)
Definition accepted_wf (roles : roles_t) (dest o : N) (ob : obs) : Prop :=
  NoDup (map fst (roots_kv ob)) /\ NoDup (map fst (onramp_kv ob)) /\ NoDup (map fst (offramp_kv ob)) /\
  (forall k v, In (k, v) (roots_kv ob) -> designated roles k o) /\
  (forall k v, In (k, v) (onramp_kv ob) -> designated roles k o) /\
  (forall k v, In (k, v) (offramp_kv ob) -> designated roles dest o) /\
  (forall k v, In (k, v) (rmn_kv dest ob) -> k = dest /\ designated roles dest o) /\
  (forall k f, In (k, f) (fchain_kv ob) -> (0 < f)%Z).
Definition acc_wf (roles : roles_t) (dest : N) (acc : list aobs) : Prop :=
  NoDup (map fst acc) /\ forall o ob, In (o, ob) acc -> accepted_wf roles dest o ob.

Lemma one_vote_ok_inv roles dest o ob : one_vote_ok roles dest (o, ob) = true -> accepted_wf roles dest o ob.
Proof.
  intros H. unfold one_vote_ok in H. cbn [fst snd] in H. rewrite !andb_true_iff in H.
  destruct H as [[[[[[Hr Hon] Hoff] Hsup] Hod] Hrd] Hf].
  apply nodupb_NoDup in Hr. apply nodupb_NoDup in Hon. apply nodupb_NoDup in Hoff.
  rewrite forallb_app in Hsup. apply andb_true_iff in Hsup. destruct Hsup as [Hs1 Hs2].
  rewrite forallb_forall in Hs1. rewrite forallb_forall in Hs2. rewrite forallb_forall in Hf.
  assert (Hsd : (match alookup dest roles with Some l => memN o l | None => false end) = true -> designated roles dest o).
  { destruct (alookup dest roles) as [l|] eqn:E; [|discriminate]. intros Hm. exists l.
    split; [now apply alookup_In|now apply memN_In]. }
  unfold accepted_wf.
  split; [rewrite roots_kv_keys; exact Hr|]. split; [exact Hon|]. split; [exact Hoff|].
  split.
  { intros k v Hi. unfold roots_kv in Hi. apply in_map_iff in Hi. destruct Hi as [r [He Hr']]. inversion He; subst.
    apply supported_in, memN_In, Hs1. now apply in_map. }
  split.
  { intros k v Hi. apply supported_in, memN_In, Hs2. unfold onramp_kv in Hi. change k with (fst (k, v)). now apply in_map. }
  split.
  { intros k v Hi. apply Hsd. unfold offramp_kv in Hi. destruct (o_offramp ob); [contradiction|exact Hod]. }
  split.
  { intros k v Hi. unfold rmn_kv in Hi. destruct (rmn_is_empty (o_rmn ob)); [contradiction|].
    destruct Hi as [Hi|[]]. inversion Hi; subst. split; [reflexivity|]. apply Hsd. exact Hrd. }
  intros k f Hi. specialize (Hf _ Hi). cbn [snd] in Hf. lia.
Qed.

(* Processor.ValidateObservation (the model's) establishes one_vote_ok *)
Lemma validate_one_vote retry roles known dest ao :
  validate_obs retry roles known dest ao = true -> one_vote_ok roles dest ao = true.
Proof.
  destruct ao as [o ob]. unfold validate_obs, one_vote_ok. cbn [fst snd].
  destruct (retry && negb (obs_is_empty ob)); [discriminate|].
  unfold supports_dest. destruct (alookup dest roles) as [l|]; [|rewrite andb_false_r; discriminate].
  unfold chains_ok. rewrite !andb_true_iff.
  intros [[Hf Hk] [[[[Hr1 Hr2] [Hon1 Hon2]] Hoff] Hrmn]].
  split; [split; [split; [split; [split; [split|]|]|]|]|].
  - exact Hr2.
  - exact Hon2.
  - destruct (o_offramp ob); [reflexivity|]. apply andb_true_iff in Hoff. tauto.
  - rewrite forallb_app, Hr1, Hon1. reflexivity.
  - destruct (o_offramp ob); [reflexivity|]. apply andb_true_iff in Hoff. tauto.
  - unfold rmn_valid in Hrmn. destruct (rmn_is_empty (o_rmn ob)); [reflexivity|]. cbn [orb].
    rewrite !andb_true_iff in Hrmn. tauto.
  - exact Hf.
Qed.

Lemma acc_wf_of_forallb roles dest bs aos :
  NoDup (map fst aos) -> forallb (one_vote_ok roles dest) (select bs aos) = true -> acc_wf roles dest (select bs aos).
Proof.
  intros ND H. split; [now apply js01_select_nodup|]. intros o ob Hi. rewrite forallb_forall in H.
  apply one_vote_ok_inv. now apply H.
Qed.

Section AccWf.
  Variables (roles : roles_t) (dest : N) (acc : list aobs).
  Hypothesis Hwf : acc_wf roles dest acc.

  (* the C01_one_vote clause (roots / on-ramp / off-ramp / RMN votes) *)
  Lemma acc_one_vote k :
    NoDup (map fst (votes roots_kv acc k)) /\ NoDup (map fst (votes onramp_kv acc k)) /\
    NoDup (map fst (votes offramp_kv acc k)) /\ NoDup (map fst (votes (rmn_kv dest) acc k)).
  Proof.
    destruct Hwf as [ND Hall].
    split; [|split; [|split]]; apply votes_one_per_oracle; try exact ND; intros o ob Hi.
    - apply (Hall o ob Hi).
    - apply (Hall o ob Hi).
    - apply (Hall o ob Hi).
    - apply rmn_kv_keys_nodup.
  Qed.

  (* the C01_designated clause *)
  Lemma acc_designated o k :
    (forall v, reported roots_kv acc o k v -> designated roles k o) /\
    (forall v, reported onramp_kv acc o k v -> designated roles k o) /\
    (forall v, reported offramp_kv acc o k v -> designated roles dest o) /\
    (forall v, reported (rmn_kv dest) acc o k v -> k = dest /\ designated roles dest o).
  Proof.
    destruct Hwf as [_ Hall].
    split; [|split; [|split]]; intros v [ob [Hi Hg]]; destruct (Hall o ob Hi) as [_ [_ [_ [H1 [H2 [H3 [H4 _]]]]]]].
    - exact (H1 k v Hg).
    - exact (H2 k v Hg).
    - exact (H3 k v Hg).
    - exact (H4 k v Hg).
  Qed.

  Lemma acc_fchain_claims_pos o k f : reported fchain_kv acc o k f -> (0 < f)%Z.
  Proof.
    destruct Hwf as [_ Hall]. intros [ob [Hi Hg]].
    destruct (Hall o ob Hi) as [_ [_ [_ [_ [_ [_ [_ H]]]]]]]. exact (H k f Hg).
  Qed.
End AccWf.

(* ---------- the consensus observation: what mr_ok demands of an Ok answer ---------- *)
Definition cons_okb (F : Z) (dest : N) (acc : list aobs) (c : cons) : bool :=
  let fthr := fun _ : N => Some (two_f_plus_1 F) in
  field_ok Z.eqb fchain_kv acc fthr (c_fchain c) &&
  (match alookup dest (c_fchain c) with Some _ => true | None => false end) &&
  let thr := thr_2f1 (c_fchain c) in
  field_ok root_eqb roots_kv acc thr (c_roots c) &&
  field_ok N.eqb onramp_kv acc thr (c_onramp c) &&
  (let dthr := fun _ : N => match alookup dest (c_fchain c) with
                             | Some fd => Some (two_f_plus_1 fd) | None => None end in
   field_ok N.eqb offramp_kv acc dthr (c_offramp c)) &&
  field_ok N.eqb (rmn_kv dest) acc thr (c_rmn c).

Definition cons_spec (F : Z) (dest : N) (acc : list aobs) (c : cons) : Prop :=
  field_spec fchain_kv acc (fun _ : N => Some (two_f_plus_1 F)) (c_fchain c) /\
  (exists fd, alookup dest (c_fchain c) = Some fd) /\
  field_spec roots_kv acc (thr_2f1 (c_fchain c)) (c_roots c) /\
  field_spec onramp_kv acc (thr_2f1 (c_fchain c)) (c_onramp c) /\
  field_spec offramp_kv acc (fun _ : N => thr_2f1 (c_fchain c) dest) (c_offramp c) /\
  field_spec (rmn_kv dest) acc (thr_2f1 (c_fchain c)) (c_rmn c).

Lemma cons_okb_iff F dest acc c : cons_okb F dest acc c = true <-> cons_spec F dest acc c.
Proof.
  unfold cons_okb, cons_spec. cbv zeta. rewrite !andb_true_iff.
  rewrite (field_ok_iff Z.eqb Z_eqb_reflect fchain_kv acc _ (const_thr_pos F)).
  rewrite (field_ok_iff root_eqb root_eqb_reflect roots_kv acc _ (thr_2f1_pos (c_fchain c))).
  rewrite (field_ok_iff N.eqb N_eqb_reflect onramp_kv acc _ (thr_2f1_pos (c_fchain c))).
  rewrite (field_ok_iff N.eqb N_eqb_reflect (rmn_kv dest) acc _ (thr_2f1_pos (c_fchain c))).
  change (fun _ : N => match alookup dest (c_fchain c) with Some fd => Some (two_f_plus_1 fd) | None => None end)
    with (fun _ : N => thr_2f1 (c_fchain c) dest).
  rewrite (field_ok_iff N.eqb N_eqb_reflect offramp_kv acc (fun _ : N => thr_2f1 (c_fchain c) dest)
             (fun _ t H => thr_2f1_pos (c_fchain c) dest t H)).
  assert (Hd : (match alookup dest (c_fchain c) with Some _ => true | None => false end) = true <->
               exists fd, alookup dest (c_fchain c) = Some fd).
  { destruct (alookup dest (c_fchain c)) as [fd|]; split; try discriminate.
    - intros _. now exists fd. - reflexivity. - intros [fd H]. discriminate. }
  rewrite Hd. tauto.
Qed.

Lemma mr_ok_unfold F dest retry roles known aos vs r :
  mr_ok (F, dest, retry, roles, known, aos) (vs, r) =
  Nat.eqb (length vs) (length aos) && nodupb N.eqb (map fst aos) &&
  forallb (one_vote_ok roles dest) (select vs aos) &&
  match r with
  | Err => match prescribed Z.eqb fchain_kv (select vs aos) (fun _ : N => Some (two_f_plus_1 F)) dest with
           | None => true | Some _ => false end
  | Ok c => cons_okb F dest (select vs aos) c
  | _ => false
  end.
Proof. reflexivity. Qed.

Lemma thr_2f1_ex fch k (Q : N -> Prop) :
  (exists thr, thr_2f1 fch k = Some thr /\ Q thr) <-> exists f, alookup k fch = Some f /\ Q (two_f_plus_1 f).
Proof.
  unfold thr_2f1. destruct (alookup k fch) as [f|]; split.
  - intros [thr [H HQ]]. inversion H; subst. exists f. tauto.
  - intros [f' [H HQ]]. inversion H; subst. exists (two_f_plus_1 f'). tauto.
  - intros [thr [H _]]. discriminate.
  - intros [f' [H _]]. discriminate.
Qed.

(* cons_spec in the exact wording of C01_fchain / C01_per_chain, for an arbitrary consensus observation c *)
Lemma cons_spec_props F dest acc c :
  cons_spec F dest acc c ->
  (forall k f, alookup k (c_fchain c) = Some f <-> agreed_value fchain_kv acc k (two_f_plus_1 F) f) /\
  (exists fd, alookup dest (c_fchain c) = Some fd) /\
  (NoDup (map fst (c_fchain c)) /\ NoDup (map fst (c_roots c)) /\ NoDup (map fst (c_onramp c)) /\
   NoDup (map fst (c_offramp c)) /\ NoDup (map fst (c_rmn c))) /\
  forall k,
    (forall v, alookup k (c_roots c) = Some v <->
       exists f, alookup k (c_fchain c) = Some f /\ agreed_value roots_kv acc k (two_f_plus_1 f) v) /\
    (forall v, alookup k (c_onramp c) = Some v <->
       exists f, alookup k (c_fchain c) = Some f /\ agreed_value onramp_kv acc k (two_f_plus_1 f) v) /\
    (forall v, alookup k (c_offramp c) = Some v <->
       exists fd, alookup dest (c_fchain c) = Some fd /\ agreed_value offramp_kv acc k (two_f_plus_1 fd) v) /\
    (forall v, alookup k (c_rmn c) = Some v <->
       exists f, alookup k (c_fchain c) = Some f /\ agreed_value (rmn_kv dest) acc k (two_f_plus_1 f) v).
Proof.
  intros [[N1 H1] [Hd [[N2 H2] [[N3 H3] [[N4 H4] [N5 H5]]]]]].
  split.
  { intros k f. rewrite H1. split.
    - intros [thr [Ht H]]. inversion Ht; subst. exact H.
    - intros H. exists (two_f_plus_1 F). split; [reflexivity|exact H]. }
  split; [exact Hd|]. split; [tauto|].
  intros k. split; [|split; [|split]]; intros v.
  - rewrite H2. apply (thr_2f1_ex (c_fchain c) k (fun t => agreed_value roots_kv acc k t v)).
  - rewrite H3. apply (thr_2f1_ex (c_fchain c) k (fun t => agreed_value onramp_kv acc k t v)).
  - rewrite H4. apply (thr_2f1_ex (c_fchain c) dest (fun t => agreed_value offramp_kv acc k t v)).
  - rewrite H5. apply (thr_2f1_ex (c_fchain c) k (fun t => agreed_value (rmn_kv dest) acc k t v)).
Qed.

(* ... and back: the C01 theorems give cons_spec for the model's answer *)
Lemma cons_spec_of_model retry roles known dest acc F c :
  valid_input retry roles known dest acc -> get_consensus F dest acc = Ok c -> cons_spec F dest acc c.
Proof.
  intros Hv Hc.
  pose proof (get_consensus_inv retry roles known dest acc Hv F c Hc) as [Ef [[fd [Hfd Eoff]] [Er [Eon Ermn]]]].
  pose proof (fchain_iff retry roles known dest acc Hv F c Hc) as Hf.
  pose proof (per_chain_iff retry roles known dest acc Hv F c Hc) as Hp.
  assert (NDf : NoDup (map fst (c_fchain c))) by (rewrite Ef; apply consensus_map_keys_nodup, agg_map_keys_nodup).
  unfold cons_spec. split; [|split; [|split; [|split; [|split]]]].
  - split; [exact NDf|]. intros k f. rewrite Hf. split.
    + intros H. exists (two_f_plus_1 F). split; [reflexivity|exact H].
    + intros [thr [Ht H]]. inversion Ht; subst. exact H.
  - exists fd. rewrite Ef. exact Hfd.
  - split; [rewrite Er; apply consensus_map_keys_nodup, agg_map_keys_nodup|]. intros k v.
    destruct (Hp k) as [H _]. rewrite H. symmetry.
    apply (thr_2f1_ex (c_fchain c) k (fun t => agreed_value roots_kv acc k t v)).
  - split; [rewrite Eon; apply consensus_map_keys_nodup, agg_map_keys_nodup|]. intros k v.
    destruct (Hp k) as [_ [H _]]. rewrite H. symmetry.
    apply (thr_2f1_ex (c_fchain c) k (fun t => agreed_value onramp_kv acc k t v)).
  - split; [rewrite Eoff; apply consensus_map_keys_nodup, agg_map_keys_nodup|]. intros k v.
    destruct (Hp k) as [_ [_ [H _]]]. rewrite H. symmetry.
    apply (thr_2f1_ex (c_fchain c) dest (fun t => agreed_value offramp_kv acc k t v)).
  - split.
    + rewrite Ermn. apply consensus_map_keys_nodup. cbn [map fst]. constructor; [intros []|constructor].
    + intros k v. destruct (Hp k) as [_ [_ [_ H]]]. rewrite H. symmetry.
      apply (thr_2f1_ex (c_fchain c) k (fun t => agreed_value (rmn_kv dest) acc k t v)).
Qed.

Lemma cons_spec_sort F dest acc c : cons_spec F dest acc c -> cons_spec F dest acc (cons_sort c).
Proof.
  intros [H1 [[fd Hd] [H2 [H3 [H4 H5]]]]]. pose proof (proj1 H1) as NDf.
  assert (Hl : forall k, alookup k (c_fchain c) = alookup k (sortk (c_fchain c))).
  { intros k. symmetry. now apply js01_sortk_alookup. }
  pose proof (js01_thr_2f1_ext _ _ Hl) as Ht.
  unfold cons_spec, cons_sort. cbn [c_fchain c_roots c_onramp c_offramp c_rmn].
  split; [now apply field_spec_sortk|].
  split; [exists fd; now rewrite <- Hl|].
  split; [apply field_spec_sortk; eapply field_spec_ext; [exact Ht|exact H2]|].
  split; [apply field_spec_sortk; eapply field_spec_ext; [exact Ht|exact H3]|].
  split; [apply field_spec_sortk; eapply field_spec_ext; [|exact H4]; intros k; apply Ht|].
  apply field_spec_sortk; eapply field_spec_ext; [exact Ht|exact H5].
Qed.

(* no agreed f for the destination, in both wordings *)
Lemma prescribed_none_iff F dest acc :
  prescribed Z.eqb fchain_kv acc (fun _ : N => Some (two_f_plus_1 F)) dest = None <->
  forall f, ~ agreed_value fchain_kv acc dest (two_f_plus_1 F) f.
Proof.
  split.
  - intros Hn f Ha. assert (H : prescribed Z.eqb fchain_kv acc (fun _ : N => Some (two_f_plus_1 F)) dest = Some f).
    { apply (prescribed_iff Z.eqb Z_eqb_reflect fchain_kv acc _ (const_thr_pos F) dest f).
      exists (two_f_plus_1 F). split; [reflexivity|exact Ha]. }
    rewrite Hn in H. discriminate.
  - intros Hn. destruct (prescribed Z.eqb fchain_kv acc (fun _ : N => Some (two_f_plus_1 F)) dest) as [f|] eqn:E; [|reflexivity].
    exfalso. apply (prescribed_iff Z.eqb Z_eqb_reflect fchain_kv acc _ (const_thr_pos F) dest f) in E.
    destruct E as [thr [Ht Ha]]. inversion Ht; subst. exact (Hn f Ha).
Qed.

(* ---------- (b) SOUNDNESS of mr_ok ---------- *)
Definition mr_result_spec (F : Z) (dest : N) (acc : list aobs) (r : res cons) : Prop :=
  match r with
  | Err => forall f, ~ agreed_value fchain_kv acc dest (two_f_plus_1 F) f
  | Ok c => cons_spec F dest acc c
  | _ => False
  end.

Lemma mr_ok_iff F dest retry roles known aos vs r :
  mr_ok (F, dest, retry, roles, known, aos) (vs, r) = true <->
  length vs = length aos /\ NoDup (map fst aos) /\
  forallb (one_vote_ok roles dest) (select vs aos) = true /\
  mr_result_spec F dest (select vs aos) r.
Proof.
  rewrite mr_ok_unfold, !andb_true_iff, Nat.eqb_eq, nodupb_NoDup.
  assert (Hr : match r with
               | Err => match prescribed Z.eqb fchain_kv (select vs aos) (fun _ : N => Some (two_f_plus_1 F)) dest with
                        | None => true | Some _ => false end
               | Ok c => cons_okb F dest (select vs aos) c
               | _ => false
               end = true <-> mr_result_spec F dest (select vs aos) r).
  { destruct r as [c| | |]; cbn [mr_result_spec].
    - apply cons_okb_iff.
    - rewrite <- prescribed_none_iff.
      destruct (prescribed Z.eqb fchain_kv (select vs aos) (fun _ : N => Some (two_f_plus_1 F)) dest);
        split; try reflexivity; discriminate.
    - split; [discriminate|intros []].
    - split; [discriminate|intros []]. }
  rewrite Hr. tauto.
Qed.

(* an implementation answer (verdicts vs, consensus r) that passes mr_judge satisfies, over the observations it
   accepted: C01_one_vote (roots / on-ramp / off-ramp / RMN), C01_designated, positive fChain claims, and
   C01_dest_required / C01_fchain / C01_per_chain (with "at most one value per key") *)
Theorem mr_sound F dest retry roles known aos vs r :
  mr_ok (F, dest, retry, roles, known, aos) (vs, r) = true ->
  let acc := select vs aos in
  length vs = length aos /\ NoDup (map fst aos) /\ NoDup (map fst acc) /\
  (forall k, NoDup (map fst (votes roots_kv acc k)) /\ NoDup (map fst (votes onramp_kv acc k)) /\
             NoDup (map fst (votes offramp_kv acc k)) /\ NoDup (map fst (votes (rmn_kv dest) acc k))) /\
  (forall o k,
     (forall v, reported roots_kv acc o k v -> designated roles k o) /\
     (forall v, reported onramp_kv acc o k v -> designated roles k o) /\
     (forall v, reported offramp_kv acc o k v -> designated roles dest o) /\
     (forall v, reported (rmn_kv dest) acc o k v -> k = dest /\ designated roles dest o)) /\
  (forall o k f, reported fchain_kv acc o k f -> (0 < f)%Z) /\
  match r with
  | Err => forall f, ~ agreed_value fchain_kv acc dest (two_f_plus_1 F) f
  | Ok c =>
      (forall k f, alookup k (c_fchain c) = Some f <-> agreed_value fchain_kv acc k (two_f_plus_1 F) f) /\
      (exists fd, alookup dest (c_fchain c) = Some fd) /\
      (NoDup (map fst (c_fchain c)) /\ NoDup (map fst (c_roots c)) /\ NoDup (map fst (c_onramp c)) /\
       NoDup (map fst (c_offramp c)) /\ NoDup (map fst (c_rmn c))) /\
      forall k,
        (forall v, alookup k (c_roots c) = Some v <->
           exists f, alookup k (c_fchain c) = Some f /\ agreed_value roots_kv acc k (two_f_plus_1 f) v) /\
        (forall v, alookup k (c_onramp c) = Some v <->
           exists f, alookup k (c_fchain c) = Some f /\ agreed_value onramp_kv acc k (two_f_plus_1 f) v) /\
        (forall v, alookup k (c_offramp c) = Some v <->
           exists fd, alookup dest (c_fchain c) = Some fd /\ agreed_value offramp_kv acc k (two_f_plus_1 fd) v) /\
        (forall v, alookup k (c_rmn c) = Some v <->
           exists f, alookup k (c_fchain c) = Some f /\ agreed_value (rmn_kv dest) acc k (two_f_plus_1 f) v)
  | _ => False
  end.
Proof.
  intros H acc. apply mr_ok_iff in H. destruct H as [Hl [ND [Hov Hr]]].
  pose proof (acc_wf_of_forallb roles dest vs aos ND Hov) as Hwf. fold acc in Hwf, Hr.
  split; [exact Hl|]. split; [exact ND|]. split; [exact (proj1 Hwf)|].
  split; [exact (acc_one_vote roles dest acc Hwf)|].
  split; [exact (acc_designated roles dest acc Hwf)|].
  split; [exact (acc_fchain_claims_pos roles dest acc Hwf)|].
  destruct r as [c| | |]; cbn [mr_result_spec] in Hr.
  - now apply cons_spec_props.
  - exact Hr.
  - exact Hr.
  - exact Hr.
Qed.

(* transfer: C01_byzantine for an arbitrary answer that passes the judge — no group B of at most f_k oracles
   accounts for an agreed root / on-ramp number / RMN config, nor (f_dest) for an off-ramp number *)
Corollary mr_sound_byzantine F dest retry roles known aos vs c :
  mr_ok (F, dest, retry, roles, known, aos) (vs, Ok c) = true ->
  let acc := select vs aos in
  forall k f B,
    alookup k (c_fchain c) = Some f -> (f < 2^63)%Z -> NoDup B -> (length B <= Z.to_nat f)%nat ->
    (forall v, alookup k (c_roots c) = Some v ->
       honest_support (fun o => reported roots_kv acc o k v) B (Z.to_nat f + 1)) /\
    (forall v, alookup k (c_onramp c) = Some v ->
       honest_support (fun o => reported onramp_kv acc o k v) B (Z.to_nat f + 1)) /\
    (forall v, alookup k (c_rmn c) = Some v ->
       honest_support (fun o => reported (rmn_kv dest) acc o k v) B (Z.to_nat f + 1)) /\
    (k = dest -> forall k' v, alookup k' (c_offramp c) = Some v ->
       honest_support (fun o => reported offramp_kv acc o k' v) B (Z.to_nat f + 1)).
Proof.
  intros H acc k f B Hf Hlt NDB HB.
  destruct (mr_sound _ _ _ _ _ _ _ _ H) as [_ [_ [_ [_ [_ [Hpos [Hfi [_ [_ Hp]]]]]]]]]. fold acc in Hpos, Hfi, Hp.
  assert (Hfpos : (0 < f)%Z).
  { apply Hfi in Hf. destruct Hf as [Hs _].
    destruct (supported_by_witness _ _ (two_f_plus_1_positive F) Hs) as [o Ho]. exact (Hpos o k f Ho). }
  destruct (Hp k) as [H1 [H2 [_ H4]]].
  split; [|split; [|split]].
  - intros v Hv. apply H1 in Hv. destruct Hv as [f' [Hf' [Hs _]]]. rewrite Hf in Hf'. inversion Hf'; subst f'.
    apply (supported_minus_byzantine _ f B); try assumption; lia.
  - intros v Hv. apply H2 in Hv. destruct Hv as [f' [Hf' [Hs _]]]. rewrite Hf in Hf'. inversion Hf'; subst f'.
    apply (supported_minus_byzantine _ f B); try assumption; lia.
  - intros v Hv. apply H4 in Hv. destruct Hv as [f' [Hf' [Hs _]]]. rewrite Hf in Hf'. inversion Hf'; subst f'.
    apply (supported_minus_byzantine _ f B); try assumption; lia.
  - intros -> k' v Hv. destruct (Hp k') as [_ [_ [H3 _]]]. apply H3 in Hv.
    destruct Hv as [f' [Hf' [Hs _]]]. rewrite Hf in Hf'. inversion Hf'; subst f'.
    apply (supported_minus_byzantine _ f B); try assumption; lia.
Qed.

(* ---------- (a) THE MODEL PASSES mr_judge ---------- *)
Lemma model_acc_valid retry roles known dest (aos : list aobs) :
  NoDup (map fst aos) ->
  (forall o ob, In (o, ob) aos -> NoDup (map fst (o_fchain ob))) ->
  valid_input retry roles known dest (select (map (validate_obs retry roles known dest) aos) aos).
Proof.
  intros ND Hmap. split; [now apply js01_select_nodup|]. intros o ob Hi. split.
  - apply (Hmap o ob). eapply js01_select_incl; exact Hi.
  - rewrite js01_select_map in Hi. apply filter_In in Hi. tauto.
Qed.

Lemma model_acc_one_vote retry roles known dest (aos : list aobs) :
  forallb (one_vote_ok roles dest) (select (map (validate_obs retry roles known dest) aos) aos) = true.
Proof.
  rewrite js01_select_map. apply forallb_forall. intros ao Hi. apply filter_In in Hi.
  eapply validate_one_vote. exact (proj2 Hi).
Qed.

Lemma mr_result_model retry roles known dest acc F :
  valid_input retry roles known dest acc ->
  mr_result_spec F dest acc (match get_consensus F dest acc with Ok c => Ok (cons_sort c) | r => r end).
Proof.
  intros Hvalid. destruct (get_consensus F dest acc) as [c| | |] eqn:Ec; cbn [mr_result_spec].
  - apply cons_spec_sort. eapply cons_spec_of_model; eassumption.
  - intros f Ha. apply dest_required in Ec.
    assert (Hs : alookup dest (consensus_map Z.eqb (fun _ : N => Some (two_f_plus_1 F)) (agg_map fchain_kv acc)) = Some f).
    { apply (map_field_iff fchain_kv Z.eqb Z_eqb_reflect _ acc dest f (proj1 Hvalid)).
      - intros o ob Hi. exact (proj1 (proj2 Hvalid o ob Hi)).
      - apply const_thr_pos.
      - exists (two_f_plus_1 F). split; [reflexivity|exact Ha]. }
    rewrite Ec in Hs. discriminate.
  - unfold get_consensus in Ec. destruct (alookup dest _) in Ec; discriminate.
  - unfold get_consensus in Ec. destruct (alookup dest _) in Ec; discriminate.
Qed.

Lemma mr_result_model_raw retry roles known dest acc F :
  valid_input retry roles known dest acc -> mr_result_spec F dest acc (get_consensus F dest acc).
Proof.
  intros Hvalid. pose proof (mr_result_model retry roles known dest acc F Hvalid) as Hm.
  destruct (get_consensus F dest acc) as [c| | |] eqn:Ec; cbn [mr_result_spec] in *; try exact Hm.
  eapply cons_spec_of_model; eassumption.
Qed.

(* premises: libocr hands over at most one observation per oracle; FChain is a Go map (unique keys) *)
Theorem mr_model_passes F dest retry roles known aos :
  NoDup (map fst aos) ->
  (forall o ob, In (o, ob) aos -> NoDup (map fst (o_fchain ob))) ->
  mr_ok (F, dest, retry, roles, known, aos) (mr_model (F, dest, retry, roles, known, aos)) = true.
Proof.
  intros ND Hmap.
  pose proof (model_acc_valid retry roles known dest aos ND Hmap) as Hvalid.
  apply mr_ok_iff. split; [apply map_length|]. split; [exact ND|]. split.
  - exact (model_acc_one_vote retry roles known dest aos).
  - exact (mr_result_model retry roles known dest _ F Hvalid).
Qed.

(* non-vacuity: the 7-oracle example of CommitConsensusP (F = 2, destination 9) with the implementation answering
   what C01 prescribes passes; an answer that also adopts the contested root of chain 2 (3 votes against 3) does not;
   nor does one that lets the observation repeating a root three times through *)
Example mr_ok_nonvacuous :
  mr_ok (2%Z, 9%N, false, ex_roles, [0;1;2;3;4;5;6]%N, ex_aos)
        ([true; true; true; true; true; true; true],
         Ok (mkCons [(1%N, ex_rootA)] [(1, 20)]%N [(1, 10)]%N [] ex_fch)) = true /\
  mr_ok (2%Z, 9%N, false, ex_roles, [0;1;2;3;4;5;6]%N, ex_aos)
        ([true; true; true; true; true; true; true],
         Ok (mkCons [(1%N, ex_rootA); (2%N, ex_rootB)] [(1, 20)]%N [(1, 10)]%N [] ex_fch)) = false /\
  mr_ok (2%Z, 9%N, false, ex_roles, [0;1;2;3;4]%N, ex_dup_aos)
        ([true; true; true; true; true], Ok (mkCons [(3%N, ex_rootC)] [] [] [] ex_fch)) = false.
Proof. vm_compute. repeat split. Qed.

(* ====================================================================================================== *)
(*                     sink C01_disc — disc_judge: discovery Outcome (argument of Sync)                   *)
(* ====================================================================================================== *)
Lemma js01_existsb_filter_ext {A} (f g h : A -> bool) l :
  (forall x, f x = g x && h x) -> existsb f l = existsb h (filter g l).
Proof.
  intros H. induction l as [|x l IH]; cbn [existsb filter]; [reflexivity|].
  rewrite H. destruct (g x); cbn [existsb andb]; now rewrite IH.
Qed.

Lemma js01_filter_and {A} (f g : A -> bool) l : filter (fun x => f x && g x) l = filter f (filter g l).
Proof.
  induction l as [|x l IH]; cbn [filter]; [reflexivity|].
  destruct (g x); cbn [filter]; [destruct (f x)|rewrite andb_false_r]; cbn [andb]; now rewrite IH.
Qed.

Lemma js01_filter_all {A} (f : A -> bool) l : (forall x, In x l -> f x = true) -> filter f l = l.
Proof.
  induction l as [|x l IH]; cbn [filter]; intros H; [reflexivity|].
  rewrite (H x (or_introl eq_refl)). f_equal. apply IH. intros y Hy. apply H. now right.
Qed.

Lemma js01_dedup_id (l : list N) : NoDup l -> dedup N.eqb l = l.
Proof.
  induction 1 as [|x l Hn ND IH]; cbn [dedup]; [reflexivity|]. rewrite IH. f_equal.
  apply js01_filter_all. intros y Hy. apply negb_true_iff. apply N.eqb_neq. intros ->. contradiction.
Qed.

Lemma js01_nodup_map_filter {A B} (g : A -> B) (f : A -> bool) l : NoDup (map g l) -> NoDup (map g (filter f l)).
Proof.
  induction l as [|x l IH]; cbn [map filter]; intros ND; [constructor|].
  inversion ND as [|? ? Hn ND']; subst. destruct (f x); cbn [map]; [|now apply IH].
  constructor; [|now apply IH]. intros Hi. apply Hn. apply in_map_iff in Hi. destruct Hi as [y [He Hy]].
  apply filter_In in Hy. apply in_map_iff. exists y. tauto.
Qed.

(* the generic shape of field_ok / d_field_ok: unique keys + lookup = prescription on every key that matters *)
Lemma keyed_check_iff {V} (e : V -> V -> bool) (e_spec : forall x y, reflect (x = y) (e x y))
      (pre : N -> option V) (Q : N -> V -> Prop) ks (out : list (N * V)) :
  (forall k v, pre k = Some v <-> Q k v) -> (forall k v, Q k v -> In k ks) ->
  (nodupb N.eqb (map fst out) && forallb (fun k => option_eqb e (alookup k out) (pre k)) (ks ++ map fst out) = true
   <-> NoDup (map fst out) /\ forall k v, alookup k out = Some v <-> Q k v).
Proof.
  intros Hpre Hks. rewrite andb_true_iff, nodupb_NoDup, forallb_forall. split.
  - intros [ND Hall]. split; [exact ND|]. intros k v.
    destruct (in_dec N.eq_dec k (ks ++ map fst out)) as [Hi|Hn].
    + specialize (Hall k Hi). apply (js01_option_eqb_eq e e_spec) in Hall. rewrite Hall. apply Hpre.
    + split.
      * intros H. exfalso. apply Hn. apply in_or_app. right. eapply js01_alookup_in_keys; exact H.
      * intros HQ. exfalso. apply Hn. apply in_or_app. left. eapply Hks; exact HQ.
  - intros [ND Hiff]. split; [exact ND|]. intros k _. apply (js01_option_eqb_eq e e_spec).
    apply js01_option_ext. intros v. rewrite Hiff. symmetry. apply Hpre.
Qed.

(* zero addresses never count: the address maps as the theorems read them *)
Definition nz (get : dobs -> list (N * N)) : dobs -> list (N * N) := fun ob => nonzero (get ob).

Section DField.
  Variable get : dobs -> list (N * N).
  Variable aos : list (N * dobs).

  Lemma d_reporters_eq k a : d_reporters get aos k a = distinct_reporters N.eqb (nz get) aos k a.
  Proof.
    unfold d_reporters, distinct_reporters. do 4 f_equal. apply filter_ext. intros [o ob]. cbn [snd].
    unfold nz, nonzero. apply js01_existsb_filter_ext. intros [k' a']. cbn [fst snd].
    destruct (N.eqb_spec a' a) as [->|Hne]; destruct (N.eqb k' k), (N.eqb a 0); try reflexivity;
      destruct (N.eqb a' 0); reflexivity.
  Qed.

  Lemma d_values_eq k : d_values get aos k = values_for N.eqb (nz get) aos k.
  Proof.
    unfold d_values, values_for. f_equal. apply flat_map_ext. intros [o ob]. cbn [snd]. f_equal.
    unfold nz, nonzero. apply js01_filter_and.
  Qed.

  Lemma d_prescribed_eq thr_of k : d_prescribed get aos thr_of k = prescribed N.eqb (nz get) aos thr_of k.
  Proof.
    unfold d_prescribed, prescribed. destruct (thr_of k) as [thr|]; [|reflexivity].
    assert (E : filter (fun a => N.leb thr (d_reporters get aos k a)) (d_values get aos k) =
                filter (fun v => N.leb thr (distinct_reporters N.eqb (nz get) aos k v)) (values_for N.eqb (nz get) aos k)).
    { rewrite d_values_eq. apply filter_ext. intros a. now rewrite d_reporters_eq. }
    now rewrite E.
  Qed.

  Definition only_key (only : option N) (k : N) : Prop := match only with Some d => k = d | None => True end.

  Variable thr_of : N -> option N.
  Hypothesis thr_pos : forall k t, thr_of k = Some t -> (0 < t)%N.

  Theorem d_field_ok_iff only out :
    d_field_ok get aos thr_of only out = true <->
    NoDup (map fst out) /\
    forall k a, alookup k out = Some a <->
      only_key only k /\ exists thr, thr_of k = Some thr /\ agreed_value (nz get) aos k thr a.
  Proof.
    unfold d_field_ok.
    apply (keyed_check_iff N.eqb N_eqb_reflect
             (fun k => match only with
                       | Some d => if N.eqb k d then d_prescribed get aos thr_of k else None
                       | None => d_prescribed get aos thr_of k
                       end)
             (fun k a => only_key only k /\ exists thr, thr_of k = Some thr /\ agreed_value (nz get) aos k thr a)).
    - intros k a. rewrite d_prescribed_eq.
      pose proof (prescribed_iff N.eqb N_eqb_reflect (nz get) aos thr_of thr_pos k a) as Hp.
      destruct only as [d|]; cbn [only_key].
      + destruct (N.eqb_spec k d) as [->|Hne].
        * rewrite Hp. tauto.
        * split; [discriminate|]. intros [H _]. contradiction.
      + rewrite Hp. tauto.
    - intros k a [_ [thr [Ht [Hs _]]]].
      destruct (supported_by_witness _ thr (thr_pos k thr Ht) Hs) as [o [ob [Hi Hg]]].
      unfold nz in Hg. apply nonzero_in in Hg.
      change (In k (keys_of get aos)). apply keys_of_in. exists o, a, ob. tauto.
  Qed.
End DField.

(* the nonce manager / RMN remote maps: "only the destination key", read through nonzero on unique keys *)
Lemma only_dest_agreed (get : dobs -> list (N * N)) dest aos k thr a :
  (forall o ob, In (o, ob) aos -> NoDup (map fst (get ob))) -> (0 < thr)%N ->
  (k = dest /\ agreed_value (nz get) aos k thr a <-> agreed_value (fun ob => only_dest dest (get ob)) aos k thr a).
Proof.
  intros Hk Hpos.
  assert (Hr : forall o a', reported (nz get) aos o dest a' <-> reported (fun ob => only_dest dest (get ob)) aos o dest a').
  { intros o a'. unfold reported, nz. split; intros [ob [Hi Hg]]; exists ob; (split; [exact Hi|]).
    - apply nonzero_in in Hg. apply only_dest_in. split; [reflexivity|]. split; [|tauto].
      apply alookup_NoDup_In; [exact (Hk o ob Hi)|tauto].
    - apply only_dest_in in Hg. apply nonzero_in. split; [|tauto]. apply alookup_In. tauto. }
  split.
  - intros [-> Ha]. now apply (agreed_value_ext (nz get) (fun ob => only_dest dest (get ob)) aos aos dest thr a Hr).
  - intros Ha. assert (k = dest).
    { destruct Ha as [Hs _]. destruct (supported_by_witness _ thr Hpos Hs) as [o [ob [_ Hg]]].
      apply only_dest_in in Hg. tauto. }
    subst k. split; [reflexivity|].
    now apply (agreed_value_ext (nz get) (fun ob => only_dest dest (get ob)) aos aos dest thr a Hr).
Qed.

(* ---------- d_fchain: the fChain prescribed by the statement is the agreed fChain ---------- *)
Lemma js01_alookup_flat_single {V} (h : N -> list V) keys k :
  alookup k (flat_map (fun k' => match h k' with [f] => [(k', f)] | _ => [] end) keys) =
  if memN k keys then (match h k with [f] => Some f | _ => None end) else None.
Proof.
  induction keys as [|k0 ks IH]; cbn [flat_map]; [reflexivity|].
  change (memN k (k0 :: ks)) with (N.eqb k k0 || memN k ks).
  destruct (h k0) as [|f [|g l]] eqn:E0; cbn [app alookup].
  - rewrite IH. destruct (N.eqb_spec k k0) as [->|Hne]; cbn [orb]; [|reflexivity]. rewrite E0. now destruct (memN k0 ks).
  - destruct (N.eqb_spec k k0) as [->|Hne]; cbn [orb]; [now rewrite E0|exact IH].
  - rewrite IH. destruct (N.eqb_spec k k0) as [->|Hne]; cbn [orb]; [|reflexivity]. rewrite E0. now destruct (memN k0 ks).
Qed.

Lemma filter_count_supported {O} (p : O -> bool) (aos : list (N * O)) (P : N -> Prop) thr :
  NoDup (map fst aos) ->
  (forall o, P o <-> exists ob, In (o, ob) aos /\ p ob = true) ->
  ((thr <= N.of_nat (length (filter (fun ao => p (snd ao)) aos)))%N <-> supported_by P thr).
Proof.
  intros ND HP. rewrite <- (holders_supported p aos P thr HP). unfold holders.
  rewrite js01_dedup_id by (now apply js01_nodup_map_filter). now rewrite map_length.
Qed.

Theorem d_fchain_iff F aos :
  NoDup (map fst aos) -> (forall o ob, In (o, ob) aos -> NoDup (map fst (d_fchain_obs ob))) ->
  forall k f, alookup k (d_fchain F aos) = Some f <-> agreed_value d_fchain_obs aos k (two_f_plus_1 F) f.
Proof.
  intros ND Hone k f. unfold d_fchain.
  set (cnt := fun k f => N.of_nat (length (filter (fun ao : N * dobs => match alookup k (d_fchain_obs (snd ao)) with
                                                   | Some f' => Z.eqb f f' | None => false end) aos))).
  set (cand := fun k => dedup Z.eqb (flat_map (fun ao : N * dobs => match alookup k (d_fchain_obs (snd ao)) with
                                                   | Some f => [f] | None => [] end) aos)).
  rewrite (js01_alookup_flat_single (fun k => filter (fun f => N.leb (two_f_plus_1 F) (cnt k f)) (cand k))).
  assert (Hcnt : forall x, (two_f_plus_1 F <= cnt k x)%N <-> supported_by (fun o => reported d_fchain_obs aos o k x) (two_f_plus_1 F)).
  { intros x. unfold cnt.
    apply (filter_count_supported (fun ob => match alookup k (d_fchain_obs ob) with Some f' => Z.eqb x f' | None => false end)
             aos _ _ ND).
    intros o. unfold reported. split; intros [ob [Hi Hg]]; exists ob; (split; [exact Hi|]).
    - rewrite (alookup_NoDup_In k _ x (Hone o ob Hi) Hg). apply Z.eqb_refl.
    - destruct (alookup k (d_fchain_obs ob)) as [f'|] eqn:E; [|discriminate]. apply Z.eqb_eq in Hg. subst f'.
      now apply alookup_In. }
  assert (Hcand : forall x, In x (cand k) <-> exists o, reported d_fchain_obs aos o k x).
  { intros x. unfold cand. rewrite (dedup_in Z.eqb Z_eqb_reflect), in_flat_map. split.
    - intros [[o ob] [Hi Hm]]. cbn [snd] in Hm. destruct (alookup k (d_fchain_obs ob)) as [f'|] eqn:E; [|contradiction].
      destruct Hm as [->|[]]. exists o, ob. split; [exact Hi|now apply alookup_In].
    - intros [o [ob [Hi Hg]]]. exists (o, ob). split; [exact Hi|]. cbn [snd].
      rewrite (alookup_NoDup_In k _ x (Hone o ob Hi) Hg). now left. }
  assert (Hf : forall x, In x (filter (fun f => N.leb (two_f_plus_1 F) (cnt k f)) (cand k)) <->
                         supported_by (fun o => reported d_fchain_obs aos o k x) (two_f_plus_1 F)).
  { intros x. rewrite filter_In, N.leb_le, Hcnt, Hcand. split; [tauto|]. intros Hs. split; [|exact Hs].
    exact (supported_by_witness _ _ (two_f_plus_1_positive F) Hs). }
  assert (Hsingle : match filter (fun f => N.leb (two_f_plus_1 F) (cnt k f)) (cand k) with [x] => Some x | _ => None end = Some f
                    <-> agreed_value d_fchain_obs aos k (two_f_plus_1 F) f).
  { rewrite js01_single_match.
    rewrite js01_nodup_singleton by (apply NoDup_filter, dedup_nodup; exact Z_eqb_reflect).
    unfold agreed_value. split.
    - intros [Hin Hall]. split; [now apply Hf|]. intros v' Hs. apply Hall. now apply Hf.
    - intros [Hs Hu]. split; [now apply Hf|]. intros x Hx. apply Hu. now apply Hf. }
  destruct (memN k _) eqn:Em.
  - exact Hsingle.
  - split; [discriminate|]. intros Ha. exfalso.
    destruct Ha as [Hs _]. destruct (supported_by_witness _ _ (two_f_plus_1_positive F) Hs) as [o [ob [Hi Hg]]].
    assert (Hk : memN k (dedup N.eqb (flat_map (fun ao : N * dobs => map fst (d_fchain_obs (snd ao))) aos)) = true).
    { apply memN_In. apply (dedup_in N.eqb N_eqb_reflect). apply in_flat_map. exists (o, ob). split; [exact Hi|].
      cbn [snd]. apply in_map_iff. exists (k, f). split; [reflexivity|exact Hg]. }
    rewrite Hk in Em. discriminate.
Qed.

(* ---------- the five address maps ---------- *)
Section DFieldSpec.
  Variable get : dobs -> list (N * N).
  Variable aos : list (N * dobs).
  Variable thr_of : N -> option N.
  Hypothesis thr_pos : forall k t, thr_of k = Some t -> (0 < t)%N.

  Lemma d_field_none out : d_field_ok get aos thr_of None out = true <-> field_spec (nz get) aos thr_of out.
  Proof.
    rewrite (d_field_ok_iff get aos thr_of thr_pos). unfold field_spec. cbn [only_key].
    split; intros [ND H]; (split; [exact ND|]); intros k a; rewrite H; tauto.
  Qed.

  Lemma d_field_dest dest out :
    (forall o ob, In (o, ob) aos -> NoDup (map fst (get ob))) ->
    (d_field_ok get aos thr_of (Some dest) out = true <-> field_spec (fun ob => only_dest dest (get ob)) aos thr_of out).
  Proof.
    intros Hk. rewrite (d_field_ok_iff get aos thr_of thr_pos). unfold field_spec. cbn [only_key].
    assert (E : forall k a,
      (k = dest /\ exists thr, thr_of k = Some thr /\ agreed_value (nz get) aos k thr a) <->
      (exists thr, thr_of k = Some thr /\ agreed_value (fun ob => only_dest dest (get ob)) aos k thr a)).
    { intros k a. split.
      - intros [Hd [thr [Ht Ha]]]. exists thr. split; [exact Ht|].
        apply (only_dest_agreed get dest aos k thr a Hk (thr_pos k thr Ht)). tauto.
      - intros [thr [Ht Ha]]. apply (only_dest_agreed get dest aos k thr a Hk (thr_pos k thr Ht)) in Ha.
        split; [tauto|]. exists thr. tauto. }
    split; intros [ND H]; (split; [exact ND|]); intros k a; rewrite H; [apply E|symmetry; apply E].
  Qed.
End DFieldSpec.

Definition dfields_okb (fch : list (N * Z)) (dest : N) (aos : list (N * dobs)) (c : dcons) : bool :=
  let thr := thr_2f1 fch in
  let dthr := fun _ : N => match alookup dest fch with Some f => Some (two_f_plus_1 f) | None => None end in
  d_field_ok d_onramp aos dthr None (dc_onramp c) &&
  d_field_ok d_nonce aos thr (Some dest) (dc_nonce c) &&
  d_field_ok d_rmn aos thr (Some dest) (dc_rmn c) &&
  d_field_ok d_feeq aos thr None (dc_feeq c) &&
  d_field_ok d_router aos thr None (dc_router c).

(* the five clauses of C01_discovery for an arbitrary Sync argument c, relative to an agreed fChain fch *)
Definition dfields_spec (fch : list (N * Z)) (dest : N) (aos : list (N * dobs)) (c : dcons) : Prop :=
  field_spec onramp_dkv aos (fun _ : N => thr_2f1 fch dest) (dc_onramp c) /\
  field_spec (nonce_dkv dest) aos (thr_2f1 fch) (dc_nonce c) /\
  field_spec (rmn_dkv dest) aos (thr_2f1 fch) (dc_rmn c) /\
  field_spec feeq_dkv aos (thr_2f1 fch) (dc_feeq c) /\
  field_spec router_dkv aos (thr_2f1 fch) (dc_router c).

Lemma dfields_okb_iff fch dest aos c :
  (forall o ob, In (o, ob) aos -> NoDup (map fst (d_nonce ob)) /\ NoDup (map fst (d_rmn ob))) ->
  (dfields_okb fch dest aos c = true <-> dfields_spec fch dest aos c).
Proof.
  intros Hk. unfold dfields_okb, dfields_spec. cbv zeta. rewrite !andb_true_iff.
  change (fun _ : N => match alookup dest fch with Some f => Some (two_f_plus_1 f) | None => None end)
    with (fun _ : N => thr_2f1 fch dest).
  rewrite (d_field_none d_onramp aos (fun _ : N => thr_2f1 fch dest) (fun _ t H => thr_2f1_pos fch dest t H)).
  rewrite (d_field_none d_feeq aos _ (thr_2f1_pos fch)).
  rewrite (d_field_none d_router aos _ (thr_2f1_pos fch)).
  rewrite (d_field_dest d_nonce aos _ (thr_2f1_pos fch) dest (dc_nonce c) (fun o ob Hi => proj1 (Hk o ob Hi))).
  rewrite (d_field_dest d_rmn aos _ (thr_2f1_pos fch) dest (dc_rmn c) (fun o ob Hi => proj2 (Hk o ob Hi))).
  unfold nz, onramp_dkv, feeq_dkv, router_dkv, nonce_dkv, rmn_dkv. tauto.
Qed.

Lemma dfields_spec_ext fch fch' dest aos c :
  (forall k, alookup k fch = alookup k fch') -> dfields_spec fch dest aos c -> dfields_spec fch' dest aos c.
Proof.
  intros Hl [H1 [H2 [H3 [H4 H5]]]]. pose proof (js01_thr_2f1_ext fch fch' Hl) as Ht. unfold dfields_spec.
  split; [eapply field_spec_ext; [|exact H1]; intros k; apply Ht|].
  split; [eapply field_spec_ext; [exact Ht|exact H2]|].
  split; [eapply field_spec_ext; [exact Ht|exact H3]|].
  split; [eapply field_spec_ext; [exact Ht|exact H4]|].
  eapply field_spec_ext; [exact Ht|exact H5].
Qed.

Lemma dfields_spec_sort fch dest aos c : dfields_spec fch dest aos c -> dfields_spec fch dest aos (dcons_sort c).
Proof.
  intros [H1 [H2 [H3 [H4 H5]]]]. unfold dfields_spec, dcons_sort. cbn [dc_onramp dc_nonce dc_rmn dc_feeq dc_router].
  repeat (split; [now apply field_spec_sortk|]). now apply field_spec_sortk.
Qed.

Lemma d_fchain_agrees F aos :
  NoDup (map fst aos) -> (forall o ob, In (o, ob) aos -> NoDup (map fst (d_fchain_obs ob))) ->
  forall k, alookup k (d_fchain F aos) = alookup k (d_fchain_cons F aos).
Proof.
  intros ND Hone k. apply js01_option_ext. intros f. rewrite (d_fchain_iff F aos ND Hone k f). unfold d_fchain_cons.
  rewrite (map_field_iff d_fchain_obs Z.eqb Z_eqb_reflect _ aos k f ND Hone (const_thr_pos F)). split.
  - intros H. exists (two_f_plus_1 F). split; [reflexivity|exact H].
  - intros [thr [Ht H]]. inversion Ht; subst. exact H.
Qed.

Lemma disc_ok_unfold F dest sf aos o :
  disc_ok (F, dest, sf, aos) o =
  nodupb N.eqb (map fst aos) && forallb (fun ao => nodupb N.eqb (map fst (d_fchain_obs (snd ao)))) aos &&
  match o with
  | Ok (c, err) => Bool.eqb err sf && dfields_okb (d_fchain F aos) dest aos c
  | _ => false
  end.
Proof. destruct o as [[c err]| | |]; reflexivity. Qed.

Lemma disc_ok_iff F dest sf aos o :
  (forall o' ob, In (o', ob) aos -> NoDup (map fst (d_nonce ob)) /\ NoDup (map fst (d_rmn ob))) ->
  (disc_ok (F, dest, sf, aos) o = true <->
   NoDup (map fst aos) /\ (forall o' ob, In (o', ob) aos -> NoDup (map fst (d_fchain_obs ob))) /\
   exists c, o = Ok (c, sf) /\ dfields_spec (d_fchain_cons F aos) dest aos c).
Proof.
  intros Hk. rewrite disc_ok_unfold, !andb_true_iff, nodupb_NoDup, forallb_forall.
  assert (Hone : (forall ao, In ao aos -> nodupb N.eqb (map fst (d_fchain_obs (snd ao))) = true) <->
                 (forall o' ob, In (o', ob) aos -> NoDup (map fst (d_fchain_obs ob)))).
  { split.
    - intros H o' ob Hi. apply nodupb_NoDup. exact (H (o', ob) Hi).
    - intros H [o' ob] Hi. apply nodupb_NoDup. exact (H o' ob Hi). }
  rewrite Hone. split.
  - intros [[ND H1] Ho]. split; [exact ND|]. split; [exact H1|].
    destruct o as [[c err]| | |]; try discriminate. apply andb_true_iff in Ho. destruct Ho as [He Hf].
    apply (proj1 (js01_bool_eqb_eq err sf)) in He. subst err. exists c. split; [reflexivity|].
    apply (dfields_okb_iff _ dest aos c Hk) in Hf.
    eapply dfields_spec_ext; [|exact Hf]. now apply d_fchain_agrees.
  - intros [ND [H1 [c [-> Hs]]]]. split; [split; [exact ND|exact H1]|].
    apply andb_true_iff. split; [now apply js01_bool_eqb_eq|].
    apply (dfields_okb_iff _ dest aos c Hk).
    eapply dfields_spec_ext; [|exact Hs]. intros k. symmetry. now apply d_fchain_agrees.
Qed.

(* dfields_spec in the exact wording of C01_discovery *)
Lemma dfields_spec_props F dest aos c :
  dfields_spec (d_fchain_cons F aos) dest aos c ->
  (NoDup (map fst (dc_onramp c)) /\ NoDup (map fst (dc_nonce c)) /\ NoDup (map fst (dc_rmn c)) /\
   NoDup (map fst (dc_feeq c)) /\ NoDup (map fst (dc_router c))) /\
  forall k,
    (forall a, alookup k (dc_onramp c) = Some a <->
       exists fd, alookup dest (d_fchain_cons F aos) = Some fd /\ agreed_value onramp_dkv aos k (two_f_plus_1 fd) a) /\
    (forall a, alookup k (dc_nonce c) = Some a <->
       exists f, alookup k (d_fchain_cons F aos) = Some f /\ agreed_value (nonce_dkv dest) aos k (two_f_plus_1 f) a) /\
    (forall a, alookup k (dc_rmn c) = Some a <->
       exists f, alookup k (d_fchain_cons F aos) = Some f /\ agreed_value (rmn_dkv dest) aos k (two_f_plus_1 f) a) /\
    (forall a, alookup k (dc_feeq c) = Some a <->
       exists f, alookup k (d_fchain_cons F aos) = Some f /\ agreed_value feeq_dkv aos k (two_f_plus_1 f) a) /\
    (forall a, alookup k (dc_router c) = Some a <->
       exists f, alookup k (d_fchain_cons F aos) = Some f /\ agreed_value router_dkv aos k (two_f_plus_1 f) a).
Proof.
  intros [[N1 H1] [[N2 H2] [[N3 H3] [[N4 H4] [N5 H5]]]]]. split; [tauto|].
  intros k. split; [|split; [|split; [|split]]]; intros a.
  - rewrite H1. apply (thr_2f1_ex (d_fchain_cons F aos) dest (fun t => agreed_value onramp_dkv aos k t a)).
  - rewrite H2. apply (thr_2f1_ex (d_fchain_cons F aos) k (fun t => agreed_value (nonce_dkv dest) aos k t a)).
  - rewrite H3. apply (thr_2f1_ex (d_fchain_cons F aos) k (fun t => agreed_value (rmn_dkv dest) aos k t a)).
  - rewrite H4. apply (thr_2f1_ex (d_fchain_cons F aos) k (fun t => agreed_value feeq_dkv aos k t a)).
  - rewrite H5. apply (thr_2f1_ex (d_fchain_cons F aos) k (fun t => agreed_value router_dkv aos k t a)).
Qed.

Lemma dfields_spec_of_model F dest aos :
  dvalid_input aos -> dfields_spec (d_fchain_cons F aos) dest aos (discovery_outcome F dest aos).
Proof.
  intros Hv. pose proof (discovery_iff F dest aos Hv) as Hd.
  assert (Hnd : forall thr_of (get : dobs -> list (N * N)),
            NoDup (map fst (consensus_map N.eqb thr_of (agg_map get aos)))).
  { intros. apply consensus_map_keys_nodup, agg_map_keys_nodup. }
  unfold dfields_spec. split; [|split; [|split; [|split]]].
  - split.
    + unfold discovery_outcome. cbn [dc_onramp]. destruct (alookup dest (d_fchain_cons F aos)); [apply Hnd|constructor].
    + intros k a. destruct (Hd k) as [_ [H _]]. rewrite H. symmetry.
      apply (thr_2f1_ex (d_fchain_cons F aos) dest (fun t => agreed_value onramp_dkv aos k t a)).
  - split; [apply Hnd|]. intros k a. destruct (Hd k) as [_ [_ [H _]]]. rewrite H. symmetry.
    apply (thr_2f1_ex (d_fchain_cons F aos) k (fun t => agreed_value (nonce_dkv dest) aos k t a)).
  - split; [apply Hnd|]. intros k a. destruct (Hd k) as [_ [_ [_ [H _]]]]. rewrite H. symmetry.
    apply (thr_2f1_ex (d_fchain_cons F aos) k (fun t => agreed_value (rmn_dkv dest) aos k t a)).
  - split; [apply Hnd|]. intros k a. destruct (Hd k) as [_ [_ [_ [_ [H _]]]]]. rewrite H. symmetry.
    apply (thr_2f1_ex (d_fchain_cons F aos) k (fun t => agreed_value feeq_dkv aos k t a)).
  - split; [apply Hnd|]. intros k a. destruct (Hd k) as [_ [_ [_ [_ [_ H]]]]]. rewrite H. symmetry.
    apply (thr_2f1_ex (d_fchain_cons F aos) k (fun t => agreed_value router_dkv aos k t a)).
Qed.

(* ---------- (b) SOUNDNESS of disc_ok ----------
   premise: Addresses[NonceManager] / Addresses[RMNRemote] are Go maps (unique keys) - part of C01_discovery's own
   hypothesis dvalid_input; the other parts of dvalid_input that matter are CHECKED by disc_ok itself *)
Theorem disc_sound F dest sf aos o :
  disc_ok (F, dest, sf, aos) o = true ->
  (forall o' ob, In (o', ob) aos -> NoDup (map fst (d_nonce ob)) /\ NoDup (map fst (d_rmn ob))) ->
  NoDup (map fst aos) /\ (forall o' ob, In (o', ob) aos -> NoDup (map fst (d_fchain_obs ob))) /\
  exists c, o = Ok (c, sf) /\
    (NoDup (map fst (dc_onramp c)) /\ NoDup (map fst (dc_nonce c)) /\ NoDup (map fst (dc_rmn c)) /\
     NoDup (map fst (dc_feeq c)) /\ NoDup (map fst (dc_router c))) /\
    forall k,
      (forall a, alookup k (dc_onramp c) = Some a <->
         exists fd, alookup dest (d_fchain_cons F aos) = Some fd /\ agreed_value onramp_dkv aos k (two_f_plus_1 fd) a) /\
      (forall a, alookup k (dc_nonce c) = Some a <->
         exists f, alookup k (d_fchain_cons F aos) = Some f /\ agreed_value (nonce_dkv dest) aos k (two_f_plus_1 f) a) /\
      (forall a, alookup k (dc_rmn c) = Some a <->
         exists f, alookup k (d_fchain_cons F aos) = Some f /\ agreed_value (rmn_dkv dest) aos k (two_f_plus_1 f) a) /\
      (forall a, alookup k (dc_feeq c) = Some a <->
         exists f, alookup k (d_fchain_cons F aos) = Some f /\ agreed_value feeq_dkv aos k (two_f_plus_1 f) a) /\
      (forall a, alookup k (dc_router c) = Some a <->
         exists f, alookup k (d_fchain_cons F aos) = Some f /\ agreed_value router_dkv aos k (two_f_plus_1 f) a).
Proof.
  intros H Hk. apply (disc_ok_iff F dest sf aos o Hk) in H. destruct H as [ND [Hone [c [-> Hs]]]].
  split; [exact ND|]. split; [exact Hone|]. exists c. split; [reflexivity|]. now apply dfields_spec_props.
Qed.

(* ---------- (a) THE MODEL PASSES disc_judge (premise = the hypothesis of C01_discovery) ---------- *)
Theorem disc_model_passes F dest sf aos :
  dvalid_input aos -> disc_ok (F, dest, sf, aos) (disc_model (F, dest, sf, aos)) = true.
Proof.
  intros Hv. destruct Hv as [ND Hwf].
  assert (Hk : forall o' ob, In (o', ob) aos -> NoDup (map fst (d_nonce ob)) /\ NoDup (map fst (d_rmn ob))).
  { intros o' ob Hi. destruct (Hwf o' ob Hi) as [_ [_ [H1 [H2 _]]]]. tauto. }
  apply (disc_ok_iff F dest sf aos _ Hk). split; [exact ND|]. split.
  - intros o' ob Hi. destruct (Hwf o' ob Hi) as [H _]. exact H.
  - exists (dcons_sort (discovery_outcome F dest aos)). split; [reflexivity|].
    apply dfields_spec_sort. apply dfields_spec_of_model. split; assumption.
Qed.

(* non-vacuity: the 4-oracle example of DiscoveryP; the prescribed Sync argument passes, one that also adopts the
   router reported by two oracles only does not, and an error that is not Sync's is rejected *)
Example disc_ok_nonvacuous :
  disc_ok (1%Z, 9%N, false, ex_d_ok) (Ok (mkDcons [(5, 77)]%N [(9, 55)]%N [] [] [], false)) = true /\
  disc_ok (1%Z, 9%N, false, ex_d_ok) (Ok (mkDcons [(5, 77)]%N [(9, 55)]%N [] [] [(5, 66)]%N, false)) = false /\
  disc_ok (1%Z, 9%N, false, ex_d_ok) (Ok (mkDcons [(5, 77)]%N [(9, 55)]%N [] [] [], true)) = false.
Proof. vm_compute. repeat split. Qed.

(* ====================================================================================================== *)
(*          sink C01_plug — plug_judge: commit.Plugin.ValidateObservation + Plugin.Outcome                *)
(* ====================================================================================================== *)
(* the clauses of C01_dest_required / C01_fchain / C01_per_chain for an arbitrary answer r over the accepted
   observations acc (the conclusion of mr_sound), and of C01_discovery for an arbitrary Sync argument c *)
Definition consensus_clauses (F : Z) (dest : N) (acc : list aobs) (r : res cons) : Prop :=
  match r with
  | Err => forall f, ~ agreed_value fchain_kv acc dest (two_f_plus_1 F) f
  | Ok c =>
      (forall k f, alookup k (c_fchain c) = Some f <-> agreed_value fchain_kv acc k (two_f_plus_1 F) f) /\
      (exists fd, alookup dest (c_fchain c) = Some fd) /\
      (NoDup (map fst (c_fchain c)) /\ NoDup (map fst (c_roots c)) /\ NoDup (map fst (c_onramp c)) /\
       NoDup (map fst (c_offramp c)) /\ NoDup (map fst (c_rmn c))) /\
      forall k,
        (forall v, alookup k (c_roots c) = Some v <->
           exists f, alookup k (c_fchain c) = Some f /\ agreed_value roots_kv acc k (two_f_plus_1 f) v) /\
        (forall v, alookup k (c_onramp c) = Some v <->
           exists f, alookup k (c_fchain c) = Some f /\ agreed_value onramp_kv acc k (two_f_plus_1 f) v) /\
        (forall v, alookup k (c_offramp c) = Some v <->
           exists fd, alookup dest (c_fchain c) = Some fd /\ agreed_value offramp_kv acc k (two_f_plus_1 fd) v) /\
        (forall v, alookup k (c_rmn c) = Some v <->
           exists f, alookup k (c_fchain c) = Some f /\ agreed_value (rmn_kv dest) acc k (two_f_plus_1 f) v)
  | _ => False
  end.

Definition discovery_clauses (F : Z) (dest : N) (aos : list (N * dobs)) (c : dcons) : Prop :=
  (NoDup (map fst (dc_onramp c)) /\ NoDup (map fst (dc_nonce c)) /\ NoDup (map fst (dc_rmn c)) /\
   NoDup (map fst (dc_feeq c)) /\ NoDup (map fst (dc_router c))) /\
  forall k,
    (forall a, alookup k (dc_onramp c) = Some a <->
       exists fd, alookup dest (d_fchain_cons F aos) = Some fd /\ agreed_value onramp_dkv aos k (two_f_plus_1 fd) a) /\
    (forall a, alookup k (dc_nonce c) = Some a <->
       exists f, alookup k (d_fchain_cons F aos) = Some f /\ agreed_value (nonce_dkv dest) aos k (two_f_plus_1 f) a) /\
    (forall a, alookup k (dc_rmn c) = Some a <->
       exists f, alookup k (d_fchain_cons F aos) = Some f /\ agreed_value (rmn_dkv dest) aos k (two_f_plus_1 f) a) /\
    (forall a, alookup k (dc_feeq c) = Some a <->
       exists f, alookup k (d_fchain_cons F aos) = Some f /\ agreed_value feeq_dkv aos k (two_f_plus_1 f) a) /\
    (forall a, alookup k (dc_router c) = Some a <->
       exists f, alookup k (d_fchain_cons F aos) = Some f /\ agreed_value router_dkv aos k (two_f_plus_1 f) a).

Lemma mr_result_spec_clauses F dest acc r : mr_result_spec F dest acc r -> consensus_clauses F dest acc r.
Proof. destruct r as [c| | |]; cbn [mr_result_spec consensus_clauses]; try tauto. apply cons_spec_props. Qed.

(* ---------- spec_cons: "the consensus observation prescribed by the statement" satisfies the statement ---------- *)
Lemma js01_alookup_flat_opt {V} (g : N -> option V) keys k :
  alookup k (flat_map (fun k' => match g k' with Some v => [(k', v)] | None => [] end) keys) =
  if memN k keys then g k else None.
Proof.
  induction keys as [|k0 ks IH]; cbn [flat_map]; [reflexivity|].
  change (memN k (k0 :: ks)) with (N.eqb k k0 || memN k ks).
  destruct (g k0) as [v|] eqn:E0; cbn [app alookup].
  - destruct (N.eqb_spec k k0) as [->|Hne]; cbn [orb]; [now rewrite E0|exact IH].
  - rewrite IH. destruct (N.eqb_spec k k0) as [->|Hne]; cbn [orb]; [|reflexivity]. rewrite E0. now destruct (memN k0 ks).
Qed.

Lemma js01_flat_opt_keys_incl {V} (g : N -> option V) keys k :
  In k (map fst (flat_map (fun k' => match g k' with Some v => [(k', v)] | None => [] end) keys)) -> In k keys.
Proof.
  induction keys as [|k0 ks IH]; cbn [flat_map]; [intros []|].
  rewrite map_app, in_app_iff. intros [H|H]; [|right; now apply IH].
  destruct (g k0); [|contradiction]. destruct H as [H|[]]. now left.
Qed.

Lemma js01_flat_opt_keys_nodup {V} (g : N -> option V) keys :
  NoDup keys -> NoDup (map fst (flat_map (fun k' => match g k' with Some v => [(k', v)] | None => [] end) keys)).
Proof.
  induction 1 as [|k0 ks Hn ND IH]; cbn [flat_map]; [constructor|].
  destruct (g k0); cbn [app map fst]; [|exact IH]. constructor; [|exact IH].
  intros Hi. apply Hn. eapply js01_flat_opt_keys_incl; exact Hi.
Qed.

Lemma spec_map_spec {O V} (e : V -> V -> bool) (e_spec : forall x y, reflect (x = y) (e x y))
      (get : O -> list (N * V)) aos thr_of :
  (forall k t, thr_of k = Some t -> (0 < t)%N) -> field_spec get aos thr_of (spec_map e get aos thr_of).
Proof.
  intros Hpos. unfold spec_map, field_spec. split.
  - apply js01_flat_opt_keys_nodup. eapply Permutation_NoDup; [symmetry; apply sortN_perm_self|].
    apply dedup_nodup. exact N_eqb_reflect.
  - intros k v. rewrite (js01_alookup_flat_opt (prescribed e get aos thr_of)).
    destruct (memN k (sortN (keys_of get aos))) eqn:Em; [now apply prescribed_iff|].
    split; [discriminate|]. intros [thr [Ht [Hs _]]]. exfalso.
    destruct (supported_by_witness _ thr (Hpos k thr Ht) Hs) as [o Ho].
    assert (Hk : memN k (sortN (keys_of get aos)) = true).
    { apply memN_In. apply sort_by_in. apply keys_of_in. exists o, v. exact Ho. }
    rewrite Hk in Em. discriminate.
Qed.

Theorem spec_cons_spec F dest acc : mr_result_spec F dest acc (spec_cons F dest acc).
Proof.
  unfold spec_cons.
  pose proof (spec_map_spec Z.eqb Z_eqb_reflect fchain_kv acc _ (const_thr_pos F)) as Hf.
  set (fch := spec_map Z.eqb fchain_kv acc (fun _ : N => Some (two_f_plus_1 F))) in *.
  destruct (alookup dest fch) as [fd|] eqn:Ed; cbn [mr_result_spec].
  - unfold cons_spec. cbn [c_fchain c_roots c_onramp c_offramp c_rmn].
    split; [exact Hf|]. split; [now exists fd|].
    split; [apply (spec_map_spec root_eqb root_eqb_reflect), thr_2f1_pos|].
    split; [apply (spec_map_spec N.eqb N_eqb_reflect), thr_2f1_pos|].
    split; [|apply (spec_map_spec N.eqb N_eqb_reflect), thr_2f1_pos].
    eapply field_spec_ext; [|apply (spec_map_spec N.eqb N_eqb_reflect offramp_kv acc _ (const_thr_pos fd))].
    intros k. unfold thr_2f1. now rewrite Ed.
  - intros f Ha. destruct Hf as [_ Hf].
    assert (H : alookup dest fch = Some f).
    { apply Hf. exists (two_f_plus_1 F). split; [reflexivity|exact Ha]. }
    rewrite Ed in H. discriminate.
Qed.

(* two answers that both satisfy the statement have the same merkle outcome: the statement determines every map
   up to the order of its keys, and reportRangesOutcome sorts *)
Lemma field_spec_unique {O V} (get : O -> list (N * V)) aos thr_of thr_of' out out' :
  (forall k, thr_of k = thr_of' k) -> field_spec get aos thr_of out -> field_spec get aos thr_of' out' ->
  (forall k, alookup k out = alookup k out') /\ Permutation out out'.
Proof.
  intros Ht [ND H] [ND' H'].
  assert (Hl : forall k, alookup k out = alookup k out').
  { intros k. apply js01_option_ext. intros v. rewrite H, H', Ht. reflexivity. }
  split; [exact Hl|].
  apply NoDup_Permutation; try (eapply NoDup_map_inv; eassumption).
  intros [k v]. rewrite <- (js01_alookup_iff k out v ND), <- (js01_alookup_iff k out' v ND'), Hl. reflexivity.
Qed.

Lemma mro_of_determined F dest maxsize acc r1 r2 :
  mr_result_spec F dest acc r1 -> mr_result_spec F dest acc r2 -> mro_of dest maxsize r1 = mro_of dest maxsize r2.
Proof.
  destruct r1 as [c1| | |], r2 as [c2| | |]; cbn [mr_result_spec]; try contradiction; try reflexivity.
  - intros [Hf1 [_ [_ [Hon1 [Hoff1 Hr1]]]]] [Hf2 [_ [_ [Hon2 [Hoff2 Hr2]]]]].
    destruct (field_spec_unique _ _ _ _ _ _ (fun _ => eq_refl) Hf1 Hf2) as [Hfl _].
    pose proof (js01_thr_2f1_ext _ _ Hfl) as Ht.
    destruct (field_spec_unique _ _ _ _ _ _ Ht Hon1 Hon2) as [_ Pon].
    destruct (field_spec_unique _ _ _ _ _ _ (fun _ => Ht dest) Hoff1 Hoff2) as [_ Poff].
    destruct (field_spec_unique _ _ _ _ _ _ Ht Hr1 Hr2) as [Hrl _].
    unfold mro_of.
    rewrite (report_ranges_order_indep (c_onramp c1) (c_onramp c2) (c_offramp c1) (c_offramp c2) maxsize
               (proj1 Hoff1) (proj1 Hon1) Poff Pon).
    destruct (report_ranges (c_onramp c2) (c_offramp c2) maxsize) as [rs os]. now rewrite Hrl.
  - intros [Hf1 [[fd Hd] _]] Hn. exfalso. destruct Hf1 as [_ Hf1]. apply Hf1 in Hd.
    destruct Hd as [thr [Ht Ha]]. inversion Ht; subst. exact (Hn fd Ha).
  - intros Hn [Hf2 [[fd Hd] _]]. exfalso. destruct Hf2 as [_ Hf2]. apply Hf2 in Hd.
    destruct Hd as [thr [Ht Ha]]. inversion Ht; subst. exact (Hn fd Ha).
Qed.

(* ---------- reflection of the outcome equality ---------- *)
Lemma js01_kv_eqb_eq {V} (e : V -> V -> bool) :
  (forall a b, e a b = true <-> a = b) -> forall l1 l2 : list (N * V), kv_eqb e l1 l2 = true <-> l1 = l2.
Proof.
  intros He. unfold kv_eqb. apply js01_list_eqb_eq. intros [k1 v1] [k2 v2]. unfold pair_eqb. cbn [fst snd].
  rewrite andb_true_iff, N.eqb_eq, He. split; [intros [-> ->]; reflexivity|intros H; inversion H; split; reflexivity].
Qed.

Lemma mro_eqb_eq (a b : mro) : mro_eqb a b = true <-> a = b.
Proof.
  destruct a as [[[t1 r1] o1] c1], b as [[[t2 r2] o2] c2]. cbn [mro_eqb].
  rewrite !andb_true_iff, N.eqb_eq, (js01_option_eqb_eq N.eqb N_eqb_reflect), (js01_kv_eqb_eq N.eqb N.eqb_eq).
  rewrite (js01_kv_eqb_eq (pair_eqb N.eqb N.eqb)).
  - split; [intros [[[-> ->] ->] ->]; reflexivity|intros H; inversion H; repeat split].
  - intros [x1 y1] [x2 y2]. unfold pair_eqb. cbn [fst snd]. rewrite andb_true_iff, !N.eqb_eq.
    split; [intros [-> ->]; reflexivity|intros H; inversion H; split; reflexivity].
Qed.

Lemma plug_ok_unfold fresh F dest maxsize roles known aos vs r :
  plug_ok (fresh, F, dest, maxsize, roles, known, aos) (vs, r) =
  let acc := select (map (plug_validate roles known dest) aos) aos in
  nodupb N.eqb (map fst aos) && list_eqb Bool.eqb vs (map (plug_validate roles known dest) aos) &&
  forallb (fun ao => one_vote_ok roles dest (fst ao, fst (fst (snd ao)))) acc &&
  match r with
  | Ok (m, d) =>
      mro_eqb m (mro_of dest maxsize (spec_cons F dest (map (fun ao => (fst ao, fst (fst (snd ao)))) acc))) &&
      disc_ok (F, dest, false, map (fun ao => (fst ao, snd (fst (snd ao)))) acc) (Ok (d, false))
  | _ => false
  end.
Proof. destruct r as [[m d]| | |]; reflexivity. Qed.

Definition plug_mr (ao : N * plug_obs) : aobs := (fst ao, fst (fst (snd ao))).
Definition plug_disc (ao : N * plug_obs) : N * dobs := (fst ao, snd (fst (snd ao))).

Lemma plug_mr_fst l : map fst (map plug_mr l) = map fst l.
Proof. rewrite map_map. reflexivity. Qed.
Lemma plug_disc_fst l : map fst (map plug_disc l) = map fst l.
Proof. rewrite map_map. reflexivity. Qed.

(* ---------- (b) SOUNDNESS of plug_ok ---------- *)
Theorem plug_sound fresh F dest maxsize roles known aos vs r :
  plug_ok (fresh, F, dest, maxsize, roles, known, aos) (vs, r) = true ->
  let acc := select (map (plug_validate roles known dest) aos) aos in
  let macc := map plug_mr acc in
  let dacc := map plug_disc acc in
  NoDup (map fst aos) /\
  (* the verdicts are those of the validation rules *)
  vs = map (plug_validate roles known dest) aos /\
  (* C01_one_vote / C01_designated over the merkle-root parts that were let through *)
  (forall k, NoDup (map fst (votes roots_kv macc k)) /\ NoDup (map fst (votes onramp_kv macc k)) /\
             NoDup (map fst (votes offramp_kv macc k)) /\ NoDup (map fst (votes (rmn_kv dest) macc k))) /\
  (forall o k,
     (forall v, reported roots_kv macc o k v -> designated roles k o) /\
     (forall v, reported onramp_kv macc o k v -> designated roles k o) /\
     (forall v, reported offramp_kv macc o k v -> designated roles dest o) /\
     (forall v, reported (rmn_kv dest) macc o k v -> k = dest /\ designated roles dest o)) /\
  exists m d, r = Ok (m, d) /\
    (* the merkle outcome is that of a consensus observation satisfying C01_dest_required / C01_fchain / C01_per_chain *)
    (exists rc, m = mro_of dest maxsize rc /\ consensus_clauses F dest macc rc) /\
    (* the Sync argument satisfies C01_discovery (nonce-manager / RMN-remote maps being Go maps) *)
    ((forall o' ob, In (o', ob) dacc -> NoDup (map fst (d_nonce ob)) /\ NoDup (map fst (d_rmn ob))) ->
     discovery_clauses F dest dacc d).
Proof.
  intros H acc macc dacc. rewrite plug_ok_unfold in H. cbv zeta in H. fold acc in H.
  change (map (fun ao : N * plug_obs => (fst ao, fst (fst (snd ao)))) acc) with macc in H.
  change (map (fun ao : N * plug_obs => (fst ao, snd (fst (snd ao)))) acc) with dacc in H.
  rewrite !andb_true_iff in H. destruct H as [[[ND Hvs] Hov] Hr].
  apply nodupb_NoDup in ND. apply (js01_list_eqb_eq Bool.eqb js01_bool_eqb_eq) in Hvs.
  assert (Hwf : acc_wf roles dest macc).
  { split.
    - unfold macc. rewrite plug_mr_fst. unfold acc. now apply js01_select_nodup.
    - intros o ob Hi. unfold macc in Hi. apply in_map_iff in Hi. destruct Hi as [ao [He Hi]].
      rewrite forallb_forall in Hov. specialize (Hov ao Hi).
      change (one_vote_ok roles dest (plug_mr ao) = true) in Hov. rewrite He in Hov.
      now apply one_vote_ok_inv. }
  split; [exact ND|]. split; [exact Hvs|].
  split; [exact (acc_one_vote roles dest macc Hwf)|]. split; [exact (acc_designated roles dest macc Hwf)|].
  destruct r as [[m d]| | |]; try discriminate. apply andb_true_iff in Hr. destruct Hr as [Hm Hd].
  exists m, d. split; [reflexivity|]. split.
  - exists (spec_cons F dest macc). split; [now apply mro_eqb_eq|].
    apply mr_result_spec_clauses, spec_cons_spec.
  - intros Hk. destruct (disc_sound F dest false dacc _ Hd Hk) as [_ [_ [c [Ec Hc]]]].
    inversion Ec; subst c. exact Hc.
Qed.

(* ---------- (a) THE MODEL PASSES plug_judge ----------
   premises: one observation per oracle (libocr); FChain and the discovery maps are Go maps (unique keys) *)
Theorem plug_model_passes fresh F dest maxsize roles known aos :
  NoDup (map fst aos) ->
  (forall ao, In ao aos -> NoDup (map fst (o_fchain (fst (fst (snd ao))))) /\ dobs_wf (snd (fst (snd ao)))) ->
  plug_ok (fresh, F, dest, maxsize, roles, known, aos) (plug_model (fresh, F, dest, maxsize, roles, known, aos)) = true.
Proof.
  intros ND Hwf. unfold plug_model. rewrite plug_ok_unfold. cbv zeta.
  set (acc := select (map (plug_validate roles known dest) aos) aos).
  change (map (fun ao : N * plug_obs => (fst ao, fst (fst (snd ao)))) acc) with (map plug_mr acc).
  change (map (fun ao : N * plug_obs => (fst ao, snd (fst (snd ao)))) acc) with (map plug_disc acc).
  assert (NDa : NoDup (map fst acc)) by (unfold acc; now apply js01_select_nodup).
  assert (Hacc : forall ao, In ao acc -> In ao aos /\ plug_validate roles known dest ao = true).
  { intros ao Hi. unfold acc in Hi. rewrite js01_select_map in Hi. apply filter_In in Hi. exact Hi. }
  assert (Hval : forall ao, plug_validate roles known dest ao = true -> validate_obs false roles known dest (plug_mr ao) = true).
  { intros [o [[mo dob] topf]] Hv. unfold plug_validate in Hv. rewrite !andb_true_iff in Hv. unfold plug_mr. cbn [fst snd]. tauto. }
  assert (Hvalid : valid_input false roles known dest (map plug_mr acc)).
  { split; [now rewrite plug_mr_fst|]. intros o ob Hi. apply in_map_iff in Hi. destruct Hi as [ao [He Hi]].
    destruct (Hacc ao Hi) as [Hin Hv]. split.
    - unfold obs_wf. unfold plug_mr in He. inversion He; subst. exact (proj1 (Hwf ao Hin)).
    - rewrite <- He. now apply Hval. }
  assert (Hdvalid : dvalid_input (map plug_disc acc)).
  { split; [now rewrite plug_disc_fst|]. intros o ob Hi. apply in_map_iff in Hi. destruct Hi as [ao [He Hi]].
    destruct (Hacc ao Hi) as [Hin _]. unfold plug_disc in He. inversion He; subst. exact (proj2 (Hwf ao Hin)). }
  rewrite !andb_true_iff. split; [split; [split|]|].
  - now apply nodupb_NoDup.
  - now apply (js01_list_eqb_eq Bool.eqb js01_bool_eqb_eq).
  - apply forallb_forall. intros ao Hi. destruct (Hacc ao Hi) as [_ Hv].
    apply (validate_one_vote false roles known dest (plug_mr ao)). now apply Hval.
  - split.
    + apply mro_eqb_eq. apply (mro_of_determined F dest maxsize (map plug_mr acc)); [|apply spec_cons_spec].
      exact (mr_result_model_raw false roles known dest _ F Hvalid).
    + exact (disc_model_passes F dest false (map plug_disc acc) Hdvalid).
Qed.

(* non-vacuity: the 7 oracles of ex_aos, the first five also reporting f(9) = 1, f(1) = 2, on-ramp 77 of chain 1 and
   the nonce manager 55; the prescribed outcome passes; an outcome whose interval stops at 19, or whose Sync argument
   lacks the agreed on-ramp, or verdicts that reject oracle 6, do not *)
Definition ex_pd : dobs := mkDobs [(9%N, 1%Z); (1%N, 2%Z)] [(1, 77)]%N [(9, 55)]%N [] [] [].
Definition ex_pe : dobs := mkDobs [] [] [] [] [] [].
Definition ex_plug_aos : list (N * plug_obs) :=
  map (fun ao => (fst ao, (snd ao, (if N.ltb (fst ao) 5 then ex_pd else ex_pe), @nil (N * Z)))) ex_aos.
Definition ex_plug_in : plug_in := (true, 2%Z, 9%N, 256%N, ex_roles, [0;1;2;3;4;5;6]%N, ex_plug_aos).
Example plug_ok_nonvacuous :
  plug_ok ex_plug_in ([true; true; true; true; true; true; true],
                      plug_res 1 [(1, (10, 20))]%N [(1, 10)]%N None (mkDcons [(1, 77)]%N [(9, 55)]%N [] [] [])) = true /\
  plug_ok ex_plug_in ([true; true; true; true; true; true; true],
                      plug_res 1 [(1, (10, 19))]%N [(1, 10)]%N None (mkDcons [(1, 77)]%N [(9, 55)]%N [] [] [])) = false /\
  plug_ok ex_plug_in ([true; true; true; true; true; true; true],
                      plug_res 1 [(1, (10, 20))]%N [(1, 10)]%N None (mkDcons [] [(9, 55)]%N [] [] [])) = false /\
  plug_ok ex_plug_in ([true; true; true; true; true; true; false],
                      plug_res 1 [(1, (10, 20))]%N [(1, 10)]%N None (mkDcons [(1, 77)]%N [(9, 55)]%N [] [] [])) = false.
Proof. vm_compute. repeat split. Qed.

(* ====================================================================================================== *)
(*                      sink C01_quorum — quorum_judge: commit.Plugin.ObservationQuorum                   *)
(* ====================================================================================================== *)
(* the executable property is "o = quorum_model i" (equality-only); no C01 theorem assumes a quorum *)
Lemma quorum_ok_eq (i : Z * Z * Z) (o : bool) : Bool.eqb o (quorum_model i) = true <-> o = quorum_model i.
Proof. apply js01_bool_eqb_eq. Qed.

Theorem quorum_model_passes (i : Z * Z * Z) : Bool.eqb (quorum_model i) (quorum_model i) = true.
Proof. now apply js01_bool_eqb_eq. Qed.

(* what the equality transfers: the answer is "enough" exactly from 2F+1 attributed observations on *)
Theorem quorum_sound n f cnt (o : bool) :
  Bool.eqb o (quorum_model (n, f, cnt)) = true -> (o = true <-> (2 * f + 1 <= cnt)%Z).
Proof.
  intros H. apply quorum_ok_eq in H. subst o. unfold quorum_model. apply Z.leb_le.
Qed.

Example quorum_ok_nonvacuous :
  Bool.eqb true (quorum_model (7, 2, 5)%Z) = true /\ Bool.eqb true (quorum_model (7, 2, 4)%Z) = false.
Proof. vm_compute. split; reflexivity. Qed.

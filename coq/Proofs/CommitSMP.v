(* CommitSMP.v — theorems about the commit round state machine (Model/CommitSM.v). *)
Require Import Verif.Model.Base Verif.Proofs.BaseP Verif.Model.SeqRange Verif.Proofs.SeqRangeP
               Verif.Model.CommitMerkle Verif.Model.CommitSM.

(* ---------- NextState ---------- *)
Lemma next_state_cases t :
  (t = 1%Z /\ next_state t = Building) \/
  ((t = 2%Z \/ t = 4%Z) /\ next_state t = Waiting) \/
  (t <> 1%Z /\ t <> 2%Z /\ t <> 4%Z /\ next_state t = Selecting).
Proof.
  unfold next_state.
  destruct (Z.eqb_spec t 1); [left; split; [assumption|reflexivity]|].
  destruct (Z.eqb_spec t 2); [right; left; split; [left; assumption|reflexivity]|].
  destruct (Z.eqb_spec t 3); [right; right; repeat split; congruence|].
  destruct (Z.eqb_spec t 4); [right; left; split; [right; assumption|reflexivity]|].
  destruct (Z.eqb_spec t 5); [right; right; repeat split; congruence|].
  destruct (Z.eqb_spec t 6); right; right; repeat split; congruence.
Qed.

Lemma finish_report_type prev roots sigs :
  let o := finish_report prev roots sigs in
  (roots = [] /\ o_type o = T_empty /\ o_sigs o = [] /\ o_roots o = []) \/
  (roots <> [] /\ o_type o = T_generated /\ o_sigs o = sigs /\ o_roots o = roots).
Proof. destruct roots; cbn; [left|right]; repeat split; congruence. Qed.

Lemma finish_report_carries prev roots sigs :
  o_off (finish_report prev roots sigs) = o_off prev /\ o_cfg (finish_report prev roots sigs) = o_cfg prev /\
  o_attempts (finish_report prev roots sigs) = 0%N.
Proof. destruct roots; cbn; repeat split. Qed.

(* buildReport: the outcome is the empty outcome (malformed bundle), ReportEmpty or ReportGenerated *)
Lemma build_report_type q c prev :
  let o := build_report q c prev in
  o = empty_outcome \/
  (o_type o = T_empty /\ o_roots o = [] /\ o_sigs o = [] /\ o_off o = o_off prev /\ o_cfg o = o_cfg prev /\ o_attempts o = 0%N) \/
  (o_type o = T_generated /\ o_roots o <> [] /\ o_off o = o_off prev /\ o_cfg o = o_cfg prev /\ o_attempts o = 0%N).
Proof.
  unfold build_report.
  assert (F : forall roots sigs, let o := finish_report prev roots sigs in
     (o_type o = T_empty /\ o_roots o = [] /\ o_sigs o = [] /\ o_off o = o_off prev /\ o_cfg o = o_cfg prev /\ o_attempts o = 0%N) \/
     (o_type o = T_generated /\ o_roots o <> [] /\ o_off o = o_off prev /\ o_cfg o = o_cfg prev /\ o_attempts o = 0%N)).
  { intros roots sigs. destruct roots; cbn; [left|right]; repeat split; congruence. }
  destruct (q_sigs q) as [b|]; [|right; apply F].
  destruct (parse_sigs (b_sigs b)); [|left; reflexivity].
  destruct (parse_lanes (b_lanes b)); [|left; reflexivity].
  right. apply F.
Qed.

Lemma off_updated_iff prev_off cur_off :
  off_updated prev_off cur_off = true <->
  exists k s cur, In (k, s) prev_off /\ alookup k cur_off = Some cur /\ s <> cur.
Proof.
  unfold off_updated. rewrite existsb_exists. split.
  - intros [[k s] [HI H]]. cbn [fst snd] in H. destruct (alookup k cur_off) as [cur|] eqn:E; [|discriminate].
    exists k, s, cur. repeat split; try assumption. intros ->. rewrite N.eqb_refl in H. discriminate.
  - intros [k [s [cur [HI [E Hne]]]]]. exists (k, s). split; [exact HI|]. cbn [fst snd]. rewrite E.
    destruct (N.eqb_spec s cur); [contradiction|reflexivity].
Qed.

(* ---------- C03: legal transitions ---------- *)
(* For every previous outcome whatsoever (any type value), every query and every consensus result, the pair
   (state before, state after) is an edge of the README diagram; the self-loop on building exists only for a
   retry query and then reproduces the previous outcome; selecting -> selecting happens only with the empty
   outcome (no consensus); the outcome type written is one of those the diagram attaches to the state. *)
Theorem edges max n prev q co :
  let st := next_state (o_type prev) in
  let o := get_outcome max n prev q co in
  let st' := next_state (o_type o) in
  match st with
  | Selecting =>
      (exists c, co = Some c /\ o_type o = T_selected /\ st' = Building) \/
      (co = None /\ o = empty_outcome /\ st' = Selecting)
  | Building =>
      (q_retry q = true /\ o = prev /\ st' = Building) \/
      (q_retry q = false /\
       ((o = empty_outcome /\ st' = Selecting) \/
        (o_type o = T_empty /\ st' = Selecting) \/
        (o_type o = T_generated /\ st' = Waiting /\ co <> None)))
  | Waiting =>
      (o = empty_outcome /\ co = None /\ st' = Selecting) \/
      (o_type o = T_transmitted /\ st' = Selecting) \/
      (o_type o = T_failed /\ st' = Selecting) \/
      (o_type o = T_inflight /\ st' = Waiting)
  end.
Proof.
  cbv zeta. unfold get_outcome, get_outcome_with.
  destruct (next_state (o_type prev)) eqn:ST; cbn [state_eqb andb].
  - destruct co as [c|]; [left|right; repeat split; reflexivity].
    exists c. unfold select_outcome_with. destruct (report_ranges_with limit (c_on c) (c_off c) n). cbn. repeat split.
  - destruct (q_retry q) eqn:R.
    + left. repeat split; assumption.
    + right. split; [reflexivity|]. destruct co as [c|]; [|left; split; reflexivity].
      destruct (build_report_type q c prev) as [H|[H|H]].
      * left. rewrite H. split; reflexivity.
      * right; left. destruct H as [H _]. rewrite H. split; reflexivity.
      * right; right. destruct H as [H _]. rewrite H. repeat split; try reflexivity. discriminate.
  - destruct co as [c|]; [|left; repeat split; reflexivity]. right. unfold check_transmission.
    destruct (off_updated (o_off prev) (c_off c)); [left; split; reflexivity|].
    destruct (N.leb max (add64 (o_attempts prev) 1)); [right; left; split; reflexivity|].
    right; right; split; reflexivity.
Qed.

Example edges_nonvacuous :
  (* build -> wait with one agreed root, wait -> wait, wait -> select on a changed cursor *)
  let c := mkCons [(7, (10, 12), 5, 99)%N] [] [(7, 10)%N] cfg_empty in
  let prev := mkOutcome T_selected [(7, (10, 12))%N] [] [(7, 10)%N] 0 [] cfg_empty in
  let o1 := get_outcome 5 256 prev (mkQuery false None) (Some c) in
  let o2 := get_outcome 5 256 o1 (mkQuery false None) (Some c) in
  let o3 := get_outcome 5 256 o2 (mkQuery false None) (Some (mkCons [] [] [(7, 13)%N] cfg_empty)) in
  (o_type o1, o_type o2, o_attempts o2, o_type o3) = (T_generated, T_inflight, 1%N, T_transmitted).
Proof. vm_compute. reflexivity. Qed.

(* outside the building state the retry flag has no effect *)
Theorem retry_ignored_elsewhere max n prev s co :
  next_state (o_type prev) <> Building ->
  get_outcome max n prev (mkQuery true s) co = get_outcome max n prev (mkQuery false s) co.
Proof.
  intros H. unfold get_outcome, get_outcome_with. cbn [q_retry].
  destruct (next_state (o_type prev)); cbn [state_eqb andb]; try reflexivity. congruence.
Qed.

(* ---------- C03: leaving the waiting phase ---------- *)
(* With consensus present, in this order ("whichever comes first"): transmitted iff some recorded (chain, cursor)
   has an agreed current cursor that differs; else failed iff attempts+1 (uint64) >= max; else in flight with
   attempts+1 and the recorded cursors unchanged. *)
Theorem wait_exit max n prev q c :
  next_state (o_type prev) = Waiting ->
  let o := get_outcome max n prev q (Some c) in
  let upd := exists k s cur, In (k, s) (o_off prev) /\ alookup k (c_off c) = Some cur /\ s <> cur in
  (o_type o = T_transmitted <-> upd) /\
  (o_type o = T_failed <-> ~ upd /\ (max <= add64 (o_attempts prev) 1)%N) /\
  (o_type o = T_inflight <-> ~ upd /\ (add64 (o_attempts prev) 1 < max)%N) /\
  (o_type o = T_inflight -> o_off o = o_off prev /\ o_attempts o = add64 (o_attempts prev) 1) /\
  (o_type o = T_transmitted \/ o_type o = T_failed \/ o_type o = T_inflight).
Proof.
  intros ST. cbv zeta. unfold get_outcome, get_outcome_with. rewrite ST. cbn [state_eqb andb].
  rewrite <- off_updated_iff.
  assert (TY : o_type (check_transmission max prev c) =
               if off_updated (o_off prev) (c_off c) then T_transmitted
               else if N.leb max (add64 (o_attempts prev) 1) then T_failed else T_inflight).
  { unfold check_transmission. destruct (off_updated (o_off prev) (c_off c)); [reflexivity|].
    destruct (N.leb max (add64 (o_attempts prev) 1)); reflexivity. }
  rewrite TY.
  split; [|split; [|split; [|split]]].
  - destruct (off_updated (o_off prev) (c_off c)); [tauto|].
    destruct (N.leb max (add64 (o_attempts prev) 1)); split; intros H; discriminate.
  - destruct (off_updated (o_off prev) (c_off c)).
    + split; [discriminate|]. intros [H _]. exfalso. apply H. reflexivity.
    + destruct (N.leb_spec max (add64 (o_attempts prev) 1)) as [L|L].
      * split; [intros _; split; [discriminate|exact L]|reflexivity].
      * split; [discriminate|]. intros [_ H]. lia.
  - destruct (off_updated (o_off prev) (c_off c)).
    + split; [discriminate|]. intros [H _]. exfalso. apply H. reflexivity.
    + destruct (N.leb_spec max (add64 (o_attempts prev) 1)) as [L|L].
      * split; [discriminate|]. intros [_ H]. lia.
      * split; [intros _; split; [discriminate|exact L]|reflexivity].
  - unfold check_transmission. destruct (off_updated (o_off prev) (c_off c)); [discriminate|].
    destruct (N.leb max (add64 (o_attempts prev) 1)); [discriminate|]. intros _. split; reflexivity.
  - destruct (off_updated (o_off prev) (c_off c)); [left; reflexivity|].
    destruct (N.leb max (add64 (o_attempts prev) 1)); [right; left|right; right]; reflexivity.
Qed.

Example wait_exit_nonvacuous :
  let prev := mkOutcome T_inflight [] [] [(7, 10); (8, 3)]%N 4 [] cfg_empty in
  (o_type (get_outcome 5 256 prev (mkQuery false None) (Some (mkCons [] [] [(7, 10); (8, 3)]%N cfg_empty))) = T_failed) /\
  (o_type (get_outcome 6 256 prev (mkQuery false None) (Some (mkCons [] [] [(7, 10); (8, 3)]%N cfg_empty))) = T_inflight) /\
  (o_type (get_outcome 6 256 prev (mkQuery false None) (Some (mkCons [] [] [(8, 4)]%N cfg_empty))) = T_transmitted).
Proof. vm_compute. repeat split; reflexivity. Qed.

(* the cursor list checked while waiting is the one carried unchanged from the building round *)
Theorem build_carries_cursor max n prev q co :
  next_state (o_type prev) = Building ->
  o_type (get_outcome max n prev q co) = T_generated ->
  o_off (get_outcome max n prev q co) = o_off prev.
Proof.
  intros ST. unfold get_outcome, get_outcome_with. rewrite ST. cbn [state_eqb andb].
  destruct (q_retry q); [reflexivity|]. destruct co as [c|]; [|cbn; discriminate].
  destruct (build_report_type q c prev) as [H|[H|H]].
  - rewrite H. cbn. discriminate.
  - destruct H as [_ [_ [_ [H _]]]]. intros _. exact H.
  - destruct H as [_ [_ [H _]]]. intros _. exact H.
Qed.

(* ---------- C03: retry reproduces the previous outcome ---------- *)
Definition is_retry (prev : outcome) (r : round_in) : bool :=
  state_eqb (next_state (o_type prev)) Building && q_retry (fst r).

Theorem retry_identity max n prev q co :
  next_state (o_type prev) = Building -> q_retry q = true -> get_outcome max n prev q co = prev.
Proof.
  intros ST R. unfold get_outcome, get_outcome_with. rewrite ST, R. reflexivity.
Qed.

Theorem retry_rounds_identity max n prev rs :
  next_state (o_type prev) = Building -> Forall (fun r : round_in => q_retry (fst r) = true) rs ->
  run max n prev rs = prev.
Proof.
  intros ST H. induction H as [|r rs Hr _ IH]; [reflexivity|].
  unfold run in *. cbn [fold_left]. unfold run_step at 2. rewrite (retry_identity max n prev (fst r) (snd r) ST Hr). exact IH.
Qed.

Example retry_identity_nonvacuous :
  let prev := mkOutcome T_selected [(7, (10, 12))%N] [] [(7, 10)%N] 0 [] (4, 1)%N in
  next_state (o_type prev) = Building /\ get_outcome 5 256 prev (mkQuery true None) None = prev.
Proof. vm_compute. split; reflexivity. Qed.

(* Before fixes/F27.patch: in a retry round every valid observation is empty, no consensus on fChain exists
   (co = None), and the function returned the empty outcome instead of the previous one. *)
Theorem retry_identity_unfixed_refuted :
  exists max n prev q co,
    next_state (o_type prev) = Building /\ q_retry q = true /\ get_outcome_unfixed27 max n prev q co <> prev.
Proof.
  exists 5%N, 256%N, (mkOutcome T_selected [(7, (10, 12))%N] [] [(7, 10)%N] 0 [] cfg_empty), (mkQuery true None), None.
  repeat split. vm_compute. discriminate.
Qed.

(* ---------- C03: bounded waiting and recovery from any outcome ---------- *)
(* rounds still needed, at most, before the machine is in the selecting state; retry rounds not counted *)
Definition wait_left (max a : N) : N :=
  let a' := add64 a 1 in if N.ltb a' max then (max - a' + 1)%N else 1%N.
Definition rounds_left (max : N) (o : outcome) : N :=
  match next_state (o_type o) with
  | Selecting => 0%N
  | Waiting => wait_left max (o_attempts o)
  | Building => (1 + wait_left max 0)%N
  end.

Lemma wait_left_bound max a : (wait_left max a <= max + 1)%N.
Proof. unfold wait_left. destruct (N.ltb_spec (add64 a 1) max); lia. Qed.

Lemma rounds_left_bound max o : (rounds_left max o <= max + 2)%N.
Proof.
  unfold rounds_left. destruct (next_state (o_type o)); [lia| |apply N.le_trans with (max + 1)%N; [apply wait_left_bound|lia]].
  unfold wait_left. change (add64 0 1) with 1%N. destruct (N.ltb_spec 1 max); lia.
Qed.

(* every non-retry round strictly decreases the distance *)
Lemma step_decreases max n prev r :
  u64 max ->
  is_retry prev r = false ->
  (0 < rounds_left max prev)%N ->
  (rounds_left max (run_step max n prev r) < rounds_left max prev)%N.
Proof.
  intros Hm NR Pos. destruct r as [q co]. unfold run_step. cbn [fst snd].
  unfold is_retry in NR. cbn [fst] in NR.
  pose proof (edges max n prev q co) as E. cbv zeta in E.
  unfold rounds_left in *.
  destruct (next_state (o_type prev)) eqn:ST; cbn [state_eqb andb] in NR.
  - lia.
  - rewrite NR in E. destruct E as [[E _]|[_ E]]; [discriminate|].
    destruct E as [[_ E]|[[_ E]|[T [E _]]]]; rewrite E; try lia.
    (* build -> wait: the new outcome has attempts 0 *)
    assert (A : o_attempts (get_outcome max n prev q co) = 0%N).
    { unfold get_outcome, get_outcome_with in *. rewrite ST in *. cbn [state_eqb andb] in *. rewrite NR in *.
      destruct co as [c|]; [|reflexivity].
      destruct (build_report_type q c prev) as [H|[H|H]]; [rewrite H; reflexivity| |]; destruct H as [_ H]; tauto. }
    rewrite A. lia.
  - destruct co as [c|].
    + destruct (wait_exit max n prev q c ST) as [_ [_ [HI [HC HT]]]].
      destruct HT as [T|[T|T]].
      * assert (S' : next_state (o_type (get_outcome max n prev q (Some c))) = Selecting) by (rewrite T; reflexivity).
        rewrite S'. lia.
      * assert (S' : next_state (o_type (get_outcome max n prev q (Some c))) = Selecting) by (rewrite T; reflexivity).
        rewrite S'. lia.
      * assert (S' : next_state (o_type (get_outcome max n prev q (Some c))) = Waiting) by (rewrite T; reflexivity).
        rewrite S'. destruct (HC T) as [_ A]. rewrite A. apply HI in T. destruct T as [_ L].
        unfold wait_left. set (a1 := add64 (o_attempts prev) 1) in *.
        destruct (N.ltb_spec a1 max) as [_|]; [|lia].
        assert (A1 : add64 a1 1 = (a1 + 1)%N).
        { apply add64_small. unfold u64, two64 in *. lia. }
        rewrite A1. destruct (N.ltb_spec (a1 + 1) max); lia.
    + assert (S' : get_outcome max n prev q None = empty_outcome).
      { unfold get_outcome, get_outcome_with. rewrite ST. reflexivity. }
      rewrite S'. cbn. lia.
Qed.

Theorem progress max n prev r :
  u64 max -> is_retry prev r = false -> (0 < rounds_left max prev)%N ->
  (rounds_left max (run_step max n prev r) < rounds_left max prev)%N /\ (rounds_left max prev <= max + 2)%N.
Proof. intros. split; [now apply step_decreases|apply rounds_left_bound]. Qed.

Lemma retry_step_identity max n prev r : is_retry prev r = true -> run_step max n prev r = prev.
Proof.
  unfold is_retry. intros H. apply andb_true_iff in H. destruct H as [S R].
  unfold run_step. apply retry_identity; [|exact R].
  destruct (next_state (o_type prev)); cbn in S; congruence.
Qed.

(* number of non-retry rounds along a run *)
Fixpoint eff_count (max n : N) (prev : outcome) (rs : list round_in) : N :=
  match rs with
  | [] => 0%N
  | r :: rs' => ((if is_retry prev r then 0 else 1) + eff_count max n (run_step max n prev r) rs')%N
  end.

Lemma recovery_aux max n : u64 max -> forall rs prev,
  (rounds_left max prev <= eff_count max n prev rs)%N ->
  exists k, (k <= length rs)%nat /\
    (eff_count max n prev (firstn k rs) <= rounds_left max prev)%N /\
    next_state (o_type (run max n prev (firstn k rs))) = Selecting.
Proof.
  intros Hm rs. induction rs as [|r rs IH]; intros prev H.
  - exists 0%nat. cbn [eff_count] in H. split; [lia|]. split; [cbn; lia|].
    cbn [firstn run fold_left]. unfold run. cbn [fold_left].
    unfold rounds_left in H. destruct (next_state (o_type prev)) eqn:S; [reflexivity| |].
    + unfold wait_left in H. destruct (N.ltb (add64 0 1) max); lia.
    + unfold wait_left in H. destruct (N.ltb (add64 (o_attempts prev) 1) max); lia.
  - destruct (N.eq_dec (rounds_left max prev) 0) as [Z|NZ].
    + exists 0%nat. split; [lia|]. split; [cbn; lia|]. unfold run. cbn [firstn fold_left].
      unfold rounds_left in Z. destruct (next_state (o_type prev)); [reflexivity| |].
      * unfold wait_left in Z. destruct (N.ltb (add64 0 1) max); lia.
      * unfold wait_left in Z. destruct (N.ltb (add64 (o_attempts prev) 1) max); lia.
    + cbn [eff_count] in H. destruct (is_retry prev r) eqn:R.
      * rewrite (retry_step_identity max n prev r R) in H.
        destruct (IH prev) as [k [K1 [K2 K3]]]; [lia|].
        exists (S k). split; [cbn; lia|]. cbn [firstn eff_count]. rewrite R.
        rewrite (retry_step_identity max n prev r R). split; [lia|].
        unfold run in *. cbn [fold_left]. rewrite (retry_step_identity max n prev r R). exact K3.
      * pose proof (step_decreases max n prev r Hm R) as D.
        destruct (IH (run_step max n prev r)) as [k [K1 [K2 K3]]]; [lia|].
        exists (S k). split; [cbn; lia|]. cbn [firstn eff_count]. rewrite R. split; [lia|].
        unfold run in *. cbn [fold_left]. exact K3.
Qed.

(* From ANY previous outcome (any type value, any attempt counter), any queries and any consensus results: within
   max+2 rounds, not counting retry rounds, the machine is in the selecting state. *)
Theorem recovery max n prev rs :
  u64 max ->
  (max + 2 <= eff_count max n prev rs)%N ->
  exists k, (k <= length rs)%nat /\
    (eff_count max n prev (firstn k rs) <= max + 2)%N /\
    next_state (o_type (run max n prev (firstn k rs))) = Selecting.
Proof.
  intros Hm H. pose proof (rounds_left_bound max prev) as B.
  destruct (recovery_aux max n Hm rs prev) as [k [K1 [K2 K3]]]; [lia|].
  exists k. repeat split; try assumption. lia.
Qed.

(* the bound is reached: max = 0, two rounds from the building state *)
Example recovery_tight :
  let c := mkCons [(7, (10, 12), 5, 99)%N] [] [(7, 10)%N] cfg_empty in
  let prev := mkOutcome T_selected [(7, (10, 12))%N] [] [(7, 10)%N] 0 [] cfg_empty in
  let r := (mkQuery false None, Some c) in
  next_state (o_type (run 0 256 prev [r])) = Waiting /\ next_state (o_type (run 0 256 prev [r; r])) = Selecting.
Proof. vm_compute. split; reflexivity. Qed.

(* adversarial counter: attempts = 2^64-1 wraps to 0 and costs max+1 rounds *)
Example recovery_wrap :
  let c := mkCons [] [] [(7, 10)%N] cfg_empty in
  let prev := mkOutcome T_inflight [] [] [(7, 10)%N] max64 [] cfg_empty in
  let r := (mkQuery false None, Some c) in
  next_state (o_type (run 3 256 prev [r; r; r])) = Waiting /\ next_state (o_type (run 3 256 prev [r; r; r; r])) = Selecting.
Proof. vm_compute. split; reflexivity. Qed.

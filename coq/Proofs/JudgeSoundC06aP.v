(* JudgeSoundC06aP.v — first part of the judge soundness of C06 (see JudgeSoundC06P.v): the clauses [c06_core] / [attr_ok]
   of the executable property of Check/C06_check.v: (b) an implementation output that passes it satisfies the conclusions of C06_sig_threshold /
   C06_obs_threshold / C06_one_observation_per_node / C06_total_no_panic read on the script of the case, and (a) every
   outcome the model allows passes it (no code 2 without code 1). *)
Require Import Verif.Model.Base Verif.Model.Rmn Verif.Proofs.BaseP Verif.Proofs.RmnP Verif.Proofs.JudgeSoundC06bP.
From Coq Require Import Sorting.Sorted.
Require Import Verif.Check.C06_check.

(* ---------------- small generic reflection lemmas ---------------- *)
Lemma list_eqb_eq {A} (e : A -> A -> bool) (He : forall a b, e a b = true -> a = b) :
  forall l m, list_eqb e l m = true -> l = m.
Proof.
  induction l as [|x l IH]; intros [|y m] H; cbn [list_eqb] in H; try discriminate; [reflexivity|].
  apply andb_true_iff in H as [H1 H2]. apply He in H1. subst y. f_equal. apply IH, H2.
Qed.
Lemma list_eqb_refl {A} (e : A -> A -> bool) (He : forall a, e a a = true) : forall l, list_eqb e l l = true.
Proof. induction l as [|x l IH]; cbn [list_eqb]; [reflexivity|]. rewrite He, IH. reflexivity. Qed.
Lemma NoDup_nodupb l : NoDup l -> nodupb N.eqb l = true.
Proof.
  induction 1 as [|x l Hx ND IH]; cbn [nodupb]; [reflexivity|]. rewrite IH, andb_true_r.
  apply negb_true_iff. apply memN_false. exact Hx.
Qed.
Lemma nodup_map_inj {A B} (f : A -> B) (l : list A) a b :
  NoDup (map f l) -> In a l -> In b l -> f a = f b -> a = b.
Proof.
  induction l as [|x l IH]; cbn [map In]; [tauto|]. intros ND Ha Hb E. inversion ND as [|? ? Hx ND']; subst.
  destruct Ha as [->|Ha], Hb as [->|Hb]; auto.
  - exfalso. apply Hx. rewrite E. now apply in_map.
  - exfalso. apply Hx. rewrite <- E. now apply in_map.
Qed.
Lemma nodup_map_transfer {A B C} (f : A -> B) (g : A -> C) (l : list A) :
  NoDup (map f l) -> (forall a b, In a l -> In b l -> g a = g b -> f a = f b) -> NoDup (map g l).
Proof.
  induction l as [|x l IH]; cbn [map]; intros ND H; [constructor|]. inversion ND as [|? ? Hx ND']; subst.
  constructor.
  - intros Hin. apply in_map_iff in Hin as (y & E & Hy). apply Hx. rewrite <- (H y x); [now apply in_map| now right|now left|exact E].
  - apply IH; [exact ND'|]. intros a b Ha Hb. apply H; now right.
Qed.
Lemma sorted_weaken {A} (R R' : A -> A -> Prop) (l : list A) :
  (forall a b, R a b -> R' a b) -> StronglySorted R l -> StronglySorted R' l.
Proof.
  intros HR. induction 1 as [|x l S IH F]; constructor; [exact IH|].
  eapply Forall_impl; [|exact F]. intros a. apply HR.
Qed.
Lemma sorted_map {A B} (f : A -> B) (R : B -> B -> Prop) (l : list A) :
  StronglySorted (fun a b => R (f a) (f b)) l <-> StronglySorted R (map f l).
Proof.
  induction l as [|x l IH]; cbn [map]; split; intros S; try constructor; inversion S as [|? ? S' F]; subst.
  - apply IH, S'.
  - apply Forall_forall. intros y Hy. apply in_map_iff in Hy as (a & <- & Ha). rewrite Forall_forall in F. now apply F.
  - apply IH, S'.
  - apply Forall_forall. intros a Ha. rewrite Forall_forall in F. apply F. now apply in_map.
Qed.
Lemma somes_in {A} (l : list (option A)) x : In x (somes l) <-> In (Some x) l.
Proof.
  induction l as [|[y|] l IH]; cbn [somes In]; [tauto| |].
  - rewrite IH. split; intros [E|H]; auto; left; congruence.
  - rewrite IH. split; [auto|]. intros [E|H]; [discriminate|exact H].
Qed.
Lemma strictly_ascN_cons x l : strictly_ascN (x :: l) = true -> Forall (N.lt x) l /\ strictly_ascN l = true.
Proof.
  revert x. induction l as [|y l IH]; intros x H; [split; [constructor|reflexivity]|].
  cbn [strictly_ascN] in H. apply andb_true_iff in H as [H1 H2]. apply N.ltb_lt in H1.
  destruct (IH y H2) as [F _]. split; [|exact H2]. constructor; [exact H1|].
  eapply Forall_impl; [|exact F]. intros a Ha. cbn in Ha. lia.
Qed.
Lemma strictly_ascN_sorted l : strictly_ascN l = true -> StronglySorted N.lt l.
Proof.
  induction l as [|x l IH]; intros H; constructor; apply strictly_ascN_cons in H as [F S]; auto.
Qed.
Lemma sorted_nodup_strict l : StronglySorted N.le l -> NoDup l -> strictly_ascN l = true.
Proof.
  induction l as [|x l IH]; intros S ND; [reflexivity|].
  inversion S as [|? ? S' F]; subst. inversion ND as [|? ? Hx ND']; subst.
  specialize (IH S' ND'). destruct l as [|y l]; [reflexivity|].
  change (N.ltb x y && strictly_ascN (y :: l) = true). rewrite IH, andb_true_r. apply N.ltb_lt.
  inversion F as [|? ? Hxy _]; subst. assert (x <> y) by (intros ->; apply Hx; now left). lia.
Qed.
Lemma find_first {A} (f : A -> bool) l x : In x l -> f x = true -> exists y, find f l = Some y.
Proof.
  intros Hin Hf. destruct (find f l) as [y|] eqn:E; [now exists y|].
  pose proof (find_none f l E x Hin) as H. congruence.
Qed.
Lemma addr_eqb_refl (a : addr) : addr_eqb a a = true.
Proof.
  unfold addr_eqb. rewrite N.eqb_refl. cbn [andb]. apply list_eqb_refl. intros [p q]. unfold pair_eqb. cbn [fst snd].
  now rewrite !N.eqb_refl.
Qed.
Lemma opt_pairNN_eq (x : option (N * N)) a b :
  option_eqb (pair_eqb N.eqb N.eqb) x (Some (a, b)) = true <-> x = Some (a, b).
Proof.
  destruct x as [[p q]|]; cbn [option_eqb]; [|split; discriminate]. unfold pair_eqb. cbn [fst snd].
  rewrite andb_true_iff, !N.eqb_eq. split; [intros []; congruence|]. intros E. inversion E. auto.
Qed.
Lemma opt_src_eq (x : option (chain * addr)) c a :
  option_eqb (pair_eqb N.eqb addr_eqb) x (Some (c, a)) = true <-> x = Some (c, a).
Proof.
  destruct x as [[p q]|]; cbn [option_eqb]; [|split; discriminate]. unfold pair_eqb. cbn [fst snd]. split.
  - intros H. apply andb_true_iff in H as [H1 H2]. apply N.eqb_eq in H1. apply addr_eqb_eq in H2. subst. reflexivity.
  - intros E. inversion E. now rewrite N.eqb_refl, addr_eqb_refl.
Qed.

(* ---------------- the script of a case read as the event list of the Props theorems ---------------- *)
Definition item_events (its : list item) : list event :=
  flat_map (fun it => match item_resp it with Some (n, b) => [Resp n b] | None => [] end) its.
Lemma item_events_in its n b :
  In (Resp n b) (item_events its) <-> exists it, In it its /\ item_resp it = Some (n, b).
Proof.
  unfold item_events. rewrite in_flat_map. split.
  - intros (it & Hit & H). exists it. split; [exact Hit|]. destruct (item_resp it) as [[m c]|]; [|destruct H].
    destruct H as [E|[]]. inversion E. reflexivity.
  - intros (it & Hit & E). exists it. split; [exact Hit|]. rewrite E. now left.
Qed.

(* the lanes of an output as the model prints them from a report *)
Definition lanes_of (rep : report) : list (chain * root) := map (fun p => (lr_chain (fst p), snd p)) rep.

(* ================================================================================================================
   (b) SOUNDNESS
   ================================================================================================================ *)
Section Sound.
  Variable cfg : config.
  Variable its : list item.
  Notation evs := (item_events its).

  (* one counted response is the vote evidence of C06_obs_threshold / C06_sig_threshold *)
  Lemma good_vote_evidence u r it n :
    In it its -> good_vote cfg u r it = Some n -> vote_evidence edv_c cfg evs n (u_req u) r.
  Proof.
    intros Hit H. unfold good_vote in H.
    destruct (item_resp it) as [[m b]|] eqn:Ei; [|discriminate].
    destruct b as [|id p]; [discriminate|]. destruct p as [|so|]; try discriminate.
    destruct so as [[ob|] sg]; [|discriminate].
    destruct (find_home cfg m) as [hn|] eqn:Eh; [|discriminate].
    destruct (_ && _) eqn:C in H; [|discriminate]. inversion H; subst m. clear H.
    repeat (apply andb_true_iff in C as [C ?]).
    match goal with X : existsb _ _ = true |- _ => apply existsb_exists in X as (lu & Hlu & Clu) end.
    repeat (apply andb_true_iff in Clu as [Clu ?]).
    unfold find_home in Eh. apply find_some in Eh as Eh'. destruct Eh' as [Hhn Eid]. apply N.eqb_eq in Eid.
    split.
    - exists hn. split; [exact Hhn|]. split; [exact Eid|].
      match goal with X : memN (u_chain u) _ = true |- _ => apply memN_in in X; exact X end.
    - exists id, (mkSO (Some ob) sg), ob, hn, lu. cbn [so_obs so_sig].
      split; [apply item_events_in; now exists it|]. split; [reflexivity|]. split; [exact Eh|].
      split; [assumption|].
      split; [match goal with X : option_eqb _ (ob_dest ob) _ = true |- _ => apply opt_pairNN_eq in X; exact X end|].
      split; [match goal with X : N.eqb (ob_digest ob) _ = true |- _ => apply N.eqb_eq in X; exact X end|].
      split; [exact Hlu|].
      split; [apply opt_src_eq in Clu; exact Clu|].
      split; [match goal with X : option_eqb _ (lu_itv lu) _ = true |- _ => apply opt_pairNN_eq in X; exact X end|].
      destruct (lu_root lu) as [| |r'|]; try discriminate.
      match goal with X : N.eqb r' r = true |- _ => apply N.eqb_eq in X; now subst end.
  Qed.

  Lemma voters_backed u r :
    gte_f_plus_one (u_F u) (zlen (voters cfg u r its)) = true -> lane_backed edv_c cfg evs (u_req u) (u_F u) r.
  Proof.
    intros H. exists (voters cfg u r its). split; [apply dedupN_nodup|]. split; [apply Z.leb_le, H|].
    intros n Hn. unfold voters in Hn. apply dedupN_in, somes_in, in_map_iff in Hn as (it & E & Hit).
    eapply good_vote_evidence; eauto.
  Qed.

  (* one returned signature is the signature evidence of C06_sig_threshold (the stub oracle vrs_c does not look at
     the report: that every VerifyReportSignatures call saw exactly the report handed back is the flag o_repok) *)
  Lemma sig_signer_evidence rep rep' g s :
    sig_signer cfg rep its g = Some s -> sig_evidence vrs_c cfg evs rep' (sg_node s, sg_addr s, g).
  Proof.
    intros H. unfold sig_signer in H. apply find_some in H as [Hs C].
    apply andb_true_iff in C as [C1 C2]. apply existsb_exists in C2 as (it & Hit & C2).
    destruct (item_resp it) as [[m b]|] eqn:Ei; [|discriminate].
    destruct b as [|id p]; [discriminate|]. destruct p as [| |[e|]]; try discriminate.
    apply andb_true_iff in C2 as [C2 C4]. apply andb_true_iff in C2 as [C2 C3].
    apply N.eqb_eq in C2, C4. subst m. cbn [sig_evidence]. split; [destruct s; exact Hs|].
    exists id, e. split; [apply item_events_in; now exists it|]. split; [exact C3|]. split; [exact C4|exact C1].
  Qed.
End Sound.

(* what an output that passes says about the attributed observations of the signature request: the conclusions of
   C06_one_observation_per_node (no node twice) and of C06_obs_threshold read on what was handed to the signers (every
   lane has a root with F_home+1 DISTINCT voters, each carrying that root for the lane among the attributed
   observations, each with the vote evidence of the theorem in the script; every attributed observation comes from a
   configured observer of the chain it vouches for) *)
Definition attr_P (cfg : config) (its : list item) (attr : list (node * list (chain * root))) : Prop :=
  attr = [] \/
  (NoDup (map fst attr) /\
   (forall n l ch r, In (n, l) attr -> In (ch, r) l -> In n (rmn_nodes_of cfg ch)) /\
   exists us, prepare cfg = inl (Ok us) /\
     forall u, In u us -> exists r voters,
       NoDup voters /\ (u_F u + 1 <= zlen voters)%Z /\
       forall n, In n voters ->
         (exists l, In (n, l) attr /\ In (u_chain u, r) l) /\
         vote_evidence edv_c cfg (item_events its) n (u_req u) r).

Lemma vote_pair_eqb_eq p q : vote_pair_eqb p q = true <-> p = q.
Proof. exact (vote_eqb_eq p q). Qed.

Lemma attr_voters_in attr ch r n :
  In n (attr_voters attr ch r) <-> exists l, In (n, l) attr /\ In (ch, r) l.
Proof.
  unfold attr_voters. rewrite dedupN_in, in_map_iff. split.
  - intros ([m l] & E & H). cbn [fst] in E. subst m. apply filter_In in H as [H1 H2]. cbn [snd] in H2.
    apply existsb_exists in H2 as (q & Hq & E). apply vote_pair_eqb_eq in E. subst q. now exists l.
  - intros (l & H1 & H2). exists (n, l). split; [reflexivity|]. apply filter_In. split; [exact H1|].
    cbn [snd]. apply existsb_exists. exists (ch, r). split; [exact H2|]. now apply vote_pair_eqb_eq.
Qed.

Lemma attr_ok_sound cfg its attr : attr_ok cfg its attr = true -> attr_P cfg its attr.
Proof.
  intros H. unfold attr_ok in H. destruct attr as [|a0 attr0] eqn:Ea; [now left|]. rewrite <- Ea in *. right.
  apply andb_true_iff in H as [H H3]. apply andb_true_iff in H as [H1 H2].
  split; [apply nodupb_nodup, H1|]. split.
  - intros n l ch r Hin Hv. rewrite forallb_forall in H2. specialize (H2 _ Hin). cbn [fst snd] in H2.
    rewrite forallb_forall in H2. specialize (H2 _ Hv). cbn [fst] in H2. now apply memN_in in H2.
  - destruct (prepare cfg) as [[us| | |]|f]; try discriminate. exists us. split; [reflexivity|].
    intros u Hu. rewrite forallb_forall in H3. specialize (H3 u Hu).
    apply existsb_exists in H3 as (a & Ha & H3). apply existsb_exists in H3 as (v & Hv & H3).
    apply andb_true_iff in H3 as [E G]. apply N.eqb_eq in E.
    exists (snd v), (filter (fun n => memN n (voters cfg u (snd v) its)) (attr_voters attr (u_chain u) (snd v))).
    split; [apply nodup_filter, dedupN_nodup|]. split; [apply Z.leb_le, G|]. intros n Hn.
    apply filter_In in Hn as [Hn1 Hn2]. split; [now apply attr_voters_in in Hn1|].
    apply memN_in in Hn2. unfold voters in Hn2. apply dedupN_in, somes_in, in_map_iff in Hn2 as (it & E' & Hit).
    eapply good_vote_evidence; eauto.
Qed.

(* the property of one output (the conclusions of the Props theorems for an ARBITRARY output o) *)
Definition c06_P (i : c06_in) (o : out1) : Prop :=
  let cfg := i_cfg i in
  (* C06_total_no_panic / C06_total_terminates: the call returned, and not by a panic *)
  o_kind o <> 9%N /\ o_kind o <> 10%N /\
  (* C06_one_observation_per_node / C06_obs_threshold on the observations handed to the signers *)
  attr_P cfg (i_items i) (o_attr o) /\
  (* C06_sig_threshold: the conclusion of the theorem about what a successful return hands back *)
  (o_kind o = 0%N ->
   exists us rep, prepare cfg = inl (Ok us) /\ o_lanes o = lanes_of rep /\
     success_spec edv_c vrs_c cfg (item_events (i_items i)) us (o_sigs o) rep /\ o_repok o = true).

(* the lane request behind a returned (selector, root) pair *)
Definition req_of (us : list upd) (c : chain) : lane_req :=
  match find_upd c us with Some u => u_req u | None => mkLaneReq c (0%N, []) 0 0 end.
Lemma req_of_chain us c :
  In c (map u_chain us) -> exists u, In u us /\ find_upd c us = Some u /\ req_of us c = u_req u /\ u_chain u = c.
Proof.
  intros H. apply in_map_iff in H as (u0 & E & Hu0).
  destruct (find_first (fun u => N.eqb (u_chain u) c) us u0 Hu0) as [u Hf]; [now apply N.eqb_eq|].
  fold (find_upd c us) in Hf. destruct (find_upd_some _ _ _ Hf) as [Hu Hc]. exists u.
  unfold req_of. rewrite Hf. auto.
Qed.
Lemma req_of_upd us u : NoDup (map u_chain us) -> In u us -> req_of us (u_chain u) = u_req u.
Proof.
  intros ND Hu. destruct (req_of_chain us (u_chain u)) as (u' & Hu' & Hf & E & Hc); [now apply in_map|].
  rewrite E. f_equal. eapply find_upd_unique; eauto.
Qed.

Lemma sigs_entries cfg its rep' sigs :
  forallb (fun x => negb (is_none x)) (map (sig_signer cfg rep' its) sigs) = true ->
  exists entries : list (node * N * N),
    sigs = map snd entries /\
    map snode entries = map sg_node (somes (map (sig_signer cfg rep' its) sigs)) /\
    map saddr entries = map sg_addr (somes (map (sig_signer cfg rep' its) sigs)) /\
    forall x rep, In x entries -> sig_evidence vrs_c cfg (item_events its) rep x.
Proof.
  induction sigs as [|g sigs IH]; cbn [map forallb somes]; intros H.
  - exists []. repeat split. intros x rep [].
  - apply andb_true_iff in H as [H1 H2]. destruct (sig_signer cfg rep' its g) as [s|] eqn:Es; [|discriminate].
    destruct (IH H2) as (en & E1 & E2 & E3 & E4). exists ((sg_node s, sg_addr s, g) :: en). cbn [map somes snd].
    split; [now rewrite <- E1|]. split; [unfold snode at 1; cbn [fst]; now rewrite E2|].
    split; [unfold saddr at 1; cbn [fst snd]; now rewrite E3|].
    intros x rep [<-|Hx]; [|now apply E4]. eapply sig_signer_evidence; eauto.
Qed.

Theorem c06_core_sound i o : c06_core i o = true -> c06_P i o.
Proof.
  intros H. unfold c06_core in H. cbv zeta in H.
  apply andb_true_iff in H as [H H4]. apply andb_true_iff in H as [H H3]. apply andb_true_iff in H as [H1 H2].
  split. { intros E. rewrite E in H1. discriminate. }
  split. { intros E. rewrite E in H2. discriminate. }
  split. { apply attr_ok_sound, H3. }
  intros E0. rewrite E0, N.eqb_refl in H4.
  destruct (prepare (i_cfg i)) as [[us| | |]|f] eqn:Ep; try discriminate.
  apply andb_true_iff in H4 as [H4 HD]. apply andb_true_iff in H4 as [H4 HC]. apply andb_true_iff in H4 as [HA HB].
  apply andb_true_iff in HC as [HC C4]. apply andb_true_iff in HC as [HC C3]. apply andb_true_iff in HC as [C1 C2].
  apply (list_eqb_eq N.eqb (fun a b => proj1 (N.eqb_eq a b))) in HA.
  destruct (prepare_spec _ _ Ep) as (NDus & _ & WF).
  set (lanes := o_lanes o) in *. set (its := i_items i) in *. set (cfg := i_cfg i) in *.
  assert (Pch : Permutation (map fst lanes) (map u_chain us)) by (rewrite HA; apply sortN_perm_self).
  assert (NDl : NoDup (map fst lanes)) by (eapply Permutation_NoDup; [symmetry; exact Pch|exact NDus]).
  assert (Hin_ch : forall p, In p lanes -> In (fst p) (map u_chain us)).
  { intros p Hp. eapply Permutation_in; [exact Pch|]. now apply in_map. }
  set (rep := map (fun p => (req_of us (fst p), snd p)) lanes).
  assert (Hl : lanes = lanes_of rep).
  { unfold lanes_of, rep. rewrite map_map. cbn [fst snd]. rewrite <- (map_id lanes) at 1. apply map_ext_in.
    intros [c r] Hp. cbn [fst snd]. destruct (req_of_chain us c (Hin_ch _ Hp)) as (u & _ & _ & E & Hc).
    rewrite E. unfold u_chain in Hc. now rewrite Hc. }
  exists us, rep. split; [reflexivity|]. split; [exact Hl|]. split; [|exact HD].
  split.
  - (* rep_good *)
    split; [|split].
    + unfold rep. rewrite map_map. cbn [fst]. rewrite <- (map_map fst (req_of us)), HA.
      etransitivity; [apply Permutation_map, sortN_perm_self|]. rewrite map_map.
      erewrite map_ext_in; [reflexivity|]. intros u Hu. cbn. now apply req_of_upd.
    + apply (sorted_map (fun a : lane_req * root => lr_chain (fst a)) N.le).
      replace (map (fun a : lane_req * root => lr_chain (fst a)) rep) with (map fst lanes).
      * rewrite HA. apply sortN_sorted.
      * rewrite Hl. unfold lanes_of. now rewrite map_map.
    + intros q r Hin. unfold rep in Hin. apply in_map_iff in Hin as ([c r0] & E & Hp). cbn [fst snd] in E.
      inversion E; subst q r0. clear E.
      destruct (req_of_chain us c (Hin_ch _ Hp)) as (u & Hu & _ & E & Hc). exists u. split; [exact Hu|].
      split; [exact E|]. rewrite forallb_forall in HB. specialize (HB u Hu).
      destruct (alookup (u_chain u) lanes) as [r'|] eqn:El; [|discriminate].
      apply alookup_in in El. rewrite Hc in El.
      assert (r' = r) by (eapply nodup_fst_inj; eauto). subst r'.
      apply andb_true_iff in HB as [B1 B2]. split.
      * intros ->. discriminate.
      * rewrite E. now apply voters_backed.
  - (* the signatures *)
    destruct (sigs_entries _ _ _ _ C1) as (en & E1 & E2 & E3 & E4). exists en.
    split; [exact E1|]. split; [rewrite E2; apply nodupb_nodup, C3|].
    split; [unfold zlen in *; rewrite E1, map_length in C4; apply Z.leb_le, C4|].
    split; [|intros x Hx; now apply E4].
    apply (sorted_map saddr N.le). rewrite E3. eapply sorted_weaken; [|apply strictly_ascN_sorted, C2].
    intros a b Hab. apply N.lt_le_incl, Hab.
Qed.

(* ================================================================================================================
   (a) EVERY OUTCOME THE MODEL ALLOWS PASSES
   ================================================================================================================ *)
(* what the harness guarantees of a configuration (spec 'assumptions'): remote signer node indexes pairwise distinct
   (the hypothesis of the Props theorems), signer addresses pairwise distinct, RMNHome node ids pairwise distinct *)
Definition cfg_wf (cfg : config) : Prop :=
  NoDup (map sg_node (c_signers cfg)) /\ NoDup (map sg_addr (c_signers cfg)) /\ NoDup (map hn_id (c_nodes cfg)).

Lemma all_k0_no_sig l : all_k0 l -> sig_sent l = false.
Proof.
  intros H. unfold sig_sent. destruct (existsb _ l) eqn:E; [|reflexivity].
  apply existsb_exists in E as (r & Hr & E). unfold all_k0 in H. rewrite Forall_forall in H. rewrite (H r Hr) in E. discriminate.
Qed.
Lemma sufficient_nil us : us <> [] -> sufficient us [] = Ok false.
Proof.
  intros H. unfold sufficient. cbn [all_votes rbind]. f_equal. apply forallb_nonempty_false; [exact H|].
  intros u. reflexivity.
Qed.

Section ModelPasses.
  Variable cfg : config.
  Variable sc : sched.
  Variable ITS : list item.
  Hypothesis WF : cfg_wf cfg.
  Notation stp := (gstep edv_c vrs_c fixed cfg sc).
  Notation runM := (run edv_c vrs_c fixed cfg sc).

  (* the events of a run the model allows: its responses are responses of the script, and the context is done only if
     the script cancels it *)
  Definition ev_ok (e : event) : Prop :=
    match e with
    | Resp n b => In (Resp n b) (item_events ITS)
    | CtxDone => existsb is_cancel ITS = true
    | TimerFire => True
    end.
  Definition reach (g : gstate) : Prop := exists evs, g = runM evs /\ Forall ev_ok evs.
  Definition accI (acc : acc_t) : Prop :=
    acc = [] \/
    exists us pre, prepare cfg = inl (Ok us) /\ Forall ev_ok pre /\
      acc_good edv_c cfg pre us acc /\ sufficient us acc = Ok true.
  (* a signature request has left the controller only after phase A handed its observations on *)
  Definition sigJ (g : gstate) (acc : acc_t) : Prop :=
    match g with
    | GA _ _ => True
    | GB _ => acc <> []
    | GFinal _ l => sig_sent l = true -> acc <> []
    end.
  Definition KI (g : gstate) (acc : acc_t) : Prop := reach g /\ accI acc /\ sigJ g acc.

  Lemma reach_init : reach (ginit cfg sc).
  Proof. exists []. split; [reflexivity|constructor]. Qed.
  Lemma reach_step g e : reach g -> ev_ok e -> reach (stp g e).
  Proof.
    intros (evs & -> & F) He. exists (evs ++ [e]). split.
    - unfold run. now rewrite fold_left_app.
    - apply Forall_app. split; [exact F|]. constructor; [exact He|constructor].
  Qed.
  Lemma accI_step g e acc : reach g -> ev_ok e -> accI acc -> accI (acc_after cfg sc g e acc).
  Proof.
    intros (evs & -> & F) He HI. unfold acc_after.
    destruct (runM evs) as [us s| |] eqn:Er; try exact HI.
    destruct (stepA edv_c fixed cfg sc us s e) as [s'|[a|f]] eqn:Es; try exact HI.
    pose proof (ginv_run edv_c vrs_c cfg sc (proj1 WF) evs) as G. rewrite Er in G. destruct G as [P I].
    destruct (invA_done edv_c vrs_c cfg sc _ _ _ _ _ I Es) as [G S].
    right. exists us, (evs ++ [e]). split; [exact P|]. split; [|split; [exact G|exact S]].
    apply Forall_app. split; [exact F|]. constructor; [exact He|constructor].
  Qed.
  Lemma sigJ_step g e acc : reach g -> sigJ g acc -> sigJ (stp g e) (acc_after cfg sc g e acc).
  Proof.
    intros (evs & -> & F) J. unfold acc_after.
    destruct (runM evs) as [us s|s|f l] eqn:Er; cbn [gstep].
    - pose proof (ginv_run edv_c vrs_c cfg sc (proj1 WF) evs) as G. rewrite Er in G. destruct G as [P I].
      destruct (stepA edv_c fixed cfg sc us s e) as [s'|[a|f]] eqn:Es.
      + exact Logic.I.
      + destruct (invA_done edv_c vrs_c cfg sc _ _ _ _ _ I Es) as [_ S].
        assert (Ha : a <> []).
        { intros ->. destruct (prepare_spec _ _ P) as (_ & Hne & _). rewrite (sufficient_nil us Hne) in S. discriminate. }
        unfold enterB. destruct (startB cfg sc us a (a_k s) (a_log s)) as [sb|[f l]]; cbn; auto.
      + cbn. intros H. rewrite (all_k0_no_sig _ (phaseA_no_sig_request edv_c vrs_c cfg sc (proj1 WF) evs us s Er)) in H. discriminate.
    - cbn [sigJ] in J. destruct (stepB vrs_c fixed cfg sc s e) as [s'|f]; cbn; auto.
    - exact J.
  Qed.
  Lemma acc_after_timer g acc : acc_after cfg sc g TimerFire acc = acc.
  Proof.
    unfold acc_after. destruct g as [us s| |]; try reflexivity. cbn [stepA]. destruct (a_exp s); reflexivity.
  Qed.
  Lemma KI_step g e acc : KI g acc -> ev_ok e -> KI (stp g e) (acc_after cfg sc g e acc).
  Proof.
    intros (R & A & J) He. split; [now apply reach_step|]. split; [now apply accI_step|now apply sigJ_step].
  Qed.
  Lemma KI_settle g acc : KI g acc -> KI (settle cfg sc g) acc.
  Proof.
    intros K. unfold settle. destruct (g_due g); [|exact K].
    rewrite <- (acc_after_timer g acc). apply KI_step; [exact K|exact Logic.I].
  Qed.
  Lemma KI_init : KI (ginit cfg sc) [].
  Proof.
    split; [apply reach_init|]. split; [now left|]. unfold ginit.
    destruct (prepare cfg) as [[us| | |]|f]; cbn; auto; discriminate.
  Qed.

  Definition go' (g : gstate) (acc : acc_t) (e : event) (r : list item) : list (gstate * acc_t) :=
    eager_acc cfg sc (step1 cfg sc g e) (acc_after cfg sc g e acc) r.

  Lemma go_reach g acc e r :
    (forall g0 acc0, KI g0 acc0 -> forall x, In x (eager_acc cfg sc g0 acc0 r) -> KI (fst x) (snd x)) ->
    KI g acc -> ev_ok e -> forall x, In x (go' g acc e r) -> KI (fst x) (snd x).
  Proof.
    intros IH K He x Hx. unfold go' in Hx. eapply IH; [|exact Hx]. now apply KI_step.
  Qed.

  Lemma eager_reach its : incl its ITS -> forall g acc, KI g acc ->
    forall x, In x (eager_acc cfg sc g acc its) -> KI (fst x) (snd x).
  Proof.
    induction its as [|it r IH]; intros Hincl g acc K x Hx.
    - cbn [eager_acc] in Hx. destruct Hx as [<-|[]]. cbn [fst snd]. now apply KI_settle.
    - assert (Hr : incl r ITS) by (intros y Hy; apply Hincl; now right).
      specialize (IH Hr). pose proof (KI_settle g acc K) as Ks.
      assert (Hit : In it ITS) by (apply Hincl; now left).
      assert (Hc : is_cancel it = true -> ev_ok CtxDone).
      { intros Hi. cbn. apply existsb_exists. now exists it. }
      destruct it as [n b|n b| |].
      + change (In x (go' (settle cfg sc g) acc (Resp n b) r)) in Hx.
        assert (He : ev_ok (Resp n b)) by (cbn; apply item_events_in; exists (IResp n b); auto).
        exact (go_reach _ _ _ _ IH Ks He x Hx).
      + assert (He : ev_ok (Resp n b)) by (cbn; apply item_events_in; exists (IRace n b); auto).
        change (In x (if g_due g then go' (settle cfg sc g) acc (Resp n b) r ++ go' g acc (Resp n b) r
                      else go' g acc (Resp n b) r)) in Hx.
        destruct (g_due g); [apply in_app_iff in Hx as [Hx|Hx]|].
        * exact (go_reach _ _ _ _ IH Ks He x Hx).
        * exact (go_reach _ _ _ _ IH K He x Hx).
        * exact (go_reach _ _ _ _ IH K He x Hx).
      + change (In x (go' (settle cfg sc g) acc CtxDone r)) in Hx. exact (go_reach _ _ CtxDone _ IH Ks (Hc eq_refl) x Hx).
      + change (In x (if g_due g then go' (settle cfg sc g) acc CtxDone r ++ go' g acc CtxDone r
                      else go' g acc CtxDone r)) in Hx.
        destruct (g_due g); [apply in_app_iff in Hx as [Hx|Hx]|].
        * exact (go_reach _ _ CtxDone _ IH Ks (Hc eq_refl) x Hx).
        * exact (go_reach _ _ CtxDone _ IH K (Hc eq_refl) x Hx).
        * exact (go_reach _ _ CtxDone _ IH K (Hc eq_refl) x Hx).
  Qed.
End ModelPasses.

Lemma attr_of_in acc a :
  In a (attr_of acc) <->
  exists n l, In (n, l) acc /\ a = (n, sort_by (fun x y => N.leb (fst x) (fst y)) (plain l)).
Proof.
  unfold attr_of. rewrite in_map_iff. split.
  - intros ([n l] & E & H). apply sort_by_in in H. exists n, l. split; [exact H|]. now rewrite <- E.
  - intros (n & l & H & ->). exists (n, l). split; [reflexivity|]. now apply sort_by_in.
Qed.


Lemma somes_map_some {A B} (f : A -> B) (l : list A) : somes (map (fun x => Some (f x)) l) = map f l.
Proof. induction l as [|x l IH]; cbn [map somes]; [reflexivity|now rewrite IH]. Qed.

Section SuccessPasses.
  Variable cfg : config.
  Variable its : list item.
  Hypothesis WF : cfg_wf cfg.
  Variable evs : list event.
  Hypothesis Hevs : Forall (ev_ok its) evs.

  (* the evidence of the Props theorems is found again by the executable property in the script *)
  Lemma evidence_voter u n r :
    u_nodes u = rmn_nodes_of cfg (u_chain u) ->
    vote_evidence edv_c cfg evs n (u_req u) r -> In n (voters cfg u r its).
  Proof.
    intros Hn [(hn' & Hhn' & Eid' & Hch')
               (id & so & ob & hn & lu & Hin & Eso & Eh & Esig & Ed & Eg & Hlu & Esrc & Eitv & Eroot)].
    rewrite Forall_forall in Hevs. apply Hevs in Hin. cbn [ev_ok] in Hin.
    apply item_events_in in Hin as (it & Hit & Ei).
    unfold voters. apply dedupN_in, somes_in, in_map_iff. exists it. split; [|exact Hit].
    unfold good_vote. rewrite Ei. destruct so as [o sg]. cbn [so_obs so_sig] in *. subst o. rewrite Eh.
    assert (hn' = hn).
    { unfold find_home in Eh. apply find_some in Eh as [Hhn Eid]. apply N.eqb_eq in Eid.
      destruct WF as (_ & _ & NDh). eapply nodup_map_inj; eauto. congruence. }
    subst hn'.
    match goal with |- (if ?c then _ else _) = _ => assert (C : c = true); [|rewrite C; reflexivity] end.
    repeat (apply andb_true_iff; split).
    - rewrite Hn. apply memN_in, rmn_nodes_of_spec. exists hn. auto.
    - now apply memN_in.
    - now apply opt_pairNN_eq.
    - now apply N.eqb_eq.
    - exact Esig.
    - apply existsb_exists. exists lu. split; [exact Hlu|]. rewrite Eroot, N.eqb_refl, andb_true_r.
      apply andb_true_iff. split; [now apply opt_src_eq|now apply opt_pairNN_eq].
  Qed.

  Lemma evidence_signer rep rep' n a g :
    sig_evidence vrs_c cfg evs rep (n, a, g) -> sig_signer cfg rep' its g = Some (mkSigner n a).
  Proof.
    intros [Hs (id & e & Hin & Hlen & Esig & Hv)].
    rewrite Forall_forall in Hevs. apply Hevs in Hin. cbn [ev_ok] in Hin.
    apply item_events_in in Hin as (it & Hit & Ei).
    unfold sig_signer.
    match goal with |- find ?f _ = _ => set (pred := f) end.
    assert (Hp : pred (mkSigner n a) = true).
    { unfold pred. cbn [sg_addr sg_node]. apply andb_true_iff. split; [exact Hv|].
      apply existsb_exists. exists it. split; [exact Hit|]. rewrite Ei, N.eqb_refl, Hlen. cbn [andb].
      now apply N.eqb_eq. }
    destruct (find_first pred _ _ Hs Hp) as [s' Hf]. rewrite Hf. f_equal.
    apply find_some in Hf as [Hs' Hp']. unfold pred in Hp'. apply andb_true_iff in Hp' as [Hv' _].
    unfold vrs_c in Hv, Hv'. apply N.eqb_eq in Hv, Hv'.
    destruct WF as (_ & NDa & _). eapply nodup_map_inj; eauto. cbn [sg_addr]. congruence.
  Qed.

  Lemma success_passes i us sigs rep log attr :
    i_cfg i = cfg -> i_items i = its ->
    prepare cfg = inl (Ok us) -> success_spec edv_c vrs_c cfg evs us sigs rep -> attr_ok cfg its attr = true ->
    c06_core i (mkOut 0 (lanes_of rep) sigs log attr true) = true.
  Proof.
    intros Ec Ei P [(Pm & Srt & Hrep) (en & E1 & NDn & Hlen & Sa & Hev)] Hattr.
    destruct (prepare_spec _ _ P) as (NDus & _ & WFu).
    unfold c06_core. cbv zeta. cbn [o_kind o_lanes o_sigs o_attr o_repok]. rewrite Ec, Ei, Hattr, P.
    change (N.eqb 0 9) with false. change (N.eqb 0 10) with false. change (N.eqb 0 0) with true.
    cbn [negb andb]. rewrite andb_true_r.
    assert (Efst : map fst (lanes_of rep) = map lr_chain (map fst rep)).
    { unfold lanes_of. now rewrite !map_map. }
    assert (Pch : Permutation (map fst (lanes_of rep)) (map u_chain us)).
    { rewrite Efst. unfold u_chain. rewrite <- (map_map u_req lr_chain). now apply Permutation_map. }
    assert (NDl : NoDup (map fst (lanes_of rep))).
    { eapply Permutation_NoDup; [symmetry; exact Pch|exact NDus]. }
    apply andb_true_iff. split; [apply andb_true_iff; split|].
    - (* exactly the requested lanes, ascending *)
      replace (map fst (lanes_of rep)) with (sortN (map u_chain us)); [apply list_eqb_refl, N.eqb_refl|].
      apply nsorted_perm_eq; [apply sortN_sorted| |].
      + unfold lanes_of. rewrite map_map. cbn [fst].
        apply (sorted_map (fun a : lane_req * root => lr_chain (fst a)) N.le). exact Srt.
      + etransitivity; [apply sortN_perm_self|]. symmetry. exact Pch.
    - (* every root handed back: not empty, F_home+1 distinct voters found in the script *)
      apply forallb_forall. intros u Hu.
      assert (Hq : In (u_req u) (map fst rep)).
      { eapply Permutation_in; [symmetry; exact Pm|]. now apply in_map. }
      apply in_map_iff in Hq as ([q r] & Eq & Hin). cbn [fst] in Eq. subst q.
      assert (Hl : In (u_chain u, r) (lanes_of rep)).
      { unfold lanes_of. apply in_map_iff. exists (u_req u, r). split; [reflexivity|exact Hin]. }
      rewrite (alookup_NoDup_In _ _ _ NDl Hl).
      destruct (Hrep _ _ Hin) as (u' & Hu' & Eq & Hr & (vs & NDv & Lv & Hvs)).
      assert (u' = u).
      { eapply (nodup_map_inj u_chain); eauto. unfold u_chain. now rewrite Eq. }
      subst u'. apply andb_true_iff. split; [apply negb_true_iff, N.eqb_neq, Hr|].
      unfold gte_f_plus_one. apply Z.leb_le. eapply Z.le_trans; [exact Lv|]. unfold zlen. apply inj_le.
      apply NoDup_incl_length; [exact NDv|]. intros n Hn. apply evidence_voter; [|now apply Hvs].
      now destruct (WFu u Hu) as [(_ & Hnodes & _) _].
    - (* the signatures *)
      set (rep' := map _ us).
      assert (Esg : map (sig_signer cfg rep' its) sigs = map (fun x => Some (mkSigner (snode x) (saddr x))) en).
      { rewrite E1, map_map. apply map_ext_in. intros [[n a] g] Hx. cbn [snd].
        eapply evidence_signer. apply Hev. exact Hx. }
      rewrite Esg, somes_map_some, !map_map. cbn [sg_addr sg_node].
      repeat (apply andb_true_iff; split).
      + apply forallb_forall. intros x Hx. apply in_map_iff in Hx as (y & <- & _). reflexivity.
      + apply sorted_nodup_strict; [apply (sorted_map saddr N.le), Sa|].
        apply (nodup_map_transfer snode saddr); [exact NDn|]. intros [[n1 a1] g1] [[n2 a2] g2] H1 H2 E.
        unfold saddr, snode in *. cbn [fst snd] in *. subst a2.
        destruct (Hev _ H1) as [S1 _]. destruct (Hev _ H2) as [S2 _]. destruct WF as (_ & NDa & _).
        assert (Es : mkSigner n1 a1 = mkSigner n2 a1) by (eapply (nodup_map_inj sg_addr); eauto).
        now inversion Es.
      + now apply NoDup_nodupb.
      + unfold gte_f_plus_one. apply Z.leb_le. unfold zlen in *. now rewrite E1, map_length.
  Qed.
End SuccessPasses.

Section AttrPasses.
  Variable cfg : config.
  Variable ITS : list item.
  Hypothesis WF : cfg_wf cfg.

  Lemma attr_ok_acc acc : accI cfg ITS acc -> attr_ok cfg ITS (attr_of acc) = true.
  Proof.
    intros [->|(us & pre & P & F & G & S)]; [reflexivity|].
    destruct (acc_good_32 _ _ _ _ _ G) as [H32 Hch]. pose proof G as [ND Hresp].
    destruct (prepare_spec _ _ P) as (NDus & _ & WFu).
    unfold attr_ok. destruct (attr_of acc) as [|a0 t] eqn:Ea; [reflexivity|]. rewrite <- Ea. clear Ea a0 t.
    apply andb_true_iff. split; [apply andb_true_iff; split|].
    - apply NoDup_nodupb. unfold attr_of. rewrite map_map. cbn [fst].
      eapply Permutation_NoDup; [apply Permutation_map; symmetry; apply sort_by_perm|exact ND].
    - apply forallb_forall. intros a Ha. apply attr_of_in in Ha as (n & l & Hin & ->). cbn [fst snd].
      apply forallb_forall. intros v Hv. apply sort_by_in in Hv. unfold plain in Hv.
      apply in_map_iff in Hv as ([ch rv] & <- & Hp). cbn [fst snd].
      destruct (Hresp n l Hin) as (id & p & _ & Hval).
      apply validate_obs_sound in Hval as (so & ob & hn & _ & _ & _ & _ & _ & _ & Hl & _).
      apply validate_lus_sound in Hl as (_ & _ & Hall).
      destruct (Hall ch rv Hp) as (lu & u & _ & Hf & Hm & _). apply find_upd_some in Hf as [Hu Hc].
      destruct (WFu u Hu) as [(_ & Hn & _) _]. rewrite Hn, Hc in Hm. exact Hm.
    - rewrite P. apply forallb_forall. intros u Hu.
      unfold sufficient in S. rewrite (all_votes_32 acc H32) in S. cbn [rbind] in S. injection S as S'.
      rewrite forallb_forall in S'. specialize (S' u Hu). unfold chain_sufficient in S'.
      apply existsb_exists in S' as ([c r] & Hin & E). cbn [fst snd] in E. apply andb_true_iff in E as [E1 E2].
      apply in_flat_map in Hin as ([n0 l0] & Hacc & Hpl). cbn [snd] in Hpl.
      apply existsb_exists. exists (n0, sort_by (fun x y => N.leb (fst x) (fst y)) (plain l0)).
      split; [apply attr_of_in; now exists n0, l0|]. cbn [snd].
      apply existsb_exists. exists (c, r). split; [now apply sort_by_in|]. cbn [fst snd]. rewrite E1. cbn [andb].
      apply negb_true_iff in E2. unfold lt_f_plus_one in E2. apply Z.ltb_ge in E2.
      rewrite (count_votes_voters _ _ _ Hch) in E2. unfold gte_f_plus_one. apply Z.leb_le.
      eapply Z.le_trans; [exact E2|]. unfold zlen. apply inj_le.
      rewrite <- (map_length fst (filter (entry_has (u_chain u) r) acc)).
      apply NoDup_incl_length; [now apply nodup_map_filter|].
      intros n Hn. apply in_map_iff in Hn as ([m l] & <- & Hf). apply filter_In in Hf as [Hf1 Hf2]. cbn [fst].
      apply filter_In. split.
      + apply attr_voters_in. exists (sort_by (fun x y => N.leb (fst x) (fst y)) (plain l)).
        split; [apply attr_of_in; now exists m, l|]. apply sort_by_in.
        unfold entry_has in Hf2. cbn [snd] in Hf2. apply existsb_exists in Hf2 as (q & Hq & Eq).
        apply vote_eqb_eq in Eq. now subst q.
      + (* the carrier is a voter of that root in the script: its accepted observation is a response of the script *)
        apply memN_in. apply (evidence_voter cfg ITS WF pre F).
        * now destruct (WFu u Hu) as [(_ & Hnodes & _) _].
        * eapply (acc_vote_evidence edv_c cfg pre us acc u m l r); eauto.
          -- intros u' Hu'. now destruct (WFu u' Hu').
          -- eapply entry_has_in; [|exact Hf2]. now apply (H32 m).
  Qed.
End AttrPasses.

Lemma fail_code_kind f :
  N.eqb (fail_code f) 9 = false /\ N.eqb (fail_code f) 10 = false /\ N.eqb (fail_code f) 0 = false.
Proof. destruct f; repeat split; reflexivity. Qed.

(* every outcome of the model's set is the observable of a state the model reaches by events of the script, for one
   of the schedules it tries *)
Definition rootords_of (i : c06_in) : list (list root) :=
  let roots := dedupN (item_roots (i_items i)) in
  if memN 0%N roots then [[0%N]; filter (fun r => negb (N.eqb r 0)) roots] else [[]].
Definition sched_of (off : nat) (i : c06_in) (order1 : list node) (ro : list root) : sched :=
  mk_sched off order1 (i_asked i) (i_sendA2 i) ro (i_shufB1 i) (i_shufB2 i) (i_fails i).

Lemma model_outcome_reach off i x :
  cfg_wf (i_cfg i) -> In x (c06_model_from off i) ->
  exists order1 ro g acc,
    In order1 (rotations (i_asked i)) /\ In ro (rootords_of i) /\
    In (g, acc) (eager_acc (i_cfg i) (sched_of off i order1 ro) (ginit (i_cfg i) (sched_of off i order1 ro)) [] (i_items i)) /\
    x = out_of g acc /\ KI (i_cfg i) (sched_of off i order1 ro) (i_items i) g acc.
Proof.
  intros WF Hx. unfold c06_model_from in Hx. cbv zeta in Hx.
  apply in_flat_map in Hx as (order1 & Ho & Hx). apply in_flat_map in Hx as (ro & Hr & Hx).
  apply in_map_iff in Hx as ([g acc] & <- & Hga). cbn [fst snd] in *.
  exists order1, ro, g, acc. split; [exact Ho|]. split; [exact Hr|]. split; [exact Hga|]. split; [reflexivity|].
  exact (eager_reach (i_cfg i) (sched_of off i order1 ro) (i_items i) WF (i_items i) (incl_refl _) _ []
           (KI_init _ _ _) _ Hga).
Qed.

(* (a) for the clauses on the result: whatever order / race resolution the model tries, the outcome passes, provided
   the call has returned by the end of the script (kind 10 = "still running": the harness extends the script until the
   call has returned or it has cancelled the context) *)
Theorem c06_model_outcome_core off i x :
  cfg_wf (i_cfg i) -> In x (c06_model_from off i) -> o_kind x <> 10%N -> c06_core i x = true.
Proof.
  intros WF Hx Hk. destruct (model_outcome_reach off i x WF Hx) as (order1 & ro & g & acc & _ & _ & _ & -> & K).
  set (sc := sched_of off i order1 ro) in *. destruct K as ((evs & Er & F) & A & _).
  destruct g as [us s|s|f log]; [exfalso; apply Hk; reflexivity|exfalso; apply Hk; reflexivity|].
  assert (Hattr : attr_ok (i_cfg i) (i_items i) (if sig_sent (g_log (GFinal f log)) then attr_of acc else []) = true).
  { destruct (sig_sent _); [now apply (attr_ok_acc _ (i_items i) WF)|reflexivity]. }
  destruct f as [sigs rep|fl|].
  - destruct (success_sound edv_c vrs_c _ sc (proj1 WF) evs sigs rep log (eq_sym Er)) as (us & P & S).
    eapply (success_passes (i_cfg i) (i_items i) WF evs F); eauto.
  - unfold c06_core. cbv zeta. cbn [out_of o_kind o_attr]. destruct (fail_code_kind fl) as (K9 & K10 & K0).
    rewrite K9, K10, K0, Hattr. reflexivity.
  - exfalso. exact (total_no_panic edv_c vrs_c _ sc (proj1 WF) evs log (eq_sym Er)).
Qed.

(* the comparison the judge makes is an equality *)
Lemma out1_eqb_eq a b : out1_eqb a b = true -> a = b.
Proof.
  destruct a as [k1 l1 s1 g1 a1 r1], b as [k2 l2 s2 g2 a2 r2]. unfold out1_eqb. cbn [o_kind o_lanes o_sigs o_log o_attr o_repok].
  intros H. repeat (apply andb_true_iff in H as [H ?]).
  apply N.eqb_eq in H. subst k2.
  assert (l1 = l2) by (eapply list_eqb_eq; [|eassumption]; intros p q; apply vote_pair_eqb_eq). subst l2.
  assert (s1 = s2) by (eapply list_eqb_eq; [|eassumption]; intros p q; apply N.eqb_eq). subst s2.
  assert (g1 = g2).
  { eapply list_eqb_eq; [|eassumption]. intros [[[[ka na] ia] oa] ca] [[[[kb nb] ib] ob] cb] E. unfold send_eqb in E.
    repeat (apply andb_true_iff in E as [E ?]). apply N.eqb_eq in E.
    repeat match goal with X : N.eqb _ _ = true |- _ => apply N.eqb_eq in X end.
    match goal with X : Bool.eqb _ _ = true |- _ => apply eqb_prop in X end.
    match goal with X : list_eqb N.eqb _ _ = true |- _ =>
      apply (list_eqb_eq N.eqb (fun a b => proj1 (N.eqb_eq a b))) in X end.
    subst. reflexivity. }
  subst g2.
  assert (a1 = a2).
  { eapply list_eqb_eq; [|eassumption]. intros [na la] [nb lb] E. unfold pair_eqb in E. cbn [fst snd] in E.
    apply andb_true_iff in E as [E1 E2]. apply N.eqb_eq in E1.
    apply (list_eqb_eq vote_pair_eqb (fun p q => proj1 (vote_pair_eqb_eq p q))) in E2. subst. reflexivity. }
  subst a2.
  match goal with X : Bool.eqb _ _ = true |- _ => apply eqb_prop in X end. subst. reflexivity.
Qed.


(* CommitSysSMP.v — C04: what a report can contain, from the round state machine (CommitSM.v). *)
Require Import Verif.Model.Base Verif.Proofs.BaseP Verif.Model.SeqRange Verif.Model.CommitMerkle Verif.Model.CommitSM.

(* a report's roots are always among the round's agreed roots (RMN can only remove some) *)
Lemma finish_report_roots prev roots sigs r :
  In r (o_roots (finish_report prev roots sigs)) -> In r roots.
Proof. unfold finish_report. destruct roots; cbn; [intros []|tauto]. Qed.

Theorem build_report_roots_agreed q c prev r :
  In r (o_roots (build_report q c prev)) -> In r (c_roots c).
Proof.
  unfold build_report. destruct (q_sigs q) as [b|].
  - destruct (parse_sigs (b_sigs b)); [|intros []].
    destruct (parse_lanes (b_lanes b)); [|intros []].
    intros H. apply finish_report_roots in H. apply filter_In in H. destruct H as [H _].
    now apply sort_by_in in H.
  - intros H. apply finish_report_roots in H. now apply sort_by_in in H.
Qed.

(* only the building state produces roots: selecting / waiting outcomes and the empty outcome carry none *)
Theorem get_outcome_roots_agreed max n prev q c r :
  In r (o_roots (get_outcome max n prev q (Some c))) ->
  (next_state (o_type prev) = Building /\ q_retry q = true /\ In r (o_roots prev)) \/ In r (c_roots c).
Proof.
  unfold get_outcome, get_outcome_with.
  destruct (next_state (o_type prev)) eqn:Est; cbn [state_eqb andb].
  - unfold select_outcome_with. destruct (report_ranges_with _ _ _ _). cbn. intros [].
  - destruct (q_retry q) eqn:Er.
    + intros H. left. auto.
    + intros H. right. now apply build_report_roots_agreed in H.
  - unfold check_transmission. destruct (off_updated _ _); [intros []|].
    destruct (N.leb _ _); intros [].
Qed.

(* ---------- liveness, round level: once in the selecting state, two rounds with consensus produce the report ---------- *)
Require Import Verif.Proofs.CommitMerkleP.

Theorem select_then_build_reports max n prev q1 q2 c1 c2 k off on r :
  next_state (o_type prev) = Selecting ->
  NoDup (map fst (c_off c1)) -> (forall k m, alookup k (c_on c1) = Some m -> u64 m) -> (1 <= n)%N ->
  (* messages are pending for chain k: agreed off-ramp next <= agreed on-ramp latest *)
  In (k, off) (c_off c1) -> alookup k (c_on c1) = Some on -> (off <= on)%N ->
  (* second round: not an RMN retry, no bundle (RMN disabled), the agreed roots include one for k *)
  q_retry q2 = false -> q_sigs q2 = None -> In r (c_roots c2) ->
  let o1 := get_outcome max n prev q1 (Some c1) in
  let o2 := get_outcome max n o1 q2 (Some c2) in
  o_type o1 = T_selected /\ In (k, (off, N.min on (off + n - 1))) (o_ranges o1) /\
  o_type o2 = T_generated /\ In r (o_roots o2).
Proof.
  intros Hsel ND Hu Hn Hoff Hon Hle Hq2 Hs2 Hr. cbn zeta.
  assert (E1 : get_outcome max n prev q1 (Some c1) = select_outcome c1 n).
  { unfold get_outcome, get_outcome_with. rewrite Hsel. reflexivity. }
  rewrite E1. unfold select_outcome, select_outcome_with.
  destruct (report_ranges_with limit (c_on c1) (c_off c1) n) as [rs os] eqn:Err.
  cbn [o_type o_ranges].
  split; [reflexivity|].
  pose proof (report_ranges_exact (c_on c1) (c_off c1) n rs os ND Hu Hn Err) as [Hin _].
  split.
  { apply Hin. exists on. repeat split; assumption. }
  unfold get_outcome, get_outcome_with. cbn [o_type]. unfold T_selected, next_state. cbn [Z.eqb state_eqb].
  rewrite Hq2. cbn [andb]. unfold build_report. rewrite Hs2.
  assert (Hr' : In r (sort_by root_le (c_roots c2))) by (now apply sort_by_in).
  unfold finish_report. destruct (sort_by root_le (c_roots c2)) as [|x l] eqn:Es; [contradiction|].
  cbn [o_type o_roots]. split; [reflexivity|exact Hr'].
Qed.

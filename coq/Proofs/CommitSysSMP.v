(* CommitSysSMP.v — C04: what a report can contain, from the round state machine (CommitSM.v). *)
Require Import Verif.Model.Base Verif.Proofs.BaseP Verif.Model.SeqRange Verif.Model.CommitMerkle Verif.Model.CommitSM.

(* a report's roots are always among the round's agreed roots (RMN can only remove some) *)
Lemma finish_report_roots prev roots sigs r :
  In r (o_roots (finish_report prev roots sigs)) -> In r roots.
Proof. unfold finish_report. destruct roots; cbn; [intros []|tauto]. Qed.

Theorem build_report_roots_agreed q c prev r :
  In r (o_roots (build_report q c prev)) -> In r (c_roots c).
Proof.
  unfold build_report. destruct (q_sigs q) as [b|].
  - destruct (parse_sigs (b_sigs b)); [|intros []].
    destruct (parse_lanes (b_lanes b)); [|intros []].
    intros H. apply finish_report_roots in H. apply filter_In in H. destruct H as [H _].
    now apply sort_by_in in H.
  - intros H. apply finish_report_roots in H. now apply sort_by_in in H.
Qed.

(* only the building state produces roots: selecting / waiting outcomes and the empty outcome carry none *)
Theorem get_outcome_roots_agreed max n prev q c r :
  In r (o_roots (get_outcome max n prev q (Some c))) ->
  (next_state (o_type prev) = Building /\ q_retry q = true /\ In r (o_roots prev)) \/ In r (c_roots c).
Proof.
  unfold get_outcome, get_outcome_with.
  destruct (next_state (o_type prev)) eqn:Est; cbn [state_eqb andb].
  - unfold select_outcome_with. destruct (report_ranges_with _ _ _ _). cbn. intros [].
  - destruct (q_retry q) eqn:Er.
    + intros H. left. auto.
    + intros H. right. now apply build_report_roots_agreed in H.
  - unfold check_transmission. destruct (off_updated _ _); [intros []|].
    destruct (N.leb _ _); intros [].
Qed.

(* JudgeSoundC02P.v — the executable properties (x_ok) of Check/C02_check.v are the C02 property:
   for every sink (a) the model's own output passes x_ok, (b) every output that passes x_ok satisfies the Prop-level
   clause of Props/C02.v (stated for an ARBITRARY output, not the model's). *)
Require Import Verif.Model.Base Verif.Proofs.BaseP Verif.Model.SeqRange Verif.Proofs.SeqRangeP
               Verif.Model.CommitMerkle Verif.Proofs.CommitMerkleP
               Verif.Model.CommitSM Verif.Proofs.CommitSMP Verif.Model.C02Hist Verif.Proofs.C02HistP.
Require Import Verif.Check.C02_check.
From Coq Require Import Sorting.Sorted.
From Coq Require Import ZifyN ZifyNat ZifyBool.

(* ====================================================================================================
   generic reflection lemmas
   ==================================================================================================== *)
Lemma js_list_eqb_eq {A} (e : A -> A -> bool) :
  (forall a b, e a b = true -> a = b) -> forall l1 l2, list_eqb e l1 l2 = true -> l1 = l2.
Proof.
  intros He. induction l1 as [|x l1 IH]; intros [|y l2] H; cbn [list_eqb] in H; try discriminate; [reflexivity|].
  apply andb_true_iff in H. destruct H as [H1 H2]. f_equal; [now apply He|now apply IH].
Qed.

Lemma js_list_eqb_refl {A} (e : A -> A -> bool) :
  (forall a, e a a = true) -> forall l, list_eqb e l l = true.
Proof. intros He. induction l as [|x l IH]; cbn [list_eqb]; [reflexivity|]. now rewrite He, IH. Qed.

Lemma js_sc_eqb_eq a b : sc_eqb a b = true -> a = b.
Proof.
  destruct a as [a1 a2], b as [b1 b2]. unfold sc_eqb, pair_eqb. cbn [fst snd]. intros H.
  apply andb_true_iff in H. destruct H as [H1 H2]. apply N.eqb_eq in H1, H2. now subst.
Qed.
Lemma js_sc_eqb_refl a : sc_eqb a a = true.
Proof. destruct a as [a1 a2]. unfold sc_eqb, pair_eqb. cbn [fst snd]. now rewrite !N.eqb_refl. Qed.

Lemma js_cr_eqb_eq a b : cr_eqb a b = true -> a = b.
Proof.
  destruct a as [a1 [a2 a3]], b as [b1 [b2 b3]]. unfold cr_eqb, pair_eqb. cbn [fst snd]. intros H.
  apply andb_true_iff in H. destruct H as [H1 H2]. apply andb_true_iff in H2. destruct H2 as [H2 H3].
  apply N.eqb_eq in H1, H2, H3. now subst.
Qed.
Lemma js_cr_eqb_refl a : cr_eqb a a = true.
Proof. destruct a as [a1 [a2 a3]]. unfold cr_eqb, pair_eqb. cbn [fst snd]. now rewrite !N.eqb_refl. Qed.

Lemma js_memN_false x l : memN x l = false <-> ~ In x l.
Proof.
  split.
  - intros H HI. apply memN_In in HI. congruence.
  - intros H. destruct (memN x l) eqn:E; [|reflexivity]. apply memN_In in E. contradiction.
Qed.

Lemma js_nodupb_NoDup (l : list N) : nodupb N.eqb l = true <-> NoDup l.
Proof.
  induction l as [|x l IH]; cbn [nodupb].
  - split; [constructor|reflexivity].
  - rewrite andb_true_iff, negb_true_iff, IH. change (existsb (N.eqb x) l) with (memN x l).
    rewrite js_memN_false. split.
    + intros [H1 H2]. now constructor.
    + intros H. inversion H; subst. now split.
Qed.

Lemma js_lookup_is_true k v m : lookup_is k v m = true <-> alookup k m = Some v.
Proof.
  unfold lookup_is. destruct (alookup k m) as [v'|]; [|split; discriminate].
  rewrite N.eqb_eq. split; [intros ->; reflexivity|intros H; inversion H; reflexivity].
Qed.

Lemma js_keys_unique {V} (l : list (N * V)) k v v' :
  NoDup (map fst l) -> In (k, v) l -> In (k, v') l -> v = v'.
Proof.
  intros ND H1 H2. apply (alookup_NoDup_In k l v ND) in H1. apply (alookup_NoDup_In k l v' ND) in H2. congruence.
Qed.

Lemma js_in_keys {V} (l : list (N * V)) k : In k (map fst l) <-> exists v, In (k, v) l.
Proof.
  rewrite in_map_iff. split.
  - intros [[k' v] [E HI]]. cbn [fst] in E. subst k'. now exists v.
  - intros [v HI]. exists (k, v). now split.
Qed.

(* strictly ascending keys = sorted by key and no key twice *)
Lemma js_asc_head {V} (x : N * V) l :
  strictly_asc_keys (x :: l) = true -> Forall (fun y => (fst x < fst y)%N) l /\ strictly_asc_keys l = true.
Proof.
  revert x. induction l as [|y l IH]; intros x H; [split; [constructor|reflexivity]|].
  cbn [strictly_asc_keys] in H. apply andb_true_iff in H. destruct H as [H1 H2]. apply N.ltb_lt in H1.
  destruct (IH y H2) as [HF _]. split; [|exact H2].
  constructor; [exact H1|]. eapply Forall_impl; [|exact HF]. cbn. intros; lia.
Qed.

Lemma js_asc_iff {V} (l : list (N * V)) :
  strictly_asc_keys l = true <-> KSorted fst l /\ NoDup (map fst l).
Proof.
  split.
  - induction l as [|x l IH]; intros H; [split; constructor|].
    destruct (js_asc_head x l H) as [HF H']. destruct (IH H') as [S ND]. split.
    + constructor; [exact S|]. eapply Forall_impl; [|exact HF]. cbn. intros; lia.
    + cbn [map]. constructor; [|exact ND]. intros HI. apply in_map_iff in HI. destruct HI as [y [E HI]].
      rewrite Forall_forall in HF. specialize (HF _ HI). lia.
  - induction l as [|x l IH]; intros [S ND]; [reflexivity|].
    inversion S as [|? ? S' HF]; subst. cbn [map] in ND. inversion ND as [|? ? Hn ND']; subst.
    destruct l as [|y l]; [reflexivity|].
    change (strictly_asc_keys (x :: y :: l)) with (N.ltb (fst x) (fst y) && strictly_asc_keys (y :: l)).
    rewrite (IH (conj S' ND')), andb_true_r. apply N.ltb_lt.
    inversion HF as [|? ? Hxy _]; subst. cbn in Hxy.
    assert (fst x <> fst y) by (intros E; apply Hn; left; now symmetry). lia.
Qed.

(* two key-sorted lists without repeated keys and with the same elements are equal *)
Lemma js_sorted_ext {V} (l1 l2 : list (N * V)) :
  KSorted fst l1 -> NoDup (map fst l1) -> KSorted fst l2 -> NoDup (map fst l2) ->
  (forall x, In x l1 <-> In x l2) -> l1 = l2.
Proof.
  intros S1 N1 S2 N2 Hx. apply (ksorted_perm_eq fst); try assumption.
  apply NoDup_Permutation; [eapply NoDup_map_inv; exact N1|eapply NoDup_map_inv; exact N2|exact Hx].
Qed.

(* ====================================================================================================
   sink C02_lim — lim_judge / lim_ok  (Props: C02_limit, C02_limit_bounds)
   ==================================================================================================== *)
Section Lim.

  (* (a) uint64 end (the Go type) is the only premise *)
  Lemma lim_model_passes : forall i : lim_in, u64 (snd (fst i)) -> lim_ok i (lim_model i) = true.
  Proof.
    intros [[s e] n] He. cbn [fst snd] in He. unfold lim_ok, lim_model.
    rewrite limit_start, N.eqb_refl. cbn [andb].
    destruct (N.leb_spec s e) as [Hse|Hse]; [|reflexivity].
    destruct (N.leb_spec 1 n) as [Hn|Hn]; [|reflexivity]. cbn [andb].
    rewrite (limit_spec s e n Hse He Hn). cbn [snd]. apply N.eqb_refl.
  Qed.

  (* (b) an output that passes is the [s, min(e, s+n-1)] of C02_limit with every bound of C02_limit_bounds;
     the start clause holds for every input, also inverted ranges and n = 0 *)
  Lemma lim_sound : forall (i : lim_in) (o : lim_out), lim_ok i o = true ->
    let '(s, e, n) := i in
    fst o = s /\
    ((s <= e)%N -> (1 <= n)%N ->
       o = (s, N.min e (s + n - 1)) /\
       (s <= snd o <= e)%N /\ (range_size o <= n)%N /\
       ((range_size (s, e) <= n)%N -> o = (s, e)) /\
       ((n < range_size (s, e))%N -> range_size o = n)).
  Proof.
    intros [[s e] n] [a b] H. unfold lim_ok in H. cbn [fst snd] in H.
    apply andb_true_iff in H. destruct H as [H1 H2]. apply N.eqb_eq in H1. subst a.
    split; [reflexivity|]. intros Hse Hn.
    destruct (N.leb_spec s e) as [_|X]; [|lia]. destruct (N.leb_spec 1 n) as [_|X]; [|lia].
    cbn [andb] in H2. apply N.eqb_eq in H2. subst b.
    unfold range_size. cbn [fst snd]. repeat split; try lia.
    intros Hs. f_equal. lia.
  Qed.

  Example lim_ok_nonvacuous :
    lim_ok (100, 110, 10)%N (100, 109)%N = true /\ lim_ok (0, max64, 256)%N (0, 255)%N = true /\
    lim_ok (100, 110, 10)%N (100, 110)%N = false.
  Proof. vm_compute. repeat split. Qed.
End Lim.

(* ====================================================================================================
   sink C02_rng — rng_judge / rng_ok  (Props: C02_ranges, C02_ranges_omitted)
   ==================================================================================================== *)
Section Rng.

  Lemma rng_ok_unfold on off n rs os : (1 <= n)%N ->
    rng_ok (on, off, n) (rs, os) = true <->
    (strictly_asc_keys rs = true /\ strictly_asc_keys os = true /\
     (forall k a b, In (k, (a, b)) rs ->
        alookup k off = Some a /\ exists m, alookup k on = Some m /\ (a <= m)%N /\ b = N.min m (a + n - 1)) /\
     (forall k o, In (k, o) off ->
        match alookup k on with
        | Some m => ((o <= m)%N <-> In k (map fst rs))
        | None => ~ In k (map fst rs)
        end) /\
     (forall k o, In (k, o) os -> alookup k off = Some o /\ alookup k on <> None) /\
     (forall k o, In (k, o) off ->
        match alookup k on with Some _ => In k (map fst os) | None => ~ In k (map fst os) end)).
  Proof.
    intros Hn. unfold rng_ok. destruct (N.leb_spec 1 n) as [_|X]; [|lia]. cbn [negb].
    rewrite !andb_true_iff, !forallb_forall. split.
    - intros [[[[[H1 H2] H3] H4] H5] H6]. split; [exact H1|]. split; [exact H2|]. split; [|split; [|split]].
      + intros k a b HI. specialize (H3 _ HI). cbv beta iota in H3.
        apply andb_true_iff in H3. destruct H3 as [A B]. apply js_lookup_is_true in A. split; [exact A|].
        destruct (alookup k on) as [m|]; [|discriminate]. exists m. split; [reflexivity|].
        apply andb_true_iff in B. destruct B as [B C]. apply N.leb_le in B. apply N.eqb_eq in C. now split.
      + intros k o HI. specialize (H4 _ HI). cbv beta iota in H4.
        destruct (alookup k on) as [m|].
        * apply eqb_prop in H4. rewrite <- memN_In, <- H4. symmetry. apply N.leb_le.
        * apply negb_true_iff in H4. now apply js_memN_false.
      + intros k o HI. specialize (H5 _ HI). cbn [fst snd] in H5.
        apply andb_true_iff in H5. destruct H5 as [A B]. apply js_lookup_is_true in A. split; [exact A|].
        destruct (alookup k on); [discriminate|discriminate].
      + intros k o HI. specialize (H6 _ HI). cbn [fst snd] in H6.
        destruct (alookup k on) as [m|]; [now apply memN_In|].
        apply negb_true_iff in H6. now apply js_memN_false.
    - intros [H1 [H2 [H3 [H4 [H5 H6]]]]]. repeat split; try assumption.
      + intros [k [a b]] HI. cbv beta iota. destruct (H3 _ _ _ HI) as [A [m [E [B C]]]].
        apply js_lookup_is_true in A. rewrite A, E. cbn [andb].
        apply andb_true_iff. split; [now apply N.leb_le|now apply N.eqb_eq].
      + intros [k o] HI. cbv beta iota. specialize (H4 _ _ HI).
        destruct (alookup k on) as [m|].
        * apply eqb_true_iff. apply eq_true_iff_eq. rewrite N.leb_le, memN_In. exact H4.
        * apply negb_true_iff. now apply js_memN_false.
      + intros [k o] HI. cbn [fst snd]. destruct (H5 _ _ HI) as [A B].
        apply js_lookup_is_true in A. rewrite A. cbn [andb]. destruct (alookup k on); [reflexivity|congruence].
      + intros [k o] HI. cbn [fst snd]. specialize (H6 _ _ HI).
        destruct (alookup k on) as [m|]; [now apply memN_In|].
        apply negb_true_iff. now apply js_memN_false.
  Qed.

  (* (b) the conclusion of C02_ranges for an arbitrary output that passes (no uint64 premise needed) *)
  Lemma rng_sound : forall on off n rs os,
    rng_ok (on, off, n) (rs, os) = true ->
    NoDup (map fst off) -> (1 <= n)%N ->
    (forall k a b, In (k, (a, b)) rs <->
       exists m, In (k, a) off /\ alookup k on = Some m /\ (a <= m)%N /\ b = N.min m (a + n - 1)) /\
    KSorted fst rs /\ NoDup (map fst rs) /\
    (forall k a b, In (k, (a, b)) rs -> (a <= b)%N /\ (range_size (a, b) <= n)%N) /\
    (forall k o, In (k, o) os <-> In (k, o) off /\ alookup k on <> None) /\
    KSorted fst os /\ NoDup (map fst os).
  Proof.
    intros on off n rs os H ND Hn. apply (rng_ok_unfold on off n rs os Hn) in H.
    destruct H as [H1 [H2 [H3 [H4 [H5 H6]]]]].
    apply js_asc_iff in H1, H2. destruct H1 as [S1 N1]. destruct H2 as [S2 N2].
    assert (Hin : forall k a b, In (k, (a, b)) rs <->
       exists m, In (k, a) off /\ alookup k on = Some m /\ (a <= m)%N /\ b = N.min m (a + n - 1)).
    { intros k a b. split.
      - intros HI. destruct (H3 _ _ _ HI) as [A [m [E [B C]]]]. exists m. split; [now apply alookup_In|]. now repeat split.
      - intros [m [HI [E [B C]]]]. specialize (H4 _ _ HI). rewrite E in H4.
        apply H4 in B. apply js_in_keys in B. destruct B as [[a' b'] HI'].
        destruct (H3 _ _ _ HI') as [A [m' [E' [B' C']]]]. apply alookup_In in A.
        assert (a' = a) by exact (js_keys_unique off k a' a ND A HI). subst a'.
        assert (m' = m) by congruence. subst m'. subst b'. subst b. exact HI'. }
    split; [exact Hin|]. split; [exact S1|]. split; [exact N1|]. split.
    { intros k a b HI. apply Hin in HI. destruct HI as [m [_ [_ [B C]]]]. subst b.
      unfold range_size. cbn [fst snd]. lia. }
    split; [|split; assumption].
    intros k o. split.
    - intros HI. destruct (H5 _ _ HI) as [A B]. split; [now apply alookup_In|exact B].
    - intros [HI B]. specialize (H6 _ _ HI). destruct (alookup k on) as [m|]; [|congruence].
      apply js_in_keys in H6. destruct H6 as [o' HI']. destruct (H5 _ _ HI') as [A _]. apply alookup_In in A.
      assert (o' = o) by exact (js_keys_unique off k o' o ND A HI). now subst o'.
  Qed.

  (* the conclusion of C02_ranges_omitted for an arbitrary output that passes *)
  Corollary rng_sound_omitted : forall on off n rs os k,
    rng_ok (on, off, n) (rs, os) = true ->
    NoDup (map fst off) -> (1 <= n)%N ->
    (forall o m, In (k, o) off -> alookup k on = Some m -> (m < o)%N) \/ alookup k on = None \/ ~ In k (map fst off) ->
    ~ In k (map fst rs).
  Proof.
    intros on off n rs os k H ND Hn Hc HI.
    destruct (rng_sound on off n rs os H ND Hn) as [Hin _].
    apply js_in_keys in HI. destruct HI as [[a b] HI]. apply Hin in HI. destruct HI as [m [Hp [E [Hle _]]]].
    destruct Hc as [Hc|[Hc|Hc]].
    - specialize (Hc _ _ Hp E). lia.
    - congruence.
    - apply Hc. apply js_in_keys. now exists a.
  Qed.

  (* (a) premises = those of C02_ranges: off-ramp keys unique (a Go map), on-ramp values uint64 *)
  Lemma rng_model_passes : forall i : rng_in,
    NoDup (map fst (snd (fst i))) ->
    (forall k m, alookup k (fst (fst i)) = Some m -> u64 m) ->
    rng_ok i (rng_model i) = true.
  Proof.
    intros [[on off] n] ND Hu. cbn [fst snd] in ND, Hu.
    destruct (N.leb_spec 1 n) as [Hn|Hn].
    2:{ unfold rng_ok, rng_model. destruct (report_ranges on off n) as [rs os].
        destruct (N.leb_spec 1 n) as [X|_]; [lia|]. reflexivity. }
    unfold rng_model. destruct (report_ranges on off n) as [rs os] eqn:E.
    destruct (report_ranges_exact on off n rs os ND Hu Hn E) as [Hin [S1 [N1 [_ [Hos [S2 N2]]]]]].
    apply (rng_ok_unfold on off n rs os Hn).
    split; [apply js_asc_iff; now split|]. split; [apply js_asc_iff; now split|]. split; [|split; [|split]].
    - intros k a b HI. apply Hin in HI. destruct HI as [m [HI [Em [B C]]]].
      split; [now apply alookup_NoDup_In|]. exists m. now repeat split.
    - intros k o HI. destruct (alookup k on) as [m|] eqn:Em.
      + split.
        * intros B. apply js_in_keys. exists (o, N.min m (o + n - 1)). apply Hin. exists m.
          split; [exact HI|]. split; [exact Em|]. split; [exact B|reflexivity].
        * intros HK. apply js_in_keys in HK. destruct HK as [[a b] HK]. apply Hin in HK.
          destruct HK as [m' [HI' [Em' [B _]]]]. assert (a = o) by exact (js_keys_unique off k a o ND HI' HI).
          subst a. congruence.
      + intros HK. apply js_in_keys in HK. destruct HK as [[a b] HK]. apply Hin in HK.
        destruct HK as [m' [_ [Em' _]]]. congruence.
    - intros k o HI. apply Hos in HI. destruct HI as [HI B]. split; [now apply alookup_NoDup_In|exact B].
    - intros k o HI. destruct (alookup k on) as [m|] eqn:Em.
      + apply js_in_keys. exists o. apply Hos. split; [exact HI|congruence].
      + intros HK. apply js_in_keys in HK. destruct HK as [o' HK]. apply Hos in HK. destruct HK as [_ B]. congruence.
  Qed.

  (* rng_ok is COMPLETE: under the premises of C02_ranges the only output that passes is the model's *)
  Theorem rng_ok_only_model : forall on off n o,
    rng_ok (on, off, n) o = true ->
    NoDup (map fst off) -> (forall k m, alookup k on = Some m -> u64 m) -> (1 <= n)%N ->
    o = report_ranges on off n.
  Proof.
    intros on off n [rs os] H ND Hu Hn.
    destruct (rng_sound on off n rs os H ND Hn) as [Hin [S1 [N1 [_ [Hos [S2 N2]]]]]].
    destruct (report_ranges on off n) as [rs' os'] eqn:E.
    destruct (report_ranges_exact on off n rs' os' ND Hu Hn E) as [Hin' [S1' [N1' [_ [Hos' [S2' N2']]]]]].
    f_equal.
    - apply js_sorted_ext; try assumption. intros [k [a b]]. rewrite Hin, Hin'. reflexivity.
    - apply js_sorted_ext; try assumption. intros [k o]. rewrite Hos, Hos'. reflexivity.
  Qed.

  Example rng_ok_nonvacuous :
    rng_ok ([(5, 20); (3, 400); (9, 7)], [(9, 8); (3, 100); (5, 20); (4, 1)], 256)%N
           ([(3, (100, 355)); (5, (20, 20))], [(3, 100); (5, 20); (9, 8)])%N = true /\
    (* start moved off the cursor / one too long / pending chain dropped: rejected *)
    rng_ok ([(3, 400)], [(3, 100)], 256)%N ([(3, (101, 356))], [(3, 100)])%N = false /\
    rng_ok ([(3, 400)], [(3, 100)], 256)%N ([(3, (100, 356))], [(3, 100)])%N = false /\
    rng_ok ([(3, 400)], [(3, 100)], 256)%N ([], [(3, 100)])%N = false.
  Proof. vm_compute. repeat split. Qed.
End Rng.

(* ====================================================================================================
   sink C02_roots — roots_judge / roots_ok  (Props: C02_roots_sound, C02_root_exact, C02_root_exact_except_known)
   ==================================================================================================== *)
Section Roots.

  Lemma js_all_some_somes {A} (l : list (option A)) : all_some l = true -> l = map Some (somes l).
  Proof.
    unfold all_some, somes. induction l as [|o l IH]; cbn [forallb flat_map map]; [reflexivity|].
    destruct o as [x|]; [|discriminate]. cbn [andb app map]. intros H. f_equal. now apply IH.
  Qed.

  Lemma js_somes_map_Some {A} (l : list A) : somes (map Some l) = l.
  Proof. unfold somes. induction l as [|x l IH]; cbn [map flat_map app]; [reflexivity|]. now rewrite IH. Qed.

  Lemma js_all_some_map_Some {A} (l : list A) : all_some (map Some l) = true.
  Proof. unfold all_some. induction l as [|x l IH]; cbn [map forallb andb]; [reflexivity|exact IH]. Qed.

  Lemma js_existsb_cr x l : existsb (cr_eqb x) l = true <-> In x l.
  Proof.
    rewrite existsb_exists. split.
    - intros [y [HI E]]. apply js_cr_eqb_eq in E. now subst.
    - intros HI. exists x. split; [exact HI|apply js_cr_eqb_refl].
  Qed.

  (* the root clause on one reported root, as a Prop: the vocabulary of C02_roots_sound plus the source-chain
     clause of C02_root_exact_except_known *)
  Definition root_clause (i : roots_in) (x : root_obs) : Prop :=
    let '(sup, ranges, ans, addrs, zero, tbl) := i in
    let '(k, (s, e), a, r) := x in
    exists su ms hs,
      sup = Some su /\ In k su /\ In (k, (s, e)) ranges /\
      reader_of ans k (s, e) = Some ms /\ alookup k addrs = Some a /\
      complete_read ms s e hs /\ mroot (tbl_h tbl) zero hs = Some r /\
      Forall (fun m => m_src m = k) ms.

  Lemma root_justified_iff i x : root_justified i x = true <-> root_clause i x.
  Proof.
    destruct i as [[[[[sup ranges] ans] addrs] zero] tbl]. destruct x as [[[k [s e]] a] r].
    unfold root_justified, root_clause, reader_of. split.
    - destruct sup as [su|]; [|discriminate]. intros H.
      apply andb_true_iff in H. destruct H as [H H3]. apply andb_true_iff in H. destruct H as [H1 H2].
      apply memN_In in H1. apply js_existsb_cr in H2.
      destruct (alookup k ans) as [[ms|]|]; try discriminate.
      repeat rewrite andb_true_iff in H3. destruct H3 as [[[[[[A B] C] D] E] G] L].
      apply N.leb_le in A. apply N.eqb_eq in B. apply (js_list_eqb_eq N.eqb) in C; [|intros ? ?; apply N.eqb_eq].
      apply js_all_some_somes in E. apply js_lookup_is_true in L.
      destruct (mroot (tbl_h tbl) zero (somes (map m_hash (sort_by seq_le ms)))) as [r0|] eqn:MR; [|discriminate].
      cbn [option_eqb] in G. apply N.eqb_eq in G. subst r0.
      exists su, ms, (somes (map m_hash (sort_by seq_le ms))).
      split; [reflexivity|]. split; [exact H1|]. split; [exact H2|]. split; [reflexivity|]. split; [exact L|].
      split; [repeat split; assumption|]. split; [exact MR|].
      apply Forall_forall. intros m Hm. rewrite forallb_forall in D. apply N.eqb_eq. now apply D.
    - intros [su [ms [hs [-> [H1 [H2 [R [L [[A [B [C E]]] [MR D]]]]]]]]]].
      apply memN_In in H1. apply js_existsb_cr in H2. rewrite H1, H2. cbn [andb].
      destruct (alookup k ans) as [[ms'|]|]; try discriminate. inversion R; subst ms'.
      rewrite E, js_somes_map_Some, js_all_some_map_Some, MR, C.
      apply js_lookup_is_true in L. rewrite L.
      repeat rewrite andb_true_iff. repeat split.
      + now apply N.leb_le.
      + now apply N.eqb_eq.
      + apply js_list_eqb_refl. apply N.eqb_refl.
      + apply forallb_forall. intros m Hm. apply N.eqb_eq. rewrite Forall_forall in D. now apply D.
      + cbn [option_eqb]. apply N.eqb_refl.
  Qed.

  (* (b) every reported root of an output that passes satisfies the conclusion of C02_roots_sound, the reader
     being the scripted one, AND all messages it was computed from name the queried source chain (the clause of
     C02_root_exact_except_known that the code itself does not enforce: F01b); at most one root per requested
     interval is the counting clause *)
  Lemma roots_sound : forall (i : roots_in) (o : roots_out), roots_ok i o = true ->
    let '(sup, ranges, ans, addrs, zero, tbl) := i in
    (forall k s e a r, In (k, (s, e), a, r) o ->
       exists su ms hs,
         sup = Some su /\ In k su /\ In (k, (s, e)) ranges /\
         reader_of ans k (s, e) = Some ms /\ alookup k addrs = Some a /\
         complete_read ms s e hs /\ mroot (tbl_h tbl) zero hs = Some r /\
         Forall (fun m => m_src m = k) ms) /\
    (length o <= length ranges)%nat.
  Proof.
    intros [[[[[sup ranges] ans] addrs] zero] tbl] o H. unfold roots_ok in H.
    apply andb_true_iff in H. destruct H as [H1 H2]. apply Nat.leb_le in H2. split; [|exact H2].
    intros k s e a r HI. rewrite forallb_forall in H1. specialize (H1 _ HI).
    apply root_justified_iff in H1. exact H1.
  Qed.

  (* consequence in the vocabulary of C02_root_exact_counts: exactly one message per sequence number *)
  Corollary roots_sound_counts : forall sup ranges ans addrs zero tbl o k s e a r,
    roots_ok (sup, ranges, ans, addrs, zero, tbl) o = true -> In (k, (s, e), a, r) o ->
    exists ms, reader_of ans k (s, e) = Some ms /\
      forall q, length (filter (fun m => N.eqb (m_seq m) q) ms) = if (N.leb s q && N.leb q e)%bool then 1%nat else 0%nat.
  Proof.
    intros sup ranges ans addrs zero tbl o k s e a r H HI.
    destruct (roots_sound _ _ H) as [Hc _]. destruct (Hc _ _ _ _ _ HI) as [su [ms [hs [_ [_ [_ [R [_ [C _]]]]]]]]].
    exists ms. split; [exact R|]. exact (complete_read_counts ms s e hs C).
  Qed.

  Lemma js_flat_map_le1 {A B} (f : A -> list B) l :
    (forall x, (length (f x) <= 1)%nat) -> (length (flat_map f l) <= length l)%nat.
  Proof.
    intros Hf. induction l as [|x l IH]; cbn [flat_map length]; [lia|].
    rewrite app_length. specialize (Hf x). lia.
  Qed.

  (* (a) premises: requested interval ends are uint64 (Go type); the input is outside the recorded class F01b
     (roots_known = 0: no reader answer holds a message whose header names another chain) *)
  Lemma roots_model_passes : forall i : roots_in,
    (forall k s e, In (k, (s, e)) (snd (fst (fst (fst (fst i))))) -> u64 e) ->
    roots_known i = 0%N ->
    roots_ok i (roots_model i) = true.
  Proof.
    intros [[[[[sup ranges] ans] addrs] zero] tbl] Hu Hk. cbn [fst snd] in Hu.
    unfold roots_ok, roots_model. apply andb_true_iff. split.
    - apply forallb_forall. intros [[[k [s e]] a] r] HI. apply root_justified_iff.
      destruct (observe_roots_sound _ _ _ _ _ _ k s e a r Hu HI) as [su [ms [hs [E [H1 [H2 [R [L [C MR]]]]]]]]].
      exists su, ms, hs. repeat (split; [assumption|]).
      apply Forall_forall. intros m Hm.
      unfold roots_known in Hk.
      destruct (existsb _ ans) eqn:X in Hk; [discriminate|].
      unfold reader_of in R. destruct (alookup k ans) as [oa|] eqn:EA; [|discriminate]. subst oa.
      apply alookup_In in EA.
      destruct (N.eqb_spec (m_src m) k) as [Y|Y]; [exact Y|]. exfalso.
      assert (T : existsb (fun p : N * option (list msg) =>
                match snd p with
                | Some ms => existsb (fun m => negb (N.eqb (m_src m) (fst p))) ms
                | None => false
                end) ans = true).
      { apply existsb_exists. exists (k, Some ms). split; [exact EA|]. cbn [fst snd].
        apply existsb_exists. exists m. split; [exact Hm|]. apply negb_true_iff. now apply N.eqb_neq. }
      congruence.
    - apply Nat.leb_le. unfold observe_roots, observe_roots_with. destruct sup as [su|]; [|cbn; lia].
      apply js_flat_map_le1. intros [k [s e]]. destruct (memN k su); [|cbn; lia].
      destruct (observe_one_with _ _ _ _ _ _ _ _); cbn; lia.
  Qed.

  Example roots_ok_nonvacuous :
    let tbl := [((31, 32), 100); ((33, 999), 101); ((100, 101), 102)]%N in
    let i : roots_in := (Some [7%N], [(7, (10, 12))]%N,
                         [(7%N, Some [(12, 7, Some 33); (10, 7, Some 31); (11, 7, Some 32)]%N)], [(7, 5)]%N, 999%N, tbl) in
    roots_ok i [(7, (10, 12), 5, 102)]%N = true /\ roots_model i = [(7, (10, 12), 5, 102)]%N /\
    (* another root, another address, an interval not asked for: rejected *)
    roots_ok i [(7, (10, 12), 5, 101)]%N = false /\ roots_ok i [(7, (10, 12), 6, 102)]%N = false /\
    roots_ok i [(7, (10, 11), 5, 100)]%N = false.
  Proof. vm_compute. repeat split. Qed.
End Roots.

(* ====================================================================================================
   sink C02_hist — hr_judge / hr_ok  (Props: C02_hist_selection_exact, C02_hist_selection_characterised,
   C02_hist_ranges_provenance; the building / waiting clauses restate facts of the C03 state machine)
   ==================================================================================================== *)
Require Verif.Check.C03_check Verif.Model.CommitConsensus Verif.Proofs.CommitConsensusP.

Section Hist.

  Lemma js_root_eqb_eq (x y : root) : root_eqb x y = true -> x = y.
  Proof.
    destruct x as [[[k [s e]] a] r], y as [[[k' [s' e']] a'] r']. unfold root_eqb. intros H.
    repeat rewrite andb_true_iff in H. destruct H as [[[[A B] C] D] E].
    apply N.eqb_eq in A, B, C, D, E. now subst.
  Qed.
  Lemma js_root_eqb_refl (x : root) : root_eqb x x = true.
  Proof. destruct x as [[[k [s e]] a] r]. unfold root_eqb. now rewrite !N.eqb_refl. Qed.

  Lemma js_outcome_eqb_eq a b : C03_check.outcome_eqb a b = true -> a = b.
  Proof.
    destruct a as [t1 r1 ro1 of1 at1 si1 [c1 c1']], b as [t2 r2 ro2 of2 at2 si2 [c2 c2']].
    unfold C03_check.outcome_eqb, cfg_eqb, pair_eqb. cbn [o_type o_ranges o_roots o_off o_attempts o_sigs o_cfg fst snd].
    intros H. repeat rewrite andb_true_iff in H. destruct H as [[[[[[A B] C] D] E] G] [I J]].
    apply Z.eqb_eq in A. apply N.eqb_eq in E, I, J.
    apply (js_list_eqb_eq _ js_cr_eqb_eq) in B. apply (js_list_eqb_eq _ js_root_eqb_eq) in C.
    apply (js_list_eqb_eq _ js_sc_eqb_eq) in D. apply (js_list_eqb_eq N.eqb) in G; [|intros ? ?; apply N.eqb_eq].
    now subst.
  Qed.
  Lemma js_outcome_eqb_refl a : C03_check.outcome_eqb a a = true.
  Proof.
    destruct a as [t1 r1 ro1 of1 at1 si1 [c1 c1']].
    unfold C03_check.outcome_eqb, cfg_eqb, pair_eqb. cbn [o_type o_ranges o_roots o_off o_attempts o_sigs o_cfg fst snd].
    rewrite Z.eqb_refl, !N.eqb_refl.
    rewrite (js_list_eqb_refl _ js_cr_eqb_refl), (js_list_eqb_refl _ js_root_eqb_refl),
            (js_list_eqb_refl _ js_sc_eqb_refl), (js_list_eqb_refl N.eqb N.eqb_refl). reflexivity.
  Qed.

  Lemma js_is_nil {A} (l : list A) : match l with [] => true | _ => false end = true <-> l = [].
  Proof. destruct l; split; congruence. Qed.

  (* ---------- (b) selecting round ---------- *)

  (* the conclusion of C02_hist_selection_exact for an arbitrary outcome that passes, c = THIS round's consensus *)
  Lemma hr_sound_selecting : forall F dest max n prev retry aos c o,
    hr_ok (F, dest, max, n, prev, retry, aos) o = true ->
    next_state (o_type prev) = Selecting -> hr_cons F dest aos = Some c ->
    NoDup (map fst (c_off c)) -> (forall k m, alookup k (c_on c) = Some m -> u64 m) -> (1 <= n)%N ->
    (o_ranges o, o_off o) = report_ranges (c_on c) (c_off c) n /\
    o_type o = T_selected /\ o_roots o = [] /\ o_attempts o = 0%N /\ o_sigs o = [].
  Proof.
    intros F dest max n prev retry aos c o H HS HC ND Hu Hn. unfold hr_ok in H. rewrite HS, HC in H.
    repeat rewrite andb_true_iff in H. destruct H as [[[[A B] C] D] E].
    apply Z.eqb_eq in A. apply js_is_nil in C, E. apply N.eqb_eq in D.
    split; [|now repeat split]. exact (rng_ok_only_model _ _ _ _ B ND Hu Hn).
  Qed.

  (* the conclusion of C02_hist_selection_characterised (no uint64 premise) *)
  Lemma hr_sound_selecting_characterised : forall F dest max n prev retry aos c o,
    hr_ok (F, dest, max, n, prev, retry, aos) o = true ->
    next_state (o_type prev) = Selecting -> hr_cons F dest aos = Some c ->
    NoDup (map fst (c_off c)) -> (1 <= n)%N ->
    (forall k a b, In (k, (a, b)) (o_ranges o) <->
       exists m, In (k, a) (c_off c) /\ alookup k (c_on c) = Some m /\ (a <= m)%N /\ b = N.min m (a + n - 1)) /\
    (forall k, (alookup k (c_on c) = None \/ ~ In k (map fst (c_off c))) -> ~ In k (map fst (o_ranges o))) /\
    NoDup (map fst (o_ranges o)) /\
    (forall k v, In (k, v) (o_off o) <-> In (k, v) (c_off c) /\ alookup k (c_on c) <> None).
  Proof.
    intros F dest max n prev retry aos c o H HS HC ND Hn. unfold hr_ok in H. rewrite HS, HC in H.
    repeat rewrite andb_true_iff in H. destruct H as [[[[A B] C] D] E].
    destruct (rng_sound _ _ _ _ _ B ND Hn) as [Hin [_ [N1 [_ [Hos _]]]]].
    split; [exact Hin|]. split; [|split; [exact N1|exact Hos]].
    intros k Hk. apply (rng_sound_omitted _ _ _ _ _ k B ND Hn).
    destruct Hk as [Hk|Hk]; [right; left; exact Hk|right; right; exact Hk].
  Qed.

  (* transfer to histories: an outcome that passes in a selecting round after ANY history agrees with the outcome of
     C02_hist_selection_exact / _indep in the five fields those theorems speak about *)
  Corollary hr_sound_selecting_history : forall F dest max n prev0 rs retry aos c q o,
    hr_ok (F, dest, max, n, run max n prev0 rs, retry, aos) o = true ->
    next_state (o_type (run max n prev0 rs)) = Selecting -> hr_cons F dest aos = Some c ->
    NoDup (map fst (c_off c)) -> (forall k m, alookup k (c_on c) = Some m -> u64 m) -> (1 <= n)%N ->
    let o' := run max n prev0 (rs ++ [(q, Some c)]) in
    o_ranges o = o_ranges o' /\ o_off o = o_off o' /\ o_type o = o_type o' /\ o_roots o = o_roots o' /\
    o_attempts o = o_attempts o' /\ o_sigs o = o_sigs o'.
  Proof.
    intros F dest max n prev0 rs retry aos c q o H HS HC ND Hu Hn. cbn zeta.
    destruct (hr_sound_selecting _ _ _ _ _ _ _ _ _ H HS HC ND Hu Hn) as [A [B [C [D E]]]].
    destruct (hist_selection_exact max n prev0 rs q c HS) as [A' [B' [C' [D' E']]]].
    rewrite <- A' in A. inversion A. repeat split; congruence.
  Qed.

  (* no consensus in a selecting round: nothing is selected *)
  Lemma hr_sound_selecting_nocons : forall F dest max n prev retry aos o,
    hr_ok (F, dest, max, n, prev, retry, aos) o = true ->
    next_state (o_type prev) = Selecting -> hr_cons F dest aos = None -> o_ranges o = [].
  Proof.
    intros F dest max n prev retry aos o H HS HC. unfold hr_ok in H. rewrite HS, HC in H. now apply js_is_nil.
  Qed.

  (* ---------- (b) building and waiting rounds ---------- *)

  (* a retry reproduces the previous outcome (CommitSMP.retry_identity; "retry rounds keep them unchanged" of
     C02_hist_ranges_provenance) *)
  Lemma hr_sound_retry : forall F dest max n prev aos o,
    hr_ok (F, dest, max, n, prev, true, aos) o = true ->
    next_state (o_type prev) = Building -> o = prev.
  Proof.
    intros F dest max n prev aos o H HS. unfold hr_ok in H. rewrite HS in H. now apply js_outcome_eqb_eq.
  Qed.

  (* a building round selects nothing and reports only roots agreed in THIS round, no chain twice *)
  Lemma hr_sound_building : forall F dest max n prev aos o,
    hr_ok (F, dest, max, n, prev, false, aos) o = true ->
    next_state (o_type prev) = Building ->
    o_ranges o = [] /\
    match hr_cons F dest aos with
    | None => o_roots o = []
    | Some c => (forall r, In r (o_roots o) -> In r (c_roots c)) /\ NoDup (map root_chain (o_roots o))
    end.
  Proof.
    intros F dest max n prev aos o H HS. unfold hr_ok in H. rewrite HS in H.
    apply andb_true_iff in H. destruct H as [A B]. apply js_is_nil in A. split; [exact A|].
    destruct (hr_cons F dest aos) as [c|]; [|now apply js_is_nil].
    apply andb_true_iff in B. destruct B as [B C]. apply js_nodupb_NoDup in C. split; [|exact C].
    intros r HI. rewrite forallb_forall in B. specialize (B _ HI). apply existsb_exists in B.
    destruct B as [r' [HI' E]]. apply js_root_eqb_eq in E. now subst.
  Qed.

  Lemma hr_sound_waiting : forall F dest max n prev retry aos o,
    hr_ok (F, dest, max, n, prev, retry, aos) o = true ->
    next_state (o_type prev) = Waiting -> o_ranges o = [] /\ o_roots o = [].
  Proof.
    intros F dest max n prev retry aos o H HS. unfold hr_ok in H. rewrite HS in H.
    apply andb_true_iff in H. destruct H as [A B]. now rewrite !js_is_nil in *.
  Qed.

  (* the clauses of the other rounds in one statement *)
  Lemma hr_sound_other_rounds : forall F dest max n prev retry aos o,
    hr_ok (F, dest, max, n, prev, retry, aos) o = true ->
    (next_state (o_type prev) = Selecting -> hr_cons F dest aos = None -> o_ranges o = []) /\
    (next_state (o_type prev) = Building -> retry = true -> o = prev) /\
    (next_state (o_type prev) = Building -> retry = false ->
       o_ranges o = [] /\
       match hr_cons F dest aos with
       | None => o_roots o = []
       | Some c => (forall r, In r (o_roots o) -> In r (c_roots c)) /\ NoDup (map root_chain (o_roots o))
       end) /\
    (next_state (o_type prev) = Waiting -> o_ranges o = [] /\ o_roots o = []).
  Proof.
    intros F dest max n prev retry aos o H. split; [|split; [|split]].
    - exact (hr_sound_selecting_nocons _ _ _ _ _ _ _ _ H).
    - intros HS ->. exact (hr_sound_retry _ _ _ _ _ _ _ H HS).
    - intros HS ->. exact (hr_sound_building _ _ _ _ _ _ _ H HS).
    - exact (hr_sound_waiting _ _ _ _ _ _ _ _ H).
  Qed.

  (* ---------- (a) ---------- *)
  Lemma js_finish_report prev roots sigs :
    o_ranges (finish_report prev roots sigs) = [] /\ o_roots (finish_report prev roots sigs) = roots.
  Proof. destruct roots; cbn; split; reflexivity. Qed.

  Lemma js_check_transmission max prev c :
    o_ranges (check_transmission max prev c) = [] /\ o_roots (check_transmission max prev c) = [].
  Proof.
    unfold check_transmission. destruct (off_updated _ _); [cbn; now split|].
    destruct (N.leb _ _); cbn; now split.
  Qed.

  (* premises, all on THIS round's agreed maps (the consensus model's result): off-ramp keys unique, on-ramp values
     uint64 (needed in selecting rounds with n >= 1 only), agreed roots one per chain (needed in building rounds only) *)
  Lemma hr_model_passes : forall i : hr_in,
    let '(F, dest, max, n, prev, retry, aos) := i in
    (forall c, hr_cons F dest aos = Some c ->
       NoDup (map fst (c_off c)) /\ (forall k m, alookup k (c_on c) = Some m -> u64 m) /\
       NoDup (map root_chain (c_roots c))) ->
    hr_ok i (hr_model i) = true.
  Proof.
    intros [[[[[[F dest] max] n] prev] retry] aos] Hp. unfold hr_ok, hr_model, get_outcome, get_outcome_with.
    destruct (next_state (o_type prev)) eqn:HS; cbn [state_eqb andb].
    - destruct (hr_cons F dest aos) as [c|] eqn:HC; [|reflexivity].
      destruct (Hp c eq_refl) as [ND [Hu _]].
      pose proof (rng_model_passes (c_on c, c_off c, n) ND Hu) as R. unfold rng_model in R.
      unfold select_outcome_with. fold report_ranges.
      destruct (report_ranges (c_on c) (c_off c) n) as [rs os]. cbn [o_type o_ranges o_off o_roots o_attempts o_sigs].
      rewrite R. reflexivity.
    - destruct retry; cbn [q_retry]; [apply js_outcome_eqb_refl|].
      destruct (hr_cons F dest aos) as [c|] eqn:HC; [|reflexivity].
      destruct (Hp c eq_refl) as [_ [_ NR]].
      unfold build_report. cbn [q_sigs].
      destruct (js_finish_report prev (sort_by root_le (c_roots c)) []) as [A B]. rewrite A, B. cbn [andb].
      apply andb_true_iff. split.
      + apply forallb_forall. intros r HI. apply sort_by_in in HI. apply existsb_exists. exists r.
        split; [exact HI|apply js_root_eqb_refl].
      + apply js_nodupb_NoDup. eapply Permutation_NoDup; [|exact NR].
        apply Permutation_map. symmetry. apply sort_by_perm.
    - destruct (hr_cons F dest aos) as [c|] eqn:HC; [|reflexivity].
      destruct (js_check_transmission max prev c) as [A B]. now rewrite A, B.
  Qed.

  (* ---------- the clause hr_ok did not evaluate before (FIXED in Check/C02_check.v) ---------- *)
  Definition hr_ok_before (i : hr_in) (o : hr_out) : bool :=
    let '(F, dest, max, n, prev, retry, aos) := i in
    match CommitSM.next_state (CommitSM.o_type prev) with
    | CommitSM.Selecting =>
        match hr_cons F dest aos with
        | None => match CommitSM.o_ranges o with [] => true | _ => false end
        | Some c =>
            Z.eqb (CommitSM.o_type o) CommitSM.T_selected &&
            rng_ok (CommitSM.c_on c, CommitSM.c_off c, n) (CommitSM.o_ranges o, CommitSM.o_off o) &&
            match CommitSM.o_roots o with [] => true | _ => false end
        end
    | CommitSM.Building =>
        if retry then C03_check.outcome_eqb o prev
        else match CommitSM.o_ranges o with [] => true | _ => false end &&
             match hr_cons F dest aos with
             | None => match CommitSM.o_roots o with [] => true | _ => false end
             | Some c => forallb (fun r => existsb (CommitSM.root_eqb r) (CommitSM.c_roots c)) (CommitSM.o_roots o) &&
                         nodupb N.eqb (map CommitSM.root_chain (CommitSM.o_roots o))
             end
    | CommitSM.Waiting =>
        match CommitSM.o_ranges o with [] => true | _ => false end &&
        match CommitSM.o_roots o with [] => true | _ => false end
    end.

  (* 7 oracles, F = 2, destination 9: the agreed maps are on = [(1,20)], off = [(1,10)] (CommitConsensusP.ex_consensus) *)
  Definition ex_hr_in : hr_in :=
    (2%Z, 9%N, 3%N, 256%N, empty_outcome, false, CommitConsensusP.ex_aos).
  Definition ex_hr_good : outcome := mkOutcome T_selected [(1, (10, 20))]%N [] [(1, 10)]%N 0 [] cfg_empty.
  Definition ex_hr_stale : outcome := mkOutcome T_selected [(1, (10, 20))]%N [] [(1, 10)]%N 2 [77%N] cfg_empty.

  (* a selected outcome with the right intervals but a stale attempt counter and stale signatures passed, although
     C02_hist_selection_exact says both are reset *)
  Example hr_ok_before_unsound :
    hr_ok_before ex_hr_in ex_hr_stale = true /\
    ~ (o_attempts ex_hr_stale = 0%N /\ o_sigs ex_hr_stale = []) /\
    hr_ok ex_hr_in ex_hr_stale = false.
  Proof. split; [vm_compute; reflexivity|]. split; [intros [H _]; vm_compute in H; discriminate|vm_compute; reflexivity]. Qed.

  Example hr_ok_nonvacuous :
    hr_ok ex_hr_in ex_hr_good = true /\ hr_model ex_hr_in = ex_hr_good /\
    (* start moved off this round's agreed cursor: rejected *)
    hr_ok ex_hr_in (mkOutcome T_selected [(1, (11, 20))]%N [] [(1, 10)]%N 0 [] cfg_empty) = false.
  Proof. vm_compute. repeat split. Qed.
End Hist.

(* ====================================================================================================
   sink C02_hobs — ho_judge / ho_ok  (Props: C02_hist_observation_roots; the sequence-number and fChain clauses
   restate the observer model Model/C02Hist.v, no Props theorem speaks about them)
   ==================================================================================================== *)
Require Verif.Model.Consensus Verif.Proofs.ConsensusP.

Section HObs.

  Lemma js_state_eqb a b : state_eqb a b = true <-> a = b.
  Proof. destruct a, b; cbn; split; congruence. Qed.

  Lemma js_in_opt k l : in_opt k l = true <-> exists x, l = Some x /\ In k x.
  Proof.
    unfold in_opt. destruct l as [x|].
    - rewrite memN_In. split; [intros H; now exists x|intros [y [E H]]; now inversion E].
    - split; [discriminate|intros [y [E _]]; discriminate].
  Qed.

  Lemma js_zc_eqb_eq a b : zc_eqb a b = true -> a = b.
  Proof.
    destruct a as [a1 a2], b as [b1 b2]. unfold zc_eqb, pair_eqb. cbn [fst snd]. intros H.
    apply andb_true_iff in H. destruct H as [H1 H2]. apply N.eqb_eq in H1. apply Z.eqb_eq in H2. now subst.
  Qed.
  Lemma js_zc_eqb_refl a : zc_eqb a a = true.
  Proof. destruct a as [a1 a2]. unfold zc_eqb, pair_eqb. cbn [fst snd]. now rewrite N.eqb_refl, Z.eqb_refl. Qed.

  Definition ho_cursor (cur : list (N * N)) (k : N) : N := match alookup k cur with Some v => v | None => 0%N end.

  (* ho_ok, clause by clause, as Props *)
  Lemma ho_ok_unfold t ranges retry sup known sd curse mode cur ex ans addrs zero tbl fch roots on off f :
    ho_ok (t, ranges, retry, (sup, known, sd, curse), (mode, cur), ex, (ans, addrs, zero, tbl), fch) (roots, on, off, f) = true <->
    (roots_ok (sup, (if state_eqb (next_state t) Building && negb retry then ranges else []), ans, addrs, zero, tbl) roots = true /\
     NoDup (map fst off) /\ NoDup (map fst on) /\
     (forall k v, In (k, v) off ->
        next_state t <> Building /\ sd = Some true /\ (exists kn, known = Some kn /\ In k kn) /\
        (exists cursed, curse = Some (false, cursed) /\ ~ In k cursed) /\
        mode = 0%N /\ v = ho_cursor cur k) /\
     (forall k v, In (k, v) on ->
        next_state t = Selecting /\ (exists kn, known = Some kn /\ In k kn) /\ (exists su, sup = Some su /\ In k su) /\
        exists w, ho_expected ex k = Some w /\ w <> 0%N /\ v = (w - 1)%N) /\
     (if state_eqb (next_state t) Building && retry then f = [] else f = observe_fchain fch)).
  Proof.
    unfold ho_ok. cbv zeta. rewrite !andb_true_iff, !forallb_forall, !js_nodupb_NoDup.
    assert (Hoff : forall p : N * N,
      (negb (state_eqb (next_state t) Building) && match sd with Some true => true | _ => false end &&
       in_opt (fst p) known &&
       match curse with Some (blocked, cursed) => negb blocked && negb (memN (fst p) cursed) | None => false end &&
       (if N.eqb mode 0 then N.eqb (snd p) (match alookup (fst p) cur with Some v => v | None => 0%N end) else false)) = true <->
      (next_state t <> Building /\ sd = Some true /\ (exists kn, known = Some kn /\ In (fst p) kn) /\
       (exists cursed, curse = Some (false, cursed) /\ ~ In (fst p) cursed) /\
       mode = 0%N /\ snd p = ho_cursor cur (fst p))).
    { intros p. rewrite !andb_true_iff, negb_true_iff, js_in_opt. unfold ho_cursor.
      assert (A : state_eqb (next_state t) Building = false <-> next_state t <> Building).
      { rewrite <- js_state_eqb. destruct (state_eqb _ _); split; congruence. }
      assert (B : match sd with Some true => true | _ => false end = true <-> sd = Some true).
      { destruct sd as [[|]|]; split; congruence. }
      assert (C : match curse with Some (blocked, cursed) => negb blocked && negb (memN (fst p) cursed) | None => false end = true
                  <-> exists cursed, curse = Some (false, cursed) /\ ~ In (fst p) cursed).
      { destruct curse as [[blocked cursed]|].
        - rewrite andb_true_iff, !negb_true_iff, js_memN_false. split.
          + intros [-> H]. now exists cursed.
          + intros [c [E H]]. inversion E; subst. now split.
        - split; [discriminate|intros [c [E _]]; discriminate]. }
      assert (D : (if N.eqb mode 0 then N.eqb (snd p) (match alookup (fst p) cur with Some v => v | None => 0%N end) else false) = true
                  <-> mode = 0%N /\ snd p = match alookup (fst p) cur with Some v => v | None => 0%N end).
      { destruct (N.eqb_spec mode 0) as [->|Hne].
        - rewrite N.eqb_eq. tauto.
        - split; [discriminate|tauto]. }
      rewrite A, B, C, D. tauto. }
    assert (Hon : forall p : N * N,
      (state_eqb (next_state t) Selecting && in_opt (fst p) known && in_opt (fst p) sup &&
       match ho_expected ex (fst p) with Some v => negb (N.eqb v 0) && N.eqb (snd p) (v - 1) | None => false end) = true <->
      (next_state t = Selecting /\ (exists kn, known = Some kn /\ In (fst p) kn) /\ (exists su, sup = Some su /\ In (fst p) su) /\
       exists w, ho_expected ex (fst p) = Some w /\ w <> 0%N /\ snd p = (w - 1)%N)).
    { intros p. rewrite !andb_true_iff, js_state_eqb, !js_in_opt.
      assert (C : match ho_expected ex (fst p) with Some v => negb (N.eqb v 0) && N.eqb (snd p) (v - 1) | None => false end = true
                  <-> exists w, ho_expected ex (fst p) = Some w /\ w <> 0%N /\ snd p = (w - 1)%N).
      { destruct (ho_expected ex (fst p)) as [w|].
        - rewrite andb_true_iff, negb_true_iff, N.eqb_neq, N.eqb_eq. split.
          + intros [H1 H2]. now exists w.
          + intros [w' [E H]]. now inversion E; subst.
        - split; [discriminate|intros [w' [E _]]; discriminate]. }
      rewrite C. tauto. }
    assert (Hf : (if state_eqb (next_state t) Building && retry then match f with [] => true | _ => false end
                  else list_eqb zc_eqb f (observe_fchain fch)) = true <->
                 (if state_eqb (next_state t) Building && retry then f = [] else f = observe_fchain fch)).
    { destruct (state_eqb (next_state t) Building && retry); [apply js_is_nil|]. split.
      - apply js_list_eqb_eq. exact js_zc_eqb_eq.
      - intros ->. apply js_list_eqb_refl. exact js_zc_eqb_refl. }
    rewrite Hf. split.
    - intros [[[[[R N1] N2] O1] O2] G]. split; [exact R|]. split; [exact N1|]. split; [exact N2|].
      split; [|split; [|exact G]].
      + intros k v HI. exact (proj1 (Hoff (k, v)) (O1 _ HI)).
      + intros k v HI. exact (proj1 (Hon (k, v)) (O2 _ HI)).
    - intros [R [N1 [N2 [O1 [O2 G]]]]]. repeat split; try assumption.
      + intros [k v] HI. exact (proj2 (Hoff (k, v)) (O1 _ _ HI)).
      + intros [k v] HI. exact (proj2 (Hon (k, v)) (O2 _ _ HI)).
  Qed.

  (* (b) roots: the conclusion of C02_hist_observation_roots (prev = the outcome handed in, o_type prev = t,
     o_ranges prev = ranges) for an arbitrary observation that passes, plus the source-chain clause *)
  Lemma ho_sound_roots : forall t ranges retry sup known sd curse mode cur ex ans addrs zero tbl fch roots on off f k s e a r,
    ho_ok (t, ranges, retry, (sup, known, sd, curse), (mode, cur), ex, (ans, addrs, zero, tbl), fch) (roots, on, off, f) = true ->
    In (k, (s, e), a, r) roots ->
    next_state (o_type (ho_prev t ranges)) = Building /\ retry = false /\
    exists su ms hs,
      sup = Some su /\ In k su /\ In (k, (s, e)) (o_ranges (ho_prev t ranges)) /\
      reader_of ans k (s, e) = Some ms /\ alookup k addrs = Some a /\
      complete_read ms s e hs /\ mroot (tbl_h tbl) zero hs = Some r /\
      Forall (fun m => m_src m = k) ms.
  Proof.
    intros t ranges retry sup known sd curse mode cur ex ans addrs zero tbl fch roots on off f k s e a r H HI.
    apply ho_ok_unfold in H. destruct H as [R _]. cbn [ho_prev o_type o_ranges].
    destruct (roots_sound _ _ R) as [Hc _]. destruct (Hc _ _ _ _ _ HI) as [su [ms [hs [E [H1 [H2 Rest]]]]]].
    destruct (state_eqb (next_state t) Building) eqn:SB; cbn [andb] in H2; [|contradiction].
    destruct retry; cbn [negb] in H2; [contradiction|].
    apply js_state_eqb in SB. split; [exact SB|]. split; [reflexivity|].
    exists su, ms, hs. split; [exact E|]. split; [exact H1|]. split; [exact H2|]. exact Rest.
  Qed.

  (* (b) sequence numbers and fChain: what an observation that passes carries (the clauses of ho_ok as Props) *)
  Lemma ho_sound_seqnums : forall t ranges retry sup known sd curse mode cur ex ans addrs zero tbl fch roots on off f,
    ho_ok (t, ranges, retry, (sup, known, sd, curse), (mode, cur), ex, (ans, addrs, zero, tbl), fch) (roots, on, off, f) = true ->
    NoDup (map fst off) /\ NoDup (map fst on) /\
    (forall k v, In (k, v) off ->
       next_state t <> Building /\ sd = Some true /\ (exists kn, known = Some kn /\ In k kn) /\
       (exists cursed, curse = Some (false, cursed) /\ ~ In k cursed) /\
       mode = 0%N /\ v = ho_cursor cur k) /\
    (forall k v, In (k, v) on ->
       next_state t = Selecting /\ (exists kn, known = Some kn /\ In k kn) /\ (exists su, sup = Some su /\ In k su) /\
       exists w, ho_expected ex k = Some w /\ w <> 0%N /\ v = (w - 1)%N) /\
    (if state_eqb (next_state t) Building && retry then f = [] else f = observe_fchain fch).
  Proof.
    intros t ranges retry sup known sd curse mode cur ex ans addrs zero tbl fch roots on off f H.
    apply ho_ok_unfold in H. tauto.
  Qed.

  (* ---------- (a) ---------- *)
  Lemma js_combine_map {A B} (g : A -> B) l : combine l (map g l) = map (fun x => (x, g x)) l.
  Proof. induction l as [|x l IH]; cbn [combine map]; [reflexivity|now rewrite IH]. Qed.

  Lemma js_removelast_length {A} (l : list A) : l <> [] -> S (length (removelast l)) = length l.
  Proof.
    induction l as [|x l IH]; [congruence|]. intros _. destruct l as [|y l]; [reflexivity|].
    change (removelast (x :: y :: l)) with (x :: removelast (y :: l)). cbn [length]. f_equal. apply IH. discriminate.
  Qed.

  (* the off-ramp observation of the model: empty, or (mode 0) the cursor of every known, non-cursed chain *)
  Lemma js_observe_offramp sd known curse mode cur : (mode <= 3)%N ->
    observe_offramp sd known curse (ho_next mode cur) = [] \/
    exists kn cursed, sd = Some true /\ known = Some kn /\ curse = Some (false, cursed) /\ mode = 0%N /\
      observe_offramp sd known curse (ho_next mode cur) =
      map (fun k => (k, ho_cursor cur k)) (sortN (filter (fun k => negb (memN k cursed)) kn)).
  Proof.
    intros Hm. unfold observe_offramp. destruct sd as [[|]|]; try (left; reflexivity).
    destruct known as [kn|]; [|left; reflexivity]. destruct curse as [[blocked cursed]|]; [|left; reflexivity].
    destruct blocked; [left; reflexivity|].
    set (src := sortN (filter (fun k => negb (memN k cursed)) kn)).
    destruct src as [|x src'] eqn:ES; [left; reflexivity|]. rewrite <- ES.
    assert (Hne : src <> []) by (rewrite ES; discriminate).
    unfold ho_next. fold (ho_cursor cur).
    destruct (N.eqb_spec mode 1); [left; reflexivity|].
    destruct (N.eqb_spec mode 2).
    { left. assert (L : length (removelast (map (ho_cursor cur) src)) <> length src).
      { pose proof (js_removelast_length (map (ho_cursor cur) src)) as X. rewrite map_length in X.
        assert (map (ho_cursor cur) src <> []) by (rewrite ES; discriminate). specialize (X H). lia. }
      apply Nat.eqb_neq in L. rewrite L. reflexivity. }
    destruct (N.eqb_spec mode 3).
    { left. rewrite app_length, map_length. cbn [length].
      destruct (Nat.eqb_spec (length src + 1) (length src)); [lia|reflexivity]. }
    right. exists kn, cursed. assert (mode = 0%N) by lia. repeat (split; [reflexivity || assumption|]).
    rewrite map_length, Nat.eqb_refl. apply js_combine_map.
  Qed.

  Lemma js_observe_onramp known sup expected :
    observe_onramp known sup expected = [] \/
    exists kn su, known = Some kn /\ sup = Some su /\
      let src := sortN (Consensus.dedup N.eqb (filter (fun k => memN k su) kn)) in
      (forall k, In k src -> exists v, expected k = Some v /\ v <> 0%N) /\
      observe_onramp known sup expected = map (fun k => (k, match expected k with Some v => sub64 v 1 | None => 0%N end)) src.
  Proof.
    unfold observe_onramp. destruct known as [kn|]; [|left; reflexivity]. destruct sup as [su|]; [|left; reflexivity].
    destruct (forallb _ _) eqn:FA; [|left; reflexivity].
    right. exists kn, su. split; [reflexivity|]. split; [reflexivity|]. cbv zeta. split; [|reflexivity].
    intros k HI. rewrite forallb_forall in FA. specialize (FA _ HI).
    destruct (expected k) as [v|]; [|discriminate]. exists v. split; [reflexivity|].
    apply negb_true_iff in FA. now apply N.eqb_neq.
  Qed.

  (* premises: interval ends and expected-next answers are uint64 (Go types); the known-chain list has no chain twice
     (a Go set turned into a slice); the off-ramp reader script is one of the four modes; outside class F01b *)
  Lemma ho_model_passes : forall i : ho_in,
    let '(t, ranges, retry, (sup, known, sd, curse), (mode, cur), ex, (ans, addrs, zero, tbl), fch) := i in
    (forall k s e, In (k, (s, e)) ranges -> u64 e) ->
    (forall k w, ho_expected ex k = Some w -> u64 w) ->
    (forall kn, known = Some kn -> NoDup kn) ->
    (mode <= 3)%N ->
    ho_known i = 0%N ->
    ho_ok i (ho_model i) = true.
  Proof.
    intros [[[[[[[t ranges] retry] [[[sup known] sd] curse]] [mode cur]] ex] [[[ans addrs] zero] tbl]] fch].
    intros Hu Hw Hkn Hm Hk. unfold ho_model.
    set (ob := get_observation _ _ _ _ _ _ _ _ _ _ _ _ _).
    apply ho_ok_unfold.
    assert (Eroots : ob_roots ob =
              if state_eqb (next_state t) Building && negb retry
              then observe_roots (tbl_h tbl) zero sup ranges (reader_of ans) (fun k => alookup k addrs) else []).
    { unfold ob, get_observation. cbn [ho_prev o_type o_ranges].
      destruct (next_state t); cbn [state_eqb andb ob_roots]; try reflexivity. destruct retry; reflexivity. }
    assert (Eoff : ob_off ob = if state_eqb (next_state t) Building then []
                               else observe_offramp sd known curse (ho_next mode cur)).
    { unfold ob, get_observation. cbn [ho_prev o_type o_ranges].
      destruct (next_state t); cbn [state_eqb ob_off]; try reflexivity. destruct retry; reflexivity. }
    assert (Eon : ob_on ob = if state_eqb (next_state t) Selecting then observe_onramp known sup (ho_expected ex) else []).
    { unfold ob, get_observation. cbn [ho_prev o_type o_ranges].
      destruct (next_state t); cbn [state_eqb ob_on]; try reflexivity. destruct retry; reflexivity. }
    assert (Ef : ob_fchain ob = if state_eqb (next_state t) Building && retry then [] else observe_fchain fch).
    { unfold ob, get_observation. cbn [ho_prev o_type o_ranges].
      destruct (next_state t); cbn [state_eqb andb ob_fchain]; try reflexivity. destruct retry; reflexivity. }
    split; [|split; [|split; [|split; [|split]]]].
    - rewrite Eroots. destruct (state_eqb (next_state t) Building && negb retry).
      + exact (roots_model_passes (sup, ranges, ans, addrs, zero, tbl) Hu Hk).
      + reflexivity.
    - rewrite Eoff. destruct (state_eqb (next_state t) Building); [constructor|].
      destruct (js_observe_offramp sd known curse mode cur Hm) as [->|[kn [cursed [_ [E [_ [_ ->]]]]]]]; [constructor|].
      rewrite map_map. cbn [fst]. rewrite map_id.
      eapply Permutation_NoDup; [symmetry; apply sortN_perm_self|]. apply NoDup_filter. now apply Hkn.
    - rewrite Eon. destruct (state_eqb (next_state t) Selecting); [|constructor].
      destruct (js_observe_onramp known sup (ho_expected ex)) as [->|[kn [su [_ [_ [_ ->]]]]]]; [constructor|].
      rewrite map_map. cbn [fst]. rewrite map_id.
      eapply Permutation_NoDup; [symmetry; apply sortN_perm_self|]. apply (ConsensusP.dedup_nodup N.eqb N.eqb_spec).
    - intros k v HI. rewrite Eoff in HI.
      destruct (state_eqb (next_state t) Building) eqn:SB; [contradiction|].
      destruct (js_observe_offramp sd known curse mode cur Hm) as [E|[kn [cursed [E1 [E2 [E3 [E4 E]]]]]]];
        rewrite E in HI; [contradiction|].
      apply in_map_iff in HI. destruct HI as [k' [X HI]]. inversion X; subst k' v.
      apply (Permutation_in _ (sortN_perm_self _)) in HI. apply filter_In in HI. destruct HI as [HI NC].
      apply negb_true_iff, js_memN_false in NC.
      split; [intros Y; apply js_state_eqb in Y; congruence|]. split; [exact E1|].
      split; [now exists kn|]. split; [now exists cursed|]. split; [exact E4|reflexivity].
    - intros k v HI. rewrite Eon in HI.
      destruct (state_eqb (next_state t) Selecting) eqn:SS; [|contradiction]. apply js_state_eqb in SS.
      destruct (js_observe_onramp known sup (ho_expected ex)) as [E|[kn [su [E1 [E2 [Hv E]]]]]];
        rewrite E in HI; [contradiction|].
      apply in_map_iff in HI. destruct HI as [k' [X HI]]. inversion X; subst k'. clear X.
      destruct (Hv _ HI) as [w [Ew Hw0]].
      apply (Permutation_in _ (sortN_perm_self _)) in HI.
      apply (proj1 (ConsensusP.dedup_in N.eqb N.eqb_spec k _)) in HI. apply filter_In in HI. destruct HI as [HI HS].
      apply memN_In in HS.
      split; [exact SS|]. split; [now exists kn|]. split; [now exists su|].
      exists w. split; [exact Ew|]. split; [exact Hw0|]. rewrite Ew.
      apply sub64_small; [lia|]. exact (Hw _ _ Ew).
    - rewrite Ef. destruct (state_eqb (next_state t) Building && retry); reflexivity.
  Qed.

  Example ho_ok_nonvacuous :
    let tbl := [((31, 32), 100); ((33, 999), 101); ((100, 101), 102)]%N in
    let msgs := [(7%N, Some [(12, 7, Some 33); (10, 7, Some 31); (11, 7, Some 32)]%N)] in
    let env : ho_env := (Some [7%N], Some [7; 8]%N, Some true, Some (false, [8%N])) in
    (* building round: one root for the recorded interval *)
    let ib : ho_in := (1%Z, [(7, (10, 12))]%N, false, env, (0%N, [(7, 10)]%N), [(7%N, Some 21%N)], (msgs, [(7, 5)]%N, 999%N, tbl), Some [(7%N, 1%Z)]) in
    (* selecting round: on-ramp latest of the supported chain, off-ramp next of the non-cursed chain *)
    let is : ho_in := (3%Z, [], false, env, (0%N, [(7, 10)]%N), [(7%N, Some 21%N)], (msgs, [(7, 5)]%N, 999%N, tbl), Some [(7%N, 1%Z)]) in
    ho_ok ib ([(7, (10, 12), 5, 102)]%N, [], [], [(7%N, 1%Z)]) = true /\
    ho_model ib = ([(7, (10, 12), 5, 102)]%N, [], [], [(7%N, 1%Z)]) /\
    ho_ok is ([], [(7, 20)]%N, [(7, 10)]%N, [(7%N, 1%Z)]) = true /\
    ho_model is = ([], [(7, 20)]%N, [(7, 10)]%N, [(7%N, 1%Z)]) /\
    (* a root in a selecting round, a stale cursor: rejected *)
    ho_ok is ([(7, (10, 12), 5, 102)]%N, [(7, 20)]%N, [(7, 10)]%N, [(7%N, 1%Z)]) = false /\
    ho_ok is ([], [(7, 20)]%N, [(7, 9)]%N, [(7%N, 1%Z)]) = false.
  Proof. vm_compute. repeat split. Qed.
End HObs.

(* ConsensusP.v — counting lemmas behind every "at least t distinct oracles reported exactly this" theorem. *)
Require Import Verif.Model.Base Verif.Proofs.BaseP Verif.Model.Consensus.
From Coq Require Import ZifyN ZifyNat ZifyBool.

Section MinObsP.
  Context {T : Type}.
  Variable eqb : T -> T -> bool.
  Hypothesis eqb_spec : forall x y, reflect (x = y) (eqb x y).

  Lemma eqb_refl x : eqb x x = true.
  Proof. destruct (eqb_spec x x); congruence. Qed.

  Lemma count_app x l1 l2 : count eqb x (l1 ++ l2) = (count eqb x l1 + count eqb x l2)%N.
  Proof. induction l1 as [|y l1 IH]; cbn [count app]; [reflexivity|]. rewrite IH. lia. Qed.

  Lemma count_pos_in x l : (0 < count eqb x l)%N <-> In x l.
  Proof.
    induction l as [|y l IH]; cbn [count In]; [lia|].
    destruct (eqb_spec x y) as [->|Hne].
    - split; [now left|lia].
    - rewrite N.add_0_l, IH. split; [now right|]. intros [H|H]; [congruence|exact H].
  Qed.

  Lemma count_perm x l l' : Permutation l l' -> count eqb x l = count eqb x l'.
  Proof.
    induction 1 as [|y l l' P IH|y z l|l l' l'' P1 IH1 P2 IH2]; cbn [count]; try lia; congruence.
  Qed.

  Lemma count_le_length x l : (count eqb x l <= N.of_nat (length l))%N.
  Proof. induction l as [|y l IH]; cbn [count length]; [lia|]. destruct (eqb x y); lia. Qed.

  Lemma dedup_in x l : In x (dedup eqb l) <-> In x l.
  Proof.
    induction l as [|y l IH]; cbn [dedup In]; [tauto|].
    rewrite filter_In, IH.
    destruct (eqb_spec y x) as [->|Hne]; cbn [negb]; [tauto|].
    split; [intros [H|[H _]]; tauto|]. intros [H|H]; [congruence|]. right. split; [exact H|reflexivity].
  Qed.

  Lemma dedup_nodup l : NoDup (dedup eqb l).
  Proof.
    induction l as [|y l IH]; cbn [dedup]; constructor.
    - rewrite filter_In. intros [_ H]. now rewrite eqb_refl in H.
    - now apply NoDup_filter.
  Qed.

  (* GetValid: exactly the distinct items seen at least [thr] times *)
  Theorem valid_spec thr items x :
    In x (valid eqb thr items) <-> In x items /\ (thr <= count eqb x items)%N.
  Proof. unfold valid. rewrite filter_In, dedup_in, N.leb_le. tauto. Qed.

  Theorem valid_nodup thr items : NoDup (valid eqb thr items).
  Proof. apply NoDup_filter, dedup_nodup. Qed.

  (* exactly one valid item <-> v reaches the threshold and nothing else does *)
  Theorem valid_single_iff thr items v :
    (0 < thr)%N ->
    (valid eqb thr items = [v] <->
     (thr <= count eqb v items)%N /\ forall x, (thr <= count eqb x items)%N -> x = v).
  Proof.
    intros Hthr. split.
    - intros E. split.
      + assert (H : In v (valid eqb thr items)) by (rewrite E; now left).
        now apply valid_spec in H.
      + intros x Hx. assert (H : In x (valid eqb thr items)).
        { apply valid_spec. split; [|exact Hx]. apply count_pos_in. lia. }
        rewrite E in H. destruct H as [H|[]]. now symmetry.
    - intros [Hv Huniq].
      pose proof (valid_nodup thr items) as ND.
      assert (Hin : In v (valid eqb thr items)).
      { apply valid_spec. split; [apply count_pos_in; lia|exact Hv]. }
      assert (Hall : forall x, In x (valid eqb thr items) -> x = v).
      { intros x Hx. apply valid_spec in Hx. now apply Huniq. }
      destruct (valid eqb thr items) as [|a [|b l]].
      + contradiction.
      + f_equal. apply Hall. now left.
      + exfalso. assert (a = v) by (apply Hall; now left). assert (b = v) by (apply Hall; right; now left).
        subst. inversion ND as [|? ? Hn _]. apply Hn. now left.
  Qed.

  (* validity does not depend on the order in which observations were added *)
  Theorem valid_perm thr items items' :
    Permutation items items' -> Permutation (valid eqb thr items) (valid eqb thr items').
  Proof.
    intros P. apply NoDup_Permutation; try apply valid_nodup.
    intros x. rewrite !valid_spec, (count_perm x _ _ P).
    split; intros [Hi Hc]; split; try exact Hc.
    - eapply Permutation_in; eauto.
    - eapply Permutation_in; [symmetry|]; eauto.
  Qed.

  Theorem valid_single_perm thr items items' v :
    (0 < thr)%N -> Permutation items items' -> valid eqb thr items = [v] -> valid eqb thr items' = [v].
  Proof.
    intros Hthr P E. apply valid_single_iff in E; [|exact Hthr]. apply valid_single_iff; [exact Hthr|].
    destruct E as [Hv Hu]. split.
    - now rewrite <- (count_perm v _ _ P).
    - intros x Hx. apply Hu. now rewrite (count_perm x _ _ P).
  Qed.

  (* ---------- attributed votes: (oracle, item) pairs ---------- *)
  Definition reporters (x : T) (votes : list (N * T)) : list N :=
    map fst (filter (fun v => eqb x (snd v)) votes).

  Lemma reporters_length x votes : N.of_nat (length (reporters x votes)) = count eqb x (map snd votes).
  Proof.
    unfold reporters. induction votes as [|[o y] votes IH]; cbn [filter map count snd length]; [reflexivity|].
    destruct (eqb x y); cbn [map length]; lia.
  Qed.

  Lemma reporters_in x votes o : In o (reporters x votes) <-> In (o, x) votes.
  Proof.
    unfold reporters. rewrite in_map_iff. split.
    - intros [[o' y] [Ho Hf]]. cbn in Ho. subst o'. apply filter_In in Hf. destruct Hf as [Hi He]. cbn in He.
      destruct (eqb_spec x y); [now subst|discriminate].
    - intros Hi. exists (o, x). split; [reflexivity|]. apply filter_In. split; [exact Hi|cbn; apply eqb_refl].
  Qed.

  (* one vote per oracle => the reporters of an item are distinct oracles *)
  Lemma reporters_nodup x votes : NoDup (map fst votes) -> NoDup (reporters x votes).
  Proof.
    unfold reporters. induction votes as [|[o y] votes IH]; cbn [map filter fst snd]; intros ND; [constructor|].
    inversion ND as [|? ? Hn ND']; subst.
    destruct (eqb x y); cbn [map fst]; [|now apply IH].
    constructor; [|now apply IH].
    intros Hi. apply Hn. apply in_map_iff in Hi. destruct Hi as [p [Hp Hf]]. apply filter_In in Hf.
    apply in_map_iff. exists p. tauto.
  Qed.

  (* THE counting theorem: an item valid at threshold thr was reported by >= thr distinct oracles *)
  Theorem valid_has_distinct_reporters thr (votes : list (N * T)) x :
    NoDup (map fst votes) ->
    In x (valid eqb thr (map snd votes)) ->
    exists rs, NoDup rs /\ (thr <= N.of_nat (length rs))%N /\ forall o, In o rs <-> In (o, x) votes.
  Proof.
    intros ND Hx. apply valid_spec in Hx. destruct Hx as [_ Hc].
    exists (reporters x votes). split; [now apply reporters_nodup|].
    split; [now rewrite reporters_length|]. intros o. apply reporters_in.
  Qed.
End MinObsP.

(* ---------- a set B of at most f oracles cannot account for a 2f+1 (resp. f+1) support ---------- *)
Lemma nodup_minus_length (l b : list N) :
  NoDup l -> NoDup b ->
  (length l <= length (filter (fun o => negb (memN o b)) l) + length b)%nat.
Proof.
  revert b. induction l as [|x l IH]; intros b NDl NDb; cbn [filter length]; [lia|].
  inversion NDl as [|? ? Hn NDl']; subst.
  destruct (memN x b) eqn:E; cbn [negb length].
  - apply memN_In in E. destruct (in_split _ _ E) as [b1 [b2 ->]].
    assert (NDb' : NoDup (b1 ++ b2)) by (eapply NoDup_remove_1; exact NDb).
    specialize (IH (b1 ++ b2) NDl' NDb').
    assert (Hf : filter (fun o => negb (memN o (b1 ++ x :: b2))) l = filter (fun o => negb (memN o (b1 ++ b2))) l).
    { apply filter_ext_in. intros o Ho. f_equal. apply eq_true_iff_eq. rewrite !memN_In, !in_app_iff. cbn [In].
      split; [intros [H|[H|H]]; try tauto; subst; contradiction| tauto]. }
    rewrite Hf. rewrite !app_length in *. cbn [length]. lia.
  - specialize (IH b NDl' NDb). lia.
Qed.

Theorem honest_reporters (rs b : list N) (thr f : nat) :
  NoDup rs -> NoDup b -> (thr <= length rs)%nat -> (length b <= f)%nat ->
  (thr - f <= length (filter (fun o => negb (memN o b)) rs))%nat.
Proof. intros NDr NDb Ht Hb. pose proof (nodup_minus_length rs b NDr NDb). lia. Qed.

Lemma two_f_plus_1_pos f : (0 < f)%Z -> (f < 2^62)%Z -> two_f_plus_1 f = Z.to_N (2 * f + 1).
Proof. intros H1 H2. unfold two_f_plus_1, to_uint. rewrite Z.mod_small; [reflexivity|lia]. Qed.

Lemma f_plus_1_pos f : (0 <= f)%Z -> (f < 2^62)%Z -> f_plus_1 f = Z.to_N (f + 1).
Proof. intros H1 H2. unfold f_plus_1, to_uint. rewrite Z.mod_small; [reflexivity|lia]. Qed.

(* PricesHistP.v — history-level theorems of C14: in every round of every history driven through ONE long-lived price
   processor, every price is derived from THAT round's observations; the previous outcome has no influence. *)
Require Import Verif.Model.Base Verif.Model.Consensus Verif.Model.CommitConsensus Verif.Model.Prices Verif.Model.PricesHist
               Verif.Proofs.CommitConsensusP Verif.Proofs.PricesP.

(* ---------- the generic runner ---------- *)
Section RunP.
  Context {C R O : Type}.
  Variable step : C -> prices -> R -> O.
  Variable next : O -> prices.

  Lemma run_hist_length cfg prev rds : length (run_hist step next cfg prev rds) = length rds.
  Proof. revert prev. induction rds as [|rd t IH]; intro prev; cbn [run_hist length]; [reflexivity|now rewrite IH]. Qed.

  (* round k of a history is one call of [step] on round k's input with SOME previous outcome *)
  Lemma run_hist_nth cfg prev rds k rd :
    nth_error rds k = Some rd ->
    exists p, nth_error (run_hist step next cfg prev rds) k = Some (step cfg p rd).
  Proof.
    revert prev k. induction rds as [|r0 t IH]; intros prev k Hk.
    - destruct k; discriminate Hk.
    - destruct k as [|k]; cbn [nth_error run_hist] in *.
      + injection Hk as ->. exists prev. reflexivity.
      + exact (IH _ _ Hk).
  Qed.

  (* a step that does not read the previous outcome: the whole history is the map of the rounds *)
  Lemma run_hist_memoryless cfg prev rds :
    (forall p q rd, step cfg p rd = step cfg q rd) ->
    run_hist step next cfg prev rds = map (step cfg []) rds.
  Proof.
    intro Hm. revert prev. induction rds as [|r0 t IH]; intro prev; cbn [run_hist map]; [reflexivity|].
    rewrite IH. f_equal. apply Hm.
  Qed.
End RunP.

(* ================= chain fee ================= *)
Lemma cf_step_prev cfg p q rd : cf_step cfg p rd = cf_step cfg q rd.
Proof. reflexivity. Qed.

Theorem cf_history_map cfg prev rds : cf_history cfg prev rds = map (cf_step cfg []) rds.
Proof. unfold cf_history. apply run_hist_memoryless. intros p q rd. apply cf_step_prev. Qed.

Theorem cf_history_prev_irrelevant cfg p1 p2 rds : cf_history cfg p1 rds = cf_history cfg p2 rds.
Proof. now rewrite !cf_history_map. Qed.

Theorem cf_history_round cfg prev rds k rd :
  nth_error rds k = Some rd ->
  nth_error (cf_history cfg prev rds) k = Some (cf_step cfg [] rd).
Proof. intro Hk. rewrite cf_history_map. now apply map_nth_error. Qed.

(* a price in the Outcome value of a round comes from an Ok result of that round *)
Lemma carried_in r (x : N * Z) : In x (carried r) -> r = Ok (carried r).
Proof. destruct r; cbn [carried]; intro H; try contradiction; reflexivity. Qed.

(* every gas price of every round of every history: derived from the medians of >= 2f+1 observations of THIS round and
   selected by the deviation / heartbeat rule evaluated on THIS round's agreed stored update and median time *)
Theorem cf_history_current cfg prev rds k rd vs r out c g :
  nth_error rds k = Some rd ->
  nth_error (cf_history cfg prev rds) k = Some (vs, r, out) ->
  In (c, g) out ->
  let aos := cf_accepted cfg rd in
  r = Ok out /\
  (exists f,
     alookup c (fchain_cons cf_fchain (cfc_F cfg) aos) = Some f /\
     let fcs := map snd (votes cf_feecomp aos c) in
     let nts := map snd (votes cf_native aos c) in
     (agg_thr (two_f_plus_1 f) <= N.of_nat (length fcs))%N /\
     (agg_thr (two_f_plus_1 f) <= N.of_nat (length nts))%N /\
     g = to_packed (usd_per_unit_gas (medianZ (map snd fcs)) (medianZ nts))
                   (usd_per_unit_gas (medianZ (map fst fcs)) (medianZ nts))) /\
  (exists cns, cf_consensus (cfc_F cfg) (cfc_dest cfg) aos = Ok cns /\
     exists ex da, In (c, (ex, da)) (cf_usd cns) /\ g = to_packed da ex /\
       (alookup c (cc_updates cns) = None \/
        exists uex uda uts, alookup c (cc_updates cns) = Some (uex, uda, uts) /\
          ((uts + cfc_freq cfg < cc_ts cns)%Z \/
           exists eppb dppb, alookup c (cfc_feeinfo cfg) = Some (eppb, dppb) /\
             (deviates ex uex eppb = true \/ deviates da uda dppb = true)))).
Proof.
  intros Hk Hn Hin aos.
  rewrite (cf_history_round cfg prev rds k rd Hk) in Hn. injection Hn as _ Hr Ho.
  subst r out. pose proof (carried_in _ _ Hin) as Hok.
  split; [exact Hok|].
  unfold cf_step_result in Hok, Hin. fold aos in Hok, Hin.
  split.
  - exact (gas_price_derivation _ _ _ _ _ _ _ _ Hok Hin).
  - destruct (selection_gas _ _ _ _ _ _ Hok) as [cns [Hc [Hiff _]]].
    exists cns. split; [exact Hc|]. apply Hiff. exact Hin.
Qed.

(* a round without consensus yields NO gas price, whatever the previous outcome carried *)
Theorem cf_history_no_consensus_no_price cfg prev rds k rd vs r out :
  nth_error rds k = Some rd ->
  nth_error (cf_history cfg prev rds) k = Some (vs, r, out) ->
  (cf_consensus (cfc_F cfg) (cfc_dest cfg) (cf_accepted cfg rd) = Err \/
   exists cns, cf_consensus (cfc_F cfg) (cfc_dest cfg) (cf_accepted cfg rd) = Ok cns /\ cc_feecomp cns = []) ->
  out = [].
Proof.
  intros Hk Hn Hc.
  rewrite (cf_history_round cfg prev rds k rd Hk) in Hn. injection Hn as _ Hr Ho.
  subst out. unfold cf_step_result, cf_outcome. destruct Hc as [Hc|[cns [Hc Hf]]]; rewrite Hc; [reflexivity|].
  rewrite Hf. reflexivity.
Qed.

(* the variant that hands the previous outcome back: a gas price of a chain with NO fee-component observation at all in
   its round (and no agreed f) is carried into that round's outcome *)
Definition ex_cf_cfg : cf_cfg := mkCfCfg 60 [(5%N, (1000000, 1000000)%Z)] 1 9%N.
Definition ex_roles : roles_t := [(5%N, [0%N; 1%N; 2%N; 3%N]); (9%N, [0%N; 1%N; 2%N; 3%N])].
Definition ex_cf_round1 : cf_round :=
  mkCfRound ex_roles [0%N; 1%N; 2%N; 3%N]
    (map (fun o => (o, mkCfRaw [(5%N, (Some 30000000000, Some 1000000)%Z)] [(5%N, Some 2000000000000000000000%Z)]
                               [] [(9%N, 1%Z); (5%N, 1%Z)] 100%Z))
         [0%N; 1%N; 2%N; 3%N]).
(* round 2: only the f values and the timestamps are observed *)
Definition ex_cf_round2 : cf_round :=
  mkCfRound ex_roles [0%N; 1%N; 2%N; 3%N]
    (map (fun o => (o, mkCfRaw [] [] [] [(9%N, 1%Z); (5%N, 1%Z)] 200%Z)) [0%N; 1%N; 2%N; 3%N]).
(* round 3: no consensus on the destination's f: the error exit *)
Definition ex_cf_round3 : cf_round :=
  mkCfRound ex_roles [0%N; 1%N; 2%N; 3%N]
    (map (fun o => (o, mkCfRaw [] [] [] [(5%N, 1%Z)] 300%Z)) [0%N; 1%N; 2%N; 3%N]).

Theorem cf_history_stale_refuted :
  exists cfg rds vs r out c g,
    nth_error (run_hist cf_step_stale ro_next cfg [] rds) 2 = Some (vs, r, out) /\
    In (c, g) out /\ r = Err /\
    (forall rd, nth_error rds 2 = Some rd -> votes cf_feecomp (cf_accepted cfg rd) c = []) /\
    nth_error (cf_history cfg [] rds) 2 = Some (vs, Err, []).
Proof.
  exists ex_cf_cfg, [ex_cf_round1; ex_cf_round2; ex_cf_round3].
  eexists. eexists. eexists. exists 5%N. eexists.
  split; [vm_compute; reflexivity|]. split; [now left|]. split; [reflexivity|]. split.
  - intros rd Hrd. injection Hrd as <-. vm_compute. reflexivity.
  - vm_compute. reflexivity.
Qed.

(* Example: the hypotheses of cf_history_current / cf_history_no_consensus_no_price are met by a concrete history whose
   first round reports a price and whose later rounds, given that price as previous outcome, report none *)
Example ex_cf_history :
  cf_history ex_cf_cfg [(7%N, 1%Z)] [ex_cf_round1; ex_cf_round2; ex_cf_round3]
  = [ ([true; true; true; true], Ok [(5%N, to_packed 2000000000 60000000000000)], [(5%N, to_packed 2000000000 60000000000000)]);
      ([true; true; true; true], Ok [], []);
      ([true; true; true; true], Err, []) ].
Proof. vm_compute. reflexivity. Qed.

(* ================= token prices ================= *)
Lemma tp_step_prev cfg p q rd : tp_step cfg p rd = tp_step cfg q rd.
Proof. reflexivity. Qed.

Theorem tp_history_map cfg prev rds : tp_history cfg prev rds = map (tp_step cfg []) rds.
Proof. unfold tp_history. apply run_hist_memoryless. intros p q rd. apply tp_step_prev. Qed.

Theorem tp_history_prev_irrelevant cfg p1 p2 rds : tp_history cfg p1 rds = tp_history cfg p2 rds.
Proof. now rewrite !tp_history_map. Qed.

Theorem tp_history_round cfg prev rds k rd :
  nth_error rds k = Some rd ->
  nth_error (tp_history cfg prev rds) k = Some (tp_step cfg [] rd).
Proof. intro Hk. rewrite tp_history_map. now apply map_nth_error. Qed.

Lemma tp_history_ok cfg prev rds k rd vs r out t p :
  nth_error rds k = Some rd ->
  nth_error (tp_history cfg prev rds) k = Some (vs, r, out) ->
  In (t, p) out ->
  r = Ok out /\
  tp_outcome (tpc_freq cfg) (tpc_tokeninfo cfg) (tpc_feedchain cfg) (tpc_F cfg) (tpc_dest cfg) (tp_accepted cfg rd) = Ok out.
Proof.
  intros Hk Hn Hin.
  rewrite (tp_history_round cfg prev rds k rd Hk) in Hn. injection Hn as _ Hr Ho.
  subst r out. pose proof (carried_in _ _ Hin) as Hok.
  split; exact Hok.
Qed.

(* every token price of every round of every history: the median of >= 2 f_feed + 1 feed prices observed in THIS round,
   selected by the rule evaluated on THIS round's agreed stored update and median time *)
Theorem tp_history_current cfg prev rds k rd vs r out t p :
  nth_error rds k = Some rd ->
  nth_error (tp_history cfg prev rds) k = Some (vs, r, out) ->
  In (t, p) out ->
  let aos := tp_accepted cfg rd in
  r = Ok out /\
  (exists ff,
     alookup (tpc_feedchain cfg) (fchain_cons tp_fchain (tpc_F cfg) aos) = Some ff /\
     let ps := map snd (votes tp_feed aos t) in
     (agg_thr (two_f_plus_1 ff) <= N.of_nat (length ps))%N /\ p = medianZ ps) /\
  (exists cns, tp_consensus (tpc_feedchain cfg) (tpc_F cfg) (tpc_dest cfg) aos = Ok cns /\
     In (t, p) (tc_feed cns) /\
     (alookup t (tc_updates cns) = None \/
      exists uts uval ppb, alookup t (tc_updates cns) = Some (uts, uval) /\ alookup t (tpc_tokeninfo cfg) = Some ppb /\
        ((uts + tpc_freq cfg < tc_ts cns)%Z \/ deviates p uval ppb = true))).
Proof.
  intros Hk Hn Hin aos.
  destruct (tp_history_ok _ _ _ _ _ _ _ _ _ _ Hk Hn Hin) as [Hr Hok]. fold aos in Hok.
  split; [exact Hr|]. split.
  - exact (token_price_derivation _ _ _ _ _ _ _ _ _ Hok Hin).
  - destruct (selection_token _ _ _ _ _ _ _ Hok) as [[_ He]|[_ [cns [Hc [Hiff _]]]]].
    + subst out. contradiction.
    + exists cns. split; [exact Hc|]. apply Hiff. exact Hin.
Qed.

(* ... hence between the smallest and largest honest observation of THIS round when at most f_feed of this round's
   observers of the token are faulty — in every round, after any number of earlier rounds, for any initial previous outcome *)
Theorem tp_history_robust cfg prev rds k rd vs r out t p ff hs bs lo hi :
  nth_error rds k = Some rd ->
  nth_error (tp_history cfg prev rds) k = Some (vs, r, out) ->
  In (t, p) out ->
  let aos := tp_accepted cfg rd in
  alookup (tpc_feedchain cfg) (fchain_cons tp_fchain (tpc_F cfg) aos) = Some ff -> (0 <= ff < 2 ^ 62)%Z ->
  Permutation (map snd (votes tp_feed aos t)) (hs ++ bs) -> (length bs <= Z.to_nat ff)%nat ->
  (forall h, In h hs -> lo <= h <= hi)%Z ->
  (lo <= p <= hi)%Z.
Proof.
  intros Hk Hn Hin aos Hff Hb Hperm Hbs Hh.
  destruct (tp_history_ok _ _ _ _ _ _ _ _ _ _ Hk Hn Hin) as [_ Hok]. fold aos in Hok.
  exact (token_price_robust _ _ _ _ _ _ _ _ _ _ _ _ _ _ Hok Hin Hff Hb Hperm Hbs Hh).
Qed.

Theorem tp_history_no_consensus_no_price cfg prev rds k rd vs r out :
  nth_error rds k = Some rd ->
  nth_error (tp_history cfg prev rds) k = Some (vs, r, out) ->
  tp_consensus (tpc_feedchain cfg) (tpc_F cfg) (tpc_dest cfg) (tp_accepted cfg rd) = Err ->
  out = [].
Proof.
  intros Hk Hn Hc.
  rewrite (tp_history_round cfg prev rds k rd Hk) in Hn. injection Hn as _ Hr Ho.
  subst out. unfold tp_step_result, tp_outcome. destruct (Z.eqb (tpc_freq cfg) 0); [reflexivity|]. rewrite Hc. reflexivity.
Qed.

Definition ex_tp_cfg : tp_cfg := mkTpCfg 60 [(17%N, 1000000%Z)] 5%N 1 9%N.
Definition ex_tp_round1 : tp_round :=
  mkTpRound ex_roles [0%N; 1%N; 2%N; 3%N]
    (map (fun o => (o, mkTpRaw [(17%N, Some (1000 + Z.of_N o)%Z)] [] [(9%N, 1%Z); (5%N, 1%Z)] 100%Z)) [0%N; 1%N; 2%N; 3%N]).
(* round 2: two oracles only observe the token (below 2 f_feed + 1 = 3) *)
Definition ex_tp_round2 : tp_round :=
  mkTpRound ex_roles [0%N; 1%N; 2%N; 3%N]
    (map (fun o => (o, mkTpRaw (if N.ltb o 2 then [(17%N, Some 5000%Z)] else []) [] [(9%N, 1%Z); (5%N, 1%Z)] 200%Z))
         [0%N; 1%N; 2%N; 3%N]).
Example ex_tp_history :
  tp_history ex_tp_cfg [(17%N, 1%Z)] [ex_tp_round1; ex_tp_round2]
  = [ ([true; true; true; true], Ok [(17%N, 1002%Z)], [(17%N, 1002%Z)]);
      ([true; true; true; true], Ok [], []) ].
Proof. vm_compute. reflexivity. Qed.

(* ================= plugin level: the price part of the outcome / report of round k ================= *)
Theorem pl_history_round cfg prev rds k rd :
  nth_error rds k = Some rd ->
  nth_error (pl_history cfg prev rds) k = Some (pl_step cfg ([], []) rd).
Proof.
  revert prev k. induction rds as [|r0 t IH]; intros prev k Hk.
  - destruct k; discriminate Hk.
  - destruct k as [|k]; cbn [nth_error pl_history] in *.
    + injection Hk as ->. reflexivity.
    + exact (IH _ _ Hk).
Qed.

(* the statements of Props/C14.v *)
Lemma history_prev_irrelevant : forall ccfg tcfg p1 p2 q1 q2 crds trds,
  cf_history ccfg p1 crds = cf_history ccfg p2 crds /\ tp_history tcfg q1 trds = tp_history tcfg q2 trds.
Proof. intros. split; [apply cf_history_prev_irrelevant|apply tp_history_prev_irrelevant]. Qed.

Lemma history_plugin_prices : forall cfg prev rds k rd gas tok,
  nth_error rds k = Some rd ->
  nth_error (pl_history cfg prev rds) k = Some (gas, tok) ->
  nth_error (cf_history (fst cfg) (fst prev) (map fst rds)) k = Some (cf_verdicts (fst cfg) (fst rd), cf_step_result (fst cfg) (fst rd), gas) /\
  nth_error (tp_history (snd cfg) (snd prev) (map snd rds)) k = Some (tp_verdicts (snd cfg) (snd rd), tp_step_result (snd cfg) (snd rd), tok).
Proof.
  intros cfg prev rds k rd gas tok Hk Hn.
  rewrite (pl_history_round cfg prev rds k rd Hk) in Hn. injection Hn as Hg Ht.
  split.
  - rewrite (cf_history_round (fst cfg) (fst prev) (map fst rds) k (fst rd)); [|now apply map_nth_error].
    subst gas. reflexivity.
  - rewrite (tp_history_round (snd cfg) (snd prev) (map snd rds) k (snd rd)); [|now apply map_nth_error].
    subst tok. reflexivity.
Qed.

(* PricesP.v — lemmas and the C14 theorems about Model/Prices.v *)
Require Import Verif.Model.Base Verif.Proofs.BaseP Verif.Model.Consensus Verif.Proofs.ConsensusP
               Verif.Model.CommitConsensus Verif.Proofs.CommitConsensusP Verif.Model.Prices.
From Coq Require Import Sorting.Sorted ZifyN ZifyNat ZifyBool.

(* ---------- sort_by Z.leb sorts ---------- *)
Lemma insertZ_sorted x l : StronglySorted Z.le l -> StronglySorted Z.le (insert_by Z.leb x l).
Proof.
  induction 1 as [|y l Hs IH Hall]; cbn [insert_by].
  - constructor; constructor.
  - destruct (Z.leb_spec x y) as [Hle|Hlt].
    + constructor; [constructor; assumption|].
      constructor; [exact Hle|]. eapply Forall_impl; [|exact Hall]. cbn. intros; lia.
    + constructor; [exact IH|].
      eapply Permutation_Forall; [symmetry; apply insert_by_perm|].
      constructor; [lia|exact Hall].
Qed.

Lemma sortZ_sorted l : StronglySorted Z.le (sort_by Z.leb l).
Proof. induction l; cbn [sort_by]; [constructor|apply insertZ_sorted; assumption]. Qed.

(* ---------- counting below / above a bound ---------- *)
Definition count_lt (b : Z) (l : list Z) : nat := length (filter (fun x => Z.ltb x b) l).
Definition count_gt (b : Z) (l : list Z) : nat := length (filter (fun x => Z.ltb b x) l).

Lemma count_lt_perm b l l' : Permutation l l' -> count_lt b l = count_lt b l'.
Proof. intros P. unfold count_lt. apply Permutation_length, Permutation_filter_compat, P. Qed.
Lemma count_gt_perm b l l' : Permutation l l' -> count_gt b l = count_gt b l'.
Proof. intros P. unfold count_gt. apply Permutation_length, Permutation_filter_compat, P. Qed.
Lemma count_lt_app b l1 l2 : count_lt b (l1 ++ l2) = (count_lt b l1 + count_lt b l2)%nat.
Proof. unfold count_lt. now rewrite filter_app, app_length. Qed.
Lemma count_gt_app b l1 l2 : count_gt b (l1 ++ l2) = (count_gt b l1 + count_gt b l2)%nat.
Proof. unfold count_gt. now rewrite filter_app, app_length. Qed.
Lemma count_lt_le b l : (count_lt b l <= length l)%nat.
Proof. unfold count_lt. induction l as [|x l IH]; cbn [filter length]; [lia|]. destruct (Z.ltb x b); cbn [length]; lia. Qed.
Lemma count_gt_le b l : (count_gt b l <= length l)%nat.
Proof. unfold count_gt. induction l as [|x l IH]; cbn [filter length]; [lia|]. destruct (Z.ltb b x); cbn [length]; lia. Qed.
Lemma count_lt_zero b l : (forall x, In x l -> b <= x)%Z -> count_lt b l = 0%nat.
Proof.
  unfold count_lt. induction l as [|x l IH]; intros H; cbn [filter length]; [reflexivity|].
  destruct (Z.ltb_spec x b) as [Hlt|Hge].
  - specialize (H x (or_introl eq_refl)). lia.
  - apply IH. intros y Hy. apply H. now right.
Qed.
Lemma count_gt_zero b l : (forall x, In x l -> x <= b)%Z -> count_gt b l = 0%nat.
Proof.
  unfold count_gt. induction l as [|x l IH]; intros H; cbn [filter length]; [reflexivity|].
  destruct (Z.ltb_spec b x) as [Hlt|Hge].
  - specialize (H x (or_introl eq_refl)). lia.
  - apply IH. intros y Hy. apply H. now right.
Qed.

Lemma sorted_nth_lt s : StronglySorted Z.le s ->
  forall m b, (m < length s)%nat -> (nth m s 0 < b)%Z -> (m + 1 <= count_lt b s)%nat.
Proof.
  induction 1 as [|a s Hs IH Hall]; intros m b Hm Hn; [cbn in Hm; lia|].
  unfold count_lt. cbn [filter]. destruct m as [|m]; cbn [nth] in Hn.
  - destruct (Z.ltb_spec a b); cbn [length]; lia.
  - cbn [length] in Hm. assert (Hm' : (m < length s)%nat) by lia.
    assert (Ha : (a <= nth m s 0)%Z).
    { rewrite Forall_forall in Hall. apply Hall. now apply nth_In. }
    destruct (Z.ltb_spec a b); [|lia]. cbn [length].
    specialize (IH m b Hm' Hn). unfold count_lt in IH. lia.
Qed.

Lemma sorted_nth_gt s : StronglySorted Z.le s ->
  forall m b, (m < length s)%nat -> (b < nth m s 0)%Z -> (length s - m <= count_gt b s)%nat.
Proof.
  induction 1 as [|a s Hs IH Hall]; intros m b Hm Hn; [cbn in Hm; lia|].
  unfold count_gt. cbn [filter]. destruct m as [|m]; cbn [nth] in Hn.
  - destruct (Z.ltb_spec b a); [|lia]. cbn [length].
    assert (Hf : filter (fun x => Z.ltb b x) s = s).
    { rewrite Forall_forall in Hall. clear -Hall H.
      assert (forall x, In x s -> Z.ltb b x = true) by (intros x Hx; specialize (Hall x Hx); lia).
      clear Hall. induction s as [|y s IHs]; cbn [filter]; [reflexivity|].
      rewrite (H0 y (or_introl eq_refl)). f_equal. apply IHs. intros x Hx. apply H0. now right. }
    rewrite Hf. lia.
  - cbn [length] in Hm. assert (Hm' : (m < length s)%nat) by lia.
    specialize (IH m b Hm' Hn). unfold count_gt in IH.
    destruct (Z.ltb b a); cbn [length]; lia.
Qed.

(* ---------- C14_median_robust ---------- *)
(* xs = the honest values hs and the faulty values bs in any order; at most f faulty, at least 2f+1 in total *)
Theorem median_robust (xs hs bs : list Z) (f : nat) (lo hi : Z) :
  Permutation xs (hs ++ bs) -> (length bs <= f)%nat -> (2 * f + 1 <= length xs)%nat ->
  (forall h, In h hs -> lo <= h <= hi)%Z ->
  (lo <= medianZ xs <= hi)%Z.
Proof.
  intros P Hb Hn Hh. unfold medianZ.
  set (s := sort_by Z.leb xs). set (m := Nat.div2 (length xs)).
  assert (Ps : Permutation s xs) by apply sort_by_perm.
  assert (Ss : StronglySorted Z.le s) by apply sortZ_sorted.
  assert (Ls : length s = length xs) by apply sort_by_length.
  assert (Hm : (m < length s)%nat).
  { rewrite Ls. unfold m. rewrite Nat.div2_div. apply Nat.div_lt; lia. }
  assert (Hm2 : (f <= m)%nat /\ (f + 1 <= length xs - m)%nat).
  { unfold m. rewrite Nat.div2_div. pose proof (Nat.div_mod (length xs) 2 ltac:(lia)).
    pose proof (Nat.mod_upper_bound (length xs) 2 ltac:(lia)). lia. }
  assert (Pall : Permutation s (hs ++ bs)) by (etransitivity; eassumption).
  split.
  - destruct (Z.le_gt_cases lo (nth m s 0%Z)) as [H|H]; [exact H|exfalso].
    pose proof (sorted_nth_lt s Ss m lo Hm ltac:(lia)) as Hc.
    rewrite (count_lt_perm lo _ _ Pall), count_lt_app in Hc.
    rewrite (count_lt_zero lo hs) in Hc by (intros x Hx; specialize (Hh x Hx); lia).
    pose proof (count_lt_le lo bs). lia.
  - destruct (Z.le_gt_cases (nth m s 0%Z) hi) as [H|H]; [exact H|exfalso].
    pose proof (sorted_nth_gt s Ss m hi Hm ltac:(lia)) as Hc.
    rewrite (count_gt_perm hi _ _ Pall), count_gt_app in Hc.
    rewrite (count_gt_zero hi hs) in Hc by (intros x Hx; specialize (Hh x Hx); lia).
    pose proof (count_gt_le hi bs). lia.
Qed.

(* the median is one of the values *)
Lemma median_in xs : xs <> [] -> In (medianZ xs) xs.
Proof.
  intros Hne. unfold medianZ. apply (Permutation_in _ (sort_by_perm Z.leb xs)).
  apply nth_In. rewrite sort_by_length. rewrite Nat.div2_div.
  destruct xs as [|x xs]; [congruence|]. apply Nat.div_lt; cbn [length]; lia.
Qed.

(* component-wise: chain-fee updates (exec usd, da usd, timestamp) and fee-quoter token updates (timestamp, value) *)
Theorem update_agg_robust (us hs bs : list update_t) (f : nat) (lo hi : update_t) :
  Permutation us (hs ++ bs) -> (length bs <= f)%nat -> (2 * f + 1 <= length us)%nat ->
  (forall h, In h hs ->
     fst (fst lo) <= fst (fst h) <= fst (fst hi) /\ snd (fst lo) <= snd (fst h) <= snd (fst hi) /\
     snd lo <= snd h <= snd hi)%Z ->
  let m := update_agg us in
  (fst (fst lo) <= fst (fst m) <= fst (fst hi) /\ snd (fst lo) <= snd (fst m) <= snd (fst hi) /\
   snd lo <= snd m <= snd hi)%Z.
Proof.
  intros P Hb Hn Hh. cbn [update_agg fst snd].
  assert (Hmap : forall g : update_t -> Z, Permutation (map g us) (map g hs ++ map g bs)).
  { intros g. rewrite <- map_app. now apply Permutation_map. }
  assert (Hcomp : forall (g : update_t -> Z) l h, (forall u, In u hs -> l <= g u <= h)%Z ->
                  (l <= medianZ (map g us) <= h)%Z).
  { intros g l h Hg. apply (median_robust (map g us) (map g hs) (map g bs) f l h (Hmap g)); rewrite ?map_length; try assumption.
    intros x Hi. apply in_map_iff in Hi. destruct Hi as [u [<- Hu]]. now apply Hg. }
  pose proof (Hcomp (fun u => fst (fst u)) (fst (fst lo)) (fst (fst hi)) ltac:(intros u Hu; specialize (Hh u Hu); cbn beta; lia)) as H1.
  pose proof (Hcomp (fun u => snd (fst u)) (snd (fst lo)) (snd (fst hi)) ltac:(intros u Hu; specialize (Hh u Hu); cbn beta; lia)) as H2.
  pose proof (Hcomp snd (snd lo) (snd hi) ltac:(intros u Hu; specialize (Hh u Hu); lia)) as H3.
  tauto.
Qed.

Theorem pair_agg_robust (us hs bs : list (Z * Z)) (f : nat) (lo hi : Z * Z) :
  Permutation us (hs ++ bs) -> (length bs <= f)%nat -> (2 * f + 1 <= length us)%nat ->
  (forall h, In h hs -> fst lo <= fst h <= fst hi /\ snd lo <= snd h <= snd hi)%Z ->
  (fst lo <= medianZ (map fst us) <= fst hi /\ snd lo <= medianZ (map snd us) <= snd hi)%Z.
Proof.
  intros P Hb Hn Hh.
  assert (Hmap : forall g : Z * Z -> Z, Permutation (map g us) (map g hs ++ map g bs)).
  { intros g. rewrite <- map_app. now apply Permutation_map. }
  split.
  - apply (median_robust _ _ _ f _ _ (Hmap fst)); rewrite ?map_length; try assumption.
    intros h Hi. apply in_map_iff in Hi. destruct Hi as [u [<- Hu]]. specialize (Hh u Hu). lia.
  - apply (median_robust _ _ _ f _ _ (Hmap snd)); rewrite ?map_length; try assumption.
    intros h Hi. apply in_map_iff in Hi. destruct Hi as [u [<- Hu]]. specialize (Hh u Hu). lia.
Qed.

Example median_robust_ex :
  medianZ [5; 1000000; 7; 6; 0]%Z = 6%Z /\
  Permutation [5; 1000000; 7; 6; 0]%Z ([5; 7; 6] ++ [1000000; 0])%Z.
Proof.
  split; [vm_compute; reflexivity|]. cbn [app].
  apply perm_skip. etransitivity; [apply perm_swap|]. apply perm_skip. apply perm_swap.
Qed.

(* ====================== Deviates ====================== *)
Lemma ediv_pos a b : (0 < b)%Z -> ediv a b = (a / b)%Z.
Proof. intros H. unfold ediv. destruct (Z.ltb_spec 0 b); [reflexivity|lia]. Qed.

(* floor(d / lo) > ppb  <=>  d >= (ppb+1) * lo *)
Lemma div_gt_iff d lo ppb : (0 < lo)%Z -> (ppb < d / lo <-> (ppb + 1) * lo <= d)%Z.
Proof.
  intros Hlo. split.
  - intros H. assert (H1 : (ppb + 1 <= d / lo)%Z) by lia.
    pose proof (Z.mul_div_le d lo Hlo). nia.
  - intros H. assert (H1 : (ppb + 1 <= d / lo)%Z); [|lia].
    apply Z.div_le_lower_bound; [exact Hlo|]. lia.
Qed.

(* C14_deviates_spec, part 1: for 0 < x2 <= x1 the test is the integer inequality *)
Theorem deviates_spec x1 x2 ppb :
  (0 < x2 <= x1)%Z ->
  (deviates x1 x2 ppb = true <-> (ppb + 1) * x2 <= (x1 - x2) * 1000000000)%Z.
Proof.
  intros H. unfold deviates, ppb_unit.
  destruct (Z.eqb_spec x1 0) as [E|_]; [lia|]. destruct (Z.eqb_spec x2 0) as [E|_]; [lia|]. cbn [orb].
  destruct (Z.ltb_spec x1 x2) as [Hlt|_]; [lia|].
  rewrite (ediv_pos _ x2) by lia. rewrite Z.ltb_lt. apply div_gt_iff. lia.
Qed.

(* part 2: symmetric in its first two arguments, for all integers *)
Theorem deviates_sym x1 x2 ppb : deviates x1 x2 ppb = deviates x2 x1 ppb.
Proof.
  unfold deviates. rewrite (orb_comm (Z.eqb x1 0)), (Z.eqb_sym x1 x2).
  destruct (Z.eqb x2 0 || Z.eqb x1 0); [reflexivity|].
  destruct (Z.ltb_spec x1 x2) as [H1|H1], (Z.ltb_spec x2 x1) as [H2|H2]; try reflexivity; try lia.
  assert (x1 = x2) by lia. subst. reflexivity.
Qed.

(* part 3: any change from or to zero counts, and no change does not *)
Theorem deviates_zero x ppb :
  (deviates 0 x ppb = true <-> x <> 0%Z) /\ (deviates x 0 ppb = true <-> x <> 0%Z).
Proof.
  unfold deviates. split.
  - rewrite (Z.eqb_refl 0). cbn [orb]. rewrite negb_true_iff, Z.eqb_neq. lia.
  - rewrite (Z.eqb_refl 0), orb_true_r. rewrite negb_true_iff, Z.eqb_neq. tauto.
Qed.

Example deviates_boundary_ex :
  deviates 1050000000 1000000000 49999999 = true /\ deviates 1050000000 1000000000 50000000 = false /\
  deviates 1000000000 1050000000 49999999 = true.
Proof. vm_compute. repeat split. Qed.

(* ====================== units ====================== *)
(* usd_per_unit_gas = floor(fee * price / 1e18) *)
Theorem usd_per_unit_gas_spec fee price :
  let u := usd_per_unit_gas fee price in
  (u * 1000000000000000000 <= fee * price < (u + 1) * 1000000000000000000)%Z.
Proof.
  cbn zeta. unfold usd_per_unit_gas, e18. rewrite ediv_pos by lia.
  pose proof (Z.mul_div_le (fee * price) 1000000000000000000 ltac:(lia)).
  pose proof (Z.mul_succ_div_gt (fee * price) 1000000000000000000 ltac:(lia)). lia.
Qed.

Lemma to_packed_add da ex : (0 <= ex < 2 ^ 112)%Z -> to_packed da ex = (da * 2 ^ 112 + ex)%Z.
Proof.
  intros He. unfold to_packed. rewrite Z.shiftl_mul_pow2 by lia.
  assert (Hl : Z.land (da * 2 ^ 112) ex = 0%Z); [|rewrite (Z.add_nocarry_lxor _ _ Hl); symmetry; now apply Z.lxor_lor].
  apply Z.bits_inj'. intros n Hn.
  rewrite Z.land_spec, Z.bits_0.
  destruct (Z.ltb_spec n 112) as [Hlt|Hge].
  - rewrite Z.mul_pow2_bits_low by lia. reflexivity.
  - assert (Hb : Z.testbit ex n = false).
    { destruct (Z.eqb_spec ex 0) as [->|Hne]; [apply Z.bits_0|].
      apply Z.bits_above_log2; [lia|]. apply Z.log2_lt_pow2; [lia|].
      eapply Z.lt_le_trans; [apply He|]. apply Z.pow_le_mono_r; lia. }
    rewrite Hb. apply andb_false_r.
Qed.

(* C14_units: the 112-bit packing and its inverse *)
Theorem from_to_packed da ex :
  (0 <= ex < 2 ^ 112)%Z -> (0 <= da)%Z -> from_packed (to_packed da ex) = (ex, da).
Proof.
  intros He Hd. rewrite to_packed_add by exact He. unfold from_packed, ones112.
  assert (Hp : (0 < 2 ^ 112)%Z) by (apply Z.pow_pos_nonneg; lia).
  f_equal.
  - change (2 ^ 112 - 1)%Z with (Z.ones 112). rewrite Z.land_ones by lia.
    rewrite Z.add_comm, Z.mod_add by lia. apply Z.mod_small. exact He.
  - rewrite Z.shiftr_div_pow2 by lia. rewrite Z.add_comm, Z.div_add by lia.
    rewrite Z.div_small by exact He. lia.
Qed.

Example packing_ex : to_packed 3 5 = (3 * 2 ^ 112 + 5)%Z /\ from_packed (to_packed 3 5) = (5, 3)%Z.
Proof. vm_compute. split; reflexivity. Qed.

(* ====================== threshold-gated aggregation ====================== *)
Section Agg.
  Context {T K : Type}.
  Variable thr_of : K -> option N.
  Variable agg : list T -> T.

  (* C14_threshold (generic): a key is in the result iff it HAS a threshold and at least that many values were
     observed; its value is the aggregate of exactly those values *)
  Theorem consensus_agg_in (m : list (K * list T)) k v :
    In (k, v) (consensus_agg thr_of agg m) <->
    exists vals thr, In (k, vals) m /\ thr_of k = Some thr /\ (thr <= N.of_nat (length vals))%N /\ v = agg vals.
  Proof.
    induction m as [|[k' vals'] m IH]; cbn [consensus_agg].
    - split; [intros []|intros [? [? [[] _]]]].
    - destruct (thr_of k') as [thr'|] eqn:Et.
      + destruct (N.ltb_spec (N.of_nat (length vals')) thr') as [Hlt|Hge].
        * rewrite IH. split.
          -- intros [vs [th [Hi H]]]. exists vs, th. split; [now right|exact H].
          -- intros [vs [th [[Hi|Hi] [H1 [H2 H3]]]]]; [|exists vs, th; tauto].
             inversion Hi; subst. rewrite Et in H1. inversion H1; subst. lia.
        * cbn [In]. rewrite IH. split.
          -- intros [He|[vs [th [Hi H]]]].
             ++ inversion He; subst. exists vals', thr'. split; [now left|]. split; [exact Et|split; [exact Hge|reflexivity]].
             ++ exists vs, th. split; [now right|exact H].
          -- intros [vs [th [[Hi|Hi] [H1 [H2 H3]]]]]; [|right; exists vs, th; tauto].
             inversion Hi; subst. now left.
      + rewrite IH. split.
        * intros [vs [th [Hi H]]]. exists vs, th. split; [now right|exact H].
        * intros [vs [th [[Hi|Hi] [H1 H2]]]]; [|exists vs, th; tauto].
          inversion Hi; subst. rewrite Et in H1. discriminate.
  Qed.

  Lemma consensus_agg_keys_nodup (m : list (K * list T)) :
    NoDup (map fst m) -> NoDup (map fst (consensus_agg thr_of agg m)).
  Proof.
    induction m as [|[k vals] m IH]; cbn [consensus_agg map fst]; intros ND; [constructor|].
    inversion ND as [|? ? Hn ND']; subst.
    destruct (thr_of k) as [thr|]; [|now apply IH].
    destruct (N.ltb (N.of_nat (length vals)) thr); [now apply IH|].
    cbn [map fst]. constructor; [|now apply IH].
    intros Hi. apply Hn. apply in_map_iff in Hi. destruct Hi as [[k' v] [He Hi]]. cbn in He. subst k'.
    apply consensus_agg_in in Hi. destruct Hi as [vs [th [Hi _]]].
    apply in_map_iff. exists (k, vs). tauto.
  Qed.
End Agg.

(* the aggregator as it was before the repair of F08 aggregates a key that has NO threshold from a single value *)
Theorem consensus_agg_unfixed_refuted :
  exists (thr_of : N -> option N) (m : list (N * list Z)) k v,
    In (k, v) (consensus_agg_unfixed thr_of medianZ m) /\ thr_of k = None /\
    In (k, [v]) m /\ ~ In (k, v) (consensus_agg thr_of medianZ m).
Proof.
  exists (thr_2f1 [(9%N, 1%Z)]), [(77%N, [1000000%Z])], 77%N, 1000000%Z.
  split; [vm_compute; now left|]. split; [reflexivity|]. split; [now left|]. vm_compute. tauto.
Qed.

(* over the observations: value of key k = aggregate of the votes for k, of which there are >= threshold *)
Lemma agg_votes_in {O T} (get : O -> list (N * T)) thr_of (agg : list T -> T) (aos : list (N * O)) k v :
  In (k, v) (consensus_agg thr_of agg (agg_map get aos)) ->
  exists thr, thr_of k = Some thr /\ (thr <= N.of_nat (length (votes get aos k)))%N /\
              v = agg (map snd (votes get aos k)).
Proof.
  intros Hi. apply consensus_agg_in in Hi. destruct Hi as [vals [thr [Hi [Ht [Hl ->]]]]].
  apply agg_map_in in Hi. destruct Hi as [-> _]. rewrite map_length in Hl. exists thr. tauto.
Qed.

Lemma agg_thr_small f : (0 <= f < 2 ^ 62)%Z -> agg_thr (two_f_plus_1 f) = Z.to_N (2 * f + 1).
Proof.
  intros H. rewrite two_f_plus_1_int by lia. unfold agg_thr.
  destruct (N.ltb_spec (Z.to_N (2 * f + 1)) 9223372036854775808); [reflexivity|lia].
Qed.

(* ====================== selection ====================== *)
Theorem gas_selected_iff freq feeinfo updates now k ex da :
  gas_selected freq feeinfo updates now k ex da = true <->
  alookup k updates = None \/
  exists uex uda uts, alookup k updates = Some (uex, uda, uts) /\
    ((uts + freq < now)%Z \/
     exists eppb dppb, alookup k feeinfo = Some (eppb, dppb) /\
       (deviates ex uex eppb = true \/ deviates da uda dppb = true)).
Proof.
  unfold gas_selected. destruct (alookup k updates) as [[[uex uda] uts]|].
  - destruct (Z.ltb_spec (uts + freq) now) as [Hlt|Hge].
    + split; [intros _; right; exists uex, uda, uts; tauto|reflexivity].
    + destruct (alookup k feeinfo) as [[eppb dppb]|].
      * rewrite orb_true_iff. split.
        -- intros H. right. exists uex, uda, uts. split; [reflexivity|]. right. exists eppb, dppb. tauto.
        -- intros [H|[a [b [c [He [H|[e [d [Hf H]]]]]]]]]; [discriminate| |].
           ++ inversion He; subst. lia.
           ++ inversion He; inversion Hf; subst. exact H.
      * split; [discriminate|]. intros [H|[a [b [c [He [H|[e [d [Hf _]]]]]]]]]; try discriminate.
        inversion He; subst. lia.
  - split; [now left|reflexivity].
Qed.

Theorem token_selected_iff freq tokeninfo updates now t price :
  token_selected freq tokeninfo updates now t price = true <->
  alookup t updates = None \/
  exists uts uval ppb, alookup t updates = Some (uts, uval) /\ alookup t tokeninfo = Some ppb /\
    ((uts + freq < now)%Z \/ deviates price uval ppb = true).
Proof.
  unfold token_selected. destruct (alookup t updates) as [[uts uval]|].
  - destruct (alookup t tokeninfo) as [ppb|].
    + rewrite orb_true_iff, Z.ltb_lt. split.
      * intros H. right. exists uts, uval, ppb. tauto.
      * intros [H|[a [b [c [He [Hf H]]]]]]; [discriminate|]. inversion He; inversion Hf; subst. exact H.
    + split; [discriminate|]. intros [H|[a [b [c [_ [Hf _]]]]]]; discriminate.
  - split; [now left|reflexivity].
Qed.

Lemma gas_to_update_in freq feeinfo usd updates now k g :
  In (k, g) (gas_to_update freq feeinfo usd updates now) <->
  exists ex da, In (k, (ex, da)) usd /\ gas_selected freq feeinfo updates now k ex da = true /\ g = to_packed da ex.
Proof.
  unfold gas_to_update. rewrite in_flat_map. split.
  - intros [[k' [ex da]] [Hi Hs]]. destruct (gas_selected freq feeinfo updates now k' ex da) eqn:E; [|contradiction].
    destruct Hs as [Hs|[]]. inversion Hs; subst. exists ex, da. tauto.
  - intros [ex [da [Hi [Hs ->]]]]. exists (k, (ex, da)). split; [exact Hi|]. rewrite Hs. now left.
Qed.

Lemma tokens_to_update_in freq tokeninfo c t p :
  In (t, p) (tokens_to_update freq tokeninfo c) <->
  In (t, p) (tc_feed c) /\ token_selected freq tokeninfo (tc_updates c) (tc_ts c) t p = true.
Proof.
  unfold tokens_to_update. rewrite in_flat_map. split.
  - intros [[t' p'] [Hi Hs]]. cbn [fst snd] in Hs.
    destruct (token_selected freq tokeninfo (tc_updates c) (tc_ts c) t' p') eqn:E; [|contradiction].
    destruct Hs as [Hs|[]]. inversion Hs; subst. tauto.
  - intros [Hi Hs]. exists (t, p). split; [exact Hi|]. cbn [fst snd]. rewrite Hs. now left.
Qed.

(* ---------- key order ---------- *)
Definition keys_strict {V} (l : list (N * V)) : Prop := StronglySorted (fun a b => (fst a < fst b)%N) l.

Lemma sort_keys_in {V} (m : list (N * V)) x : In x (sort_keys m) <-> In x m.
Proof. apply sort_by_in. Qed.

Lemma sort_keys_strict {V} (m : list (N * V)) : NoDup (map fst m) -> keys_strict (sort_keys m).
Proof.
  intros ND. unfold keys_strict, sort_keys.
  pose proof (sort_ksorted (fun a : N * V => fst a) m) as S. unfold KSorted, kle in S.
  assert (ND' : NoDup (map fst (sort_by (fun a b : N * V => N.leb (fst a) (fst b)) m))).
  { eapply Permutation_NoDup; [|exact ND]. apply Permutation_map. symmetry. apply sort_by_perm. }
  revert S ND'. generalize (sort_by (fun a b : N * V => N.leb (fst a) (fst b)) m). intros l S.
  induction S as [|a l Sl IH Hall]; intros NDl; [constructor|].
  cbn [map] in NDl. inversion NDl as [|? ? Hn NDl']; subst.
  constructor; [now apply IH|].
  rewrite Forall_forall in *. intros b Hb. specialize (Hall b Hb). cbn beta in Hall.
  assert (fst a <> fst b) by (intros E; apply Hn; rewrite E; now apply in_map). lia.
Qed.

Lemma flat_map_keys_nodup {A V} (key : A -> N) (f : A -> list (N * V)) (l : list A) :
  (forall a, f a = [] \/ exists v, f a = [(key a, v)]) ->
  NoDup (map key l) -> NoDup (map fst (flat_map f l)).
Proof.
  intros Hf. induction l as [|a l IH]; cbn [flat_map map]; intros ND; [constructor|].
  inversion ND as [|? ? Hn ND']; subst. rewrite map_app.
  destruct (Hf a) as [->|[v ->]]; cbn [map app fst]; [now apply IH|].
  constructor; [|now apply IH].
  intros Hi. apply Hn. apply in_map_iff in Hi. destruct Hi as [[k' v'] [He Hi]]. cbn in He. subst k'.
  apply in_flat_map in Hi. destruct Hi as [b [Hb Hfb]].
  destruct (Hf b) as [E|[w E]]; rewrite E in Hfb; [contradiction|]. destruct Hfb as [Hfb|[]]. inversion Hfb.
  apply in_map_iff. exists b. tauto.
Qed.

(* ====================== the two processors ====================== *)
Lemma key_thr_some fch k t :
  key_thr fch k = Some t <-> exists f, alookup k fch = Some f /\ t = agg_thr (two_f_plus_1 f).
Proof.
  unfold key_thr, thr_2f1. destruct (alookup k fch) as [f|]; cbn [option_map]; split.
  - intros H. inversion H. exists f. tauto.
  - intros [f' [H1 ->]]. inversion H1; subst. reflexivity.
  - discriminate.
  - intros [f' [H1 _]]. discriminate.
Qed.

Lemma cf_usd_in c k ex da :
  In (k, (ex, da)) (cf_usd c) <->
  exists fe fd p, In (k, (fe, fd)) (cc_feecomp c) /\ alookup k (cc_native c) = Some p /\
                  ex = usd_per_unit_gas fe p /\ da = usd_per_unit_gas fd p.
Proof.
  unfold cf_usd. rewrite in_flat_map. split.
  - intros [[k' [fe fd]] [Hi Hs]]. cbn [fst snd] in Hs. destruct (alookup k' (cc_native c)) as [p|] eqn:E; [|contradiction].
    destruct Hs as [Hs|[]]. inversion Hs; subst. exists fe, fd, p. tauto.
  - intros [fe [fd [p [Hi [Hn [-> ->]]]]]]. exists (k, (fe, fd)). split; [exact Hi|]. cbn [fst snd]. rewrite Hn. now left.
Qed.

Lemma cf_consensus_inv F dest aos c :
  cf_consensus F dest aos = Ok c ->
  let fch := fchain_cons cf_fchain F aos in
  exists fd, alookup dest fch = Some fd /\
    (int64s (2 * fd + 1) <= Z.of_nat (length aos))%Z /\
    cc_fchain c = fch /\
    cc_feecomp c = consensus_agg (key_thr fch) feecomp_agg (agg_map cf_feecomp aos) /\
    cc_native c = consensus_agg (key_thr fch) medianZ (agg_map cf_native aos) /\
    cc_updates c = consensus_agg (const_thr fd) update_agg (agg_map cf_updates aos) /\
    cc_ts c = medianZ (map (fun ao => cf_ts (snd ao)) aos).
Proof.
  unfold cf_consensus. cbn zeta. destruct (alookup dest (fchain_cons cf_fchain F aos)) as [fd|]; [|discriminate].
  destruct (Z.ltb_spec (Z.of_nat (length aos)) (int64s (2 * fd + 1))) as [Hlt|Hge]; [discriminate|].
  intros H. inversion H; subst c. cbn. exists fd. repeat split. exact Hge.
Qed.

Lemma cf_keys_nodup F dest aos c : cf_consensus F dest aos = Ok c -> NoDup (map fst (cf_usd c)).
Proof.
  intros Hc. destruct (cf_consensus_inv _ _ _ _ Hc) as [fd [_ [_ [_ [Hfc _]]]]].
  unfold cf_usd. apply (flat_map_keys_nodup (fun kv : N * (Z * Z) => fst kv)).
  - intros [k [fe fd']]. cbn [fst snd]. destruct (alookup k (cc_native c)); [right; eexists; reflexivity|now left].
  - rewrite Hfc. apply consensus_agg_keys_nodup, agg_map_keys_nodup.
Qed.

(* C14_selection_gas: what chainfee Outcome reports, and in which order *)
Theorem cf_selection freq feeinfo F dest aos out :
  cf_outcome freq feeinfo F dest aos = Ok out ->
  exists c, cf_consensus F dest aos = Ok c /\
    (forall k g, In (k, g) out <->
       exists ex da, In (k, (ex, da)) (cf_usd c) /\
         gas_selected freq feeinfo (cc_updates c) (cc_ts c) k ex da = true /\ g = to_packed da ex) /\
    keys_strict out.
Proof.
  unfold cf_outcome. destruct (cf_consensus F dest aos) as [c| | |] eqn:Hc; try discriminate.
  intros H. exists c. split; [reflexivity|].
  destruct (cc_feecomp c) as [|x l] eqn:Efc.
  - inversion H; subst out. split; [|constructor].
    intros k g. split; [intros []|]. intros [ex [da [Hi _]]]. apply cf_usd_in in Hi.
    destruct Hi as [fe [fd [p [Hi _]]]]. rewrite Efc in Hi. contradiction.
  - inversion H; subst out. split.
    + intros k g. rewrite sort_keys_in. apply gas_to_update_in.
    + apply sort_keys_strict. unfold gas_to_update.
      apply (flat_map_keys_nodup (fun kv : N * (Z * Z) => fst kv)).
      * intros [k [ex da]]. cbn [fst]. destruct (gas_selected freq feeinfo (cc_updates c) (cc_ts c) k ex da);
          [right; eexists; reflexivity|now left].
      * eapply cf_keys_nodup; eassumption.
Qed.

(* C14_threshold + C14_units for gas prices: every reported gas price is the packed pair of USD prices computed from
   the medians of >= 2f_k+1 fee-component observations and >= 2f_k+1 native-price observations of chain k *)
Theorem gas_price_derivation freq feeinfo F dest aos out k g :
  cf_outcome freq feeinfo F dest aos = Ok out -> In (k, g) out ->
  exists f,
    alookup k (fchain_cons cf_fchain F aos) = Some f /\
    let fcs := map snd (votes cf_feecomp aos k) in
    let nts := map snd (votes cf_native aos k) in
    (agg_thr (two_f_plus_1 f) <= N.of_nat (length fcs))%N /\
    (agg_thr (two_f_plus_1 f) <= N.of_nat (length nts))%N /\
    g = to_packed (usd_per_unit_gas (medianZ (map snd fcs)) (medianZ nts))
                  (usd_per_unit_gas (medianZ (map fst fcs)) (medianZ nts)).
Proof.
  intros Ho Hi. destruct (cf_selection _ _ _ _ _ _ Ho) as [c [Hc [Hiff _]]].
  apply Hiff in Hi. destruct Hi as [ex [da [Hu [_ ->]]]].
  apply cf_usd_in in Hu. destruct Hu as [fe [fd [p [Hfc [Hn [-> ->]]]]]].
  destruct (cf_consensus_inv _ _ _ _ Hc) as [fdd [_ [_ [_ [Efc [Ent _]]]]]].
  rewrite Efc in Hfc. apply agg_votes_in in Hfc. destruct Hfc as [t1 [Ht1 [Hl1 Hv1]]].
  apply alookup_In in Hn. rewrite Ent in Hn. apply agg_votes_in in Hn. destruct Hn as [t2 [Ht2 [Hl2 Hv2]]].
  apply key_thr_some in Ht1. destruct Ht1 as [f [Hf ->]].
  apply key_thr_some in Ht2. destruct Ht2 as [f' [Hf' ->]]. rewrite Hf in Hf'. inversion Hf'; subst f'.
  exists f. split; [exact Hf|]. cbn zeta. rewrite !map_length.
  split; [exact Hl1|]. split; [exact Hl2|].
  unfold feecomp_agg in Hv1. inversion Hv1; subst. reflexivity.
Qed.

Lemma tp_consensus_inv feedchain F dest aos c :
  tp_consensus feedchain F dest aos = Ok c ->
  let fch := fchain_cons tp_fchain F aos in
  exists fd ff, alookup dest fch = Some fd /\ alookup feedchain fch = Some ff /\
    tc_fchain c = fch /\
    tc_feed c = consensus_agg (const_thr ff) medianZ (agg_map tp_feed aos) /\
    tc_updates c = consensus_agg (const_thr fd) tsbig_agg (agg_map tp_updates aos) /\
    tc_ts c = medianZ (map (fun ao => tp_ts (snd ao)) aos).
Proof.
  unfold tp_consensus. cbn zeta. destruct (alookup dest (fchain_cons tp_fchain F aos)) as [fd|]; [|discriminate].
  destruct (alookup feedchain (fchain_cons tp_fchain F aos)) as [ff|]; [|discriminate].
  intros H. inversion H; subst c. cbn. exists fd, ff. repeat split.
Qed.

(* C14_selection_token *)
Theorem tp_selection freq tokeninfo feedchain F dest aos out :
  tp_outcome freq tokeninfo feedchain F dest aos = Ok out ->
  (freq = 0%Z /\ out = []) \/
  (freq <> 0%Z /\ exists c, tp_consensus feedchain F dest aos = Ok c /\
     (forall t p, In (t, p) out <->
        In (t, p) (tc_feed c) /\ token_selected freq tokeninfo (tc_updates c) (tc_ts c) t p = true) /\
     keys_strict out).
Proof.
  unfold tp_outcome. destruct (Z.eqb_spec freq 0) as [->|Hne].
  - intros H. inversion H. now left.
  - destruct (tp_consensus feedchain F dest aos) as [c| | |] eqn:Hc; try discriminate.
    intros H. inversion H; subst out. right. split; [exact Hne|]. exists c. split; [reflexivity|]. split.
    + intros t p. rewrite sort_keys_in. apply tokens_to_update_in.
    + apply sort_keys_strict. unfold tokens_to_update.
      apply (flat_map_keys_nodup (fun kv : N * Z => fst kv)).
      * intros [t p]. cbn [fst snd]. destruct (token_selected freq tokeninfo (tc_updates c) (tc_ts c) t p);
          [right; eexists; reflexivity|now left].
      * destruct (tp_consensus_inv _ _ _ _ _ Hc) as [fd [ff [_ [_ [_ [Hf _]]]]]]. rewrite Hf.
        apply consensus_agg_keys_nodup, agg_map_keys_nodup.
Qed.

(* C14_threshold for token prices: a reported price is the median of >= 2 f_feed + 1 observed feed prices *)
Theorem token_price_derivation freq tokeninfo feedchain F dest aos out t p :
  tp_outcome freq tokeninfo feedchain F dest aos = Ok out -> In (t, p) out ->
  exists ff,
    alookup feedchain (fchain_cons tp_fchain F aos) = Some ff /\
    let ps := map snd (votes tp_feed aos t) in
    (agg_thr (two_f_plus_1 ff) <= N.of_nat (length ps))%N /\ p = medianZ ps.
Proof.
  intros Ho Hi. destruct (tp_selection _ _ _ _ _ _ _ Ho) as [[_ ->]|[_ [c [Hc [Hiff _]]]]]; [contradiction|].
  apply Hiff in Hi. destruct Hi as [Hi _].
  destruct (tp_consensus_inv _ _ _ _ _ Hc) as [fd [ff [_ [Hff [_ [Hf _]]]]]].
  rewrite Hf in Hi. apply agg_votes_in in Hi. destruct Hi as [thr [Ht [Hl Hv]]].
  unfold const_thr in Ht. inversion Ht; subst thr.
  exists ff. split; [exact Hff|]. cbn zeta. rewrite map_length. tauto.
Qed.

(* ... hence between the smallest and largest honest observation when at most f_feed observers are faulty *)
Theorem token_price_robust freq tokeninfo feedchain F dest aos out t p ff hs bs lo hi :
  tp_outcome freq tokeninfo feedchain F dest aos = Ok out -> In (t, p) out ->
  alookup feedchain (fchain_cons tp_fchain F aos) = Some ff -> (0 <= ff < 2 ^ 62)%Z ->
  Permutation (map snd (votes tp_feed aos t)) (hs ++ bs) -> (length bs <= Z.to_nat ff)%nat ->
  (forall h, In h hs -> lo <= h <= hi)%Z ->
  (lo <= p <= hi)%Z.
Proof.
  intros Ho Hi Hff Hr P Hb Hh.
  destruct (token_price_derivation _ _ _ _ _ _ _ _ _ Ho Hi) as [ff' [Hff' [Hl ->]]].
  rewrite Hff in Hff'. inversion Hff'; subst ff'. rewrite agg_thr_small in Hl by exact Hr.
  apply (median_robust _ hs bs (Z.to_nat ff) lo hi P Hb); [lia|exact Hh].
Qed.

(* ====================== validation: no null big integer reaches Outcome (repair of F09) ====================== *)
Theorem cf_validate_no_null roles known dest o r :
  cf_validate roles known dest (o, r) = true ->
  (forall k ex da, In (k, (ex, da)) (cfr_feecomp r) -> exists e d, ex = Some e /\ da = Some d /\ (0 < e)%Z /\ (0 <= d)%Z) /\
  (forall k p, In (k, p) (cfr_native r) -> exists z, p = Some z /\ (0 < z)%Z) /\
  (forall k a b ts, In (k, (a, b, ts)) (cfr_updates r) -> a <> None /\ b <> None).
Proof.
  unfold cf_validate, cf_validate_unfixed. cbn [fst snd]. rewrite !andb_true_iff, !forallb_forall.
  intros [[[[[[_ _] _] _] Hfc] Hn] Hu]. split; [|split].
  - intros k ex da Hi. specialize (Hfc _ Hi). cbn [snd] in Hfc. destruct ex as [e|], da as [d|]; try discriminate.
    exists e, d. apply andb_true_iff in Hfc. repeat split; lia.
  - intros k p Hi. specialize (Hn _ Hi). cbn [snd] in Hn. destruct p as [z|]; [|discriminate]. exists z. split; [reflexivity|lia].
  - intros k a b ts Hi. specialize (Hu _ Hi). cbn [fst snd] in Hu. apply andb_true_iff in Hu. destruct Hu as [Ha Hb].
    destruct a, b; try discriminate. split; discriminate.
Qed.

Theorem tp_validate_no_null roles known feedchain dest o r :
  tp_validate roles known feedchain dest (o, r) = true ->
  NoDup (map fst (tpr_feed r)) /\
  (forall t p, In (t, p) (tpr_feed r) -> p <> None) /\
  (forall t ts v, In (t, (ts, v)) (tpr_updates r) -> v <> None).
Proof.
  unfold tp_validate, tp_validate_unfixed. cbn [fst snd]. rewrite !andb_true_iff, !forallb_forall, nodupb_NoDup.
  intros [[[[[[_ _] _] _] Hnd] Hf] Hu]. split; [exact Hnd|]. split.
  - intros t p Hi. specialize (Hf _ Hi). cbn [snd] in Hf. destruct p; [discriminate|discriminate].
  - intros t ts v Hi. specialize (Hu _ Hi). cbn [snd] in Hu. destruct v; [discriminate|discriminate].
Qed.

(* validation as it was (F09): an update with null components is accepted *)
Theorem validate_unfixed_refuted :
  (exists roles known dest o r k ts,
     cf_validate_unfixed roles known dest (o, r) = true /\ In (k, (None, None, ts)) (cfr_updates r)) /\
  (exists roles known feedchain dest o r t ts,
     tp_validate_unfixed roles known feedchain dest (o, r) = true /\ In (t, (ts, None)) (tpr_updates r)).
Proof.
  split.
  - exists [(9%N, [0%N])], [0%N], 9%N, 0%N, (mkCfRaw [] [] [(1%N, (None, None, 5%Z))] [(9%N, 1%Z)] 7%Z), 1%N, 5%Z.
    split; [vm_compute; reflexivity|now left].
  - exists [(9%N, [0%N])], [0%N], 50%N, 9%N, 0%N, (mkTpRaw [] [(3%N, (5%Z, None))] [(9%N, 1%Z)] 7%Z), 3%N, 5%Z.
    split; [vm_compute; reflexivity|now left].
Qed.

(* ====================== F08 at processor level ====================== *)
(* 4 oracles, F = 1, agreed fChain = {9: 1}; oracle 3 alone observes chain 77: the pre-repair code reports a gas price
   for chain 77, the repaired code does not *)
Definition ex_f08_aos : list (N * cf_obs) :=
  [ (0%N, mkCfObs [] [] [] [(9%N, 1%Z)] 100%Z); (1%N, mkCfObs [] [] [] [(9%N, 1%Z)] 100%Z);
    (2%N, mkCfObs [] [] [] [(9%N, 1%Z)] 100%Z);
    (3%N, mkCfObs [(77%N, (1000000000000000000000000000000, 1)%Z)] [(77%N, 1000000000000000000000000000000%Z)] []
                  [(9%N, 1%Z)] 100%Z) ].

Theorem gas_threshold_unfixed_refuted :
  exists freq feeinfo F dest aos out k g,
    cf_outcome_unfixed freq feeinfo F dest aos = Ok out /\ In (k, g) out /\
    alookup k (fchain_cons cf_fchain F aos) = None /\
    length (votes cf_feecomp aos k) = 1%nat /\
    cf_outcome freq feeinfo F dest aos = Ok [].
Proof.
  exists 60%Z, [], 1%Z, 9%N, ex_f08_aos.
  eexists. exists 77%N. eexists.
  split; [vm_compute; reflexivity|]. split; [now left|]. repeat split; vm_compute; reflexivity.
Qed.

(* Example: the hypotheses of the derivation / selection theorems are met by a concrete run *)
Definition ex_cf_aos : list (N * cf_obs) :=
  map (fun o => (o, mkCfObs [(5%N, (30000000000, 1000000)%Z)] [(5%N, 2000000000000000000000%Z)]
                            [(5%N, (59000000000000, 2000000000, 40)%Z)] [(9%N, 1%Z); (5%N, 1%Z)] 100%Z))
      [0%N; 1%N; 2%N; 3%N].
Example ex_cf_outcome :
  cf_outcome 60 [(5%N, (1000000, 1000000)%Z)] 1 9 ex_cf_aos
  = Ok [(5%N, to_packed 2000000000 60000000000000)].
Proof. vm_compute. reflexivity. Qed.

(* ---------- the statements of Props/C14.v that combine two lemmas ---------- *)
Lemma units_packing : forall da ex,
  (0 <= ex < 2 ^ 112)%Z -> (0 <= da)%Z ->
  to_packed da ex = (da * 2 ^ 112 + ex)%Z /\ from_packed (to_packed da ex) = (ex, da).
Proof. intros da ex He Hd. split; [exact (to_packed_add da ex He)|exact (from_to_packed da ex He Hd)]. Qed.

Lemma selection_gas : forall freq feeinfo F dest aos out,
  cf_outcome freq feeinfo F dest aos = Ok out ->
  exists c, cf_consensus F dest aos = Ok c /\
    (forall k g, In (k, g) out <->
       exists ex da, In (k, (ex, da)) (cf_usd c) /\ g = to_packed da ex /\
         (alookup k (cc_updates c) = None \/
          exists uex uda uts, alookup k (cc_updates c) = Some (uex, uda, uts) /\
            ((uts + freq < cc_ts c)%Z \/
             exists eppb dppb, alookup k feeinfo = Some (eppb, dppb) /\
               (deviates ex uex eppb = true \/ deviates da uda dppb = true)))) /\
    keys_strict out.
Proof.
  intros freq feeinfo F dest aos out H. destruct (cf_selection _ _ _ _ _ _ H) as [c [Hc [Hiff Hs]]].
  exists c. split; [exact Hc|]. split; [|exact Hs]. intros k g. rewrite Hiff. split.
  - intros [ex [da [Hi [Hsel ->]]]]. exists ex, da. split; [exact Hi|]. split; [reflexivity|]. now apply gas_selected_iff.
  - intros [ex [da [Hi [-> Hsel]]]]. exists ex, da. split; [exact Hi|]. split; [now apply gas_selected_iff|reflexivity].
Qed.

Lemma selection_token : forall freq tokeninfo feedchain F dest aos out,
  tp_outcome freq tokeninfo feedchain F dest aos = Ok out ->
  (freq = 0%Z /\ out = []) \/
  (freq <> 0%Z /\ exists c, tp_consensus feedchain F dest aos = Ok c /\
     (forall t p, In (t, p) out <->
        In (t, p) (tc_feed c) /\
        (alookup t (tc_updates c) = None \/
         exists uts uval ppb, alookup t (tc_updates c) = Some (uts, uval) /\ alookup t tokeninfo = Some ppb /\
           ((uts + freq < tc_ts c)%Z \/ deviates p uval ppb = true))) /\
     keys_strict out).
Proof.
  intros freq tokeninfo feedchain F dest aos out H.
  destruct (tp_selection _ _ _ _ _ _ _ H) as [Hz|[Hne [c [Hc [Hiff Hs]]]]]; [now left|right].
  split; [exact Hne|]. exists c. split; [exact Hc|]. split; [|exact Hs].
  intros t p. rewrite Hiff. rewrite token_selected_iff. tauto.
Qed.

(* MerkleP.v — the multiproof theorem for Model/Merkle.v: for every tree and every ascending, in-range, non-empty
   index set, VerifyComputeRoot applied to the selected leaves and the proof produced by Prove returns the root,
   provided the internal hash is commutative (hashutil keccak HashInternal sorts its two arguments). *)
Require Import Verif.Model.Base Verif.Model.Merkle.
From Coq Require Import Sorting.Sorted ZifyNat ZifyBool.

Definition ascn (l : list nat) : Prop := StronglySorted lt l.

(* ---------- parity ---------- *)
Lemma even_div2 x : Nat.even x = true -> x = 2 * Nat.div2 x.
Proof.
  intros He. pose proof (Nat.div2_odd x) as H. rewrite <- Nat.negb_even, He in H. cbn in H. lia.
Qed.
Lemma odd_div2 x : Nat.even x = false -> x = 2 * Nat.div2 x + 1.
Proof.
  intros He. pose proof (Nat.div2_odd x) as H. rewrite <- Nat.negb_even, He in H. cbn in H. lia.
Qed.
Lemma div2_double_plus k : Nat.div2 (2 * k) = k /\ Nat.div2 (2 * k + 1) = k.
Proof.
  split.
  - apply Nat.div2_double.
  - replace (2 * k + 1) with (S (2 * k)) by lia. apply Nat.div2_succ_double.
Qed.
Lemma div2_S_even n : Nat.even n = true -> Nat.div2 (S n) = Nat.div2 n.
Proof.
  intros E. pose proof (even_div2 n E) as E2. set (k := Nat.div2 n) in *.
  rewrite E2. replace (S (2 * k)) with (2 * k + 1) by lia. apply div2_double_plus.
Qed.
Lemma div2_S_odd n : Nat.even n = false -> Nat.div2 (S n) = S (Nat.div2 n).
Proof.
  intros E. pose proof (odd_div2 n E) as E2. set (k := Nat.div2 n) in *.
  rewrite E2. replace (S (2 * k + 1)) with (2 * (S k)) by lia. apply Nat.div2_double.
Qed.
Lemma div2_mono a b : a <= b -> Nat.div2 a <= Nat.div2 b.
Proof.
  intros Hab. pose proof (Nat.div2_odd a) as Ha. pose proof (Nat.div2_odd b) as Hb.
  destruct (Nat.odd a), (Nat.odd b); cbn in *; lia.
Qed.

(* ---------- prove_idx on ascending, in-range indices ---------- *)
Lemma sibling_cases x :
  (Nat.even x = true /\ sibling x = S x /\ x = 2 * parent x) \/
  (Nat.even x = false /\ S (sibling x) = x /\ x = 2 * parent x + 1).
Proof.
  unfold sibling, parent. destruct (Nat.even x) eqn:E.
  - left. split; [reflexivity|]. split; [reflexivity|]. now apply even_div2.
  - right. split; [reflexivity|]. pose proof (odd_div2 x E). split; lia.
Qed.

(* induction principle following the recursion of prove_idx (one or two indices consumed per step) *)
Lemma prove_idx_ind (P : list nat -> Prop) :
  P [] ->
  (forall x, P [x]) ->
  (forall x y rest, y = sibling x -> P rest -> P (x :: y :: rest)) ->
  (forall x y rest, y <> sibling x -> P (y :: rest) -> P (x :: y :: rest)) ->
  forall l, P l.
Proof.
  intros H0 H1 H2 H3 l.
  assert (forall n l, length l <= n -> P l) as Hn.
  { induction n as [|n IH]; intros l0 Hl.
    - destruct l0; [exact H0|cbn in Hl; lia].
    - destruct l0 as [|x [|y rest]]; [exact H0|apply H1|].
      destruct (Nat.eq_dec y (sibling x)) as [E|E].
      + apply H2; [exact E|]. apply IH. cbn in Hl. lia.
      + apply H3; [exact E|]. apply IH. cbn in *. lia. }
  apply (Hn (length l)). lia.
Qed.

Lemma prove_idx_pair x y rest : y = sibling x ->
  prove_idx (x :: y :: rest) =
  let '(n, a, f) := prove_idx rest in (parent x :: n, a, true :: f).
Proof. intros ->. cbn [prove_idx]. now rewrite Nat.eqb_refl. Qed.
Lemma prove_idx_single x y rest : y <> sibling x ->
  prove_idx (x :: y :: rest) =
  let '(n, a, f) := prove_idx (y :: rest) in (parent x :: n, sibling x :: a, false :: f).
Proof. intros Hn. cbn [prove_idx]. apply Nat.eqb_neq in Hn. now rewrite Hn. Qed.

(* next indices: ascending, below the next layer's length; first one is the parent of the first index;
   authentication indices: below the padded length; flags as many as next indices *)
Lemma prove_idx_props (m h : nat) (Hh : m <= 2 * h) : forall idxs,
  ascn idxs -> (forall i, In i idxs -> i < m) ->
  let '(n, a, f) := prove_idx idxs in
  ascn n /\ (forall i, In i n -> i < h) /\
  (forall i, In i a -> i < 2 * h) /\
  length f = length n /\ (idxs <> [] -> n <> []) /\
  (forall x rest, idxs = x :: rest -> forall i, In i n -> parent x <= i).
Proof.
  intros idxs. induction idxs as [|x|x y rest Hy IH|x y rest Hy IH] using prove_idx_ind; intros Hs Hr.
  - cbn [prove_idx]. repeat split; try constructor; try (intros i []); try reflexivity; try discriminate. congruence.
  - cbn [prove_idx]. assert (Hx : x < m) by (apply Hr; now left).
    assert (Hp : parent x < h) by (destruct (sibling_cases x) as [[_ [_ E]]|[_ [_ E]]]; lia).
    repeat split.
    + constructor; constructor.
    + intros i [<-|[]]. exact Hp.
    + intros i [<-|[]]. destruct (sibling_cases x) as [[_ [E1 E2]]|[_ [E1 E2]]]; lia.
    + discriminate.
    + intros x0 rest0 E i [<-|[]]. inversion E; subst. lia.
  - rewrite (prove_idx_pair _ _ _ Hy). destruct (prove_idx rest) as [[n a] f] eqn:Ep.
    inversion Hs as [|? ? Hs1 Hall1]; subst. inversion Hs1 as [|? ? Hs2 Hall2]; subst.
    assert (Hrr : forall i, In i rest -> i < m) by (intros i Hi; apply Hr; right; now right).
    specialize (IH Hs2 Hrr). cbn zeta in IH. destruct IH as [I1 [I2 [I3 [I4 [I5 I6]]]]].
    assert (Hx : x < sibling x) by (inversion Hall1; assumption).
    assert (Hy' : sibling x < m) by (apply Hr; right; now left).
    destruct (sibling_cases x) as [[_ [E1 E2]]|[_ [E1 E2]]]; [|lia].
    assert (Hp : parent x < h) by lia.
    repeat split.
    + constructor; [exact I1|]. rewrite Forall_forall. intros i Hi.
      destruct rest as [|z rest']; [cbn in Ep; inversion Ep; subst; destruct Hi|].
      specialize (I6 z rest' eq_refl i Hi).
      assert (Hz : sibling x < z) by (rewrite Forall_forall in Hall2; apply Hall2; now left).
      assert (parent x < parent z); [|lia].
      destruct (sibling_cases z) as [[_ [_ Z]]|[_ [_ Z]]]; lia.
    + intros i [<-|Hi]; [exact Hp| now apply I2].
    + exact I3.
    + cbn [length]. now rewrite I4.
    + discriminate.
    + intros x0 rest0 E i [<-|Hi]; inversion E; subst; [lia|].
      destruct rest as [|z rest']; [cbn in Ep; inversion Ep; subst; destruct Hi|].
      specialize (I6 z rest' eq_refl i Hi).
      assert (Hz : sibling x0 < z) by (rewrite Forall_forall in Hall2; apply Hall2; now left).
      destruct (sibling_cases z) as [[_ [_ Z]]|[_ [_ Z]]]; lia.
  - rewrite (prove_idx_single _ _ _ Hy). destruct (prove_idx (y :: rest)) as [[n a] f] eqn:Ep.
    inversion Hs as [|? ? Hs1 Hall1]; subst.
    assert (Hrr : forall i, In i (y :: rest) -> i < m) by (intros i Hi; apply Hr; now right).
    specialize (IH Hs1 Hrr). cbn zeta in IH. destruct IH as [I1 [I2 [I3 [I4 [I5 I6]]]]].
    assert (Hxy : x < y) by (inversion Hall1; assumption).
    assert (Hx : x < m) by (apply Hr; now left).
    assert (Hp : parent x < h) by (destruct (sibling_cases x) as [[_ [_ E]]|[_ [_ E]]]; lia).
    assert (Hpy : parent x < parent y).
    { destruct (sibling_cases x) as [[_ [E1 E2]]|[_ [E1 E2]]];
      destruct (sibling_cases y) as [[_ [_ Z]]|[_ [_ Z]]]; lia. }
    repeat split.
    + constructor; [exact I1|]. rewrite Forall_forall. intros i Hi. specialize (I6 y rest eq_refl i Hi). lia.
    + intros i [<-|Hi]; [exact Hp| now apply I2].
    + intros i [<-|Hi]; [|now apply I3].
      destruct (sibling_cases x) as [[_ [E1 E2]]|[_ [E1 E2]]]; lia.
    + cbn [length]. now rewrite I4.
    + discriminate.
    + intros x0 rest0 E i [<-|Hi]; inversion E; subst; [lia|].
      specialize (I6 y rest eq_refl i Hi). lia.
Qed.

Lemma asc_below_length m : forall l, ascn l -> (forall i, In i l -> i < m) -> length l <= m.
Proof.
  induction m as [|m IH]; intros l Hs Hr.
  - destruct l as [|x l]; [cbn; lia|]. specialize (Hr x (or_introl eq_refl)). lia.
  - (* remove the largest possible element by looking at the list from the front: shift *)
    destruct l as [|x l]; [cbn; lia|]. inversion Hs as [|? ? Hs' Hall]; subst. cbn [length].
    assert (length (map Nat.pred l) <= m); [|rewrite map_length in *; lia].
    apply IH.
    + clear Hr. induction Hs' as [|y l Hs' IHs Hall']; cbn [map]; [constructor|].
      inversion Hall as [|? ? Hxy Hall2]; subst.
      constructor; [apply IHs; [constructor; assumption|exact Hall2]|].
      rewrite Forall_forall in *. intros z Hz. apply in_map_iff in Hz. destruct Hz as [w [<- Hw]].
      specialize (Hall' w Hw). lia.
    + intros i Hi. apply in_map_iff in Hi. destruct Hi as [w [<- Hw]].
      rewrite Forall_forall in Hall. specialize (Hall w Hw). specialize (Hr w (or_intror Hw)). lia.
Qed.

Section MerkleP.
  Context {H : Type}.
  Variable hash : H -> H -> H.
  Variable zero : H.
  Hypothesis hash_comm : forall a b, hash a b = hash b a.

  Notation nthz L i := (nth i L zero).
  Definition vals (L : list H) (idxs : list nat) : list H := map (fun i => nthz L i) idxs.

  (* ---------- layers ---------- *)
  Lemma pair_up_nth : forall (L : list H) k, 2 * k < length L ->
    nthz (pair_up hash zero L) k = hash (nthz L (2 * k)) (nthz L (2 * k + 1)).
  Proof.
    fix IH 1. intros L k Hk. destruct L as [|a [|b L']].
    - cbn in Hk. lia.
    - cbn in Hk. assert (k = 0) by lia. subst. reflexivity.
    - destruct k as [|k]; [reflexivity|].
      cbn [pair_up]. replace (2 * S k) with (S (S (2 * k))) by lia.
      replace (S (S (2 * k)) + 1) with (S (S (2 * k + 1))) by lia. cbn [nth].
      apply IH. cbn [length] in Hk. lia.
  Qed.

  Lemma pair_up_length : forall (L : list H), length (pair_up hash zero L) = Nat.div2 (S (length L)).
  Proof.
    fix IH 1. intros L. destruct L as [|a [|b L']]; [reflexivity|reflexivity|].
    cbn [pair_up length]. rewrite IH. reflexivity.
  Qed.

  Lemma pad_length_ge (L : list H) : length L <= length (pad zero L).
  Proof. unfold pad. destruct (Nat.even (length L)); [lia|rewrite app_length; cbn; lia]. Qed.
  Lemma pad_length (L : list H) : length (pad zero L) = 2 * Nat.div2 (S (length L)).
  Proof.
    unfold pad. destruct (Nat.even (length L)) eqn:E.
    - rewrite (div2_S_even _ E). now apply even_div2.
    - rewrite (div2_S_odd _ E). pose proof (odd_div2 _ E) as E2. rewrite app_length. cbn [length]. lia.
  Qed.
  Lemma pad_nth (L : list H) i : nthz (pad zero L) i = nthz L i.
  Proof.
    unfold pad. destruct (Nat.even (length L)); [reflexivity|].
    destruct (Nat.lt_ge_cases i (length L)) as [Hi|Hi].
    - now rewrite app_nth1.
    - rewrite app_nth2 by exact Hi. rewrite (nth_overflow L) by exact Hi.
      destruct (i - length L) as [|[|j]]; reflexivity.
  Qed.

  Lemma sub_proof_vals (L : list H) : forall auth,
    (forall i, In i auth -> i < length (pad zero L)) ->
    sub_proof (pad zero L) auth = Ok (vals L auth).
  Proof.
    induction auth as [|i auth IH]; intros Hr; [reflexivity|].
    cbn [sub_proof vals map].
    assert (Hi : i < length (pad zero L)) by (apply Hr; now left).
    rewrite (nth_error_nth' _ zero Hi). rewrite IH by (intros j Hj; apply Hr; now right).
    cbn [rbind]. rewrite pad_nth. reflexivity.
  Qed.

  (* ---------- the verifier as one FIFO queue ---------- *)
  Fixpoint vq (flags : list bool) (q ps : list H) : res H :=
    match flags with
    | [] => match q, ps with [r], [] => Ok r | _, _ => Err end
    | true :: fl =>
        match q with
        | a :: b :: q' => vq fl (q' ++ [hash a b]) ps
        | _ => Err
        end
    | false :: fl =>
        match ps with
        | [] => Panic
        | a :: ps' => match q with b :: q' => vq fl (q' ++ [hash a b]) ps' | [] => Err end
        end
    end.

  Lemma vloop_vq : forall flags lv hs ps,
    hs <> [] \/ flags <> [] -> vloop hash flags lv hs ps = vq flags (lv ++ hs) ps.
  Proof.
    induction flags as [|f fl IH]; intros lv hs ps Hne.
    - destruct Hne as [Hne|Hne]; [|contradiction]. cbn [vloop vq].
      destruct lv as [|x lv]; cbn [app].
      + destruct hs as [|r [|r2 hs]]; [contradiction|reflexivity|reflexivity].
      + destruct hs as [|r hs]; [contradiction|]. destruct lv; reflexivity.
    - destruct f; cbn [vloop vq].
      + destruct lv as [|a [|b lv]]; cbn [pop_hash app].
        * destruct hs as [|a [|b hs]]; cbn [pop_hash]; try reflexivity.
          rewrite IH by (left; intros E; destruct hs; discriminate). reflexivity.
        * destruct hs as [|b hs]; cbn [pop_hash]; try reflexivity.
          rewrite IH by (left; intros E; destruct hs; discriminate). reflexivity.
        * rewrite IH by (left; intros E; destruct hs; discriminate). now rewrite <- app_assoc.
      + destruct ps as [|a ps]; [reflexivity|].
        destruct lv as [|b lv]; cbn [pop_hash app].
        * destruct hs as [|b hs]; cbn [pop_hash]; try reflexivity.
          rewrite IH by (left; intros E; destruct hs; discriminate). reflexivity.
        * rewrite IH by (left; intros E; destruct hs; discriminate). now rewrite <- app_assoc.
  Qed.

  (* a successful run consumed everything: the counting checks of VerifyComputeRoot follow *)
  Lemma vq_counts : forall flags q ps r, vq flags q ps = Ok r ->
    length q + length ps = S (length flags) /\ count_false flags = length ps.
  Proof.
    induction flags as [|f fl IH]; intros q ps r Hv.
    - cbn in Hv. destruct q as [|x [|y q]]; try discriminate. destruct ps; try discriminate. split; reflexivity.
    - destruct f; cbn [vq] in Hv.
      + destruct q as [|a [|b q]]; try discriminate. destruct (IH _ _ _ Hv) as [H1 H2].
        rewrite app_length in H1. cbn [length] in *. unfold count_false in *. cbn [filter negb]. lia.
      + destruct ps as [|a ps]; try discriminate. destruct q as [|b q]; try discriminate.
        destruct (IH _ _ _ Hv) as [H1 H2].
        rewrite app_length in H1. cbn [length] in *. unfold count_false in *. cbn [filter negb length]. lia.
  Qed.

  (* ---------- one layer ---------- *)
  Lemma layer_step (L : list H) : forall idxs,
    ascn idxs -> (forall i, In i idxs -> i < length L) ->
    forall Y fl P,
    let '(n, a, f) := prove_idx idxs in
    vq (f ++ fl) (vals L idxs ++ Y) (vals L a ++ P) = vq fl (Y ++ vals (pair_up hash zero L) n) P.
  Proof.
    intros idxs. induction idxs as [|x|x y rest Hy IH|x y rest Hy IH] using prove_idx_ind; intros Hs Hr Y fl P.
    - cbn [prove_idx vals map app]. now rewrite app_nil_r.
    - cbn [prove_idx vals map app vq].
      assert (Hx : x < length L) by (apply Hr; now left).
      f_equal. f_equal. f_equal.
      destruct (sibling_cases x) as [[_ [E1 E2]]|[_ [E1 E2]]].
      + rewrite pair_up_nth by lia. rewrite <- E2, E1. replace (x + 1) with (S x) by lia. apply hash_comm.
      + rewrite pair_up_nth by lia. rewrite <- E2. rewrite <- E1 at 2. replace (sibling x + 1) with (S (sibling x)) by lia.
        rewrite E1. replace (2 * parent x) with (sibling x) by lia. reflexivity.
    - rewrite (prove_idx_pair _ _ _ Hy). destruct (prove_idx rest) as [[n a] f] eqn:Ep.
      inversion Hs as [|? ? Hs1 Hall1]; subst. inversion Hs1 as [|? ? Hs2 Hall2]; subst.
      assert (Hrr : forall i, In i rest -> i < length L) by (intros i Hi; apply Hr; right; now right).
      specialize (IH Hs2 Hrr). cbn zeta in IH.
      assert (Hx : x < sibling x) by (inversion Hall1; assumption).
      assert (Hy' : sibling x < length L) by (apply Hr; right; now left).
      destruct (sibling_cases x) as [[_ [E1 E2]]|[_ [E1 E2]]]; [|lia].
      cbn [vals map app vq]. fold (vals L rest). fold (vals (pair_up hash zero L) n).
      rewrite <- app_assoc. rewrite IH. rewrite <- app_assoc. cbn [app].
      f_equal. f_equal. f_equal.
      rewrite pair_up_nth by lia. rewrite <- E2, E1. replace (x + 1) with (S x) by lia. reflexivity.
    - rewrite (prove_idx_single _ _ _ Hy). destruct (prove_idx (y :: rest)) as [[n a] f] eqn:Ep.
      inversion Hs as [|? ? Hs1 Hall1]; subst.
      assert (Hrr : forall i, In i (y :: rest) -> i < length L) by (intros i Hi; apply Hr; now right).
      specialize (IH Hs1 Hrr). cbn zeta in IH.
      assert (Hx : x < length L) by (apply Hr; now left).
      change (vals L (x :: y :: rest)) with (nthz L x :: vals L (y :: rest)).
      change (vals L (sibling x :: a)) with (nthz L (sibling x) :: vals L a).
      cbn [app vq]. rewrite <- app_assoc. rewrite IH. rewrite <- app_assoc. cbn [app vals map].
      f_equal. f_equal. f_equal.
      destruct (sibling_cases x) as [[_ [E1 E2]]|[_ [E1 E2]]].
      + rewrite pair_up_nth by lia. rewrite <- E2, E1. replace (x + 1) with (S x) by lia. apply hash_comm.
      + rewrite pair_up_nth by lia. replace (2 * parent x) with (sibling x) by lia.
        replace (sibling x + 1) with x by lia. reflexivity.
  Qed.

  (* ---------- all layers ---------- *)
  Lemma layers_from_nonempty fuel (L : list H) : layers_from hash zero fuel L <> [].
  Proof. destruct fuel; cbn [layers_from]; [discriminate|]. destruct (Nat.leb (length L) 1); discriminate. Qed.

  Lemma troot_cons (l : list H) t : t <> [] -> troot zero (l :: t) = troot zero t.
  Proof. intros Hne. unfold troot. destruct t; [contradiction|reflexivity]. Qed.

  Lemma div2_S_le n : 2 * Nat.div2 (S n) <= S n /\ n <= 2 * Nat.div2 (S n).
  Proof. pose proof (Nat.div2_odd (S n)) as E. destruct (Nat.odd (S n)); cbn [Nat.b2n] in E; lia. Qed.

  Lemma multiproof_layers : forall fuel (L : list H) idxs,
    length L <= fuel -> ascn idxs -> idxs <> [] -> (forall i, In i idxs -> i < length L) ->
    exists ps fl,
      prove_layers (layers_from hash zero fuel L) idxs = Ok (ps, fl) /\
      vq fl (vals L idxs) ps = Ok (troot zero (layers_from hash zero fuel L)) /\
      (forall d, length L <= 2 ^ d -> length fl < 2 ^ d).
  Proof.
    induction fuel as [|fuel IH]; intros L idxs Hf Hs Hne Hr.
    - destruct idxs as [|x idxs]; [contradiction|]. specialize (Hr x (or_introl eq_refl)). lia.
    - cbn [layers_from]. destruct (Nat.leb_spec (length L) 1) as [Hl|Hl].
      + (* a single node: it is the root *)
        exists [], []. cbn [prove_layers].
        destruct idxs as [|x idxs]; [contradiction|].
        assert (Hx : x = 0) by (specialize (Hr x (or_introl eq_refl)); lia). subst x.
        destruct idxs as [|y idxs].
        * destruct L as [|a [|b L]]; [cbn in Hr; specialize (Hr 0 (or_introl eq_refl)); lia| |cbn in Hl; lia].
          split; [reflexivity|]. split; [reflexivity|]. intros d _. cbn [length]. pose proof (Nat.pow_nonzero 2 d). lia.
        * exfalso. inversion Hs as [|? ? _ Hall]; subst. inversion Hall; subst.
          specialize (Hr y (or_intror (or_introl eq_refl))). lia.
      + set (L' := pair_up hash zero L). set (t' := layers_from hash zero fuel L').
        pose proof (div2_S_le (length L)) as [D1 D2].
        pose proof (prove_idx_props (length L) (Nat.div2 (S (length L))) D2 idxs Hs Hr) as Hp.
        pose proof (layer_step L idxs Hs Hr [] ) as Hstep.
        destruct (prove_idx idxs) as [[n a] f0] eqn:Ep.
        destruct Hp as [P1 [P2 [P3 [P4 [P5 _]]]]].
        assert (HL' : length L' = Nat.div2 (S (length L))) by apply pair_up_length.
        destruct (IH L' n) as [ps' [fl' [I1 [I2 I3]]]]; try assumption.
        * rewrite HL'. lia.
        * now apply P5.
        * intros i Hi. rewrite HL'. now apply P2.
        * fold t' in I1, I2.
          assert (Hsp : sub_proof (pad zero L) a = Ok (vals L a)).
          { apply sub_proof_vals. intros i Hi. rewrite pad_length. now apply P3. }
          exists (vals L a ++ ps'), (f0 ++ fl').
          split; [|split].
          -- cbn [prove_layers]. destruct t' as [|l1 t1] eqn:Et; [exfalso; eapply layers_from_nonempty; exact Et|].
             rewrite Ep, Hsp. cbn [rbind]. rewrite I1. reflexivity.
          -- rewrite troot_cons by apply layers_from_nonempty. fold t'.
             specialize (Hstep fl' ps'). rewrite app_nil_r in Hstep. rewrite Hstep. cbn [app]. exact I2.
          -- intros d Hd. destruct d as [|d]; [cbn in Hd; lia|].
             rewrite Nat.pow_succ_r' in *. rewrite app_length, P4.
             assert (length n <= length L').
             { apply asc_below_length; [exact P1|]. intros i Hi. rewrite HL'. now apply P2. }
             assert (length fl' < 2 ^ d) by (apply I3; lia). lia.
  Qed.

  (* ---------- the multiproof theorem ---------- *)
  Theorem multiproof (leaves : list H) idxs :
    length leaves <= max_leaves -> ascn idxs -> idxs <> [] -> (forall i, In i idxs -> i < length leaves) ->
    exists t ps fl,
      new_tree hash zero leaves = Ok t /\ prove t idxs = Ok (ps, fl) /\
      verify hash (vals leaves idxs) ps fl = Ok (troot zero t) /\ troot zero t = mroot hash zero leaves.
  Proof.
    intros Hmax Hs Hne Hr.
    destruct (multiproof_layers (length leaves) leaves idxs (le_n _) Hs Hne Hr) as [ps [fl [M1 [M2 M3]]]].
    exists (layers_from hash zero (length leaves) leaves), ps, fl.
    split; [|split; [exact M1|split; [|reflexivity]]].
    - unfold new_tree. destruct leaves; [|reflexivity].
      destruct idxs as [|x idxs]; [contradiction|]. specialize (Hr x (or_introl eq_refl)). cbn in Hr. lia.
    - destruct (vq_counts _ _ _ _ M2) as [C1 C2].
      assert (Hfl : length fl < 256) by (apply (M3 8); exact Hmax).
      unfold verify, max_leaves in *. set (l := length (vals leaves idxs)) in *. set (p := length ps) in *.
      assert (Hl : 0 < l). { unfold l, vals. rewrite map_length. destruct idxs; [contradiction|cbn; lia]. }
      destruct (Nat.eqb_spec l 0) as [E|_]; [lia|]. cbn [andb].
      destruct (Nat.ltb_spec (256 + 1) l) as [E|_]; [lia|].
      destruct (Nat.ltb_spec (256 + 1) p) as [E|_]; [lia|]. cbn [orb].
      destruct (Nat.ltb_spec 256 (l + p - 1)) as [E|_]; [lia|].
      destruct (Nat.eqb_spec (l + p - 1) (length fl)) as [_|E]; [|lia]. cbn [negb].
      destruct (Nat.eqb_spec (l + p - 1) 0) as [E0|E0].
      + assert (length fl = 0) by lia. destruct fl; [|discriminate]. cbn [vq] in M2.
        destruct (vals leaves idxs) as [|x [|y q]]; try discriminate. destruct ps; try discriminate. exact M2.
      + destruct (Nat.eqb_spec (count_false fl) p) as [_|E]; [|contradiction]. cbn [negb].
        rewrite vloop_vq by (right; intros ->; cbn in *; lia). rewrite app_nil_r. exact M2.
  Qed.

End MerkleP.

(* non-vacuity: a 5-leaf tree, leaves 1, 2 and 4 proved together *)
Example multiproof_example :
  let h := fun a b : N => (N.min a b * 1000 + N.max a b + 7)%N in
  let leaves := [11; 12; 13; 14; 15]%N in
  exists t, new_tree h 999%N leaves = Ok t /\
    prove t [1; 2; 4] = Ok ([11; 14; 999; 999]%N, [false; false; false; true; false; true]) /\
    verify h [12; 13; 15]%N [11; 14; 999; 999]%N [false; false; false; true; false; true] = Ok (troot 999%N t).
Proof. cbv zeta. eexists. split; [reflexivity|]. split; vm_compute; reflexivity. Qed.

(* the commutativity hypothesis is necessary: with a hash that is not commutative the proof of an even index alone
   does not verify (the verifier always puts the proof hash first) *)
Theorem multiproof_needs_commutativity :
  exists (h : N -> N -> N) leaves idxs t ps fl,
    ascn idxs /\ new_tree h 0%N leaves = Ok t /\ prove t idxs = Ok (ps, fl) /\
    verify h (vals 0%N leaves idxs) ps fl <> Ok (troot 0%N t).
Proof.
  exists (fun a b => 2 * a + b)%N, [1; 2]%N, [0]. eexists. eexists. eexists.
  split; [repeat constructor|]. split; [reflexivity|]. split; [reflexivity|]. vm_compute. discriminate.
Qed.

(* ---------- flag bits: BitFlagsToBools undoes BoolsToBitFlags on the first |flags| bits ---------- *)
Lemma flags_roundtrip : forall l, flags_to_bools (bools_to_flags l) (length l) = l.
Proof.
  induction l as [|b l IH]; [reflexivity|].
  cbn [bools_to_flags length flags_to_bools]. f_equal.
  - rewrite Z.odd_add_mul_2. destruct b; reflexivity.
  - assert (E : Z.div2 ((if b then 1 else 0) + 2 * bools_to_flags l) = bools_to_flags l).
    { rewrite Z.div2_div. generalize (bools_to_flags l). intros z.
      destruct b.
      - symmetry. apply (Z.div_unique (1 + 2 * z) 2 z 1); lia.
      - symmetry. apply (Z.div_unique (0 + 2 * z) 2 z 0); lia. }
    rewrite E. exact IH.
Qed.

Lemma verify_ok_length {H} (h : H -> H -> H) l p f r :
  verify h l p f = Ok r -> length f = length l + length p - 1.
Proof.
  unfold verify.
  destruct (Nat.eqb (length l) 0 && Nat.eqb (length p) 0); [discriminate|].
  destruct (Nat.ltb (max_leaves + 1) (length l) || Nat.ltb (max_leaves + 1) (length p)); [discriminate|].
  destruct (Nat.ltb max_leaves (length l + length p - 1)); [discriminate|].
  destruct (Nat.eqb_spec (length l + length p - 1) (length f)) as [E|E]; cbn [negb]; [|discriminate].
  intros _. symmetry. exact E.
Qed.

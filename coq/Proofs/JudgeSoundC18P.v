(* JudgeSoundC18P.v — the executable properties of Check/C18_check.v (hseq_ok, hconc_ok, rseq_ok, rconc_ok, bm_ok,
   conv_ok) tied to the statements of Props/C18.v:
     x_model_passes : the model's own output passes the executable property (no false alarm from the judge itself);
     x_sound        : an ARBITRARY output accepted by the executable property satisfies the property clause, stated
                      with the vocabulary of the Props theorems. *)
Require Import Verif.Model.Base Verif.Proofs.BaseP Verif.Model.Pollers Verif.Proofs.PollersP.
Require Import Verif.Check.C18_check.
From Coq Require Import Sorting.Sorted.

(* ====================== boolean equalities decide equality ====================== *)
Lemma list_eqb_spec {A} (e : A -> A -> bool) :
  (forall a b, e a b = true <-> a = b) -> forall l1 l2, list_eqb e l1 l2 = true <-> l1 = l2.
Proof.
  intros He. induction l1 as [|x l1 IH]; intros [|y l2]; cbn [list_eqb]; try (split; [discriminate|discriminate]).
  - tauto.
  - rewrite andb_true_iff, He, IH. split; [intros [-> ->]; reflexivity|intros H; inversion H; auto].
Qed.
Lemma option_eqb_spec {A} (e : A -> A -> bool) :
  (forall a b, e a b = true <-> a = b) -> forall o1 o2, option_eqb e o1 o2 = true <-> o1 = o2.
Proof.
  intros He [x|] [y|]; cbn [option_eqb]; try (split; [discriminate|discriminate]); [|tauto].
  rewrite He. split; [intros ->; reflexivity|intros H; inversion H; auto].
Qed.
Lemma pair_eqb_spec {A B} (ea : A -> A -> bool) (eb : B -> B -> bool) :
  (forall a b, ea a b = true <-> a = b) -> (forall a b, eb a b = true <-> a = b) ->
  forall p q, pair_eqb ea eb p q = true <-> p = q.
Proof.
  intros Ha Hb [a1 b1] [a2 b2]. unfold pair_eqb. cbn [fst snd]. rewrite andb_true_iff, Ha, Hb.
  split; [intros [-> ->]; reflexivity|intros H; inversion H; auto].
Qed.
Lemma res_eqb_spec {A} (e : A -> A -> bool) :
  (forall a b, e a b = true <-> a = b) -> forall r1 r2, res_eqb e r1 r2 = true <-> r1 = r2.
Proof.
  intros He [x| | |] [y| | |]; cbn [res_eqb]; try (split; [discriminate|discriminate]); try tauto.
  rewrite He. split; [intros ->; reflexivity|intros H; inversion H; auto].
Qed.
Lemma bool_eqb_spec a b : Bool.eqb a b = true <-> a = b.
Proof. apply Bool.eqb_true_iff. Qed.

Lemma cc_eqb_spec a b : cc_eqb a b = true <-> a = b.
Proof.
  destruct a as [f1 n1 c1], b as [f2 n2 c2]. unfold cc_eqb. cbn [cc_f cc_nodes cc_cfg].
  rewrite !andb_true_iff, !N.eqb_eq, (list_eqb_spec N.eqb N.eqb_eq).
  split; [intros [[-> ->] ->]; reflexivity|intros H; inversion H; auto].
Qed.
Lemma hcfgs_eqb_spec a b : hcfgs_eqb a b = true <-> a = b.
Proof. apply list_eqb_spec, pair_eqb_spec; [exact N.eqb_eq|exact cc_eqb_spec]. Qed.
Lemma hn_eqb_spec a b : hn_eqb a b = true <-> a = b.
Proof.
  destruct a as [i1 p1 k1 c1], b as [i2 p2 k2 c2]. unfold hn_eqb. cbn [hn_id hn_peer hn_key hn_chains].
  rewrite !andb_true_iff, !N.eqb_eq, (list_eqb_spec N.eqb N.eqb_eq).
  split; [intros [[[-> ->] ->] ->]; reflexivity|intros H; inversion H; auto].
Qed.
Lemma fmap_eqb_spec a b : fmap_eqb a b = true <-> a = b.
Proof. apply list_eqb_spec, pair_eqb_spec; [exact N.eqb_eq|exact Z.eqb_eq]. Qed.
Lemma hc_eqb_spec a b : hc_eqb a b = true <-> a = b.
Proof.
  destruct a as [n1 f1 d1 o1], b as [n2 f2 d2 o2]. unfold hc_eqb. cbn [hc_nodes hc_f hc_digest hc_off].
  rewrite !andb_true_iff, !N.eqb_eq, (list_eqb_spec hn_eqb hn_eqb_spec), fmap_eqb_spec.
  split; [intros [[[-> ->] ->] ->]; reflexivity|intros H; inversion H; auto].
Qed.
Lemma nn_eqb_spec (a b : N * N) : pair_eqb N.eqb N.eqb a b = true <-> a = b.
Proof. apply pair_eqb_spec; exact N.eqb_eq. Qed.

Lemma hobs_eqb_spec a b : hobs_eqb a b = true <-> a = b.
Proof.
  destruct a as [[[[[[a1 a2] a3] a4] a5] a6] a7], b as [[[[[[b1 b2] b3] b4] b5] b6] b7]. unfold hobs_eqb.
  rewrite !andb_true_iff, hcfgs_eqb_spec, (list_eqb_spec N.eqb N.eqb_eq), (list_eqb_spec _ nn_eqb_spec),
    (list_eqb_spec _ (list_eqb_spec N.eqb N.eqb_eq)), (list_eqb_spec _ (option_eqb_spec _ cc_eqb_spec)), !bool_eqb_spec.
  split; [intros [[[[[[-> ->] ->] ->] ->] ->] ->]; reflexivity|intros H; inversion H; repeat split].
Qed.
Lemma robs_eqb_spec a b : robs_eqb a b = true <-> a = b.
Proof.
  destruct a as [[[[[[a1 a2] a3] a4] a5] a6] a7], b as [[[[[[b1 b2] b3] b4] b5] b6] b7]. unfold robs_eqb.
  rewrite !andb_true_iff, nn_eqb_spec, (list_eqb_spec _ (option_eqb_spec _ (list_eqb_spec _ hn_eqb_spec))),
    (list_eqb_spec _ bool_eqb_spec), (list_eqb_spec _ (option_eqb_spec _ fmap_eqb_spec)),
    (list_eqb_spec _ (option_eqb_spec _ N.eqb_eq)), !bool_eqb_spec.
  split; [intros [[[[[[-> ->] ->] ->] ->] ->] ->]; reflexivity|intros H; inversion H; repeat split].
Qed.

(* =====================================================================================================
   hseq / rseq: sequential histories.  hseq_ok i o  is  "o = the history-level reading of i" (C18_snapshot_home,
   C18_health_exact_home); soundness is stated per read, with the events that precede it. *)

(* the reads of a history, each with the poller events that precede it *)
Fixpoint hreads (pre : list home_ev) (evs : list hev) : list (list home_ev * list N * list N) :=
  match evs with
  | [] => []
  | HRead ps ss :: r => (pre, ps, ss) :: hreads (pre ++ [ERead]) r
  | e :: r => hreads (pre ++ [hev_pev e]) r
  end.
(* what the property says a reader sees after the events [pre]: every getter answers from the views derived from ONE
   configuration - the most recent successfully fetched one ([] before the first success) -, Ready is "polling",
   HealthReport is the history-level health *)
Definition hread_prop (rd : list home_ev * list N * list N) (ob : hobs) : Prop :=
  let '(pre, ps, ss) := rd in
  let v := home_derive (home_cfg_of pre) in
  ob = (get_all_chain_configs v, get_known_chains v, get_fchain v, map (get_supported_chains v) ps,
        map (get_chain_config v) ss, running home_fetch pre, spec_healthy home_fetch true pre).

Lemma hseq_spec_reads evs : forall pre,
  hseq_spec true pre evs =
  map (fun rd => let '(p, ps, ss) := rd in
                 hobs_mk (home_derive (home_cfg_of p)) (running home_fetch p) (spec_healthy home_fetch true p) ps ss)
      (hreads pre evs).
Proof.
  induction evs as [|e evs IH]; intros pre; [reflexivity|].
  destruct e; cbn [hseq_spec hreads map hev_pev]; try apply IH.
  rewrite IH. f_equal. f_equal. unfold spec_views, home_cfg_of. destruct (last_good home_fetch pre); reflexivity.
Qed.

Lemma Forall2_map_l {A B} (P : A -> B -> Prop) (f : A -> B) l : (forall a, P a (f a)) -> Forall2 P l (map f l).
Proof. intros H. induction l as [|a l IH]; cbn [map]; constructor; auto. Qed.

Lemma Forall2_imp {A B} (P Q : A -> B -> Prop) : (forall a b, P a b -> Q a b) ->
  forall l1 l2, Forall2 P l1 l2 -> Forall2 Q l1 l2.
Proof. intros H l1 l2 HF. induction HF; constructor; auto. Qed.

Lemma list_eqb_refl {A} (e : A -> A -> bool) : (forall a b, e a b = true <-> a = b) -> forall l, list_eqb e l l = true.
Proof. intros He l. now apply (list_eqb_spec e He). Qed.

Lemma hseq_model_passes i : hseq_ok i (hseq_model i) = true.
Proof. unfold hseq_ok. rewrite hseq_model_satisfies_ok. apply list_eqb_refl, hobs_eqb_spec. Qed.

Lemma hseq_ok_eq i o : hseq_ok i o = true -> o = hseq_spec true [] i.
Proof. unfold hseq_ok. intros H. apply (list_eqb_spec _ hobs_eqb_spec) in H. now symmetry. Qed.

Lemma hseq_sound i o : hseq_ok i o = true -> Forall2 hread_prop (hreads [] i) o.
Proof.
  intros H. apply hseq_ok_eq in H. subst o. rewrite hseq_spec_reads. apply Forall2_map_l.
  intros [[p ps] ss]. reflexivity.
Qed.

(* the health component in the wrap-free form of C18_health_home *)
Lemma hseq_sound_health pre : (N.of_nat (length pre) < two64)%N ->
  spec_healthy home_fetch true pre = running home_fetch pre && Nat.ltb (trailing_failures home_fetch pre) 10.
Proof. intros H. destruct (home_health_exact pre) as [<- _]. now apply home_health. Qed.

(* an accepted output IS the model's: every Props theorem about the model's run transfers *)
Lemma hseq_ok_is_model i o : hseq_ok i o = true -> o = hseq_model i.
Proof. intros H. rewrite hseq_model_satisfies_ok. now apply hseq_ok_eq. Qed.

Definition hs_page : list (option (list entry)) := [Some [mkE 1 [1; 2] 1 (Some 1); mkE 2 [2] 0 (Some 3)]]%N.
Example hseq_ok_example :
  let i := [HStart; HPoll hs_page; HRead [1; 2] [1; 3]; HPoll [None]; HRead [2] [2]; HClose; HRead [] []]%N in
  hseq_ok i (hseq_model i) = true /\ length (hseq_model i) = 3%nat /\
  exists a b c d e f g, nth_error (hseq_model i) 1 = Some (a, b, c, d, e, f, g) /\ b = [1; 2]%N /\ f = true.
Proof. vm_compute. split; [reflexivity|]. split; [reflexivity|]. repeat eexists. Qed.

(* ---------- rseq ---------- *)
Fixpoint rreads (pre : list rmn_ev) (evs : list rev_) : list (list rmn_ev * list N) :=
  match evs with
  | [] => []
  | RRead ds :: r => (pre, ds) :: rreads (pre ++ [ERead]) r
  | e :: r => rreads (pre ++ [rev_pev e]) r
  end.
(* the state the readers see: that of the most recent successful fetch, the initial one before the first success
   (C18_snapshot_rmn) *)
Definition rmn_views_of (pre : list rmn_ev) : rviews :=
  match last_good rmn_fetch pre with Some v => v | None => rmn_init end.
Definition rread_prop (rd : list rmn_ev * list N) (ob : robs) : Prop :=
  let '(pre, ds) := rd in
  let v := rmn_views_of pre in
  ob = (get_digests v, map (get_nodes_info v) ds, map (is_digest_set v) ds, map (get_f v) ds, map (get_offchain v) ds,
        running rmn_fetch pre, spec_healthy rmn_fetch true pre).

Lemma rseq_spec_reads evs : forall pre,
  rseq_spec pre evs =
  map (fun rd => let '(p, ds) := rd in
                 robs_mk (rmn_views_of p) (running rmn_fetch p) (spec_healthy rmn_fetch true p) ds) (rreads pre evs).
Proof.
  induction evs as [|e evs IH]; intros pre; [reflexivity|].
  destruct e; cbn [rseq_spec rreads map rev_pev]; try apply IH.
  rewrite IH. reflexivity.
Qed.

Lemma rseq_model_passes i : rseq_ok i (rseq_model i) = true.
Proof. unfold rseq_ok. rewrite rseq_model_satisfies_ok. apply list_eqb_refl, robs_eqb_spec. Qed.

Lemma rseq_ok_eq i o : rseq_ok i o = true -> o = rseq_spec [] i.
Proof. unfold rseq_ok. intros H. apply (list_eqb_spec _ robs_eqb_spec) in H. now symmetry. Qed.

Lemma rseq_sound i o : rseq_ok i o = true -> Forall2 rread_prop (rreads [] i) o.
Proof.
  intros H. apply rseq_ok_eq in H. subst o. rewrite rseq_spec_reads. apply Forall2_map_l.
  intros [p ds]. reflexivity.
Qed.

Lemma rseq_sound_health pre : (N.of_nat (length pre) < two64)%N ->
  spec_healthy rmn_fetch true pre = running rmn_fetch pre && Nat.ltb (trailing_failures rmn_fetch pre) 10.
Proof. intros H. destruct (rmn_health_exact pre) as [<- _]. now apply rmn_health. Qed.

Lemma rseq_ok_is_model i o : rseq_ok i o = true -> o = rseq_model i.
Proof. intros H. rewrite rseq_model_satisfies_ok. now apply rseq_ok_eq. Qed.

Definition rs_vc (d : N) (b : Z) : vconfig := mkVC d [mkRN 11 21; mkRN 12 22] [mkRC 100 1 (Some b)] 4.
Example rseq_ok_example :
  let i := [RStart; RPoll (Some (rs_vc 7 1, rs_vc 0 0)); RRead [7; 8]; RPoll None; RRead [7]; RClose; RRead []]%N in
  rseq_ok i (rseq_model i) = true /\ length (rseq_model i) = 3%nat /\
  exists b c d e f g, nth_error (rseq_model i) 1 = Some ((7, 0)%N, b, c, d, e, f, g) /\ c = [true] /\ f = true.
Proof. vm_compute. split; [reflexivity|]. split; [reflexivity|]. repeat eexists. Qed.

(* =====================================================================================================
   hconc / rconc: what 16 reader goroutines saw while the poller refreshed.  The judge's model is the constant
   ([], []) and its comparison is constantly true: the whole verdict is conc_ok.  What it guarantees, in words of
   C18_snapshot_home / C18_snapshot_rmn and of the lock-level clause "every getter sees fields of ONE version, never a
   mixture" (C18_locks_all_interleavings): every view seen is a view of ONE polled configuration; the four fields of a
   struct copy come from one and the same snapshot; a reader never goes back to an older snapshot. *)
Lemma all_some_spec {A} (l : list (option A)) : forall r, all_some l = Some r -> l = map Some r.
Proof.
  induction l as [|[x|] l IH]; intros r H; cbn [all_some] in H; try discriminate.
  - inversion H. reflexivity.
  - destruct (all_some l) as [r'|]; [|discriminate]. inversion H; subst r. cbn [map]. now rewrite (IH r').
Qed.
Lemma all_some_map {A B} (f : A -> option B) l r :
  all_some (map f l) = Some r -> Forall2 (fun a b => f a = Some b) l r.
Proof.
  revert r. induction l as [|a l IH]; intros r H; cbn [map all_some] in H.
  - inversion H. constructor.
  - destruct (f a) as [b|] eqn:E; [|discriminate]. destruct (all_some (map f l)) as [r'|]; [|discriminate].
    inversion H; subst r. constructor; [exact E|now apply IH].
Qed.
Lemma find_idx_spec {A} (f : A -> bool) l : forall i k,
  find_idx f l i = Some k -> (i <= k)%N /\ exists v, nth_error l (N.to_nat (k - i)) = Some v /\ f v = true.
Proof.
  induction l as [|x l IH]; intros i k H; cbn [find_idx] in H; [discriminate|].
  destruct (f x) eqn:E.
  - inversion H; subst k. split; [lia|]. exists x. rewrite N.sub_diag. split; [reflexivity|exact E].
  - destruct (IH _ _ H) as [Hle [v [Hv Hf]]]. split; [lia|]. exists v. split; [|exact Hf].
    replace (N.to_nat (k - i)) with (S (N.to_nat (k - N.succ i))) by lia. exact Hv.
Qed.
Lemma nondecreasing_sorted l : nondecreasing l = true -> Sorted N.le l.
Proof.
  induction l as [|x [|y r] IH]; intros H.
  - constructor.
  - repeat constructor.
  - cbn [nondecreasing] in H. apply andb_true_iff in H. destruct H as [Hxy Hr]. apply N.leb_le in Hxy.
    constructor; [now apply IH|constructor; exact Hxy].
Qed.
Lemma record_ok_spec r : record_ok r = true -> exists a b c d s, r = [a; b; c; d; s; s; s; s].
Proof.
  destruct r as [|a [|b [|c [|d [|s1 [|s2 [|s3 [|s4 [|x r]]]]]]]]]; cbn [record_ok]; try discriminate.
  rewrite !andb_true_iff, !N.eqb_eq. intros [[-> ->] ->]. now exists a, b, c, d, s4.
Qed.

(* conc_ok as it was before: a view was resolved to the FIRST candidate it matches *)
Definition conc_ok_before {V IT} (cands : list V) (matches : V -> IT -> bool) (o : list IT * list (list (list N))) : bool :=
  let '(table, readers) := o in
  match all_some (map (fun it => find_idx (fun v => matches v it) cands 0%N) table) with
  | None => false
  | Some idx =>
      forallb (fun recs =>
        match all_some (map (fun r => all_some (map (fun k => nth_error idx (N.to_nat k)) r)) recs) with
        | None => false
        | Some irecs => forallb record_ok irecs && nondecreasing (concat irecs)
        end) readers
  end.

(* cur <= s1 <= s2 <= ... *)
Fixpoint chain (cur : N) (ss : list N) : Prop :=
  match ss with [] => True | s :: r => (cur <= s)%N /\ chain s r end.
Lemma chain_sorted ss : forall cur, chain cur ss <-> Sorted N.le (cur :: ss).
Proof.
  induction ss as [|s r IH]; intros cur; cbn [chain].
  - split; intros _; [repeat constructor|exact I].
  - rewrite IH. split.
    + intros [Hle Hs]. constructor; [exact Hs|constructor; exact Hle].
    + intros Hs. inversion Hs as [|x l Hs' Hhd]; subst. inversion Hhd; subst. split; assumption.
Qed.
Lemma chain0_sorted ss : chain 0%N ss <-> Sorted N.le ss.
Proof.
  rewrite chain_sorted. split.
  - intros H. now inversion H.
  - intros H. constructor; [exact H|]. destruct ss; constructor. lia.
Qed.
Lemma chain_weaken ss : forall cur cur', (cur' <= cur)%N -> chain cur ss -> chain cur' ss.
Proof. destruct ss as [|s r]; intros cur cur' Hle H; [exact I|]. cbn [chain] in *. destruct H. split; [lia|assumption]. Qed.
Lemma sorted_nondecreasing l : Sorted N.le l -> nondecreasing l = true.
Proof.
  induction l as [|x [|y r] IH]; intros H; [reflexivity|reflexivity|].
  inversion H as [|a b Hs Hhd]; subst. inversion Hhd; subst. cbn [nondecreasing].
  apply andb_true_iff. split; [now apply N.leb_le|now apply IH].
Qed.

Lemma and_rows_set a : forall b n,
  nth_error (and_rows a b) n = Some true <-> nth_error a n = Some true /\ nth_error b n = Some true.
Proof.
  induction a as [|x a IH]; intros b n.
  - cbn [and_rows]. destruct n; cbn [nth_error]; split; [discriminate|intros [H _]; discriminate|discriminate|intros [H _]; discriminate].
  - destruct b as [|y b]; cbn [and_rows].
    + destruct n; cbn [nth_error]; split; try discriminate; intros [_ H]; discriminate.
    + destruct n as [|n]; cbn [nth_error]; [|apply IH].
      destruct x, y; cbn [andb]; split; try discriminate; try (intros [H1 H2]; discriminate); auto.
Qed.
Lemma next_set_spec row : forall i cur s,
  next_set row i cur = Some s -> (i <= s)%N /\ (cur <= s)%N /\ nth_error row (N.to_nat (s - i)) = Some true.
Proof.
  induction row as [|b r IH]; intros i cur s H; cbn [next_set] in H; [discriminate|].
  destruct (b && N.leb cur i) eqn:E.
  - inversion H; subst s. apply andb_true_iff in E. destruct E as [-> Hle]. apply N.leb_le in Hle.
    rewrite N.sub_diag. repeat split; [lia|exact Hle].
  - destruct (IH _ _ _ H) as [Hi [Hc Hn]]. repeat split; [lia|exact Hc|].
    replace (N.to_nat (s - i)) with (S (N.to_nat (s - N.succ i))) by lia. exact Hn.
Qed.
Lemma next_set_least row : forall i cur s',
  (i <= s')%N -> (cur <= s')%N -> nth_error row (N.to_nat (s' - i)) = Some true ->
  exists s, next_set row i cur = Some s /\ (s <= s')%N.
Proof.
  induction row as [|b r IH]; intros i cur s' Hi Hc Hn.
  - destruct (N.to_nat (s' - i)); discriminate.
  - cbn [next_set]. destruct (b && N.leb cur i) eqn:E; [now exists i|].
    destruct (N.eq_dec s' i) as [->|Hne].
    + rewrite N.sub_diag in Hn. cbn in Hn. inversion Hn; subst b. apply N.leb_le in Hc. rewrite Hc in E. discriminate.
    + apply IH; [lia|exact Hc|]. replace (N.to_nat (s' - i)) with (S (N.to_nat (s' - N.succ i))) in Hn by lia. exact Hn.
Qed.
Lemma next_set0_spec row cur s : next_set row 0%N cur = Some s -> (cur <= s)%N /\ nth_error row (N.to_nat s) = Some true.
Proof. intros H. apply next_set_spec in H. rewrite N.sub_0_r in H. tauto. Qed.
Lemma next_set0_least row cur s' : (cur <= s')%N -> nth_error row (N.to_nat s') = Some true ->
  exists s, next_set row 0%N cur = Some s /\ (s <= s')%N.
Proof. intros Hc Hn. apply next_set_least; [lia|exact Hc|now rewrite N.sub_0_r]. Qed.

Lemma all_some_of_Forall2 {A B} (f : A -> option B) l r :
  Forall2 (fun a b => f a = Some b) l r -> all_some (map f l) = Some r.
Proof. induction 1 as [|a b l r Hab _ IH]; [reflexivity|]. cbn [map all_some]. now rewrite Hab, IH. Qed.
Lemma Forall2_nth_r {A B} (P : A -> B -> Prop) l r : Forall2 P l r ->
  forall n b, nth_error r n = Some b -> exists a, nth_error l n = Some a /\ P a b.
Proof.
  induction 1 as [|a b0 l r Hab _ IH]; intros n b Hn; [destruct n; discriminate|].
  destruct n as [|n]; cbn [nth_error] in *; [inversion Hn; subst; now exists a|now apply IH].
Qed.
Lemma Forall2_nth_l {A B} (P : A -> B -> Prop) l r : Forall2 P l r ->
  forall n a, nth_error l n = Some a -> exists b, nth_error r n = Some b /\ P a b.
Proof.
  induction 1 as [|a0 b l r Hab _ IH]; intros n a Hn; [destruct n; discriminate|].
  destruct n as [|n]; cbn [nth_error] in *; [inversion Hn; subst; now exists b|now apply IH].
Qed.
Lemma Forall2_Forall_l {A B} (P : A -> B -> Prop) (Q : A -> Prop) l r :
  (forall a b, P a b -> Q a) -> Forall2 P l r -> Forall Q l.
Proof. intros HPQ. induction 1; constructor; eauto. Qed.
Lemma Forall2_imp_in {A B} (P Q : A -> B -> Prop) l r :
  Forall2 P l r -> (forall a b, P a b -> Q a b) -> Forall2 Q l r.
Proof. intros H HPQ. induction H; constructor; auto. Qed.
Lemma filter_nil_false {A} (f : A -> bool) l : filter f l = [] -> forall x, In x l -> f x = false.
Proof.
  induction l as [|a l IH]; intros H x Hin; [destruct Hin|]. cbn [filter] in H. destruct (f a) eqn:E; [discriminate|].
  destruct Hin as [<-|Hin]; [exact E|now apply IH].
Qed.
Lemma filter_le1_unique {A} (f : A -> bool) l : (length (filter f l) <= 1)%nat ->
  forall j k v w, nth_error l j = Some v -> nth_error l k = Some w -> f v = true -> f w = true -> j = k.
Proof.
  induction l as [|a l IH]; intros Hlen j k v w Hj Hk Hv Hw; [destruct j; discriminate|].
  cbn [filter] in Hlen. destruct (f a) eqn:E.
  - cbn [length] in Hlen. assert (Hnil : filter f l = []) by (destruct (filter f l); [reflexivity|cbn in Hlen; lia]).
    pose proof (filter_nil_false f l Hnil) as Hno.
    destruct j as [|j], k as [|k]; cbn [nth_error] in *; [reflexivity| | |].
    + apply nth_error_In in Hk. rewrite (Hno _ Hk) in Hw. discriminate.
    + apply nth_error_In in Hj. rewrite (Hno _ Hj) in Hv. discriminate.
    + apply nth_error_In in Hj. rewrite (Hno _ Hj) in Hv. discriminate.
  - destruct j as [|j], k as [|k]; cbn [nth_error] in *.
    + reflexivity.
    + inversion Hj; subst. rewrite E in Hv. discriminate.
    + inversion Hk; subst. rewrite E in Hw. discriminate.
    + f_equal. eapply IH; eauto.
Qed.

Section Conc.
  Context {V IT : Type}.
  Variable cands : list V.                 (* snapshot k = the k-th candidate; 0 = before the first fetch *)
  Variable matches : V -> IT -> bool.

  (* the view with table index k is the view that snapshot s gives *)
  Definition resolves (table : list IT) (k s : N) : Prop :=
    exists it v, nth_error table (N.to_nat k) = Some it /\ nth_error cands (N.to_nat s) = Some v /\ matches v it = true.
  Definition one_copy (r : list N) : Prop := exists a b c d s, r = [a; b; c; d; s; s; s; s].

  (* a reader's records have a consistent reading: every read (table index) resolved to a snapshot number that gives
     the view read - the SAME view may be resolved differently at different reads, since two polls may give it - such
     that the four fields of a struct copy are one snapshot and the reader never goes back to an older snapshot *)
  Definition reader_views (table : list IT) (recs : list (list N)) : Prop :=
    exists irecs : list (list N),
      Forall2 (Forall2 (resolves table)) recs irecs /\
      Forall one_copy irecs /\                           (* one struct copy = one snapshot *)
      Sorted N.le (concat irecs).                        (* never back to an older one *)
  Definition conc_spec (table : list IT) (readers : list (list (list N))) : Prop :=
    Forall (fun it => exists v, In v cands /\ matches v it = true) table /\ Forall (reader_views table) readers.

  (* ---- the forward pass decides reader_views ---- *)
  Definition rres (rows : list (list bool)) (k s : N) : Prop :=
    exists row, nth_error rows (N.to_nat k) = Some row /\ nth_error row (N.to_nat s) = Some true.

  Lemma rres_resolves table k s : rres (match_rows cands matches table) k s <-> resolves table k s.
  Proof.
    unfold rres, resolves, match_rows. split.
    - intros [row [Hrow Hs]]. rewrite nth_error_map in Hrow. destruct (nth_error table (N.to_nat k)) as [it|]; [|discriminate].
      cbn in Hrow. inversion Hrow; subst row. rewrite nth_error_map in Hs.
      destruct (nth_error cands (N.to_nat s)) as [v|]; [|discriminate]. cbn in Hs. inversion Hs. now exists it, v.
    - intros [it [v [Hit [Hv Hm]]]]. exists (map (fun v => matches v it) cands). split.
      + now apply (map_nth_error (fun it => map (fun v => matches v it) cands)).
      + rewrite <- Hm. now apply (map_nth_error (fun v => matches v it)).
  Qed.

  Ltac inv_f2 :=
    repeat match goal with
           | H : Forall2 _ (_ :: _) _ |- _ => inversion H; clear H; subst
           | H : Forall2 _ _ (_ :: _) |- _ => inversion H; clear H; subst
           | H : Forall2 _ [] _ |- _ => inversion H; clear H; subst
           | H : Forall2 _ _ [] |- _ => inversion H; clear H; subst
           end.

  Lemma walk_recs_sound rows : forall recs cur,
    walk_recs rows recs cur = true ->
    exists irecs, Forall2 (Forall2 (rres rows)) recs irecs /\ Forall one_copy irecs /\ chain cur (concat irecs).
  Proof.
    induction recs as [|r rest IH]; intros cur H.
    - exists []. repeat split; constructor.
    - cbn [walk_recs] in H. destruct (rec_events rows r) as [evs|] eqn:E; [|discriminate].
      unfold rec_events in E.
      destruct (all_some (map (fun k => nth_error rows (N.to_nat k)) r)) as [rws|] eqn:E1; [|discriminate].
      apply all_some_map in E1.
      destruct rws as [|ra [|rb [|rc [|rd [|r1 [|r2 [|r3 [|r4 [|x xs]]]]]]]]]; try discriminate.
      inversion E; subst evs; clear E. inv_f2.
      cbn [walk] in H.
      destruct (next_set ra 0%N cur) as [sa|] eqn:Ea; [|discriminate].
      destruct (next_set rb 0%N sa) as [sb|] eqn:Eb; [|discriminate].
      destruct (next_set rc 0%N sb) as [sc|] eqn:Ec; [|discriminate].
      destruct (next_set rd 0%N sc) as [sd|] eqn:Ed; [|discriminate].
      destruct (next_set (and_rows (and_rows r1 r2) (and_rows r3 r4)) 0%N sd) as [s|] eqn:Es; [|discriminate].
      apply next_set0_spec in Ea, Eb, Ec, Ed, Es.
      destruct Ea as [La Sa], Eb as [Lb Sb], Ec as [Lc Sc], Ed as [Ld Sd], Es as [Ls Ss].
      apply and_rows_set in Ss. destruct Ss as [S12 S34]. apply and_rows_set in S12, S34.
      destruct S12 as [S1 S2], S34 as [S3 S4].
      destruct (IH _ H) as [irecs [HF [Hone Hch]]].
      exists ([sa; sb; sc; sd; s; s; s; s] :: irecs). split; [|split].
      + constructor; [|exact HF]. repeat constructor; eexists; split; eassumption.
      + constructor; [|exact Hone]. now exists sa, sb, sc, sd, s.
      + cbn [concat app chain]. repeat split; try assumption; lia.
  Qed.

  Lemma walk_recs_complete rows : forall recs irecs,
    Forall2 (Forall2 (rres rows)) recs irecs -> Forall one_copy irecs ->
    forall cur cur', chain cur (concat irecs) -> (cur' <= cur)%N -> walk_recs rows recs cur' = true.
  Proof.
    induction 1 as [|r ir recs irecs Hr _ IH]; intros Hone cur cur' Hch Hle; [reflexivity|].
    inversion Hone as [|x l [a [b [c [d [s ->]]]]] Hone']; subst. inv_f2.
    repeat match goal with H : rres _ _ _ |- _ => destruct H as [? [? ?]] end.
    cbn [concat app chain] in Hch. destruct Hch as [La [Lb [Lc [Ld [Ls [_ [_ [_ Hch]]]]]]]].
    cbn [walk_recs]. unfold rec_events. cbn [map all_some].
    repeat match goal with H : nth_error rows _ = Some _ |- _ => rewrite H; clear H end.
    cbn [walk].
    match goal with Ha : nth_error ?ra (N.to_nat a) = Some true |- context [next_set ?ra 0%N cur'] =>
      destruct (next_set0_least ra cur' a ltac:(lia) Ha) as [a' [-> La']] end.
    match goal with Ha : nth_error ?ra (N.to_nat b) = Some true |- context [next_set ?ra 0%N a'] =>
      destruct (next_set0_least ra a' b ltac:(lia) Ha) as [b' [-> Lb']] end.
    match goal with Ha : nth_error ?ra (N.to_nat c) = Some true |- context [next_set ?ra 0%N b'] =>
      destruct (next_set0_least ra b' c ltac:(lia) Ha) as [c' [-> Lc']] end.
    match goal with Ha : nth_error ?ra (N.to_nat d) = Some true |- context [next_set ?ra 0%N c'] =>
      destruct (next_set0_least ra c' d ltac:(lia) Ha) as [d' [-> Ld']] end.
    match goal with |- context [next_set ?R 0%N d'] =>
      assert (HR : nth_error R (N.to_nat s) = Some true) by (rewrite !and_rows_set; repeat split; assumption);
      destruct (next_set0_least R d' s ltac:(lia) HR) as [s' [-> Ls']] end.
    eapply IH; [exact Hone'|exact Hch|exact Ls'].
  Qed.

  Lemma reader_views_iff table recs :
    walk_recs (match_rows cands matches table) recs 0%N = true <-> reader_views table recs.
  Proof.
    unfold reader_views. split.
    - intros H. apply walk_recs_sound in H. destruct H as [irecs [HF [Hone Hch]]]. exists irecs. split; [|split].
      + eapply Forall2_imp_in; [exact HF|]. intros r ir Hr. eapply Forall2_imp_in; [exact Hr|]. intros k s. apply rres_resolves.
      + exact Hone.
      + now apply chain0_sorted.
    - intros [irecs [HF [Hone Hs]]]. eapply walk_recs_complete with (irecs := irecs) (cur := 0%N).
      + eapply Forall2_imp_in; [exact HF|]. intros r ir Hr. eapply Forall2_imp_in; [exact Hr|]. intros k s. apply rres_resolves.
      + exact Hone.
      + now apply chain0_sorted.
      + lia.
  Qed.

  (* the executable property decides the clause: accepted iff a consistent reading exists.  "->" is soundness (b);
     "<-" says that the records of a correct implementation - which has a true reading, the snapshot each read
     really saw - are never rejected, whether or not two polls give equal views *)
  Theorem conc_ok_iff table readers : conc_ok cands matches (table, readers) = true <-> conc_spec table readers.
  Proof.
    unfold conc_ok, conc_spec. rewrite andb_true_iff, !forallb_forall, !Forall_forall. split; intros [H1 H2]; split.
    - intros it Hit. assert (Hrow : In (map (fun v => matches v it) cands) (match_rows cands matches table))
        by (unfold match_rows; apply in_map_iff; now exists it).
      apply H1 in Hrow. apply existsb_exists in Hrow. destruct Hrow as [b [Hb ->]].
      apply in_map_iff in Hb. destruct Hb as [v [Hm Hv]]. now exists v.
    - intros recs Hin. apply reader_views_iff. now apply H2.
    - intros row Hrow. unfold match_rows in Hrow. apply in_map_iff in Hrow. destruct Hrow as [it [<- Hit]].
      destruct (H1 _ Hit) as [v [Hv Hm]]. apply existsb_exists. exists true. split; [|reflexivity].
      apply in_map_iff. now exists v.
    - intros recs Hin. apply reader_views_iff. now apply H2.
  Qed.
  Lemma conc_ok_sound table readers : conc_ok cands matches (table, readers) = true -> conc_spec table readers.
  Proof. apply conc_ok_iff. Qed.
  Lemma conc_ok_complete table readers : conc_spec table readers -> conc_ok cands matches (table, readers) = true.
  Proof. apply conc_ok_iff. Qed.

  (* ---- the old property: one resolution [idx] of the whole table (first match) ---- *)
  Definition reader_prop (idx : list N) (recs : list (list N)) : Prop :=
    exists irecs : list (list N),
      Forall2 (Forall2 (fun k s => nth_error idx (N.to_nat k) = Some s)) recs irecs /\
      Forall one_copy irecs /\ Sorted N.le (concat irecs).

  Lemma conc_ok_before_sound table readers :
    conc_ok_before cands matches (table, readers) = true ->
    exists idx : list N,
      Forall2 (fun it k => exists v, nth_error cands (N.to_nat k) = Some v /\ matches v it = true) table idx /\
      Forall (reader_prop idx) readers.
  Proof.
    unfold conc_ok_before.
    destruct (all_some (map (fun it => find_idx (fun v => matches v it) cands 0%N) table)) as [idx|] eqn:E;
      [|discriminate].
    intros H. exists idx. split.
    - apply all_some_map in E. revert E. apply Forall2_imp. intros it k Hk.
      destruct (find_idx_spec _ _ _ _ Hk) as [_ [v [Hv Hm]]]. rewrite N.sub_0_r in Hv. now exists v.
    - rewrite forallb_forall in H. apply Forall_forall. intros recs Hin. specialize (H recs Hin).
      destruct (all_some (map (fun r => all_some (map (fun k => nth_error idx (N.to_nat k)) r)) recs))
        as [irecs|] eqn:E2; [|discriminate].
      apply andb_true_iff in H. destruct H as [H1 H2]. exists irecs. repeat split.
      + apply all_some_map in E2. revert E2. apply Forall2_imp. intros r ir Hr. now apply all_some_map in Hr.
      + rewrite forallb_forall in H1. apply Forall_forall. intros r Hr. apply record_ok_spec, H1, Hr.
      + now apply nondecreasing_sorted.
  Qed.

  (* whatever the old property accepted the new one accepts: detection can only have been lost on inputs where a view
     matches two candidates (next theorem) *)
  Theorem conc_ok_before_implies table readers :
    conc_ok_before cands matches (table, readers) = true -> conc_ok cands matches (table, readers) = true.
  Proof.
    intros H. apply conc_ok_complete. apply conc_ok_before_sound in H. destruct H as [idx [Ht Hr]]. split.
    - eapply Forall2_Forall_l; [|exact Ht]. intros it k [v [Hv Hm]]. exists v. split; [now apply nth_error_In in Hv|exact Hm].
    - eapply Forall_impl; [|exact Hr]. intros recs [irecs [HF [Hone Hs]]]. exists irecs. split; [|split; assumption].
      eapply Forall2_imp_in; [exact HF|]. intros r ir Hrr. eapply Forall2_imp_in; [exact Hrr|]. intros k s Hk.
      destruct (Forall2_nth_r _ _ _ Ht _ _ Hk) as [it [Hit [v [Hv Hm]]]]. now exists it, v.
  Qed.

  (* the views are pairwise distinct: no view of the table is given by two candidates *)
  Definition distinct_viewsb (table : list IT) : bool :=
    forallb (fun it => Nat.leb (length (filter (fun v => matches v it) cands)) 1) table.

  (* on inputs with pairwise distinct views (what the harness generates) old and new property agree: nothing that was
     detected is lost *)
  Theorem conc_ok_same_on_distinct table readers :
    distinct_viewsb table = true ->
    conc_ok cands matches (table, readers) = conc_ok_before cands matches (table, readers).
  Proof.
    intros Hd. destruct (conc_ok_before cands matches (table, readers)) eqn:Eb.
    - now apply conc_ok_before_implies.
    - destruct (conc_ok cands matches (table, readers)) eqn:En; [|reflexivity]. exfalso.
      apply conc_ok_sound in En. destruct En as [Ht Hr].
      unfold distinct_viewsb in Hd. rewrite forallb_forall in Hd.
      assert (Hidx : exists idx, Forall2 (fun it k => find_idx (fun v => matches v it) cands 0%N = Some k) table idx).
      { clear Hr Eb Hd. induction table as [|it tb IH]; [exists []; constructor|].
        inversion Ht as [|x l [v [Hv Hm]] Ht']; subst.
        destruct IH as [idx Hidx]; [exact Ht'|].
        assert (Hf : exists k, find_idx (fun v => matches v it) cands 0%N = Some k).
        { clear -Hv Hm. generalize 0%N. induction cands as [|a l IH]; intros n; [destruct Hv|]. cbn [find_idx].
          destruct (matches a it) eqn:E; [now exists n|]. destruct Hv as [->|Hv]; [congruence|now apply IH]. }
        destruct Hf as [k Hk]. exists (k :: idx). now constructor. }
      destruct Hidx as [idx Hidx].
      assert (Hres : forall k s, resolves table k s -> nth_error idx (N.to_nat k) = Some s).
      { intros k s [it [v [Hit [Hv Hm]]]]. destruct (Forall2_nth_l _ _ _ Hidx _ _ Hit) as [k' [Hk' Hf]].
        destruct (find_idx_spec _ _ _ _ Hf) as [_ [w [Hw Hmw]]]. rewrite N.sub_0_r in Hw.
        assert (Hlen := Hd it (nth_error_In _ _ Hit)). apply Nat.leb_le in Hlen.
        assert (N.to_nat k' = N.to_nat s) by (eapply (filter_le1_unique _ _ Hlen); eauto).
        rewrite Hk'. f_equal. lia. }
      unfold conc_ok_before in Eb. rewrite (all_some_of_Forall2 _ _ _ Hidx) in Eb.
      enough (forallb (fun recs =>
        match all_some (map (fun r => all_some (map (fun k => nth_error idx (N.to_nat k)) r)) recs) with
        | None => false
        | Some irecs => forallb record_ok irecs && nondecreasing (concat irecs)
        end) readers = true) by congruence.
      apply forallb_forall. intros recs Hin. rewrite Forall_forall in Hr. destruct (Hr _ Hin) as [irecs [HF [Hone Hs]]].
      rewrite (all_some_of_Forall2 _ recs irecs).
      + apply andb_true_iff. split; [|now apply sorted_nondecreasing].
        apply forallb_forall. intros r Hrin. rewrite Forall_forall in Hone.
        destruct (Hone _ Hrin) as [a [b [c [d [s ->]]]]]. cbn [record_ok]. now rewrite !N.eqb_refl.
      + eapply Forall2_imp_in; [exact HF|]. intros r ir Hrr. apply all_some_of_Forall2.
        eapply Forall2_imp_in; [exact Hrr|]. exact Hres.
  Qed.

  Lemma conc_ok_nil : conc_ok cands matches ([], []) = true.
  Proof. reflexivity. Qed.
End Conc.

(* ---------- hconc ---------- *)
(* the item is the getter's answer / the struct field of the views v *)
Definition hitem_is (v : hviews) (it : hitem) : Prop :=
  match it with
  | IAll c => c = get_all_chain_configs v
  | ISupp p l => l = get_supported_chains v p
  | IKnown l => l = hv_known v
  | IFch l => l = get_fchain v
  end.
Lemma hitem_matches_is v it : hitem_matches v it = true -> hitem_is v it.
Proof.
  destruct it; cbn [hitem_matches hitem_is]; intros H.
  - now apply hcfgs_eqb_spec in H.
  - now apply (list_eqb_spec N.eqb N.eqb_eq) in H.
  - now apply (list_eqb_spec N.eqb N.eqb_eq) in H.
  - now apply (list_eqb_spec _ nn_eqb_spec) in H.
Qed.

(* the views a reader may legitimately see: the initial ones, or those derived (setState) from ONE of the polled
   configurations, as C18_snapshot_home says of the model *)
Definition hconc_view (i : hconc_in) (v : hviews) : Prop :=
  v = home_init \/ exists es, In es i /\ v = home_derive (home_convert es).

Lemma hconc_model_passes i : hconc_ok i (@nil hitem, @nil (list (list N))) = true.
Proof. reflexivity. Qed.

Definition hconc_cands (i : hconc_in) : list hviews := home_init :: map (fun es => home_derive (home_convert es)) i.
Lemma hconc_cands_view i v : In v (hconc_cands i) -> hconc_view i v.
Proof.
  intros [<-|Hv]; [now left|]. right. apply in_map_iff in Hv. destruct Hv as [es [<- Hes]]. now exists es.
Qed.
Definition hconc_ok_before (i : hconc_in) (o : hconc_out) : bool := conc_ok_before (hconc_cands i) hitem_matches o.

(* (b), without any side condition on the views: every view seen is the getter's answer / struct field of the initial
   views or of home_derive of ONE polled configuration, and every reader's records have a consistent reading *)
Lemma hconc_sound i table readers :
  hconc_ok i (table, readers) = true ->
  Forall (fun it => exists v, hconc_view i v /\ hitem_is v it) table /\
  Forall (reader_views (hconc_cands i) hitem_matches table) readers.
Proof.
  unfold hconc_ok. intros H. apply conc_ok_sound in H. destruct H as [Ht Hr]. split; [|exact Hr].
  eapply Forall_impl; [|exact Ht]. intros it [v [Hv Hm]]. exists v.
  split; [now apply hconc_cands_view|now apply hitem_matches_is].
Qed.
(* records that HAVE a consistent reading (those of a correct implementation: the snapshot each read really saw) are
   never rejected *)
Lemma hconc_complete i table readers :
  Forall (fun it => exists v, In v (hconc_cands i) /\ hitem_matches v it = true) table ->
  Forall (reader_views (hconc_cands i) hitem_matches table) readers ->
  hconc_ok i (table, readers) = true.
Proof. intros Ht Hr. unfold hconc_ok. apply conc_ok_complete. now split. Qed.
Lemma hconc_before_implies i o : hconc_ok_before i o = true -> hconc_ok i o = true.
Proof. destruct o as [table readers]. apply conc_ok_before_implies. Qed.
Lemma hconc_same_on_distinct i table readers :
  distinct_viewsb (hconc_cands i) hitem_matches table = true ->
  hconc_ok i (table, readers) = hconc_ok_before i (table, readers).
Proof. apply conc_ok_same_on_distinct. Qed.

Definition hc_es (f : N) : list entry := [mkE (10 + f) [2] f (Some 1)]%N.
Definition hc_table : list hitem :=
  [IAll []; ISupp 2 []; IKnown []; IFch []; IAll (home_convert (hc_es 2)); ISupp 2 [12]; IKnown [12]; IFch [(12, 2)]]%N.
Example hconc_ok_example :
  hconc_ok [hc_es 1; hc_es 2] (hc_table, [[[0; 1; 2; 3; 0; 1; 2; 3]; [0; 1; 6; 7; 4; 5; 6; 7]]]%N) = true /\
  distinct_viewsb (hconc_cands [hc_es 1; hc_es 2]) hitem_matches hc_table = true /\
  (* a struct copy that mixes two snapshots, and a reader that goes back, are rejected *)
  hconc_ok [hc_es 1; hc_es 2] ([IAll []; IFch [(12, 2)]]%N, [[[0; 0; 0; 0; 0; 0; 0; 1]]]%N) = false /\
  hconc_ok [hc_es 1; hc_es 2] ([IAll []; IFch [(12, 2)]]%N, [[[1; 1; 1; 1; 1; 1; 1; 1]; [0; 0; 0; 0; 0; 0; 0; 0]]]%N) = false.
Proof. vm_compute. repeat split. Qed.
(* the old conc_ok resolved an item to the FIRST candidate it matches: a view that is the same for two polled
   configurations was attributed to the older one (here ISupp 1 [] - peer 1 reads no chain in any configuration - next
   to fields of snapshot 2), so a correct struct copy looked mixed: FALSE ALARM.  The repaired property accepts it, and
   still rejects the record when the struct copy really is mixed (IKnown of snapshot 1 next to fields of snapshot 2)
   or when the shared view is used to go back (snapshot 2, then a copy that can only be snapshot 1). *)
Definition hc_shared : list hitem := [IAll (home_convert (hc_es 2)); ISupp 1 []; IKnown [12]; IFch [(12, 2)]; IKnown [11]]%N.
Example hconc_ok_needs_distinct_views :
  hconc_ok_before [hc_es 1; hc_es 2] (hc_shared, [[[0; 1; 2; 3; 0; 1; 2; 3]]]%N) = false /\
  hconc_ok [hc_es 1; hc_es 2] (hc_shared, [[[0; 1; 2; 3; 0; 1; 2; 3]]]%N) = true /\
  distinct_viewsb (hconc_cands [hc_es 1; hc_es 2]) hitem_matches hc_shared = false /\
  hconc_ok [hc_es 1; hc_es 2] (hc_shared, [[[0; 1; 2; 3; 0; 1; 4; 3]]]%N) = false /\
  hconc_ok [hc_es 1; hc_es 2] (hc_shared, [[[0; 1; 2; 3; 0; 1; 2; 3]; [1; 1; 1; 1; 1; 1; 4; 1]]]%N) = false /\
  hconc_ok [hc_es 1; hc_es 2] (hc_shared, [[[1; 1; 1; 1; 1; 1; 4; 1]; [0; 1; 2; 3; 0; 1; 2; 3]]]%N) = true.
Proof. vm_compute. repeat split. Qed.

(* ---------- rconc ---------- *)
Definition ritem_is (v : rviews) (it : ritem) : Prop :=
  match it with
  | RDig a c => (a, c) = get_digests v
  | RNodes d o => o = get_nodes_info v d
  | RF d o => o = get_f v d
  | ROff d o => o = get_offchain v d
  end.
Lemma ritem_matches_is v it : ritem_matches v it = true -> ritem_is v it.
Proof.
  destruct it; cbn [ritem_matches ritem_is]; intros H.
  - now apply nn_eqb_spec in H.
  - now apply (option_eqb_spec _ (list_eqb_spec _ hn_eqb_spec)) in H.
  - now apply (option_eqb_spec _ fmap_eqb_spec) in H.
  - now apply (option_eqb_spec _ N.eqb_eq) in H.
Qed.
(* the initial state, or the state one successful fetch stores (C18_snapshot_rmn) *)
Definition rconc_view (i : rconc_in) (v : rviews) : Prop :=
  v = rmn_init \/ exists p, In p i /\ rmn_fetch (Some p) = Ok v.
Lemma rconc_cands_view i v : In v (rconc_cands i) -> rconc_view i v.
Proof.
  unfold rconc_cands. intros [<-|H]; [now left|]. right. apply in_flat_map in H. destruct H as [p [Hp Hv]].
  exists p. split; [exact Hp|]. destruct (rmn_fetch (Some p)) as [v'| | |]; cbn in Hv; try contradiction.
  destruct Hv as [->|[]]. reflexivity.
Qed.

Lemma rconc_model_passes i : rconc_ok i (@nil ritem, @nil (list (list N))) = true.
Proof. reflexivity. Qed.

Definition rconc_ok_before (i : rconc_in) (o : rconc_out) : bool := conc_ok_before (rconc_cands i) ritem_matches o.
Lemma rconc_sound i table readers :
  rconc_ok i (table, readers) = true ->
  Forall (fun it => exists v, rconc_view i v /\ ritem_is v it) table /\
  Forall (reader_views (rconc_cands i) ritem_matches table) readers.
Proof.
  unfold rconc_ok. intros H. apply conc_ok_sound in H. destruct H as [Ht Hr]. split; [|exact Hr].
  eapply Forall_impl; [|exact Ht]. intros it [v [Hv Hm]]. exists v.
  split; [now apply rconc_cands_view|now apply ritem_matches_is].
Qed.
Lemma rconc_complete i table readers :
  Forall (fun it => exists v, In v (rconc_cands i) /\ ritem_matches v it = true) table ->
  Forall (reader_views (rconc_cands i) ritem_matches table) readers ->
  rconc_ok i (table, readers) = true.
Proof. intros Ht Hr. unfold rconc_ok. apply conc_ok_complete. now split. Qed.
Lemma rconc_before_implies i o : rconc_ok_before i o = true -> rconc_ok i o = true.
Proof. destruct o as [table readers]. apply conc_ok_before_implies. Qed.
Lemma rconc_same_on_distinct i table readers :
  distinct_viewsb (rconc_cands i) ritem_matches table = true ->
  rconc_ok i (table, readers) = rconc_ok_before i (table, readers).
Proof. apply conc_ok_same_on_distinct. Qed.

Definition rc_vc (d i : N) : vconfig := mkVC d [mkRN (1000 * i) 21] [mkRC 1 i (Some 1%Z)] i.
Definition rc_polls : rconc_in := [(rc_vc 7 1, rc_vc 101 1); (rc_vc 7 2, rc_vc 102 2)]%N.
Definition rc_v2 : rviews := match rmn_fetch (Some (rc_vc 7 2, rc_vc 102 2)%N) with Ok v => v | _ => rmn_init end.
Example rconc_ok_example :
  rconc_ok rc_polls
    ([RDig 0 0; RNodes 7 None; RF 7 None; ROff 7 None; ROff 0 None;
      RDig 7 102; RNodes 7 (Some [mkHN 0 2000 21 [1]]); RF 7 (Some [(1, 2%Z)]); ROff 7 (Some 2); ROff 102 (Some 2)]%N,
     [[[0; 1; 2; 3; 0; 1; 2; 4]; [0; 1; 7; 8; 5; 6; 7; 9]]]%N) = true /\
  get_nodes_info rc_v2 7 = Some [mkHN 0 2000 21 [1]]%N /\
  (* a struct copy mixing two snapshots is rejected *)
  rconc_ok rc_polls ([RDig 7 101; RDig 7 102]%N, [[[0; 0; 0; 0; 0; 0; 0; 1]]]%N) = false.
Proof. vm_compute. repeat split. Qed.
(* the same false alarm of the old property: "no offchain config under digest 0" (ROff 0 None) is the answer of every
   snapshot; next to fields of snapshot 2 the old property called the copy mixed *)
Definition rc_table : list ritem :=
  [RDig 0 0; RNodes 7 None; RF 7 None; ROff 7 None; ROff 0 None;
   RDig 7 102; RNodes 7 (Some [mkHN 0 2000 21 [1]]); RF 7 (Some [(1, 2%Z)]); ROff 7 (Some 2); ROff 102 (Some 2)]%N.
Example rconc_ok_needs_distinct_views :
  rconc_ok_before rc_polls (rc_table, [[[0; 1; 2; 3; 5; 6; 7; 4]]]%N) = false /\
  rconc_ok rc_polls (rc_table, [[[0; 1; 2; 3; 5; 6; 7; 4]]]%N) = true /\
  distinct_viewsb (rconc_cands rc_polls) ritem_matches rc_table = false /\
  rconc_ok rc_polls (rc_table, [[[0; 1; 2; 3; 5; 6; 2; 4]]]%N) = false.
Proof. vm_compute. repeat split. Qed.

(* =====================================================================================================
   bitmap: IsNodeObserver.  Output code 0 / 1 = the answer false / true, 2 = error, 3 = panic. *)

(* bm_ok as it was before this file was written: a negative bitmap was exempted before committee size and index
   were looked at *)
Definition bm_ok_before (i : bm_in) (o : N) : bool :=
  let '(b, j, n) := i in
  match bm_valid i with
  | Some z => N.eqb o (if Z.testbit z j then 1 else 0)
  | None =>
      match b with
      | Some z => if Z.leb 0 z && Z.leb 1 n && Z.leb n 256 && Z.leb 0 j && Z.ltb j n
                  then N.leb 2 o
                  else if Z.ltb z 0 then true
                  else N.leb 2 o
      | None => N.leb 2 o
      end
  end.

(* the clauses of C18_bitmap and C18_bitmap_refusals for an arbitrary output code o of IsNodeObserver(b, j, n):
   the answer is bit j, and everything C18_bitmap_refusals lists is refused (no answer: o >= 2) *)
Definition bm_prop (b : option Z) (j n : Z) (o : N) : Prop :=
  (forall z, b = Some z -> (1 <= n <= 256)%Z -> (0 <= j < n)%Z -> (0 <= z < 2 ^ n)%Z ->
             o = bm_code (Ok (Z.testbit z j))) /\
  ((n > 256 \/ n <= 0)%Z -> (2 <= o)%N) /\
  ((1 <= n <= 256)%Z -> (j < 0 \/ j >= n)%Z -> (2 <= o)%N) /\
  ((1 <= n <= 256)%Z -> (0 <= j < n)%Z -> b = None -> (2 <= o)%N) /\
  (forall z, (1 <= n <= 256)%Z -> (0 <= j < n)%Z -> b = Some z -> (2 ^ n <= z)%Z -> (2 <= o)%N).

Example bm_ok_before_unsound :
  bm_ok_before (Some (-1)%Z, 0%Z, 300%Z) 1%N = true /\ ~ bm_prop (Some (-1)%Z) 0%Z 300%Z 1%N.
Proof.
  split; [vm_compute; reflexivity|]. intros (_ & H & _). assert (2 <= 1)%N by (apply H; lia). lia.
Qed.

Ltac inv_some := repeat match goal with Hz : Some _ = Some _ |- _ => inversion Hz; subst; clear Hz end.

Lemma bm_sound b j n o : bm_ok (b, j, n) o = true -> bm_prop b j n o.
Proof.
  unfold bm_ok, bm_valid, bm_prop. intros H.
  destruct b as [z|].
  - destruct (Z.leb_spec 1 n) as [H1|H1]; destruct (Z.leb_spec n 256) as [H2|H2];
      destruct (Z.leb_spec 0 j) as [H3|H3]; destruct (Z.ltb_spec j n) as [H4|H4]; cbn [andb] in H;
      try (rewrite N.leb_le in H; repeat split; intros; lia).
    (* committee size and index valid *)
    destruct (Z.leb_spec 0 z) as [H5|H5]; destruct (Z.ltb_spec z (2 ^ n)) as [H6|H6]; cbn [andb] in H.
    + apply N.eqb_eq in H. repeat split; intros; inv_some; try lia; try discriminate.
      unfold bm_code. destruct (Z.testbit _ j); reflexivity.
    + destruct (Z.ltb_spec z 0); [lia|]. rewrite N.leb_le in H.
      repeat split; intros; inv_some; try lia; try discriminate.
    + repeat split; intros; inv_some; try lia; try discriminate.
    + repeat split; intros; inv_some; try lia; try discriminate.
  - rewrite N.leb_le in H. repeat split; intros; try lia; try discriminate.
Qed.

Lemma bm_model_passes i : bm_ok i (bm_model i) = true.
Proof.
  destruct i as [[b j] n]. unfold bm_ok, bm_valid, bm_model.
  destruct (bitmap_refusals b j n) as (R1 & R2 & R3 & R4).
  destruct b as [z|].
  - destruct (Z.leb_spec 1 n) as [H1|H1]; destruct (Z.leb_spec n 256) as [H2|H2];
      destruct (Z.leb_spec 0 j) as [H3|H3]; destruct (Z.ltb_spec j n) as [H4|H4]; cbn [andb];
      try (rewrite R1 by lia; reflexivity); try (rewrite R2 by lia; reflexivity).
    destruct (Z.leb_spec 0 z) as [H5|H5]; destruct (Z.ltb_spec z (2 ^ n)) as [H6|H6]; cbn [andb].
    + rewrite bitmap_spec by lia. cbn [bm_code]. destruct (Z.testbit z j); reflexivity.
    + destruct (Z.ltb_spec z 0); [lia|]. rewrite (R4 z) by (auto; lia). reflexivity.
    + destruct (Z.ltb_spec z 0); [reflexivity|lia].
    + destruct (Z.ltb_spec z 0); [reflexivity|lia].
  - assert (H : is_node_observer None j n = Err \/ is_node_observer None j n = Panic).
    { unfold is_node_observer. destruct (Z.gtb n rmn_max_committee || Z.leb n 0); [now left|].
      destruct (Z.ltb j 0 || Z.geb j n); [now left|now right]. }
    destruct H as [-> | ->]; reflexivity.
Qed.

Example bm_ok_example :
  bm_ok (Some 5%Z, 2%Z, 3%Z) 1%N = true /\ bm_ok (Some 5%Z, 1%Z, 3%Z) 0%N = true /\ bm_ok (Some 5%Z, 1%Z, 3%Z) 1%N = false /\
  bm_ok (Some 8%Z, 1%Z, 3%Z) 2%N = true /\ bm_ok (Some 8%Z, 1%Z, 3%Z) 0%N = false /\
  bm_ok (Some (-1)%Z, 0%Z, 300%Z) 1%N = false /\ bm_ok (None, 1%Z, 3%Z) 3%N = true.
Proof. vm_compute. repeat split. Qed.

(* =====================================================================================================
   conv: convertOnChainConfigToRMNHomeChainConfig.  conv_ok compares every entry of the answer with spec_homecfg,
   the converted configuration written with testbit; here spec_homecfg is shown to be what convert_one computes and to
   satisfy the statements of C18_node_ids / C18_observers. *)

(* IsNodeObserver and the check's bm_observer decide alike for an index inside the committee *)
Lemma observer_bm n j ch : (j < n)%nat ->
  match is_node_observer (rc_bitmap ch) (Z.of_nat j) (Z.of_nat n) with
  | Ok b => b = bm_observer n j ch
  | Err => bm_observer n j ch = false
  | Panic => rc_bitmap ch = None
  | Spin => False
  end.
Proof.
  intros Hj. unfold is_node_observer, bm_observer, rmn_max_committee.
  destruct (Z.gtb_spec (Z.of_nat n) 256) as [Hg|Hg]; cbn [orb].
  { destruct (rc_bitmap ch); [|reflexivity]. destruct (Nat.leb_spec 1 n); destruct (Nat.leb_spec n 256); cbn [andb]; try reflexivity; lia. }
  destruct (Z.leb_spec (Z.of_nat n) 0) as [H0|H0]; [lia|].
  destruct (Z.ltb_spec (Z.of_nat j) 0); [lia|]. destruct (Z.geb_spec (Z.of_nat j) (Z.of_nat n)); [lia|]. cbn [orb].
  destruct (rc_bitmap ch) as [z|]; [|reflexivity].
  destruct (Nat.leb_spec 1 n); [|lia]. destruct (Nat.leb_spec n 256); [|lia]. cbn [andb].
  rewrite (Z.shiftl_1_l (Z.of_nat n)).
  destruct (Z.gtb_spec z (2 ^ Z.of_nat n - 1)) as [Hz|Hz]; destruct (Z.leb_spec z (2 ^ Z.of_nat n - 1)) as [Hl|Hl];
    cbn [andb]; [lia|reflexivity| |lia].
  rewrite land_pow2 by lia. destruct (Z.testbit z (Z.of_nat j)).
  - now rewrite Z.eqb_refl.
  - rewrite Z.shiftl_1_l. assert (0 < 2 ^ Z.of_nat j)%Z by (apply Z.pow_pos_nonneg; lia).
    destruct (Z.eqb_spec 0 (2 ^ Z.of_nat j)); [lia|reflexivity].
Qed.

Lemma observes_bm n j ch : (j < n)%nat -> (observes ch j (Z.of_nat n) <-> bm_observer n j ch = true).
Proof.
  intros Hj. unfold observes. pose proof (observer_bm n j ch Hj) as H.
  destruct (is_node_observer (rc_bitmap ch) (Z.of_nat j) (Z.of_nat n)) as [b| | |].
  - subst b. split; [intros E; now inversion E|intros ->; reflexivity].
  - rewrite H. split; discriminate.
  - split; [discriminate|]. unfold bm_observer. rewrite H. discriminate.
  - contradiction.
Qed.

(* ---------- convert_one computes spec_homecfg ---------- *)
Fixpoint mark_spec (n : nat) (ch : rchain) (j : nat) (supp : list (list N)) : list (list N) :=
  match supp with
  | [] => []
  | s :: r => (if bm_observer n j ch then sinsert (rc_sel ch) s else s) :: mark_spec n ch (S j) r
  end.
Lemma mark_spec_length n ch supp : forall j, length (mark_spec n ch j supp) = length supp.
Proof. induction supp as [|s supp IH]; intros j; cbn [mark_spec length]; [reflexivity|now rewrite IH]. Qed.

Lemma mark_nodes_eq n ch : forall supp j0 r,
  (j0 + length supp <= n)%nat -> mark_nodes ch (Z.of_nat n) j0 supp = Ok r -> r = mark_spec n ch j0 supp.
Proof.
  induction supp as [|s supp IH]; intros j0 r Hlen H; cbn [mark_nodes mark_spec] in *.
  - now inversion H.
  - cbn [length] in Hlen. assert (Hj : (j0 < n)%nat) by lia. pose proof (observer_bm n j0 ch Hj) as Hb.
    destruct (is_node_observer (rc_bitmap ch) (Z.of_nat j0) (Z.of_nat n)) as [[|]| | |]; try discriminate; try contradiction;
      destruct (mark_nodes ch (Z.of_nat n) (S j0) supp) as [r'| | |] eqn:E; cbn [rbind] in H; try discriminate;
      inversion H; subst r; first [rewrite <- Hb|rewrite Hb]; f_equal; (apply IH; [lia|exact E]).
Qed.

Lemma mark_chains_eq n : forall chains supp r,
  (length supp <= n)%nat -> mark_chains chains (Z.of_nat n) supp = Ok r ->
  r = fold_left (fun s ch => mark_spec n ch 0 s) chains supp.
Proof.
  induction chains as [|ch chains IH]; intros supp r Hlen H; cbn [mark_chains fold_left] in *.
  - now inversion H.
  - destruct (mark_nodes ch (Z.of_nat n) 0 supp) as [r1| | |] eqn:E; cbn [rbind] in H; try discriminate.
    apply mark_nodes_eq in E; [|cbn; lia]. subst r1. apply IH; [now rewrite mark_spec_length|exact H].
Qed.

(* column j of the observer matrix: the chains whose bitmap has bit j, as a canonical set *)
Definition col (n : nat) (chains : list rchain) (j : nat) (s0 : list N) : list N :=
  fold_left (fun s ch => if bm_observer n j ch then sinsert (rc_sel ch) s else s) chains s0.
Fixpoint cols (n : nat) (chains : list rchain) (j : nat) (supp : list (list N)) : list (list N) :=
  match supp with [] => [] | s :: r => col n chains j s :: cols n chains (S j) r end.

Lemma cols_nil n supp : forall j, cols n [] j supp = supp.
Proof. induction supp as [|s supp IH]; intros j; cbn [cols]; [reflexivity|]. now rewrite IH. Qed.
Lemma cols_cons n ch chains supp : forall j, cols n (ch :: chains) j supp = cols n chains j (mark_spec n ch j supp).
Proof. induction supp as [|s supp IH]; intros j; cbn [cols mark_spec]; [reflexivity|]. now rewrite IH. Qed.
Lemma fold_mark_cols n chains : forall supp,
  fold_left (fun s ch => mark_spec n ch 0 s) chains supp = cols n chains 0 supp.
Proof.
  induction chains as [|ch chains IH]; intros supp; cbn [fold_left].
  - now rewrite cols_nil.
  - now rewrite IH, cols_cons.
Qed.
Lemma col_set n j chains : forall s0,
  col n chains j s0 = fold_left (fun s x => sinsert x s) (map rc_sel (filter (bm_observer n j) chains)) s0.
Proof.
  unfold col. induction chains as [|ch chains IH]; intros s0; cbn [fold_left filter map]; [reflexivity|].
  destruct (bm_observer n j ch); cbn [map fold_left]; apply IH.
Qed.

Lemma mk_nodes_spec_nodes vc nodes : forall j0,
  mk_nodes j0 nodes (cols (length (vc_nodes vc)) (vc_chains vc) j0 (repeat [] (length nodes))) = spec_nodes vc j0 nodes.
Proof.
  induction nodes as [|nd nodes IH]; intros j0; cbn [length repeat cols mk_nodes spec_nodes]; [reflexivity|].
  rewrite IH. f_equal. f_equal. rewrite col_set. reflexivity.
Qed.

Lemma convert_one_is_spec vc hc : convert_one vc = Ok hc -> hc = spec_homecfg vc.
Proof.
  unfold convert_one, spec_homecfg.
  destruct (mark_chains (vc_chains vc) (Z.of_nat (length (vc_nodes vc))) (repeat [] (length (vc_nodes vc))))
    as [supp| | |] eqn:E; cbn [rbind]; try discriminate.
  intros H; inversion H; subst hc; clear H. f_equal.
  apply mark_chains_eq in E; [|rewrite repeat_length; lia]. subst supp.
  rewrite fold_mark_cols. apply mk_nodes_spec_nodes.
Qed.

(* ---------- spec_homecfg says what C18_node_ids / C18_observers say ---------- *)
(* the conclusion of C18_node_ids for an arbitrary converted configuration hc of vc, plus the f map *)
Definition converted (vc : vconfig) (hc : homecfg) : Prop :=
  length (hc_nodes hc) = length (vc_nodes vc) /\ hc_digest hc = vc_digest vc /\ hc_off hc = vc_off vc /\
  hc_f hc = fold_left (fun m ch => minsert (rc_sel ch) (int_of_u64 (rc_f ch)) m) (vc_chains vc) [] /\
  forall j nd, nth_error (hc_nodes hc) j = Some nd ->
    hn_id nd = N.of_nat j /\
    (exists rn, nth_error (vc_nodes vc) j = Some rn /\ hn_peer nd = rn_peer rn /\ hn_key nd = rn_key rn) /\
    forall x, In x (hn_chains nd) <->
              exists ch, In ch (vc_chains vc) /\ rc_sel ch = x /\ observes ch j (Z.of_nat (length (vc_nodes vc))).

Lemma spec_nodes_length vc nodes : forall j0, length (spec_nodes vc j0 nodes) = length nodes.
Proof. induction nodes as [|nd nodes IH]; intros j0; cbn [spec_nodes length]; [reflexivity|now rewrite IH]. Qed.
Lemma spec_nodes_nth vc nodes : forall j0 k nd,
  nth_error (spec_nodes vc j0 nodes) k = Some nd ->
  exists rn, nth_error nodes k = Some rn /\
    nd = mkHN (N.of_nat (j0 + k)) (rn_peer rn) (rn_key rn)
              (set_of (map rc_sel (filter (bm_observer (length (vc_nodes vc)) (j0 + k)) (vc_chains vc)))).
Proof.
  induction nodes as [|rn nodes IH]; intros j0 k nd H; cbn [spec_nodes] in H.
  - destruct k; discriminate.
  - destruct k as [|k]; cbn [nth_error] in *.
    + inversion H; subst nd. exists rn. rewrite Nat.add_0_r. auto.
    + destruct (IH _ _ _ H) as [rn' [H1 H2]]. exists rn'. replace (j0 + S k)%nat with (S j0 + k)%nat by lia. auto.
Qed.

Lemma spec_homecfg_converted vc : converted vc (spec_homecfg vc).
Proof.
  unfold converted, spec_homecfg. cbn [hc_nodes hc_digest hc_off hc_f].
  split; [apply spec_nodes_length|]. repeat (split; [reflexivity|]).
  intros j nd Hj. destruct (spec_nodes_nth _ _ _ _ _ Hj) as [rn [Hrn ->]]. cbn [hn_id hn_peer hn_key hn_chains plus].
  split; [reflexivity|]. split; [now exists rn|].
  assert (Hlt : (j < length (vc_nodes vc))%nat) by (apply nth_error_Some; congruence).
  intros x. rewrite set_of_In, in_map_iff. split.
  - intros [ch [Hsel Hin]]. apply filter_In in Hin. destruct Hin as [Hin Hb]. exists ch.
    repeat split; try assumption. now apply observes_bm.
  - intros [ch [Hin [Hsel Ho]]]. exists ch. split; [exact Hsel|]. apply filter_In. split; [exact Hin|].
    now apply observes_bm.
Qed.

(* the conclusion of C18_observers (valid committee, bitmaps in range: bit for bit) follows from [converted] *)
Lemma converted_bits vc hc : converted vc hc ->
  (1 <= length (vc_nodes vc) <= 256)%nat ->
  (forall ch, In ch (vc_chains vc) -> exists b, rc_bitmap ch = Some b /\ (0 <= b < 2 ^ Z.of_nat (length (vc_nodes vc)))%Z) ->
  forall j nd, nth_error (hc_nodes hc) j = Some nd ->
    hn_id nd = N.of_nat j /\
    forall x, In x (hn_chains nd) <->
              exists ch b, In ch (vc_chains vc) /\ rc_sel ch = x /\ rc_bitmap ch = Some b /\ Z.testbit b (Z.of_nat j) = true.
Proof.
  intros (Hlen & _ & _ & _ & Hs) Hn Hv j nd Hj.
  destruct (Hs j nd Hj) as (Hid & _ & Hx). split; [exact Hid|].
  assert (Hlt : (j < length (vc_nodes vc))%nat) by (rewrite <- Hlen; apply nth_error_Some; congruence).
  intros x. rewrite Hx. split.
  - intros [ch [Hin [Hsel Ho]]]. destruct (Hv ch Hin) as [b [Hb Hr]]. exists ch, b. repeat split; try assumption.
    unfold observes in Ho. rewrite Hb, bitmap_spec in Ho by lia. congruence.
  - intros (ch & b & Hin & Hsel & Hb & Ht). exists ch. repeat split; try assumption.
    destruct (Hv ch Hin) as [b' [Hb' Hr]]. assert (b' = b) by congruence. subst b'.
    unfold observes. rewrite Hb, bitmap_spec by lia. now rewrite Ht.
Qed.

(* ---------- soundness of conv_ok ---------- *)
Lemma nodupb_NoDup l : nodupb N.eqb l = true -> NoDup l.
Proof.
  induction l as [|x l IH]; cbn [nodupb]; intros H; [constructor|].
  apply andb_true_iff in H. destruct H as [H1 H2]. constructor; [|now apply IH].
  intros Hin. apply negb_true_iff in H1. apply (memN_In x l) in Hin. unfold memN in Hin. congruence.
Qed.

(* an answer accepted by conv_ok: exactly the non-empty digests of the pair are present, each once; every entry is the
   conversion of the versioned config that carries its digest - the candidate's when both carry the same digest -,
   i.e. node id = position, peer / key of that position, observer sets = the bitmaps as decided by IsNodeObserver *)
Definition conv_prop (a c : vconfig) (m : rmap) : Prop :=
  (forall d hc, In (d, hc) m ->
     d <> 0%N /\ ((d = vc_digest c /\ converted c hc) \/ (d <> vc_digest c /\ d = vc_digest a /\ converted a hc))) /\
  (vc_digest a <> 0%N -> In (vc_digest a) (map fst m)) /\
  (vc_digest c <> 0%N -> In (vc_digest c) (map fst m)) /\
  NoDup (map fst m).

Lemma conv_sound a c m : conv_ok (a, c) (Ok m) = true -> conv_prop a c m.
Proof.
  unfold conv_ok, conv_prop. rewrite !andb_true_iff. intros [[H1 H2] H3].
  rewrite forallb_forall in H1. cbn [forallb] in H2. rewrite !andb_true_iff in H2. destruct H2 as (Ha & Hc & _).
  repeat split.
  - specialize (H1 _ H). cbn [fst snd] in H1. apply andb_true_iff in H1. destruct H1 as [Hz _].
    apply negb_true_iff in Hz. intros ->. discriminate.
  - specialize (H1 _ H). cbn [fst snd] in H1. apply andb_true_iff in H1. destruct H1 as [_ Hd].
    destruct (N.eqb_spec d (vc_digest c)) as [E|E].
    + left. split; [exact E|]. apply hc_eqb_spec in Hd. subst hc. apply spec_homecfg_converted.
    + right. apply andb_true_iff in Hd. destruct Hd as [Hda Hh]. apply N.eqb_eq in Hda. apply hc_eqb_spec in Hh.
      subst hc. split; [exact E|]. split; [exact Hda|]. apply spec_homecfg_converted.
  - intros Hne. apply orb_true_iff in Ha. destruct Ha as [Ha|Ha]; [apply N.eqb_eq in Ha; contradiction|].
    apply existsb_exists in Ha. destruct Ha as [kv [Hin He]]. apply N.eqb_eq in He. rewrite <- He. now apply in_map.
  - intros Hne. apply orb_true_iff in Hc. destruct Hc as [Hc|Hc]; [apply N.eqb_eq in Hc; contradiction|].
    apply existsb_exists in Hc. destruct Hc as [kv [Hin He]]. apply N.eqb_eq in He. rewrite <- He. now apply in_map.
  - now apply nodupb_NoDup.
Qed.

(* ---------- the model's answer passes conv_ok ---------- *)
Definition conv_spec (a c : vconfig) : rmap :=
  let m1 := if N.eqb (vc_digest a) 0 then [] else minsert (vc_digest a) (spec_homecfg a) [] in
  if N.eqb (vc_digest c) 0 then m1 else minsert (vc_digest c) (spec_homecfg c) m1.

Lemma rmn_convert_is_spec a c m : rmn_convert a c = Ok m -> m = conv_spec a c.
Proof.
  unfold rmn_convert, conv_spec.
  destruct (N.eqb (vc_digest a) 0) eqn:Ea; destruct (N.eqb (vc_digest c) 0) eqn:Ec; cbn [andb convert_list];
    rewrite ?Ea, ?Ec.
  - intros H; now inversion H.
  - destruct (convert_one c) as [hc| | |] eqn:E; cbn [rbind convert_list]; try discriminate.
    apply convert_one_is_spec in E. subst hc. intros H; now inversion H.
  - destruct (convert_one a) as [hc| | |] eqn:E; cbn [rbind convert_list]; try discriminate.
    apply convert_one_is_spec in E. subst hc. intros H; now inversion H.
  - destruct (convert_one a) as [ha| | |] eqn:E; cbn [rbind convert_list]; try discriminate.
    apply convert_one_is_spec in E. subst ha.
    destruct (convert_one c) as [hc| | |] eqn:E2; cbn [rbind convert_list]; try discriminate.
    apply convert_one_is_spec in E2. subst hc. intros H; now inversion H.
Qed.

Lemma hc_eqb_refl h : hc_eqb h h = true.
Proof. now apply hc_eqb_spec. Qed.

Lemma conv_spec_ok a c : conv_ok (a, c) (Ok (conv_spec a c)) = true.
Proof.
  unfold conv_ok, conv_spec.
  destruct (N.eqb_spec (vc_digest a) 0) as [Ea|Ea]; destruct (N.eqb_spec (vc_digest c) 0) as [Ec|Ec];
    cbn [minsert].
  - cbn [forallb map nodupb andb]. rewrite Ea, Ec. reflexivity.
  - cbn [forallb map nodupb existsb fst snd andb orb negb]. rewrite !N.eqb_refl, hc_eqb_refl, Ea.
    destruct (N.eqb_spec (vc_digest c) 0); [contradiction|]. reflexivity.
  - cbn [forallb map nodupb existsb fst snd andb orb negb]. rewrite !N.eqb_refl, hc_eqb_refl, Ec.
    destruct (N.eqb_spec (vc_digest a) 0); [contradiction|].
    destruct (N.eqb_spec (vc_digest a) 0); [contradiction|]. reflexivity.
  - destruct (N.ltb_spec (vc_digest c) (vc_digest a)) as [Hlt|Hge];
      [|destruct (N.eqb_spec (vc_digest c) (vc_digest a)) as [Heq|Hne]];
      cbn [forallb map nodupb existsb fst snd andb orb negb]; rewrite ?N.eqb_refl, ?hc_eqb_refl.
    + destruct (N.eqb_spec (vc_digest c) 0); [contradiction|]. destruct (N.eqb_spec (vc_digest a) 0); [contradiction|].
      destruct (N.eqb_spec (vc_digest a) (vc_digest c)); [lia|]. destruct (N.eqb_spec (vc_digest c) (vc_digest a)); [lia|].
      cbn [andb orb negb]. reflexivity.
    + destruct (N.eqb_spec (vc_digest c) 0); [contradiction|]. destruct (N.eqb_spec (vc_digest a) 0); [contradiction|].
      rewrite Heq, ?N.eqb_refl. cbn [andb orb negb]. rewrite ?orb_true_r. reflexivity.
    + destruct (N.eqb_spec (vc_digest c) 0); [contradiction|]. destruct (N.eqb_spec (vc_digest a) 0); [contradiction|].
      destruct (N.eqb_spec (vc_digest a) (vc_digest c)); [congruence|]. cbn [andb orb negb]. rewrite ?orb_true_r. reflexivity.
Qed.

Lemma conv_model_passes i : conv_ok i (conv_model i) = true.
Proof.
  destruct i as [a c]. unfold conv_model. cbn [fst snd].
  destruct (rmn_convert a c) as [m| | |] eqn:E; try reflexivity.
  apply rmn_convert_is_spec in E. subst m. apply conv_spec_ok.
Qed.

Local Open Scope N_scope.
Example conv_ok_example :
  let a := mkVC 9 [mkRN 11 21; mkRN 12 22; mkRN 13 23] [mkRC 100 1 (Some 5%Z); mkRC 200 2 (Some 2%Z)] 4 in
  let c := mkVC 0 [] [] 0 in
  let hc := mkHC [mkHN 0 11 21 [100]; mkHN 1 12 22 [200]; mkHN 2 13 23 [100]] [(100, 1%Z); (200, 2%Z)] 9 4 in
  conv_ok (a, c) (Ok [(9, hc)]) = true /\
  (* a node listed for a chain whose bitmap does not have its bit, and a missing digest, are rejected *)
  conv_ok (a, c) (Ok [(9, mkHC [mkHN 0 11 21 [100]; mkHN 1 12 22 [100; 200]; mkHN 2 13 23 [100]] [(100, 1%Z); (200, 2%Z)] 9 4)]) = false /\
  conv_ok (a, c) (Ok []) = false.
Proof. vm_compute. repeat split. Qed.
Local Close Scope N_scope.

(* ExecSysP.v — end-to-end theorems about the execute plugin as a system (Model/ExecSys.v): the per-function
   theorems of C07 (merges), C08 (report builder, multiproof) and C09 (executed bookkeeping) composed across the
   three rounds GetCommitReports -> GetMessages -> Filter of one DON. *)
Require Import Verif.Model.Base Verif.Proofs.BaseP Verif.Model.Consensus Verif.Proofs.ConsensusP
               Verif.Model.Merkle Verif.Proofs.MerkleP Verif.Model.ExecReport Verif.Proofs.ExecReportP
               Verif.Proofs.ExecLivenessP Verif.Model.ExecSys.
Require Verif.Model.ExecMerge Verif.Proofs.ExecMergeP Verif.Model.PanicSites Verif.Proofs.PanicSitesP.
From Coq Require Import Sorting.Sorted ZifyN ZifyNat ZifyBool.
Module EMP := Verif.Proofs.ExecMergeP.
Module PSP := Verif.Proofs.PanicSitesP.

(* ====================================================================================================== *)
(*  0. vocabulary                                                                                          *)
(* ====================================================================================================== *)

(* the full items one observation files under a chain key / into the nonce and costly validators *)
Definition xcommits_of (k : N) (ob : sobs) : list xcommit := EM.entries k (so_commits ob).
Definition xmsgs_of (k : N) (ob : sobs) : list xmsg := map snd (EM.entries k (so_msgs ob)).
Definition xtok_of (c s : N) (i : nat) (ob : sobs) : list EM.tok :=
  match nth_error (EM.entries s (EM.entries c (so_tokens ob))) i with Some t => [t] | None => [] end.
Definition xnonces_of (ob : sobs) : list EM.nonce_t := EM.nonce_triples (to_obs ob).

(* x is reported, identically, by at least thr DISTINCT oracles; rs = exactly the oracles reporting it *)
Definition quorum {T} (items : sobs -> list T) (thr : N) (aos : list sao) (x : T) : Prop :=
  exists rs, NoDup rs /\ (thr <= N.of_nat (length rs))%N /\
             forall o, In o rs <-> exists ob, In (o, ob) aos /\ In x (items ob).

(* every observation is a well-formed Go map structure that passed Plugin.ValidateObservation for its oracle *)
Definition sys_validated (sup : N -> list N) (dest : N) (fchain : list (N * Z)) (aos : list sao) : Prop :=
  EMP.validated sup dest fchain (to_aos aos).

(* item identity is the implementation's id (sha3 of the rendering): two observed items with one id are one item *)
Definition key_functional (aos : list sao) : Prop :=
  (forall j j' x x', In x (xcommits_at j aos) -> In x' (xcommits_at j' aos) -> xc_key x = xc_key x' -> x = x') /\
  (forall j j' x x', In x (xmsgs_at j aos) -> In x' (xmsgs_at j' aos) -> xm_key x = xm_key x' -> x = x').

(* ====================================================================================================== *)
(*  1. projection to the item types of ExecMerge                                                           *)
(* ====================================================================================================== *)
Lemma to_aos_fst aos : map fst (to_aos aos) = map fst aos.
Proof. unfold to_aos. rewrite map_map. reflexivity. Qed.

Lemma to_aos_in o ob aos : In (o, ob) aos -> In (o, to_obs ob) (to_aos aos).
Proof. intros H. unfold to_aos. apply in_map_iff. exists (o, ob). split; [reflexivity|exact H]. Qed.

Lemma to_aos_inv o pob aos : In (o, pob) (to_aos aos) -> exists ob, In (o, ob) aos /\ pob = to_obs ob.
Proof.
  unfold to_aos. intros H. apply in_map_iff in H. destruct H as [[o' ob] [E Hi]]. cbn in E. inversion E; subst.
  now exists ob.
Qed.

Lemma to_aos_length aos : length (to_aos aos) = length aos.
Proof. unfold to_aos. apply map_length. Qed.

Lemma entries_map {V W} (g : V -> W) k (m : list (N * list V)) :
  EM.entries k (map (fun kl => (fst kl, map g (snd kl))) m) = map g (EM.entries k m).
Proof.
  unfold EM.entries. induction m as [|[k' l] m IH]; cbn [map flat_map fst snd]; [reflexivity|].
  rewrite map_app, IH. destruct (N.eqb k' k); reflexivity.
Qed.

Lemma commits_at_proj k ob : EMP.commits_at k (to_obs ob) = map to_commit (xcommits_of k ob).
Proof. unfold EMP.commits_at, xcommits_of, to_obs. cbn [EM.o_commits]. apply entries_map. Qed.

Lemma msgs_at_proj k ob : EMP.msgs_at k (to_obs ob) = map to_msg (xmsgs_of k ob).
Proof.
  unfold EMP.msgs_at, xmsgs_of, to_obs. cbn [EM.o_msgs].
  rewrite (entries_map (fun sm : N * xmsg => (fst sm, to_msg (snd sm)))). rewrite !map_map. reflexivity.
Qed.

Lemma tok_at_proj c s i ob : EMP.tok_at c s i (to_obs ob) = xtok_of c s i ob.
Proof. reflexivity. Qed.

Lemma xcommits_at_in k aos x :
  In x (xcommits_at k aos) <-> exists o ob, In (o, ob) aos /\ In x (xcommits_of k ob).
Proof.
  unfold xcommits_at, xcommits_of. rewrite in_flat_map. split.
  - intros [[o ob] [Hi Hx]]. now exists o, ob.
  - intros [o [ob [Hi Hx]]]. now exists (o, ob).
Qed.

Lemma xmsgs_at_in k aos x :
  In x (xmsgs_at k aos) <-> exists o ob, In (o, ob) aos /\ In x (xmsgs_of k ob).
Proof.
  unfold xmsgs_at, xmsgs_of. rewrite in_flat_map. split.
  - intros [[o ob] [Hi Hx]]. now exists o, ob.
  - intros [o [ob [Hi Hx]]]. now exists (o, ob).
Qed.

(* support of the projected item = quorum of the full item, when ids determine items *)
Lemma supported_commit_quorum k thr aos x :
  key_functional aos -> In x (xcommits_at k aos) ->
  EMP.supported_by (EMP.commits_at k) thr (to_aos aos) (to_commit x) -> quorum (xcommits_of k) thr aos x.
Proof.
  intros [Hk _] Hx [rs [ND [Hthr Hrs]]]. exists rs. split; [exact ND|]. split; [exact Hthr|].
  intros o. rewrite Hrs. split.
  - intros [pob [Hi Hin]]. apply to_aos_inv in Hi. destruct Hi as [ob [Hi ->]].
    rewrite commits_at_proj in Hin. apply in_map_iff in Hin. destruct Hin as [x' [E Hx']].
    exists ob. split; [exact Hi|].
    assert (x' = x).
    { apply (Hk k k); [apply xcommits_at_in; now exists o, ob|exact Hx|].
      apply (f_equal EM.c_id) in E. exact E. }
    now subst.
  - intros [ob [Hi Hin]]. exists (to_obs ob). split; [now apply to_aos_in|].
    rewrite commits_at_proj. now apply in_map.
Qed.

Lemma supported_msg_quorum k thr aos x :
  key_functional aos -> In x (xmsgs_at k aos) ->
  EMP.supported_by (EMP.msgs_at k) thr (to_aos aos) (to_msg x) -> quorum (xmsgs_of k) thr aos x.
Proof.
  intros [_ Hk] Hx [rs [ND [Hthr Hrs]]]. exists rs. split; [exact ND|]. split; [exact Hthr|].
  intros o. rewrite Hrs. split.
  - intros [pob [Hi Hin]]. apply to_aos_inv in Hi. destruct Hi as [ob [Hi ->]].
    rewrite msgs_at_proj in Hin. apply in_map_iff in Hin. destruct Hin as [x' [E Hx']].
    exists ob. split; [exact Hi|].
    assert (x' = x).
    { apply (Hk k k); [apply xmsgs_at_in; now exists o, ob|exact Hx|].
      apply (f_equal EM.m_id) in E. exact E. }
    now subst.
  - intros [ob [Hi Hin]]. exists (to_obs ob). split; [now apply to_aos_in|].
    rewrite msgs_at_proj. now apply in_map.
Qed.

Lemma supported_quorum_same {T} (f : EM.obs -> list T) (g : sobs -> list T) thr aos x :
  (forall ob, f (to_obs ob) = g ob) ->
  EMP.supported_by f thr (to_aos aos) x -> quorum g thr aos x.
Proof.
  intros Hfg [rs [ND [Hthr Hrs]]]. exists rs. split; [exact ND|]. split; [exact Hthr|].
  intros o. rewrite Hrs. split.
  - intros [pob [Hi Hin]]. apply to_aos_inv in Hi. destruct Hi as [ob [Hi ->]]. exists ob. now rewrite <- Hfg.
  - intros [ob [Hi Hin]]. exists (to_obs ob). split; [now apply to_aos_in|]. now rewrite Hfg.
Qed.

(* the merged full items are observed items with the merged projection *)
Lemma rich_commit_in k aos c x : In x (rich_commit k aos c) -> to_commit x = c /\ In x (xcommits_at k aos).
Proof.
  unfold rich_commit. destruct (find _ _) as [y|] eqn:E; [|intros []].
  intros [<-|[]]. apply find_some in E. destruct E as [Hi He].
  split; [|exact Hi]. now destruct (EMP.commit_eqb_spec (to_commit y) c).
Qed.
Lemma rich_msg_in k aos c x : In x (rich_msg k aos c) -> to_msg x = c /\ In x (xmsgs_at k aos).
Proof.
  unfold rich_msg. destruct (find _ _) as [y|] eqn:E; [|intros []].
  intros [<-|[]]. apply find_some in E. destruct E as [Hi He].
  split; [|exact Hi]. now destruct (EMP.msg_eqb_spec (to_msg y) c).
Qed.

(* getConsensusObservation, taken apart *)
Lemma get_consensus_inv bigF dest fchain paos g :
  EM.get_consensus bigF dest fchain paos = Ok g ->
  EM.merge_commits dest fchain paos = Ok (EM.g_commits g) /\ EM.merge_msgs fchain paos = Ok (EM.g_msgs g) /\
  EM.merge_tokens fchain paos = Ok (EM.g_tokens g) /\
  EM.g_costly g = EM.merge_costly (EM.f_dest dest fchain) paos /\
  EM.g_nonces g = EM.merge_nonces (EM.f_dest dest fchain) paos /\
  (bigF <= Z.of_nat (length paos))%Z.
Proof.
  unfold EM.get_consensus. destruct (Z.ltb_spec (Z.of_nat (length paos)) bigF) as [Hlt|Hge]; [discriminate|].
  destruct (EM.merge_commits dest fchain paos) as [cs| | |]; cbn [rbind]; try discriminate.
  destruct (EM.merge_msgs fchain paos) as [ms| | |]; cbn [rbind]; try discriminate.
  destruct (EM.merge_tokens fchain paos) as [ts| | |]; cbn [rbind]; try discriminate.
  intros H. inversion H; subst g. cbn. repeat split; try reflexivity. lia.
Qed.

Lemma x_consensus_inv bigF dest fchain aos m :
  x_consensus bigF dest fchain aos = Ok m ->
  exists g, EM.get_consensus bigF dest fchain (to_aos aos) = Ok g /\ m = rich g aos.
Proof.
  unfold x_consensus. destruct (EM.get_consensus _ _ _ _) as [g| | |]; cbn [rbind]; try discriminate.
  intros H. inversion H. now exists g.
Qed.

(* ---- C07 lifted to full items ---- *)
Section Lifted.
  Variables (sup : N -> list N) (bigF : Z) (dest : N) (fchain : list (N * Z)) (aos : list sao) (m : xmerged).
  Hypothesis ND : NoDup (map fst aos).
  Hypothesis Hval : sys_validated sup dest fchain aos.
  Hypothesis Hkeys : key_functional aos.
  Hypothesis Hcons : x_consensus bigF dest fchain aos = Ok m.

  Lemma ND' : NoDup (map fst (to_aos aos)).
  Proof. now rewrite to_aos_fst. Qed.

  (* a merged commit report of chain key j: a report OF chain j, agreed at the destination's f *)
  Lemma merged_commit_quorum j l x :
    In (j, l) (xg_commits m) -> In x l ->
    In j (EM.keys fchain) /\ c_src (xc_cd x) = j /\
    quorum (xcommits_of j) (f_plus_1 (EM.f_dest dest fchain)) aos x.
  Proof.
    intros Hj Hx. destruct (x_consensus_inv _ _ _ _ _ Hcons) as [g [Hg ->]].
    destruct (get_consensus_inv _ _ _ _ _ Hg) as [Hc _].
    unfold rich in Hj. cbn [xg_commits] in Hj. apply in_map_iff in Hj. destruct Hj as [[j' l0] [E Hj]].
    cbn [fst snd] in E. inversion E; subst j' l; clear E.
    unfold by_ckey in Hx. apply sort_by_in in Hx. apply in_flat_map in Hx. destruct Hx as [c [Hc0 Hx]].
    apply rich_commit_in in Hx. destruct Hx as [E Hat]. subst c.
    destruct (EMP.merge_commits_sound sup dest fchain (to_aos aos) _ j l0 (to_commit x) ND' Hval Hc Hj Hc0)
      as [Hk [Hsrc [Hs _]]].
    split; [exact Hk|]. split; [exact Hsrc|]. now apply supported_commit_quorum.
  Qed.

  (* a merged message of chain key k *)
  Lemma merged_msg_quorum k x :
    In x (chain_msgs m k) ->
    exists f, In (k, f) fchain /\ quorum (xmsgs_of k) (f_plus_1 f) aos x.
  Proof.
    intros Hx. destruct (x_consensus_inv _ _ _ _ _ Hcons) as [g [Hg ->]].
    destruct (get_consensus_inv _ _ _ _ _ Hg) as [_ [Hm _]].
    unfold chain_msgs, EM.entries in Hx. apply in_flat_map in Hx. destruct Hx as [[k' l] [Hk Hx]].
    cbn [fst snd] in Hx. destruct (N.eqb_spec k' k) as [->|Hne]; [|destruct Hx].
    unfold rich in Hk. cbn [xg_msgs] in Hk. apply in_map_iff in Hk. destruct Hk as [[k2 l0] [E Hk]].
    cbn [fst snd] in E. inversion E; subst k2 l; clear E.
    unfold by_mkey in Hx. apply sort_by_in in Hx. apply in_flat_map in Hx. destruct Hx as [c [Hc0 Hx]].
    apply rich_msg_in in Hx. destruct Hx as [E Hat]. subst c.
    destruct (EMP.merge_msgs_sound sup dest fchain (to_aos aos) _ k l0 (to_msg x) ND' Hval Hm Hk Hc0)
      as [f [Hf [Hs _]]].
    exists f. split; [exact Hf|]. now apply supported_msg_quorum.
  Qed.

  (* a ready slot of a merged token-data entry *)
  Lemma merged_tok_quorum k s slots i t :
    tok_at m k s = Some slots -> nth_error slots i = Some t -> EM.t_ready t = true ->
    exists f, alookup k fchain = Some f /\ quorum (xtok_of k s i) (f_plus_1 f) aos t.
  Proof.
    intros Ht Hn Hr. destruct (x_consensus_inv _ _ _ _ _ Hcons) as [g [Hg ->]].
    destruct (get_consensus_inv _ _ _ _ _ Hg) as [_ [_ [Htk _]]].
    unfold tok_at, chain_toks, rich in Ht. cbn [xg_tokens] in Ht.
    destruct (alookup k (EM.g_tokens g)) as [sl|] eqn:Ek; [|discriminate].
    apply alookup_In in Ek. apply alookup_In in Ht.
    destruct (EMP.merge_tokens_sound fchain (to_aos aos) _ k sl s slots i t ND' Htk Ek Ht Hn Hr) as [f [Hf Hs]].
    exists f. split; [exact Hf|]. eapply supported_quorum_same; [|exact Hs]. intros ob. apply tok_at_proj.
  Qed.

  (* a merged nonce triple *)
  Lemma merged_nonce_quorum t :
    In t (xg_nonces m) -> quorum xnonces_of (f_plus_1 (EM.f_dest dest fchain)) aos t.
  Proof.
    intros Ht. destruct (x_consensus_inv _ _ _ _ _ Hcons) as [g [Hg ->]].
    destruct (get_consensus_inv _ _ _ _ _ Hg) as [_ [_ [_ [_ [Hn _]]]]].
    unfold rich in Ht. cbn [xg_nonces] in Ht. rewrite Hn in Ht.
    destruct (EMP.merge_nonces_sound sup dest fchain _ (to_aos aos) t ND' Hval Ht) as [Hs _].
    eapply supported_quorum_same; [|exact Hs]. reflexivity.
  Qed.

  (* the merged costly ids *)
  Lemma merged_costly_eq : xg_costly m = EM.merge_costly (EM.f_dest dest fchain) (to_aos aos).
  Proof.
    destruct (x_consensus_inv _ _ _ _ _ Hcons) as [g [Hg ->]].
    destruct (get_consensus_inv _ _ _ _ _ Hg) as [_ [_ [_ [Hc _]]]]. exact Hc.
  Qed.
End Lifted.

(* ====================================================================================================== *)
(*  2. one round, taken apart                                                                              *)
(* ====================================================================================================== *)
Lemma new_outcome_pending st pend reps cd : In cd (o_pending (new_outcome st pend reps)) <-> In cd pend.
Proof. unfold new_outcome. cbn [o_pending]. apply sort_by_in. Qed.
Lemma new_outcome_report st pend reps r : In r (o_report (new_outcome st pend reps)) <-> In r reps.
Proof. unfold new_outcome. cbn [o_report]. apply sort_by_in. Qed.

Lemma rmap_forall2 {A B} (f : A -> res B) : forall l r, rmap f l = Ok r -> Forall2 (fun a b => f a = Ok b) l r.
Proof.
  induction l as [|a l IH]; intros r H; cbn [rmap] in H.
  - inversion H. constructor.
  - destruct (f a) as [b| | |] eqn:Ea; cbn [rbind] in H; try discriminate.
    destruct (rmap f l) as [r'| | |]; cbn [rbind] in H; try discriminate.
    inversion H; subst. constructor; [exact Ea|now apply IH].
Qed.
Lemma forall2_in_r {A B} (R : A -> B -> Prop) l r b : Forall2 R l r -> In b r -> exists a, In a l /\ R a b.
Proof.
  induction 1 as [|a b' l r Hab HF IH]; intros Hin; [destruct Hin|].
  destruct Hin as [->|Hin]; [exists a; split; [now left|exact Hab]|].
  destruct (IH Hin) as [a' [Ha HR]]. exists a'. split; [now right|exact HR].
Qed.
Lemma forall2_in_l {A B} (R : A -> B -> Prop) l r a : Forall2 R l r -> In a l -> exists b, In b r /\ R a b.
Proof.
  induction 1 as [|a' b l r Hab HF IH]; intros Hin; [destruct Hin|].
  destruct Hin as [->|Hin]; [exists b; split; [now left|exact Hab]|].
  destruct (IH Hin) as [b' [Hb HR]]. exists b'. split; [now right|exact HR].
Qed.

Section Rounds.
  Variable hash : N -> N -> N.
  Variable zero : N.
  Variable leaf_hash : msg -> option N.
  Variable enc_size : creport -> option N.
  Variable tree_gas : N -> N.
  Variable max_size max_gas : N.
  Variable nonce_key : EM.nonce_t -> N.

  Notation Round := (exec_round hash zero leaf_hash enc_size tree_gas max_size max_gas nonce_key).
  Notation FilterOutcome := (filter_outcome hash zero leaf_hash enc_size tree_gas max_size max_gas nonce_key).
  Notation SelectReport nonces := (select_report hash zero leaf_hash enc_size tree_gas nonces max_size max_gas).

  (* what a successful round was, by the state of its outcome *)
  Lemma emptied_or (o o' : outcome) :
    (if is_empty o then mkOut 1 [] [] else o) = o' ->
    (o' = o \/ (o' = mkOut 1 [] [] /\ o_pending o = [] /\ o_report o = [])).
  Proof.
    unfold is_empty. destruct (o_pending o) eqn:Ep; destruct (o_report o) eqn:Er; intros <-; auto.
  Qed.

  Lemma round_inv bigF dest fchain prev aos o :
    Round bigF dest fchain prev aos = Ok o ->
    exists s0 m st o',
      PS.exec_decode_state (o_state prev) = Ok s0 /\ x_consensus bigF dest fchain aos = Ok m /\
      PS.exec_next s0 = Ok st /\
      (if N.eqb st 2 then Ok (commit_reports_outcome m)
       else if N.eqb st 3 then messages_outcome m prev else FilterOutcome m prev) = Ok o' /\
      (o = o' \/ (o = mkOut 1 [] [] /\ o_pending o' = [] /\ o_report o' = [])).
  Proof.
    unfold exec_round.
    destruct (PS.exec_decode_state (o_state prev)) as [s0| | |] eqn:E0; cbn [rbind]; try discriminate.
    destruct (x_consensus bigF dest fchain aos) as [m| | |] eqn:Em; cbn [rbind]; try discriminate.
    destruct (PS.exec_next s0) as [st| | |] eqn:Es; cbn [rbind]; try discriminate.
    match goal with |- rbind ?x _ = _ -> _ => destruct x as [o'| | |] eqn:Eo end; cbn [rbind]; try discriminate.
    intros H. injection H as H1. exists s0, m, st, o'. repeat split; try assumption; try reflexivity.
    apply emptied_or in H1. destruct H1 as [H1|[H1 [A B]]]; [now left|right; now repeat split].
  Qed.

  Lemma decode_state s s0 : PS.exec_decode_state s = Ok s0 -> s0 = s.
  Proof. unfold PS.exec_decode_state. destruct (PS.exec_state_valid s); intros H; now inversion H. Qed.

  Lemma next_state s st :
    PS.exec_next s = Ok st ->
    (s = 2%N /\ st = 3%N) \/ (s = 3%N /\ st = 4%N) \/ (s <> 2%N /\ s <> 3%N /\ st = 2%N).
  Proof.
    unfold PS.exec_next. destruct (N.eqb_spec s 2) as [->|H2]; [intros H; inversion H; auto|].
    destruct (N.eqb_spec s 3) as [->|H3]; [intros H; inversion H; auto|].
    destruct (N.eqb s 0 || N.eqb s 1 || N.eqb s 4); intros H; inversion H. right. right. auto.
  Qed.

  Lemma filter_outcome_state m prev o : FilterOutcome m prev = Ok o -> o_state o = 4%N.
  Proof.
    unfold filter_outcome. destruct (select_report _ _ _ _ _ _ _ _ _) as [x| | |]; cbn [rbind]; try discriminate.
    intros H. now inversion H.
  Qed.
  Lemma messages_outcome_state m prev o : messages_outcome m prev = Ok o -> o_state o = 3%N /\ o_report o = [].
  Proof.
    unfold messages_outcome. destruct (rmap _ _) as [x| | |]; cbn [rbind]; try discriminate.
    intros H. now inversion H.
  Qed.

  (* a round whose outcome is in state GetCommitReports *)
  Lemma round_state2 bigF dest fchain prev aos o :
    Round bigF dest fchain prev aos = Ok o -> o_state o = 2%N ->
    exists m, x_consensus bigF dest fchain aos = Ok m /\ o = commit_reports_outcome m.
  Proof.
    intros H Hs. destruct (round_inv _ _ _ _ _ _ H) as [s0 [m [st [o' [_ [Hm [Hn [Ho Hoo]]]]]]]].
    destruct Hoo as [->|[-> _]]; [|discriminate Hs].
    exists m. split; [exact Hm|].
    destruct (N.eqb_spec st 2) as [->|H2]; [now inversion Ho|].
    destruct (N.eqb_spec st 3) as [->|H3].
    - apply messages_outcome_state in Ho. destruct Ho as [Ho _]. rewrite Ho in Hs. discriminate.
    - apply filter_outcome_state in Ho. rewrite Ho in Hs. discriminate.
  Qed.

  (* a round whose outcome is in state GetMessages *)
  Lemma round_state3 bigF dest fchain prev aos o :
    Round bigF dest fchain prev aos = Ok o -> o_state o = 3%N ->
    o_state prev = 2%N /\ exists m, x_consensus bigF dest fchain aos = Ok m /\ messages_outcome m prev = Ok o.
  Proof.
    intros H Hs. destruct (round_inv _ _ _ _ _ _ H) as [s0 [m [st [o' [Hd [Hm [Hn [Ho Hoo]]]]]]]].
    destruct Hoo as [->|[-> _]]; [|discriminate Hs].
    apply decode_state in Hd. subst s0.
    destruct (N.eqb_spec st 2) as [->|H2]; [inversion Ho; subst o'; discriminate Hs|].
    destruct (N.eqb_spec st 3) as [->|H3].
    - destruct (next_state _ _ Hn) as [[Hp _]|[[_ E]|[_ [_ E]]]]; try discriminate E.
      split; [exact Hp|]. now exists m.
    - apply filter_outcome_state in Ho. rewrite Ho in Hs. discriminate.
  Qed.

  (* a round whose outcome carries a chain report *)
  Lemma round_report bigF dest fchain prev aos o r :
    Round bigF dest fchain prev aos = Ok o -> In r (o_report o) ->
    o_state prev = 3%N /\ exists m o', x_consensus bigF dest fchain aos = Ok m /\ FilterOutcome m prev = Ok o' /\
                                       In r (o_report o').
  Proof.
    intros H Hr. destruct (round_inv _ _ _ _ _ _ H) as [s0 [m [st [o' [Hd [Hm [Hn [Ho Hoo]]]]]]]].
    destruct Hoo as [->|[-> _]]; [|destruct Hr].
    apply decode_state in Hd. subst s0.
    destruct (N.eqb_spec st 2) as [->|H2]; [inversion Ho; subst o'; destruct Hr|].
    destruct (N.eqb_spec st 3) as [->|H3].
    - apply messages_outcome_state in Ho. destruct Ho as [_ Ho]. rewrite Ho in Hr. destruct Hr.
    - destruct (next_state _ _ Hn) as [[_ E]|[[Hp _]|[_ [_ E]]]]; try congruence.
      split; [exact Hp|]. now exists m, o'.
  Qed.

  (* ---------- round 1: the pending reports are merged commit reports (those without a conflicting one) ---------- *)
  Lemma commit_outcome_flat m x :
    In x (flat_map snd (sort_by (fun a b => N.leb (fst a) (fst b)) (xg_commits m))) <->
    exists j l, In (j, l) (xg_commits m) /\ In x l.
  Proof.
    rewrite in_flat_map. split.
    - intros [[j l] [Hj Hx]]. apply sort_by_in in Hj. now exists j, l.
    - intros [j [l [Hj Hx]]]. exists (j, l). split; [now apply sort_by_in|exact Hx].
  Qed.

  Lemma commit_outcome_pending m cd :
    In cd (o_pending (commit_reports_outcome m)) -> exists j l x, In (j, l) (xg_commits m) /\ In x l /\ xc_cd x = cd.
  Proof.
    unfold commit_reports_outcome. rewrite new_outcome_pending, in_map_iff.
    intros [x [E Hx]]. apply sort_by_in in Hx. unfold drop_conflicting in Hx. apply filter_In in Hx. destruct Hx as [Hx _].
    apply commit_outcome_flat in Hx. destruct Hx as [j [l [Hj Hx]]]. now exists j, l, x.
  Qed.

  Lemma commit_outcome_kept m x :
    (exists j l, In (j, l) (xg_commits m) /\ In x l) ->
    conflict_count x (flat_map snd (sort_by (fun a b => N.leb (fst a) (fst b)) (xg_commits m))) <= 1 ->
    In (xc_cd x) (o_pending (commit_reports_outcome m)).
  Proof.
    intros Hx Hc. unfold commit_reports_outcome. rewrite new_outcome_pending. apply in_map. apply sort_by_in.
    unfold drop_conflicting. apply filter_In. split; [now apply commit_outcome_flat|]. now apply Nat.leb_le.
  Qed.

  (* ---------- round 2: enriching a pending report ---------- *)
  Lemma in_flat_opt {A B} (f : A -> option B) l y :
    In y (flat_map (fun j => match f j with Some x => [x] | None => [] end) l) <-> exists j, In j l /\ f j = Some y.
  Proof.
    rewrite in_flat_map. split.
    - intros [j [Hj Hy]]. exists j. split; [exact Hj|]. destruct (f j); [destruct Hy as [->|[]]; reflexivity|destruct Hy].
    - intros [j [Hj E]]. exists j. split; [exact Hj|]. rewrite E. now left.
  Qed.

  Lemma msg_at_some m k s x : msg_at m k s = Some x -> In x (chain_msgs m k) /\ m_seq (xm_msg x) = s.
  Proof.
    unfold msg_at. intros H. apply find_some in H. destruct H as [Hi He].
    split; [now apply in_rev|now apply N.eqb_eq].
  Qed.

  Lemma enrich_spec m cd cd' :
    enrich m cd = Ok cd' ->
    c_src cd' = c_src cd /\ c_root cd' = c_root cd /\ c_start cd' = c_start cd /\ c_end cd' = c_end cd /\
    c_exec cd' = c_exec cd /\
    (forall mm, In mm (c_msgs cd') ->
       exists x, In x (chain_msgs m (c_src cd)) /\ xm_msg x = mm /\
                 PS.in_range (c_start cd) (c_end cd) (m_seq mm) = true) /\
    (forall mm, In mm (c_msgs cd') -> memN (m_id mm) (c_costly cd') = false -> ~ In (m_id mm) (xg_costly m)) /\
    (exists tds, c_td cd' = c_td cd ++ tds /\
       forall td, In td tds -> exists s slots, PS.in_range (c_start cd) (c_end cd) s = true /\
                                               tok_at m (c_src cd) s = Some slots /\ td = to_td slots).
  Proof.
    unfold enrich, PS.range_loop. cbn [rbind]. intros H. inversion H; subst cd'; clear H. cbn.
    repeat split; try reflexivity.
    - intros mm Hmm. apply in_flat_map in Hmm. destruct Hmm as [j [Hj Hmm]].
      destruct (msg_at m (c_src cd) j) as [x|] eqn:Ex; [|destruct Hmm]. destruct Hmm as [<-|[]].
      destruct (msg_at_some _ _ _ _ Ex) as [Hx Hs]. exists x. split; [exact Hx|]. split; [reflexivity|].
      unfold sortN in Hj. apply sort_by_in in Hj. apply filter_In in Hj. rewrite Hs. apply Hj.
    - intros mm Hmm Hc Hin. apply memN_In in Hin.
      assert (T : true = false); [|discriminate T]. rewrite <- Hc. symmetry.
      apply (proj2 (memN_In _ _)). apply in_flat_map. exists mm. split; [exact Hmm|]. rewrite Hin. now left.
    - eexists. split; [reflexivity|]. intros td Htd. apply in_flat_map in Htd. destruct Htd as [j [Hj Htd]].
      destruct (tok_at m (c_src cd) j) as [slots|] eqn:Et; [|destruct Htd]. destruct Htd as [<-|[]].
      exists j, slots. split; [|split; [exact Et|reflexivity]].
      unfold sortN in Hj. apply sort_by_in in Hj. apply filter_In in Hj. apply Hj.
  Qed.

  Lemma messages_outcome_pending m prev o cd2 :
    messages_outcome m prev = Ok o -> In cd2 (o_pending o) -> exists cd1, In cd1 (o_pending prev) /\ enrich m cd1 = Ok cd2.
  Proof.
    unfold messages_outcome. destruct (rmap (enrich m) (o_pending prev)) as [cds| | |] eqn:E; cbn [rbind]; try discriminate.
    intros H Hin. inversion H; subst o. apply new_outcome_pending in Hin.
    exact (forall2_in_r _ _ _ _ (rmap_forall2 _ _ _ E) Hin).
  Qed.

  (* ---------- round 3: the report is built over the previous outcome's pending reports ---------- *)
  Lemma filter_outcome_report m prev o r :
    FilterOutcome m prev = Ok o -> In r (o_report o) ->
    exists reports pend, SelectReport (nonce_map nonce_key (xg_nonces m)) (o_pending prev) = Ok (reports, pend) /\
                         In r reports.
  Proof.
    unfold filter_outcome.
    destruct (select_report _ _ _ _ _ _ _ _ _) as [[reports pend]| | |] eqn:E; cbn [rbind]; try discriminate.
    intros H Hr. inversion H; subst o. apply new_outcome_report in Hr. now exists reports, pend.
  Qed.
End Rounds.

(* ====================================================================================================== *)
(*  3. the Filter round's report, message by message (C08 with the nonce lookup added)                      *)
(* ====================================================================================================== *)
Lemma select_nth {A} (l : list A) : forall idxs p,
  (forall i, In i idxs -> i < length l) ->
  nth_error (select l idxs) p = match nth_error idxs p with Some i => nth_error l i | None => None end.
Proof.
  induction idxs as [|i idxs IH]; intros p Hr.
  - destruct p; reflexivity.
  - assert (Hi : i < length l) by (apply Hr; now left).
    destruct (nth_error l i) as [x|] eqn:E; [|apply nth_error_None in E; lia].
    rewrite (select_cons _ _ _ _ E). destruct p as [|p]; cbn [nth_error]; [now rewrite E|].
    apply IH. intros j Hj. apply Hr. now right.
Qed.

Section Report.
  Variable hash : N -> N -> N.
  Variable zero : N.
  Variable leaf_hash : msg -> option N.
  Variable enc_size : creport -> option N.
  Variable tree_gas : N -> N.
  Variable nonces : nmap.
  Variable max_size max_gas : N.

  Notation Add := (add hash zero leaf_hash enc_size tree_gas nonces max_size max_gas).
  Notation SelectLoop := (select_loop hash zero leaf_hash enc_size tree_gas nonces max_size max_gas).
  Notation SelectReport := (select_report hash zero leaf_hash enc_size tree_gas nonces max_size max_gas).
  Notation GoodReport := (good_report hash zero leaf_hash).
  Notation ReportFor := (report_for hash zero leaf_hash).

  (* the on-chain nonce of a sequenced message's sender is in the nonce map handed to the builder *)
  Definition nonce_known (cd : cdata) (mm : msg) : Prop :=
    m_nonce mm = 0%N \/ exists v, nlookup (c_src cd) (m_sender mm) nonces = Some v.

  Lemma check_message_nonce exp cd i mm exp1 :
    check_message nonces exp cd i mm = Ok (exp1, true) -> nonce_known cd mm.
  Proof.
    unfold check_message, nonce_known. destruct (memN (m_seq mm) (c_exec cd)); [discriminate|].
    destruct (nth_error (c_td cd) i) as [td|]; [|discriminate].
    destruct (negb (td_ready td)); [discriminate|].
    destruct (memN (m_id mm) (c_costly cd)); [discriminate|].
    unfold check_nonce. destruct (N.eqb_spec (m_nonce mm) 0) as [E|Hne]; [now left|].
    destruct (nlookup (c_src cd) (m_sender mm) nonces) as [on|]; [intros _; right; now exists on|].
    cbn. discriminate.
  Qed.

  Lemma check_all_nonce cd : forall ms pre exp exp' ready,
    c_msgs cd = pre ++ ms ->
    check_all nonces exp cd (length pre) ms = Ok (exp', ready) ->
    forall i, In i ready -> exists mm, nth_error (c_msgs cd) i = Some mm /\ nonce_known cd mm.
  Proof.
    induction ms as [|m0 ms IH]; intros pre exp exp' ready Hm Hc i Hi.
    - cbn in Hc. inversion Hc; subst. destruct Hi.
    - cbn [check_all] in Hc.
      destruct (check_message nonces exp cd (length pre) m0) as [[exp1 rdy]| | |] eqn:E1; try discriminate.
      cbn [rbind fst snd] in Hc.
      destruct (check_all nonces exp1 cd (S (length pre)) ms) as [[exp2 r2]| | |] eqn:E2; try discriminate.
      cbn [rbind fst snd] in Hc. inversion Hc; subst exp' ready; clear Hc.
      assert (Hm' : c_msgs cd = (pre ++ [m0]) ++ ms) by (rewrite <- app_assoc; exact Hm).
      assert (Hl : length (pre ++ [m0]) = S (length pre)) by (rewrite app_length; cbn; lia).
      rewrite <- Hl in E2.
      destruct rdy.
      + destruct Hi as [<-|Hi]; [|exact (IH _ _ _ _ Hm' E2 i Hi)].
        exists m0. split; [|exact (check_message_nonce _ _ _ _ _ E1)].
        rewrite Hm, nth_error_app2, Nat.sub_diag by lia. reflexivity.
      + exact (IH _ _ _ _ Hm' E2 i Hi).
  Qed.

  Lemma add_nonce_known st cd st' cd' r :
    Add st cd = Ok (st', cd') -> b_reports st' = b_reports st ++ [r] ->
    forall mm, In mm (r_msgs r) -> nonce_known cd mm.
  Proof.
    unfold add, build_single. intros Ha Hb mm Hmm.
    destruct (check_all nonces (b_exp st) cd 0 (c_msgs cd)) as [[exp1 ready]| | |] eqn:Ec; try discriminate.
    destruct (check_all_spec hash leaf_hash tree_gas nonces zero cd (c_msgs cd) [] _ _ _ eq_refl Ec) as [Hs Hr].
    assert (Hlen : forall l : list creport, l = l ++ [r] -> False).
    { intros l E. apply (f_equal (@length _)) in E. rewrite app_length in E. cbn in E. lia. }
    destruct ready as [|i0 ready']; [inversion Ha; subst; exfalso; exact (Hlen _ Hb)|].
    set (ready := i0 :: ready') in *.
    set (st1 := mkB (b_size st) (b_gas st) exp1 (b_reports st)) in *.
    destruct (choose hash zero leaf_hash enc_size tree_gas max_size max_gas st1 cd ready)
      as [[[[idxs r0] meta]|]| | |] eqn:Ech; try discriminate.
    - destruct (choose_spec hash zero leaf_hash enc_size tree_gas max_size max_gas st1 cd ready idxs r0 meta)
        as [H1 [H2 [H3 [H4 H5]]]]; try assumption; [discriminate|].
      unfold finalize in Ha. inversion Ha; subst st' cd'; clear Ha. cbn [b_reports] in Hb.
      apply app_inv_head in Hb. inversion Hb; subst r0; clear Hb.
      assert (Hrf : ReportFor cd idxs r).
      { apply build_helper_spec; try assumption. intros i Hi. destruct (Hr i (H3 i Hi)). lia. }
      destruct Hrf as [t [pf [_ [_ [_ [_ ->]]]]]]. cbn [r_msgs] in Hmm.
      apply select_In in Hmm. destruct Hmm as [i [Hi Hn]].
      destruct (check_all_nonce cd (c_msgs cd) [] _ _ _ eq_refl Ec i (H3 i Hi)) as [mm' [Hn' Hk]].
      rewrite Hn in Hn'. inversion Hn'; subst mm'. exact Hk.
    - inversion Ha; subst. exfalso. exact (Hlen _ Hb).
  Qed.

  (* selectReport: every chain report is a good report (C08_outcome) of a pending commit report, built with the
     nonce map's entry for every sequenced message *)
  Lemma select_loop_full : forall cds st st' pend,
    SelectLoop st cds = Ok (st', pend) ->
    exists new, b_reports st' = b_reports st ++ new /\
                Forall (fun r => exists cd, In cd cds /\ GoodReport cd r /\
                                            forall mm, In mm (r_msgs r) -> nonce_known cd mm) new.
  Proof.
    induction cds as [|cd cds IH]; intros st st' pend Hsel.
    - cbn in Hsel. inversion Hsel; subst. exists []. rewrite app_nil_r. split; [reflexivity|constructor].
    - unfold select_loop in Hsel. cbn [select_loop_with] in Hsel. fold SelectLoop in Hsel.
      destruct (c_msgs cd) as [|m0 ms0] eqn:Em.
      + destruct (SelectLoop st cds) as [[st2 p2]| | |] eqn:E2; cbn [rbind fst snd] in Hsel; try discriminate.
        inversion Hsel; subst. destruct (IH _ _ _ E2) as [new [H1 H2]]. exists new. split; [exact H1|].
        eapply Forall_impl; [|exact H2]. intros r [cd0 [Hi Hg]]. exists cd0. split; [now right|exact Hg].
      + destruct (Add st cd) as [[st1 cd1]| | |] eqn:Ea; cbn [rbind fst snd] in Hsel; try discriminate.
        destruct (SelectLoop st1 cds) as [[st2 p2]| | |] eqn:E2; cbn [rbind fst snd] in Hsel; try discriminate.
        inversion Hsel; subst st' pend; clear Hsel.
        destruct (IH _ _ _ E2) as [new [H1 H2]].
        assert (H2' : Forall (fun r => exists cd0, In cd0 (cd :: cds) /\ GoodReport cd0 r /\
                                                   forall mm, In mm (r_msgs r) -> nonce_known cd0 mm) new).
        { eapply Forall_impl; [|exact H2]. intros r [cd0 [Hi Hg]]. exists cd0. split; [now right|exact Hg]. }
        destruct (add_spec hash zero leaf_hash enc_size tree_gas nonces max_size max_gas _ _ _ _ Ea)
          as [[A1 _]|[idxs [r [sz [A1 [_ [A3 [A4 [A5 [A6 _]]]]]]]]]].
        * exists new. rewrite H1, A1. split; [reflexivity|exact H2'].
        * exists (r :: new). rewrite H1, A1, <- app_assoc. split; [reflexivity|].
          constructor; [|exact H2']. exists cd. split; [now left|]. split; [exists idxs; auto|].
          exact (add_nonce_known _ _ _ _ _ Ea A1).
  Qed.

  Lemma select_report_full cds reports pend :
    SelectReport cds = Ok (reports, pend) ->
    Forall (fun r => exists cd, In cd cds /\ GoodReport cd r /\ forall mm, In mm (r_msgs r) -> nonce_known cd mm) reports.
  Proof.
    unfold select_report.
    destruct (SelectLoop b_init cds) as [[st p]| | |] eqn:E; cbn [rbind fst snd]; try discriminate.
    intros H; inversion H; subst reports pend; clear H.
    destruct (select_loop_full _ _ _ _ E) as [new [H1 H2]]. cbn in H1. unfold build. now rewrite H1.
  Qed.

  (* ConstructMerkleTree checks every message against the commit data *)
  Lemma tree_leaves_checks cd : forall ms ls,
    tree_leaves leaf_hash cd ms = Ok ls -> forall mm, In mm ms -> in_range cd (m_seq mm) = true /\ c_src cd = m_src mm.
  Proof.
    induction ms as [|m0 ms IH]; intros ls Ht mm Hin; [destruct Hin|]. cbn [tree_leaves] in Ht.
    destruct (in_range cd (m_seq m0)) eqn:Er; cbn [negb] in Ht; [|discriminate].
    destruct (N.eqb_spec (c_src cd) (m_src m0)) as [Es|Hne]; cbn [negb] in Ht; [|discriminate].
    destruct (leaf_hash m0); [|discriminate].
    destruct (tree_leaves leaf_hash cd ms) as [r| | |] eqn:E; cbn [rbind] in Ht; try discriminate.
    destruct Hin as [<-|Hin]; [split; assumption|exact (IH _ eq_refl mm Hin)].
  Qed.

  (* one message of a good chain report *)
  Lemma good_report_msg cd r mm :
    GoodReport cd r -> In mm (r_msgs r) ->
    r_src r = c_src cd /\ m_src mm = c_src cd /\ in_range cd (m_seq mm) = true /\
    length (c_td cd) = length (c_msgs cd) /\
    exists i td p,
      nth_error (c_msgs cd) i = Some mm /\ nth_error (c_td cd) i = Some td /\
      memN (m_seq mm) (c_exec cd) = false /\ memN (m_id mm) (c_costly cd) = false /\ td_ready td = true /\
      nth_error (r_msgs r) p = Some mm /\ nth_error (r_td r) p = Some (td_bytes td).
  Proof.
    intros [idxs [Hne [Hs [Hin [t [pf [Ht [Hroot [Hp [Hl ->]]]]]]]]]] Hmm. cbn [r_src r_msgs r_td] in *.
    split; [reflexivity|].
    apply In_nth_error in Hmm. destruct Hmm as [p Hp'].
    assert (Hr : forall i, In i idxs -> i < length (c_msgs cd)) by (intros i Hi; apply Hin, Hi).
    rewrite (select_nth _ idxs p Hr) in Hp'.
    destruct (nth_error idxs p) as [i|] eqn:Ei; [|discriminate].
    assert (Hi : In i idxs) by (eapply nth_error_In; exact Ei).
    destruct (Hin i Hi) as [Hlt [m' [td [Hm' [Htd [Hx [Hc Hrd]]]]]]].
    rewrite Hp' in Hm'. inversion Hm'; subst m'.
    unfold construct_tree in Ht. destruct (negb _); [discriminate|].
    destruct (tree_leaves leaf_hash cd (c_msgs cd)) as [ls| | |] eqn:El; cbn [rbind] in Ht; try discriminate.
    destruct (tree_leaves_checks cd _ _ El mm (nth_error_In _ _ Hp')) as [Hrange Hsrc].
    split; [now symmetry|]. split; [exact Hrange|]. split; [exact Hl|].
    exists i, td, p. repeat split; try assumption.
    - rewrite (select_nth _ idxs p Hr), Ei. exact Hp'.
    - rewrite nth_error_map.
      rewrite (select_nth _ idxs p) by (intros j Hj; rewrite Hl; apply Hr, Hj). rewrite Ei, Htd. reflexivity.
  Qed.

  (* the destination's verifier recomputes the committed root from a good report (C08_provable, from the report) *)
  Lemma good_report_provable cd r hs :
    (forall a b, hash a b = hash b a) -> length (c_msgs cd) <= 256 ->
    GoodReport cd r -> Forall2 (fun mm h => leaf_hash mm = Some h) (r_msgs r) hs ->
    verify hash hs (r_proofs r) (flags_to_bools (r_flags r) (length hs + length (r_proofs r) - 1)) = Ok (c_root cd).
  Proof.
    intros Hcomm Hmax [idxs [A3 [A4 [A5 A6]]]] Hhs.
    destruct A6 as [t [pf [Ht [Hroot [Hp [Hl Hr]]]]]].
    unfold construct_tree in Ht. destruct (negb _); [discriminate|].
    destruct (tree_leaves leaf_hash cd (c_msgs cd)) as [ls| | |] eqn:El; cbn [rbind] in Ht; try discriminate.
    pose proof (tree_leaves_spec leaf_hash cd _ _ El) as HF.
    assert (Hlen : length ls = length (c_msgs cd)).
    { clear -HF. induction HF; cbn [length]; [reflexivity|now f_equal]. }
    assert (Hin : forall i, In i idxs -> i < length ls) by (intros i Hi; rewrite Hlen; apply A5, Hi).
    destruct (MerkleP.multiproof hash zero Hcomm ls idxs) as [t2 [ps [fl [M1 [M2 [M3 _]]]]]]; try assumption.
    { unfold max_leaves. lia. }
    rewrite Ht in M1. inversion M1; subst t2; clear M1.
    rewrite Hp in M2. inversion M2; subst pf; clear M2.
    subst r. cbn [r_msgs r_proofs r_flags fst snd] in *.
    assert (Ehs : hs = MerkleP.vals zero ls idxs).
    { rewrite <- (select_vals zero ls idxs Hin).
      pose proof (select_Forall2 _ _ _ idxs HF) as HF2.
      revert Hhs HF2. generalize (select (c_msgs cd) idxs), (select ls idxs). clear.
      intros ms. revert hs. induction ms as [|m ms IH]; intros hs l2 H1 H2.
      - inversion H1; inversion H2; reflexivity.
      - inversion H1; inversion H2; subst. f_equal; [congruence|]. now apply IH. }
    subst hs. rewrite Hroot in M3.
    rewrite <- (MerkleP.verify_ok_length _ _ _ _ _ M3), MerkleP.flags_roundtrip. exact M3.
  Qed.
End Report.

(* the nonce map of the Filter round holds merged triples only *)
Lemma nonce_fold_lookup c s v : forall (l : list EM.nonce_t) acc,
  nlookup c s (fold_left (fun a t => nupdate (fst (fst t)) (snd (fst t)) (snd t) a) l acc) = Some v ->
  nlookup c s acc = Some v \/ In (c, s, v) l.
Proof.
  induction l as [|[[c2 s2] v2] l IH]; intros acc H; cbn [fold_left fst snd] in H; [now left|].
  destruct (IH _ H) as [H1|H1]; [|right; now right].
  destruct (N.eqb_spec c c2) as [->|Hc]; [destruct (N.eqb_spec s s2) as [->|Hs]|].
  - rewrite nlookup_nupdate_same in H1. inversion H1; subst. right. now left.
  - rewrite nlookup_nupdate_other in H1 by congruence. now left.
  - rewrite nlookup_nupdate_other in H1 by congruence. now left.
Qed.

Lemma nonce_map_lookup key ns c s v : nlookup c s (nonce_map key ns) = Some v -> In (c, s, v) ns.
Proof.
  unfold nonce_map. intros H. apply nonce_fold_lookup in H. destruct H as [H|H]; [discriminate H|].
  now apply sort_by_in in H.
Qed.

Lemma to_td_ready slots : td_ready (to_td slots) = true -> forall t, In t slots -> EM.t_ready t = true.
Proof.
  unfold td_ready, to_td. rewrite forallb_forall. intros H t Ht.
  apply (H (EM.t_ready t, EM.t_data t)). apply in_map_iff. now exists t.
Qed.

(* ====================================================================================================== *)
(*  4. token data alignment: which sequence number the token data at a message's position belongs to       *)
(* ====================================================================================================== *)
(* The builder compares list LENGTHS only (report.go: "token data length mismatch").  That the i-th token data
   entry belongs to the i-th message follows from ConstructMerkleTree's count check (one message per sequence number
   of the range) by counting, provided the commit data agreed in the GetCommitReports round carried no token data. *)
Lemma sorted_le_nodup_lt l : StronglySorted N.le l -> NoDup l -> StronglySorted N.lt l.
Proof.
  induction 1 as [|x l Hs IH Hall]; intros ND; [constructor|]. inversion ND as [|? ? Hn ND']; subst.
  constructor; [now apply IH|]. rewrite Forall_forall in *. intros y Hy. specialize (Hall y Hy).
  assert (x <> y) by (intros ->; contradiction). lia.
Qed.

Lemma strictly_sorted_count l : forall a b,
  StronglySorted N.lt l -> (forall x, In x l -> (a <= x <= b)%N) -> l <> [] -> (N.of_nat (length l) <= b - a + 1)%N.
Proof.
  induction l as [|x l IH]; intros a b Hs Hr Hne; [congruence|].
  inversion Hs as [|? ? Hs' Hall]; subst. rewrite Forall_forall in Hall.
  assert (Hx : (a <= x <= b)%N) by (apply Hr; now left).
  destruct l as [|y l']; [cbn; lia|].
  assert (IH' : (N.of_nat (length (y :: l')) <= b - (x + 1) + 1)%N).
  { apply IH; [exact Hs'| |discriminate]. intros z Hz. specialize (Hall z Hz).
    assert ((a <= z <= b)%N) by (apply Hr; now right). lia. }
  assert (Hy : (x < y)%N) by (apply Hall; now left).
  assert (Hyb : (a <= y <= b)%N) by (apply Hr; right; now left).
  cbn [length] in *. lia.
Qed.

Lemma flat_opt_length {A B} (f : A -> option B) l :
  length (flat_map (fun j => match f j with Some x => [x] | None => [] end) l) <= length l.
Proof. induction l as [|j l IH]; cbn [flat_map length]; [lia|]. rewrite app_length. destruct (f j); cbn [length]; lia. Qed.

Lemma flat_opt_full_nth {A B} (f : A -> option B) : forall l i,
  length (flat_map (fun j => match f j with Some x => [x] | None => [] end) l) = length l ->
  nth_error (flat_map (fun j => match f j with Some x => [x] | None => [] end) l) i =
  match nth_error l i with Some j => f j | None => None end.
Proof.
  induction l as [|j l IH]; intros i Hlen; [destruct i; reflexivity|].
  cbn [flat_map length] in *. rewrite app_length in Hlen. pose proof (flat_opt_length f l) as Hle.
  destruct (f j) as [y|] eqn:E; cbn [length app] in *; [|lia].
  destruct i as [|i]; cbn [nth_error]; [now rewrite E|]. apply IH. lia.
Qed.

Theorem enrich_alignment m cd1 cd2 hash zero leaf_hash t :
  enrich m cd1 = Ok cd2 -> c_td cd1 = [] ->
  (c_start cd1 < two64)%N -> (c_end cd1 < two64)%N ->
  construct_tree hash zero leaf_hash cd2 = Ok t -> length (c_td cd2) = length (c_msgs cd2) ->
  forall i mm td, nth_error (c_msgs cd2) i = Some mm -> nth_error (c_td cd2) i = Some td ->
    exists slots, tok_at m (c_src cd1) (m_seq mm) = Some slots /\ td = to_td slots.
Proof.
  unfold enrich, PS.range_loop. cbn [rbind]. intros H Htd0 Hs64 He64 Ht Hlen i mm td Hi Htd.
  inversion H; subst cd2; clear H. rewrite Htd0 in *. cbn [c_msgs c_td c_start c_end app] in *.
  set (k := c_src cd1) in *. set (s := c_start cd1) in *. set (e := c_end cd1) in *.
  set (seqs := sortN (filter (PS.in_range s e) (observed_keys m k))) in *.
  set (fm := fun j : N => match msg_at m k j with Some x => Some (xm_msg x) | None => None end).
  set (ft := fun j : N => match tok_at m k j with Some sl => Some (to_td sl) | None => None end).
  assert (Em : flat_map (fun j => match msg_at m k j with Some x => [xm_msg x] | None => [] end) seqs =
               flat_map (fun j => match fm j with Some x => [x] | None => [] end) seqs).
  { apply flat_map_ext. intros j. unfold fm. destruct (msg_at m k j); reflexivity. }
  assert (Et : flat_map (fun j => match tok_at m k j with Some sl => [to_td sl] | None => [] end) seqs =
               flat_map (fun j => match ft j with Some x => [x] | None => [] end) seqs).
  { apply flat_map_ext. intros j. unfold ft. destruct (tok_at m k j); reflexivity. }
  rewrite Em in *. rewrite Et in *.
  set (msgs2 := flat_map (fun j => match fm j with Some x => [x] | None => [] end) seqs) in *.
  set (tds := flat_map (fun j => match ft j with Some x => [x] | None => [] end) seqs) in *.
  (* the sequence numbers walked: strictly ascending, inside the range *)
  assert (NDs : NoDup seqs).
  { eapply Permutation_NoDup; [symmetry; apply sortN_perm_self|]. apply NoDup_filter.
    unfold observed_keys, EM.dedupN. apply (dedup_nodup N.eqb N.eqb_spec). }
  assert (Hsorted : StronglySorted N.lt seqs) by (apply sorted_le_nodup_lt; [apply sortN_sorted|exact NDs]).
  assert (Hin : forall x, In x seqs -> (s <= x <= e)%N).
  { intros x Hx. unfold seqs, sortN in Hx. apply sort_by_in in Hx. apply filter_In in Hx. destruct Hx as [_ Hx].
    unfold PS.in_range in Hx. apply andb_prop in Hx. destruct Hx as [H1 H2]. apply N.leb_le in H1, H2. lia. }
  pose proof (flat_opt_length fm seqs) as Lm. fold msgs2 in Lm.
  pose proof (flat_opt_length ft seqs) as Lt. fold tds in Lt.
  assert (Hpos : i < length msgs2) by (apply nth_error_Some; congruence).
  assert (Hne : seqs <> []) by (intros E; rewrite E in Lm; cbn in Lm; lia).
  pose proof (strictly_sorted_count seqs s e Hsorted Hin Hne) as Hcount.
  assert (Hse : (s <= e)%N).
  { destruct seqs as [|x l]; [congruence|]. specialize (Hin x (or_introl eq_refl)). lia. }
  (* ConstructMerkleTree: as many messages as the range has sequence numbers *)
  unfold construct_tree in Ht. cbn [c_start c_end c_msgs] in Ht. fold msgs2 in Ht.
  destruct (Z.eqb_spec (to_int64 (add64 (sub64 e s) 1)) (Z.of_nat (length msgs2))) as [Hnum|Hnum]; cbn [negb] in Ht;
    [|discriminate].
  assert (Hfull : length msgs2 = length seqs).
  { unfold to_int64, add64, sub64, two64 in *.
    assert (E1 : ((e + 18446744073709551616 - s mod 18446744073709551616) mod 18446744073709551616 = e - s)%N).
    { rewrite (N.mod_small s) by lia.
      replace (e + 18446744073709551616 - s)%N with ((e - s) + 1 * 18446744073709551616)%N by lia.
      rewrite N.mod_add by lia. apply N.mod_small. lia. }
    rewrite E1 in Hnum.
    destruct (N.eq_dec (e - s + 1) 18446744073709551616) as [Efull|Hnf].
    - rewrite Efull in Hnum. rewrite N.mod_same in Hnum by lia. cbn in Hnum. lia.
    - rewrite (N.mod_small (e - s + 1)) in Hnum by lia.
      destruct (N.ltb_spec (e - s + 1) 9223372036854775808); lia. }
  assert (Hfullt : length tds = length seqs) by lia.
  unfold msgs2 in Hi, Hfull. unfold tds in Htd, Hfullt.
  rewrite (flat_opt_full_nth fm seqs i Hfull) in Hi.
  rewrite (flat_opt_full_nth ft seqs i Hfullt) in Htd.
  destruct (nth_error seqs i) as [j|]; [|discriminate].
  unfold fm in Hi. destruct (msg_at m k j) as [x|] eqn:Ex; [|discriminate]. inversion Hi; subst mm.
  destruct (msg_at_some _ _ _ _ Ex) as [_ Hseq]. rewrite Hseq.
  unfold ft in Htd. destruct (tok_at m k j) as [sl|]; [|discriminate]. inversion Htd. now exists sl.
Qed.

(* ====================================================================================================== *)
(*  5. one cycle: GetCommitReports -> GetMessages -> Filter                                                 *)
(* ====================================================================================================== *)
Section Cycle.
  Variable hash : N -> N -> N.
  Variable zero : N.
  Variable leaf_hash : msg -> option N.
  Variable enc_size : creport -> option N.
  Variable tree_gas : N -> N.
  Variable max_size max_gas : N.
  Variable nonce_key : EM.nonce_t -> N.
  Notation Round := (exec_round hash zero leaf_hash enc_size tree_gas max_size max_gas nonce_key).

  Variables (sup : N -> list N) (bigF : Z) (dest : N) (fc1 fc2 fc3 : list (N * Z)).
  Variables (prev o1 o2 o3 : outcome) (aos1 aos2 aos3 : list sao).
  Hypothesis ND1 : NoDup (map fst aos1).
  Hypothesis ND2 : NoDup (map fst aos2).
  Hypothesis ND3 : NoDup (map fst aos3).
  Hypothesis V1 : sys_validated sup dest fc1 aos1.
  Hypothesis V2 : sys_validated sup dest fc2 aos2.
  Hypothesis V3 : sys_validated sup dest fc3 aos3.
  Hypothesis K1 : key_functional aos1.
  Hypothesis K2 : key_functional aos2.
  Hypothesis R1 : Round bigF dest fc1 prev aos1 = Ok o1.
  Hypothesis S1 : o_state o1 = 2%N.
  Hypothesis R2 : Round bigF dest fc2 o1 aos2 = Ok o2.
  Hypothesis R3 : Round bigF dest fc3 o2 aos3 = Ok o3.

  (* everything known about one message of the Filter round's report *)
  Theorem cycle_message r mm :
    In r (o_report o3) -> In mm (r_msgs r) ->
    m_src mm = r_src r /\
    exists (x : xcommit) (cd2 : cdata) (xm : xmsg) (fk : Z) (i p : nat) (td : tokdata),
      (* (i) the commit report: agreed in the GetCommitReports round, under its own source chain key, at f_dest + 1 *)
      quorum (xcommits_of (r_src r)) (f_plus_1 (EM.f_dest dest fc1)) aos1 x /\
      c_src (xc_cd x) = r_src r /\
      PS.in_range (c_start (xc_cd x)) (c_end (xc_cd x)) (m_seq mm) = true /\
      In (xc_cd x) (o_pending o1) /\
      (* carried through the GetMessages outcome: the chain report was built from it *)
      In cd2 (o_pending o2) /\ good_report hash zero leaf_hash cd2 r /\
      c_src cd2 = c_src (xc_cd x) /\ c_root cd2 = c_root (xc_cd x) /\ c_start cd2 = c_start (xc_cd x) /\
      c_end cd2 = c_end (xc_cd x) /\ c_exec cd2 = c_exec (xc_cd x) /\
      (* (c) not executed according to the agreed commit report *)
      memN (m_seq mm) (c_exec (xc_cd x)) = false /\
      (* (ii) the message: agreed in the GetMessages round under its own source chain key at f_k + 1 *)
      xm_msg xm = mm /\ In (r_src r, fk) fc2 /\ quorum (xmsgs_of (r_src r)) (f_plus_1 fk) aos2 xm /\
      (* its place in the commit data and in the report, and the token data used for it *)
      nth_error (c_msgs cd2) i = Some mm /\ nth_error (c_td cd2) i = Some td /\
      nth_error (r_msgs r) p = Some mm /\ nth_error (r_td r) p = Some (td_bytes td) /\ td_ready td = true /\
      length (c_td cd2) = length (c_msgs cd2) /\
      (* (iii) the token data is what the agreed commit data already carried, or a merged entry of the GetMessages
         round for a sequence number of the report's range: every slot agreed at f_k + 1 *)
      (In td (c_td (xc_cd x)) \/
       exists s slots, PS.in_range (c_start (xc_cd x)) (c_end (xc_cd x)) s = true /\ td = to_td slots /\
         forall n t, nth_error slots n = Some t ->
           EM.t_ready t = true /\
           exists f, alookup (r_src r) fc2 = Some f /\ quorum (xtok_of (r_src r) s n) (f_plus_1 f) aos2 t) /\
      (* not flagged too costly by f_dest + 1 *)
      ~ In (m_id mm) (EM.merge_costly (EM.f_dest dest fc2) (to_aos aos2)) /\
      (* (iv) a sequenced message: the sender's on-chain nonce agreed in the Filter round at f_dest + 1 *)
      (m_nonce mm = 0%N \/
       exists v, quorum xnonces_of (f_plus_1 (EM.f_dest dest fc3)) aos3 (r_src r, m_sender mm, v)).
  Proof.
    intros Hr Hmm.
    destruct (round_report _ _ _ _ _ _ _ _ _ _ _ _ _ _ _ R3 Hr) as [S2 [m3 [o3' [C3 [F3 Hr']]]]].
    destruct (round_state3 _ _ _ _ _ _ _ _ _ _ _ _ _ _ R2 S2) as [_ [m2 [C2 M2]]].
    destruct (round_state2 _ _ _ _ _ _ _ _ _ _ _ _ _ _ R1 S1) as [m1 [C1 E1]].
    destruct (filter_outcome_report _ _ _ _ _ _ _ _ _ _ _ _ F3 Hr') as [reports [pend [Hsel Hrin]]].
    pose proof (select_report_full _ _ _ _ _ _ _ _ _ _ _ Hsel) as HF. rewrite Forall_forall in HF.
    destruct (HF r Hrin) as [cd2 [Hcd2 [Hgood Hnon]]].
    destruct (messages_outcome_pending _ _ _ _ M2 Hcd2) as [cd1 [Hcd1 Hen]].
    destruct (enrich_spec _ _ _ Hen) as [Es [Er [Ea [Ee [Ex [Hmsgs [Hcostly [tds [Etd Htds]]]]]]]]].
    assert (Hcd1' : In cd1 (o_pending (commit_reports_outcome m1))) by (rewrite <- E1; exact Hcd1).
    apply commit_outcome_pending in Hcd1'. destruct Hcd1' as [j [l [x [Hj [Hx Ecd]]]]]. subst cd1.
    destruct (merged_commit_quorum sup bigF dest fc1 aos1 m1 ND1 V1 K1 C1 j l x Hj Hx) as [_ [Hjsrc Hq]]. subst j.
    destruct (good_report_msg _ _ _ _ _ _ Hgood Hmm)
      as [Hsrc [Hms [Hrange [Hlen [i [td [p [Hi [Ht [Hne [Hnc [Hrd [Hp1 Hp2]]]]]]]]]]]]].
    destruct (Hmsgs mm (nth_error_In _ _ Hi)) as [xm [Hxm [Exm Hin]]].
    destruct (merged_msg_quorum sup bigF dest fc2 aos2 m2 ND2 V2 K2 C2 (c_src (xc_cd x)) xm Hxm) as [fk [Hfk Hqm]].
    split; [congruence|].
    exists x, cd2, xm, fk, i, p, td.
    rewrite Hsrc, Es.
    split; [exact Hq|]. split; [reflexivity|]. split; [exact Hin|]. split; [exact Hcd1|].
    split; [exact Hcd2|]. split; [exact Hgood|].
    split; [reflexivity|]. split; [exact Er|]. split; [exact Ea|]. split; [exact Ee|]. split; [exact Ex|].
    split; [now rewrite <- Ex|].
    split; [exact Exm|]. split; [exact Hfk|]. split; [exact Hqm|].
    split; [exact Hi|]. split; [exact Ht|]. split; [exact Hp1|]. split; [exact Hp2|]. split; [exact Hrd|].
    split; [exact Hlen|].
    split; [|split].
    - apply nth_error_In in Ht. rewrite Etd in Ht. apply in_app_or in Ht. destruct Ht as [Ht|Ht]; [now left|right].
      destruct (Htds td Ht) as [s [slots [Hs [Htok ->]]]]. exists s, slots. split; [exact Hs|]. split; [reflexivity|].
      intros n t Hn. pose proof (to_td_ready _ Hrd t (nth_error_In _ _ Hn)) as Hready. split; [exact Hready|].
      exact (merged_tok_quorum bigF dest fc2 aos2 m2 ND2 C2 (c_src (xc_cd x)) s slots n t Htok Hn Hready).
    - rewrite <- (merged_costly_eq bigF dest fc2 aos2 m2 C2). apply Hcostly; [exact (nth_error_In _ _ Hi)|exact Hnc].
    - destruct (Hnon mm Hmm) as [H0|[v Hv]]; [now left|right]. exists v.
      apply nonce_map_lookup in Hv. rewrite Es in Hv.
      exact (merged_nonce_quorum sup bigF dest fc3 aos3 m3 ND3 V3 C3 _ Hv).
  Qed.
  (* (b) an independent verifier recomputes, from the included messages' hashes and the report's proof, exactly the
     root of a commit report agreed in the GetCommitReports round *)
  Theorem cycle_report_sound r hs :
    (forall a b, hash a b = hash b a) ->
    (forall cd, In cd (o_pending o2) -> length (c_msgs cd) <= 256) ->
    In r (o_report o3) -> Forall2 (fun mm h => leaf_hash mm = Some h) (r_msgs r) hs ->
    exists (x : xcommit),
      quorum (xcommits_of (r_src r)) (f_plus_1 (EM.f_dest dest fc1)) aos1 x /\ c_src (xc_cd x) = r_src r /\
      verify hash hs (r_proofs r) (flags_to_bools (r_flags r) (length hs + length (r_proofs r) - 1))
        = Ok (c_root (xc_cd x)).
  Proof.
    intros Hcomm Hmax Hr Hhs.
    assert (Hne : exists mm, In mm (r_msgs r)).
    { destruct (round_report _ _ _ _ _ _ _ _ _ _ _ _ _ _ _ R3 Hr) as [S2 [m3 [o3' [C3 [F3 Hr']]]]].
      destruct (filter_outcome_report _ _ _ _ _ _ _ _ _ _ _ _ F3 Hr') as [reports [pend [Hsel Hrin]]].
      pose proof (select_report_full _ _ _ _ _ _ _ _ _ _ _ Hsel) as HF. rewrite Forall_forall in HF.
      destruct (HF r Hrin) as [cd [_ [[idxs [Hn [_ [Hin [t [pf [_ [_ [_ [_ ->]]]]]]]]]] _]]]. cbn [r_msgs].
      destruct idxs as [|i idxs]; [contradiction|]. destruct (Hin i (or_introl eq_refl)) as [_ [m' [_ [Hm' _]]]].
      exists m'. rewrite (select_cons _ _ _ _ Hm'). now left. }
    destruct Hne as [mm Hmm].
    destruct (cycle_message r mm Hr Hmm) as [_ [x [cd2 [xm [fk [i [p [td H]]]]]]]].
    destruct H as [Hq [Hsrc [_ [_ [Hcd2 [Hgood [_ [Hroot _]]]]]]]].
    exists x. split; [exact Hq|]. split; [exact Hsrc|].
    rewrite <- Hroot.
    exact (good_report_provable hash zero leaf_hash enc_size tree_gas max_gas cd2 r hs Hcomm (Hmax cd2 Hcd2) Hgood Hhs).
  Qed.

  (* (c) no message of the report is executed according to the commit report agreed in the GetCommitReports round;
     hence: a sequence number that EVERY agreed commit report of chain k covering it lists as executed is in no
     chain report of chain k *)
  Theorem cycle_no_reexecution k s :
    (forall x, quorum (xcommits_of k) (f_plus_1 (EM.f_dest dest fc1)) aos1 x -> c_src (xc_cd x) = k ->
               PS.in_range (c_start (xc_cd x)) (c_end (xc_cd x)) s = true ->
               memN s (c_exec (xc_cd x)) = true) ->
    forall r mm, In r (o_report o3) -> In mm (r_msgs r) -> r_src r = k -> m_seq mm <> s.
  Proof.
    intros Hall r mm Hr Hmm Hk Hs.
    destruct (cycle_message r mm Hr Hmm) as [_ [x [cd2 [xm [fk [i [p [td H]]]]]]]].
    destruct H as [Hq [Hsrc [Hin [_ [_ [_ [_ [_ [_ [_ [_ [Hex _]]]]]]]]]]]].
    rewrite Hs in Hin, Hex. rewrite Hk in Hq. rewrite (Hall x Hq (eq_trans Hsrc Hk) Hin) in Hex. discriminate.
  Qed.

  (* not flagged too costly: fewer than f_dest + 1 distinct oracles list the message's id *)
  Theorem cycle_not_costly r mm rs :
    In r (o_report o3) -> In mm (r_msgs r) ->
    NoDup rs -> rs <> [] -> (forall o, In o rs -> exists ob, In (o, ob) aos2 /\ In (m_id mm) (so_costly ob)) ->
    (Z.of_nat (length rs) < EM.f_dest dest fc2 + 1)%Z.
  Proof.
    intros Hr Hmm NDr Hne Hrs.
    destruct (cycle_message r mm Hr Hmm) as [_ [x [cd2 [xm [fk [i [p [td H]]]]]]]].
    destruct H as [_ [_ [_ [_ [_ [_ [_ [_ [_ [_ [_ [_ [_ [_ [_ [_ [_ [_ [_ [_ [_ [_ [Hc _]]]]]]]]]]]]]]]]]]]]]]].
    destruct (Z.ltb_spec (Z.of_nat (length rs)) (EM.f_dest dest fc2 + 1)) as [Hlt|Hge]; [exact Hlt|exfalso].
    apply Hc. apply (EMP.merge_costly_complete _ (to_aos aos2) (m_id mm) rs); try assumption.
    - now rewrite to_aos_fst.
    - intros o Ho. destruct (Hrs o Ho) as [ob [Hi Hx]]. exists (to_obs ob). split; [now apply to_aos_in|exact Hx].
  Qed.
  (* (iii), exact form: when the agreed commit data carried no token data (no honest oracle observes commit data with
     token data: getPendingExecutedReports never fills MessageTokenData), the token data used for the message is the
     merged entry of its OWN sequence number, every slot agreed at f_k + 1 *)
  Theorem cycle_token_data r mm :
    In r (o_report o3) -> In mm (r_msgs r) ->
    (forall cd, In cd (o_pending o1) -> c_td cd = [] /\ (c_start cd < two64)%N /\ (c_end cd < two64)%N) ->
    exists p slots,
      nth_error (r_msgs r) p = Some mm /\ nth_error (r_td r) p = Some (td_bytes (to_td slots)) /\
      forall n t, nth_error slots n = Some t ->
        EM.t_ready t = true /\
        exists f, alookup (r_src r) fc2 = Some f /\ quorum (xtok_of (r_src r) (m_seq mm) n) (f_plus_1 f) aos2 t.
  Proof.
    intros Hr Hmm Hclean.
    destruct (round_report _ _ _ _ _ _ _ _ _ _ _ _ _ _ _ R3 Hr) as [S2 [m3 [o3' [C3 [F3 Hr']]]]].
    destruct (round_state3 _ _ _ _ _ _ _ _ _ _ _ _ _ _ R2 S2) as [_ [m2 [C2 M2]]].
    destruct (filter_outcome_report _ _ _ _ _ _ _ _ _ _ _ _ F3 Hr') as [reports [pend [Hsel Hrin]]].
    pose proof (select_report_full _ _ _ _ _ _ _ _ _ _ _ Hsel) as HF. rewrite Forall_forall in HF.
    destruct (HF r Hrin) as [cd2 [Hcd2 [Hgood _]]].
    destruct (messages_outcome_pending _ _ _ _ M2 Hcd2) as [cd1 [Hcd1 Hen]].
    destruct (Hclean cd1 Hcd1) as [Htd0 [Hs64 He64]].
    destruct (good_report_msg _ _ _ _ _ _ Hgood Hmm)
      as [Hsrc [Hms [Hrange [Hlen [i [td [p [Hi [Ht [Hne [Hnc [Hrd [Hp1 Hp2]]]]]]]]]]]]].
    assert (Htree : exists t, construct_tree hash zero leaf_hash cd2 = Ok t).
    { destruct Hgood as [idxs [_ [_ [_ [t [pf [Ht' _]]]]]]]. now exists t. }
    destruct Htree as [t Htree].
    destruct (enrich_alignment m2 cd1 cd2 hash zero leaf_hash t Hen Htd0 Hs64 He64 Htree Hlen i mm td Hi Ht)
      as [slots [Htok ->]].
    destruct (enrich_spec _ _ _ Hen) as [Es _].
    exists p, slots. split; [exact Hp1|]. split; [exact Hp2|].
    intros n tk Hn. pose proof (to_td_ready _ Hrd tk (nth_error_In _ _ Hn)) as Hready. split; [exact Hready|].
    rewrite Hsrc, Es.
    exact (merged_tok_quorum bigF dest fc2 aos2 m2 ND2 C2 (c_src cd1) (m_seq mm) slots n tk Htok Hn Hready).
  Qed.
End Cycle.


(* ====================================================================================================== *)
(*  6. liveness: an honest quorum with one view gets an eligible message into the cycle's report           *)
(* ====================================================================================================== *)
Lemma find_unique {A} (p : A -> bool) l x :
  In x l -> p x = true -> (forall y, In y l -> p y = true -> y = x) -> find p l = Some x.
Proof.
  intros Hin Hp Hu. destruct (find p l) as [y|] eqn:E.
  - apply find_some in E. destruct E as [Hy Hpy]. now rewrite (Hu y Hy Hpy).
  - rewrite (find_none _ _ E x Hin) in Hp. discriminate.
Qed.

Lemma rmap_total {A B} (f : A -> res B) l : (forall a, exists b, f a = Ok b) -> exists r, rmap f l = Ok r.
Proof.
  intros Hf. induction l as [|a l [r IH]]; [now exists []|]. destruct (Hf a) as [b Hb].
  exists (b :: r). cbn [rmap]. rewrite Hb. cbn [rbind]. rewrite IH. reflexivity.
Qed.

Lemma alookup_map_key {V} (g : N -> V) k l : In k l -> alookup k (map (fun c => (c, g c)) l) = Some (g k).
Proof.
  induction l as [|c l IH]; intros Hin; [destruct Hin|]. cbn [map alookup].
  destruct (N.eqb_spec k c) as [->|Hne]; [reflexivity|]. apply IH. destruct Hin as [E|Hin]; [congruence|exact Hin].
Qed.

Lemma flat_opt_all {A B} (f : A -> option B) l :
  (forall j, In j l -> f j <> None) ->
  length (flat_map (fun j => match f j with Some x => [x] | None => [] end) l) = length l.
Proof.
  induction l as [|j l IH]; intros H; [reflexivity|]. cbn [flat_map length]. rewrite app_length, IH.
  - destruct (f j) eqn:E; [reflexivity|]. exfalso. apply (H j); [now left|exact E].
  - intros j' Hj'. apply H. now right.
Qed.

Lemma flat_opt_map {A B} (f : A -> option B) (g : A -> B) l :
  (forall j, In j l -> f j = Some (g j)) ->
  flat_map (fun j => match f j with Some x => [x] | None => [] end) l = map g l.
Proof.
  induction l as [|j l IH]; intros H; [reflexivity|]. cbn [flat_map map].
  rewrite (H j (or_introl eq_refl)). cbn [app]. f_equal. apply IH. intros j' Hj'. apply H. now right.
Qed.

(* supporters of an item in the projected observations = a quorum witness *)
Lemma quorum_supporters {T} (eqb : T -> T -> bool) (eqb_spec : forall x y, reflect (x = y) (eqb x y))
      (f : EM.obs -> list T) (g : sobs -> list T) thr aos x :
  (forall ob, f (to_obs ob) = g ob) -> NoDup (map fst aos) ->
  quorum g thr aos x -> (thr <= N.of_nat (length (EMP.supporters eqb f x (to_aos aos))))%N.
Proof.
  intros Hfg ND [rs [NDr [Hthr Hrs]]].
  assert (Hincl : incl rs (EMP.supporters eqb f x (to_aos aos))).
  { intros o Ho. apply (EMP.supporters_in eqb eqb_spec). apply Hrs in Ho. destruct Ho as [ob [Hi Hx]].
    exists (to_obs ob). split; [now apply to_aos_in|now rewrite Hfg]. }
  pose proof (NoDup_incl_length NDr Hincl). lia.
Qed.

Lemma supporters_quorum {T} (eqb : T -> T -> bool) (eqb_spec : forall x y, reflect (x = y) (eqb x y))
      (f : EM.obs -> list T) (g : sobs -> list T) thr aos x :
  (forall ob, f (to_obs ob) = g ob) -> NoDup (map fst aos) ->
  (thr <= N.of_nat (length (EMP.supporters eqb f x (to_aos aos))))%N -> quorum g thr aos x.
Proof.
  intros Hfg ND Hthr. exists (EMP.supporters eqb f x (to_aos aos)).
  split; [apply EMP.supporters_nodup; now rewrite to_aos_fst|]. split; [exact Hthr|].
  intros o. rewrite (EMP.supporters_in eqb eqb_spec). split.
  - intros [pob [Hi Hx]]. apply to_aos_inv in Hi. destruct Hi as [ob [Hi ->]]. exists ob. now rewrite <- Hfg.
  - intros [ob [Hi Hx]]. exists (to_obs ob). split; [now apply to_aos_in|now rewrite Hfg].
Qed.

Lemma rich_commit_self k aos x :
  key_functional aos -> In x (xcommits_at k aos) -> rich_commit k aos (to_commit x) = [x].
Proof.
  intros [Hk _] Hx. unfold rich_commit.
  destruct (find (fun y => EM.commit_eqb (to_commit y) (to_commit x)) (xcommits_at k aos)) as [y|] eqn:E.
  - apply find_some in E. destruct E as [Hy He].
    destruct (EMP.commit_eqb_spec (to_commit y) (to_commit x)) as [Eq|]; [|discriminate].
    f_equal. apply (Hk k k); try assumption. exact (f_equal EM.c_id Eq).
  - pose proof (find_none _ _ E x Hx) as Hn. cbn in Hn.
    destruct (EMP.commit_eqb_spec (to_commit x) (to_commit x)); [discriminate|congruence].
Qed.

Lemma rich_msg_self k aos x :
  key_functional aos -> In x (xmsgs_at k aos) -> rich_msg k aos (to_msg x) = [x].
Proof.
  intros [_ Hk] Hx. unfold rich_msg.
  destruct (find (fun y => EM.msg_eqb (to_msg y) (to_msg x)) (xmsgs_at k aos)) as [y|] eqn:E.
  - apply find_some in E. destruct E as [Hy He].
    destruct (EMP.msg_eqb_spec (to_msg y) (to_msg x)) as [Eq|]; [|discriminate].
    f_equal. apply (Hk k k); try assumption. exact (f_equal EM.m_id Eq).
  - pose proof (find_none _ _ E x Hx) as Hn. cbn in Hn.
    destruct (EMP.msg_eqb_spec (to_msg x) (to_msg x)); [discriminate|congruence].
Qed.

Lemma consensus_total sup bigF dest fchain aos :
  sys_validated sup dest fchain aos -> (bigF <= Z.of_nat (length aos))%Z ->
  exists m, x_consensus bigF dest fchain aos = Ok m.
Proof.
  intros Hv HF. unfold x_consensus.
  destruct (EMP.get_consensus_ok sup bigF dest fchain (to_aos aos) Hv) as [cs [ms [ts [_ [_ [_ Hg]]]]]].
  { now rewrite to_aos_length. }
  rewrite Hg. cbn [rbind]. eexists. reflexivity.
Qed.

(* a full item reported by a quorum is in the consensus observation *)
Lemma quorum_commit_merged sup bigF dest fchain aos m k x :
  NoDup (map fst aos) -> sys_validated sup dest fchain aos -> key_functional aos ->
  x_consensus bigF dest fchain aos = Ok m ->
  In k (EM.keys fchain) -> quorum (xcommits_of k) (f_plus_1 (EM.f_dest dest fchain)) aos x ->
  (0 < f_plus_1 (EM.f_dest dest fchain))%N ->
  exists l, In (k, l) (xg_commits m) /\ In x l.
Proof.
  intros ND Hv Hkeys Hc Hf [rs [NDr [Hthr Hrs]]] Hpos.
  destruct (x_consensus_inv _ _ _ _ _ Hc) as [g [Hg ->]].
  destruct (get_consensus_inv _ _ _ _ _ Hg) as [Hmc _].
  assert (Hne : rs <> []) by (intros ->; cbn in Hthr; lia).
  assert (Hx : In x (xcommits_at k aos)).
  { destruct rs as [|o rs']; [congruence|]. destruct (proj1 (Hrs o) (or_introl eq_refl)) as [ob [Hi Hin]].
    apply xcommits_at_in. now exists o, ob. }
  destruct (EMP.merge_commits_complete sup dest fchain (to_aos aos) k (to_commit x) rs) as [r [l [Hr [Hkl Hin]]]];
    try assumption.
  - now rewrite to_aos_fst.
  - intros o Ho. apply Hrs in Ho. destruct Ho as [ob [Hi Hin]]. exists (to_obs ob). split; [now apply to_aos_in|].
    rewrite commits_at_proj. now apply in_map.
  - rewrite Hmc in Hr. inversion Hr; subst r.
    exists (by_ckey (flat_map (rich_commit k aos) l)). split.
    + unfold rich. cbn [xg_commits]. apply in_map_iff. exists (k, l). split; [reflexivity|exact Hkl].
    + unfold by_ckey. apply sort_by_in. apply in_flat_map. exists (to_commit x). split; [exact Hin|].
      rewrite (rich_commit_self k aos x Hkeys Hx). now left.
Qed.

(* ---------- the agreed reports, flattened, hold no report twice ---------- *)
Lemma nodup_flat_map_tagged {A B K} (f : A -> list B) (key : A -> K) (tag : B -> K) l :
  NoDup (map key l) -> (forall a, In a l -> NoDup (f a)) -> (forall a b, In a l -> In b (f a) -> tag b = key a) ->
  NoDup (flat_map f l).
Proof.
  induction l as [|a l IH]; intros NDk Hnd Htag; cbn [flat_map]; [constructor|].
  cbn [map] in NDk. inversion NDk as [|? ? Hn NDk']; subst.
  apply EMP.nodup_app.
  - apply Hnd. now left.
  - apply IH; [exact NDk'| |]; intros; [apply Hnd|eapply Htag]; try (right; eassumption); eassumption.
  - intros b Hb1 Hb2. apply in_flat_map in Hb2. destruct Hb2 as [a' [Ha' Hb2]]. apply Hn.
    rewrite <- (Htag a b (or_introl eq_refl) Hb1), (Htag a' b (or_intror Ha') Hb2). now apply in_map.
Qed.

Lemma per_chain_keys_nodup {T} (eqb : T -> T -> bool) items fc :
  NoDup (map fst fc) -> NoDup (map fst (EM.per_chain eqb items fc)).
Proof.
  unfold EM.per_chain. induction fc as [|[k f] fc IH]; intros ND; cbn [flat_map map fst snd]; [constructor|].
  cbn [map fst] in ND. inversion ND as [|? ? Hn ND']; subst.
  destruct (valid eqb (f_plus_1 f) (items k)) as [|v vs]; [now apply IH|].
  cbn [app map fst]. constructor; [|now apply IH].
  intros Hin. apply Hn. apply in_map_iff in Hin. destruct Hin as [[k' l'] [E Hin]]. cbn in E. subst k'.
  apply in_flat_map in Hin. destruct Hin as [[k2 f2] [Hi2 Hin]]. cbn [fst snd] in Hin.
  destruct (valid eqb (f_plus_1 f2) (items k2)); [destruct Hin|]. destruct Hin as [E|[]]. inversion E; subst.
  apply in_map_iff. now exists (k, f2).
Qed.

Lemma valid_nodup {T} (eqb : T -> T -> bool) (eqb_spec : forall x y, reflect (x = y) (eqb x y)) thr items :
  NoDup (valid eqb thr items).
Proof. unfold valid. apply NoDup_filter. apply (dedup_nodup eqb eqb_spec). Qed.

Lemma merged_flat_nodup sup bigF dest fchain aos m :
  NoDup (map fst aos) -> sys_validated sup dest fchain aos -> key_functional aos ->
  x_consensus bigF dest fchain aos = Ok m -> NoDup (EM.keys fchain) ->
  NoDup (flat_map snd (sort_by (fun a b => N.leb (fst a) (fst b)) (xg_commits m))).
Proof.
  intros ND Hv Hkeys Hc NDf.
  assert (Hsrc : forall j l y, In (j, l) (xg_commits m) -> In y l -> c_src (xc_cd y) = j).
  { intros j l y Hj Hy. exact (proj1 (proj2 (merged_commit_quorum sup bigF dest fchain aos m ND Hv Hkeys Hc j l y Hj Hy))). }
  destruct (x_consensus_inv _ _ _ _ _ Hc) as [g [Hg Em]].
  destruct (get_consensus_inv _ _ _ _ _ Hg) as [Hmc _].
  apply (nodup_flat_map_tagged snd fst (fun y => c_src (xc_cd y))).
  - (* chain keys: those of fChain with a valid report, once each *)
    eapply Permutation_NoDup; [apply Permutation_map; symmetry; apply sort_by_perm|].
    subst m. unfold rich. cbn [xg_commits]. rewrite map_map. cbn [fst].
    unfold EM.merge_commits in Hmc. destruct (EM.unknown_key fchain EM.o_commits (to_aos aos)); [discriminate|].
    inversion Hmc as [Hmc']. apply per_chain_keys_nodup. unfold EM.dest_fchain. rewrite map_map. exact NDf.
  - intros [j l] Hj. apply sort_by_in in Hj. cbn [snd]. subst m. unfold rich in Hj. cbn [xg_commits] in Hj.
    apply in_map_iff in Hj. destruct Hj as [[j' l0] [E Hj]]. cbn [fst snd] in E. inversion E; subst j' l; clear E.
    unfold by_ckey. eapply Permutation_NoDup; [symmetry; apply sort_by_perm|].
    apply (nodup_flat_map_tagged (rich_commit j aos) (fun c => c) to_commit).
    + rewrite map_id. unfold EM.merge_commits in Hmc. destruct (EM.unknown_key fchain EM.o_commits (to_aos aos)); [discriminate|].
      inversion Hmc as [Hmc']. rewrite <- Hmc' in Hj. apply EMP.per_chain_in in Hj. destruct Hj as [f [_ [-> _]]].
      apply (valid_nodup EM.commit_eqb EMP.commit_eqb_spec).
    + intros c _. unfold rich_commit. destruct (find _ _); repeat constructor. intros [].
    + intros c y _ Hy. apply rich_commit_in in Hy. apply Hy.
  - intros [j l] y Hj Hy. apply sort_by_in in Hj. cbn [fst snd] in *. exact (Hsrc j l y Hj Hy).
Qed.

Lemma filter_unique_length {A} (p : A -> bool) l x :
  NoDup l -> (forall y, In y l -> p y = true -> y = x) -> length (filter p l) <= 1.
Proof.
  intros ND Hu. assert (NDf : NoDup (filter p l)) by now apply NoDup_filter.
  assert (Hincl : incl (filter p l) [x]).
  { intros y Hy. apply filter_In in Hy. left. symmetry. now apply Hu. }
  exact (NoDup_incl_length NDf Hincl).
Qed.

Lemma quorum_msg_merged sup bigF dest fchain aos m k f x :
  NoDup (map fst aos) -> sys_validated sup dest fchain aos -> key_functional aos ->
  x_consensus bigF dest fchain aos = Ok m ->
  In (k, f) fchain -> quorum (xmsgs_of k) (f_plus_1 f) aos x -> (0 < f_plus_1 f)%N ->
  In x (chain_msgs m k).
Proof.
  intros ND Hv Hkeys Hc Hf [rs [NDr [Hthr Hrs]]] Hpos.
  destruct (x_consensus_inv _ _ _ _ _ Hc) as [g [Hg ->]].
  destruct (get_consensus_inv _ _ _ _ _ Hg) as [_ [Hmm _]].
  assert (Hne : rs <> []) by (intros ->; cbn in Hthr; lia).
  assert (Hx : In x (xmsgs_at k aos)).
  { destruct rs as [|o rs']; [congruence|]. destruct (proj1 (Hrs o) (or_introl eq_refl)) as [ob [Hi Hin]].
    apply xmsgs_at_in. now exists o, ob. }
  destruct (EMP.merge_msgs_complete sup dest fchain (to_aos aos) k f (to_msg x) rs) as [r [l [Hr [Hkl Hin]]]];
    try assumption.
  - now rewrite to_aos_fst.
  - intros o Ho. apply Hrs in Ho. destruct Ho as [ob [Hi Hin]]. exists (to_obs ob). split; [now apply to_aos_in|].
    rewrite msgs_at_proj. now apply in_map.
  - rewrite Hmm in Hr. inversion Hr; subst r.
    unfold chain_msgs, EM.entries. apply in_flat_map.
    exists (k, by_mkey (flat_map (rich_msg k aos) l)). split.
    + unfold rich. cbn [xg_msgs]. apply in_map_iff. exists (k, l). split; [reflexivity|exact Hkl].
    + cbn [fst snd]. rewrite N.eqb_refl. unfold by_mkey. apply sort_by_in. apply in_flat_map.
      exists (to_msg x). split; [exact Hin|]. rewrite (rich_msg_self k aos x Hkeys Hx). now left.
Qed.

(* ---------- the merged token-data entry of a message whose slots have a quorum and no rival, when no observation
   files more slots for it than the honest view has (the recorded exception F13e) ---------- *)
Lemma fold_max_le (l : list nat) n : (forall x, In x l -> x <= n) -> fold_right Nat.max O l <= n.
Proof. induction l as [|x l IH]; intros H; cbn [fold_right]; [lia|]. specialize (H x (or_introl eq_refl)) as Hx.
       assert (fold_right Nat.max O l <= n) by (apply IH; intros y Hy; apply H; now right). lia. Qed.

Lemma entries_key_in {V} k s (mp : list (N * list (N * V))) : In s (EM.keys (EM.entries k mp)) -> In k (EM.keys mp).
Proof.
  unfold EM.keys, EM.entries. intros H. apply in_map_iff in H. destruct H as [[s' v] [_ H]].
  apply in_flat_map in H. destruct H as [[k' l] [Hk H]]. cbn [fst snd] in H.
  destruct (N.eqb_spec k' k) as [->|]; [|destruct H]. apply in_map_iff. now exists (k, l).
Qed.

Lemma merged_tok_exists bigF dest fchain aos m k s :
  x_consensus bigF dest fchain aos = Ok m ->
  (exists o ob, In (o, ob) aos /\ In s (EM.keys (EM.entries k (so_tokens ob)))) ->
  tok_at m k s =
  Some (map (EM.tok_slot (match alookup k fchain with Some f0 => f_plus_1 f0 | None => 0%N end) k s (to_aos aos))
            (seq 0 (EM.tok_slots k s (to_aos aos)))).
Proof.
  intros Hc [o0 [ob0 [Hi0 Hs0]]].
  destruct (x_consensus_inv _ _ _ _ _ Hc) as [g [Hg ->]].
  destruct (get_consensus_inv _ _ _ _ _ Hg) as [_ [_ [Htk _]]].
  unfold EM.merge_tokens in Htk. destruct (EM.unknown_key fchain EM.o_tokens (to_aos aos)); [discriminate|].
  inversion Htk as [Htk']; clear Htk.
  set (paos := to_aos aos) in *.
  set (G := fun c : N =>
              map (fun s0 : N => (s0, map (EM.tok_slot (match alookup c fchain with Some f0 => f_plus_1 f0 | None => 0%N end)
                                                         c s0 paos) (seq 0 (EM.tok_slots c s0 paos))))
                  (EM.tok_seqs c paos)).
  assert (Hk : In k (EM.tok_chains paos)).
  { unfold EM.tok_chains, EM.dedupN. apply (dedup_in N.eqb N.eqb_spec). apply in_flat_map.
    exists (o0, to_obs ob0). split; [now apply to_aos_in|]. cbn [snd]. eapply entries_key_in. exact Hs0. }
  assert (Hs : In s (EM.tok_seqs k paos)).
  { unfold EM.tok_seqs, EM.dedupN. apply (dedup_in N.eqb N.eqb_spec). apply in_flat_map.
    exists (o0, to_obs ob0). split; [now apply to_aos_in|exact Hs0]. }
  unfold tok_at, chain_toks, rich. cbn [xg_tokens]. rewrite <- Htk'.
  pose proof (alookup_map_key G k _ Hk) as EG. unfold G in EG. cbv beta in EG. rewrite EG. clear EG.
  pose proof (alookup_map_key (fun s0 => map (EM.tok_slot (match alookup k fchain with Some f0 => f_plus_1 f0 | None => 0%N end)
                                                         k s0 paos) (seq 0 (EM.tok_slots k s0 paos))) s _ Hs) as ES.
  cbv beta in ES. exact ES.
Qed.

Lemma merged_tok_entry bigF dest fchain aos m k s f (T : list EM.tok) :
  NoDup (map fst aos) -> x_consensus bigF dest fchain aos = Ok m ->
  alookup k fchain = Some f -> (0 < f_plus_1 f)%N ->
  (exists o ob, In (o, ob) aos /\ In s (EM.keys (EM.entries k (so_tokens ob)))) ->
  (forall o ob, In (o, ob) aos -> length (EM.entries s (EM.entries k (so_tokens ob))) <= length T) ->
  (forall i t, nth_error T i = Some t ->
     quorum (xtok_of k s i) (f_plus_1 f) aos t /\
     forall t', quorum (xtok_of k s i) (f_plus_1 f) aos t' -> t' = t) ->
  exists slots, tok_at m k s = Some slots /\ forall i t, nth_error slots i = Some t -> nth_error T i = Some t.
Proof.
  intros ND Hc Hf Hpos Hex Hmax Hslots.
  rewrite (merged_tok_exists bigF dest fchain aos m k s Hc Hex), Hf.
  set (paos := to_aos aos) in *.
  eexists. split; [reflexivity|]. intros i t Hn.
  apply EMP.nth_error_map_seq in Hn. destruct Hn as [-> Hlt]. cbn [Nat.add].
  assert (Hle : EM.tok_slots k s paos <= length T).
  { unfold EM.tok_slots. apply fold_max_le. intros x Hx. apply in_map_iff in Hx. destruct Hx as [[o pob] [<- Hin]].
    apply to_aos_inv in Hin. destruct Hin as [ob [Hin ->]]. cbn [snd]. exact (Hmax o ob Hin). }
  destruct (nth_error T i) as [ti|] eqn:Eti; [|apply nth_error_None in Eti; lia].
  destruct (Hslots i ti Eti) as [Hq Hu]. f_equal. symmetry.
  apply (EMP.tok_slot_consensus (f_plus_1 f) k s i paos ti Hpos).
  - apply (quorum_supporters EM.tok_eqb EMP.tok_eqb_spec (EMP.tok_at k s i) (xtok_of k s i)); try assumption.
    intros ob. apply tok_at_proj.
  - intros t' Ht'. apply Hu.
    apply (supporters_quorum EM.tok_eqb EMP.tok_eqb_spec (EMP.tok_at k s i) (xtok_of k s i)); try assumption.
    intros ob. apply tok_at_proj.
Qed.

(* ---------- the enriched commit data when the view of the report's messages is agreed ---------- *)
Lemma nodup_map_inj {A B} (f : A -> B) l x y : NoDup (map f l) -> In x l -> In y l -> f x = f y -> x = y.
Proof.
  induction l as [|a l IH]; intros ND Hx Hy E; [destruct Hx|]. cbn [map] in ND. inversion ND as [|? ? Hn ND']; subst.
  destruct Hx as [->|Hx], Hy as [->|Hy]; try reflexivity.
  - exfalso. apply Hn. rewrite E. now apply in_map.
  - exfalso. apply Hn. rewrite <- E. now apply in_map.
  - now apply IH.
Qed.

Lemma flat_opt_map2 {A B C} (f : B -> option C) (h : A -> B) (g : A -> C) l :
  (forall x, In x l -> f (h x) = Some (g x)) ->
  flat_map (fun j => match f j with Some y => [y] | None => [] end) (map h l) = map g l.
Proof.
  induction l as [|x l IH]; intros H; [reflexivity|]. cbn [map flat_map].
  rewrite (H x (or_introl eq_refl)). cbn [app]. f_equal. apply IH. intros y Hy. apply H. now right.
Qed.

Lemma enrich_honest m cd0 (ms : list xmsg) :
  let k := c_src cd0 in let lo := c_start cd0 in let hi := c_end cd0 in
  ms <> [] -> c_td cd0 = [] ->
  map (fun x => m_seq (xm_msg x)) ms = PS.nrange lo (length ms) ->
  hi = (lo + N.of_nat (length ms) - 1)%N ->
  (forall x, In x ms -> In x (chain_msgs m k)) ->
  (forall y, In y (chain_msgs m k) -> PS.in_range lo hi (m_seq (xm_msg y)) = true -> In y ms) ->
  (forall s, PS.in_range lo hi s = true -> tok_at m k s <> None) ->
  exists cd2, enrich m cd0 = Ok cd2 /\
    c_src cd2 = k /\ c_root cd2 = c_root cd0 /\ c_start cd2 = lo /\ c_end cd2 = hi /\ c_exec cd2 = c_exec cd0 /\
    c_msgs cd2 = map xm_msg ms /\ length (c_td cd2) = length ms /\
    (forall i x, nth_error ms i = Some x ->
       exists slots, tok_at m k (m_seq (xm_msg x)) = Some slots /\ nth_error (c_td cd2) i = Some (to_td slots)) /\
    (forall mm, In mm (map xm_msg ms) -> ~ In (m_id mm) (xg_costly m) -> memN (m_id mm) (c_costly cd2) = false).
Proof.
  intros k lo hi Hne Htd0 Hseq Hhi Hin Hrival Htok.
  set (n := length ms) in *.
  assert (Hn : 0 < n) by (destruct ms; [congruence|cbn; lia]).
  assert (Hrange : forall j, In j (PS.nrange lo n) <-> PS.in_range lo hi j = true).
  { intros j. rewrite PSP.nrange_in. unfold PS.in_range. rewrite andb_true_iff, !N.leb_le. lia. }
  (* the sequence numbers walked are exactly the range *)
  assert (Eseqs : sortN (filter (PS.in_range lo hi) (observed_keys m k)) = PS.nrange lo n).
  { apply nsorted_perm_eq; [apply sortN_sorted|apply PSP.sorted_lt_le, PSP.nrange_sorted|].
    etransitivity; [apply sortN_perm_self|]. apply NoDup_Permutation.
    - apply NoDup_filter. unfold observed_keys, EM.dedupN. apply (dedup_nodup N.eqb N.eqb_spec).
    - apply PSP.sorted_lt_nodup, PSP.nrange_sorted.
    - intros j. rewrite filter_In, Hrange. split; [tauto|]. intros Hj. split; [|exact Hj].
      unfold observed_keys, EM.dedupN. apply (dedup_in N.eqb N.eqb_spec). apply in_or_app. left.
      apply Hrange in Hj. rewrite <- Hseq in Hj. apply in_map_iff in Hj. destruct Hj as [x [<- Hx]].
      apply in_map_iff. exists x. split; [reflexivity|now apply Hin]. }
  (* the message found under each sequence number *)
  assert (NDseq : NoDup (map (fun x => m_seq (xm_msg x)) ms)) by (rewrite Hseq; apply PSP.sorted_lt_nodup, PSP.nrange_sorted).
  assert (Hmsg : forall x, In x ms -> msg_at m k (m_seq (xm_msg x)) = Some x).
  { intros x Hx. unfold msg_at. apply find_unique.
    - apply -> in_rev. now apply Hin.
    - apply N.eqb_refl.
    - intros y Hy Hp. apply in_rev in Hy. apply N.eqb_eq in Hp.
      assert (Hyms : In y ms).
      { apply Hrival; [exact Hy|]. rewrite Hp. apply Hrange. rewrite <- Hseq.
        now apply (in_map (fun x0 => m_seq (xm_msg x0))). }
      exact (nodup_map_inj _ ms y x NDseq Hyms Hx Hp). }
  unfold enrich, PS.range_loop. cbn [rbind]. fold k lo hi. rewrite Eseqs, <- Hseq.
  eexists. split; [reflexivity|]. cbn [c_src c_root c_start c_end c_exec c_msgs c_td c_costly].
  assert (Emsgs : flat_map (fun j => match msg_at m k j with Some x => [xm_msg x] | None => [] end)
                           (map (fun x => m_seq (xm_msg x)) ms) = map xm_msg ms).
  { set (f := fun j => match msg_at m k j with Some x => Some (xm_msg x) | None => None end).
    transitivity (flat_map (fun j => match f j with Some y => [y] | None => [] end) (map (fun x => m_seq (xm_msg x)) ms)).
    - apply flat_map_ext. intros j. unfold f. destruct (msg_at m k j); reflexivity.
    - apply flat_opt_map2. intros x Hx. unfold f. now rewrite (Hmsg x Hx). }
  rewrite Emsgs, Htd0. cbn [app].
  set (ft := fun j : N => match tok_at m k j with Some sl => Some (to_td sl) | None => None end).
  assert (Etd : flat_map (fun j => match tok_at m k j with Some t => [to_td t] | None => [] end)
                         (map (fun x => m_seq (xm_msg x)) ms) =
                flat_map (fun j => match ft j with Some y => [y] | None => [] end) (map (fun x => m_seq (xm_msg x)) ms)).
  { apply flat_map_ext. intros j. unfold ft. destruct (tok_at m k j); reflexivity. }
  rewrite Etd.
  assert (Hall : forall j, In j (map (fun x => m_seq (xm_msg x)) ms) -> ft j <> None).
  { intros j Hj. rewrite Hseq in Hj. apply Hrange in Hj. unfold ft. specialize (Htok j Hj).
    destruct (tok_at m k j); [discriminate|congruence]. }
  pose proof (flat_opt_all ft _ Hall) as Hlen. rewrite map_length in Hlen.
  repeat split; try reflexivity.
  - exact Hlen.
  - intros i x Hx.
    assert (Hlen' : length (flat_map (fun j => match ft j with Some y => [y] | None => [] end)
                                     (map (fun x0 => m_seq (xm_msg x0)) ms)) =
                    length (map (fun x0 => m_seq (xm_msg x0)) ms)) by (rewrite map_length; exact Hlen).
    rewrite (flat_opt_full_nth ft _ i Hlen'), nth_error_map, Hx. cbn [option_map]. unfold ft.
    destruct (tok_at m k (m_seq (xm_msg x))) as [sl|] eqn:E.
    + now exists sl.
    + exfalso. apply (Htok (m_seq (xm_msg x))); [|exact E]. apply Hrange. rewrite <- Hseq.
      apply (in_map (fun x0 => m_seq (xm_msg x0))). eapply nth_error_In; exact Hx.
  - intros mm Hmm Hnc. destruct (memN (m_id mm) _) eqn:E; [|reflexivity]. exfalso. apply Hnc.
    apply memN_In in E. apply in_flat_map in E. destruct E as [y [_ Hy]].
    destruct (memN (m_id y) (xg_costly m)) eqn:Ec; [|destruct Hy]. destruct Hy as [Ey|[]].
    rewrite <- Ey. now apply memN_In.
Qed.

(* ---------- the Filter round: which pending reports cannot make the builder fail ---------- *)
Section LiveFilter.
  Variable hash : N -> N -> N.
  Variable zero : N.
  Variable leaf_hash : msg -> option N.
  Variable enc_size : creport -> option N.
  Variable tree_gas : N -> N.
  Variable max_size max_gas : N.
  Hypothesis Hcomm : forall a b, hash a b = hash b a.
  Hypothesis Hcodec : forall r, enc_size r <> None.       (* the report codec does not fail *)

  (* a pending commit report that has no messages yet, or whose messages reproduce its committed root (token data
     list as long as the message list, at most 256 messages) *)
  Definition well_formed (cd : cdata) : Prop :=
    c_msgs cd = [] \/
    (length (c_msgs cd) <= max_leaves /\ length (c_td cd) = length (c_msgs cd) /\
     exists t, construct_tree hash zero leaf_hash cd = Ok t /\ troot zero t = c_root cd).

  Section WithNonces.
  Variable nonces : nmap.
  Notation Add := (add hash zero leaf_hash enc_size tree_gas nonces max_size max_gas).
  Notation SelectLoop := (select_loop hash zero leaf_hash enc_size tree_gas nonces max_size max_gas).
  Notation Helper := (build_helper hash zero leaf_hash).
  Notation Verify := (verify_report enc_size tree_gas max_size max_gas).

  Lemma verify_total st r : exists v, Verify st r = Ok v.
  Proof.
    unfold verify_report. destruct (enc_size r) as [sz|] eqn:E; [|exfalso; exact (Hcodec r E)].
    destruct (Z.ltb _ _); [eauto|]. destruct (N.ltb _ _); eauto.
  Qed.

  Lemma greedy_total st cd t :
    length (c_msgs cd) <= max_leaves -> length (c_td cd) = length (c_msgs cd) ->
    construct_tree hash zero leaf_hash cd = Ok t -> troot zero t = c_root cd ->
    forall ready cur best,
      asc (cur ++ ready) -> (forall i, In i (cur ++ ready) -> i < length (c_msgs cd)) ->
      exists x, greedy hash zero leaf_hash enc_size tree_gas max_size max_gas st cd ready cur best = Ok x.
  Proof.
    intros Hmax Hl Ht Hroot. induction ready as [|i ready IH]; intros cur best Hs Hr; [cbn; eauto|].
    cbn [greedy].
    assert (Hs1 : asc (cur ++ [i])).
    { replace (cur ++ i :: ready) with ((cur ++ [i]) ++ ready) in Hs by (rewrite <- app_assoc; reflexivity).
      apply (asc_app_inv _ _ Hs). }
    destruct (helper_succeeds hash zero leaf_hash tree_gas max_gas cd t (cur ++ [i]) Hcomm Hmax Hl Ht Hroot)
      as [r2 [Hh _]]; try assumption.
    { destruct cur; discriminate. }
    { intros j Hj. apply Hr. rewrite in_app_iff in *. cbn [In] in *. tauto. }
    rewrite Hh. cbn [rbind]. destruct (verify_total st r2) as [v Hv]. rewrite Hv. cbn [rbind].
    destruct v as [meta|].
    - apply IH; [now rewrite <- app_assoc|]. intros j Hj. apply Hr. rewrite <- app_assoc in Hj. exact Hj.
    - apply IH.
      + eapply asc_drop_mid; exact Hs.
      + intros j Hj. apply Hr. rewrite in_app_iff in *. cbn [In]. tauto.
  Qed.

  (* Add never fails on a well-formed pending report *)
  Lemma add_total st cd : well_formed cd -> c_msgs cd <> [] -> exists st' cd', Add st cd = Ok (st', cd').
  Proof.
    intros [Hm|[Hmax [Hl [t [Ht Hroot]]]]] Hne; [congruence|]. unfold add, build_single.
    destruct (check_all_total hash leaf_hash tree_gas nonces zero cd (c_msgs cd) [] (b_exp st) eq_refl Hl) as [exp1 [ready Ec]].
    cbn [length] in Ec. rewrite Ec.
    destruct (check_all_spec hash leaf_hash tree_gas nonces zero cd (c_msgs cd) [] _ _ _ eq_refl Ec) as [Hs Hr].
    destruct ready as [|i0 ready']; [eauto|]. set (ready := i0 :: ready') in *.
    set (st1 := mkB (b_size st) (b_gas st) exp1 (b_reports st)).
    assert (Hrange : forall i, In i ready -> i < length (c_msgs cd)) by (intros i Hi; apply Hr, Hi).
    unfold choose.
    destruct (helper_succeeds hash zero leaf_hash tree_gas max_gas cd t ready Hcomm Hmax Hl Ht Hroot) as [r [Hh _]];
      try assumption; [discriminate|].
    rewrite Hh. cbn [rbind]. destruct (verify_total st1 r) as [v Hv]. rewrite Hv. cbn [rbind].
    destruct v as [meta|]; [unfold finalize; eauto|].
    destruct (greedy_total st1 cd t Hmax Hl Ht Hroot ready [] None) as [[cur best] Hg]; [exact Hs|exact Hrange|].
    rewrite Hg. cbn [rbind fst snd]. destruct best as [[r2 meta2]|]; [unfold finalize; eauto|eauto].
  Qed.

  Lemma select_loop_total : forall cds st,
    (forall cd, In cd cds -> well_formed cd) -> exists st' pend, SelectLoop st cds = Ok (st', pend).
  Proof.
    induction cds as [|cd cds IH]; intros st Hwf; [cbn; eauto|].
    unfold select_loop. cbn [select_loop_with]. fold SelectLoop.
    destruct (c_msgs cd) as [|m0 ms0] eqn:Em.
    - destruct (IH st) as [st' [p E]]; [intros c Hc; apply Hwf; now right|]. rewrite E. cbn [rbind fst snd]. eauto.
    - destruct (add_total st cd (Hwf cd (or_introl eq_refl))) as [st1 [cd1 Ea]]; [congruence|].
      rewrite Ea. cbn [rbind fst snd].
      destruct (IH st1) as [st' [p E]]; [intros c Hc; apply Hwf; now right|]. rewrite E. cbn [rbind fst snd]. eauto.
  Qed.

  (* when every other pending report is well formed, a message that Add includes for one report - in whatever state
     the earlier reports leave the builder - is in the report of the round *)
  Lemma select_loop_includes mm cd post : forall pre st0,
    (forall c, In c pre -> well_formed c) -> (forall c, In c post -> well_formed c) ->
    c_msgs cd <> [] ->
    (forall st pend, SelectLoop st0 pre = Ok (st, pend) ->
       exists st' cd' r, Add st cd = Ok (st', cd') /\ b_reports st' = b_reports st ++ [r] /\ In mm (r_msgs r)) ->
    exists st' pend r, SelectLoop st0 (pre ++ cd :: post) = Ok (st', pend) /\ In r (b_reports st') /\ In mm (r_msgs r).
  Proof.
    induction pre as [|c pre IH]; intros st0 Hpre Hpost Hne Hadd.
    - destruct (Hadd st0 [] eq_refl) as [st1 [cd1 [r [Ea [Hb Hm]]]]]. cbn [app].
      unfold select_loop. cbn [select_loop_with]. fold SelectLoop.
      destruct (c_msgs cd) as [|m0 ms0] eqn:Em; [congruence|]. rewrite Ea. cbn [rbind fst snd].
      destruct (select_loop_total post st1 Hpost) as [st2 [p E]]. rewrite E. cbn [rbind fst snd].
      destruct (select_loop_spec _ _ _ _ _ _ _ _ _ _ _ _ E) as [new [Hn _]].
      eexists. eexists. exists r. split; [reflexivity|]. split; [|exact Hm].
      rewrite Hn, Hb. apply in_or_app. left. apply in_or_app. right. now left.
    - cbn [app]. unfold select_loop. cbn [select_loop_with]. fold SelectLoop.
      destruct (c_msgs c) as [|m0 ms0] eqn:Em.
      + destruct (IH st0) as [st' [p [r [E [Hr Hm]]]]]; try assumption.
        * intros c' Hc'. apply Hpre. now right.
        * intros st pend Hs. apply (Hadd st (c :: pend)).
          unfold select_loop. cbn [select_loop_with]. fold SelectLoop. rewrite Em, Hs. reflexivity.
        * rewrite E. cbn [rbind fst snd]. eexists. eexists. exists r. split; [reflexivity|]. split; assumption.
      + destruct (add_total st0 c (Hpre c (or_introl eq_refl))) as [st1 [c1 Ea]]; [congruence|].
        rewrite Ea. cbn [rbind fst snd].
        destruct (IH st1) as [st' [p [r [E [Hr Hm]]]]]; try assumption.
        * intros c' Hc'. apply Hpre. now right.
        * intros st pend Hs.
          apply (Hadd st (if Nat.ltb (length (c_exec c1)) (length (c_msgs c1)) then c1 :: pend else pend)).
          unfold select_loop. cbn [select_loop_with]. fold SelectLoop. rewrite Em, Ea. cbn [rbind fst snd].
          rewrite Hs. reflexivity.
        * rewrite E. cbn [rbind fst snd]. eexists. eexists. exists r. split; [reflexivity|]. split; assumption.
  Qed.
  End WithNonces.
End LiveFilter.

(* ---------- ConstructMerkleTree looks at source chain, range and messages only ---------- *)
Lemma tree_leaves_ext leaf_hash a b ms :
  c_src a = c_src b -> c_start a = c_start b -> c_end a = c_end b ->
  tree_leaves leaf_hash a ms = tree_leaves leaf_hash b ms.
Proof.
  intros H1 H2 H3. induction ms as [|m ms IH]; cbn [tree_leaves]; [reflexivity|].
  unfold in_range. rewrite H1, H2, H3, IH. reflexivity.
Qed.
Lemma construct_tree_ext hash zero leaf_hash a b :
  c_src a = c_src b -> c_start a = c_start b -> c_end a = c_end b -> c_msgs a = c_msgs b ->
  construct_tree hash zero leaf_hash a = construct_tree hash zero leaf_hash b.
Proof.
  intros H1 H2 H3 H4. unfold construct_tree. rewrite H2, H3, H4, (tree_leaves_ext leaf_hash a b _ H1 H2 H3). reflexivity.
Qed.

(* ---------- evaluating a round ---------- *)
Section CycleLive.
  Variable hash : N -> N -> N.
  Variable zero : N.
  Variable leaf_hash : msg -> option N.
  Variable enc_size : creport -> option N.
  Variable tree_gas : N -> N.
  Variable max_size max_gas : N.
  Variable nonce_key : EM.nonce_t -> N.
  Notation Round := (exec_round hash zero leaf_hash enc_size tree_gas max_size max_gas nonce_key).

  Lemma round_commit_eval bigF dest fchain prev aos m :
    (o_state prev = 0 \/ o_state prev = 1 \/ o_state prev = 4)%N ->
    x_consensus bigF dest fchain aos = Ok m -> o_pending (commit_reports_outcome m) <> [] ->
    Round bigF dest fchain prev aos = Ok (commit_reports_outcome m).
  Proof.
    intros Hs Hc Hne. unfold exec_round. rewrite Hc.
    assert (E : PS.exec_decode_state (o_state prev) = Ok (o_state prev) /\ PS.exec_next (o_state prev) = Ok 2%N).
    { destruct Hs as [E|[E|E]]; rewrite E; split; reflexivity. }
    destruct E as [-> E2]. cbn [rbind]. rewrite E2. cbn [rbind N.eqb Pos.eqb].
    unfold is_empty. destruct (o_pending (commit_reports_outcome m)); [congruence|reflexivity].
  Qed.

  Lemma round_messages_eval bigF dest fchain prev aos m o :
    o_state prev = 2%N -> x_consensus bigF dest fchain aos = Ok m -> messages_outcome m prev = Ok o ->
    o_pending o <> [] -> Round bigF dest fchain prev aos = Ok o.
  Proof.
    intros Hs Hc Hm Hne. unfold exec_round. rewrite Hc, Hs. cbn. rewrite Hm. cbn [rbind].
    unfold is_empty. destruct (o_pending o); [congruence|reflexivity].
  Qed.

  Lemma round_filter_eval bigF dest fchain prev aos m o :
    o_state prev = 3%N -> x_consensus bigF dest fchain aos = Ok m ->
    filter_outcome hash zero leaf_hash enc_size tree_gas max_size max_gas nonce_key m prev = Ok o ->
    o_report o <> [] -> Round bigF dest fchain prev aos = Ok o.
  Proof.
    intros Hs Hc Hm Hne. unfold exec_round. rewrite Hc, Hs. cbn. rewrite Hm. cbn [rbind].
    unfold is_empty. destruct (o_pending o); destruct (o_report o); try congruence; reflexivity.
  Qed.

  (* ---------- the liveness clause of C09, over one cycle ---------- *)
  Hypothesis Hcomm : forall a b, hash a b = hash b a.
  Hypothesis Hcodec : forall r, enc_size r <> None.

  Variables (sup : N -> list N) (bigF : Z) (dest : N) (fc1 fc2 fc3 : list (N * Z)).
  Variables (prev : outcome) (aos1 aos2 aos3 : list sao).
  Hypothesis ND1 : NoDup (map fst aos1).
  Hypothesis ND2 : NoDup (map fst aos2).
  Hypothesis V1 : sys_validated sup dest fc1 aos1.
  Hypothesis V2 : sys_validated sup dest fc2 aos2.
  Hypothesis V3 : sys_validated sup dest fc3 aos3.
  Hypothesis K1 : key_functional aos1.
  Hypothesis K2 : key_functional aos2.
  Hypothesis F1 : (bigF <= Z.of_nat (length aos1))%Z.
  Hypothesis F2 : (bigF <= Z.of_nat (length aos2))%Z.
  Hypothesis F3 : (bigF <= Z.of_nat (length aos3))%Z.
  Hypothesis Hprev : (o_state prev = 0 \/ o_state prev = 1 \/ o_state prev = 4)%N.

  (* the commit report, its messages, the message in question (index i0) and its token data *)
  Variables (x : xcommit) (ms : list xmsg) (i0 : nat) (x0 : xmsg) (T0 : list EM.tok) (f2 : Z) (t : tree (H:=N)).
  Let cd0 := xc_cd x.
  Let k := c_src cd0.
  Let lo := c_start cd0.
  Let hi := c_end cd0.
  Let m0 := xm_msg x0.
  (* GetCommitReports round: a quorum of f_dest + 1 observes the commit report, and no other report of chain k with the
     same root or an overlapping interval has one (at most f_dest destination readers deviate: exception F76 otherwise) *)
  Hypothesis H1f : In k (EM.keys fc1).
  Hypothesis H1n : NoDup (EM.keys fc1).
  Hypothesis H1p : (0 < f_plus_1 (EM.f_dest dest fc1))%N.
  Hypothesis H1q : quorum (xcommits_of k) (f_plus_1 (EM.f_dest dest fc1)) aos1 x.
  Hypothesis H1r : forall y, quorum (xcommits_of k) (f_plus_1 (EM.f_dest dest fc1)) aos1 y ->
                             conflicts (xc_cd x) (xc_cd y) = true -> y = x.
  Hypothesis Htd0 : c_td cd0 = [].
  (* GetMessages round: every message of the report's interval is observed by a quorum; no other message for a
     sequence number of the interval has a quorum (at most f_k deviating observers); someone files a token-data
     entry for every message *)
  Hypothesis H2f : alookup k fc2 = Some f2.
  Hypothesis H2u : forall f, In (k, f) fc2 -> f = f2.
  Hypothesis H2p : (0 < f_plus_1 f2)%N.
  Hypothesis Hms : ms <> [].
  Hypothesis Hseq : map (fun y => m_seq (xm_msg y)) ms = PS.nrange lo (length ms).
  Hypothesis Hend : hi = (lo + N.of_nat (length ms) - 1)%N.
  Hypothesis H2q : forall y, In y ms -> quorum (xmsgs_of k) (f_plus_1 f2) aos2 y.
  Hypothesis H2r : forall y, quorum (xmsgs_of k) (f_plus_1 f2) aos2 y -> PS.in_range lo hi (m_seq (xm_msg y)) = true -> In y ms.
  Hypothesis H2t : forall s, PS.in_range lo hi s = true ->
                             exists o ob, In (o, ob) aos2 /\ In s (EM.keys (EM.entries k (so_tokens ob))).
  (* the message: eligible *)
  Hypothesis Hi0 : nth_error ms i0 = Some x0.
  Hypothesis HTready : forallb EM.t_ready T0 = true.                                   (* token data ready *)
  Hypothesis HTmax : forall o ob, In (o, ob) aos2 ->                                    (* exception F13e *)
                       length (EM.entries (m_seq m0) (EM.entries k (so_tokens ob))) <= length T0.
  Hypothesis HTq : forall i tk, nth_error T0 i = Some tk ->
                     quorum (xtok_of k (m_seq m0) i) (f_plus_1 f2) aos2 tk /\
                     forall t', quorum (xtok_of k (m_seq m0) i) (f_plus_1 f2) aos2 t' -> t' = tk.
  Hypothesis Hnx : memN (m_seq m0) (c_exec cd0) = false.                                (* not executed *)
  Hypothesis Hnc : forall rs, NoDup rs -> rs <> [] ->                                   (* affordable *)
                     (forall o, In o rs -> exists ob, In (o, ob) aos2 /\ In (m_id m0) (so_costly ob)) ->
                     (Z.of_nat (length rs) < EM.f_dest dest fc2 + 1)%Z.
  Hypothesis Hn0 : m_nonce m0 = 0%N.                                                    (* nonce in order *)
  Hypothesis Hlen : length ms <= 256.                                                   (* provable *)
  Hypothesis Htree : construct_tree hash zero leaf_hash
                       (mkCD k (c_root cd0) lo hi (c_exec cd0) (map xm_msg ms) [] []) = Ok t.
  Hypothesis Hroot : troot zero t = c_root cd0.
  (* the rest of the pending list does not poison the round (see cycle_liveness_poisoned_refuted) ... *)
  Hypothesis Hwf : forall o1 o2, Round bigF dest fc1 prev aos1 = Ok o1 -> Round bigF dest fc2 o1 aos2 = Ok o2 ->
                     forall cd, In cd (o_pending o2) -> well_formed hash zero leaf_hash cd.
  (* ... and the chain report of the ready messages of this commit report fits what the earlier ones leave (F14) *)
  Hypothesis Hfit : forall o1 o2 cd2 pre post st pend,
      Round bigF dest fc1 prev aos1 = Ok o1 -> Round bigF dest fc2 o1 aos2 = Ok o2 ->
      o_pending o2 = pre ++ cd2 :: post -> c_msgs cd2 = map xm_msg ms -> c_root cd2 = c_root cd0 ->
      let nonces := nonce_map nonce_key (EM.merge_nonces (EM.f_dest dest fc3) (to_aos aos3)) in
      select_loop hash zero leaf_hash enc_size tree_gas nonces max_size max_gas b_init pre = Ok (st, pend) ->
      forall r, report_for hash zero leaf_hash cd2 (ready_of nonces st cd2) r ->
                exists sz, enc_size r = Some sz /\ fits max_size max_gas st sz (report_gas tree_gas r).

  Theorem cycle_liveness :
    exists o1 o2 o3 r,
      Round bigF dest fc1 prev aos1 = Ok o1 /\ Round bigF dest fc2 o1 aos2 = Ok o2 /\
      Round bigF dest fc3 o2 aos3 = Ok o3 /\ In r (o_report o3) /\ r_src r = k /\ In m0 (r_msgs r).
  Proof.
    destruct (consensus_total sup bigF dest fc1 aos1 V1 F1) as [m1 C1].
    destruct (consensus_total sup bigF dest fc2 aos2 V2 F2) as [m2 C2].
    destruct (consensus_total sup bigF dest fc3 aos3 V3 F3) as [m3 C3].
    (* round 1 *)
    destruct (quorum_commit_merged sup bigF dest fc1 aos1 m1 k x ND1 V1 K1 C1 H1f H1q H1p) as [l [Hkl Hxl]].
    assert (Hp1 : In cd0 (o_pending (commit_reports_outcome m1))).
    { apply commit_outcome_kept; [now exists k, l|]. unfold conflict_count. apply (filter_unique_length _ _ x).
      - exact (merged_flat_nodup sup bigF dest fc1 aos1 m1 ND1 V1 K1 C1 H1n).
      - intros y Hy Hc. apply commit_outcome_flat in Hy. destruct Hy as [j [l' [Hj Hy]]].
        destruct (merged_commit_quorum sup bigF dest fc1 aos1 m1 ND1 V1 K1 C1 j l' y Hj Hy) as [_ [Hsrc Hq]].
        assert (Ej : j = k).
        { pose proof Hc as Hc'. unfold conflicts in Hc'. apply andb_prop in Hc'. destruct Hc' as [Hc' _].
          apply N.eqb_eq in Hc'. unfold k, cd0. congruence. }
        rewrite Ej in Hq. exact (H1r y Hq Hc). }
    set (o1 := commit_reports_outcome m1) in *.
    assert (R1 : Round bigF dest fc1 prev aos1 = Ok o1).
    { apply round_commit_eval; try assumption. intros E. fold o1 in E. rewrite E in Hp1. destruct Hp1. }
    (* round 2 *)
    assert (H2f' : In (k, f2) fc2) by (apply alookup_In; exact H2f).
    assert (Hin2 : forall y, In y ms -> In y (chain_msgs m2 k)).
    { intros y Hy. exact (quorum_msg_merged sup bigF dest fc2 aos2 m2 k f2 y ND2 V2 K2 C2 H2f' (H2q y Hy) H2p). }
    assert (Hriv2 : forall y, In y (chain_msgs m2 k) -> PS.in_range lo hi (m_seq (xm_msg y)) = true -> In y ms).
    { intros y Hy Hr. destruct (merged_msg_quorum sup bigF dest fc2 aos2 m2 ND2 V2 K2 C2 k y Hy) as [f [Hf Hq]].
      rewrite (H2u f Hf) in Hq. exact (H2r y Hq Hr). }
    assert (Htok2 : forall s, PS.in_range lo hi s = true -> tok_at m2 k s <> None).
    { intros s Hs. rewrite (merged_tok_exists bigF dest fc2 aos2 m2 k s C2 (H2t s Hs)). discriminate. }
    destruct (enrich_honest m2 cd0 ms Hms Htd0 Hseq Hend Hin2 Hriv2 Htok2)
      as [cd2 [Hen [Es [Er [Ea [Ee [Ex [Em [Etl [Etd Ecost]]]]]]]]]].
    destruct (rmap_total (enrich m2) (o_pending o1)) as [cds Hcds].
    { intros a. unfold enrich, PS.range_loop. cbn [rbind]. eexists. reflexivity. }
    destruct (forall2_in_l _ _ _ cd0 (rmap_forall2 _ _ _ Hcds) Hp1) as [cd2' [Hcd2 Hen']].
    rewrite Hen in Hen'. inversion Hen'; subst cd2'; clear Hen'.
    set (o2 := new_outcome 3 cds []).
    assert (M2 : messages_outcome m2 o1 = Ok o2) by (unfold messages_outcome; rewrite Hcds; reflexivity).
    assert (Hp2 : In cd2 (o_pending o2)) by (apply new_outcome_pending; exact Hcd2).
    assert (R2 : Round bigF dest fc2 o1 aos2 = Ok o2).
    { apply (round_messages_eval bigF dest fc2 o1 aos2 m2 o2); try assumption; [reflexivity|].
      intros E. rewrite E in Hp2. destruct Hp2. }
    (* round 3 *)
    set (nonces := nonce_map nonce_key (xg_nonces m3)).
    assert (Enon : nonces = nonce_map nonce_key (EM.merge_nonces (EM.f_dest dest fc3) (to_aos aos3))).
    { unfold nonces. destruct (x_consensus_inv _ _ _ _ _ C3) as [g [Hg ->]].
      destruct (get_consensus_inv _ _ _ _ _ Hg) as [_ [_ [_ [_ [Hn _]]]]]. unfold rich. cbn [xg_nonces]. now rewrite Hn. }
    destruct (in_split _ _ Hp2) as [pre [post Esplit]].
    assert (Hwf2 : forall cd, In cd (o_pending o2) -> well_formed hash zero leaf_hash cd) by (apply (Hwf o1 o2 R1 R2)).
    (* the commit data reproduces its root *)
    assert (Htree2 : construct_tree hash zero leaf_hash cd2 = Ok t).
    { rewrite <- Htree. apply construct_tree_ext; cbn [c_src c_start c_end c_msgs]; assumption. }
    assert (Hroot2 : troot zero t = c_root cd2) by (rewrite Er; exact Hroot).
    assert (Hlen2 : length (c_msgs cd2) <= max_leaves) by (rewrite Em, map_length; unfold max_leaves; exact Hlen).
    assert (Htl2 : length (c_td cd2) = length (c_msgs cd2)) by (rewrite Em, map_length; exact Etl).
    (* the message is eligible *)
    destruct (merged_tok_entry bigF dest fc2 aos2 m2 k (m_seq m0) f2 T0 ND2 C2 H2f H2p) as [slots [Hslots Hsub]];
      try assumption.
    { apply H2t. unfold PS.in_range. rewrite andb_true_iff, !N.leb_le.
      assert (Hj : In (m_seq m0) (PS.nrange lo (length ms))).
      { rewrite <- Hseq. apply (in_map (fun y => m_seq (xm_msg y))). eapply nth_error_In; exact Hi0. }
      apply PSP.nrange_in in Hj. assert (0 < length ms) by (destruct ms; [congruence|cbn; lia]). lia. }
    destruct (Etd i0 x0 Hi0) as [slots' [Hs' Htd']].
    assert (Hs'' : tok_at m2 k (m_seq m0) = Some slots') by exact Hs'. rewrite Hslots in Hs''. inversion Hs''; subst slots'.
    assert (Hel : eligible cd2 i0).
    { exists m0, (to_td slots). split; [rewrite Em, nth_error_map, Hi0; reflexivity|]. split; [exact Htd'|].
      split; [rewrite Ex; exact Hnx|]. split.
      - apply Ecost; [apply in_map; eapply nth_error_In; exact Hi0|].
        rewrite (merged_costly_eq bigF dest fc2 aos2 m2 C2). intros Hc.
        pose proof (proj1 (EMP.merge_costly_iff (EM.f_dest dest fc2) (to_aos aos2) (m_id m0)) Hc) as [Hitem _].
        destruct (EMP.merge_costly_sound (EM.f_dest dest fc2) (to_aos aos2) (m_id m0)) as [rs [NDr [Hge Hrs]]]; [now rewrite to_aos_fst|exact Hc|].
        assert (Hne : rs <> []).
        { apply (EMP.items_of_in EMP.costly_of) in Hitem. destruct Hitem as [o [pob [Hi Hx]]].
          assert (Ho : In o rs).
          { apply Hrs. exists pob. split; [exact Hi|]. unfold EMP.costly_of, EM.dedupN in Hx.
            exact (proj1 (dedup_in N.eqb N.eqb_spec _ _) Hx). }
          intros ->. destruct Ho. }
        assert (Hlt := Hnc rs NDr Hne). cut ((Z.of_nat (length rs) < EM.f_dest dest fc2 + 1)%Z); [lia|].
        apply Hlt. intros o Ho. apply Hrs in Ho. destruct Ho as [pob [Hi Hx]].
        apply to_aos_inv in Hi. destruct Hi as [ob [Hi ->]]. now exists ob.
      - unfold td_ready, to_td. rewrite forallb_forall. intros [b d] Hbd. apply in_map_iff in Hbd.
        destruct Hbd as [tk [E Htk]]. inversion E; subst b d. cbn [fst].
        apply In_nth_error in Htk. destruct Htk as [n Hn]. apply Hsub in Hn.
        rewrite forallb_forall in HTready. apply HTready. eapply nth_error_In; exact Hn. }
    assert (Hmsg0 : nth_error (c_msgs cd2) i0 = Some m0) by (rewrite Em, nth_error_map, Hi0; reflexivity).
    destruct (select_loop_includes hash zero leaf_hash enc_size tree_gas max_size max_gas Hcomm Hcodec nonces m0 cd2 post pre b_init)
      as [st' [pend [r [Hsel [Hr Hm]]]]].
    - intros c Hc. apply Hwf2. rewrite Esplit. apply in_or_app. now left.
    - intros c Hc. apply Hwf2. rewrite Esplit. apply in_or_app. right. now right.
    - intros E. rewrite E in Hmsg0. destruct i0; discriminate.
    - intros st pend Hs.
      destruct (add_includes_eligible hash zero leaf_hash enc_size tree_gas nonces max_size max_gas st cd2 t
                  Hcomm Hlen2 Htl2 Htree2 Hroot2) with (i := i0) (m := m0) as [st' [r [Ha [Hb [Hm _]]]]]; try assumption.
      + rewrite Enon. rewrite Enon in Hs. exact (Hfit o1 o2 cd2 pre post st pend R1 R2 Esplit Em Er Hs).
      + exists st', (mark_executed r cd2), r. repeat split; assumption.
    - set (o3 := new_outcome 4 pend (build st')).
      assert (F3' : filter_outcome hash zero leaf_hash enc_size tree_gas max_size max_gas nonce_key m3 o2 = Ok o3).
      { unfold filter_outcome, select_report. fold nonces. rewrite Esplit, Hsel. reflexivity. }
      assert (Hr3 : In r (o_report o3)) by (apply new_outcome_report; exact Hr).
      exists o1, o2, o3, r. split; [exact R1|]. split; [exact R2|]. split.
      + apply (round_filter_eval bigF dest fc3 o2 aos3 m3 o3); try assumption; [reflexivity|].
        intros E. rewrite E in Hr3. destruct Hr3.
      + split; [exact Hr3|]. split; [|exact Hm].
        (* the chain report is a report of cd2 *)
        destruct (select_loop_spec _ _ _ _ _ _ _ _ _ _ _ _ Hsel) as [new [Hn [HF _]]]. cbn [b_reports b_init app] in Hn.
        rewrite Hn in Hr. rewrite Forall_forall in HF. destruct (HF r Hr) as [cd [Hcd Hg]].
        (* a chain report holding m0 is for m0's source chain, which ConstructMerkleTree checked against cd2 *)
        destruct (good_report_msg _ _ _ _ _ _ Hg Hm) as [Hsrc [Hms' _]]. rewrite Hsrc, <- Hms'.
        unfold construct_tree in Htree2. destruct (negb _); [discriminate|].
        destruct (tree_leaves leaf_hash cd2 (c_msgs cd2)) as [ls| | |] eqn:El; cbn [rbind] in Htree2; try discriminate.
        destruct (tree_leaves_checks leaf_hash cd2 _ _ El m0 (nth_error_In _ _ Hmsg0)) as [_ Hs0].
        now rewrite <- Hs0, Es.
  Qed.
End CycleLive.

(* ====================================================================================================== *)
(*  7. concrete cycles: non-vacuity of the theorems above, and what the hypotheses exclude                 *)
(* ====================================================================================================== *)
Definition all_xcommits (aos : list sao) : list xcommit := flat_map (fun a => flat_map snd (so_commits (snd a))) aos.
Definition all_xmsgs (aos : list sao) : list xmsg :=
  flat_map (fun a => flat_map (fun kl => map snd (snd kl)) (so_msgs (snd a))) aos.

Lemma entries_sub {V} k (mp : list (N * list V)) x : In x (EM.entries k mp) -> In x (flat_map snd mp).
Proof.
  unfold EM.entries. intros H. apply in_flat_map in H. destruct H as [[k' l] [Hk H]]. cbn [fst snd] in H.
  destruct (N.eqb k' k); [|destruct H]. apply in_flat_map. now exists (k', l).
Qed.

Lemma key_functional_of_lists aos :
  (forall x x', In x (all_xcommits aos) -> In x' (all_xcommits aos) -> xc_key x = xc_key x' -> x = x') ->
  (forall x x', In x (all_xmsgs aos) -> In x' (all_xmsgs aos) -> xm_key x = xm_key x' -> x = x') ->
  key_functional aos.
Proof.
  intros Hc Hm. split.
  - intros j j' x x' Hx Hx'. apply Hc.
    + unfold xcommits_at in Hx. apply in_flat_map in Hx. destruct Hx as [a [Ha Hx]].
      apply in_flat_map. exists a. split; [exact Ha|]. eapply entries_sub; exact Hx.
    + unfold xcommits_at in Hx'. apply in_flat_map in Hx'. destruct Hx' as [a [Ha Hx']].
      apply in_flat_map. exists a. split; [exact Ha|]. eapply entries_sub; exact Hx'.
  - assert (Hsub : forall j x, In x (xmsgs_at j aos) -> In x (all_xmsgs aos)).
    { intros j x Hx. unfold xmsgs_at in Hx. apply in_flat_map in Hx. destruct Hx as [a [Ha Hx]].
      apply in_flat_map. exists a. split; [exact Ha|]. apply in_map_iff in Hx. destruct Hx as [[s y] [E Hy]]. cbn in E. subst y.
      unfold EM.entries in Hy. apply in_flat_map in Hy. destruct Hy as [[k' l] [Hk Hy]]. cbn [fst snd] in Hy.
      destruct (N.eqb k' j); [|destruct Hy]. apply in_flat_map. exists (k', l). split; [exact Hk|].
      cbn [snd]. apply in_map_iff. now exists (s, x). }
    intros j j' x x' Hx Hx'. apply Hm; eapply Hsub; eassumption.
Qed.

Lemma sys_validated_of_bool sup dest fchain aos :
  forallb (fun a => EMP.wf_obsb (snd a) && EM.validate (sup (fst a)) dest fchain (snd a)) (to_aos aos) = true ->
  sys_validated sup dest fchain aos.
Proof. apply EMP.validated_of_bool. Qed.

Module SysEx.
  Local Open Scope N_scope.
  Definition h (a b : N) : N := N.min a b * 1000 + N.max a b + 7.
  Lemma h_comm a b : h a b = h b a.
  Proof. unfold h. rewrite N.min_comm, N.max_comm. reflexivity. Qed.
  Definition leaf (m : msg) : option N := Some (m_id m).
  Definition enc (r : creport) : option N := Some 10.
  Definition tg (n : N) : N := n.
  Definition nkey (t : EM.nonce_t) : N := snd t.
  Definition Round := exec_round h 999 leaf enc tg 1000000 1000000 nkey.

  (* one commit report of chain 1, [5, 6]; message 5 allows out-of-order execution, message 6 is sequenced *)
  Definition m1 : msg := mkMsg 101 1 5 0 7 20 5.
  Definition m2 : msg := mkMsg 102 1 6 3 7 20 5.
  Definition xm1 : xmsg := mkXM 11 m1.
  Definition xm2 : xmsg := mkXM 12 m2.
  Definition xm1v : xmsg := mkXM 13 (mkMsg 101 1 5 0 7 99 5).     (* a variant of message 5 *)
  Definition root : N := Eval vm_compute in match new_tree h 999 [101; 102] with Ok t => troot 999 t | _ => 0 end.
  Definition cdx : cdata := mkCD 1 root 5 6 [] [] [] [].
  Definition x : xcommit := mkXC 50 1000 cdx.
  Definition xv : xcommit := mkXC 51 1000 (mkCD 1 root 5 6 [5] [] [] []).   (* the same report, 5 claimed executed *)
  Definition tokA : EM.tok := EM.mkTok true 3.

  (* four oracles, F = 1, f = 1 everywhere, oracle 3 deviates in every round *)
  Definition fc : list (N * Z) := [(1, 1%Z); (9, 1%Z)].
  Definition sup (_ : N) : list N := [1; 9].
  Definition h1 : sobs := mkSO [(1, [x])] [] [] [] [].
  Definition b1 : sobs := mkSO [(1, [xv])] [] [] [] [].
  Definition h2 : sobs := mkSO [(1, [x])] [(1, [(5, xm1); (6, xm2)])] [(1, [(5, [tokA]); (6, [])])] [] [].
  Definition b2 : sobs := mkSO [(1, [x])] [(1, [(5, xm1v); (6, xm2)])] [(1, [(5, [tokA]); (6, [])])] [101; 101] [].
  Definition h3 : sobs := mkSO [] [] [] [] [(1, [(7, 2)])].
  Definition b3 : sobs := mkSO [] [] [] [] [(1, [(7, 9)])].
  Definition aos1 : list sao := [(0, h1); (1, h1); (2, h1); (3, b1)].
  Definition aos2 : list sao := [(0, h2); (1, h2); (2, h2); (3, b2)].
  Definition aos3 : list sao := [(0, h3); (1, h3); (2, h3); (3, b3)].

  Definition o1 : outcome := Eval vm_compute in match Round 1 9 fc out_init aos1 with Ok o => o | _ => out_init end.
  Definition o2 : outcome := Eval vm_compute in match Round 1 9 fc o1 aos2 with Ok o => o | _ => out_init end.
  Definition o3 : outcome := Eval vm_compute in match Round 1 9 fc o2 aos3 with Ok o => o | _ => out_init end.

  Lemma nd4 (a b c d : sobs) : NoDup (map fst [(0, a); (1, b); (2, c); (3, d)]).
  Proof. cbn. repeat constructor; cbn; intuition discriminate. Qed.

  Ltac in_cases H := repeat (destruct H as [H|H]; [try (inversion H; subst; clear H)|]); try destruct H.

  Lemma kf1 : key_functional aos1.
  Proof.
    apply key_functional_of_lists.
    - intros y y' Hy Hy' E. vm_compute in Hy, Hy'. in_cases Hy; in_cases Hy'; try reflexivity; discriminate E.
    - intros y y' Hy. vm_compute in Hy. destruct Hy.
  Qed.
  Lemma kf2 : key_functional aos2.
  Proof.
    apply key_functional_of_lists.
    - intros y y' Hy Hy' E. vm_compute in Hy, Hy'. in_cases Hy; in_cases Hy'; try reflexivity; discriminate E.
    - intros y y' Hy Hy' E. vm_compute in Hy, Hy'. in_cases Hy; in_cases Hy'; try reflexivity; discriminate E.
  Qed.

  (* the hypotheses of the cycle theorems (cycle_message, cycle_report_sound, cycle_no_reexecution, cycle_not_costly,
     cycle_token_data) hold on this cycle, and its report holds both messages *)
  Example cycle_example :
    NoDup (map fst aos1) /\ NoDup (map fst aos2) /\ NoDup (map fst aos3) /\
    sys_validated sup 9 fc aos1 /\ sys_validated sup 9 fc aos2 /\ sys_validated sup 9 fc aos3 /\
    key_functional aos1 /\ key_functional aos2 /\
    Round 1 9 fc out_init aos1 = Ok o1 /\ o_state o1 = 2 /\
    Round 1 9 fc o1 aos2 = Ok o2 /\ Round 1 9 fc o2 aos3 = Ok o3 /\
    map (fun r => map m_seq (r_msgs r)) (o_report o3) = [[5; 6]] /\
    (forall cd, In cd (o_pending o1) -> c_td cd = [] /\ c_start cd < two64 /\ c_end cd < two64) /\
    (forall cd, In cd (o_pending o2) -> (length (c_msgs cd) <= 256)%nat).
  Proof.
    split; [apply nd4|]. split; [apply nd4|]. split; [apply nd4|].
    split; [apply sys_validated_of_bool; vm_compute; reflexivity|].
    split; [apply sys_validated_of_bool; vm_compute; reflexivity|].
    split; [apply sys_validated_of_bool; vm_compute; reflexivity|].
    split; [exact kf1|]. split; [exact kf2|].
    split; [vm_compute; reflexivity|]. split; [reflexivity|].
    split; [vm_compute; reflexivity|]. split; [vm_compute; reflexivity|]. split; [vm_compute; reflexivity|].
    split.
    - intros cd Hcd. vm_compute in Hcd. in_cases Hcd. repeat split; vm_compute; reflexivity.
    - intros cd Hcd. vm_compute in Hcd. in_cases Hcd. cbn. lia.
  Qed.
End SysEx.

Lemma quorum_two {T} (items : sobs -> list T) thr aos y :
  quorum items thr aos y -> (2 <= thr)%N ->
  exists o o' ob ob', o <> o' /\ In (o, ob) aos /\ In y (items ob) /\ In (o', ob') aos /\ In y (items ob').
Proof.
  intros [rs [ND [Hthr Hrs]]] H2. destruct rs as [|a [|b rs']]; cbn [length] in Hthr; try lia.
  destruct (proj1 (Hrs a) (or_introl eq_refl)) as [ob [H1 H1']].
  destruct (proj1 (Hrs b) (or_intror (or_introl eq_refl))) as [ob' [H3 H3']].
  exists a, b, ob, ob'. split; [|auto]. inversion ND as [|? ? Hn _]; subst. intros ->. apply Hn. now left.
Qed.

Module SysLive.
  Import SysEx.
  Local Open Scope N_scope.
  Definition t12 : tree (H:=N) := Eval vm_compute in match new_tree h 999 [101; 102] with Ok t => t | _ => [] end.

  Ltac in_cases H := repeat (destruct H as [H|H]; [try (inversion H; subst; clear H)|]); try destruct H.

  Lemma r1_eq : exec_round h 999 leaf enc tg 1000000 1000000 nkey 1 9 fc out_init aos1 = Ok SysEx.o1.
  Proof. vm_compute; reflexivity. Qed.
  Lemma r2_eq : exec_round h 999 leaf enc tg 1000000 1000000 nkey 1 9 fc SysEx.o1 aos2 = Ok SysEx.o2.
  Proof. vm_compute; reflexivity. Qed.

  Lemma q_commit : quorum (xcommits_of 1) 2 aos1 x.
  Proof.
    exists [0; 1; 2]. split; [repeat constructor; cbn; intuition discriminate|]. split; [cbn; lia|].
    intros o. split.
    - intros Ho. in_cases Ho; exists h1; (split; [cbn; tauto|vm_compute; tauto]).
    - intros [ob [Hi Hx]]. cbn in Hi. in_cases Hi; try (cbn; tauto).
      vm_compute in Hx. in_cases Hx.
  Qed.

  Lemma no_rival_commit y : quorum (xcommits_of 1) 2 aos1 y -> y = x.
  Proof.
    intros Hq. destruct (quorum_two _ _ _ _ Hq) as [o [o' [ob [ob' [Hne [H1 [H1' [H2 H2']]]]]]]]; [lia|].
    cbn in H1, H2. in_cases H1; try (vm_compute in H1'; in_cases H1'; reflexivity).
    in_cases H2; try (vm_compute in H2'; in_cases H2'; reflexivity); congruence.
  Qed.

  Lemma q_msg y : In y [xm1; xm2] -> quorum (xmsgs_of 1) 2 aos2 y.
  Proof.
    intros Hy. in_cases Hy.
    - exists [0; 1; 2]. split; [repeat constructor; cbn; intuition discriminate|]. split; [cbn; lia|].
      intros o. split.
      + intros Ho. in_cases Ho; exists h2; (split; [cbn; tauto|vm_compute; tauto]).
      + intros [ob [Hi Hx]]. cbn in Hi. in_cases Hi; try (cbn; tauto). vm_compute in Hx. in_cases Hx.
    - exists [0; 1; 2; 3]. split; [repeat constructor; cbn; intuition discriminate|]. split; [cbn; lia|].
      intros o. split.
      + intros Ho. in_cases Ho; [exists h2|exists h2|exists h2|exists b2]; (split; [cbn; tauto|vm_compute; tauto]).
      + intros [ob [Hi Hx]]. cbn in Hi. in_cases Hi; cbn; tauto.
  Qed.

  Lemma no_rival y : quorum (xmsgs_of 1) 2 aos2 y -> In y [xm1; xm2].
  Proof.
    intros Hq. destruct (quorum_two _ _ _ _ Hq) as [o [o' [ob [ob' [Hne [H1 [H1' [H2 H2']]]]]]]]; [lia|].
    cbn in H1, H2. in_cases H1; try (vm_compute in H1'; cbn; tauto).
    in_cases H2; try (vm_compute in H2'; cbn; tauto); try congruence.
  Qed.

  Lemma q_tok i tk : nth_error [tokA] i = Some tk ->
    quorum (xtok_of 1 5 i) 2 aos2 tk /\ forall t', quorum (xtok_of 1 5 i) 2 aos2 t' -> t' = tk.
  Proof.
    intros Hn. destruct i as [|i]; [|destruct i; discriminate]. inversion Hn; subst tk. split.
    - exists [0; 1; 2; 3]. split; [repeat constructor; cbn; intuition discriminate|]. split; [cbn; lia|].
      intros o. split.
      + intros Ho. in_cases Ho; [exists h2|exists h2|exists h2|exists b2]; (split; [cbn; tauto|vm_compute; tauto]).
      + intros [ob [Hi Hx]]. cbn in Hi. in_cases Hi; cbn; tauto.
    - intros t' [rs [ND [Hthr Hrs]]]. destruct rs as [|a rs']; [cbn in Hthr; lia|].
      destruct (proj1 (Hrs a) (or_introl eq_refl)) as [ob [Hi Hx]]. cbn in Hi.
      in_cases Hi; vm_compute in Hx; in_cases Hx; reflexivity.
  Qed.

  (* every hypothesis of cycle_liveness holds for message 5 of the example (oracle 3 deviating in all three rounds) *)
  Example cycle_liveness_example :
    exists o1 o2 o3 r,
      Round 1 9 fc out_init aos1 = Ok o1 /\ Round 1 9 fc o1 aos2 = Ok o2 /\ Round 1 9 fc o2 aos3 = Ok o3 /\
      In r (o_report o3) /\ r_src r = 1 /\ In m1 (r_msgs r).
  Proof.
    apply (cycle_liveness h 999 leaf enc tg 1000000 1000000 nkey h_comm (fun r => ltac:(discriminate))
             sup 1%Z 9 fc fc fc out_init aos1 aos2 aos3 (nd4 _ _ _ _) (nd4 _ _ _ _))
      with (x := x) (ms := [xm1; xm2]) (i0 := O) (x0 := xm1) (T0 := [tokA]) (f2 := 1%Z) (t := t12).
    - apply sys_validated_of_bool; vm_compute; reflexivity.
    - apply sys_validated_of_bool; vm_compute; reflexivity.
    - apply sys_validated_of_bool; vm_compute; reflexivity.
    - exact kf1.
    - exact kf2.
    - cbn; lia.
    - cbn; lia.
    - cbn; lia.
    - left; reflexivity.
    - cbn; tauto.
    - repeat constructor; cbn; intuition discriminate.
    - vm_compute; reflexivity.
    - exact q_commit.
    - intros y Hq _. exact (no_rival_commit y Hq).
    - reflexivity.
    - reflexivity.
    - intros f Hf. cbn in Hf. in_cases Hf. reflexivity.
    - vm_compute; reflexivity.
    - discriminate.
    - reflexivity.
    - reflexivity.
    - exact q_msg.
    - intros y Hq _. exact (no_rival y Hq).
    - intros s Hs. exists 0, h2. split; [cbn; tauto|]. unfold PS.in_range in Hs. cbn [xc_cd x cdx c_start c_end] in Hs.
      apply andb_prop in Hs. destruct Hs as [Ha Hb]. apply N.leb_le in Ha, Hb.
      assert (Hs : s = 5 \/ s = 6) by lia. destruct Hs as [->| ->]; vm_compute; tauto.
    - reflexivity.
    - reflexivity.
    - intros o ob Hi. cbn in Hi. in_cases Hi; vm_compute; lia.
    - exact q_tok.
    - reflexivity.
    - intros rs ND Hne Hrs.
      (* only oracle 3 lists message 5 as too costly *)
      assert (Hsub : incl rs [3]).
      { intros o Ho. destruct (Hrs o Ho) as [ob [Hi Hx]]. cbn in Hi.
        in_cases Hi; try (vm_compute in Hx; in_cases Hx); now left. }
      pose proof (NoDup_incl_length ND Hsub) as Hl. cbn in Hl. cbn. lia.
    - reflexivity.
    - cbn; lia.
    - vm_compute; reflexivity.
    - vm_compute; reflexivity.
    - (* the only pending report of the GetMessages outcome is well formed *)
      intros oa ob Ha Hb cd Hcd.
      rewrite r1_eq in Ha. inversion Ha; subst oa; clear Ha. rewrite r2_eq in Hb. inversion Hb; subst ob; clear Hb. vm_compute in Hcd. in_cases Hcd. right. split; [cbn; unfold max_leaves; lia|]. split; [reflexivity|].
      exists t12. split; vm_compute; reflexivity.
    - (* its chain report fits *)
      intros oa ob cd2 pre post st pend Ha Hb Hsplit Hmsgs Hr nonces Hsel r Hrf.
      rewrite r1_eq in Ha. inversion Ha; subst oa; clear Ha. rewrite r2_eq in Hb. inversion Hb; subst ob; clear Hb.
      assert (Hpre : pre = [] /\ post = []).
      { destruct pre as [|c pre]; [|destruct pre; discriminate Hsplit]. cbn in Hsplit.
        split; [reflexivity|]. inversion Hsplit. reflexivity. }
      destruct Hpre as [-> ->]. cbn [app] in Hsplit. inversion Hsplit; subst cd2; clear Hsplit.
      cbn in Hsel. inversion Hsel; subst st pend; clear Hsel.
      exists 10. split; [reflexivity|].
      destruct Hrf as [t' [pf [Ht [_ [Hp [_ ->]]]]]]. vm_compute in Ht. inversion Ht; subst t'; clear Ht.
      vm_compute in Hp. inversion Hp; subst pf; clear Hp.
      split; vm_compute; discriminate.
  Qed.
End SysLive.

(* ---------- the two defects the repairs F75 and F76 remove, on the functions as they were ---------- *)
Definition sys_validated_nokeys (sup : N -> list N) (dest : N) (fchain : list (N * Z)) (aos : list sao) : Prop :=
  EMP.validated_nokeys sup dest fchain (to_aos aos).
Lemma sys_validated_nokeys_of_bool sup dest fchain aos :
  forallb (fun a => EMP.wf_obsb (snd a) && EM.validate_nokeys (sup (fst a)) dest fchain (snd a)) (to_aos aos) = true ->
  sys_validated_nokeys sup dest fchain aos.
Proof. apply EMP.validated_nokeys_of_bool. Qed.

(* F75.  Before the repair commit reports - destination data - were counted at the f of the chain KEY they were filed
   under, and ValidateObservation checked for commit reports neither the observer's role (F07) nor that the key is the
   report's own source chain; one pending report that does not reproduce its root makes report.Builder.Add - hence the
   whole Filter outcome - fail.  So two faulty oracles of seven (F = 2, f(chain 1) = f(destination) = 2), neither a reader
   of chain 2, filed a forged report for chain 1 under the key of chain 2 (f = 1): it became pending, got the real
   messages attached, and every Filter round failed for every oracle; the previous outcome never changed again, so
   nothing was executed for any source. *)
Module SysPoison.
  Import SysEx.
  Local Open Scope N_scope.
  Definition RoundU := exec_round_unfixed h 999 leaf enc tg 1000000 1000000 nkey.
  Definition fc7 : list (N * Z) := [(1, 2%Z); (2, 1%Z); (9, 2%Z)].
  Definition sup7 (o : N) : list N := if N.leb 5 o then [1; 9] else [1; 2; 9].
  Definition forged : xcommit := mkXC 60 1001 (mkCD 1 666 5 6 [] [] [] []).
  Definition p1 : sobs := mkSO [(1, [x]); (2, [forged])] [] [] [] [].
  Definition hon (ob : sobs) : list sao := [(0, ob); (1, ob); (2, ob); (3, ob); (4, ob)].
  Definition aos1 : list sao := hon h1 ++ [(5, p1); (6, p1)].
  Definition aos2 : list sao := hon h2 ++ [(5, h2); (6, h2)].
  Definition aos3 : list sao := hon h3 ++ [(5, h3); (6, h3)].
  Definition o1 : outcome := Eval vm_compute in match RoundU 2 9 fc7 out_init aos1 with Ok o => o | _ => out_init end.
  Definition o2 : outcome := Eval vm_compute in match RoundU 2 9 fc7 o1 aos2 with Ok o => o | _ => out_init end.

  Lemma nd7 (a b : sobs) : NoDup (map fst (hon a ++ [(5, b); (6, b)])).
  Proof. cbn. repeat constructor; cbn; intuition discriminate. Qed.

  Ltac in_cases H := repeat (destruct H as [H|H]; [try (inversion H; subst; clear H)|]); try destruct H.

  Theorem poisoned :
    NoDup (map fst aos1) /\ NoDup (map fst aos2) /\ NoDup (map fst aos3) /\
    sys_validated_nokeys sup7 9 fc7 aos1 /\ sys_validated_nokeys sup7 9 fc7 aos2 /\ sys_validated_nokeys sup7 9 fc7 aos3 /\
    key_functional aos1 /\ key_functional aos2 /\
    (* five honest oracles with one view in every round; oracles 5 and 6 deviate in the first round only, are within
       F = 2 = f(1) = f(9), and do not read chain 2 *)
    (forall o, In o [0; 1; 2; 3; 4] -> In (o, h1) aos1 /\ In (o, h2) aos2 /\ In (o, h3) aos3) /\
    (forall o, In o [5; 6] -> ~ In 2 (sup7 o) /\ In (o, h2) aos2 /\ In (o, h3) aos3) /\
    (* the real report and its messages have their quorums, message 5 is eligible (see SysLive) *)
    quorum (xcommits_of 1) (f_plus_1 2) aos1 x /\
    RoundU 2 9 fc7 out_init aos1 = Ok o1 /\ In (xc_cd x) (o_pending o1) /\
    RoundU 2 9 fc7 o1 aos2 = Ok o2 /\
    RoundU 2 9 fc7 o2 aos3 = Err /\
    (forall n, exec_run_unfixed h 999 leaf enc tg 1000000 1000000 nkey 2 9 o2 (repeat (fc7, aos3) n) = o2) /\
    (* the repaired code: both observations of the faulty oracles are refused, and even if they were not, the forged
       report (two reporters, below f_dest + 1 = 3) is not agreed: the round ends with the real report alone *)
    EM.validate (sup7 5) 9 fc7 (to_obs p1) = false /\ EM.validate (sup7 6) 9 fc7 (to_obs p1) = false /\
    (forall o, Round 2 9 fc7 out_init aos1 = Ok o -> o_pending o = [xc_cd x]).
  Proof.
    split; [apply nd7|]. split; [apply nd7|]. split; [apply nd7|].
    split; [apply sys_validated_nokeys_of_bool; vm_compute; reflexivity|].
    split; [apply sys_validated_nokeys_of_bool; vm_compute; reflexivity|].
    split; [apply sys_validated_nokeys_of_bool; vm_compute; reflexivity|].
    split.
    { apply key_functional_of_lists.
      - intros y y' Hy Hy' E. vm_compute in Hy, Hy'. in_cases Hy; in_cases Hy'; try reflexivity; discriminate E.
      - intros y y' Hy. vm_compute in Hy. destruct Hy. }
    split.
    { apply key_functional_of_lists.
      - intros y y' Hy Hy' E. vm_compute in Hy, Hy'. in_cases Hy; in_cases Hy'; try reflexivity; discriminate E.
      - intros y y' Hy Hy' E. vm_compute in Hy, Hy'. in_cases Hy; in_cases Hy'; try reflexivity; discriminate E. }
    split; [intros o Ho; in_cases Ho; repeat split; cbn; tauto|].
    split; [intros o Ho; in_cases Ho; (split; [vm_compute; intuition discriminate|split; cbn; tauto])|].
    split.
    { exists [0; 1; 2; 3; 4; 5; 6]. split; [repeat constructor; cbn; intuition discriminate|]. split; [vm_compute; discriminate|].
      intros o. split.
      - intros Ho. in_cases Ho; [exists h1|exists h1|exists h1|exists h1|exists h1|exists p1|exists p1];
          (split; [cbn; tauto|vm_compute; tauto]).
      - intros [ob [Hi _]]. cbn in Hi. in_cases Hi; cbn; tauto. }
    split; [vm_compute; reflexivity|]. split; [vm_compute; tauto|].
    split; [vm_compute; reflexivity|].
    assert (E3 : exec_round_unfixed h 999 leaf enc tg 1000000 1000000 nkey 2 9 fc7 o2 aos3 = Err) by (vm_compute; reflexivity).
    split; [exact E3|]. split.
    { induction n as [|n IH]; [reflexivity|]. cbn [repeat]. unfold exec_run_unfixed in *. cbn [fold_left fst snd].
      rewrite E3. exact IH. }
    split; [vm_compute; reflexivity|]. split; [vm_compute; reflexivity|].
    intros o Ho. vm_compute in Ho. inversion Ho. reflexivity.
  Qed.

  (* On the real plugins the stall came one round earlier: the honest GetMessages observation repeats the pending
     reports of the previous outcome grouped by their source chain (execute/observation.go: regroup), so the real and
     the forged report of chain 1 sit under one key, validateObservedSequenceNumbers calls them overlapping and
     ValidateObservation refuses EVERY honest observation; with no observation accepted the Outcome fails. *)
  Definition regrouped : sobs :=
    mkSO [(1, map (fun cd => mkXC (c_root cd) 0 cd) (o_pending o1))] [(1, [(5, xm1); (6, xm2)])] [(1, [(5, [tokA]); (6, [])])] [] [].
  Theorem poisoned_getmessages :
    map c_root (o_pending o1) = [root; 666] /\
    (forall o, EM.validate_nokeys (sup7 o) 9 fc7 (to_obs regrouped) = false) /\
    RoundU 2 9 fc7 o1 [] = Err.
  Proof.
    split; [vm_compute; reflexivity|]. split; [|vm_compute; reflexivity].
    intros o. unfold sup7. destruct (N.leb 5 o); vm_compute; reflexivity.
  Qed.
End SysPoison.

Theorem cycle_liveness_poisoned_unfixed_refuted :
  exists (sup : N -> list N) (bigF : Z) (dest : N) (fc : list (N * Z)) (aos1 aos2 aos3 : list sao) (o1 o2 : outcome)
         (x : xcommit) (honest faulty : list N),
    let RoundU := exec_round_unfixed SysEx.h 999%N SysEx.leaf SysEx.enc SysEx.tg 1000000%N 1000000%N SysEx.nkey in
    NoDup (map fst aos1) /\ NoDup (map fst aos2) /\ NoDup (map fst aos3) /\
    sys_validated_nokeys sup dest fc aos1 /\ sys_validated_nokeys sup dest fc aos2 /\ sys_validated_nokeys sup dest fc aos3 /\
    key_functional aos1 /\ key_functional aos2 /\
    (* every honest oracle sends the same observation in each round; the faulty ones send it too in rounds 2 and 3 *)
    (exists ob1 ob2 ob3, forall o, In o honest -> In (o, ob1) aos1 /\ In (o, ob2) aos2 /\ In (o, ob3) aos3) /\
    map fst aos1 = honest ++ faulty /\
    (* at most F faulty oracles, at most f of the report's source chain and of the destination *)
    (Z.of_nat (length faulty) <= bigF)%Z /\ alookup (c_src (xc_cd x)) fc = Some bigF /\ alookup dest fc = Some bigF /\
    (* the real commit report has its quorum and is pending ... *)
    quorum (xcommits_of (c_src (xc_cd x))) (f_plus_1 bigF) aos1 x /\
    RoundU bigF dest fc out_init aos1 = Ok o1 /\ In (xc_cd x) (o_pending o1) /\
    RoundU bigF dest fc o1 aos2 = Ok o2 /\
    (* ... but the Filter round fails, now and in every later round *)
    RoundU bigF dest fc o2 aos3 = Err /\
    (forall n, exec_run_unfixed SysEx.h 999%N SysEx.leaf SysEx.enc SysEx.tg 1000000%N 1000000%N SysEx.nkey bigF dest o2
                       (repeat (fc, aos3) n) = o2) /\
    (* with the repairs: the faulty observations are refused, and the round would agree the real report alone *)
    (forall o, In o faulty -> exists ob, In (o, ob) aos1 /\ EM.validate (sup o) dest fc (to_obs ob) = false) /\
    (forall o, exec_round SysEx.h 999%N SysEx.leaf SysEx.enc SysEx.tg 1000000%N 1000000%N SysEx.nkey bigF dest fc out_init aos1 = Ok o ->
               o_pending o = [xc_cd x]).
Proof.
  destruct SysPoison.poisoned
    as [A1 [A2 [A3 [A4 [A5 [A6 [A7 [A8 [A9 [A10 [A11 [A12 [A13 [A14 [A15 [A16 [A17 [A18 A19]]]]]]]]]]]]]]]]]].
  exists SysPoison.sup7, 2%Z, 9%N, SysPoison.fc7, SysPoison.aos1, SysPoison.aos2, SysPoison.aos3, SysPoison.o1, SysPoison.o2,
         SysEx.x, [0; 1; 2; 3; 4]%N, [5; 6]%N.
  cbv zeta. repeat (split; [assumption|]).
  split; [exists SysEx.h1, SysEx.h2, SysEx.h3; exact A9|].
  split; [reflexivity|]. split; [cbn; lia|]. split; [reflexivity|]. split; [reflexivity|].
  split; [exact A11|]. split; [exact A12|]. split; [exact A13|]. split; [exact A14|]. split; [exact A15|].
  split; [exact A16|]. split; [|exact A19].
  intros o [<-|[<-|[]]]; exists SysPoison.p1; (split; [cbn; tauto|assumption]).
Qed.

(* F76.  Before the repair two versions of one commit report that both reach f_dest + 1 reporters - here: oracles 0 and 1
   see message 5 executed, oracle 2 reads the destination late and the faulty oracle 3 seconds it, f = 1 - were BOTH
   pending.  The honest GetMessages observation then repeats both under one chain key, validateObservedSequenceNumbers
   calls them overlapping, every observation is refused (on the real plugins Observation itself fails before that:
   computeRanges, "overlapping sequence numbers in reports") and no round succeeds any more.  The repaired
   getCommitReportsOutcome drops both versions: the outcome is empty, the next round reads the destination again. *)
Module SysSplit.
  Import SysEx.
  Local Open Scope N_scope.
  Definition RoundU := exec_round_unfixed h 999 leaf enc tg 1000000 1000000 nkey.
  Definition cur : sobs := mkSO [(1, [xv])] [] [] [] [].       (* message 5 executed *)
  Definition stale : sobs := mkSO [(1, [x])] [] [] [] [].      (* the same report one cycle earlier *)
  Definition aosS : list sao := [(0, cur); (1, cur); (2, stale); (3, stale)].
  Definition o1u : outcome := Eval vm_compute in match RoundU 1 9 fc out_init aosS with Ok o => o | _ => out_init end.
  Definition regrouped : sobs :=
    mkSO [(1, map (fun cd => mkXC (N.of_nat (length (c_exec cd))) 0 cd) (o_pending o1u))] [] [] [] [].

  Ltac in_cases H := repeat (destruct H as [H|H]; [try (inversion H; subst; clear H)|]); try destruct H.

  Theorem split_view :
    NoDup (map fst aosS) /\ sys_validated sup 9 fc aosS /\ key_functional aosS /\
    quorum (xcommits_of 1) (f_plus_1 1) aosS xv /\ quorum (xcommits_of 1) (f_plus_1 1) aosS x /\
    RoundU 1 9 fc out_init aosS = Ok o1u /\ map c_exec (o_pending o1u) = [[]; [5]] /\
    (forall o, EM.validate (sup o) 9 fc (to_obs regrouped) = false) /\
    RoundU 1 9 fc o1u [] = Err /\
    Round 1 9 fc out_init aosS = Ok (mkOut 1 [] []).
  Proof.
    split; [apply nd4|]. split; [apply sys_validated_of_bool; vm_compute; reflexivity|].
    split.
    { apply key_functional_of_lists.
      - intros y y' Hy Hy' E. vm_compute in Hy, Hy'. in_cases Hy; in_cases Hy'; try reflexivity; discriminate E.
      - intros y y' Hy. vm_compute in Hy. destruct Hy. }
    split.
    { exists [0; 1]. split; [repeat constructor; cbn; intuition discriminate|]. split; [vm_compute; discriminate|].
      intros o. split.
      - intros Ho. in_cases Ho; exists cur; (split; [cbn; tauto|vm_compute; tauto]).
      - intros [ob [Hi Hx]]. cbn in Hi. in_cases Hi; try (cbn; tauto); vm_compute in Hx; in_cases Hx. }
    split.
    { exists [2; 3]. split; [repeat constructor; cbn; intuition discriminate|]. split; [vm_compute; discriminate|].
      intros o. split.
      - intros Ho. in_cases Ho; exists stale; (split; [cbn; tauto|vm_compute; tauto]).
      - intros [ob [Hi Hx]]. cbn in Hi. in_cases Hi; try (cbn; tauto); vm_compute in Hx; in_cases Hx. }
    split; [vm_compute; reflexivity|]. split; [vm_compute; reflexivity|].
    split; [intros o; vm_compute; reflexivity|]. split; vm_compute; reflexivity.
  Qed.
End SysSplit.

(* ====================================================================================================== *)
(*  8. histories: the cycle theorems hold for the Filter rounds of every history of rounds                 *)
(* ====================================================================================================== *)
Section History.
  Variable hash : N -> N -> N.
  Variable zero : N.
  Variable leaf_hash : msg -> option N.
  Variable enc_size : creport -> option N.
  Variable tree_gas : N -> N.
  Variable max_size max_gas : N.
  Variable nonce_key : EM.nonce_t -> N.
  Variables (bigF : Z) (dest : N).
  Notation Round := (exec_round hash zero leaf_hash enc_size tree_gas max_size max_gas nonce_key bigF dest).
  Notation Step := (exec_step hash zero leaf_hash enc_size tree_gas max_size max_gas nonce_key bigF dest).
  Notation Run := (exec_run hash zero leaf_hash enc_size tree_gas max_size max_gas nonce_key bigF dest).

  (* a round whose Outcome fails (libocr commits nothing) *)
  Definition round_fails (o : outcome) (r : round_in) : Prop := forall o', Round (fst r) o (snd r) <> Ok o'.

  Lemma run_app o l1 l2 : Run o (l1 ++ l2) = Run (Run o l1) l2.
  Proof. unfold exec_run. apply fold_left_app. Qed.

  Lemma run_failed o rs : Forall (round_fails o) rs -> Run o rs = o.
  Proof.
    induction 1 as [|r rs Hr _ IH]; [reflexivity|]. unfold exec_run in *. cbn [fold_left].
    unfold exec_step at 2. destruct (Round (fst r) o (snd r)) as [o'| | |] eqn:E; try exact IH.
    exfalso. exact (Hr o' E).
  Qed.

  Lemma run_ok o r o' : Round (fst r) o (snd r) = Ok o' -> Run o [r] = o'.
  Proof. intros E. unfold exec_run. cbn [fold_left]. unfold exec_step. now rewrite E. Qed.

  (* any history: some rounds, then a GetCommitReports round, a GetMessages round and a Filter round that succeed, with
     any number of failed rounds in between (they commit nothing): the history ends in the Filter round's outcome, and
     that outcome is the third outcome of a cycle in the sense of section 5 - whatever happened before it *)
  Theorem history_cycle prev pre r1 mid1 r2 mid2 r3 o1 o2 o3 :
    Round (fst r1) (Run prev pre) (snd r1) = Ok o1 -> Forall (round_fails o1) mid1 ->
    Round (fst r2) o1 (snd r2) = Ok o2 -> Forall (round_fails o2) mid2 ->
    Round (fst r3) o2 (snd r3) = Ok o3 ->
    Run prev (pre ++ r1 :: mid1 ++ r2 :: mid2 ++ [r3]) = o3 /\
    Run prev (pre ++ r1 :: mid1) = o1 /\ Run prev (pre ++ r1 :: mid1 ++ r2 :: mid2) = o2.
  Proof.
    intros R1 M1 R2 M2 R3.
    assert (E1 : Run prev (pre ++ r1 :: mid1) = o1).
    { rewrite run_app. change (r1 :: mid1) with ([r1] ++ mid1). rewrite run_app, (run_ok _ _ _ R1). now apply run_failed. }
    assert (E2 : Run prev (pre ++ r1 :: mid1 ++ r2 :: mid2) = o2).
    { replace (pre ++ r1 :: mid1 ++ r2 :: mid2) with ((pre ++ r1 :: mid1) ++ [r2] ++ mid2)
        by (rewrite <- app_assoc; reflexivity).
      rewrite run_app, E1, run_app, (run_ok _ _ _ R2). now apply run_failed. }
    split; [|split; assumption].
    replace (pre ++ r1 :: mid1 ++ r2 :: mid2 ++ [r3]) with ((pre ++ r1 :: mid1 ++ r2 :: mid2) ++ [r3]).
    - rewrite run_app, E2. exact (run_ok _ _ _ R3).
    - rewrite <- !app_assoc. cbn [app]. rewrite <- !app_assoc. reflexivity.
  Qed.
End History.

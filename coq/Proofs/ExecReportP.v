(* ExecReportP.v — lemmas and theorems about Model/ExecReport.v (C08: eligibility, membership, limits, executed
   bookkeeping, nonce order and its refutation F14). *)
Require Import Verif.Model.Base Verif.Proofs.BaseP Verif.Model.Merkle Verif.Model.ExecReport Verif.Proofs.MerkleP.
From Coq Require Import Sorting.Sorted ZifyN ZifyNat ZifyBool.
Ltac Zify.zify_post_hook ::= Z.div_mod_to_equations.

(* ---------- generic list facts ---------- *)
Definition asc (l : list nat) : Prop := StronglySorted lt l.

Lemma mem_nat_In i l : mem_nat i l = true <-> In i l.
Proof.
  unfold mem_nat. rewrite existsb_exists. split.
  - intros [y [Hy He]]. apply Nat.eqb_eq in He. now subst.
  - intros Hi. exists i. split; [exact Hi| apply Nat.eqb_refl].
Qed.

Lemma asc_app_inv l1 l2 : asc (l1 ++ l2) -> asc l1 /\ asc l2 /\ (forall x y, In x l1 -> In y l2 -> x < y).
Proof.
  induction l1 as [|a l1 IH]; cbn [app]; intros Hs.
  - split; [constructor|]. split; [exact Hs|]. intros x y [].
  - inversion Hs as [|? ? Hs' Hall]; subst. destruct (IH Hs') as [H1 [H2 H3]].
    rewrite Forall_app in Hall. destruct Hall as [Ha1 Ha2].
    split; [constructor; assumption|]. split; [exact H2|].
    intros x y [->|Hx] Hy; [rewrite Forall_forall in Ha2; now apply Ha2| now apply H3].
Qed.

Lemma asc_app l1 l2 : asc l1 -> asc l2 -> (forall x y, In x l1 -> In y l2 -> x < y) -> asc (l1 ++ l2).
Proof.
  induction l1 as [|a l1 IH]; cbn [app]; intros H1 H2 H3; [exact H2|].
  inversion H1 as [|? ? H1' Hall]; subst. constructor.
  - apply IH; try assumption. intros x y Hx Hy. apply H3; [now right|exact Hy].
  - rewrite Forall_app. split; [exact Hall|]. rewrite Forall_forall. intros y Hy. apply H3; [now left|exact Hy].
Qed.

(* filtering an interval by membership in an ascending list inside the interval gives the list back *)
Lemma filter_mem_seq l : forall a n, asc l -> (forall i, In i l -> a <= i < a + n) ->
  filter (fun i => mem_nat i l) (seq a n) = l.
Proof.
  intros a n; revert a l. induction n as [|n IH]; intros a l Hs Hr; cbn [seq filter].
  - destruct l as [|x l]; [reflexivity|]. specialize (Hr x (or_introl eq_refl)). lia.
  - destruct (mem_nat a l) eqn:E.
    + apply mem_nat_In in E. destruct l as [|x l]; [contradiction|].
      inversion Hs as [|? ? Hs' Hall]; subst. rewrite Forall_forall in Hall.
      assert (x = a).
      { destruct E as [E|E]; [exact E|]. specialize (Hall _ E). specialize (Hr x (or_introl eq_refl)). lia. }
      subst x. f_equal.
      transitivity (filter (fun i => mem_nat i l) (seq (S a) n)); [|apply (IH (S a) l Hs')].
      * apply filter_ext_in. intros i Hi. apply in_seq in Hi. cbn [mem_nat existsb].
        destruct (Nat.eqb_spec i a); [lia|reflexivity].
      * intros i Hi. specialize (Hall _ Hi). specialize (Hr i (or_intror Hi)). lia.
    + apply IH; [exact Hs|]. intros i Hi. specialize (Hr i Hi).
      assert (i <> a). { intros ->. apply mem_nat_In in Hi. congruence. } lia.
Qed.

Lemma select_nil {A} (l : list A) : select l [] = [].
Proof. reflexivity. Qed.
Lemma select_cons {A} (l : list A) i idxs x :
  nth_error l i = Some x -> select l (i :: idxs) = x :: select l idxs.
Proof. intros Hx. unfold select. cbn [flat_map]. now rewrite Hx. Qed.
Lemma select_length {A} (l : list A) idxs :
  (forall i, In i idxs -> i < length l) -> length (select l idxs) = length idxs.
Proof.
  induction idxs as [|i idxs IH]; intros Hr; [reflexivity|].
  destruct (nth_error l i) as [x|] eqn:E.
  - rewrite (select_cons _ _ _ _ E). cbn [length]. f_equal. apply IH. intros j Hj. apply Hr. now right.
  - apply nth_error_None in E. specialize (Hr i (or_introl eq_refl)). lia.
Qed.
Lemma select_map {A B} (f : A -> B) (l : list A) idxs : select (map f l) idxs = map f (select l idxs).
Proof.
  unfold select. induction idxs as [|i idxs IH]; [reflexivity|]. cbn [flat_map]. rewrite map_app, IH. f_equal.
  rewrite nth_error_map. destruct (nth_error l i); reflexivity.
Qed.
Lemma select_In {A} (l : list A) idxs x : In x (select l idxs) -> exists i, In i idxs /\ nth_error l i = Some x.
Proof.
  unfold select. rewrite in_flat_map. intros [i [Hi Hx]]. exists i. split; [exact Hi|].
  destruct (nth_error l i); [destruct Hx as [->|[]]; reflexivity|destruct Hx].
Qed.

Section ExecReportP.
  Variable hash : N -> N -> N.
  Variable zero : N.
  Variable leaf_hash : msg -> option N.
  Variable enc_size : creport -> option N.
  Variable tree_gas : N -> N.
  Variable nonces : nmap.
  Variable max_size max_gas : N.

  Notation CheckAll := (check_all nonces).
  Notation Helper := (build_helper hash zero leaf_hash).
  Notation Verify := (verify_report enc_size tree_gas max_size max_gas).
  Notation Greedy := (greedy hash zero leaf_hash enc_size tree_gas max_size max_gas).
  Notation Choose := (choose hash zero leaf_hash enc_size tree_gas max_size max_gas).
  Notation BuildSingle := (build_single hash zero leaf_hash enc_size tree_gas nonces max_size max_gas).
  Notation Add := (add hash zero leaf_hash enc_size tree_gas nonces max_size max_gas).
  Notation Tree := (construct_tree hash zero leaf_hash).

  (* what "eligible" means for the message at index i of a commit report *)
  Definition eligible (cd : cdata) (i : nat) : Prop :=
    exists m td, nth_error (c_msgs cd) i = Some m /\ nth_error (c_td cd) i = Some td /\
      memN (m_seq m) (c_exec cd) = false /\ memN (m_id m) (c_costly cd) = false /\ td_ready td = true.

  Lemma check_message_ready exp cd i m exp1 :
    check_message nonces exp cd i m = Ok (exp1, true) ->
    exists td, nth_error (c_td cd) i = Some td /\ memN (m_seq m) (c_exec cd) = false /\
      memN (m_id m) (c_costly cd) = false /\ td_ready td = true.
  Proof.
    unfold check_message. destruct (memN (m_seq m) (c_exec cd)) eqn:Ex; [discriminate|].
    destruct (nth_error (c_td cd) i) as [td|] eqn:Et; [|discriminate].
    destruct (td_ready td) eqn:Er; cbn [negb]; [|discriminate].
    destruct (memN (m_id m) (c_costly cd)) eqn:Ec; [discriminate|].
    destruct (check_nonce nonces exp cd m) as [e okn]. destruct okn; cbn [negb]; [|discriminate].
    intros _. exists td. repeat split; assumption.
  Qed.

  Lemma check_all_spec cd : forall ms pre exp exp' ready,
    c_msgs cd = pre ++ ms ->
    CheckAll exp cd (length pre) ms = Ok (exp', ready) ->
    asc ready /\ forall i, In i ready -> length pre <= i < length (c_msgs cd) /\ eligible cd i.
  Proof.
    induction ms as [|m ms IH]; intros pre exp exp' ready Hm Hc.
    - cbn in Hc. inversion Hc; subst. split; [constructor|intros i []].
    - cbn [check_all] in Hc.
      destruct (check_message nonces exp cd (length pre) m) as [[exp1 rdy]| | |] eqn:E1; try discriminate.
      cbn [rbind fst snd] in Hc.
      assert (Hm' : c_msgs cd = (pre ++ [m]) ++ ms) by (rewrite <- app_assoc; exact Hm).
      assert (Hl : length (pre ++ [m]) = S (length pre)) by (rewrite app_length; cbn; lia).
      destruct (CheckAll exp1 cd (S (length pre)) ms) as [[exp2 r2]| | |] eqn:E2; try discriminate.
      cbn [rbind fst snd] in Hc. inversion Hc; subst exp' ready; clear Hc.
      rewrite <- Hl in E2. destruct (IH _ _ _ _ Hm' E2) as [Hs Hr].
      assert (Hlen : length (c_msgs cd) = length pre + S (length ms)).
      { rewrite Hm, app_length. reflexivity. }
      destruct rdy.
      + split.
        * constructor; [exact Hs|]. rewrite Forall_forall. intros j Hj. destruct (Hr j Hj) as [Hj' _]. lia.
        * intros i [<-|Hi].
          -- split; [lia|]. destruct (check_message_ready _ _ _ _ _ E1) as [td [Ht [Hx [Hc Hy]]]].
             exists m, td. repeat split; try assumption.
             rewrite Hm, nth_error_app2 by lia. now rewrite Nat.sub_diag.
          -- destruct (Hr i Hi) as [Hi' He]. split; [lia|exact He].
      + split; [exact Hs|]. intros i Hi. destruct (Hr i Hi) as [Hi' He]. split; [lia|exact He].
  Qed.

  (* ---------- buildSingleChainReportHelper ---------- *)
  (* the content of a chain report built for the index set idxs of cd *)
  Definition report_for (cd : cdata) (idxs : list nat) (r : creport) : Prop :=
    exists t pf, Tree cd = Ok t /\ troot zero t = c_root cd /\ prove t idxs = Ok pf /\
      length (c_td cd) = length (c_msgs cd) /\
      r = mkCR (c_src cd) (select (c_msgs cd) idxs) (map td_bytes (select (c_td cd) idxs))
               (fst pf) (bools_to_flags (snd pf)).

  Lemma build_helper_spec cd idxs r :
    idxs <> [] -> asc idxs -> (forall i, In i idxs -> i < length (c_msgs cd)) ->
    Helper cd idxs = Ok r -> report_for cd idxs r.
  Proof.
    intros Hne Hs Hr. unfold build_helper.
    destruct idxs as [|i0 idxs']; [contradiction|]. set (idxs := i0 :: idxs') in *.
    destruct (Nat.eqb_spec (length (c_td cd)) (length (c_msgs cd))) as [Hl|Hl]; cbn [negb]; [|discriminate].
    destruct (Tree cd) as [t| | |] eqn:Et; cbn [rbind]; try discriminate.
    destruct (N.eqb_spec (troot zero t) (c_root cd)) as [Hroot|Hroot]; cbn [negb]; [|discriminate].
    rewrite (filter_mem_seq idxs 0 (length (c_msgs cd)) Hs) by (intros i Hi; specialize (Hr i Hi); lia).
    destruct (prove t idxs) as [pf| | |] eqn:Ep; cbn [rbind]; try discriminate.
    intros H; inversion H; subst r. exists t, pf. repeat split; assumption.
  Qed.

  (* commit data whose messages do not reproduce the committed root yields no report, whatever is selected *)
  Lemma build_helper_bad_root cd idxs r :
    idxs <> [] -> (forall t, Tree cd = Ok t -> troot zero t <> c_root cd) -> Helper cd idxs <> Ok r.
  Proof.
    intros Hne Hbad. unfold build_helper. destruct idxs as [|i0 idxs']; [contradiction|].
    destruct (Nat.eqb (length (c_td cd)) (length (c_msgs cd))); cbn [negb]; [|discriminate].
    destruct (Tree cd) as [t| | |] eqn:Et; cbn [rbind]; try discriminate.
    destruct (N.eqb_spec (troot zero t) (c_root cd)) as [Hroot|Hroot]; cbn [negb]; [|discriminate].
    exfalso. exact (Hbad t eq_refl Hroot).
  Qed.

  (* ---------- verifyReport ---------- *)
  Lemma verify_report_spec st r sz g :
    Verify st r = Ok (Some (sz, g)) ->
    enc_size r = Some sz /\ g = report_gas tree_gas r /\
    (Z.of_N sz <= to_int64 (sub64 max_size (b_size st)))%Z /\ (g <= sub64 max_gas (b_gas st))%N.
  Proof.
    unfold verify_report. destruct (enc_size r) as [s|]; [|discriminate].
    destruct (Z.ltb_spec (to_int64 (sub64 max_size (b_size st))) (Z.of_N s)) as [H1|H1]; [discriminate|].
    destruct (N.ltb_spec (sub64 max_gas (b_gas st)) (report_gas tree_gas r)) as [H2|H2]; [discriminate|].
    intros H; inversion H; subst. repeat split; assumption.
  Qed.

  (* ---------- the greedy fallback ---------- *)
  Lemma asc_drop_mid (l1 l2 : list nat) x : asc (l1 ++ x :: l2) -> asc (l1 ++ l2).
  Proof.
    intros Hs. destruct (asc_app_inv _ _ Hs) as [H1 [H2 H3]].
    inversion H2 as [|? ? H2' _]; subst. apply asc_app; try assumption.
    intros a b Ha Hb. apply H3; [exact Ha| now right].
  Qed.

  Lemma greedy_spec st cd : forall ready cur best cur' best',
    asc (cur ++ ready) ->
    (cur = [] <-> best = None) ->
    (forall r meta, best = Some (r, meta) -> Helper cd cur = Ok r /\ Verify st r = Ok (Some meta)) ->
    Greedy st cd ready cur best = Ok (cur', best') ->
    asc cur' /\ incl cur' (cur ++ ready) /\ (cur' = [] <-> best' = None) /\
    (forall r meta, best' = Some (r, meta) -> Helper cd cur' = Ok r /\ Verify st r = Ok (Some meta)).
  Proof.
    induction ready as [|i ready IH]; intros cur best cur' best' Hs He Hb Hg.
    - cbn in Hg. inversion Hg; subst. rewrite app_nil_r in *.
      split; [exact Hs|]. split; [apply incl_refl|]. split; [exact He|exact Hb].
    - cbn [greedy] in Hg.
      destruct (Helper cd (cur ++ [i])) as [r2| | |] eqn:Eh; cbn [rbind] in Hg; try discriminate.
      destruct (Verify st r2) as [[meta|]| | |] eqn:Ev; cbn [rbind] in Hg; try discriminate.
      + assert (Hs' : asc ((cur ++ [i]) ++ ready)) by (rewrite <- app_assoc; exact Hs).
        destruct (IH (cur ++ [i]) (Some (r2, meta)) cur' best' Hs') as [H1 [H2 [H3 H4]]]; try assumption.
        * split; [intros H; destruct cur; discriminate|discriminate].
        * intros r m H; inversion H; subst. split; assumption.
        * split; [exact H1|]. split; [rewrite <- app_assoc in H2; exact H2|]. split; [exact H3|exact H4].
      + destruct (IH cur best cur' best' (asc_drop_mid _ _ _ Hs) He Hb Hg) as [H1 [H2 [H3 H4]]].
        split; [exact H1|]. split; [|split; [exact H3|exact H4]].
        intros x Hx. specialize (H2 x Hx). rewrite in_app_iff in *. destruct H2; [now left|right; now right].
  Qed.

  Lemma choose_spec st cd ready idxs r meta :
    ready <> [] -> asc ready ->
    Choose st cd ready = Ok (Some (idxs, r, meta)) ->
    idxs <> [] /\ asc idxs /\ incl idxs ready /\ Helper cd idxs = Ok r /\ Verify st r = Ok (Some meta).
  Proof.
    intros Hne Hs. unfold choose.
    destruct (Helper cd ready) as [r0| | |] eqn:Eh; cbn [rbind]; try discriminate.
    destruct (Verify st r0) as [[meta0|]| | |] eqn:Ev; cbn [rbind]; try discriminate.
    - intros H; inversion H; subst. repeat split; try assumption. apply incl_refl.
    - destruct (Greedy st cd ready [] None) as [[cur best]| | |] eqn:Eg; cbn [rbind fst snd]; try discriminate.
      destruct best as [[r2 meta2]|]; [|discriminate].
      intros H; inversion H; subst.
      destruct (greedy_spec st cd ready [] None idxs (Some (r, meta)) Hs) as [H1 [H2 [H3 H4]]]; try assumption.
      + split; reflexivity.
      + intros ? ? H0; discriminate.
      + destruct (H4 r meta eq_refl) as [H5 H6]. repeat split; try assumption.
        intros ->. destruct H3 as [H3 _]. specialize (H3 eq_refl). discriminate.
  Qed.


  (* ---------- Add: everything one call can do ---------- *)
  Definition fits (st : bstate) (sz g : N) : Prop :=
    (Z.of_N sz <= to_int64 (sub64 max_size (b_size st)))%Z /\ (g <= sub64 max_gas (b_gas st))%N.

  Theorem add_spec st cd st' cd' :
    Add st cd = Ok (st', cd') ->
    (b_reports st' = b_reports st /\ cd' = cd /\ b_size st' = b_size st /\ b_gas st' = b_gas st) \/
    exists idxs r sz,
      b_reports st' = b_reports st ++ [r] /\ cd' = mark_executed r cd /\
      idxs <> [] /\ asc idxs /\ (forall i, In i idxs -> i < length (c_msgs cd) /\ eligible cd i) /\
      report_for cd idxs r /\
      enc_size r = Some sz /\ fits st sz (report_gas tree_gas r) /\
      b_size st' = add64 (b_size st) sz /\ b_gas st' = add64 (b_gas st) (report_gas tree_gas r).
  Proof.
    unfold add, build_single.
    destruct (CheckAll (b_exp st) cd 0 (c_msgs cd)) as [[exp1 ready]| | |] eqn:Ec; try discriminate.
    destruct (check_all_spec cd (c_msgs cd) [] _ _ _ eq_refl Ec) as [Hs Hr].
    destruct ready as [|i0 ready']; [intros H; inversion H; subst; left; cbn; auto|].
    set (ready := i0 :: ready') in *.
    set (st1 := mkB (b_size st) (b_gas st) exp1 (b_reports st)).
    destruct (Choose st1 cd ready) as [[[[idxs r] meta]|]| | |] eqn:Ech; try discriminate.
    - destruct (choose_spec st1 cd ready idxs r meta) as [H1 [H2 [H3 [H4 H5]]]]; try assumption; [discriminate|].
      unfold finalize. intros H; inversion H; subst st' cd'; clear H. right.
      destruct meta as [sz g]. destruct (verify_report_spec _ _ _ _ H5) as [V1 [V2 [V3 V4]]].
      assert (Hin : forall i, In i idxs -> i < length (c_msgs cd) /\ eligible cd i).
      { intros i Hi. destruct (Hr i (H3 i Hi)) as [Hi' He]. split; [lia|exact He]. }
      exists idxs, r, sz. cbn [b_reports b_size b_gas fst snd]. subst g.
      repeat split; try assumption; try reflexivity; try apply Hin; try assumption.
      apply build_helper_spec; try assumption. intros i Hi. apply Hin, Hi.
    - intros H; inversion H; subst. left. cbn. auto.
  Qed.

  (* no report from commit data that does not reproduce its committed root (or cannot be hashed / is malformed) *)
  Theorem add_bad_root st cd st' cd' :
    (forall t, Tree cd = Ok t -> troot zero t <> c_root cd) ->
    Add st cd = Ok (st', cd') -> b_reports st' = b_reports st /\ cd' = cd.
  Proof.
    intros Hbad Ha. destruct (add_spec _ _ _ _ Ha) as [[H1 [H2 _]]|[idxs [r [sz [_ [_ [_ [_ [_ [Hrf _]]]]]]]]]]; [auto|].
    destruct Hrf as [t [pf [Ht [Hroot _]]]]. exfalso. exact (Hbad t Ht Hroot).
  Qed.

  (* ---------- executed bookkeeping ---------- *)
  Theorem mark_executed_spec r cd :
    let cd' := mark_executed r cd in
    c_exec cd' = sortN (c_exec cd ++ map m_seq (r_msgs r)) /\
    StronglySorted N.le (c_exec cd') /\
    (forall s, In s (c_exec cd') <-> In s (c_exec cd) \/ exists m, In m (r_msgs r) /\ m_seq m = s) /\
    c_src cd' = c_src cd /\ c_root cd' = c_root cd /\ c_start cd' = c_start cd /\ c_end cd' = c_end cd /\
    c_msgs cd' = c_msgs cd /\ c_costly cd' = c_costly cd /\ c_td cd' = c_td cd.
  Proof.
    cbn. split; [reflexivity|]. split; [apply sortN_sorted|]. split; [|repeat split].
    intros s. unfold sortN. rewrite sort_by_in, in_app_iff, in_map_iff.
    split; (intros [H|[m [H1 H2]]]; [now left|right; exists m; auto]).
  Qed.

  (* ---------- limits: the accumulated budgets are the exact sums and never exceed the maxima ---------- *)
  Definition size_of (r : creport) : N := match enc_size r with Some s => s | None => 0 end.
  Definition total_size (rs : list creport) : N := fold_right (fun r a => size_of r + a)%N 0%N rs.
  Definition total_gas (rs : list creport) : N := fold_right (fun r a => report_gas tree_gas r + a)%N 0%N rs.
  Definition budget_inv (st : bstate) : Prop :=
    b_size st = total_size (b_reports st) /\ b_gas st = total_gas (b_reports st) /\
    (b_size st <= max_size)%N /\ (b_gas st <= max_gas)%N.

  Lemma total_size_app rs r : total_size (rs ++ [r]) = (total_size rs + size_of r)%N.
  Proof. unfold total_size. induction rs as [|x rs IH]; cbn [app fold_right]; [lia| rewrite IH; lia]. Qed.
  Lemma total_gas_app rs r : total_gas (rs ++ [r]) = (total_gas rs + report_gas tree_gas r)%N.
  Proof. unfold total_gas. induction rs as [|x rs IH]; cbn [app fold_right]; [lia| rewrite IH; lia]. Qed.

  Lemma budget_init : budget_inv b_init.
  Proof. unfold budget_inv, b_init; cbn. repeat split; lia. Qed.

  Theorem add_budget st cd st' cd' :
    (max_size < two64)%N -> (max_gas < two64)%N ->
    budget_inv st -> Add st cd = Ok (st', cd') -> budget_inv st'.
  Proof.
    intros Hms Hmg [I1 [I2 [I3 I4]]] Ha.
    destruct (add_spec _ _ _ _ Ha) as [[H1 [H2 [H3 H4]]]|[idxs [r [sz [H1 [_ [_ [_ [_ [_ [Hsz [[F1 F2] [H3 H4]]]]]]]]]]]]].
    - unfold budget_inv. rewrite H1, H3, H4. auto.
    - unfold budget_inv. rewrite H1, H3, H4, total_size_app, total_gas_app, <- I1, <- I2.
      unfold size_of. rewrite Hsz.
      assert (S1 : sub64 max_size (b_size st) = (max_size - b_size st)%N).
      { unfold sub64, two64 in *. rewrite (N.mod_small (b_size st)) by lia.
        replace (max_size + 18446744073709551616 - b_size st)%N
          with ((max_size - b_size st) + 1 * 18446744073709551616)%N by lia.
        rewrite N.mod_add by lia. apply N.mod_small. lia. }
      assert (S2 : sub64 max_gas (b_gas st) = (max_gas - b_gas st)%N).
      { unfold sub64, two64 in *. rewrite (N.mod_small (b_gas st)) by lia.
        replace (max_gas + 18446744073709551616 - b_gas st)%N
          with ((max_gas - b_gas st) + 1 * 18446744073709551616)%N by lia.
        rewrite N.mod_add by lia. apply N.mod_small. lia. }
      rewrite S1 in F1. rewrite S2 in F2.
      assert (F1' : (sz <= max_size - b_size st)%N).
      { unfold to_int64 in F1. destruct (N.ltb_spec (max_size - b_size st) 9223372036854775808); lia. }
      unfold add64, two64 in *.
      rewrite !N.mod_small by lia. repeat split; lia.
  Qed.


  (* ---------- the whole outcome: selectReport ---------- *)
  Notation SelectLoop := (select_loop hash zero leaf_hash enc_size tree_gas nonces max_size max_gas).
  Notation SelectReport := (select_report hash zero leaf_hash enc_size tree_gas nonces max_size max_gas).

  Definition good_report (cd : cdata) (r : creport) : Prop :=
    exists idxs, idxs <> [] /\ asc idxs /\ (forall i, In i idxs -> i < length (c_msgs cd) /\ eligible cd i) /\
                 report_for cd idxs r.

  Lemma select_loop_spec : forall cds st st' pend,
    SelectLoop st cds = Ok (st', pend) ->
    exists new, b_reports st' = b_reports st ++ new /\
                Forall (fun r => exists cd, In cd cds /\ good_report cd r) new /\
                ((max_size < two64)%N -> (max_gas < two64)%N -> budget_inv st -> budget_inv st').
  Proof.
    induction cds as [|cd cds IH]; intros st st' pend Hsel.
    - cbn in Hsel. inversion Hsel; subst. exists []. rewrite app_nil_r.
      split; [reflexivity|]. split; [constructor|auto].
    - unfold select_loop in Hsel. cbn [select_loop_with] in Hsel. fold SelectLoop in Hsel. destruct (c_msgs cd) as [|m0 ms0] eqn:Em.
      + destruct (SelectLoop st cds) as [[st2 p2]| | |] eqn:E2; cbn [rbind fst snd] in Hsel; try discriminate.
        inversion Hsel; subst. destruct (IH _ _ _ E2) as [new [H1 [H2 H3]]]. exists new.
        split; [exact H1|]. split; [|exact H3].
        eapply Forall_impl; [|exact H2]. intros r [cd0 [Hi Hg]]. exists cd0. split; [now right|exact Hg].
      + destruct (Add st cd) as [[st1 cd1]| | |] eqn:Ea; cbn [rbind fst snd] in Hsel; try discriminate.
        destruct (SelectLoop st1 cds) as [[st2 p2]| | |] eqn:E2; cbn [rbind fst snd] in Hsel; try discriminate.
        inversion Hsel; subst st' pend; clear Hsel.
        destruct (IH _ _ _ E2) as [new [H1 [H2 H3]]].
        assert (H2' : Forall (fun r => exists cd0, In cd0 (cd :: cds) /\ good_report cd0 r) new).
        { eapply Forall_impl; [|exact H2]. intros r [cd0 [Hi Hg]]. exists cd0. split; [now right|exact Hg]. }
        destruct (add_spec _ _ _ _ Ea) as [[A1 _]|[idxs [r [sz [A1 [_ [A3 [A4 [A5 [A6 _]]]]]]]]]].
        * exists new. rewrite H1, A1. split; [reflexivity|]. split; [exact H2'|].
          intros B1 B2 B3. apply H3; try assumption. eapply add_budget; eassumption.
        * exists (r :: new). rewrite H1, A1, <- app_assoc. split; [reflexivity|]. split.
          -- constructor; [|exact H2']. exists cd. split; [now left|]. exists idxs. auto.
          -- intros B1 B2 B3. apply H3; try assumption. eapply add_budget; eassumption.
  Qed.

  (* every chain report of the outcome is a good report of one of the pending commit reports, and the outcome as a
     whole stays within both limits *)
  Theorem select_report_spec cds reports pend :
    SelectReport cds = Ok (reports, pend) ->
    Forall (fun r => exists cd, In cd cds /\ good_report cd r) reports /\
    ((max_size < two64)%N -> (max_gas < two64)%N ->
     (total_size reports <= max_size)%N /\ (total_gas reports <= max_gas)%N).
  Proof.
    unfold select_report.
    destruct (SelectLoop b_init cds) as [[st p]| | |] eqn:E; cbn [rbind fst snd]; try discriminate.
    intros H; inversion H; subst reports pend; clear H.
    destruct (select_loop_spec _ _ _ _ E) as [new [H1 [H2 H3]]]. cbn in H1. unfold build. rewrite H1.
    split; [exact H2|]. intros B1 B2. destruct (H3 B1 B2 budget_init) as [I1 [I2 [I3 I4]]].
    rewrite H1 in I1, I2. rewrite <- I1, <- I2. split; assumption.
  Qed.


  (* ---------- provability: the destination's verifier recomputes the committed root ---------- *)
  Lemma tree_leaves_spec cd : forall ms ls,
    tree_leaves leaf_hash cd ms = Ok ls -> Forall2 (fun m h => leaf_hash m = Some h) ms ls.
  Proof.
    induction ms as [|m ms IH]; intros ls Ht; cbn [tree_leaves] in Ht.
    - inversion Ht. constructor.
    - destruct (negb (in_range cd (m_seq m))); [discriminate|].
      destruct (negb (N.eqb (c_src cd) (m_src m))); [discriminate|].
      destruct (leaf_hash m) as [h|] eqn:Eh; [|discriminate].
      destruct (tree_leaves leaf_hash cd ms) as [r| | |]; cbn [rbind] in Ht; try discriminate.
      inversion Ht; subst. constructor; [exact Eh|]. now apply IH.
  Qed.

  Lemma select_vals {A} (d : A) (l : list A) idxs :
    (forall i, In i idxs -> i < length l) -> select l idxs = MerkleP.vals d l idxs.
  Proof.
    induction idxs as [|i idxs IH]; intros Hr; [reflexivity|].
    assert (Hi : i < length l) by (apply Hr; now left).
    rewrite (select_cons l i idxs (nth i l d)) by (now apply nth_error_nth').
    unfold MerkleP.vals in *. cbn [map]. f_equal. apply IH. intros j Hj. apply Hr. now right.
  Qed.

  Lemma select_Forall2 {A B} (R : A -> B -> Prop) (la : list A) (lb : list B) idxs :
    Forall2 R la lb -> Forall2 R (select la idxs) (select lb idxs).
  Proof.
    intros HF. induction idxs as [|i idxs IH]; [constructor|].
    unfold select in *. cbn [flat_map]. apply Forall2_app; [|exact IH].
    clear IH. revert i. induction HF as [|a b la lb Hab HF IHF]; intros i.
    - destruct i; constructor.
    - destruct i as [|i]; cbn [nth_error]; [constructor; [exact Hab|constructor]|apply IHF].
  Qed.

  Theorem add_provable st cd st' cd' r hs :
    (forall a b, hash a b = hash b a) ->
    length (c_msgs cd) <= 256 ->
    Add st cd = Ok (st', cd') -> b_reports st' = b_reports st ++ [r] ->
    Forall2 (fun m h => leaf_hash m = Some h) (r_msgs r) hs ->
    verify hash hs (r_proofs r) (flags_to_bools (r_flags r) (length hs + length (r_proofs r) - 1)) = Ok (c_root cd).
  Proof.
    intros Hcomm Hmax Ha Hb Hhs.
    destruct (add_spec _ _ _ _ Ha) as [[A1 _]|[idxs [r0 [sz [A1 [_ [A3 [A4 [A5 [A6 _]]]]]]]]]].
    - exfalso. rewrite A1 in Hb. apply (f_equal (@length _)) in Hb. rewrite app_length in Hb. cbn in Hb. lia.
    - rewrite A1 in Hb. apply app_inv_head in Hb. inversion Hb; subst r0; clear Hb.
      destruct A6 as [t [pf [Ht [Hroot [Hp [Hl Hr]]]]]].
      unfold construct_tree in Ht.
      destruct (negb _); [discriminate|].
      destruct (tree_leaves leaf_hash cd (c_msgs cd)) as [ls| | |] eqn:El; cbn [rbind] in Ht; try discriminate.
      pose proof (tree_leaves_spec _ _ _ El) as HF.
      assert (Hlen : length ls = length (c_msgs cd)).
      { clear -HF. induction HF; cbn [length]; [reflexivity|now f_equal]. }
      assert (Hin : forall i, In i idxs -> i < length ls) by (intros i Hi; rewrite Hlen; apply A5, Hi).
      destruct (MerkleP.multiproof hash zero Hcomm ls idxs) as [t2 [ps [fl [M1 [M2 [M3 _]]]]]]; try assumption.
      { unfold max_leaves. lia. }
      rewrite Ht in M1. inversion M1; subst t2; clear M1.
      rewrite Hp in M2. inversion M2; subst pf; clear M2.
      subst r. cbn [r_msgs r_proofs r_flags fst snd] in *.
      assert (Ehs : hs = MerkleP.vals zero ls idxs).
      { rewrite <- (select_vals zero ls idxs Hin).
        pose proof (select_Forall2 _ _ _ idxs HF) as HF2.
        revert Hhs HF2. generalize (select (c_msgs cd) idxs), (select ls idxs). clear.
        intros ms. revert hs. induction ms as [|m ms IH]; intros hs l2 H1 H2.
        - inversion H1; inversion H2; reflexivity.
        - inversion H1; inversion H2; subst. f_equal; [congruence|]. now apply IH. }
      subst hs. rewrite Hroot in M3.
      rewrite <- (MerkleP.verify_ok_length _ _ _ _ _ M3), MerkleP.flags_roundtrip. exact M3.
  Qed.


  (* ---------- nonce order outside the F14 class ---------- *)
  Lemma nlookup_nupdate_same c s v m : nlookup c s (nupdate c s v m) = Some v.
  Proof.
    induction m as [|[[c' s'] v'] m IH]; cbn [nupdate nlookup].
    - now rewrite !N.eqb_refl.
    - destruct (N.eqb c c' && N.eqb s s') eqn:E; cbn [nlookup]; rewrite E; [reflexivity|exact IH].
  Qed.
  Lemma nlookup_nupdate_other c s c2 s2 v m :
    (c, s) <> (c2, s2) -> nlookup c s (nupdate c2 s2 v m) = nlookup c s m.
  Proof.
    intros Hne. induction m as [|[[c' s'] v'] m IH]; cbn [nupdate nlookup].
    - destruct (N.eqb_spec c c2), (N.eqb_spec s s2); cbn [andb]; try reflexivity. subst. contradiction.
    - destruct (N.eqb_spec c2 c'), (N.eqb_spec s2 s'); cbn [andb nlookup]; try (rewrite IH; reflexivity).
      subst. destruct (N.eqb_spec c c'), (N.eqb_spec s s'); cbn [andb]; try reflexivity. subst. contradiction.
  Qed.

  (* the expectation in force for (chain c, sender s): the recorded one, else on-chain nonce + 1 *)
  Definition eff (c s : N) (exp : nmap) : option N :=
    match nlookup c s nonces with
    | None => None
    | Some on => Some (match nlookup c s exp with Some e => e | None => add64 on 1 end)
    end.
  Fixpoint iota64 (e : N) (k : nat) : list N :=
    match k with O => [] | S k' => e :: iota64 (add64 e 1) k' end.
  Fixpoint iter64 (e : N) (k : nat) : N :=
    match k with O => e | S k' => iter64 (add64 e 1) k' end.

  Section OneKey.
    Variables (c s : N) (cd : cdata).
    (* the sequenced messages of this commit report that belong to (c, s) *)
    Definition key (m : msg) : bool :=
      negb (N.eqb (m_nonce m) 0) && N.eqb (c_src cd) c && N.eqb (m_sender m) s.

    Lemma check_nonce_eff exp m :
      let '(exp1, okn) := check_nonce nonces exp cd m in
      if key m then
        match eff c s exp with
        | Some e => okn = N.eqb (m_nonce m) e /\ eff c s exp1 = Some (if okn then add64 e 1 else e)
        | None => okn = false /\ eff c s exp1 = None
        end
      else eff c s exp1 = eff c s exp.
    Proof.
      unfold check_nonce, key.
      destruct (N.eqb_spec (m_nonce m) 0) as [E0|E0]; cbn [negb andb]; [reflexivity|].
      destruct (N.eqb_spec (c_src cd) c) as [Ec|Ec]; cbn [andb].
      - destruct (N.eqb_spec (m_sender m) s) as [Es|Es].
        + rewrite Ec, Es. unfold eff. destruct (nlookup c s nonces) as [on|] eqn:Eon; [|split; reflexivity].
          destruct (nlookup c s exp) as [e|] eqn:Ee.
          * destruct (N.eqb_spec (m_nonce m) e) as [En|En]; cbn [negb]; split; try reflexivity;
              now rewrite !nlookup_nupdate_same.
          * destruct (N.eqb_spec (m_nonce m) (add64 on 1)) as [En|En]; cbn [negb]; split; try reflexivity;
              now rewrite !nlookup_nupdate_same.
        + destruct (nlookup (c_src cd) (m_sender m) nonces) as [on|]; [|reflexivity].
          assert (Hne : (c, s) <> (c_src cd, m_sender m)) by (intros H; inversion H; congruence).
          destruct (negb _); unfold eff; rewrite ?(nlookup_nupdate_other _ _ _ _ _ _ Hne); reflexivity.
      - destruct (nlookup (c_src cd) (m_sender m) nonces) as [on|]; [|reflexivity].
        assert (Hne : (c, s) <> (c_src cd, m_sender m)) by (intros H; inversion H; congruence).
        destruct (negb _); unfold eff; rewrite ?(nlookup_nupdate_other _ _ _ _ _ _ Hne); reflexivity.
    Qed.

    Lemma check_message_eff exp i m exp1 rdy :
      check_message nonces exp cd i m = Ok (exp1, rdy) ->
      (rdy = true -> m_nonce m = 0%N \/ advances nonces exp cd i m = true) /\
      (advances nonces exp cd i m = true -> m_nonce m <> 0%N /\ rdy = true) /\
      (if advances nonces exp cd i m && key m
       then exists e, eff c s exp = Some e /\ m_nonce m = e /\ eff c s exp1 = Some (add64 e 1)
       else eff c s exp1 = eff c s exp).
    Proof.
      unfold check_message, advances.
      destruct (memN (m_seq m) (c_exec cd)); cbn [negb andb].
      { intros H; inversion H; subst. repeat split; try discriminate. }
      destruct (nth_error (c_td cd) i) as [td|]; [|discriminate].
      destruct (td_ready td); cbn [negb andb].
      2:{ intros H; inversion H; subst. repeat split; try discriminate. }
      destruct (memN (m_id m) (c_costly cd)); cbn [negb andb].
      { intros H; inversion H; subst. repeat split; try discriminate. }
      pose proof (check_nonce_eff exp m) as Hn.
      destruct (check_nonce nonces exp cd m) as [e1 okn]. cbn [snd].
      assert (Hcore : exp1 = e1 -> rdy = okn ->
        (rdy = true -> m_nonce m = 0%N \/ negb (N.eqb (m_nonce m) 0) && okn = true) /\
        (negb (N.eqb (m_nonce m) 0) && okn = true -> m_nonce m <> 0%N /\ rdy = true) /\
        (if negb (N.eqb (m_nonce m) 0) && okn && key m
         then exists e, eff c s exp = Some e /\ m_nonce m = e /\ eff c s exp1 = Some (add64 e 1)
         else eff c s exp1 = eff c s exp)).
      { intros -> Hrdy. split; [|split].
        - intros ->. subst okn.
          destruct (N.eqb_spec (m_nonce m) 0); [now left|now right].
        - destruct (N.eqb_spec (m_nonce m) 0); [discriminate|]. cbn [negb andb]. intros ->. auto.
        - destruct (key m) eqn:Ek.
          + assert (Hnz : N.eqb (m_nonce m) 0 = false).
            { unfold key in Ek. destruct (N.eqb (m_nonce m) 0); [discriminate|reflexivity]. }
            rewrite Hnz. cbn [negb andb]. rewrite andb_true_r.
            destruct (eff c s exp) as [e|].
            * destruct Hn as [H1 H2]. destruct okn.
              -- exists e. split; [reflexivity|]. symmetry in H1. apply N.eqb_eq in H1. auto.
              -- exact H2.
            * destruct Hn as [H1 H2]. subst okn. exact H2.
          + rewrite andb_false_r. exact Hn. }
      destruct okn; cbn [negb]; intros H; inversion H; subst; apply Hcore; auto.
    Qed.

    (* the checkMessage pass over a suffix of the messages *)
    Lemma check_all_eff : forall ms pre exp exp' ready,
      c_msgs cd = pre ++ ms ->
      CheckAll exp cd (length pre) ms = Ok (exp', ready) ->
      let A := adv_all nonces exp cd (length pre) ms in
      asc A /\ (forall i, In i A -> length pre <= i) /\
      (forall i, In i ready -> In i A \/ exists m, nth_error (c_msgs cd) i = Some m /\ m_nonce m = 0%N) /\
      (forall i, In i A -> exists m, nth_error (c_msgs cd) i = Some m /\ m_nonce m <> 0%N) /\
      (forall i, In i A -> In i ready) /\
      let mine := filter key (select (c_msgs cd) A) in
      match eff c s exp with
      | Some e => map m_nonce mine = iota64 e (length mine) /\ eff c s exp' = Some (iter64 e (length mine))
      | None => mine = [] /\ eff c s exp' = None
      end.
    Proof.
      induction ms as [|m ms IH]; intros pre exp exp' ready Hm Hc.
      - cbn in Hc. inversion Hc; subst. cbn [adv_all]. cbn zeta.
        split; [constructor|]. split; [intros i []|]. split; [intros i []|]. split; [intros i []|].
        split; [intros i []|].
        cbn. destruct (eff c s exp'); split; reflexivity.
      - cbn [check_all] in Hc. cbn [adv_all].
        destruct (check_message nonces exp cd (length pre) m) as [[exp1 rdy]| | |] eqn:E1; try discriminate.
        cbn [rbind fst snd] in Hc.
        assert (Hm' : c_msgs cd = (pre ++ [m]) ++ ms) by (rewrite <- app_assoc; exact Hm).
        assert (Hl : length (pre ++ [m]) = S (length pre)) by (rewrite app_length; cbn; lia).
        destruct (CheckAll exp1 cd (S (length pre)) ms) as [[exp2 r2]| | |] eqn:E2; try discriminate.
        cbn [rbind fst snd] in Hc. inversion Hc; subst exp' ready; clear Hc.
        rewrite <- Hl in E2. specialize (IH _ _ _ _ Hm' E2). rewrite Hl in IH. cbn zeta in IH.
        set (A' := adv_all nonces exp1 cd (S (length pre)) ms) in *.
        destruct IH as [I1 [I2 [I3 [I4 [I6 I5]]]]].
        assert (Hnth : nth_error (c_msgs cd) (length pre) = Some m).
        { rewrite Hm, nth_error_app2 by lia. now rewrite Nat.sub_diag. }
        destruct (check_message_eff _ _ _ _ _ E1) as [C1 [C2 C3]].
        cbn zeta. destruct (advances nonces exp cd (length pre) m) eqn:Ea; cbn [app].
        + (* this message advanced the expectation of its sender *)
          split; [constructor; [exact I1|rewrite Forall_forall; intros j Hj; specialize (I2 j Hj); lia]|].
          split; [intros i [<-|Hi]; [lia|specialize (I2 i Hi); lia]|].
          split.
          { intros i Hi. destruct rdy.
            - destruct Hi as [<-|Hi]; [left; now left|]. destruct (I3 i Hi) as [H|H]; [left; now right|now right].
            - destruct (I3 i Hi) as [H|H]; [left; now right|now right]. }
          split; [intros i [<-|Hi]; [exists m; split; [exact Hnth|now apply C2]|now apply I4]|].
          split.
          { destruct (C2 eq_refl) as [_ ->]. intros i [<-|Hi]; [now left|right; now apply I6]. }
          rewrite (select_cons _ _ _ _ Hnth). cbn [filter].
          cbn [andb] in C3. destruct (key m) eqn:Ek.
          * destruct C3 as [e [Ee [En Ee1]]]. rewrite Ee. rewrite Ee1 in I5. destruct I5 as [J1 J2].
            cbn [map length iota64 iter64]. split; [f_equal; [exact En|exact J1]|exact J2].
          * rewrite <- C3. exact I5.
        + split; [exact I1|]. split; [intros i Hi; specialize (I2 i Hi); lia|].
          split.
          { intros i Hi. destruct rdy.
            - destruct Hi as [<-|Hi]; [|now apply I3].
              destruct (C1 eq_refl) as [H|H]; [right; exists m; auto|discriminate].
            - now apply I3. }
          split; [exact I4|].
          split; [intros i Hi; destruct rdy; [right|]; now apply I6|].
          cbn [andb] in C3. rewrite <- C3. exact I5.
    Qed.

  End OneKey.


  Lemma filter_select_eq (P : msg -> bool) (ms : list msg) : forall l1 l2,
    asc l1 -> asc l2 -> (forall i, In i l2 -> In i l1) ->
    (forall i, In i l1 -> In i l2 \/ exists m, nth_error ms i = Some m /\ P m = false) ->
    filter P (select ms l1) = filter P (select ms l2).
  Proof.
    induction l1 as [|x l1 IH]; intros l2 H1 H2 Hsub Hcov.
    - destruct l2 as [|y l2]; [reflexivity|]. destruct (Hsub y (or_introl eq_refl)).
    - inversion H1 as [|? ? H1' Hall1]; subst. rewrite Forall_forall in Hall1.
      destruct l2 as [|y l2].
      + destruct (Hcov x (or_introl eq_refl)) as [[]|[m [Hm HP]]].
        rewrite (select_cons _ _ _ _ Hm). cbn [filter]. rewrite HP.
        apply IH; [exact H1'|constructor|intros i []|]. intros i Hi.
        destruct (Hcov i (or_intror Hi)) as [[]|H]. now right.
      + inversion H2 as [|? ? H2' Hall2]; subst. rewrite Forall_forall in Hall2.
        destruct (Nat.eq_dec x y) as [->|Hxy].
        * unfold select. cbn [flat_map]. rewrite !filter_app. f_equal.
          apply (IH l2 H1' H2').
          -- intros i Hi. destruct (Hsub i (or_intror Hi)) as [<-|H]; [|exact H]. specialize (Hall2 _ Hi). lia.
          -- intros i Hi. destruct (Hcov i (or_intror Hi)) as [[<-|H]|H]; [|now left|now right].
             specialize (Hall1 _ Hi). lia.
        * assert (Hx : ~ In x (y :: l2)).
          { intros [E|Hi]; [congruence|]. specialize (Hall2 _ Hi).
            destruct (Hsub y (or_introl eq_refl)) as [E|Hy]; [congruence|]. specialize (Hall1 _ Hy). lia. }
          destruct (Hcov x (or_introl eq_refl)) as [H|[m [Hm HP]]]; [contradiction|].
          rewrite (select_cons _ _ _ _ Hm). cbn [filter]. rewrite HP.
          apply IH; [exact H1'|exact H2| |].
          -- intros i Hi. destruct (Hsub i Hi) as [<-|H]; [contradiction|exact H].
          -- intros i Hi. apply Hcov. now right.
  Qed.

  (* Outside what is left of the F14 class after repair F14a — the size / gas fallback drops no ready sequenced
     message — the sequenced
     messages a chain report holds for a sender carry exactly the expectation in force before the Add and its
     successors, and the expectation in force afterwards is the next one; a sender without on-chain nonce gets
     nothing.  [rmsgs] are the messages of whatever this Add appended. *)
  Theorem add_nonce_order st cd st' cd' c s rmsgs :
    Add st cd = Ok (st', cd') ->
    fallback_drop hash zero leaf_hash enc_size tree_gas nonces max_size max_gas st cd = false ->
    (forall new, b_reports st' = b_reports st ++ new -> rmsgs = concat (map r_msgs new)) ->
    let mine := filter (key c s cd) rmsgs in
    match eff c s (b_exp st) with
    | Some e => map m_nonce mine = iota64 e (length mine) /\ eff c s (b_exp st') = Some (iter64 e (length mine))
    | None => mine = [] /\ eff c s (b_exp st') = None
    end.
  Proof.
    intros Ha Hleak Hnew. unfold fallback_drop, included, ready_of in Hleak. unfold add in Ha. unfold build_single in *.
    destruct (CheckAll (b_exp st) cd 0 (c_msgs cd)) as [[exp1 ready]| | |] eqn:Ec; try discriminate.
    destruct (check_all_spec cd (c_msgs cd) [] _ _ _ eq_refl Ec) as [Hs Hr].
    pose proof (check_all_eff c s cd (c_msgs cd) [] _ _ _ eq_refl Ec) as He. cbn [length] in He. cbn zeta in He.
    set (A := adv_all nonces (b_exp st) cd 0 (c_msgs cd)) in *.
    destruct He as [E1 [_ [E3 [E4 [E6 E5]]]]].
    assert (Hseq : forall i, In i A -> sequenced_at cd i = true).
    { intros i Hi. destruct (E4 i Hi) as [m [Hm Hz]]. unfold sequenced_at. rewrite Hm.
      destruct (N.eqb_spec (m_nonce m) 0); [contradiction|reflexivity]. }
    assert (Hnone : (forall i, In i A -> False) -> rmsgs = [] -> b_exp st' = exp1 ->
      match eff c s (b_exp st) with
      | Some e => map m_nonce (filter (key c s cd) rmsgs) = iota64 e (length (filter (key c s cd) rmsgs)) /\
                  eff c s (b_exp st') = Some (iter64 e (length (filter (key c s cd) rmsgs)))
      | None => filter (key c s cd) rmsgs = [] /\ eff c s (b_exp st') = None
      end).
    { intros HA -> ->. destruct A as [|a A0]; [|exfalso; apply (HA a); now left].
      cbn [select flat_map filter length map] in E5. exact E5. }
    destruct ready as [|i0 ready'].
    - inversion Ha; subst st' cd'; clear Ha. cbn [b_exp b_reports] in *.
      apply Hnone; [|apply (Hnew []); now rewrite app_nil_r|reflexivity].
      intros i Hi. destruct (E6 i Hi).
    - set (ready := i0 :: ready') in *.
      set (st1 := mkB (b_size st) (b_gas st) exp1 (b_reports st)) in *.
      destruct (Choose st1 cd ready) as [[[[idxs r] meta]|]| | |] eqn:Ech; try discriminate.
      + destruct (choose_spec st1 cd ready idxs r meta) as [H1 [H2 [H3 [H4 H5]]]]; try assumption; [discriminate|].
        unfold finalize in *. inversion Ha; subst st' cd'; clear Ha. cbn [b_exp b_reports] in *.
        assert (Hrm : rmsgs = r_msgs r).
        { rewrite (Hnew [r] eq_refl). cbn. now rewrite app_nil_r. }
        assert (Hin : forall i, In i idxs -> i < length (c_msgs cd)).
        { intros i Hi. destruct (Hr i (H3 i Hi)) as [Hi' _]. lia. }
        destruct (build_helper_spec cd idxs r H1 H2 Hin H4) as [t [pf [_ [_ [_ [_ Hrr]]]]]].
        assert (Hsel : filter (key c s cd) rmsgs = filter (key c s cd) (select (c_msgs cd) A)).
        { rewrite Hrm, Hrr. cbn [r_msgs]. apply filter_select_eq; try assumption.
          - intros i Hi. apply mem_nat_In. destruct (mem_nat i idxs) eqn:Em; [reflexivity|].
            assert (existsb (fun i => sequenced_at cd i && negb (mem_nat i idxs)) ready = true); [|congruence].
            apply existsb_exists. exists i. split; [now apply E6|]. now rewrite (Hseq i Hi), Em.
          - intros i Hi. destruct (E3 i (H3 i Hi)) as [H|[m [Hm Hz]]]; [now left|right].
            exists m. split; [exact Hm|]. unfold key. rewrite Hz. reflexivity. }
        cbn zeta. rewrite Hsel. exact E5.
      + inversion Ha; subst st' cd'; clear Ha. cbn [b_exp b_reports] in *.
        apply Hnone; [|apply (Hnew []); now rewrite app_nil_r|reflexivity].
        intros i Hi.
        assert (existsb (fun i => sequenced_at cd i && negb (mem_nat i [])) ready = true); [|congruence].
        apply existsb_exists. exists i. split; [now apply E6|]. now rewrite (Hseq i Hi).
  Qed.

End ExecReportP.

(* ---------- per-sender nonce order (specification) ----------
   Walking the messages of a chain report in order: a sequenced message (nonce <> 0) must carry exactly the next
   expected nonce of its (source chain, sender); the expectation starts right after the on-chain nonce
   (uint64 successor) and moves on by one with every sequenced message placed in a report.  [exp] carries the
   expectations across the chain reports of one outcome.  None = order violated. *)
Fixpoint nonce_run (nonces exp : nmap) (src : N) (ms : list msg) : option nmap :=
  match ms with
  | [] => Some exp
  | m :: ms' =>
      if N.eqb (m_nonce m) 0 then nonce_run nonces exp src ms'
      else match nlookup src (m_sender m) nonces with
           | None => None
           | Some onchain =>
               let e := match nlookup src (m_sender m) exp with Some e => e | None => add64 onchain 1 end in
               if N.eqb (m_nonce m) e then nonce_run nonces (nupdate src (m_sender m) (add64 e 1) exp) src ms'
               else None
           end
  end.
Fixpoint nonce_run_reports (nonces exp : nmap) (rs : list creport) : option nmap :=
  match rs with
  | [] => Some exp
  | r :: rs' => match nonce_run nonces exp (r_src r) (r_msgs r) with
                | Some exp1 => nonce_run_reports nonces exp1 rs'
                | None => None
                end
  end.

(* ---------- F14: the nonce-order clause is false of the code as it is (fallback half) and was false in a second
   way before repair F14a (costly half) ---------- *)
Module F14.
  Definition h (a b : N) : N := (N.min a b * 1000 + N.max a b + 7)%N.
  Definition leaf (m : msg) : option N := Some (m_id m).
  Definition enc (r : creport) : option N := Some (fold_left (fun a m => a + m_size m)%N (r_msgs r) 10%N).
  Definition tg (n : N) : N := n.
  Definition nonces : nmap := [((1, 77), 0)]%N.
  Definition m1 := mkMsg 101 1 1 1 77 20 5.
  Definition m2 := mkMsg 102 1 2 2 77 20 5.
  Definition m3 := mkMsg 103 1 3 3 77 20 5.
  Definition root := h (h 101 102) (h 103 999).
  Definition td : list tokdata := [[]; []; []].
  (* (a) message 2 is flagged too costly *)
  Definition cd_a := mkCD 1 root 1 3 [] [m1; m2; m3] [102%N] td.
  (* (b) nobody is costly, but message 2 is too large for the remaining size budget *)
  Definition m2big := mkMsg 102 1 2 2 77 500 5.
  Definition cd_b := mkCD 1 root 1 3 [] [m1; m2big; m3] [] td.
  Definition add_a := add_unfixed h 999 leaf enc tg nonces 1000 1000 b_init cd_a.
  Definition add_a_fixed := add h 999 leaf enc tg nonces 1000 1000 b_init cd_a.
  Definition add_b := add h 999 leaf enc tg nonces 100 1000 b_init cd_b.
End F14.

(* before repair F14a (costly test after the nonce check): a too-costly message advanced the expected nonce and its
   successor was reported *)
Theorem nonce_order_costly_unfixed_refuted :
  exists hash zero leaf enc tg nonces max_size max_gas cd st' cd' r,
    add_unfixed hash zero leaf enc tg nonces max_size max_gas b_init cd = Ok (st', cd') /\
    build st' = [r] /\ map m_nonce (r_msgs r) = [1; 3]%N /\
    nlookup (c_src cd) 77 nonces = Some 0%N /\
    nonce_run_reports nonces [] (build st') = None.
Proof.
  exists F14.h, 999%N, F14.leaf, F14.enc, F14.tg, F14.nonces, 1000%N, 1000%N, F14.cd_a.
  destruct F14.add_a as [[st' cd']| | |] eqn:E; try (vm_compute in E; discriminate).
  exists st', cd'. vm_compute in E. inversion E; subst.
  eexists. split; [reflexivity|]. split; [reflexivity|]. split; [reflexivity|]. split; reflexivity.
Qed.

(* the same input on the repaired code: only nonce 1 is reported, nonce 3 waits for the costly nonce 2 *)
Example nonce_order_costly_repaired :
  exists st' cd' r,
    F14.add_a_fixed = Ok (st', cd') /\ build st' = [r] /\ map m_nonce (r_msgs r) = [1]%N /\
    nonce_run_reports F14.nonces [] (build st') = Some [((1, 77), 2)]%N /\
    fallback_drop F14.h 999 F14.leaf F14.enc F14.tg F14.nonces 1000 1000 b_init F14.cd_a = false.
Proof.
  destruct F14.add_a_fixed as [[st' cd']| | |] eqn:E; try (vm_compute in E; discriminate).
  exists st', cd'. vm_compute in E. inversion E; subst.
  eexists. split; [reflexivity|]. split; [reflexivity|]. split; [reflexivity|]. split; vm_compute; reflexivity.
Qed.

Theorem nonce_order_refuted_fallback :
  exists hash zero leaf enc tg nonces max_size max_gas cd st' cd' r,
    c_costly cd = [] /\
    add hash zero leaf enc tg nonces max_size max_gas b_init cd = Ok (st', cd') /\
    build st' = [r] /\ map m_nonce (r_msgs r) = [1; 3]%N /\
    nlookup (c_src cd) 77 nonces = Some 0%N /\
    nonce_run_reports nonces [] (build st') = None.
Proof.
  exists F14.h, 999%N, F14.leaf, F14.enc, F14.tg, F14.nonces, 100%N, 1000%N, F14.cd_b.
  destruct F14.add_b as [[st' cd']| | |] eqn:E; try (vm_compute in E; discriminate).
  exists st', cd'. vm_compute in E. inversion E; subst.
  eexists. split; [reflexivity|]. split; [reflexivity|]. split; [reflexivity|]. split; [reflexivity|]. split; reflexivity.
Qed.

(* ---------- non-vacuity of the hypotheses used above ---------- *)
Lemma F14_h_comm : forall a b, F14.h a b = F14.h b a.
Proof. intros a b. unfold F14.h. now rewrite N.min_comm, N.max_comm. Qed.

(* a commit report whose three sequenced messages are all eligible and fit: outside the F14 class, a report with
   nonces 1,2,3 is appended, re-verifies to the committed root, budgets and executed set are updated *)
Example add_example :
  let cd := mkCD 1 F14.root 1 3 [] [F14.m1; F14.m2; F14.m3] [] F14.td in
  exists st' cd' r,
    add F14.h 999 F14.leaf F14.enc F14.tg F14.nonces 1000 1000 b_init cd = Ok (st', cd') /\
    fallback_drop F14.h 999 F14.leaf F14.enc F14.tg F14.nonces 1000 1000 b_init cd = false /\
    b_reports st' = b_reports b_init ++ [r] /\ map m_nonce (r_msgs r) = [1; 2; 3]%N /\
    c_exec cd' = [1; 2; 3]%N /\ (b_size st', b_gas st') = (70, 18)%N /\
    budget_inv F14.enc F14.tg 1000 1000 st' /\
    verify F14.h (map m_id (r_msgs r)) (r_proofs r)
           (flags_to_bools (r_flags r) (length (r_msgs r) + length (r_proofs r) - 1)) = Ok F14.root /\
    eff F14.nonces 1 77 (b_exp b_init) = Some 1%N /\ eff F14.nonces 1 77 (b_exp st') = Some 4%N.
Proof.
  cbv zeta.
  destruct (add F14.h 999 F14.leaf F14.enc F14.tg F14.nonces 1000 1000 b_init
              (mkCD 1 F14.root 1 3 [] [F14.m1; F14.m2; F14.m3] [] F14.td)) as [[st' cd']| | |] eqn:E;
    try (vm_compute in E; discriminate).
  vm_compute in E. inversion E; subst. eexists. eexists. eexists.
  split; [reflexivity|]. split; [vm_compute; reflexivity|]. split; [reflexivity|].
  split; [reflexivity|]. split; [reflexivity|]. split; [reflexivity|].
  split; [unfold budget_inv; vm_compute; repeat split; discriminate|].
  split; vm_compute; auto.
Qed.

(* commit data with a wrong committed root: no report, commit data returned unchanged (hypothesis of add_bad_root) *)
Example add_bad_root_example :
  let cd := mkCD 1 12345 1 3 [] [F14.m1; F14.m2; F14.m3] [] F14.td in
  (forall t, construct_tree F14.h 999 F14.leaf cd = Ok t -> troot 999%N t <> c_root cd) /\
  add F14.h 999 F14.leaf F14.enc F14.tg F14.nonces 1000 1000 b_init cd = Err.
Proof.
  cbv zeta. split; [|vm_compute; reflexivity].
  intros t Ht. vm_compute in Ht. inversion Ht; subst. vm_compute. discriminate.
Qed.

(* the fallback witness lies inside the recorded class, the repaired costly input outside *)
Example fallback_witness_in_class :
  fallback_drop F14.h 999 F14.leaf F14.enc F14.tg F14.nonces 100 1000 b_init F14.cd_b = true.
Proof. vm_compute. reflexivity. Qed.

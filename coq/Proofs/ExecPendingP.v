(* ExecPendingP.v — theorems about computeRanges / filterOutExecutedMessages / getPendingExecutedReports (C09). *)
Require Import Verif.Model.Base Verif.Proofs.BaseP Verif.Model.ExecPending.
From Coq Require Import ZifyN ZifyNat ZifyBool.
Ltac Zify.zify_post_hook ::= Z.div_mod_to_equations.

Local Open Scope N_scope.

(* ---------- vocabulary ---------- *)
Definition in_range (e : range) (s : N) : Prop := fst e <= s <= snd e.
Definition in_union (es : list range) (s : N) : Prop := exists e, In e es /\ in_range e s.
Definition in_runs (runs : list range) (s : N) : Prop := exists r, In r runs /\ in_range r s.
(* ascending runs without repeats: each run non-empty, the next one starts above the previous end *)
Fixpoint runs_above (prev : N) (runs : list range) : Prop :=
  match runs with
  | [] => True
  | (a, b) :: rest => prev < a /\ a <= b /\ runs_above b rest
  end.
Definition strict_runs (runs : list range) : Prop :=
  match runs with
  | [] => True
  | (a, b) :: rest => a <= b /\ runs_above b rest
  end.
(* report layout: non-empty intervals, ascending, pairwise disjoint *)
Fixpoint layout (rs : list rep) : Prop :=
  match rs with
  | [] => True
  | r :: rest => p_lo r <= p_hi r /\ match rest with [] => True | r2 :: _ => p_hi r < p_lo r2 end /\ layout rest
  end.
(* executed ranges as the reader may legally give them, after sorting by start: well formed, below 2^64-1, each
   starting at or after the end of the previous one *)
Fixpoint chain_from (prev : N) (es : list range) : Prop :=
  match es with
  | [] => True
  | e :: rest => prev <= fst e /\ fst e <= snd e /\ snd e < max64 /\ chain_from (snd e) rest
  end.
Definition all_executed (es : list range) (r : rep) : Prop :=
  forall s, p_lo r <= s <= p_hi r -> in_union es s.

(* ---------- the per-report description of what the loops compute ---------- *)
Definition clipr (r : rep) (e : range) : list range :=
  let a := N.max (fst e) (p_lo r) in let b := N.min (snd e) (p_hi r) in if N.leb a b then [(a, b)] else [].
Definition runs_of (es : list range) (r : rep) : list range := flat_map (clipr r) es.
Definition acc (es : list range) (r : rep) : rep := mkRep (p_id r) (p_lo r) (p_hi r) (p_exec r ++ runs_of es r).
Definition covers (r : rep) (e : range) : bool := N.leb (fst e) (p_lo r) && N.leb (p_hi r) (snd e).
Definition single_cover (es : list range) (r : rep) : bool := existsb (covers r) es.
Definition loops_spec (rs : list rep) (es : list range) : list rep :=
  flat_map (fun r => if single_cover es r then [] else [acc es r]) rs.

Lemma runs_of_app es1 es2 r : runs_of (es1 ++ es2) r = runs_of es1 r ++ runs_of es2 r.
Proof. unfold runs_of. apply flat_map_app. Qed.

Lemma acc_snoc_nil es e r : clipr r e = [] -> acc (es ++ [e]) r = acc es r.
Proof. intros H. unfold acc. rewrite runs_of_app. unfold runs_of at 2. cbn [flat_map]. rewrite H. now rewrite !app_nil_r. Qed.

Lemma acc_snoc_run es e r run : clipr r e = [run] -> acc (es ++ [e]) r = add_run (acc es r) run.
Proof.
  intros H. unfold acc, add_run. cbn [p_id p_lo p_hi p_exec]. rewrite runs_of_app. unfold runs_of at 2.
  cbn [flat_map]. rewrite H. rewrite app_nil_r. now rewrite app_assoc.
Qed.

Lemma single_cover_snoc es e r : single_cover (es ++ [e]) r = single_cover es r || covers r e.
Proof. unfold single_cover. rewrite existsb_app. cbn [existsb]. now rewrite orb_false_r. Qed.

Lemma loops_spec_snoc_rep rs r es :
  loops_spec (rs ++ [r]) es = loops_spec rs es ++ (if single_cover es r then [] else [acc es r]).
Proof. unfold loops_spec. rewrite flat_map_app. cbn [flat_map]. now rewrite app_nil_r. Qed.

(* ---------- list surgery ---------- *)
Lemma skipn_nth_error {A} (l : list A) i x : nth_error l i = Some x -> skipn i l = x :: skipn (S i) l.
Proof.
  revert i. induction l as [|a l IH]; intros [|i] H; cbn in *; try discriminate.
  - now inversion H.
  - now apply IH.
Qed.

Lemma firstn_S_nth_error {A} (l : list A) i x : nth_error l i = Some x -> firstn (S i) l = firstn i l ++ [x].
Proof.
  revert i. induction l as [|a l IH]; intros [|i] H; cbn in *; try discriminate.
  - now inversion H.
  - f_equal. now apply IH.
Qed.

Lemma skipn_cons_nth_error {A} (l : list A) i x t : skipn i l = x :: t -> nth_error l i = Some x.
Proof.
  revert l. induction i as [|i IH]; intros [|a l] H; cbn in *; try discriminate; [now inversion H|now apply IH].
Qed.

Lemma nth_error_in_skipn {A} (l : list A) i x : nth_error l i = Some x -> In x (skipn i l).
Proof. intros H. rewrite (skipn_nth_error l i x H). now left. Qed.

Lemma upd_length i r l : (i < length l)%nat -> length (upd i r l) = length l.
Proof.
  intros H. unfold upd. rewrite app_length, firstn_length. cbn [length]. rewrite skipn_length. lia.
Qed.

Lemma skipn_upd_S i r l : (i < length l)%nat -> skipn (S i) (upd i r l) = skipn (S i) l.
Proof.
  intros H. unfold upd.
  assert (E : S i = (length (firstn i l) + 1)%nat) by (rewrite firstn_length; lia).
  rewrite E at 1. rewrite skipn_app. rewrite skipn_all2 by lia.
  replace (length (firstn i l) + 1 - length (firstn i l))%nat with 1%nat by lia. reflexivity.
Qed.

Lemma skipn_upd i r l : (i < length l)%nat -> skipn i (upd i r l) = r :: skipn (S i) l.
Proof.
  intros H. unfold upd.
  assert (E : i = (length (firstn i l) + 0)%nat) by (rewrite firstn_length; lia).
  rewrite E at 1. rewrite skipn_app. rewrite skipn_all2 by lia.
  replace (length (firstn i l) + 0 - length (firstn i l))%nat with 0%nat by lia. reflexivity.
Qed.

(* ---------- facts about layouts ---------- *)
Lemma layout_skipn rs i : layout rs -> layout (skipn i rs).
Proof.
  revert rs. induction i as [|i IH]; intros rs H; [exact H|]. destruct rs as [|r rs]; [exact I|].
  cbn [skipn]. apply IH. cbn [layout] in H. tauto.
Qed.

(* in a layout everything after the head starts above the head's end *)
Lemma layout_head_lt r rest : layout (r :: rest) -> forall r2, In r2 rest -> p_hi r < p_lo r2 /\ p_lo r2 <= p_hi r2.
Proof.
  revert r. induction rest as [|x rest IH]; intros r H r2 Hi; [contradiction|].
  cbn [layout] in H. destruct H as [H1 [H2 [H3 [H4 H5]]]].
  destruct Hi as [<-|Hi]; [lia|].
  assert (L : layout (x :: rest)) by (cbn [layout]; tauto).
  destruct (IH x L r2 Hi). lia.
Qed.

Lemma clipr_empty_before r e : snd e < p_lo r -> clipr r e = [].
Proof. intros H. unfold clipr. destruct (N.leb_spec (N.max (fst e) (p_lo r)) (N.min (snd e) (p_hi r))); [lia|reflexivity]. Qed.
Lemma clipr_empty_after r e : p_hi r < fst e -> clipr r e = [].
Proof. intros H. unfold clipr. destruct (N.leb_spec (N.max (fst e) (p_lo r)) (N.min (snd e) (p_hi r))); [lia|reflexivity]. Qed.
Lemma clipr_acc es r e : clipr (acc es r) e = clipr r e.
Proof. reflexivity. Qed.

(* ---------- the inner loop ---------- *)
Section Inner.
  Variable rs : list rep.            (* the sorted reports as given *)
  Hypothesis Hlay : layout rs.
  Variable done : list range.        (* executed ranges already processed *)
  Variable e : range.                (* the one being processed *)
  Hypothesis He : fst e <= snd e /\ snd e < max64.

  Let n := length rs.

  (* nothing at or after index i intersects e's predecessors' leftovers; state before touching index i *)
  Definition inner_inv (i : nat) (st : fstate) : Prop :=
    fs_idx st = i /\ length (fs_reports st) = n /\ (i <= n)%nat /\
    skipn i (fs_reports st) = map (acc done) (skipn i rs) /\
    fs_out st = loops_spec (firstn i rs) (done ++ [e]) /\
    (forall r, In r (skipn i rs) -> single_cover done r = false).

  (* state after e has been processed completely: first unfinished report is at idx *)
  Definition outer_inv (es : list range) (bound : N) (st : fstate) : Prop :=
    length (fs_reports st) = n /\ (fs_idx st <= n)%nat /\
    skipn (fs_idx st) (fs_reports st) = map (acc es) (skipn (fs_idx st) rs) /\
    fs_out st = loops_spec (firstn (fs_idx st) rs) es /\
    (forall r, In r (skipn (fs_idx st) rs) -> single_cover es r = false) /\
    (forall r, In r (firstn (fs_idx st) rs) -> single_cover es r = true \/ p_hi r < bound) /\
    (forall r, nth_error rs (fs_idx st) = Some r -> bound <= p_hi r).

  Lemma inner_stops k i st :
    (forall r, nth_error (fs_reports st) i = Some r -> snd e < p_lo r) ->
    inner e k i st = Ok st.
  Proof.
    intros H. destruct k as [|k]; [reflexivity|]. cbn [inner].
    destruct (nth_error (fs_reports st) i) as [r|] eqn:E; [|reflexivity].
    specialize (H r eq_refl). unfold r_end. destruct (N.ltb_spec (snd e) (p_lo r)); [reflexivity|lia].
  Qed.

  Lemma inner_correct k : forall i st,
    k = (n - i)%nat -> inner_inv i st ->
    (forall r, In r (firstn i rs) -> single_cover (done ++ [e]) r = true \/ p_hi r < snd e) ->
    exists st', inner e k i st = Ok st' /\ outer_inv (done ++ [e]) (snd e) st'.
  Proof.
    induction k as [|k IH]; intros i st Hk [Hidx [Hlen [Hin [Hsk [Hout Hnc]]]]] Hfin.
    - (* no report left *)
      assert (Ei : i = n) by lia. exists st. split; [reflexivity|].
      unfold outer_inv. rewrite Hidx. rewrite Ei in *. repeat split; try assumption; try lia.
      + rewrite Hsk. unfold n. rewrite !skipn_all. reflexivity.
      + unfold n. rewrite skipn_all. intros r [].
      + intros r Hn. assert (nth_error rs n <> None) by congruence. apply nth_error_Some in H. unfold n in H. lia.
    - assert (Hi : (i < n)%nat) by lia.
      destruct (nth_error rs i) as [r0|] eqn:Er; [|apply nth_error_None in Er; unfold n in Hi; lia].
      pose proof (skipn_nth_error rs i r0 Er) as Esk.
      assert (Est : nth_error (fs_reports st) i = Some (acc done r0)).
      { assert (E1 : skipn i (fs_reports st) = acc done r0 :: map (acc done) (skipn (S i) rs)).
        { rewrite Hsk, Esk. reflexivity. }
        eapply skipn_cons_nth_error. exact E1. }
      assert (E2 : skipn (S i) (fs_reports st) = map (acc done) (skipn (S i) rs)).
      { pose proof Hsk as Hsk'. rewrite (skipn_nth_error _ i _ Est), Esk in Hsk'. cbn [map] in Hsk'. now inversion Hsk'. }
      assert (Hlay' : layout (r0 :: skipn (S i) rs)) by (rewrite <- Esk; now apply layout_skipn).
      assert (Hr0 : p_lo r0 <= p_hi r0) by (cbn [layout] in Hlay'; tauto).
      assert (Hlater : forall r2, In r2 (skipn (S i) rs) -> p_hi r0 < p_lo r2 /\ p_lo r2 <= p_hi r2)
        by (apply layout_head_lt; exact Hlay').
      assert (Hnc0 : single_cover done r0 = false) by (apply Hnc; rewrite Esk; now left).
      assert (Hfs : firstn (S i) rs = firstn i rs ++ [r0]) by (now apply firstn_S_nth_error).
      cbn [inner]. rewrite Est. unfold r_end, r_start. cbn [p_lo p_hi acc].
      destruct (N.ltb_spec (snd e) (p_lo r0)) as [Hbrk|Hnb].
      { (* break: e lies before report i *)
        exists st. split; [reflexivity|]. unfold outer_inv. rewrite Hidx.
        repeat split; try assumption; try lia.
        - rewrite Hsk. apply map_ext_in. intros r Hr. symmetry. apply acc_snoc_nil. apply clipr_empty_before.
          rewrite Esk in Hr. destruct Hr as [<-|Hr]; [exact Hbrk|]. destruct (Hlater r Hr). lia.
        - intros r Hr. rewrite single_cover_snoc, (Hnc r Hr). cbn [orb]. unfold covers.
          rewrite Esk in Hr. destruct Hr as [<-|Hr].
          + destruct (N.leb_spec (p_hi r0) (snd e)); [lia|]. now rewrite andb_false_r.
          + destruct (Hlater r Hr). destruct (N.leb_spec (p_hi r) (snd e)); [lia|]. now rewrite andb_false_r.
        - intros r Hn. rewrite Er in Hn. inversion Hn; subst r. lia. }
      destruct (N.leb (fst e) (p_lo r0) && N.leb (p_hi r0) (snd e)) eqn:Ecov.
      { (* fully executed by e: skipped *)
        apply andb_prop in Ecov. destruct Ecov as [Ec1 Ec2]. apply N.leb_le in Ec1, Ec2.
        apply (IH (S i)); [lia| |].
        - unfold inner_inv. cbn [fs_idx fs_reports fs_out]. rewrite Hidx.
          repeat split; try assumption; try lia.
          + rewrite Hfs, loops_spec_snoc_rep, <- Hout. rewrite single_cover_snoc. unfold covers at 1.
            destruct (N.leb_spec (fst e) (p_lo r0)); [|lia]. destruct (N.leb_spec (p_hi r0) (snd e)); [|lia].
            cbn [andb]. rewrite orb_true_r. now rewrite app_nil_r.
          + intros r Hr. apply Hnc. rewrite Esk. now right.
        - intros r Hr. rewrite Hfs in Hr. apply in_app_or in Hr. destruct Hr as [Hr|[<-|[]]]; [now apply Hfin|].
          left. rewrite single_cover_snoc. unfold covers.
          destruct (N.leb_spec (fst e) (p_lo r0)); [|lia]. destruct (N.leb_spec (p_hi r0) (snd e)); [|lia].
          now rewrite orb_true_r. }
      (* partial *)
      assert (Hncov : covers r0 e = false) by exact Ecov.
      destruct (N.ltb_spec (snd e) (N.max (fst e) (p_lo r0))) as [Himp|Hs0]; [lia|].
      destruct (N.ltb_spec (p_hi r0) (N.max (fst e) (p_lo r0))) as [Hpast|Hins].
      { (* e starts after the report: finalised as it is *)
        assert (Hst : p_hi r0 < fst e) by lia.
        apply (IH (S i)); [lia| |].
        - unfold inner_inv. cbn [fs_idx fs_reports fs_out]. rewrite Hidx.
          repeat split; try assumption; try lia.
          + rewrite Hfs, loops_spec_snoc_rep, <- Hout. rewrite single_cover_snoc, Hnc0, Hncov. cbn [orb].
            rewrite acc_snoc_nil by (now apply clipr_empty_after). reflexivity.
          + intros r Hr. apply Hnc. rewrite Esk. now right.
        - intros r Hr. rewrite Hfs in Hr. apply in_app_or in Hr. destruct Hr as [Hr|[<-|[]]]; [now apply Hfin|].
          right. lia. }
      destruct (N.ltb_spec (p_hi r0) (snd e)) as [Hrun|Hend].
      { (* executed up to the end of the report, e runs on *)
        assert (Hclip : clipr r0 e = [(N.max (fst e) (p_lo r0), p_hi r0)]).
        { unfold clipr. replace (N.min (snd e) (p_hi r0)) with (p_hi r0) by lia.
          destruct (N.leb_spec (N.max (fst e) (p_lo r0)) (p_hi r0)); [reflexivity|lia]. }
        apply (IH (S i)); [lia| |].
        - unfold inner_inv. cbn [fs_idx fs_reports fs_out]. rewrite Hidx.
          assert (Hil : (i < length (fs_reports st))%nat) by lia.
          repeat split; try lia.
          + now rewrite upd_length.
          + rewrite skipn_upd_S by exact Hil. exact E2.
          + rewrite Hfs, loops_spec_snoc_rep, <- Hout. rewrite single_cover_snoc, Hnc0, Hncov. cbn [orb].
            now rewrite (acc_snoc_run done e r0 _ Hclip).
          + intros r Hr. apply Hnc. rewrite Esk. now right.
        - intros r Hr. rewrite Hfs in Hr. apply in_app_or in Hr. destruct Hr as [Hr|[<-|[]]]; [now apply Hfin|].
          right. exact Hrun. }
      (* e ends inside the report: the report stays open *)
      destruct (N.eqb_spec (snd e) max64) as [Hmax|_]; [lia|].
      assert (Hclip : clipr r0 e = [(N.max (fst e) (p_lo r0), snd e)]).
      { unfold clipr. replace (N.min (snd e) (p_hi r0)) with (snd e) by lia.
        destruct (N.leb_spec (N.max (fst e) (p_lo r0)) (snd e)); [reflexivity|lia]. }
      set (r' := add_run (acc done r0) (N.max (fst e) (p_lo r0), snd e)).
      set (st' := mkFS (upd i r' (fs_reports st)) (fs_idx st) (fs_out st)).
      assert (Hil : (i < length (fs_reports st))%nat) by lia.
      exists st'. split.
      { apply inner_stops. intros r Hn. unfold st' in Hn. cbn [fs_reports] in Hn.
        assert (Hr : In r (skipn (S i) (fs_reports st))).
        { rewrite <- (skipn_upd_S i r' _ Hil). now apply nth_error_in_skipn. }
        rewrite E2 in Hr. apply in_map_iff in Hr. destruct Hr as [r2 [<- Hr2]]. cbn [acc p_lo].
        destruct (Hlater r2 Hr2). lia. }
      unfold outer_inv, st'. cbn [fs_idx fs_reports fs_out]. rewrite Hidx.
      repeat split; try lia.
      + now rewrite upd_length.
      + rewrite skipn_upd by exact Hil. rewrite Esk. cbn [map]. f_equal.
        * unfold r'. symmetry. now apply acc_snoc_run.
        * rewrite E2. apply map_ext_in. intros r Hr. symmetry.
          apply acc_snoc_nil. apply clipr_empty_before. destruct (Hlater r Hr). lia.
      + exact Hout.
      + intros r Hr. rewrite single_cover_snoc, (Hnc r Hr). cbn [orb]. rewrite Esk in Hr. destruct Hr as [<-|Hr]; [exact Hncov|].
        unfold covers. destruct (Hlater r Hr). destruct (N.leb_spec (p_hi r) (snd e)); [lia|]. now rewrite andb_false_r.
      + exact Hfin.
      + intros r Hn. rewrite Er in Hn. inversion Hn; subst r. exact Hend.
  Qed.
End Inner.

(* ---------- the outer loop ---------- *)
Lemma acc_nil r : acc [] r = r.
Proof. destruct r as [i l h x]. unfold acc, runs_of. cbn. now rewrite app_nil_r. Qed.

Lemma loops_spec_app rs1 rs2 es : loops_spec (rs1 ++ rs2) es = loops_spec rs1 es ++ loops_spec rs2 es.
Proof. unfold loops_spec. apply flat_map_app. Qed.

Lemma loops_spec_uncovered rs es :
  (forall r, In r rs -> single_cover es r = false) -> loops_spec rs es = map (acc es) rs.
Proof.
  induction rs as [|r rs IH]; intros H; [reflexivity|]. unfold loops_spec in *. cbn [flat_map map].
  rewrite (H r (or_introl eq_refl)). cbn [app]. f_equal. apply IH. intros; apply H; now right.
Qed.

Lemma loops_spec_snoc_range rs es e bound :
  bound <= fst e ->
  (forall r, In r rs -> p_lo r <= p_hi r) ->
  (forall r, In r rs -> single_cover es r = true \/ p_hi r < bound) ->
  loops_spec rs (es ++ [e]) = loops_spec rs es.
Proof.
  intros Hb. induction rs as [|r rs IH]; intros Hw H; [reflexivity|]. unfold loops_spec in *. cbn [flat_map].
  rewrite IH by (intros; try apply Hw; try apply H; now right). f_equal. rewrite single_cover_snoc.
  destruct (H r (or_introl eq_refl)) as [Hc|Hp].
  - now rewrite Hc.
  - specialize (Hw r (or_introl eq_refl)).
    assert (Hcv : covers r e = false).
    { unfold covers. destruct (N.leb_spec (fst e) (p_lo r)); [|reflexivity].
      destruct (N.leb_spec (p_hi r) (snd e)); [lia|reflexivity]. }
    rewrite Hcv, orb_false_r. destruct (single_cover es r); [reflexivity|].
    rewrite acc_snoc_nil; [reflexivity|]. apply clipr_empty_after. lia.
Qed.

Lemma layout_wf rs : layout rs -> forall r, In r rs -> p_lo r <= p_hi r.
Proof.
  induction rs as [|a rs IH]; intros H r Hi; [contradiction|]. cbn [layout] in H.
  destruct Hi as [<-|Hi]; [tauto|]. apply IH; tauto.
Qed.

Lemma in_firstn {A} (l : list A) i x : In x (firstn i l) -> In x l.
Proof. intros H. rewrite <- (firstn_skipn i l). apply in_or_app. now left. Qed.

Lemma outer_correct rs : layout rs -> forall es done bound st,
  chain_from bound es -> outer_inv rs done bound st ->
  exists st' bound', outer es st = Ok st' /\ outer_inv rs (done ++ es) bound' st'.
Proof.
  intros Hlay. induction es as [|e es IH]; intros done bound st Hch Hinv.
  - exists st, bound. rewrite app_nil_r. now split.
  - cbn [chain_from] in Hch. destruct Hch as [Hb [Hw [Hm Hch]]].
    destruct Hinv as [Hlen [Hin [Hsk [Hout [Hnc [Hfin Hnext]]]]]].
    cbn [outer].
    destruct (inner_correct rs Hlay done e (conj Hw Hm) (length (fs_reports st) - fs_idx st) (fs_idx st) st) as [st1 [E1 Hinv1]].
    + now rewrite Hlen.
    + unfold inner_inv. repeat split; try assumption.
      rewrite Hout. symmetry. apply (loops_spec_snoc_range _ _ _ bound); [exact Hb| |exact Hfin].
      intros r Hr. apply (layout_wf rs Hlay). eapply in_firstn; exact Hr.
    + intros r Hr. destruct (Hfin r Hr) as [Hc|Hp]; [left|right; lia].
      rewrite single_cover_snoc, Hc. reflexivity.
    + rewrite E1. cbn [rbind]. destruct (IH (done ++ [e]) (snd e) st1 Hch Hinv1) as [st' [b' [E' Hinv']]].
      exists st', b'. split; [exact E'|]. now rewrite <- app_assoc in Hinv'.
Qed.

Lemma no_overlap_chain es : forall prev,
  no_overlap prev es = true -> Forall (fun e => fst e <= snd e /\ snd e < max64) es -> chain_from prev es.
Proof.
  induction es as [|e es IH]; intros prev Hn Hw; [exact I|]. cbn [no_overlap chain_from] in *.
  inversion Hw as [|? ? [H1 H2] Hw']; subst. unfold r_start, r_end in Hn.
  destruct (N.ltb_spec (fst e) prev); [discriminate|]. repeat split; try assumption. now apply IH.
Qed.

(* what the two nested loops return on a layout and a legal executed list *)
Theorem filter_loops_spec reports executed :
  layout (by_start reports) ->
  Forall (fun e => fst e <= snd e /\ snd e < max64) executed ->
  no_overlap 0 (ranges_by_start executed) = true ->
  filter_loops reports executed =
    Ok (match executed with [] => by_start reports
        | _ => loops_spec (by_start reports) (ranges_by_start executed) end).
Proof.
  intros Hlay Hw Hno. unfold filter_loops. destruct executed as [|e0 ex]; [reflexivity|].
  set (executed := e0 :: ex) in *. set (rs := by_start reports) in *. set (es := ranges_by_start executed) in *.
  rewrite Hno.
  assert (Hw' : Forall (fun e => fst e <= snd e /\ snd e < max64) es).
  { eapply Permutation_Forall; [|exact Hw]. symmetry. apply sort_by_perm. }
  assert (Hinit : outer_inv rs [] 0 (mkFS rs 0 [])).
  { unfold outer_inv. cbn [fs_reports fs_idx fs_out skipn firstn]. repeat split; try lia.
    - symmetry. erewrite map_ext; [apply map_id|]. intros r. apply acc_nil.
    - intros r []. }
  destruct (outer_correct rs Hlay es [] 0 _ (no_overlap_chain es 0 Hno Hw') Hinit) as [st' [b' [E Hinv]]].
  rewrite E. cbn [rbind app] in *. f_equal.
  destruct Hinv as [Hlen [Hin [Hsk [Hout [Hnc _]]]]].
  rewrite Hout, Hsk, <- (loops_spec_uncovered _ _ Hnc), <- loops_spec_app, firstn_skipn. reflexivity.
Qed.

(* ---------- meaning of the executed runs ---------- *)
Lemma clipr_in r e s : in_runs (clipr r e) s <-> (p_lo r <= s <= p_hi r /\ in_range e s).
Proof.
  unfold clipr, in_runs, in_range.
  destruct (N.leb_spec (N.max (fst e) (p_lo r)) (N.min (snd e) (p_hi r))) as [H|H].
  - split.
    + intros [x [[<-|[]] Hx]]. cbn [fst snd] in Hx. lia.
    + intros Hs. eexists. split; [now left|]. cbn [fst snd]. lia.
  - split; [intros [x [[] _]]|]. intros Hs. lia.
Qed.

Lemma in_runs_app l1 l2 s : in_runs (l1 ++ l2) s <-> in_runs l1 s \/ in_runs l2 s.
Proof.
  unfold in_runs. split.
  - intros [x [Hi Hx]]. apply in_app_or in Hi. destruct Hi; [left|right]; eauto.
  - intros [[x [Hi Hx]]|[x [Hi Hx]]]; exists x; (split; [apply in_or_app; tauto|exact Hx]).
Qed.

Lemma runs_of_in es r s : in_runs (runs_of es r) s <-> (p_lo r <= s <= p_hi r /\ in_union es s).
Proof.
  unfold runs_of. induction es as [|e es IH]; cbn [flat_map].
  - split; [intros [x [[] _]]|intros [_ [x [[] _]]]].
  - rewrite in_runs_app, clipr_in, IH. unfold in_union. split.
    + intros [[H1 H2]|[H1 [x [Hi Hx]]]]; (split; [exact H1|]); [exists e; split; [now left|exact H2]|exists x; split; [now right|exact Hx]].
    + intros [H1 [x [[<-|Hi] Hx]]]; [left; tauto|right; split; [exact H1|exists x; tauto]].
Qed.

Fixpoint chained (prev : N) (runs : list range) : Prop :=
  match runs with
  | [] => True
  | (a, b) :: rest => prev <= a /\ a <= b /\ chained b rest
  end.

Lemma chained_weaken p p' runs : p <= p' -> chained p' runs -> chained p runs.
Proof. destruct runs as [|[a b] rest]; [trivial|]. cbn [chained]. intros; intuition lia. Qed.

Lemma runs_of_chained es r : forall prev, chain_from prev es -> chained prev (runs_of es r).
Proof.
  unfold runs_of. induction es as [|e es IH]; intros prev H; [exact I|]. cbn [chain_from flat_map] in *.
  destruct H as [H1 [H2 [H3 H4]]]. unfold clipr at 1.
  destruct (N.leb_spec (N.max (fst e) (p_lo r)) (N.min (snd e) (p_hi r))) as [Hc|Hc]; cbn [app].
  - cbn [chained]. repeat split; try lia. apply (chained_weaken _ (snd e)); [lia|]. now apply IH.
  - apply (chained_weaken _ (snd e)); [lia|]. now apply IH.
Qed.

Lemma chained_wf prev runs : chained prev runs -> forall run, In run runs -> fst run <= snd run.
Proof.
  revert prev. induction runs as [|[a b] rest IH]; intros prev H run Hi; [contradiction|]. cbn [chained] in H.
  destruct Hi as [<-|Hi]; [cbn; lia|]. eapply IH; [|exact Hi]. apply H.
Qed.

Lemma in_runs_cons a b rest s : in_runs ((a, b) :: rest) s <-> (a <= s <= b) \/ in_runs rest s.
Proof.
  unfold in_runs, in_range. split.
  - intros [x [[<-|Hi] Hx]]; [left; exact Hx|right; eauto].
  - intros [H|[x [Hi Hx]]]; [exists (a, b); split; [now left|exact H]|exists x; split; [now right|exact Hx]].
Qed.

(* slices.Compact keeps exactly the same numbers *)
Lemma compact_in_some runs : forall l s,
  (forall run, In run runs -> fst run <= snd run) ->
  (in_runs (compact_runs (Some l) runs) s \/ s = l) <-> (in_runs runs s \/ s = l).
Proof.
  induction runs as [|[a b] rest IH]; intros l s Hw; cbn [compact_runs]; [tauto|].
  assert (Hab : a <= b) by (apply (Hw (a, b)); now left).
  assert (Hw' : forall run, In run rest -> fst run <= snd run) by (intros; apply Hw; now right).
  destruct (N.eqb_spec a l) as [->|Hne].
  - destruct (N.eqb_spec l b) as [<-|Hlb].
    + rewrite (IH l s Hw'), in_runs_cons. intuition lia.
    + rewrite !in_runs_cons. pose proof (IH b s Hw'). intuition lia.
  - rewrite !in_runs_cons. pose proof (IH b s Hw'). intuition lia.
Qed.

Lemma compact_in_none runs s :
  (forall run, In run runs -> fst run <= snd run) ->
  in_runs (compact_runs None runs) s <-> in_runs runs s.
Proof.
  destruct runs as [|[a b] rest]; intros Hw; cbn [compact_runs]; [tauto|].
  assert (Hab : a <= b) by (apply (Hw (a, b)); now left).
  assert (Hw' : forall run, In run rest -> fst run <= snd run) by (intros; apply Hw; now right).
  rewrite !in_runs_cons. pose proof (compact_in_some rest b s Hw'). intuition lia.
Qed.

(* ... each once, ascending *)
Lemma compact_above runs : forall l, chained l runs -> runs_above l (compact_runs (Some l) runs).
Proof.
  induction runs as [|[a b] rest IH]; intros l H; cbn [compact_runs]; [exact I|]. cbn [chained] in H.
  destruct H as [H1 [H2 H3]].
  destruct (N.eqb_spec a l) as [->|Hne].
  - destruct (N.eqb_spec l b) as [<-|Hlb]; [now apply IH|].
    cbn [runs_above]. repeat split; try lia. now apply IH.
  - cbn [runs_above]. repeat split; try lia. now apply IH.
Qed.

Lemma compact_strict runs prev : chained prev runs -> strict_runs (compact_runs None runs).
Proof.
  destruct runs as [|[a b] rest]; intros H; cbn [compact_runs]; [exact I|]. cbn [chained] in H.
  cbn [strict_runs]. split; [lia|]. apply compact_above. tauto.
Qed.

(* counting: ascending runs inside (p, hi] have at most hi - p numbers, exactly that many iff nothing is missing *)
Lemma above_mem p runs s : runs_above p runs -> in_runs runs s -> p < s.
Proof.
  revert p. induction runs as [|[a b] rest IH]; intros p H Hs; [destruct Hs as [x [[] _]]|].
  cbn [runs_above] in H. destruct H as [H1 [H2 H3]]. apply in_runs_cons in Hs. destruct Hs as [Hs|Hs]; [lia|].
  specialize (IH b H3 Hs). lia.
Qed.

Lemma above_count hi runs : forall p,
  runs_above p runs -> (forall s, in_runs runs s -> s <= hi) ->
  runs_len runs <= hi - p /\
  (runs_len runs = hi - p <-> forall s, p < s <= hi -> in_runs runs s).
Proof.
  induction runs as [|[a b] rest IH]; intros p H Hhi.
  - cbn [runs_len fold_right]. split; [lia|]. split.
    + intros E s Hs. lia.
    + intros Hall. destruct (N.ltb_spec p hi) as [Hlt|]; [|lia].
      destruct (Hall hi) as [x [[] _]]. lia.
  - cbn [runs_above] in H. destruct H as [H1 [H2 H3]].
    assert (Hb : b <= hi) by (apply Hhi; apply in_runs_cons; left; lia).
    destruct (IH b H3) as [Hle Hiff]; [intros s Hs; apply Hhi; apply in_runs_cons; now right|].
    change (runs_len ((a, b) :: rest)) with (run_len (a, b) + runs_len rest). unfold run_len. cbn [fst snd].
    split; [lia|]. split.
    + intros E s Hs. assert (a = p + 1) by lia. assert (Er : runs_len rest = hi - b) by lia.
      apply in_runs_cons. destruct (N.leb_spec s b); [left; lia|right]. apply Hiff; [exact Er|lia].
    + intros Hall.
      assert (Ea : a = p + 1).
      { destruct (Hall (p + 1)) as [x [Hi Hx]]; [lia|].
        assert (Hin : in_runs ((a, b) :: rest) (p + 1)) by (exists x; tauto).
        apply in_runs_cons in Hin. destruct Hin as [Hin|Hin]; [lia|].
        pose proof (above_mem b rest (p + 1) H3 Hin). lia. }
      assert (Er : runs_len rest = hi - b).
      { apply Hiff. intros s Hs. assert (Hin : in_runs ((a, b) :: rest) s) by (apply Hall; lia).
        apply in_runs_cons in Hin. destruct Hin as [Hin|Hin]; [lia|exact Hin]. }
      lia.
Qed.

Lemma strict_count lo hi runs :
  strict_runs runs -> (forall s, in_runs runs s -> lo <= s <= hi) -> lo <= hi ->
  (runs_len runs = hi - lo + 1 <-> forall s, lo <= s <= hi -> in_runs runs s).
Proof.
  intros Hs Hin Hlh. destruct runs as [|[a b] rest].
  - cbn [runs_len fold_right]. split; [lia|]. intros Hall. destruct (Hall lo) as [x [[] _]]. lia.
  - cbn [strict_runs] in Hs. destruct Hs as [Hab Hab'].
    assert (Ha : lo <= a) by (apply Hin; apply in_runs_cons; left; lia).
    assert (Hb : b <= hi) by (apply Hin; apply in_runs_cons; left; lia).
    destruct (above_count hi rest b Hab') as [Hle Hiff]; [intros s Hs; apply Hin; apply in_runs_cons; now right|].
    change (runs_len ((a, b) :: rest)) with (run_len (a, b) + runs_len rest). unfold run_len. cbn [fst snd].
    split.
    + intros E s Hs. assert (a = lo) by lia. assert (Er : runs_len rest = hi - b) by lia.
      apply in_runs_cons. destruct (N.leb_spec s b); [left; lia|right]. apply Hiff; [exact Er|lia].
    + intros Hall.
      assert (Ea : a = lo).
      { assert (Hi : in_runs ((a, b) :: rest) lo) by (apply Hall; lia).
        apply in_runs_cons in Hi. destruct Hi as [Hi|Hi]; [lia|].
        pose proof (above_mem b rest lo Hab' Hi). lia. }
      assert (Er : runs_len rest = hi - b).
      { apply Hiff. intros s Hs. assert (Hi : in_runs ((a, b) :: rest) s) by (apply Hall; lia).
        apply in_runs_cons in Hi. destruct Hi as [Hi|Hi]; [lia|exact Hi]. }
      lia.
Qed.

(* ---------- filterOutExecutedMessages (after the repair of F15): what it returns ---------- *)
Definition cruns (es : list range) (r : rep) : list range := compact_runs None (runs_of es r).
Definition fullb (es : list range) (r : rep) : bool :=
  N.ltb 0 (runs_len (cruns es r)) && N.eqb (runs_len (cruns es r)) (num_messages r).
Definition pending_form (rs : list rep) (es : list range) : list rep :=
  flat_map (fun r => if fullb es r then [] else [mkRep (p_id r) (p_lo r) (p_hi r) (cruns es r)]) rs.

Lemma num_messages_eq r : p_lo r <= p_hi r -> p_hi r < max64 -> num_messages r = p_hi r - p_lo r + 1.
Proof. unfold num_messages, add64, sub64, two64, max64. intros. lia. Qed.

Section Meaning.
  Variable es : list range.
  Variable prev : N.
  Hypothesis Hch : chain_from prev es.
  Variable r : rep.
  Hypothesis Hlo : p_lo r <= p_hi r.
  Hypothesis Hhi : p_hi r < max64.

  Lemma cruns_in s : in_runs (cruns es r) s <-> (p_lo r <= s <= p_hi r /\ in_union es s).
  Proof.
    unfold cruns. rewrite compact_in_none; [apply runs_of_in|].
    apply (chained_wf prev). now apply runs_of_chained.
  Qed.

  Lemma cruns_strict : strict_runs (cruns es r).
  Proof. unfold cruns. apply (compact_strict _ prev). now apply runs_of_chained. Qed.

  Lemma fullb_iff : fullb es r = true <-> all_executed es r.
  Proof.
    unfold fullb, all_executed. rewrite num_messages_eq by assumption.
    pose proof (strict_count (p_lo r) (p_hi r) (cruns es r) cruns_strict) as Hc.
    assert (Hin : forall s, in_runs (cruns es r) s -> p_lo r <= s <= p_hi r) by (intros s Hs; now apply cruns_in in Hs).
    specialize (Hc Hin Hlo). rewrite andb_true_iff, N.ltb_lt, N.eqb_eq. split.
    - intros [_ E] s Hs. pose proof (proj1 Hc E s Hs) as E'. now apply cruns_in in E'.
    - intros Hall. assert (E : runs_len (cruns es r) = p_hi r - p_lo r + 1).
      { apply (proj2 Hc). intros s Hs. apply cruns_in. split; [exact Hs|now apply Hall]. }
      split; [lia|exact E].
  Qed.

  Lemma single_cover_all : single_cover es r = true -> all_executed es r.
  Proof.
    unfold single_cover, all_executed. rewrite existsb_exists. intros [e [Hi Hc]] s Hs.
    unfold covers in Hc. apply andb_prop in Hc. destruct Hc as [H1 H2]. apply N.leb_le in H1, H2.
    exists e. split; [exact Hi|]. unfold in_range. lia.
  Qed.
End Meaning.

Lemma flat_map_flat_map {A B C} (f : A -> list B) (g : B -> list C) l :
  flat_map g (flat_map f l) = flat_map (fun x => flat_map g (f x)) l.
Proof. induction l as [|x l IH]; [reflexivity|]. cbn [flat_map]. now rewrite flat_map_app, IH. Qed.

Lemma pending_form_nil rs : (forall r, In r rs -> p_exec r = []) -> pending_form rs [] = rs.
Proof.
  induction rs as [|r rs IH]; intros H; [reflexivity|]. unfold pending_form in *. cbn [flat_map].
  rewrite IH by (intros; apply H; now right).
  assert (F : fullb [] r = false) by reflexivity. rewrite F.
  specialize (H r (or_introl eq_refl)). destruct r as [i l h x]. cbn [p_exec] in H. subst x. reflexivity.
Qed.

Theorem filter_executed_form reports executed :
  layout (by_start reports) ->
  (forall r, In r reports -> p_exec r = [] /\ p_hi r < max64) ->
  Forall (fun e => fst e <= snd e /\ snd e < max64) executed ->
  no_overlap 0 (ranges_by_start executed) = true ->
  filter_executed reports executed = Ok (pending_form (by_start reports) (ranges_by_start executed)).
Proof.
  intros Hlay Hr Hw Hno.
  set (rs := by_start reports) in *. set (es := ranges_by_start executed) in *.
  assert (Hr' : forall r, In r rs -> p_exec r = [] /\ p_hi r < max64 /\ p_lo r <= p_hi r).
  { intros r Hi. assert (In r reports) by (unfold rs, by_start in Hi; now apply sort_by_in in Hi).
    destruct (Hr r H). repeat split; try assumption. now apply (layout_wf rs Hlay). }
  assert (Hw' : Forall (fun e => fst e <= snd e /\ snd e < max64) es).
  { eapply Permutation_Forall; [|exact Hw]. symmetry. apply sort_by_perm. }
  pose proof (no_overlap_chain es 0 Hno Hw') as Hch.
  unfold filter_executed. rewrite (filter_loops_spec reports executed Hlay Hw Hno).
  destruct executed as [|e0 ex] eqn:Eex.
  - (* nothing executed: the sorted input *)
    f_equal. fold rs. symmetry. apply pending_form_nil. intros r0 Hi0. now destruct (Hr' r0 Hi0).
  - cbn [rbind]. f_equal. fold rs es. rewrite <- Eex in *. clear Eex.
    unfold loops_spec, pending_form. rewrite flat_map_flat_map.
    clear Hlay. induction rs as [|r rs IH]; [reflexivity|]. cbn [flat_map].
    rewrite IH by (intros; apply Hr'; now right). f_equal.
    destruct (Hr' r (or_introl eq_refl)) as [He [Hh Hl]].
    destruct (single_cover es r) eqn:Esc.
    + cbn [flat_map]. assert (F : fullb es r = true).
      { apply (fullb_iff es 0 Hch r Hl Hh). now apply single_cover_all. }
      now rewrite F.
    + cbn [flat_map]. rewrite app_nil_r. unfold still_pending. cbn [acc p_exec p_id p_lo p_hi].
      rewrite He. cbn [app]. fold (cruns es r).
      change (num_messages (acc es r)) with (num_messages r).
      fold (fullb es r). destruct (fullb es r); reflexivity.
Qed.

(* ---------- the named theorems on filterOutExecutedMessages ---------- *)
Lemma in_union_sorted executed s : in_union (ranges_by_start executed) s <-> in_union executed s.
Proof.
  unfold in_union, ranges_by_start. split; intros [e [Hi He]]; exists e; (split; [|exact He]).
  - now apply sort_by_in in Hi.
  - now apply sort_by_in.
Qed.
Lemma all_executed_sorted executed r : all_executed (ranges_by_start executed) r <-> all_executed executed r.
Proof. unfold all_executed. split; intros H s Hs; apply in_union_sorted; now apply H. Qed.

Section FilterSpec.
  Variable reports : list rep.
  Variable executed : list range.
  Hypothesis Hlay : layout (by_start reports).
  Hypothesis Hr : forall r, In r reports -> p_exec r = [] /\ p_hi r < max64.
  Hypothesis Hw : Forall (fun e => fst e <= snd e /\ snd e < max64) executed.

  Let rs := by_start reports.
  Let es := ranges_by_start executed.

  Lemma rs_facts r : In r rs -> In r reports /\ p_exec r = [] /\ p_hi r < max64 /\ p_lo r <= p_hi r.
  Proof.
    intros Hi. assert (H : In r reports) by (unfold rs, by_start in Hi; now apply sort_by_in in Hi).
    destruct (Hr r H). repeat split; try assumption. now apply (layout_wf rs Hlay).
  Qed.

  Theorem filter_err_iff :
    filter_executed reports executed = Err <-> executed <> [] /\ no_overlap 0 es = false.
  Proof.
    destruct (no_overlap 0 es) eqn:Hno.
    - fold es in Hno. rewrite (filter_executed_form reports executed Hlay Hr Hw Hno). split; [discriminate|intros [_ H]; discriminate].
    - unfold filter_executed, filter_loops. fold es. rewrite Hno. destruct executed; [|cbn [rbind]].
      + split; [discriminate|intros [H _]; congruence].
      + split; [intros _; split; [discriminate|reflexivity]|reflexivity].
  Qed.

  Hypothesis Hno : no_overlap 0 es = true.
  Variable out : list rep.
  Hypothesis Hout : filter_executed reports executed = Ok out.

  Lemma out_form : out = pending_form rs es.
  Proof. rewrite (filter_executed_form reports executed Hlay Hr Hw Hno) in Hout. now inversion Hout. Qed.

  Lemma chain_es : chain_from 0 es.
  Proof.
    apply no_overlap_chain; [exact Hno|]. eapply Permutation_Forall; [|exact Hw]. symmetry. apply sort_by_perm.
  Qed.

  Lemma fullb_meaning r : In r rs -> (fullb es r = true <-> all_executed executed r).
  Proof.
    intros Hi. destruct (rs_facts r Hi) as [_ [_ [Hh Hl]]].
    rewrite (fullb_iff es 0 chain_es r Hl Hh). apply all_executed_sorted.
  Qed.

  (* which reports stay pending, and in which order: those with an unexecuted message, by start *)
  Theorem filter_keeps :
    exists keep : rep -> bool,
      map p_id out = map p_id (filter keep rs) /\
      forall r, In r rs -> (keep r = true <-> ~ all_executed executed r).
  Proof.
    exists (fun r => negb (fullb es r)). split.
    - rewrite out_form. unfold pending_form. clear. induction rs as [|r l IH]; [reflexivity|].
      cbn [flat_map filter]. destruct (fullb es r); cbn [negb app map]; [exact IH|]. now rewrite IH.
    - intros r Hi. rewrite negb_true_iff. rewrite <- (fullb_meaning r Hi). now destruct (fullb es r).
  Qed.

  (* what a pending report records: its executed messages, ascending, each once *)
  Theorem filter_records r' :
    In r' out ->
    exists r, In r reports /\ p_id r' = p_id r /\ p_lo r' = p_lo r /\ p_hi r' = p_hi r /\
              ~ all_executed executed r /\ strict_runs (p_exec r') /\
              forall s, in_runs (p_exec r') s <-> (p_lo r <= s <= p_hi r /\ in_union executed s).
  Proof.
    rewrite out_form. unfold pending_form. rewrite in_flat_map. intros [r [Hi Hin]].
    destruct (rs_facts r Hi) as [Hrep [_ [Hh Hl]]].
    destruct (fullb es r) eqn:F; [contradiction|]. destruct Hin as [<-|[]]. cbn [p_id p_lo p_hi p_exec].
    exists r. split; [exact Hrep|]. split; [reflexivity|]. split; [reflexivity|]. split; [reflexivity|].
    split; [|split].
    - intros Hall. apply (fullb_meaning r Hi) in Hall. congruence.
    - apply (cruns_strict es 0 chain_es).
    - intros s. rewrite (cruns_in es 0 chain_es r s). split; intros [H1 H2]; (split; [exact H1|]);
        now apply (in_union_sorted executed s).
  Qed.

  (* C09_pending_exact: a report is in the result iff one of its messages is not executed *)
  Theorem pending_exact r :
    In r reports ->
    ((exists r', In r' out /\ p_id r' = p_id r /\ p_lo r' = p_lo r /\ p_hi r' = p_hi r) <-> ~ all_executed executed r).
  Proof.
    intros Hrep. assert (Hi : In r rs) by (unfold rs, by_start; now apply sort_by_in). split.
    - intros [r' [Hin [E1 [E2 E3]]]]. destruct (filter_records r' Hin) as [r2 [Hr2 [F1 [F2 [F3 [Hn _]]]]]].
      assert (r2 = r).
      { destruct (Hr r Hrep) as [X1 _]. destruct (Hr r2 Hr2) as [X2 _].
        destruct r as [i l h x], r2 as [i2 l2 h2 x2]. cbn in *. congruence. }
      now subst r2.
    - intros Hn. rewrite out_form. exists (mkRep (p_id r) (p_lo r) (p_hi r) (cruns es r)). cbn [p_id p_lo p_hi].
      split; [|tauto]. unfold pending_form. apply in_flat_map. exists r. split; [exact Hi|].
      destruct (fullb es r) eqn:F; [|now left]. apply (fullb_meaning r Hi) in F. contradiction.
  Qed.

  (* C09_never_reexecuted (function level): an executed message of a pending report is in that report's executed
     list, which is what report.checkMessage consults before putting a message into an execution report *)
  Theorem executed_recorded r' s :
    In r' out -> p_lo r' <= s <= p_hi r' -> in_union executed s -> in_runs (p_exec r') s.
  Proof.
    intros Hin Hs Hu. destruct (filter_records r' Hin) as [r [_ [_ [E2 [E3 [_ [_ Hiff]]]]]]].
    apply Hiff. rewrite <- E2, <- E3. tauto.
  Qed.
End FilterSpec.

(* unordered report lists are supported: the answer depends on the set of reports only *)
Theorem filter_executed_perm reports reports' executed :
  NoDup (map p_lo reports) -> Permutation reports reports' ->
  filter_executed reports executed = filter_executed reports' executed.
Proof.
  intros ND P. unfold filter_executed, filter_loops.
  assert (E : by_start reports = by_start reports') by (apply (sort_by_key_perm p_lo); assumption).
  now rewrite E.
Qed.

(* F15: the function before the repair keeps a fully executed report pending when the reader answers one range per
   message, and records a re-executed message twice *)
Theorem filter_unfixed_refuted :
  exists reports executed out r',
    filter_executed_unfixed reports executed = Ok out /\ In r' out /\
    (forall s, p_lo r' <= s <= p_hi r' -> in_union executed s) /\
    filter_executed reports executed = Ok [].
Proof.
  exists [mkRep 1 1 3 []], [(3, 3); (1, 1); (2, 2)], [mkRep 1 1 3 [(1, 1); (2, 2); (3, 3)]], (mkRep 1 1 3 [(1, 1); (2, 2); (3, 3)]).
  split; [vm_compute; reflexivity|]. split; [now left|]. split; [|vm_compute; reflexivity].
  cbn [p_lo p_hi]. intros s Hs. unfold in_union, in_range.
  destruct (N.eq_dec s 1) as [->|]; [exists (1, 1); cbn; intuition lia|].
  destruct (N.eq_dec s 2) as [->|]; [exists (2, 2); cbn; intuition lia|].
  exists (3, 3). cbn. intuition lia.
Qed.

Theorem filter_unfixed_repeats_refuted :
  filter_executed_unfixed [mkRep 1 1 3 []] [(2, 2); (2, 2)] = Ok [mkRep 1 1 3 [(2, 2); (2, 2)]] /\
  filter_executed [mkRep 1 1 3 []] [(2, 2); (2, 2)] = Ok [mkRep 1 1 3 [(2, 2)]].
Proof. split; vm_compute; reflexivity. Qed.

(* non-vacuity of the hypotheses of the section above *)
Definition ex_reports := [mkRep 2 10 12 []; mkRep 1 5 8 []; mkRep 3 20 21 []].
Definition ex_executed : list range := [(11, 11); (5, 6); (7, 8); (20, 20); (21, 21); (20, 20)].
Example filter_example :
  layout (by_start ex_reports) /\
  (forall r, In r ex_reports -> p_exec r = [] /\ p_hi r < max64) /\
  Forall (fun e => fst e <= snd e /\ snd e < max64) ex_executed /\
  no_overlap 0 (ranges_by_start ex_executed) = true /\
  filter_executed ex_reports ex_executed = Ok [mkRep 2 10 12 [(11, 11)]].
Proof.
  split.
  { assert (E : by_start ex_reports = [mkRep 1 5 8 []; mkRep 2 10 12 []; mkRep 3 20 21 []]) by (vm_compute; reflexivity).
    rewrite E. cbn [layout p_lo p_hi]. lia. }
  split; [intros r [<-|[<-|[<-|[]]]]; cbn [p_exec p_hi]; unfold max64; (split; [reflexivity|lia])|].
  split; [unfold ex_executed, max64; repeat constructor; cbn [fst snd]; lia|].
  split; vm_compute; reflexivity.
Qed.

(* ---------- computeRanges ---------- *)
(* ascending, disjoint, non-empty ranges below 2^64-1, all above prev *)
Fixpoint asc_from (prev : N) (l : list range) : Prop :=
  match l with
  | [] => True
  | r :: rest => prev < fst r /\ fst r <= snd r /\ snd r < max64 /\ asc_from (snd r) rest
  end.
(* output ranges: non-empty, and not even adjacent (a gap of at least one number between them) *)
Fixpoint gap_above (prev : N) (l : list range) : Prop :=
  match l with
  | [] => True
  | r :: rest => prev + 1 < fst r /\ fst r <= snd r /\ gap_above (snd r) rest
  end.

Lemma succ64_small a : a < max64 -> succ64 a = a + 1.
Proof. unfold succ64, add64, two64, max64. intros. lia. Qed.

Lemma compute_ranges_from_spec l : forall cur acc,
  fst cur <= snd cur -> snd cur < max64 -> asc_from (snd cur) l ->
  exists outs last,
    compute_ranges_from cur acc l = Ok (acc ++ (fst cur, last) :: outs) /\
    snd cur <= last /\ gap_above last outs /\
    (forall s, in_union ((fst cur, last) :: outs) s <-> in_range cur s \/ in_union l s).
Proof.
  induction l as [|r l IH]; intros cur acc Hc Hm Ha; cbn [compute_ranges_from].
  - exists [], (snd cur). split; [now destruct cur|]. split; [lia|]. split; [exact I|].
    intros s. unfold in_union, in_range. cbn [fst snd]. split.
    + intros [x [[<-|[]] Hx]]. left. exact Hx.
    + intros [H|[x [[] _]]]. eexists. split; [now left|exact H].
  - cbn [asc_from] in Ha. destruct Ha as [H1 [H2 [H3 H4]]]. unfold r_end, r_start.
    rewrite succ64_small by exact Hm.
    destruct (N.eqb_spec (snd cur + 1) (fst r)) as [Eadj|Hgap].
    + destruct (IH (fst cur, snd r) acc) as [outs [last [E [Hl [Hg Hu]]]]]; cbn [fst snd]; try lia; try assumption.
      exists outs, last. split; [exact E|]. cbn [fst snd] in *. split; [lia|]. split; [exact Hg|].
      intros s. rewrite Hu. unfold in_union, in_range. cbn [fst snd]. split.
      * intros [H|[x [Hi Hx]]]; [|right; exists x; split; [now right|exact Hx]].
        destruct (N.leb_spec s (snd cur)); [left; lia|right]. exists r. split; [now left|lia].
      * intros [H|[x [[<-|Hi] Hx]]]; [left; lia|left; lia|right; exists x; tauto].
    + destruct (N.ltb_spec (fst r) (snd cur)); [lia|].
      destruct (IH r (acc ++ [cur])) as [outs [last [E [Hl [Hg Hu]]]]]; try assumption.
      exists ((fst r, last) :: outs), (snd cur). split.
      * etransitivity; [exact E|]. rewrite <- app_assoc. now destruct cur.
      * split; [lia|]. split; [cbn [gap_above fst snd]; repeat split; try lia; exact Hg|].
        intros s. unfold in_union in *. split.
        -- intros [x [[<-|Hi] Hx]]; [left; exact Hx|]. right.
           assert (Hx' : exists e, In e ((fst r, last) :: outs) /\ in_range e s) by (exists x; tauto).
           apply Hu in Hx'. destruct Hx' as [Hx'|[y [Hy Hy']]]; [exists r; split; [now left|exact Hx']|exists y; split; [now right|exact Hy']].
        -- intros [Hc0|[x [[<-|Hi] Hx]]].
           ++ exists (fst cur, snd cur). split; [now left|exact Hc0].
           ++ destruct (proj2 (Hu s) (or_introl Hx)) as [y [Hy Hy']]. exists y. split; [now right|exact Hy'].
           ++ destruct (proj2 (Hu s) (or_intror (ex_intro _ x (conj Hi Hx)))) as [y [Hy Hy']]. exists y. split; [now right|exact Hy'].
Qed.

(* computeRanges on the ranges of an ascending, disjoint report list: the fewest contiguous ranges that cover
   exactly the reports' sequence numbers *)
Theorem compute_ranges_spec r l :
  fst r <= snd r -> snd r < max64 -> asc_from (snd r) l ->
  exists outs,
    compute_ranges (r :: l) = Ok outs /\
    (forall s, in_union outs s <-> in_union (r :: l) s) /\
    match outs with o :: rest => fst o = fst r /\ fst o <= snd o /\ gap_above (snd o) rest | [] => False end.
Proof.
  intros H1 H2 H3. destruct (compute_ranges_from_spec l r [] H1 H2 H3) as [outs [last [E [Hl [Hg Hu]]]]].
  exists ((fst r, last) :: outs). split; [exact E|]. split.
  - intros s. rewrite Hu. unfold in_union. split.
    + intros [H|[x [Hi Hx]]]; [exists r; split; [now left|exact H]|exists x; split; [now right|exact Hx]].
    + intros [x [[<-|Hi] Hx]]; [now left|right; exists x; tauto].
  - cbn [fst snd]. repeat split; try lia. exact Hg.
Qed.

Example compute_ranges_example :
  compute_ranges [(1, 3); (4, 5); (7, 9); (10, 10); (20, 21)] = Ok [(1, 5); (7, 10); (20, 21)] /\
  compute_ranges [(1, 3); (3, 5)] = Ok [(1, 3); (3, 5)] /\       (* a shared number is not detected *)
  compute_ranges [(1, 5); (3, 8)] = Err /\
  compute_ranges [(5, 6); (1, 2)] = Err.                        (* out of order *)
Proof. repeat split; vm_compute; reflexivity. Qed.

(* ---------- groupByChainSelector ---------- *)
Definition of_chain (c : N) (l : list (N * rep)) : list rep := map snd (filter (fun cr => N.eqb (fst cr) c) l).

Lemma alookup_aappend c k (v : rep) m :
  alookup c (aappend k v m) =
  if N.eqb c k then Some (match alookup k m with Some l => l ++ [v] | None => [v] end) else alookup c m.
Proof.
  induction m as [|[k' l] m IH]; cbn [aappend alookup].
  - destruct (N.eqb c k); reflexivity.
  - destruct (N.eqb_spec k' k) as [->|Hk]; cbn [alookup].
    + destruct (N.eqb_spec c k) as [->|Hc]; [now rewrite N.eqb_refl|]. destruct (N.eqb_spec c k); [contradiction|reflexivity].
    + destruct (N.eqb_spec c k') as [->|Hc'].
      * destruct (N.eqb_spec k' k); [contradiction|]. reflexivity.
      * rewrite IH. destruct (N.eqb_spec c k) as [->|]; [|reflexivity].
        destruct (N.eqb_spec k k'); [congruence|reflexivity].
Qed.

Lemma group_fold c l : forall m,
  alookup c (fold_left (fun m cr => aappend (fst cr) (snd cr) m) l m) =
  match alookup c m, of_chain c l with
  | None, [] => None
  | None, x => Some x
  | Some y, x => Some (y ++ x)
  end.
Proof.
  unfold of_chain. induction l as [|[k v] l IH]; intros m; cbn [fold_left filter map fst snd].
  - destruct (alookup c m); [now rewrite app_nil_r|reflexivity].
  - rewrite IH, alookup_aappend. destruct (N.eqb_spec k c) as [->|Hk].
    + rewrite N.eqb_refl. cbn [map snd]. destruct (alookup c m) as [y|]; [now rewrite <- app_assoc|reflexivity].
    + destruct (N.eqb_spec c k); [congruence|]. reflexivity.
Qed.

(* every root of every commit report goes to its chain, in the order it was read; chains without a root get no key *)
Theorem group_by_chain_spec crs c :
  alookup c (group_by_chain crs) =
  match of_chain c (concat crs) with [] => None | l => Some l end.
Proof. unfold group_by_chain. rewrite group_fold. cbn [alookup]. now destruct (of_chain c (concat crs)). Qed.

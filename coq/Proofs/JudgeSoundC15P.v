(* JudgeSoundC15P.v — the executable properties of Check/C15_check.v are the C15 property.
   For every judge x of the C15 correspondence:
     x_model_passes : the model's own output passes x_ok (no false alarm while model and code agree);
     x_sound        : an ARBITRARY output that passes x_ok satisfies the clauses of Props/C15.v.
   The plugin-level parts script the curse reader by a [remote] (read fails, global, destination, cursed chains);
   [answer r asked] is the CurseInfo the reader hands out, so in these parts the list of cursed chains plays the
   part of the subject set S of the Props statements. *)
Require Import Verif.Model.Base Verif.Proofs.BaseP Verif.Model.Transmit Verif.Model.Curses Verif.Proofs.CursesP.
Require Import Verif.Check.C15_check.
From Coq Require Import ZifyN ZifyNat ZifyBool Lia.

(* ---------- small generic facts ---------- *)
Lemma list_eqb_eq {A} (e : A -> A -> bool) (He : forall a b, e a b = true -> a = b) :
  forall l1 l2, list_eqb e l1 l2 = true -> l1 = l2.
Proof.
  induction l1 as [|x l1 IH]; intros [|y l2] H; cbn [list_eqb] in H; try discriminate; [reflexivity|].
  apply andb_true_iff in H as [H1 H2]. f_equal; [now apply He| now apply IH].
Qed.

Lemma list_eqb_refl {A} (e : A -> A -> bool) (Hr : forall a, e a a = true) l : list_eqb e l l = true.
Proof. induction l as [|x l IH]; cbn [list_eqb]; [reflexivity|]. now rewrite Hr, IH. Qed.

Lemma nil_test {A} (l : list A) : match l with [] => true | _ :: _ => false end = true <-> l = [].
Proof. destruct l; split; intros H; try reflexivity; discriminate. Qed.

Lemma pN_eqb_eq a b : pN_eqb a b = true <-> a = b.
Proof.
  destruct a as [a1 a2], b as [b1 b2]. unfold pN_eqb, pair_eqb. cbn [fst snd].
  rewrite andb_true_iff, !N.eqb_eq. split; [intros [-> ->]; reflexivity| intros H; inversion H; auto].
Qed.

Lemma existsb_pN_In kv l : existsb (pN_eqb kv) l = true <-> In kv l.
Proof.
  rewrite existsb_exists. split.
  - intros [x [Hx He]]. apply pN_eqb_eq in He. now subst.
  - intros H. exists kv. split; [assumption| now apply pN_eqb_eq].
Qed.

Lemma memN_false x l : memN x l = false <-> ~ In x l.
Proof. rewrite <- memN_In. destruct (memN x l); split; intros H; congruence. Qed.

Lemma memN_ext c l1 l2 : (In c l1 <-> In c l2) -> memN c l1 = memN c l2.
Proof.
  intros H. destruct (memN c l2) eqn:E.
  - apply memN_In. apply H. now apply memN_In.
  - apply memN_false. apply memN_false in E. tauto.
Qed.

Lemma alookup_notin {V} c (l : list (N * V)) : ~ In c (map fst l) -> alookup c l = None.
Proof.
  induction l as [|[k v] l IH]; intros H; cbn [alookup]; [reflexivity|].
  cbn [map fst In] in H. destruct (N.eqb_spec c k) as [->|Hne]; [tauto|]. apply IH. tauto.
Qed.

(* an association list whose values are a function of the key *)
Lemma alookup_fun (f : N -> bool) c (l : list (N * bool)) :
  (forall kv, In kv l -> snd kv = f (fst kv)) ->
  alookup c l = if memN c (map fst l) then Some (f c) else None.
Proof.
  induction l as [|[k v] l IH]; intros H; cbn [alookup map fst]; [reflexivity|].
  unfold memN. cbn [existsb]. fold (memN c (map fst l)).
  destruct (N.eqb_spec c k) as [->|Hne]; cbn [orb].
  - specialize (H (k, v) (or_introl eq_refl)). cbn [fst snd] in H. now rewrite H.
  - apply IH. intros kv Hkv. apply H. now right.
Qed.

Lemma Bool_eqb_eq a b : Bool.eqb a b = true -> a = b.
Proof. destruct a, b; cbn; intros H; try reflexivity; discriminate. Qed.

Lemma curse_code_1 r : curse_code r = 1%N <-> r = Ok true.
Proof. destruct r as [[|]| | |]; cbn [curse_code]; split; intros H; try reflexivity; try discriminate. Qed.

(* ================= part subj ================= *)
Section Subj.

Lemma dedup_keys_incl l kv : In kv (dedup_keys l) -> In kv l.
Proof.
  revert kv. induction l as [|[k v] l IH]; intros kv H; cbn [dedup_keys] in H; [exact H|].
  destruct H as [H|H]; [now left|]. apply filter_In in H as [H _]. right. now apply IH.
Qed.

Lemma dedup_keys_keys l k : In k (map fst l) -> In k (map fst (dedup_keys l)).
Proof.
  induction l as [|[k0 v0] l IH]; intros H; cbn [dedup_keys map fst In] in *; [exact H|].
  destruct (N.eq_dec k0 k) as [E|Hne]; [now left|]. right.
  destruct H as [H|H]; [congruence|]. specialize (IH H). apply in_map_iff in IH as [[k' v'] [E Hin]].
  cbn [fst] in E. subst k'. apply in_map_iff. exists (k, v'). split; [reflexivity|].
  apply filter_In. split; [assumption|]. cbn [fst]. apply negb_true_iff. apply N.eqb_neq. congruence.
Qed.

Lemma canon_in ci kv : In kv (ci_sources (canon_ci ci)) -> In kv (ci_sources ci).
Proof. unfold canon_ci. cbn [ci_sources]. rewrite sort_by_in. apply dedup_keys_incl. Qed.

Lemma canon_keys ci k : In k (map fst (ci_sources (canon_ci ci))) <-> In k (map fst (ci_sources ci)).
Proof.
  split.
  - intros H. apply in_map_iff in H as [kv [E H]]. apply canon_in in H. subst k. now apply in_map.
  - intros H. apply dedup_keys_keys in H. apply in_map_iff in H as [kv [E H]]. subst k. apply in_map.
    unfold canon_ci. cbn [ci_sources]. now apply sort_by_in.
Qed.

Lemma curse_info_of_fun sb d srcs kv :
  In kv (ci_sources (curse_info_of sb d srcs)) -> snd kv = mem_subj (subject_of_chain (fst kv)) sb /\ In (fst kv) srcs.
Proof.
  unfold curse_info_of. cbn [ci_sources]. intros H. apply in_map_iff in H as [c [E H]]. subst kv. cbn [fst snd]. auto.
Qed.

Lemma curse_info_of_keys sb d srcs : map fst (ci_sources (curse_info_of sb d srcs)) = srcs.
Proof. unfold curse_info_of. cbn [ci_sources]. rewrite map_map. cbn [fst]. apply map_id. Qed.

(* the canonical form the harness compares (sorted, duplicate requests collapsed) reads like the map itself *)
Lemma src_cursed_canon sb d srcs c :
  src_cursed (canon_ci (curse_info_of sb d srcs)) c = src_cursed (curse_info_of sb d srcs) c.
Proof.
  unfold src_cursed.
  rewrite (alookup_fun (fun c => mem_subj (subject_of_chain c) sb) c (ci_sources (canon_ci _))).
  2:{ intros kv H. apply canon_in in H. now apply curse_info_of_fun in H. }
  rewrite (alookup_fun (fun c => mem_subj (subject_of_chain c) sb) c (ci_sources (curse_info_of _ _ _))).
  2:{ intros kv H. now apply curse_info_of_fun in H. }
  rewrite (memN_ext c _ _ (canon_keys _ c)). reflexivity.
Qed.

Lemma src_cursed_of_bool sb d srcs c :
  src_cursed (curse_info_of sb d srcs) c = memN c srcs && mem_subj (subject_of_chain c) sb.
Proof.
  unfold src_cursed.
  rewrite (alookup_fun (fun c => mem_subj (subject_of_chain c) sb) c).
  2:{ intros kv H. now apply curse_info_of_fun in H. }
  rewrite curse_info_of_keys. now destruct (memN c srcs).
Qed.

(* (a) the model's answer passes: no premise *)
Lemma subj_model_passes i : subj_ok i (subj_model i) = true.
Proof.
  destruct i as [[[sb d] srcs] inp]. unfold subj_ok, subj_model.
  set (ci := curse_info_of sb d srcs).
  assert (Hg : ci_global (canon_ci ci) = mem_subj global_subject sb) by reflexivity.
  assert (Hd : ci_dest (canon_ci ci) = mem_subj global_subject sb || mem_subj (subject_of_chain d) sb) by reflexivity.
  rewrite Hg, Hd. rewrite !Bool.eqb_reflx. cbn [andb].
  rewrite !andb_true_iff. repeat split.
  - apply forallb_forall. intros c Hc. unfold ci. rewrite src_cursed_canon, src_cursed_of_bool.
    apply memN_In in Hc. rewrite Hc. cbn [andb]. apply Bool.eqb_reflx.
  - apply forallb_forall. intros kv H. apply canon_in in H. apply curse_info_of_fun in H. now apply memN_In.
  - apply forallb_forall. intros c Hc. apply non_cursed_in in Hc as [G [Hi Hs]].
    unfold ci. rewrite src_cursed_canon. fold ci. rewrite Hs. change (ci_global ci) with (mem_subj global_subject sb) in G.
    rewrite G. cbn [negb andb]. now apply memN_In.
  - apply forallb_forall. intros c Hc. unfold ci. rewrite src_cursed_canon. fold ci.
    destruct (mem_subj global_subject sb) eqn:G; [reflexivity|].
    destruct (src_cursed ci c) eqn:Hs; [reflexivity|]. cbn [orb]. apply memN_In. apply non_cursed_in. auto.
Qed.

(* (b) any answer that passes satisfies the decoding clauses (C15_global_cursed_iff, C15_dest_cursed_iff,
   C15_source_cursed_iff) and the filtered list is exactly the non-cursed part of its input (as a set; order and
   multiplicity are not looked at) *)
Lemma subj_sound sb d srcs inp ci nc :
  subj_ok (sb, d, srcs, inp) (ci, nc) = true ->
  (ci_global ci = true <-> In global_subject sb) /\
  (ci_dest ci = true <-> In global_subject sb \/ In (subject_of_chain d) sb) /\
  (forall c, src_cursed ci c = true <-> In c srcs /\ In (subject_of_chain c) sb) /\
  (forall c, In c nc <-> ci_global ci = false /\ In c inp /\ src_cursed ci c = false).
Proof.
  unfold subj_ok. rewrite !andb_true_iff. intros [[[[[Hg Hd] Hs] Hk] Hn] Hi].
  apply Bool_eqb_eq in Hg. apply Bool_eqb_eq in Hd.
  rewrite forallb_forall in Hs, Hk, Hn, Hi.
  assert (Hsrc : forall c, src_cursed ci c = true <-> In c srcs /\ In (subject_of_chain c) sb).
  { intros c. split.
    - intros H. assert (Hin : In c srcs).
      { unfold src_cursed in H. destruct (alookup c (ci_sources ci)) as [b|] eqn:E; [|discriminate].
        apply alookup_In in E. apply Hk in E. now apply memN_In in E. }
      split; [assumption|]. apply mem_subj_In. specialize (Hs c Hin). apply Bool_eqb_eq in Hs. congruence.
    - intros [Hin Hm]. specialize (Hs c Hin). apply Bool_eqb_eq in Hs. rewrite Hs. now apply mem_subj_In. }
  split; [rewrite Hg; apply mem_subj_In|].
  split; [rewrite Hd, orb_true_iff, !mem_subj_In; tauto|].
  split; [exact Hsrc|].
  intros c. split.
  - intros H. specialize (Hn c H). rewrite !andb_true_iff, !negb_true_iff in Hn. destruct Hn as [[G Hc] Hm].
    split; [congruence|]. split; [now apply memN_In| exact Hc].
  - intros [G [Hin Hc]]. specialize (Hi c Hin). rewrite Hc, <- Hg, G in Hi. cbn [orb] in Hi. now apply memN_In.
Qed.

(* consequence in the words of the property: under a global curse nothing passes the filter, and a chain of the request
   whose subject is cursed never does *)
Corollary subj_sound_nothing_cursed sb d srcs inp ci nc :
  subj_ok (sb, d, srcs, inp) (ci, nc) = true ->
  (In global_subject sb -> nc = []) /\
  (forall c, In c srcs -> In (subject_of_chain c) sb -> ~ In c nc).
Proof.
  intros H. destruct (subj_sound _ _ _ _ _ _ H) as [Hg [_ [Hs Hn]]]. split.
  - intros G. apply Hg in G. destruct nc as [|c nc]; [reflexivity|].
    destruct (proj1 (Hn c) (or_introl eq_refl)) as [G' _]. congruence.
  - intros c Hc Hm Hin. apply Hn in Hin as [_ [_ Hf]]. assert (Ht : src_cursed ci c = true) by (apply Hs; auto). congruence.
Qed.

Example subj_ok_sat :
  subj_ok ([subject_of_chain 5; (1, 5); (0, 99)]%N, 900%N, [8; 5; 3; 5]%N, [9; 5; 3; 8]%N)
          (CurseInfo [(3, false); (5, true); (8, false)]%N false false, [3; 8; 9]%N) = true.
Proof. vm_compute; reflexivity. Qed.

End Subj.

(* ================= the scripted curse reader ================= *)
Definition curse_of (known : option (list N)) (r : remote) : option curse_info :=
  match known with Some all => answer r all | None => None end.

Lemma alookup_map_fun (f : N -> bool) c asked :
  alookup c (map (fun c => (c, f c)) asked) = if memN c asked then Some (f c) else None.
Proof.
  rewrite (alookup_fun f).
  - rewrite map_map. cbn [fst]. now rewrite map_id.
  - intros kv H. apply in_map_iff in H as [x [E _]]. now subst kv.
Qed.

Lemma src_cursed_answer b1 b2 cursed asked c :
  src_cursed (CurseInfo (map (fun c => (c, memN c cursed)) asked) b1 b2) c = memN c asked && memN c cursed.
Proof. unfold src_cursed. cbn [ci_sources]. rewrite alookup_map_fun. now destruct (memN c asked). Qed.

Lemma answer_some fails g d cursed asked ci :
  answer (fails, g, d, cursed) asked = Some ci ->
  fails = false /\ ci = CurseInfo (map (fun c => (c, memN c cursed)) asked) (g || d) g.
Proof. unfold answer. destruct fails; [discriminate|]. intros H. inversion H. auto. Qed.

Lemma answer_blocked fails g d cursed asked :
  blocked (answer (fails, g, d, cursed) asked) <-> fails || g || d = true.
Proof.
  unfold blocked. split.
  - intros [H|[ci [E H]]].
    + unfold answer in H. destruct fails; [reflexivity| discriminate].
    + apply answer_some in E as [-> ->]. cbn [ci_global ci_dest] in H. cbn [orb].
      destruct g, d; cbn [orb] in *; try reflexivity. destruct H; discriminate.
  - intros H. unfold answer. destruct fails; [now left|]. right. eexists. split; [reflexivity|].
    cbn [ci_global ci_dest orb] in *. destruct g; [now left|]. right. exact H.
Qed.

(* ================= part obs_commit ================= *)
Section ObsCommit.

(* what obsc_ok guarantees of an arbitrary output: the five observation clauses of Props/C15.v, the curse reader's
   answer being [curse_of known r]; clause 2 is the full-strength form (ANY chain cursed on the remote is absent) *)
Definition obsc_spec (sup : N) (known : option (list N)) (r : remote) (mode : N) (o : list (N * N)) : Prop :=
  (* C15_no_observe_commit *)
  (sup <> 1%N \/ known = None \/ blocked (curse_of known r) -> o = []) /\
  (forall c, In c (snd r) -> ~ In c (map fst o)) /\
  (* C15_source_left_out_commit *)
  (forall ci c, curse_of known r = Some ci -> src_cursed ci c = true -> ~ In c (map fst o)) /\
  (* C15_observed_sources_commit *)
  (forall all ci c, known = Some all -> curse_of known r = Some ci -> In c (map fst o) ->
     In c all /\ src_cursed ci c = false /\ ci_global ci = false /\ ci_dest ci = false) /\
  (* C15_observes_exactly_commit *)
  (forall all ci sn, sup = 1%N -> known = Some all -> curse_of known r = Some ci ->
     ci_global ci = false -> ci_dest ci = false ->
     nextseq_of mode (non_cursed_sources ci all) = Some sn -> length sn = length (non_cursed_sources ci all) ->
     map fst o = non_cursed_sources ci all).

Definition clean_ci (cursed all : list N) : curse_info := CurseInfo (map (fun c => (c, memN c cursed)) all) false false.

Lemma obsc_ok_inv sup known fails g d cursed mode o :
  obsc_ok (sup, known, (fails, g, d, cursed), mode) o = true ->
  (o = [] /\ negb (N.eqb sup 1) || no_known known || fails || g || d = true) \/
  (sup = 1%N /\ fails = false /\ g = false /\ d = false /\ exists all, known = Some all /\
   (forall c, In c (map fst o) -> ~ In c cursed /\ In c all) /\
   (forall sn, nextseq_of mode (non_cursed_sources (clean_ci cursed all) all) = Some sn ->
               length sn = length (non_cursed_sources (clean_ci cursed all) all) ->
               map fst o = non_cursed_sources (clean_ci cursed all) all)).
Proof.
  unfold obsc_ok.
  destruct (negb (N.eqb sup 1) || no_known known || fails || g || d) eqn:B.
  - intros H. apply nil_test in H. left. auto.
  - intros H. right. rewrite !orb_false_iff in B. destruct B as [[[[B1 B2] B3] B4] B5].
    apply negb_false_iff, N.eqb_eq in B1. subst.
    destruct known as [all|]; [|discriminate]. repeat (split; [reflexivity|]). exists all. split; [reflexivity|].
    apply andb_true_iff in H as [H1 H2]. rewrite forallb_forall in H1. split.
    + intros c Hc. apply in_map_iff in Hc as [kv [E Hkv]]. subst c. specialize (H1 kv Hkv).
      apply andb_true_iff in H1 as [Ha Hb]. apply negb_true_iff in Ha. apply memN_false in Ha.
      cbn [in_known] in Hb. apply memN_In in Hb. auto.
    + intros sn Hsn Hl. unfold answer in H2. cbn [orb] in H2. fold (clean_ci cursed all) in H2.
      rewrite Hsn, Hl, Nat.eqb_refl in H2. apply (list_eqb_eq N.eqb) in H2; [exact H2|].
      intros a b. apply N.eqb_eq.
Qed.

(* (b) *)
Lemma obsc_sound sup known fails g d cursed mode o :
  obsc_ok (sup, known, (fails, g, d, cursed), mode) o = true -> obsc_spec sup known (fails, g, d, cursed) mode o.
Proof.
  intros H. apply obsc_ok_inv in H. unfold obsc_spec. cbn [snd].
  destruct H as [[-> B]|[-> [-> [-> [-> [all [-> [H1 H2]]]]]]]].
  - split; [reflexivity|]. split; [intros c _ []|]. split; [intros ci c _ _ []|]. split; [intros all ci c _ _ []|].
    intros all ci sn -> -> E G D _ _. exfalso. cbn [curse_of] in E. apply answer_some in E as [-> ->].
    cbn [ci_global ci_dest] in G, D. subst g. cbn [orb] in D. subst d. cbn in B. discriminate.
  - cbn [curse_of]. split.
    { intros [Hs|[Hk|Hb]]; [congruence| discriminate|]. apply answer_blocked in Hb. discriminate. }
    split. { intros c Hc Hin. apply H1 in Hin. tauto. }
    split. { intros ci c E Hc Hin. apply answer_some in E as [_ ->]. rewrite src_cursed_answer in Hc.
             apply andb_true_iff in Hc as [_ Hc]. apply memN_In in Hc. apply H1 in Hin. tauto. }
    split. { intros all' ci c E1 E Hin. inversion E1; subst all'. apply answer_some in E as [_ ->].
             cbn [ci_global ci_dest orb]. apply H1 in Hin as [Hn Ha]. split; [exact Ha|]. split; [|auto].
             rewrite src_cursed_answer. apply memN_false in Hn. rewrite Hn. apply andb_false_r. }
    intros all' ci sn _ E1 E _ _ Hsn Hl. inversion E1; subst all'. apply answer_some in E as [_ ->].
    exact (H2 sn Hsn Hl).
Qed.

(* (a) no premise *)
Lemma obsc_model_passes i : obsc_ok i (obsc_model i) = true.
Proof.
  destruct i as [[[sup known] [[[fails g] d] cursed]] mode]. unfold obsc_model, obsc_ok.
  destruct (negb (N.eqb sup 1) || no_known known || fails || g || d) eqn:B.
  - rewrite commit_no_observe; [reflexivity|].
    rewrite !orb_true_iff in B. destruct B as [[[[B|B]|B]|B]|B].
    + left. apply negb_true_iff, N.eqb_neq in B. exact B.
    + right; left. destruct known; [discriminate| reflexivity].
    + right; right. destruct known; [|now left]. apply answer_blocked. now rewrite B.
    + right; right. destruct known; [|now left]. apply answer_blocked. rewrite B. now destruct fails.
    + right; right. destruct known; [|now left]. apply answer_blocked. rewrite B. now destruct fails, g.
  - rewrite !orb_false_iff in B. destruct B as [[[[B1 B2] B3] B4] B5].
    apply negb_false_iff, N.eqb_eq in B1. subst.
    destruct known as [all|]; [|discriminate]. unfold answer. cbn [orb]. fold (clean_ci cursed all).
    apply andb_true_iff. split.
    + apply forallb_forall. intros kv Hkv.
      assert (Hin : In (fst kv) (map fst (observe_offramp 1 (Some all) (Some (clean_ci cursed all)) (nextseq_of mode))))
        by now apply in_map.
      apply commit_observed_sources in Hin as [Ha [Hc _]]. unfold clean_ci in Hc. rewrite src_cursed_answer in Hc.
      apply memN_In in Ha. cbn [in_known]. rewrite Ha in *. cbn [andb] in Hc. now rewrite Hc.
    + destruct (nextseq_of mode (non_cursed_sources (clean_ci cursed all) all)) as [sn|] eqn:Hsn; [|reflexivity].
      destruct (Nat.eqb (length sn) (length (non_cursed_sources (clean_ci cursed all) all))) eqn:Hl; [|reflexivity].
      apply Nat.eqb_eq in Hl. rewrite (commit_observes_exactly all (clean_ci cursed all) _ sn); try reflexivity; try assumption.
      apply list_eqb_refl. apply N.eqb_refl.
Qed.

Example obsc_ok_sat :
  obsc_ok (1, Some [8; 5; 3], (false, false, false, [5; 77]), 0)%N [(3, 1003); (8, 1008)]%N = true /\
  obsc_ok (1, Some [8; 5; 3], (false, true, false, [5]), 0)%N [] = true.
Proof. vm_compute; split; reflexivity. Qed.

(* the check as it was: curse state only *)
Definition obsc_ok_before (i : obsc_in) (o : list (N * N)) : bool :=
  let '(sup, known, r, mode) := i in
  let '(fails, g, d, cursed) := r in
  if fails || g || d then match o with [] => true | _ => false end
  else forallb (fun kv => negb (memN (fst kv) cursed)) o.

(* it accepted off-ramp numbers from an oracle that does not support the destination (C15_no_observe_commit),
   numbers for a chain that is no known source (C15_observed_sources_commit) and a healthy round that leaves out a
   clean known source (C15_observes_exactly_commit) *)
Example obsc_ok_before_unsound :
  (obsc_ok_before (0, Some [5], (false, false, false, []), 0)%N [(5, 1005)]%N = true /\
   ~ obsc_spec 0 (Some [5]%N) (false, false, false, []) 0 [(5, 1005)]%N) /\
  (obsc_ok_before (1, Some [5], (false, false, false, []), 0)%N [(9, 1009)]%N = true /\
   ~ obsc_spec 1 (Some [5]%N) (false, false, false, []) 0 [(9, 1009)]%N) /\
  (obsc_ok_before (1, Some [5; 6], (false, false, false, []), 0)%N [(5, 1005)]%N = true /\
   ~ obsc_spec 1 (Some [5; 6]%N) (false, false, false, []) 0 [(5, 1005)]%N).
Proof.
  split; [|split]; (split; [vm_compute; reflexivity|]); intros [H1 [_ [_ [H4 H5]]]].
  - assert (E : [(5, 1005)]%N = @nil (N * N)) by (apply H1; left; intros E; discriminate). discriminate.
  - destruct (H4 [5]%N (clean_ci [] [5]%N) 9%N eq_refl eq_refl (or_introl eq_refl)) as [[E|[]] _]. discriminate.
  - specialize (H5 [5; 6]%N (clean_ci [] [5; 6]%N) [1005; 1006]%N eq_refl eq_refl eq_refl eq_refl eq_refl eq_refl eq_refl).
    vm_compute in H5. discriminate.
Qed.

End ObsCommit.

(* ================= part obs_exec ================= *)
Section ObsExec.

(* the harness output None stands for an error of the callback, Some [] for an observation without commit reports
   (the model's Ok None), Some l for the observed commit reports.  An error observes nothing, so obse_ok has nothing
   to say about it; of an observation [Some l] it guarantees: *)
Definition obse_spec (sup : N) (known : option (list N)) (r : remote) (pending : option (list (N * N)))
           (l : list (N * N)) : Prop :=
  (* C15_no_observe_exec *)
  (known = None \/ blocked (curse_of known r) -> l = []) /\
  (* C15_source_left_out_exec: the remote's cursed chains stand for the subject set *)
  (forall c, In c (snd r) -> ~ In c (map fst l)) /\
  (* C15_reported_source_left_out_exec *)
  (forall ci c, curse_of known r = Some ci -> src_cursed ci c = true -> ~ In c (map fst l)) /\
  (* C15_observed_sources_exec *)
  (forall all ci c, known = Some all -> curse_of known r = Some ci -> In c (map fst l) ->
     In c all /\ src_cursed ci c = false) /\
  (* C15_other_sources_kept_exec *)
  (forall all ci p kv, sup = 1%N -> known = Some all -> curse_of known r = Some ci ->
     ci_global ci = false -> ci_dest ci = false -> pending = Some p ->
     In kv p -> In (fst kv) all -> src_cursed ci (fst kv) = false -> In kv l).

Lemma obse_ok_inv sup known fails g d cursed pending l :
  obse_ok (sup, known, (fails, g, d, cursed), pending) (Some l) = true ->
  (l = [] /\ no_known known || fails || g || d = true) \/
  (fails = false /\ g = false /\ d = false /\ exists all, known = Some all /\
   (forall c, In c (map fst l) -> ~ In c cursed /\ In c all) /\
   (forall p kv, sup = 1%N -> pending = Some p -> In kv p -> In (fst kv) all -> ~ In (fst kv) cursed -> In kv l)).
Proof.
  unfold obse_ok.
  destruct (no_known known || fails || g || d) eqn:B.
  - intros H. apply nil_test in H. left. auto.
  - intros H. right. rewrite !orb_false_iff in B. destruct B as [[[B2 B3] B4] B5]. subst.
    destruct known as [all|]; [|discriminate]. repeat (split; [reflexivity|]). exists all. split; [reflexivity|].
    apply andb_true_iff in H as [H1 H2]. rewrite forallb_forall in H1. split.
    + intros c Hc. apply in_map_iff in Hc as [kv [E Hkv]]. subst c. specialize (H1 kv Hkv).
      apply andb_true_iff in H1 as [Ha Hb]. apply negb_true_iff in Ha. apply memN_false in Ha.
      cbn [in_known] in Hb. apply memN_In in Hb. auto.
    + intros p kv -> -> Hkv Ha Hc. cbn [N.eqb Pos.eqb] in H2. rewrite forallb_forall in H2.
      specialize (H2 kv Hkv). cbn [in_known] in H2. apply memN_In in Ha. apply memN_false in Hc.
      rewrite Ha, Hc in H2. cbn [negb orb] in H2. now apply existsb_pN_In.
Qed.

(* (b) *)
Lemma obse_sound sup known fails g d cursed pending l :
  obse_ok (sup, known, (fails, g, d, cursed), pending) (Some l) = true ->
  obse_spec sup known (fails, g, d, cursed) pending l.
Proof.
  intros H. apply obse_ok_inv in H. unfold obse_spec. cbn [snd].
  destruct H as [[-> B]|[-> [-> [-> [all [-> [H1 H2]]]]]]].
  - split; [reflexivity|]. split; [intros c _ []|]. split; [intros ci c _ _ []|]. split; [intros all ci c _ _ []|].
    intros all ci p kv _ -> E G D _ _. exfalso. cbn [curse_of] in E. apply answer_some in E as [-> ->].
    cbn [ci_global ci_dest] in G, D. subst g. cbn [orb] in D. subst d. cbn in B. discriminate.
  - cbn [curse_of]. split.
    { intros [Hk|Hb]; [discriminate|]. apply answer_blocked in Hb. discriminate. }
    split. { intros c Hc Hin. apply H1 in Hin. tauto. }
    split. { intros ci c E Hc Hin. apply answer_some in E as [_ ->]. rewrite src_cursed_answer in Hc.
             apply andb_true_iff in Hc as [_ Hc]. apply memN_In in Hc. apply H1 in Hin. tauto. }
    split. { intros all' ci c E1 E Hin. inversion E1; subst all'. apply answer_some in E as [_ ->].
             apply H1 in Hin as [Hn Ha]. split; [exact Ha|].
             rewrite src_cursed_answer. apply memN_false in Hn. rewrite Hn. apply andb_false_r. }
    intros all' ci p kv Hs E1 E _ _ Hp Hkv Ha Hc. inversion E1; subst all'. apply answer_some in E as [_ ->].
    rewrite src_cursed_answer in Hc. apply memN_In in Ha. rewrite Ha in Hc. cbn [andb] in Hc. apply memN_false in Hc.
    apply memN_In in Ha. exact (H2 p kv Hs Hp Hkv Ha Hc).
Qed.

(* (a) no premise *)
Lemma obse_model_passes i : obse_ok i (obse_model i) = true.
Proof.
  destruct i as [[[sup known] [[[fails g] d] cursed]] pending]. unfold obse_model, obse_ok, exec_observe.
  destruct (N.eqb sup 2) eqn:S2; [reflexivity|]. destruct (N.eqb_spec sup 0) as [->|S0].
  { destruct (no_known known || fails || g || d); [reflexivity|]. now destruct pending. }
  destruct known as [all|]; [|reflexivity]. unfold answer.
  destruct fails; [reflexivity|]. cbn [ci_global ci_dest no_known orb].
  destruct g; [reflexivity|]. destruct d; [reflexivity|]. cbn [orb].
  destruct pending as [p|]; [|reflexivity]. apply andb_true_iff. split.
  - apply forallb_forall. intros kv Hkv. apply filter_In in Hkv as [_ Hf]. rewrite src_cursed_answer in Hf.
    cbn [in_known]. apply andb_true_iff in Hf as [Ha Hc]. rewrite Ha in *. cbn [andb] in Hc. now rewrite Hc.
  - destruct (N.eqb sup 1); [|reflexivity]. apply forallb_forall. intros kv Hkv. cbn [in_known].
    destruct (memN (fst kv) all) eqn:Ha; [|reflexivity]. destruct (memN (fst kv) cursed) eqn:Hc; [reflexivity|].
    cbn [negb orb]. apply existsb_pN_In. apply filter_In. split; [assumption|].
    rewrite src_cursed_answer, Ha, Hc. reflexivity.
Qed.

Example obse_ok_sat :
  obse_ok (1, Some [3; 5; 8], (false, false, false, [5; 21]), Some [(5, 1); (8, 2); (21, 4)])%N (Some [(8, 2)]%N) = true /\
  obse_ok (1, Some [3; 5; 8], (false, false, true, [5]), Some [(8, 2)])%N (Some []) = true.
Proof. vm_compute; split; reflexivity. Qed.

Definition obse_ok_before (i : obse_in) (o : obse_out) : bool :=
  let '(sup, known, r, pending) := i in
  let '(fails, g, d, cursed) := r in
  match o with
  | None => true
  | Some l => if fails || g || d then match l with [] => true | _ => false end
              else forallb (fun kv => negb (memN (fst kv) cursed)) l
  end.

(* it accepted commit reports of a chain that is no known source (the observable of finding F30 whenever the remote
   does not curse that chain) and an observation that drops the reports of a clean known source *)
Example obse_ok_before_unsound :
  (obse_ok_before (1, Some [5], (false, false, false, []), Some [(5, 1); (7, 2)])%N (Some [(5, 1); (7, 2)]%N) = true /\
   ~ obse_spec 1 (Some [5]%N) (false, false, false, []) (Some [(5, 1); (7, 2)]%N) [(5, 1); (7, 2)]%N) /\
  (obse_ok_before (1, Some [5; 6], (false, false, false, []), Some [(5, 1); (6, 2)])%N (Some [(5, 1)]%N) = true /\
   ~ obse_spec 1 (Some [5; 6]%N) (false, false, false, []) (Some [(5, 1); (6, 2)]%N) [(5, 1)]%N).
Proof.
  split; (split; [vm_compute; reflexivity|]); intros [_ [_ [_ [H4 H5]]]].
  - destruct (H4 [5]%N (clean_ci [] [5]%N) 7%N eq_refl eq_refl (or_intror (or_introl eq_refl))) as [[E|[]] _]. discriminate.
  - specialize (H5 [5; 6]%N (clean_ci [] [5; 6]%N) [(5, 1); (6, 2)]%N (6, 2)%N eq_refl eq_refl eq_refl eq_refl eq_refl eq_refl
                   (or_intror (or_introl eq_refl)) (or_intror (or_introl eq_refl)) eq_refl).
    destruct H5 as [E|[]]. discriminate.
Qed.

End ObsExec.

(* ================= part accept (both plugins) ================= *)
Section Accept.

Lemma any_cursed_answer fails g d cursed srcs :
  any_cursed (answer (fails, g, d, cursed) srcs) srcs <->
  fails || g || d || existsb (fun c => memN c cursed) srcs = true.
Proof.
  unfold any_cursed. rewrite orb_true_iff, <- (answer_blocked fails g d cursed srcs). split.
  - intros [H|[ci [c [E [Hin Hc]]]]]; [now left|]. right. apply answer_some in E as [_ ->].
    rewrite src_cursed_answer in Hc. apply andb_true_iff in Hc as [_ Hc]. apply existsb_exists. eauto.
  - intros [H|H]; [now left|]. destruct fails eqn:F.
    + left. apply answer_blocked. reflexivity.
    + right. apply existsb_exists in H as [c [Hin Hc]]. unfold answer. eexists. exists c.
      split; [reflexivity|]. split; [assumption|]. rewrite src_cursed_answer, Hc. apply memN_In in Hin. now rewrite Hin.
Qed.

(* (b) C15_accept_commit / C15_accept_exec for an arbitrary verdict o (0 refuse, 1 accept, 2 error): a report naming
   sources is not accepted under a global, destination or named-source curse nor when the curse read fails.
   Not covered: the "nothing else is refused" clauses (C15_accept_*_unaffected) — those are the model equality. *)
Lemma acc_sound plugin srcs fails g d cursed extra o :
  acc_ok (plugin, srcs, (fails, g, d, cursed), extra) o = true ->
  srcs <> [] -> any_cursed (answer (fails, g, d, cursed) srcs) srcs -> o <> 1%N.
Proof.
  unfold acc_ok. intros H Hne Hc. apply any_cursed_answer in Hc.
  destruct srcs as [|s0 srcs]; [congruence|]. rewrite Hc in H. apply negb_true_iff, N.eqb_neq in H. exact H.
Qed.

(* (a) no premise *)
Lemma acc_model_passes i : acc_ok i (acc_model i) = true.
Proof.
  destruct i as [[[plugin srcs] [[[fails g] d] cursed]] [[[[[tp gp] sigs] info_ok] rmn] f]].
  unfold acc_ok, acc_model. destruct srcs as [|s0 srcs]; [reflexivity|].
  destruct (fails || g || d || existsb (fun c => memN c cursed) (s0 :: srcs)) eqn:B; [|reflexivity].
  apply any_cursed_answer in B. apply negb_true_iff, N.eqb_neq. intros E.
  assert (Hne : s0 :: srcs <> []) by discriminate.
  destruct (N.eqb plugin 0); apply curse_code_1 in E; revert E.
  - now apply commit_accept_refuses.
  - now apply exec_accept_refuses.
Qed.

Example acc_ok_sat :
  acc_ok (0, [3; 5], (false, false, false, [5]), (0, 0, 0, true, false, 0))%N 0%N = true /\
  acc_ok (1, [3; 8], (false, false, false, [5]), (0, 0, 0, true, false, 0))%N 1%N = true /\
  acc_ok (1, [8], (true, false, false, []), (0, 0, 0, true, false, 0))%N 2%N = true /\
  acc_ok (0, [3; 5], (false, false, false, [5]), (0, 0, 0, true, false, 0))%N 1%N = false.
Proof. vm_compute; repeat split; reflexivity. Qed.

End Accept.

(* ================= plugin level: commit.Plugin.Observation in every state ================= *)
Section CycleCommit.

(* states 1 and 3 (SelectingRangesForReport, WaitingForReportTransmission) observe the off-ramp numbers: the whole
   obs_commit specification; state 2 (BuildingReport) reads no off-ramp numbers; so in EVERY state nothing is observed
   under a blocking curse and no chain cursed on the remote appears; merkle roots only for the agreed ranges
   (roots of agreed ranges are not curse gated in the code — acceptance stops such a report, see acc_sound) *)
Definition cycc_spec (st sup : N) (known : option (list N)) (r : remote) (mode : N) (sel : list N) (o : cycc_out) : Prop :=
  (st = 2%N -> fst o = []) /\
  (st <> 2%N -> obsc_spec sup known r mode (fst o)) /\
  (blocked (curse_of known r) -> fst o = []) /\
  (forall c, In c (snd r) -> ~ In c (map fst (fst o))) /\
  (forall c, In c (snd o) -> In c sel).

Lemma cycc_sound st sup known fails g d cursed mode sel o :
  cycc_ok (st, sup, known, (fails, g, d, cursed), mode, sel) o = true ->
  cycc_spec st sup known (fails, g, d, cursed) mode sel o.
Proof.
  unfold cycc_ok, cycc_spec. rewrite !andb_true_iff. intros [[H1 H2] H3].
  rewrite forallb_forall in H3.
  assert (Hsel : forall c, In c (snd o) -> In c sel) by (intros c Hc; apply memN_In; now apply H3).
  destruct (N.eqb_spec st 2) as [->|Hst].
  - apply nil_test in H2. rewrite H2. cbn [map]. repeat split; try congruence; auto.
  - apply obsc_sound in H1. split; [congruence|]. split; [auto|].
    destruct H1 as [Ha [Hb _]]. split; [|split; [exact Hb| exact Hsel]].
    intros Hbl. apply Ha. auto.
Qed.

(* (a) no premise *)
Lemma cycc_model_passes i : cycc_ok i (cycc_model i) = true.
Proof.
  destruct i as [[[[[st sup] known] [[[fails g] d] cursed]] mode] sel]. unfold cycc_ok, cycc_model.
  destruct (N.eqb st 2) eqn:Hst; cbn [fst snd].
  - cbn [andb]. apply forallb_forall. intros c Hc. apply memN_In.
    destruct (N.eqb sup 2); [destruct Hc|]. unfold sortN in Hc. now apply sort_by_in in Hc.
  - pose proof (obsc_model_passes (sup, known, (fails, g, d, cursed), mode)) as H. unfold obsc_model in H.
    rewrite H. reflexivity.
Qed.

Example cycc_ok_sat :
  cycc_ok (1, 1, Some [8; 5; 3], (false, false, false, [5]), 0, [])%N ([(3, 1003); (8, 1008)]%N, []) = true /\
  cycc_ok (2, 1, Some [8; 5; 3], (false, true, false, [5]), 0, [8; 3])%N ([], [3; 8]%N) = true.
Proof. vm_compute; split; reflexivity. Qed.

End CycleCommit.

(* ================= plugin level: execute.Plugin.Observation in every phase ================= *)
Section CycleExec.

(* phase 1 (GetCommitReports): no messages, no nonces and the whole obs_exec specification for the commit reports;
   phases 2 and 3 read nothing curse gated: they only repeat / refer to the commit reports the previous outcome
   agreed on (the code has no curse re-check there — acceptance stops such a report, see acc_sound) *)
Definition cyce_spec (ph sup : N) (known : option (list N)) (r : remote) (pend : option (list (N * N)))
           (cr ms : list (N * N)) (ns : list N) : Prop :=
  (ph = 1%N -> ms = [] /\ ns = [] /\ obse_spec sup known r pend cr) /\
  (ph <> 1%N -> forall p, p = match pend with Some p => p | None => [] end ->
     (forall kv, In kv cr -> In kv p) /\
     (forall kv, In kv ms -> In (fst kv) (map fst p)) /\
     (forall c, In c ns -> In c (map fst p))).

Lemma cyce_sound ph sup known fails g d cursed pend cr ms ns :
  cyce_ok (ph, sup, known, (fails, g, d, cursed), pend) (Some (cr, ms, ns)) = true ->
  cyce_spec ph sup known (fails, g, d, cursed) pend cr ms ns.
Proof.
  unfold cyce_ok, cyce_spec. destruct (N.eqb_spec ph 1) as [->|Hph].
  - rewrite andb_true_iff. intros [H1 H2]. split; [intros _|congruence].
    destruct ms; [|discriminate]. destruct ns; [|discriminate].
    repeat (split; [reflexivity|]). now apply obse_sound.
  - rewrite !andb_true_iff, !forallb_forall. intros [[H1 H2] H3]. split; [congruence|]. intros _ p ->.
    split; [|split].
    + intros kv Hkv. apply existsb_pN_In. now apply H1.
    + intros kv Hkv. apply memN_In. now apply H2.
    + intros c Hc. apply memN_In. now apply H3.
Qed.

(* (a) no premise *)
Lemma cyce_model_passes i : cyce_ok i (cyce_model i) = true.
Proof.
  destruct i as [[[[ph sup] known] [[[fails g] d] cursed]] pend]. unfold cyce_ok, cyce_model.
  destruct (N.eqb ph 1) eqn:Hph.
  - pose proof (obse_model_passes (sup, known, (fails, g, d, cursed), pend)) as H. unfold obse_model in H.
    destruct (exec_observe sup known _ pend) as [[g'|]| | |]; try reflexivity; cbn [andb]; exact H.
  - destruct (N.eqb sup 2); [reflexivity|]. destruct (N.eqb ph 2).
    + rewrite !andb_true_iff, !forallb_forall. repeat split.
      * intros kv Hkv. now apply existsb_pN_In.
      * intros kv Hkv. apply in_map_iff in Hkv as [kv' [E Hkv']]. subst kv. cbn [fst]. apply memN_In. now apply in_map.
      * intros c [].
    + rewrite !andb_true_iff, !forallb_forall. repeat split.
      * intros kv [].
      * intros kv [].
      * intros c Hc. apply memN_In. destruct (N.eqb sup 1); [exact Hc| destruct Hc].
Qed.

Example cyce_ok_sat :
  cyce_ok (1, 1, Some [3; 5; 8], (false, false, false, [5; 21]), Some [(5, 1); (8, 2); (21, 4)])%N
          (Some ([(8, 2)], [], []))%N = true /\
  cyce_ok (2, 1, Some [3; 5; 8], (false, true, false, [5]), Some [(5, 1); (8, 2)])%N
          (Some ([(5, 1); (8, 2)], [(5, 10); (8, 20)], []))%N = true /\
  cyce_ok (3, 1, Some [3; 5; 8], (true, false, false, []), Some [(5, 1); (8, 2)])%N
          (Some ([], [], [5; 8]))%N = true.
Proof. vm_compute; repeat split; reflexivity. Qed.

End CycleExec.

(* ================= the plugin-level checks as they were ================= *)
Definition cycc_ok_before (i : cycc_in) (o : cycc_out) : bool :=
  let '(st, sup, known, r, mode, sel) := i in
  let '(fails, g, d, cursed) := r in
  let off := fst o in
  (if fails || g || d then match off with [] => true | _ => false end
   else forallb (fun kv => negb (memN (fst kv) cursed)) off) &&
  (if N.eqb st 2 then match off with [] => true | _ => false end else true) &&
  forallb (fun c => memN c sel) (snd o).

Definition cyce_ok_before (i : cyce_in) (o : cyce_out) : bool :=
  let '(ph, sup, known, r, pend) := i in
  let '(fails, g, d, cursed) := r in
  match o with
  | None => true
  | Some (cr, ms, ns) =>
      if N.eqb ph 1 then
        (match ms, ns with [], [] => true | _, _ => false end) &&
        (if fails || g || d then match cr with [] => true | _ => false end
         else forallb (fun kv => negb (memN (fst kv) cursed) &&
                                 match known with Some all => memN (fst kv) all | None => false end) cr)
      else
        let p := match pend with Some p => p | None => [] end in
        forallb (fun kv => existsb (pN_eqb kv) p) cr &&
        forallb (fun kv => memN (fst kv) (map fst p)) ms &&
        forallb (fun c => memN c (map fst p)) ns
  end.

(* commit: numbers observed by an oracle without destination support passed; execute: dropping the reports of a clean
   known source passed *)
Example cycc_ok_before_unsound :
  cycc_ok_before (1, 0, Some [5], (false, false, false, []), 0, [])%N ([(5, 1005)]%N, []) = true /\
  ~ cycc_spec 1 0 (Some [5]%N) (false, false, false, []) 0 [] ([(5, 1005)]%N, []).
Proof.
  split; [vm_compute; reflexivity|]. intros [_ [H _]]. destruct (H ltac:(discriminate)) as [H1 _].
  assert (E : [(5, 1005)]%N = @nil (N * N)) by (apply H1; left; intros E; discriminate). discriminate.
Qed.

Example cyce_ok_before_unsound :
  cyce_ok_before (1, 1, Some [5; 6], (false, false, false, []), Some [(5, 1); (6, 2)])%N (Some ([(5, 1)], [], []))%N = true /\
  ~ cyce_spec 1 1 (Some [5; 6]%N) (false, false, false, []) (Some [(5, 1); (6, 2)]%N) [(5, 1)]%N [] [].
Proof.
  split; [vm_compute; reflexivity|]. intros [H _]. destruct (H eq_refl) as [_ [_ [_ [_ [_ [_ H5]]]]]].
  specialize (H5 [5; 6]%N (clean_ci [] [5; 6]%N) [(5, 1); (6, 2)]%N (6, 2)%N eq_refl eq_refl eq_refl eq_refl eq_refl eq_refl
                 (or_intror (or_introl eq_refl)) (or_intror (or_introl eq_refl)) eq_refl).
  destruct H5 as [E|[]]. discriminate.
Qed.

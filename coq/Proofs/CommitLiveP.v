(* CommitLiveP.v — C04, liveness: from a same-view honest quorum to consensus (over the C01 model), and from there,
   over whole histories of the round state machine (C03 model), to a generated report covering the pending messages
   within (max checks + 2) + 2 non-retry rounds from ANY previous outcome. *)
Require Import Verif.Model.Base Verif.Proofs.BaseP Verif.Model.Consensus Verif.Proofs.ConsensusP
               Verif.Model.SeqRange Verif.Model.CommitMerkle Verif.Proofs.CommitMerkleP
               Verif.Model.CommitConsensus Verif.Proofs.CommitConsensusP
               Verif.Model.CommitSys Verif.Proofs.CommitSysP Verif.Proofs.CommitSysConsP
               Verif.Model.CommitLive.
Require Verif.Model.CommitSM Verif.Proofs.CommitSMP.
From Coq Require Import ZifyN ZifyNat ZifyBool.
Module SM := Verif.Model.CommitSM.
Module SMP := Verif.Proofs.CommitSMP.

(* ====================================================================================================== *)
(*  1. same view  =>  consensus                                                                            *)
(* ====================================================================================================== *)

(* The honest oracles that report key k in this field have the same view v of it:
     - at least 2f+1 distinct oracles report exactly (k, v)   (by validation they are designated: C01_designated);
     - the oracles reporting any other value for k all lie in a set B of at most f oracles (the Byzantine ones).
   Oracles that report nothing for k (not designated, reader failed, lost observation) are unconstrained. *)
Definition same_view {V} (get : obs -> list (N * V)) (aos : list aobs) (k : N) (f : Z) (v : V) : Prop :=
  (exists H, NoDup H /\ (Z.to_nat (2 * f + 1) <= length H)%nat /\ forall o, In o H -> reported get aos o k v) /\
  (exists B, NoDup B /\ (length B <= Z.to_nat f)%nat /\
             forall o v', reported get aos o k v' -> v' <> v -> In o B).

(* the counting core: v has 2f+1 distinct reporters, any other value at most f < 2f+1 *)
Lemma same_view_agreed {V} (get : obs -> list (N * V)) eqb
      (eqb_spec : forall x y : V, reflect (x = y) (eqb x y)) aos k f v :
  NoDup (map fst aos) ->
  (forall o ob, In (o, ob) aos -> NoDup (map fst (get ob))) ->
  (0 <= f < 2^63)%Z ->
  same_view get aos k f v -> agreed_value get aos k (two_f_plus_1 f) v.
Proof.
  intros NDo Hone Hf [[H [NDH [HlH HinH]]] [B [NDB [HlB HinB]]]].
  pose proof (votes_one_per_oracle get aos k NDo Hone) as NDv.
  rewrite (two_f_plus_1_int f Hf). split.
  - exists (reporters eqb v (votes get aos k)). split; [now apply reporters_nodup|]. split.
    + assert (Hincl : incl H (reporters eqb v (votes get aos k))).
      { intros o Ho. apply (reporters_in eqb eqb_spec). apply votes_in. now apply HinH. }
      pose proof (NoDup_incl_length NDH Hincl) as Hlen. lia.
    + intros o. rewrite (reporters_in eqb eqb_spec). apply votes_in.
  - intros v' [rs [NDr [Hl Hin]]]. destruct (eqb_spec v' v) as [E|Hne]; [exact E|]. exfalso.
    assert (Hincl : incl rs B).
    { intros o Ho. apply (HinB o v'); [now apply Hin|exact Hne]. }
    pose proof (NoDup_incl_length NDr Hincl) as Hlen. lia.
Qed.

(* two same views of one key coincide (so "the" view is well defined) *)
Lemma same_view_unique {V} (get : obs -> list (N * V)) eqb
      (eqb_spec : forall x y : V, reflect (x = y) (eqb x y)) aos k f v v' :
  NoDup (map fst aos) ->
  (forall o ob, In (o, ob) aos -> NoDup (map fst (get ob))) ->
  (0 <= f < 2^63)%Z ->
  same_view get aos k f v -> same_view get aos k f v' -> v = v'.
Proof.
  intros NDo Hone Hf H1 H2.
  destruct (same_view_agreed get eqb eqb_spec aos k f v NDo Hone Hf H1) as [Hs _].
  destruct (same_view_agreed get eqb eqb_spec aos k f v' NDo Hone Hf H2) as [_ Hu].
  now apply Hu.
Qed.

Section Quorum.
  Variables (retry : bool) (roles : roles_t) (known : list N) (dest : N) (aos : list aobs).
  Hypothesis Hvalid : valid_input retry roles known dest aos.

  (* honest_quorum_consensus: the DON agrees (2F+1 same view) on the f of the destination and of chain k; then the
     consensus computation succeeds, adopts f for k, and a same view v of k is THE agreed value of k — at 2f+1 for
     source-chain data (merkle root, on-ramp latest), at 2*f_dest+1 for the off-ramp next number, which is
     destination data (fixes/F26.patch). *)
  Theorem honest_quorum_consensus F fd k f :
    (0 <= F < 2^63)%Z -> (f < 2^63)%Z -> (fd < 2^63)%Z ->
    same_view fchain_kv aos dest F fd -> same_view fchain_kv aos k F f ->
    exists c, get_consensus F dest aos = Ok c /\
      alookup dest (c_fchain c) = Some fd /\ alookup k (c_fchain c) = Some f /\
      (forall v, same_view roots_kv aos k f v -> alookup k (c_roots c) = Some v) /\
      (forall v, same_view onramp_kv aos k f v -> alookup k (c_onramp c) = Some v) /\
      (forall v, same_view offramp_kv aos k fd v -> alookup k (c_offramp c) = Some v).
  Proof.
    intros HF Hf Hfdlt Hvd Hvk.
    pose proof (proj1 Hvalid) as NDo.
    pose proof (one_fchain retry roles known dest aos Hvalid) as Hof.
    pose proof (same_view_agreed fchain_kv Z.eqb Z_eqb_reflect aos dest F fd NDo Hof HF Hvd) as Ad.
    pose proof (same_view_agreed fchain_kv Z.eqb Z_eqb_reflect aos k F f NDo Hof HF Hvk) as Ak.
    (* the destination's f is agreed, so the computation does not fail *)
    assert (Hd : alookup dest (consensus_map Z.eqb (fun _ : N => Some (two_f_plus_1 F)) (agg_map fchain_kv aos)) = Some fd).
    { apply alookup_NoDup_In; [apply consensus_map_keys_nodup, agg_map_keys_nodup|].
      apply (field_consensus_iff fchain_kv Z.eqb Z_eqb_reflect _ aos dest fd NDo Hof).
      - intros k' t Ht. inversion Ht; subst. apply two_f_plus_1_positive.
      - exists (two_f_plus_1 F). split; [reflexivity|exact Ad]. }
    destruct (get_consensus F dest aos) as [c| | |] eqn:Hc.
    2:{ apply dest_required in Hc. rewrite Hd in Hc. discriminate. }
    2,3: unfold get_consensus in Hc; destruct (alookup dest _); discriminate.
    exists c. split; [reflexivity|].
    assert (Hfd : alookup dest (c_fchain c) = Some fd)
      by (apply (fchain_iff retry roles known dest aos Hvalid F c Hc dest fd); exact Ad).
    assert (Hfk : alookup k (c_fchain c) = Some f)
      by (apply (fchain_iff retry roles known dest aos Hvalid F c Hc k f); exact Ak).
    split; [exact Hfd|]. split; [exact Hfk|].
    pose proof (fchain_positive retry roles known dest aos Hvalid F c Hc k f Hfk) as Hpos.
    assert (Hf' : (0 <= f < 2^63)%Z) by lia.
    destruct (per_chain_iff retry roles known dest aos Hvalid F c Hc k) as [H1 [H2 [H3 _]]].
    split; [|split]; intros v Hv.
    - apply H1. exists f. split; [exact Hfk|].
      apply (same_view_agreed roots_kv root_eqb root_eqb_reflect aos k f v NDo (one_roots retry roles known dest aos Hvalid) Hf' Hv).
    - apply H2. exists f. split; [exact Hfk|].
      apply (same_view_agreed onramp_kv N.eqb N_eqb_reflect aos k f v NDo (one_onramp retry roles known dest aos Hvalid) Hf' Hv).
    - apply H3. exists fd. split; [exact Hfd|].
      pose proof (fchain_positive retry roles known dest aos Hvalid F c Hc dest fd Hfd) as Hposd.
      assert (Hfd' : (0 <= fd < 2^63)%Z) by lia.
      apply (same_view_agreed offramp_kv N.eqb N_eqb_reflect aos k fd v NDo (one_offramp retry roles known dest aos Hvalid) Hfd' Hv).
  Qed.
End Quorum.

(* ====================================================================================================== *)
(*  2. histories of the round state machine                                                                *)
(* ====================================================================================================== *)

Lemma sm_root_eqb_refl (r : SM.root) : SM.root_eqb r r = true.
Proof. destruct r as [[[c [s e]] a] rt]. cbn [SM.root_eqb]. now rewrite !N.eqb_refl. Qed.

(* RMN: either no bundle in the query (RMN disabled) or a well-formed bundle whose lane updates include the root *)
Definition bundle_covers (q : SM.query) (r : SM.root) : Prop :=
  match SM.q_sigs q with
  | None => True
  | Some b => exists sigs signed,
      SM.parse_sigs (SM.b_sigs b) = Some sigs /\ SM.parse_lanes (SM.b_lanes b) = Some signed /\ In r signed
  end.

Lemma build_report_has q c prev r :
  In r (SM.c_roots c) -> bundle_covers q r ->
  SM.o_type (SM.build_report q c prev) = SM.T_generated /\ In r (SM.o_roots (SM.build_report q c prev)).
Proof.
  intros Hr Hb. unfold SM.build_report, bundle_covers in *.
  assert (Hfin : forall roots sigs, In r roots ->
            SM.o_type (SM.finish_report prev roots sigs) = SM.T_generated /\
            In r (SM.o_roots (SM.finish_report prev roots sigs))).
  { intros roots sigs Hi. destruct roots as [|x l]; [contradiction|].
    cbn [SM.finish_report SM.o_type SM.o_roots]. split; [reflexivity|exact Hi]. }
  destruct (SM.q_sigs q) as [b|].
  - destruct Hb as [sigs [signed [E1 [E2 Hi]]]]. rewrite E1, E2. apply Hfin.
    apply filter_In. split; [now apply sort_by_in|].
    apply existsb_exists. exists r. split; [exact Hi|apply sm_root_eqb_refl].
  - apply Hfin. now apply sort_by_in.
Qed.

(* uint64 on the wire: observed on-ramp numbers are below 2^64 *)
Definition wire_u64 (aos : list aobs) : Prop :=
  forall o ob kk m, In (o, ob) aos -> In (kk, m) (o_onramp ob) -> u64 m.

Section Hist.
  Variable cfg_of : cons -> SM.rmn_cfg.
  Variables (F : Z) (dest : N).
  Variables (max n : N).

  Local Notation step := (sys_step cfg_of F dest max n).
  Local Notation run := (sys_run cfg_of F dest max n).
  Local Notation rounds := (sys_rounds cfg_of F dest).
  Local Notation eff prev rs := (SMP.eff_count max n prev (sys_rounds cfg_of F dest rs)).
  Local Notation state o := (SM.next_state (SM.o_type o)).

  (* P holds of every round of the history, each taken with the outcome that precedes it *)
  Fixpoint hist_all (P : SM.outcome -> round -> Prop) (prev : SM.outcome) (rs : list round) : Prop :=
    match rs with
    | [] => True
    | r :: rs' => P prev r /\ hist_all P (step prev r) rs'
    end.

  Lemma run_app prev l1 l2 : run prev (l1 ++ l2) = run (run prev l1) l2.
  Proof. unfold sys_run, sys_rounds, SM.run. now rewrite map_app, fold_left_app. Qed.

  Lemma run_cons prev r l : run prev (r :: l) = run (step prev r) l.
  Proof. reflexivity. Qed.

  Lemma eff_count_app : forall l1 l2 prev,
    SMP.eff_count max n prev (l1 ++ l2) =
    (SMP.eff_count max n prev l1 + SMP.eff_count max n (SM.run max n prev l1) l2)%N.
  Proof.
    induction l1 as [|r l1 IH]; intros l2 prev; [reflexivity|].
    cbn [app SMP.eff_count]. rewrite IH. unfold SM.run. cbn [fold_left]. lia.
  Qed.

  Lemma eff_app prev l1 l2 : eff prev (l1 ++ l2) = (eff prev l1 + eff (run prev l1) l2)%N.
  Proof. unfold sys_rounds. rewrite map_app. apply eff_count_app. Qed.

  Lemma eff_single prev r : (eff prev [r] <= 1)%N.
  Proof. cbn [sys_rounds map SMP.eff_count]. destruct (SMP.is_retry _ _); lia. Qed.

  Lemma eff_cons_le prev r l : (eff prev (r :: l) <= 1 + eff (step prev r) l)%N.
  Proof. unfold sys_rounds, sys_step. cbn [map SMP.eff_count]. destruct (SMP.is_retry _ _); lia. Qed.

  Lemma hist_all_app P : forall l1 l2 prev,
    hist_all P prev (l1 ++ l2) <-> hist_all P prev l1 /\ hist_all P (run prev l1) l2.
  Proof.
    induction l1 as [|r l1 IH]; intros l2 prev.
    - cbn [app hist_all]. unfold sys_run, SM.run. cbn [sys_rounds map fold_left]. tauto.
    - cbn [app hist_all]. rewrite IH, run_cons. tauto.
  Qed.

  Lemma hist_all_at P prev l1 r l2 : hist_all P prev (l1 ++ r :: l2) -> P (run prev l1) r.
  Proof. intros H. apply hist_all_app in H. destruct H as [_ H]. cbn [hist_all] in H. tauto. Qed.

  (* ---------- RMN-retry rounds leave the building state untouched; the next other round comes ---------- *)
  Lemma skip_retries : forall rs prev,
    state prev = SM.Building -> (1 <= eff prev rs)%N ->
    exists mid r post, rs = mid ++ r :: post /\ run prev mid = prev /\ eff prev mid = 0%N /\
                       SM.q_retry (fst r) = false.
  Proof.
    induction rs as [|r rs IH]; intros prev St H.
    - cbn in H. lia.
    - destruct (SM.q_retry (fst r)) eqn:R.
      + assert (IR : SMP.is_retry prev (to_round_in cfg_of F dest r) = true).
        { unfold SMP.is_retry. rewrite St. cbn [SM.state_eqb andb to_round_in fst]. exact R. }
        pose proof (SMP.retry_step_identity max n prev _ IR) as Eid.
        cbn [sys_rounds map SMP.eff_count] in H. rewrite IR, Eid in H.
        destruct (IH prev St) as [mid [r' [post [E [Hrun [Heff Hq]]]]]]; [exact H|].
        exists (r :: mid), r', post. split; [now rewrite E|]. split; [|split; [|exact Hq]].
        * rewrite run_cons. unfold sys_step. rewrite Eid. exact Hrun.
        * cbn [sys_rounds map SMP.eff_count]. rewrite IR, Eid. exact Heff.
      + exists [], r, rs. repeat split. exact R.
  Qed.

End Hist.

Section Live.
  Variable cfg_of : cons -> SM.rmn_cfg.
  Variables (F : Z) (dest : N) (roles : roles_t) (known : list N).
  Variables (k : N) (f fd : Z).
  Variable readable : N -> N -> Prop.
  Variables (max n : N).

  Local Notation step := (sys_step cfg_of F dest max n).
  Local Notation run := (sys_run cfg_of F dest max n).
  Local Notation rounds := (sys_rounds cfg_of F dest).
  Local Notation eff prev rs := (SMP.eff_count max n prev (sys_rounds cfg_of F dest rs)).
  Local Notation state o := (SM.next_state (SM.o_type o)).

  (* the DON's view of the home-chain configuration: f of the destination and of chain k, at 2F+1 *)
  Definition fchain_view (aos : list aobs) : Prop :=
    same_view fchain_kv aos dest F fd /\ same_view fchain_kv aos k F f.

  (* What a round must offer, by the state the previous outcome puts the processor in (observation.go:getObservation:
     on-ramp / off-ramp numbers are observed when selecting, merkle roots over the selected intervals when building):
       selecting : validated observations with a same view (off, on) of chain k — off among the destination readers
                   at 2*f_dest+1, on among the readers of k at 2*f_k+1 —, messages pending (off <= on), and the
                   interval that will be selected is readable;
       building  : nothing in an RMN-retry round; otherwise validated observations in which, for every READABLE
                   interval selected for k, the honest quorum reports the same root (and the RMN bundle, if any,
                   covers it);
       waiting   : nothing at all (no consensus needed). *)
  Definition round_live (prev : SM.outcome) (r : round) : Prop :=
    match state prev with
    | SM.Waiting => True
    | SM.Selecting =>
        valid_input (SM.q_retry (fst r)) roles known dest (snd r) /\ wire_u64 (snd r) /\ fchain_view (snd r) /\
        exists off on,
          same_view offramp_kv (snd r) k fd off /\ same_view onramp_kv (snd r) k f on /\ (off <= on)%N /\
          readable off (N.min on (off + n - 1))
    | SM.Building =>
        SM.q_retry (fst r) = false ->
        valid_input false roles known dest (snd r) /\ fchain_view (snd r) /\
        forall s e, In (k, (s, e)) (SM.o_ranges prev) -> readable s e ->
          exists a rt, same_view roots_kv (snd r) k f (k, a, (s, e), rt) /\ bundle_covers (fst r) (k, (s, e), a, rt)
    end.

  (* ---------- a selecting round with a same view selects [off, min(on, off+n-1)] for k ---------- *)
  Lemma select_round prev r :
    (1 <= n)%N -> (0 <= F < 2^63)%Z -> (f < 2^63)%Z -> (fd < 2^63)%Z ->
    state prev = SM.Selecting -> round_live prev r ->
    exists off on,
      same_view offramp_kv (snd r) k fd off /\ same_view onramp_kv (snd r) k f on /\ (off <= on)%N /\
      readable off (N.min on (off + n - 1)) /\
      SM.o_type (step prev r) = SM.T_selected /\
      In (k, (off, N.min on (off + n - 1))) (SM.o_ranges (step prev r)).
  Proof.
    intros Hn HF Hf Hfd St HL. destruct r as [q aos]. unfold round_live in HL. rewrite St in HL. cbn [fst snd] in *.
    destruct HL as [Hv [Hu [[Vd Vk] [off [on [Voff [Von [Hle Hrd]]]]]]]].
    destruct (honest_quorum_consensus _ roles known dest aos Hv F fd k f HF Hf Hfd Vd Vk)
      as [c [Hc [_ [Hfk [_ [Hon Hoff]]]]]].
    specialize (Hon _ Von). specialize (Hoff _ Voff).
    exists off, on. split; [exact Voff|]. split; [exact Von|]. split; [exact Hle|]. split; [exact Hrd|].
    unfold sys_step, SM.run_step, to_round_in, round_cons, round_cons_with. cbn [fst snd]. rewrite Hc.
    unfold SM.get_outcome, SM.get_outcome_with. rewrite St. cbn [SM.state_eqb andb].
    unfold SM.select_outcome_with. cbn [conv_cons SM.c_on SM.c_off SM.c_cfg].
    destruct (report_ranges_with limit (c_onramp c) (c_offramp c) n) as [rs os] eqn:Err.
    cbn [SM.o_type SM.o_ranges]. split; [reflexivity|].
    destruct (get_consensus_inv _ roles known dest aos Hv F c Hc) as [_ [[fd' [_ Eoff]] [_ [Eon _]]]].
    assert (ND : NoDup (map fst (c_offramp c))).
    { rewrite Eoff. apply consensus_map_keys_nodup, agg_map_keys_nodup. }
    assert (Hu64 : forall kk m, alookup kk (c_onramp c) = Some m -> u64 m).
    { intros kk m Hm. apply alookup_In in Hm. rewrite Eon in Hm.
      apply (consensus_value_reported onramp_kv N.eqb N_eqb_reflect) in Hm.
      destruct Hm as [o [ob [Hi Hg]]]. exact (Hu o ob kk m Hi Hg). }
    pose proof (report_ranges_exact (c_onramp c) (c_offramp c) n rs os ND Hu64 Hn Err) as [Hin _].
    apply Hin. exists on. split; [now apply alookup_In|]. split; [exact Hon|]. split; [exact Hle|reflexivity].
  Qed.

  (* ---------- a non-retry building round reports the quorum's root of every readable selected interval ---------- *)
  Lemma build_round prev r s e :
    (0 <= F < 2^63)%Z -> (f < 2^63)%Z -> (fd < 2^63)%Z ->
    state prev = SM.Building -> SM.q_retry (fst r) = false -> round_live prev r ->
    In (k, (s, e)) (SM.o_ranges prev) -> readable s e ->
    exists a rt,
      valid_input false roles known dest (snd r) /\ fchain_view (snd r) /\
      same_view roots_kv (snd r) k f (k, a, (s, e), rt) /\
      SM.o_type (step prev r) = SM.T_generated /\ In (k, (s, e), a, rt) (SM.o_roots (step prev r)).
  Proof.
    intros HF Hf Hfd St Hq HL Hin Hrd. destruct r as [q aos]. unfold round_live in HL. rewrite St in HL. cbn [fst snd] in *.
    destruct (HL Hq) as [Hv [[Vd Vk] Hroots]].
    destruct (Hroots s e Hin Hrd) as [a [rt [Vr Hb]]].
    destruct (honest_quorum_consensus _ roles known dest aos Hv F fd k f HF Hf Hfd Vd Vk)
      as [c [Hc [_ [Hfk [Hr _]]]]].
    specialize (Hr _ Vr).
    exists a, rt. split; [exact Hv|]. split; [split; assumption|]. split; [exact Vr|].
    unfold sys_step, SM.run_step, to_round_in, round_cons, round_cons_with. cbn [fst snd]. rewrite Hc.
    unfold SM.get_outcome, SM.get_outcome_with. rewrite St, Hq. cbn [SM.state_eqb andb].
    apply build_report_has; [|exact Hb].
    cbn [conv_cons SM.c_roots]. apply alookup_In in Hr. apply in_map_iff.
    exists (k, (k, a, (s, e), rt)). split; [reflexivity|exact Hr].
  Qed.

  (* ---------- the history theorem ---------- *)
  Theorem liveness_core prev rs :
    u64 max -> (1 <= n)%N -> (0 <= F < 2^63)%Z -> (f < 2^63)%Z -> (fd < 2^63)%Z ->
    hist_all cfg_of F dest max n round_live prev rs ->
    (max + 2 + 2 <= eff prev rs)%N ->
    exists pre r1 mid r2 post off on a rt,
      rs = pre ++ r1 :: mid ++ r2 :: post /\
      (eff prev (pre ++ r1 :: mid ++ [r2]) <= max + 2 + 2)%N /\
      (* r1: a selecting round; the quorum's view of k is (off, on), messages pending *)
      state (run prev pre) = SM.Selecting /\
      same_view offramp_kv (snd r1) k fd off /\ same_view onramp_kv (snd r1) k f on /\ (off <= on)%N /\
      readable off (N.min on (off + n - 1)) /\
      (* mid: RMN-retry rounds only; r2: the building round *)
      run prev (pre ++ r1 :: mid) = step (run prev pre) r1 /\
      state (run prev (pre ++ r1 :: mid)) = SM.Building /\ SM.q_retry (fst r2) = false /\
      valid_input false roles known dest (snd r2) /\ fchain_view (snd r2) /\
      same_view roots_kv (snd r2) k f (k, a, (off, N.min on (off + n - 1)), rt) /\
      (* its outcome: a generated report with a root of k over [off, min(on, off+n-1)] *)
      SM.o_type (run prev (pre ++ r1 :: mid ++ [r2])) = SM.T_generated /\
      In (k, (off, N.min on (off + n - 1)), a, rt) (SM.o_roots (run prev (pre ++ r1 :: mid ++ [r2]))).
  Proof.
    intros Hm Hn HF Hf Hfd Hh He.
    (* C03: the selecting state is reached within max+2 non-retry rounds *)
    destruct (SMP.recovery max n prev (rounds rs) Hm ltac:(lia)) as [k1 [_ [Hk1 Ssel]]].
    unfold sys_rounds in Hk1, Ssel. rewrite firstn_map in Hk1, Ssel.
    remember (firstn k1 rs) as pre eqn:Epre. remember (skipn k1 rs) as l2 eqn:El2.
    assert (Ers : rs = pre ++ l2) by (subst pre l2; symmetry; apply firstn_skipn).
    clear Epre El2. subst rs.
    fold (rounds pre) in Hk1, Ssel. fold (run prev pre) in Ssel.
    rewrite eff_app in He. apply hist_all_app in Hh. destruct Hh as [_ Hh].
    set (p1 := run prev pre) in *.
    destruct l2 as [|r1 l3]; [cbn in He; lia|].
    cbn [hist_all] in Hh. destruct Hh as [HL1 Hh].
    (* the selecting round *)
    destruct (select_round p1 r1 Hn HF Hf Hfd Ssel HL1) as [off [on [Voff [Von [Hle [Hrd [T1 R1]]]]]]].
    set (o1 := step p1 r1) in *.
    assert (S1 : state o1 = SM.Building) by (rewrite T1; reflexivity).
    pose proof (eff_cons_le cfg_of F dest max n p1 r1 l3) as E1. fold o1 in E1.
    (* retry rounds, then the building round *)
    destruct (skip_retries cfg_of F dest max n l3 o1 S1 ltac:(lia)) as [mid [r2 [post [El3 [Hrun [Heff Hq2]]]]]].
    subst l3. pose proof (hist_all_at _ _ _ _ _ _ _ _ _ _ Hh) as HL2. rewrite Hrun in HL2.
    destruct (build_round o1 r2 off (N.min on (off + n - 1)) HF Hf Hfd S1 Hq2 HL2 R1 Hrd)
      as [a [rt [Hv2 [Hfv2 [Vr [T2 R2]]]]]].
    assert (Erun1 : run prev (pre ++ r1 :: mid) = o1).
    { rewrite run_app, run_cons. fold p1. fold o1. exact Hrun. }
    assert (Erun2 : run prev (pre ++ r1 :: mid ++ [r2]) = step o1 r2).
    { rewrite run_app, run_cons. fold p1. fold o1. rewrite run_app, Hrun. reflexivity. }
    exists pre, r1, mid, r2, post, off, on, a, rt.
    split; [reflexivity|]. split.
    { rewrite eff_app. fold p1.
      pose proof (eff_cons_le cfg_of F dest max n p1 r1 (mid ++ [r2])) as E2. fold o1 in E2.
      rewrite eff_app, Hrun, Heff in E2. pose proof (eff_single cfg_of F dest max n o1 r2). lia. }
    split; [exact Ssel|]. split; [exact Voff|]. split; [exact Von|]. split; [exact Hle|]. split; [exact Hrd|].
    split; [exact Erun1|]. split; [rewrite Erun1; exact S1|]. split; [exact Hq2|].
    split; [exact Hv2|]. split; [exact Hfv2|]. split; [exact Vr|].
    rewrite Erun2. split; [exact T2|exact R2].
  Qed.
End Live.

(* ---------- the statements as they appear in Props/C04.v ---------- *)

(* C04_liveness. From EVERY previous outcome, over every history that offers round_live in each round, once
   (max+2)+2 non-retry rounds have happened there has been a selecting round r1 in which the quorum's view of chain k
   was (next = off, latest = on), off <= on, and a later round r2 (only RMN-retry rounds in between) whose outcome is
   a generated report with a root of k over [off, min(on, off+n-1)]; r2 is at most the (max+2)+2-th non-retry round. *)
Theorem liveness cfg_of F dest roles known k f fd (readable : N -> N -> Prop) max n prev rs :
  u64 max -> (1 <= n)%N -> (0 <= F < 2^63)%Z -> (f < 2^63)%Z -> (fd < 2^63)%Z ->
  hist_all cfg_of F dest max n (round_live F dest roles known k f fd readable n) prev rs ->
  (max + 2 + 2 <= SMP.eff_count max n prev (sys_rounds cfg_of F dest rs))%N ->
  exists pre r1 mid r2 post off on a rt,
    rs = pre ++ r1 :: mid ++ r2 :: post /\
    (SMP.eff_count max n prev (sys_rounds cfg_of F dest (pre ++ r1 :: mid ++ [r2])) <= max + 2 + 2)%N /\
    SM.next_state (SM.o_type (sys_run cfg_of F dest max n prev pre)) = SM.Selecting /\
    same_view offramp_kv (snd r1) k fd off /\ same_view onramp_kv (snd r1) k f on /\ (off <= on)%N /\
    readable off (N.min on (off + n - 1)) /\
    let o := sys_run cfg_of F dest max n prev (pre ++ r1 :: mid ++ [r2]) in
    SM.o_type o = SM.T_generated /\ In (k, (off, N.min on (off + n - 1)), a, rt) (SM.o_roots o).
Proof.
  intros Hm Hn HF Hf Hfd Hh He.
  destruct (liveness_core cfg_of F dest roles known k f fd readable max n prev rs Hm Hn HF Hf Hfd Hh He)
    as (pre & r1 & mid & r2 & post & off & on & a & rt & Ers & Hb & Hs & Vo & Vn & Hl & Hr & _ & _ & _ & _ & _ & _ & Ht & Hi).
  exists pre, r1, mid, r2, post, off, on, a, rt. cbv zeta. tauto.
Qed.

(* the same with hypothesis (iii) spelled out: in every selecting round the quorum's view of the destination cursor
   of k is the same number off0 (nothing lands meanwhile) — the report then starts exactly at off0 *)
Theorem liveness_fixed_cursor cfg_of F dest roles known k f fd (readable : N -> N -> Prop) max n off0 prev rs :
  u64 max -> (1 <= n)%N -> (0 <= F < 2^63)%Z -> (f < 2^63)%Z -> (fd < 2^63)%Z ->
  hist_all cfg_of F dest max n
           (round_live F dest roles known k f fd (fun s e => s = off0 /\ readable s e) n) prev rs ->
  (max + 2 + 2 <= SMP.eff_count max n prev (sys_rounds cfg_of F dest rs))%N ->
  exists pre r1 mid r2 post on a rt,
    rs = pre ++ r1 :: mid ++ r2 :: post /\
    (SMP.eff_count max n prev (sys_rounds cfg_of F dest (pre ++ r1 :: mid ++ [r2])) <= max + 2 + 2)%N /\
    same_view onramp_kv (snd r1) k f on /\ (off0 <= on)%N /\
    let o := sys_run cfg_of F dest max n prev (pre ++ r1 :: mid ++ [r2]) in
    SM.o_type o = SM.T_generated /\ In (k, (off0, N.min on (off0 + n - 1)), a, rt) (SM.o_roots o).
Proof.
  intros Hm Hn HF Hf Hfd Hh He.
  destruct (liveness cfg_of F dest roles known k f fd _ max n prev rs Hm Hn HF Hf Hfd Hh He)
    as (pre & r1 & mid & r2 & post & off & on & a & rt & Ers & Hb & _ & _ & Vn & Hl & [E0 _] & Ht & Hi).
  subst off. exists pre, r1, mid, r2, post, on, a, rt. cbv zeta. tauto.
Qed.

(* C04_liveness_true_root: if moreover, in the building rounds, the oracles outside a set of at most f are honest
   root observers (C04_agreed_root_true's hypothesis), the root in that report is the true merkle root of chain k's
   messages over [off, min(on, off+n-1)]. *)
Definition honest_round (h : N -> N -> N) (zero : N) (log : N -> N -> option msg) (f : Z)
           (prev : SM.outcome) (r : round) : Prop :=
  SM.next_state (SM.o_type prev) = SM.Building -> SM.q_retry (fst r) = false ->
  exists B, NoDup B /\ (length B <= Z.to_nat f)%nat /\
            forall o ob, In (o, ob) (snd r) -> ~ In o B -> honest_roots h zero log ob.

Theorem liveness_true_root h zero log cfg_of F dest roles known k f fd (readable : N -> N -> Prop) max n prev rs :
  u64 max -> (1 <= n)%N -> (0 <= F < 2^63)%Z -> (f < 2^63)%Z -> (fd < 2^63)%Z ->
  hist_all cfg_of F dest max n (round_live F dest roles known k f fd readable n) prev rs ->
  hist_all cfg_of F dest max n (honest_round h zero log f) prev rs ->
  (max + 2 + 2 <= SMP.eff_count max n prev (sys_rounds cfg_of F dest rs))%N ->
  exists pre r1 mid r2 post off on a rt,
    rs = pre ++ r1 :: mid ++ r2 :: post /\
    (SMP.eff_count max n prev (sys_rounds cfg_of F dest (pre ++ r1 :: mid ++ [r2])) <= max + 2 + 2)%N /\
    same_view offramp_kv (snd r1) k fd off /\ same_view onramp_kv (snd r1) k f on /\ (off <= on)%N /\
    let o := sys_run cfg_of F dest max n prev (pre ++ r1 :: mid ++ [r2]) in
    SM.o_type o = SM.T_generated /\ In (k, (off, N.min on (off + n - 1)), a, rt) (SM.o_roots o) /\
    true_root h zero log k off (N.min on (off + n - 1)) rt.
Proof.
  intros Hm Hn HF Hf Hfd Hh Hhon He.
  destruct (liveness_core cfg_of F dest roles known k f fd readable max n prev rs Hm Hn HF Hf Hfd Hh He)
    as (pre & r1 & mid & r2 & post & off & on & a & rt & Ers & Hb & Hs & Vo & Vn & Hl & Hr0 & _ & S2 & Q2 & Hv2 & [Vd Vk] & Vr & Ht & Hi).
  exists pre, r1, mid, r2, post, off, on, a, rt. cbv zeta.
  split; [exact Ers|]. split; [exact Hb|]. split; [exact Vo|]. split; [exact Vn|]. split; [exact Hl|].
  split; [exact Ht|]. split; [exact Hi|].
  assert (E' : rs = (pre ++ r1 :: mid) ++ r2 :: post) by (rewrite Ers, <- app_assoc; reflexivity).
  rewrite E' in Hhon. apply hist_all_at in Hhon.
  destruct (Hhon S2 Q2) as [Bz [NDB [HB Hhr]]].
  destruct (honest_quorum_consensus _ roles known dest (snd r2) Hv2 F fd k f HF Hf Hfd Vd Vk)
    as [c [Hc [_ [Hfk [Hr _]]]]].
  specialize (Hr _ Vr).
  exact (proj2 (agreed_root_is_true_root h zero log _ roles known dest (snd r2) F c k f Bz Hv2 Hc Hfk Hf NDB HB Hhr
                 _ _ _ _ _ Hr)).
Qed.

(* ====================================================================================================== *)
(*  3. executable check of the hypotheses (readable = everything), for the Examples                         *)
(* ====================================================================================================== *)

Definition same_viewb {V} (eqb : V -> V -> bool) (get : obs -> list (N * V)) (aos : list aobs) (k : N) (f : Z) (v : V)
  : bool :=
  let vs := votes get aos k in
  Nat.leb (Z.to_nat (2 * f + 1)) (length (reporters eqb v vs)) &&
  Nat.leb (length (filter (fun p => negb (eqb v (snd p))) vs)) (Z.to_nat f).

Lemma nodup_fst_filter {A} (p : N * A -> bool) (l : list (N * A)) :
  NoDup (map fst l) -> NoDup (map fst (filter p l)).
Proof.
  induction l as [|x l IH]; cbn [filter map]; intros ND; [constructor|].
  inversion ND as [|? ? Hn ND']; subst. destruct (p x); cbn [map]; [|now apply IH].
  constructor; [|now apply IH]. intros Hi. apply Hn.
  apply in_map_iff in Hi. destruct Hi as [y [Ey Hy]]. apply filter_In in Hy.
  apply in_map_iff. exists y. tauto.
Qed.

Lemma same_viewb_sound {V} (eqb : V -> V -> bool) (eqb_spec : forall x y, reflect (x = y) (eqb x y))
      (get : obs -> list (N * V)) aos k f v :
  NoDup (map fst aos) -> (forall o ob, In (o, ob) aos -> NoDup (map fst (get ob))) ->
  same_viewb eqb get aos k f v = true -> same_view get aos k f v.
Proof.
  intros NDo Hone Hb. unfold same_viewb in Hb. apply andb_true_iff in Hb. destruct Hb as [H1 H2].
  apply Nat.leb_le in H1. apply Nat.leb_le in H2.
  pose proof (votes_one_per_oracle get aos k NDo Hone) as NDv. split.
  - exists (reporters eqb v (votes get aos k)). split; [now apply reporters_nodup|]. split; [exact H1|].
    intros o Ho. apply votes_in. now apply (reporters_in eqb eqb_spec) in Ho.
  - exists (map fst (filter (fun p => negb (eqb v (snd p))) (votes get aos k))).
    split; [now apply nodup_fst_filter|]. split; [now rewrite map_length|].
    intros o v' Hr Hne. apply in_map_iff. exists (o, v'). split; [reflexivity|].
    apply filter_In. split; [now apply votes_in|]. cbn [snd].
    destruct (eqb_spec v v') as [E|_]; [congruence|reflexivity].
Qed.

Definition wire_u64b (aos : list aobs) : bool :=
  forallb (fun ao : aobs => forallb (fun e : N * N => u64b (snd e)) (o_onramp (snd ao))) aos.

Lemma wire_u64b_sound aos : wire_u64b aos = true -> wire_u64 aos.
Proof.
  unfold wire_u64b, wire_u64. rewrite forallb_forall. intros H o ob kk m Hi Hm.
  specialize (H _ Hi). cbn [snd] in H. rewrite forallb_forall in H. specialize (H _ Hm). cbn [snd] in H.
  unfold u64b in H. apply N.ltb_lt in H. exact H.
Qed.

Lemma sm_root_eqb_eq (x y : SM.root) : SM.root_eqb x y = true -> x = y.
Proof.
  destruct x as [[[c [s e]] a] rt], y as [[[c' [s' e']] a'] rt']. cbn [SM.root_eqb].
  rewrite !andb_true_iff, !N.eqb_eq. intros [[[[-> ->] ->] ->] ->]. reflexivity.
Qed.

Definition bundle_coversb (q : SM.query) (r : SM.root) : bool :=
  match SM.q_sigs q with
  | None => true
  | Some b =>
      match SM.parse_sigs (SM.b_sigs b), SM.parse_lanes (SM.b_lanes b) with
      | Some _, Some signed => existsb (SM.root_eqb r) signed
      | _, _ => false
      end
  end.

Lemma bundle_coversb_sound q r : bundle_coversb q r = true -> bundle_covers q r.
Proof.
  unfold bundle_coversb, bundle_covers. destruct (SM.q_sigs q) as [b|]; [|trivial].
  destruct (SM.parse_sigs (SM.b_sigs b)) as [sigs|]; [|discriminate].
  destruct (SM.parse_lanes (SM.b_lanes b)) as [signed|]; [|discriminate].
  intros H. apply existsb_exists in H. destruct H as [x [Hi Hx]]. apply sm_root_eqb_eq in Hx. subst x.
  exists sigs, signed. repeat split. exact Hi.
Qed.

Section Checker.
  Variable cfg_of : cons -> SM.rmn_cfg.
  Variables (F : Z) (dest : N) (roles : roles_t) (known : list N) (k : N) (f fd : Z) (max n : N).

  Definition fchain_viewb (aos : list aobs) : bool :=
    same_viewb Z.eqb fchain_kv aos dest F fd && same_viewb Z.eqb fchain_kv aos k F f.

  Definition round_liveb (prev : SM.outcome) (r : round) : bool :=
    let q := fst r in
    let aos := snd r in
    match SM.next_state (SM.o_type prev) with
    | SM.Waiting => true
    | SM.Selecting =>
        valid_inputb (SM.q_retry q) roles known dest aos && wire_u64b aos && fchain_viewb aos &&
        match get_consensus F dest aos with
        | Ok c =>
            match alookup k (c_offramp c), alookup k (c_onramp c) with
            | Some off, Some on =>
                same_viewb N.eqb offramp_kv aos k fd off && same_viewb N.eqb onramp_kv aos k f on && N.leb off on
            | _, _ => false
            end
        | _ => false
        end
    | SM.Building =>
        if SM.q_retry q then true
        else
          valid_inputb false roles known dest aos && fchain_viewb aos &&
          forallb (fun cr : chain_range =>
                     negb (N.eqb (fst cr) k) ||
                     match get_consensus F dest aos with
                     | Ok c =>
                         match alookup k (c_roots c) with
                         | Some (ch, a, (s, e), rt) =>
                             N.eqb ch k && N.eqb s (fst (snd cr)) && N.eqb e (snd (snd cr)) &&
                             same_viewb root_eqb roots_kv aos k f (ch, a, (s, e), rt) &&
                             bundle_coversb q (k, (s, e), a, rt)
                         | None => false
                         end
                     | _ => false
                     end) (SM.o_ranges prev)
    end.

  Fixpoint hist_liveb (prev : SM.outcome) (rs : list round) : bool :=
    match rs with
    | [] => true
    | r :: rs' => round_liveb prev r && hist_liveb (sys_step cfg_of F dest max n prev r) rs'
    end.

  Lemma fchain_viewb_sound retry aos :
    valid_input retry roles known dest aos -> fchain_viewb aos = true -> fchain_view F dest k f fd aos.
  Proof.
    intros Hv H. unfold fchain_viewb in H. apply andb_true_iff in H. destruct H as [H1 H2].
    pose proof (proj1 Hv) as NDo. pose proof (one_fchain retry roles known dest aos Hv) as Hof.
    split; apply (same_viewb_sound Z.eqb Z_eqb_reflect); assumption.
  Qed.

  Lemma round_liveb_sound prev r :
    round_liveb prev r = true -> round_live F dest roles known k f fd (fun _ _ => True) n prev r.
  Proof.
    destruct r as [q aos]. unfold round_liveb, round_live. cbn [fst snd].
    destruct (SM.next_state (SM.o_type prev)); [| |trivial].
    - (* selecting *)
      intros H. apply andb_true_iff in H. destruct H as [H Hc].
      apply andb_true_iff in H. destruct H as [H Hfv]. apply andb_true_iff in H. destruct H as [H Hw].
      apply valid_inputb_sound in H. pose proof (proj1 H) as NDo.
      split; [exact H|]. split; [now apply wire_u64b_sound|]. split; [now apply (fchain_viewb_sound _ aos H)|].
      destruct (get_consensus F dest aos) as [c| | |]; try discriminate.
      destruct (alookup k (c_offramp c)) as [off|]; [|discriminate].
      destruct (alookup k (c_onramp c)) as [on|]; [|discriminate].
      apply andb_true_iff in Hc. destruct Hc as [Hc Hle]. apply andb_true_iff in Hc. destruct Hc as [Hvo Hvn].
      exists off, on. split; [|split; [|split; [|exact I]]].
      + apply (same_viewb_sound N.eqb N_eqb_reflect); [exact NDo|exact (one_offramp _ roles known dest aos H)|exact Hvo].
      + apply (same_viewb_sound N.eqb N_eqb_reflect); [exact NDo|exact (one_onramp _ roles known dest aos H)|exact Hvn].
      + now apply N.leb_le.
    - (* building *)
      intros H Hq. rewrite Hq in H. apply andb_true_iff in H. destruct H as [H Hall].
      apply andb_true_iff in H. destruct H as [H Hfv].
      apply valid_inputb_sound in H. pose proof (proj1 H) as NDo.
      split; [exact H|]. split; [now apply (fchain_viewb_sound _ aos H)|].
      intros s e Hin _. rewrite forallb_forall in Hall. specialize (Hall _ Hin). cbn [fst snd] in Hall.
      rewrite N.eqb_refl in Hall. cbn [negb orb] in Hall.
      destruct (get_consensus F dest aos) as [c| | |]; try discriminate.
      destruct (alookup k (c_roots c)) as [[[[ch a] [s' e']] rt]|]; [|discriminate].
      apply andb_true_iff in Hall. destruct Hall as [Hall Hbc]. apply andb_true_iff in Hall. destruct Hall as [Hall Hsv].
      apply andb_true_iff in Hall. destruct Hall as [Hall He]. apply andb_true_iff in Hall. destruct Hall as [Hch Hs].
      apply N.eqb_eq in Hch. apply N.eqb_eq in Hs. apply N.eqb_eq in He. subst ch s' e'.
      exists a, rt. split; [|now apply bundle_coversb_sound].
      apply (same_viewb_sound root_eqb root_eqb_reflect); [exact NDo|exact (one_roots _ roles known dest aos H)|exact Hsv].
  Qed.

  Lemma hist_liveb_sound : forall rs prev,
    hist_liveb prev rs = true ->
    hist_all cfg_of F dest max n (round_live F dest roles known k f fd (fun _ _ => True) n) prev rs.
  Proof.
    induction rs as [|r rs IH]; intros prev H; cbn [hist_liveb hist_all] in *; [exact I|].
    apply andb_true_iff in H. destruct H as [H1 H2]. split; [now apply round_liveb_sound|now apply IH].
  Qed.
End Checker.

(* ====================================================================================================== *)
(*  4. non-vacuity: 4 oracles, F = 1, destination 9, sources 1 (the chain k) and 2; oracle 3 is Byzantine   *)
(* ====================================================================================================== *)
Definition lx_rmn0 : rmn_cfg := mkRmn 0 true true [] 0 0 true.
Definition lx_fch : list (N * Z) := [(1%N, 1%Z); (2%N, 1%Z); (9%N, 1%Z)].
Definition lx_roles : roles_t := [(1, [0;1;2;3]); (2, [0;1;2;3]); (9, [0;1;2;3])]%N.
Definition lx_known : list N := [0;1;2;3]%N.
Definition lx_cfg : cons -> SM.rmn_cfg := fun _ => SM.cfg_empty.
Definition lx_q : SM.query := SM.mkQuery false None.
(* one observation by each of the honest oracles 0,1,2 and another by oracle 3 *)
Definition lx_aos (honest byz : obs) : list aobs := [(0, honest); (1, honest); (2, honest); (3, byz)]%N.

(* a left-over previous outcome: intervals selected earlier for chain 2 only *)
Definition lx_prev : SM.outcome :=
  SM.mkOutcome SM.T_selected [(2, (5, 6))%N] [] [(1, 10); (2, 5)]%N 0 [] SM.cfg_empty.
(* A: building (left-over interval of chain 2); oracle 3 alters the root and adds one for chain 1 *)
Definition lx_A : round :=
  (lx_q, lx_aos (mkObs [(2, 7, (5, 6), 200)%N] [] [] lx_rmn0 lx_fch)
                (mkObs [(2, 7, (5, 6), 666); (1, 7, (10, 11), 667)]%N [] [] lx_rmn0 lx_fch)).
(* B: waiting; the cursor has not moved *)
Definition lx_B : round :=
  (lx_q, lx_aos (mkObs [] [] [(1, 10); (2, 5)]%N lx_rmn0 lx_fch) (mkObs [] [] [(1, 99)]%N lx_rmn0 lx_fch)).
(* C: selecting; chain 1 has messages 10..12 pending, chain 2 none; oracle 3 lies about both numbers of chain 1 *)
Definition lx_C : round :=
  (lx_q, lx_aos (mkObs [] [(1, 12); (2, 4)]%N [(1, 10); (2, 5)]%N lx_rmn0 lx_fch)
                (mkObs [] [(1, 1000)]%N [(1, 11)]%N lx_rmn0 lx_fch)).
(* D: an RMN-retry round (all observations empty); not counted *)
Definition lx_D : round :=
  (SM.mkQuery true None, lx_aos (mkObs [] [] [] lx_rmn0 []) (mkObs [] [] [] lx_rmn0 [])).
(* E: building; the honest oracles report root 300 of chain 1 over [10,12], oracle 3 another one *)
Definition lx_E : round :=
  (lx_q, lx_aos (mkObs [(1, 7, (10, 12), 300)%N] [] [] lx_rmn0 lx_fch)
                (mkObs [(1, 7, (10, 12), 999)%N] [] [] lx_rmn0 lx_fch)).

(* honest_quorum_consensus is not vacuous: round C satisfies its hypotheses, with the views 10 / 12 of chain 1 *)
Example ex_quorum_hyps :
  valid_input false lx_roles lx_known 9 (snd lx_C) /\
  same_view fchain_kv (snd lx_C) 9 1 1%Z /\ same_view fchain_kv (snd lx_C) 1 1 1%Z /\
  same_view offramp_kv (snd lx_C) 1 1 10%N /\ same_view onramp_kv (snd lx_C) 1 1 12%N /\
  exists c, get_consensus 1 9 (snd lx_C) = Ok c /\
            alookup 1%N (c_offramp c) = Some 10%N /\ alookup 1%N (c_onramp c) = Some 12%N.
Proof.
  assert (Hv : valid_input false lx_roles lx_known 9 (snd lx_C)) by (apply valid_inputb_sound; vm_compute; reflexivity).
  pose proof (proj1 Hv) as NDo.
  split; [exact Hv|].
  split; [apply (same_viewb_sound Z.eqb Z_eqb_reflect); [exact NDo|exact (one_fchain _ _ _ _ _ Hv)|vm_compute; reflexivity]|].
  split; [apply (same_viewb_sound Z.eqb Z_eqb_reflect); [exact NDo|exact (one_fchain _ _ _ _ _ Hv)|vm_compute; reflexivity]|].
  split; [apply (same_viewb_sound N.eqb N_eqb_reflect); [exact NDo|exact (one_offramp _ _ _ _ _ Hv)|vm_compute; reflexivity]|].
  split; [apply (same_viewb_sound N.eqb N_eqb_reflect); [exact NDo|exact (one_onramp _ _ _ _ _ Hv)|vm_compute; reflexivity]|].
  eexists. split; [vm_compute; reflexivity|]. split; vm_compute; reflexivity.
Qed.

(* The history A B C D E from lx_prev with max = 0 checks, tree size 256: it meets every hypothesis of C04_liveness
   (readable = everything), has exactly (0+2)+2 non-retry rounds, and the report with the root of chain 1 over
   [10, min(12, 10+256-1)] = [10,12] appears exactly at the last of them — the bound is reached: no earlier outcome
   carries a root of chain 1. *)
Definition lx_hist : list round := [lx_A; lx_B; lx_C; lx_D; lx_E].

Example ex_liveness_hyps :
  u64 0 /\ (1 <= 256)%N /\
  hist_all lx_cfg 1 9 0 256 (round_live 1 9 lx_roles lx_known 1 1 1 (fun _ _ => True) 256) lx_prev lx_hist /\
  SMP.eff_count 0 256 lx_prev (sys_rounds lx_cfg 1 9 lx_hist) = (0 + 2 + 2)%N.
Proof.
  split; [reflexivity|]. split; [lia|]. split; [|vm_compute; reflexivity].
  apply hist_liveb_sound. vm_compute. reflexivity.
Qed.

Example ex_liveness_tight :
  let out := fun rs => sys_run lx_cfg 1 9 0 256 lx_prev rs in
  (SM.o_type (out lx_hist) = SM.T_generated /\ SM.o_roots (out lx_hist) = [(1, (10, 12), 7, 300)%N]) /\
  (* before: a report for chain 2 only, then transmission failed, intervals selected, the same again *)
  map (fun j => (SM.o_type (out (firstn j lx_hist)), SM.o_roots (out (firstn j lx_hist)))) [1; 2; 3; 4]%nat =
  [ (SM.T_generated, [(2, (5, 6), 7, 200)%N]); (SM.T_failed, []); (SM.T_selected, []); (SM.T_selected, []) ] /\
  SM.o_ranges (out [lx_A; lx_B; lx_C]) = [(1, (10, 12))%N].
Proof. vm_compute. repeat split; reflexivity. Qed.

(* max = 3 checks: three waiting rounds; the report appears at non-retry round 6 = max + 3 *)
Definition lx_hist3 : list round := [lx_A; lx_B; lx_B; lx_B; lx_C; lx_D; lx_E].
Example ex_liveness_near_tight :
  hist_all lx_cfg 1 9 3 256 (round_live 1 9 lx_roles lx_known 1 1 1 (fun _ _ => True) 256) lx_prev lx_hist3 /\
  SMP.eff_count 3 256 lx_prev (sys_rounds lx_cfg 1 9 lx_hist3) = (3 + 3)%N /\
  SM.o_roots (sys_run lx_cfg 1 9 3 256 lx_prev lx_hist3) = [(1, (10, 12), 7, 300)%N] /\
  forall j, (j < 7)%nat ->
    forall r, In r (SM.o_roots (sys_run lx_cfg 1 9 3 256 lx_prev (firstn j lx_hist3))) -> SM.root_chain r <> 1%N.
Proof.
  split; [apply hist_liveb_sound; vm_compute; reflexivity|]. split; [vm_compute; reflexivity|].
  split; [vm_compute; reflexivity|].
  intros j Hj. do 7 (destruct j as [|j]; [vm_compute; intuition (subst; discriminate)|]). lia.
Qed.

(* RMN enabled in the building round: the leader's query carries a well-formed bundle whose lane updates cover the
   root; the same report comes out, now with the bundle's signature *)
Definition lx_E_rmn : round :=
  (SM.mkQuery false (Some (SM.mkBundle [SM.SigOk 41] [SM.LaneOk 1 10 12 7 300])), snd lx_E).
Example ex_liveness_rmn :
  let hist := [lx_A; lx_B; lx_C; lx_D; lx_E_rmn] in
  hist_all lx_cfg 1 9 0 256 (round_live 1 9 lx_roles lx_known 1 1 1 (fun _ _ => True) 256) lx_prev hist /\
  let o := sys_run lx_cfg 1 9 0 256 lx_prev hist in
  SM.o_type o = SM.T_generated /\ SM.o_roots o = [(1, (10, 12), 7, 300)%N] /\ SM.o_sigs o = [41%N].
Proof. split; [apply hist_liveb_sound; vm_compute; reflexivity|vm_compute; repeat split; reflexivity]. Qed.

(* ====================================================================================================== *)
(*  5. F26: before fixes/F26.patch the off-ramp numbers were agreed at the SOURCE chain's f                  *)
(* ====================================================================================================== *)
(* Off-ramp next numbers are destination data: by C01_designated only designated readers of the destination report
   them. Before the repair getConsensusObservation thresholded the entry of source chain k at 2*f_k+1, so "2*f_dest+1
   honest destination readers share the view" — all the property grants — was not enough: 7 oracles, F = 2, ALL honest
   with identical views; destination 9 has f = 1 and the four readers 0..3 (3f+1), source 1 has f = 2 and the readers
   0..6 (3f+1); messages 10..12 of chain 1 are pending. Every destination reader reports next = 10 for chain 1 (four
   votes; 2*2+1 = 5 were asked for): the agreed off-ramp map never had chain 1, no interval was ever selected for it
   and no report ever carried a root of it. With the repaired function the first selecting round selects [10,12]. *)
Definition fx_fch : list (N * Z) := [(1%N, 2%Z); (9%N, 1%Z)].
Definition fx_roles : roles_t := [(1, [0;1;2;3;4;5;6]); (9, [0;1;2;3])]%N.
Definition fx_known : list N := [0;1;2;3;4;5;6]%N.
Definition fx_dest_reader : obs := mkObs [] [(1, 12)]%N [(1, 10)]%N lx_rmn0 fx_fch.
Definition fx_other : obs := mkObs [] [(1, 12)]%N [] lx_rmn0 fx_fch.
Definition fx_sel : round :=
  (lx_q, [(0, fx_dest_reader); (1, fx_dest_reader); (2, fx_dest_reader); (3, fx_dest_reader);
          (4, fx_other); (5, fx_other); (6, fx_other)]%N).
(* the building round that followed: nothing was selected, nothing to observe but the f values *)
Definition fx_nothing : obs := mkObs [] [] [] lx_rmn0 fx_fch.
Definition fx_build : round :=
  (lx_q, [(0, fx_nothing); (1, fx_nothing); (2, fx_nothing); (3, fx_nothing);
          (4, fx_nothing); (5, fx_nothing); (6, fx_nothing)]%N).
Fixpoint fx_hist (m : nat) : list round :=
  match m with O => [] | S m' => fx_sel :: fx_build :: fx_hist m' end.

Definition fx_o1 : SM.outcome := SM.mkOutcome SM.T_selected [] [] [] 0 [] SM.cfg_empty.
Definition fx_o2 : SM.outcome := SM.mkOutcome SM.T_empty [] [] [] 0 [] SM.cfg_empty.

(* one round of the pre-repair processor *)
Definition fx_ustep (max n : N) (prev : SM.outcome) (r : round) : SM.outcome :=
  SM.run_step max n prev (fst r, round_cons_with get_consensus_unfixed lx_cfg 2 9 (snd r)).

Lemma fx_urun_cons max n prev r l :
  sys_run_unfixed lx_cfg 2 9 max n prev (r :: l) = sys_run_unfixed lx_cfg 2 9 max n (fx_ustep max n prev r) l.
Proof. reflexivity. Qed.

Lemma fx_sel_step max n prev :
  SM.next_state (SM.o_type prev) = SM.Selecting -> fx_ustep max n prev fx_sel = fx_o1.
Proof.
  intros St. unfold fx_ustep, SM.run_step. cbn [fst snd].
  assert (Ec : round_cons_with get_consensus_unfixed lx_cfg 2 9 (snd fx_sel) =
               Some (SM.mkCons [] [(1, 12)%N] [] SM.cfg_empty)) by (vm_compute; reflexivity).
  rewrite Ec. unfold SM.get_outcome, SM.get_outcome_with. rewrite St. reflexivity.
Qed.

Lemma fx_build_step max n : fx_ustep max n fx_o1 fx_build = fx_o2.
Proof.
  unfold fx_ustep, SM.run_step. cbn [fst snd].
  assert (Ec : round_cons_with get_consensus_unfixed lx_cfg 2 9 (snd fx_build) =
               Some (SM.mkCons [] [] [] SM.cfg_empty)) by (vm_compute; reflexivity).
  rewrite Ec. reflexivity.
Qed.

Lemma fx_never max n : forall m prev j,
  SM.next_state (SM.o_type prev) = SM.Selecting ->
  let o := sys_run_unfixed lx_cfg 2 9 max n prev (firstn j (fx_hist m)) in
  o = prev \/ o = fx_o1 \/ o = fx_o2.
Proof.
  induction m as [|m IH]; intros prev j St; cbn [fx_hist].
  - rewrite firstn_nil. left. reflexivity.
  - destruct j as [|[|j]]; cbn [firstn].
    + left. reflexivity.
    + right; left. rewrite fx_urun_cons. rewrite (fx_sel_step max n prev St). reflexivity.
    + rewrite !fx_urun_cons. rewrite (fx_sel_step max n prev St), fx_build_step.
      destruct (IH fx_o2 j eq_refl) as [H|[H|H]]; cbv zeta in H; rewrite H; tauto.
Qed.

Theorem liveness_unfixed_refuted :
  exists F dest roles known k fk fd rsel rbuild hist,
    (* a legal configuration, everything validated, every oracle honest with the same view *)
    (0 <= F < 2^63)%Z /\ (fk < 2^63)%Z /\ (fd < 2^63)%Z /\
    (forall m, hist (S m) = rsel :: rbuild :: hist m) /\ hist O = [] /\
    valid_input false roles known dest (snd rsel) /\ valid_input false roles known dest (snd rbuild) /\
    wire_u64 (snd rsel) /\ fchain_view F dest k fk fd (snd rsel) /\ fchain_view F dest k fk fd (snd rbuild) /\
    (* on-ramp latest of k: same view 12 at f_k; off-ramp next of k: same view 10 at the destination's f, reported by
       every designated reader of the destination and contradicted by nobody; messages pending *)
    same_view onramp_kv (snd rsel) k fk 12%N /\ same_view offramp_kv (snd rsel) k fd 10%N /\
    (forall o, designated roles dest o -> reported offramp_kv (snd rsel) o k 10%N) /\
    (forall o v, reported offramp_kv (snd rsel) o k v -> v = 10%N) /\ (10 <= 12)%N /\
    (* the selecting round meets the hypothesis of C04_liveness, and the repaired processor selects [10,12] ... *)
    (forall max n prev,
       SM.next_state (SM.o_type prev) = SM.Selecting -> (1 <= n)%N ->
       round_live F dest roles known k fk fd (fun _ _ => True) n prev rsel /\
       In (k, (10, N.min 12 (10 + n - 1)))%N (SM.o_ranges (sys_step lx_cfg F dest max n prev rsel))) /\
    (* ... yet before the repair, from every outcome in the selecting state, however long the history: never a report *)
    forall max n prev m j,
      SM.next_state (SM.o_type prev) = SM.Selecting ->
      let o := sys_run_unfixed lx_cfg F dest max n prev (firstn j (hist m)) in
      o = prev \/ (SM.o_roots o = [] /\ SM.o_type o <> SM.T_generated).
Proof.
  exists 2%Z, 9%N, fx_roles, fx_known, 1%N, 2%Z, 1%Z, fx_sel, fx_build, fx_hist.
  assert (Hv1 : valid_input false fx_roles fx_known 9 (snd fx_sel)) by (apply valid_inputb_sound; vm_compute; reflexivity).
  assert (Hv2 : valid_input false fx_roles fx_known 9 (snd fx_build)) by (apply valid_inputb_sound; vm_compute; reflexivity).
  assert (Hfv1 : fchain_view 2 9 1 2 1 (snd fx_sel))
    by (apply (fchain_viewb_sound 2 9 fx_roles fx_known 1 2 1 false _ Hv1); vm_compute; reflexivity).
  assert (Hon : same_view onramp_kv (snd fx_sel) 1 2 12%N)
    by (apply (same_viewb_sound N.eqb N_eqb_reflect);
        [exact (proj1 Hv1)|exact (one_onramp _ _ _ _ _ Hv1)|vm_compute; reflexivity]).
  assert (Hoff : same_view offramp_kv (snd fx_sel) 1 1 10%N)
    by (apply (same_viewb_sound N.eqb N_eqb_reflect);
        [exact (proj1 Hv1)|exact (one_offramp _ _ _ _ _ Hv1)|vm_compute; reflexivity]).
  assert (Hw : wire_u64 (snd fx_sel)) by (apply wire_u64b_sound; vm_compute; reflexivity).
  split; [lia|]. split; [lia|]. split; [lia|]. split; [reflexivity|]. split; [reflexivity|].
  split; [exact Hv1|]. split; [exact Hv2|]. split; [exact Hw|]. split; [exact Hfv1|].
  split; [apply (fchain_viewb_sound 2 9 fx_roles fx_known 1 2 1 false _ Hv2); vm_compute; reflexivity|].
  split; [exact Hon|]. split; [exact Hoff|].
  split.
  { intros o [l [Hl Ho]]. cbn in Hl. destruct Hl as [E|[E|[]]]; inversion E; subst l.
    cbn in Ho. exists fx_dest_reader.
    destruct Ho as [<-|[<-|[<-|[<-|[]]]]]; (split; [cbn; tauto|cbn; tauto]). }
  split.
  { intros o v [ob [Hi Hg]]. cbn in Hi.
    destruct Hi as [E|[E|[E|[E|[E|[E|[E|[]]]]]]]]; inversion E; subst ob; cbn in Hg;
      try contradiction; destruct Hg as [Hg|[]]; now inversion Hg. }
  split; [lia|].
  split.
  { intros max n prev St Hn.
    assert (HL : round_live 2 9 fx_roles fx_known 1 2 1 (fun _ _ => True) n prev fx_sel).
    { unfold round_live. rewrite St. split; [exact Hv1|]. split; [exact Hw|]. split; [exact Hfv1|].
      exists 10%N, 12%N. split; [exact Hoff|]. split; [exact Hon|]. split; [lia|exact I]. }
    split; [exact HL|].
    destruct (select_round lx_cfg 2 9 fx_roles fx_known 1 2 1 (fun _ _ => True) max n prev fx_sel Hn
                ltac:(lia) ltac:(lia) ltac:(lia) St HL) as [off [on [Vo [Vn [_ [_ [_ Hin]]]]]]].
    assert (off = 10%N)
      by (apply (same_view_unique offramp_kv N.eqb N_eqb_reflect (snd fx_sel) 1 1 off 10%N (proj1 Hv1)
                   (one_offramp _ _ _ _ _ Hv1) ltac:(lia) Vo Hoff)).
    assert (on = 12%N)
      by (apply (same_view_unique onramp_kv N.eqb N_eqb_reflect (snd fx_sel) 1 2 on 12%N (proj1 Hv1)
                   (one_onramp _ _ _ _ _ Hv1) ltac:(lia) Vn Hon)).
    subst off on. exact Hin. }
  intros max n prev m j St. cbv zeta.
  destruct (fx_never max n m prev j St) as [H|[H|H]]; cbv zeta in H; unfold round in H;
    [left; exact H|right; rewrite H; split; [reflexivity|discriminate]|right; rewrite H; split; [reflexivity|discriminate]].
Qed.

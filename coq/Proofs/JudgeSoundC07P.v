(* JudgeSoundC07P.v — the executable properties of Check/C07_check.v (c07_ok, c07o_ok, the quorum test) are the
   property: (b) an implementation output that passes them satisfies the clauses of Props/C07.v, stated with
   supported_by / In / NoDup; (a) every output that the comparison accepts as the model's passes them (so a
   property code never fires without a mismatch code on well-formed input outside the recorded class). *)
Require Import Verif.Model.Base Verif.Proofs.BaseP Verif.Model.Consensus Verif.Proofs.ConsensusP
               Verif.Model.ExecMerge Verif.Proofs.ExecMergeP.
Require Verif.Check.C07_check.
From Coq Require Import ZifyN ZifyNat ZifyBool.
Module K := Verif.Check.C07_check.

(* ====================================================================================================== *)
(*  0. generic reflection                                                                                  *)
(* ====================================================================================================== *)
Lemma list_eqb_eq {A} (e : A -> A -> bool) :
  (forall a b, e a b = true -> a = b) -> forall l1 l2, list_eqb e l1 l2 = true -> l1 = l2.
Proof.
  intros He. induction l1 as [|x l1 IH]; intros [|y l2] H; cbn [list_eqb] in H; try discriminate; [reflexivity|].
  apply andb_prop in H. destruct H as [H1 H2]. f_equal; [now apply He|now apply IH].
Qed.

Lemma list_eqb_refl {A} (e : A -> A -> bool) : (forall a, e a a = true) -> forall l, list_eqb e l l = true.
Proof. intros He. induction l as [|x l IH]; cbn [list_eqb]; [reflexivity|]. now rewrite He, IH. Qed.

Lemma pair_eqb_eq {A B} (ea : A -> A -> bool) (eb : B -> B -> bool) :
  (forall a b, ea a b = true -> a = b) -> (forall a b, eb a b = true -> a = b) ->
  forall p q, pair_eqb ea eb p q = true -> p = q.
Proof.
  intros Ha Hb [a1 b1] [a2 b2] H. unfold pair_eqb in H. cbn [fst snd] in H. apply andb_prop in H.
  destruct H as [H1 H2]. f_equal; [now apply Ha|now apply Hb].
Qed.

Lemma N_eqb_eq' a b : N.eqb a b = true -> a = b.
Proof. apply N.eqb_eq. Qed.
Lemma commit_eqb_eq a b : commit_eqb a b = true -> a = b.
Proof. intros H. now destruct (commit_eqb_spec a b). Qed.
Lemma msg_eqb_eq a b : msg_eqb a b = true -> a = b.
Proof. intros H. now destruct (msg_eqb_spec a b). Qed.
Lemma tok_eqb_eq a b : tok_eqb a b = true -> a = b.
Proof. intros H. now destruct (tok_eqb_spec a b). Qed.
Lemma bool_eqb_eq a b : Bool.eqb a b = true -> a = b.
Proof. apply Bool.eqb_prop. Qed.

Section Refl.
  Context {T : Type} (eqb : T -> T -> bool) (eqb_spec : forall x y, reflect (x = y) (eqb x y)).

  Lemma nodupb_iff l : nodupb eqb l = true <-> NoDup l.
  Proof.
    induction l as [|x l IH]; cbn [nodupb]; [split; [constructor|reflexivity]|].
    rewrite andb_true_iff, negb_true_iff, IH. split.
    - intros [H1 H2]. constructor; [|exact H2]. intros Hi.
      apply (existsb_eqb_in eqb eqb_spec) in Hi. congruence.
    - intros H. inversion H as [|? ? Hn ND]; subst. split; [|exact ND].
      destruct (existsb (eqb x) l) eqn:E; [|reflexivity]. apply (existsb_eqb_in eqb eqb_spec) in E. contradiction.
  Qed.
End Refl.

Definition nkey_eqb_spec a b : reflect (a = b) (K.nkey_eqb a b).
Proof.
  destruct a as [a1 a2], b as [b1 b2]. unfold K.nkey_eqb. cbn [fst snd].
  destruct (N.eqb_spec a1 b1) as [->|H]; [|constructor; congruence].
  destruct (N.eqb_spec a2 b2) as [->|H]; constructor; congruence.
Qed.

Lemma entries_in {V} k (m : list (N * list V)) x : In x (entries k m) <-> exists l, In (k, l) m /\ In x l.
Proof.
  unfold entries. rewrite in_flat_map. split.
  - intros [[k' l] [Hi Hx]]. cbn [fst snd] in Hx. destruct (N.eqb_spec k' k) as [->|]; [|destruct Hx]. now exists l.
  - intros [l [Hi Hx]]. exists (k, l). split; [exact Hi|]. cbn [fst snd]. now rewrite N.eqb_refl.
Qed.

Lemma idx_forallb_nth {A} (p : nat -> A -> bool) : forall l n i t,
  K.idx_forallb p n l = true -> nth_error l i = Some t -> p (n + i)%nat t = true.
Proof.
  induction l as [|x l IH]; intros n i t H Hn; [destruct i; discriminate|].
  cbn [K.idx_forallb] in H. apply andb_prop in H. destruct H as [H1 H2].
  destruct i as [|i]; cbn [nth_error] in Hn.
  - inversion Hn; subst. now rewrite Nat.add_0_r.
  - replace (n + S i)%nat with (S n + i)%nat by lia. now apply (IH (S n) i t).
Qed.

Lemma idx_forallb_intro {A} (p : nat -> A -> bool) : forall l n,
  (forall i t, nth_error l i = Some t -> p (n + i)%nat t = true) -> K.idx_forallb p n l = true.
Proof.
  induction l as [|x l IH]; intros n H; cbn [K.idx_forallb]; [reflexivity|].
  rewrite (IH (S n)).
  - rewrite andb_true_r. specialize (H O x eq_refl). now rewrite Nat.add_0_r in H.
  - intros i t Hn. replace (S n + i)%nat with (n + S i)%nat by lia. now apply H.
Qed.

(* the Check module repeats three definitions of ExecMergeP under the same names *)
Lemma K_commits_at : K.commits_at = commits_at. Proof. reflexivity. Qed.
Lemma K_msgs_at : K.msgs_at = msgs_at. Proof. reflexivity. Qed.
Lemma K_tok_at : K.tok_at = tok_at. Proof. reflexivity. Qed.

(* ====================================================================================================== *)
(*  1. support = the number of distinct reporting oracles                                                  *)
(* ====================================================================================================== *)
Section Sup.
  Context {T : Type} (eqb : T -> T -> bool) (eqb_spec : forall x y, reflect (x = y) (eqb x y)).
  Variable f : obs -> list T.

  Lemma support_len x aos : K.support eqb f x aos = N.of_nat (length (supporters eqb f x aos)).
  Proof. unfold K.support, supporters. now rewrite map_length. Qed.

  Lemma support_supported thr aos x :
    NoDup (map fst aos) -> (thr <= K.support eqb f x aos)%N -> supported_by f thr aos x.
  Proof.
    intros ND H. rewrite support_len in H. exists (supporters eqb f x aos).
    split; [now apply supporters_nodup|]. split; [exact H|]. intros o. now apply supporters_in.
  Qed.

  Lemma reporters_le_support aos x rs :
    NoDup rs -> (forall o, In o rs -> exists ob, In (o, ob) aos /\ In x (f ob)) ->
    (N.of_nat (length rs) <= K.support eqb f x aos)%N.
  Proof.
    intros NDr Hrs. rewrite support_len.
    assert (Hincl : incl rs (supporters eqb f x aos)) by (intros o Ho; apply (supporters_in eqb eqb_spec); now apply Hrs).
    pose proof (NoDup_incl_length NDr Hincl). lia.
  Qed.

  Lemma reporters_in_items aos x rs :
    rs <> [] -> (forall o, In o rs -> exists ob, In (o, ob) aos /\ In x (f ob)) -> In x (K.all_items f aos).
  Proof.
    intros Hne Hrs. destruct rs as [|o rs]; [congruence|]. destruct (Hrs o (or_introl eq_refl)) as [ob [Hi Hx]].
    change (K.all_items f aos) with (items_of f aos). apply items_of_in. now exists o, ob.
  Qed.

  (* with one vote per observation the validator's count is the support *)
  Lemma count_support x aos :
    (forall a, In a aos -> NoDup (f (snd a))) -> count eqb x (items_of f aos) = K.support eqb f x aos.
  Proof. intros Hnd. rewrite support_len. now apply count_items. Qed.
End Sup.

(* ====================================================================================================== *)
(*  2. (b) soundness, clause by clause                                                                     *)
(* ====================================================================================================== *)

(* ---- commit reports: C07_commit and C07_commit_complete on an arbitrary output ---- *)
Lemma commits_ok_sound dest fchain aos out :
  NoDup (map fst aos) -> K.commits_ok dest fchain aos out = true ->
  (forall k l x, In (k, l) out -> In x l ->
     In k (keys fchain) /\ c_src x = k /\
     supported_by (commits_at k) (f_plus_1 (f_dest dest fchain)) aos x) /\
  (forall k l, In (k, l) out -> l <> [] /\ NoDup l) /\
  (forall k x rs, In k (keys fchain) -> NoDup rs -> rs <> [] ->
     (forall o, In o rs -> exists ob, In (o, ob) aos /\ In x (commits_at k ob)) ->
     (f_plus_1 (f_dest dest fchain) <= N.of_nat (length rs))%N ->
     exists l, In (k, l) out /\ In x l).
Proof.
  intros ND H. unfold K.commits_ok in H. apply andb_prop in H. destruct H as [H1 H2].
  rewrite forallb_forall in H1, H2. split; [|split].
  - intros k l x Hkl Hx. specialize (H1 _ Hkl). cbn [fst snd] in H1.
    apply andb_prop in H1. destruct H1 as [H1 Hall]. apply andb_prop in H1. destruct H1 as [H1 _].
    apply andb_prop in H1. destruct H1 as [Hk _]. apply memN_In in Hk.
    rewrite forallb_forall in Hall. specialize (Hall _ Hx). apply andb_prop in Hall. destruct Hall as [Hs Hsup].
    apply N.eqb_eq in Hs. apply N.leb_le in Hsup. split; [exact Hk|]. split; [exact Hs|].
    now apply (support_supported commit_eqb commit_eqb_spec).
  - intros k l Hkl. specialize (H1 _ Hkl). cbn [fst snd] in H1.
    apply andb_prop in H1. destruct H1 as [H1 _]. apply andb_prop in H1. destruct H1 as [H1 Hnd].
    apply andb_prop in H1. destruct H1 as [_ Hne]. split.
    + intros ->. discriminate.
    + now apply (nodupb_iff commit_eqb commit_eqb_spec).
  - intros k x rs Hk NDr Hne Hrs Hthr. unfold keys in Hk. apply in_map_iff in Hk. destruct Hk as [[k' f] [E Hkf]].
    cbn [fst] in E. subst k'. specialize (H2 _ Hkf). cbn [fst] in H2. rewrite forallb_forall in H2.
    pose proof (reporters_in_items (K.commits_at k) aos x rs Hne Hrs) as Hin. specialize (H2 _ Hin).
    pose proof (reporters_le_support commit_eqb commit_eqb_spec (K.commits_at k) aos x rs NDr Hrs) as Hle.
    destruct (N.leb_spec (f_plus_1 (f_dest dest fchain)) (K.support commit_eqb (K.commits_at k) x aos)) as [_|Hlt]; [|lia].
    apply (existsb_eqb_in commit_eqb commit_eqb_spec) in H2. now apply entries_in.
Qed.

Lemma thr_of_some fchain k thr : K.thr_of fchain k = Some thr -> exists f, alookup k fchain = Some f /\ thr = f_plus_1 f.
Proof. unfold K.thr_of. destruct (alookup k fchain) as [f|]; [|discriminate]. intros H. inversion H. now exists f. Qed.

(* ---- messages: C07_message; of C07_message_complete the part Go's map leaves observable (the sequence number of a
   message with f+1 reporters is a key of the result: two such messages with one number share the key, F17 / C10) ---- *)
Lemma msgs_ok_sound fchain aos out :
  NoDup (map fst aos) -> K.msgs_ok fchain aos out = true ->
  (forall k l s m, In (k, l) out -> In (s, m) l ->
     exists f, alookup k fchain = Some f /\ In (k, f) fchain /\ s = m_seq m /\
               supported_by (msgs_at k) (f_plus_1 f) aos m) /\
  (forall k l, In (k, l) out -> NoDup (map fst l)) /\
  (forall k f x rs, In (k, f) fchain -> NoDup rs -> rs <> [] ->
     (forall o, In o rs -> exists ob, In (o, ob) aos /\ In x (msgs_at k ob)) ->
     (f_plus_1 f <= N.of_nat (length rs))%N ->
     exists l m', In (k, l) out /\ In (m_seq x, m') l).
Proof.
  intros ND H. unfold K.msgs_ok in H. apply andb_prop in H. destruct H as [H1 H2].
  rewrite forallb_forall in H1, H2. split; [|split].
  - intros k l s m Hkl Hsm. specialize (H1 _ Hkl). cbn [fst snd] in H1.
    destruct (K.thr_of fchain k) as [thr|] eqn:Et; [|discriminate].
    apply thr_of_some in Et. destruct Et as [f [Hf ->]].
    apply andb_prop in H1. destruct H1 as [_ Hall]. rewrite forallb_forall in Hall. specialize (Hall _ Hsm).
    cbn [fst snd] in Hall. apply andb_prop in Hall. destruct Hall as [Hs Hsup]. apply N.eqb_eq in Hs. apply N.leb_le in Hsup.
    exists f. split; [exact Hf|]. split; [now apply alookup_In|]. split; [exact Hs|].
    now apply (support_supported msg_eqb msg_eqb_spec).
  - intros k l Hkl. specialize (H1 _ Hkl). cbn [fst snd] in H1.
    destruct (K.thr_of fchain k) as [thr|]; [|discriminate].
    apply andb_prop in H1. destruct H1 as [Hnd _]. now apply (nodupb_iff N.eqb N.eqb_spec).
  - intros k f x rs Hkf NDr Hne Hrs Hthr. specialize (H2 _ Hkf). cbn [fst snd] in H2. rewrite forallb_forall in H2.
    pose proof (reporters_in_items (K.msgs_at k) aos x rs Hne Hrs) as Hin. specialize (H2 _ Hin).
    pose proof (reporters_le_support msg_eqb msg_eqb_spec (K.msgs_at k) aos x rs NDr Hrs) as Hle.
    destruct (N.leb_spec (f_plus_1 f) (K.support msg_eqb (K.msgs_at k) x aos)) as [_|Hlt]; [|lia].
    apply memN_In in H2. apply in_map_iff in H2. destruct H2 as [[s m'] [E Hi]]. cbn [fst] in E. subst s.
    apply entries_in in Hi. destruct Hi as [l [Hkl Hi]]. now exists l, m'.
Qed.

(* ---- token data: C07_token; and the slot-index clause (an index of the result is reported by f+1 oracles or fewer
   than f+1 report any slot of the message: fails inside the recorded class F13e) ---- *)
Definition slot_reporters (c s : N) (i : nat) (aos : list ao) : N :=
  K.support (fun _ _ : unit => true) (K.has_slot c s i) tt aos.

(* with one value per observation and slot, the values of a slot that reach the threshold are GetValid's *)
Lemma slot_candidates thr c s i aos :
  filter (fun t' => N.leb thr (K.support tok_eqb (K.tok_at c s i) t' aos))
         (dedup tok_eqb (K.all_items (K.tok_at c s i) aos)) =
  valid tok_eqb thr (tok_votes c s i aos).
Proof.
  unfold valid. change (tok_votes c s i aos) with (items_of (tok_at c s i) aos).
  change (K.all_items (K.tok_at c s i) aos) with (items_of (tok_at c s i) aos).
  apply filter_ext. intros t'. f_equal. symmetry.
  apply (count_support tok_eqb tok_eqb_spec). intros; apply tok_at_nodup.
Qed.

Lemma tokens_ok_sound fchain aos out :
  NoDup (map fst aos) -> K.tokens_ok fchain aos out = true ->
  forall c sl s slots i t, In (c, sl) out -> In (s, slots) sl -> nth_error slots i = Some t ->
    exists f, alookup c fchain = Some f /\
      (t_ready t = true -> supported_by (tok_at c s i) (f_plus_1 f) aos t) /\
      ((f_plus_1 f <= slot_reporters c s i aos)%N \/ (slot_reporters c s 0 aos < f_plus_1 f)%N) /\
      (forall t', (0 < f_plus_1 f)%N ->
         (f_plus_1 f <= N.of_nat (length (supporters tok_eqb (tok_at c s i) t' aos)))%N ->
         (forall t'', (f_plus_1 f <= N.of_nat (length (supporters tok_eqb (tok_at c s i) t'' aos)))%N -> t'' = t') ->
         t = t').
Proof.
  intros ND H c sl s slots i t Hc Hs Hn. unfold K.tokens_ok in H. rewrite forallb_forall in H.
  specialize (H _ Hc). cbn [fst snd] in H.
  destruct (K.thr_of fchain c) as [thr|] eqn:Et; [|discriminate].
  apply thr_of_some in Et. destruct Et as [f [Hf ->]]. exists f. split; [exact Hf|].
  rewrite forallb_forall in H. specialize (H _ Hs). cbn [fst snd] in H.
  pose proof (idx_forallb_nth _ _ _ _ _ H Hn) as Hp. cbn [Nat.add] in Hp.
  apply andb_prop in Hp. destruct Hp as [Hp Hcand]. apply andb_prop in Hp. destruct Hp as [Hr Hsl]. split; [|split].
  - intros Ht. rewrite Ht in Hr. apply N.leb_le in Hr. now apply (support_supported tok_eqb tok_eqb_spec).
  - unfold slot_reporters. apply orb_prop in Hsl. destruct Hsl as [Hsl|Hsl].
    + left. now apply N.leb_le.
    + right. apply negb_true_iff in Hsl. now apply N.leb_gt.
  - intros t' Hpos Hsup Huniq. rewrite slot_candidates in Hcand.
    assert (E : valid tok_eqb (f_plus_1 f) (tok_votes c s i aos) = [t']).
    { apply (valid_single_iff tok_eqb tok_eqb_spec); [exact Hpos|].
      change (tok_votes c s i aos) with (items_of (tok_at c s i) aos).
      assert (Hnd : forall a, In a aos -> NoDup (tok_at c s i (snd a))) by (intros; apply tok_at_nodup).
      split.
      - now rewrite (count_items tok_eqb tok_eqb_spec (tok_at c s i) t' aos Hnd).
      - intros x Hx. apply Huniq. now rewrite <- (count_items tok_eqb tok_eqb_spec (tok_at c s i) x aos Hnd). }
    rewrite E in Hcand. now apply tok_eqb_eq.
Qed.

(* the executable token clause as it was before this file: it lacked the third conjunct, and accepted a result whose
   slot is not ready although both oracles report the same ready value (C07_token_slot_complete on that output fails) *)
Definition tokens_ok_before (fchain : list (N * Z)) (aos : list ao) (out : list (N * list (N * list tok))) : bool :=
  forallb (fun cl => match K.thr_of fchain (fst cl) with
                     | None => false
                     | Some thr =>
                         forallb (fun ss => K.idx_forallb (fun i t =>
                                    (if t_ready t then N.leb thr (K.support tok_eqb (K.tok_at (fst cl) (fst ss) i) t aos) else true) &&
                                    (N.leb thr (K.support (fun _ _ => true) (K.has_slot (fst cl) (fst ss) i) tt aos) ||
                                     negb (N.leb thr (K.support (fun _ _ => true) (K.has_slot (fst cl) (fst ss) O) tt aos)))) O (snd ss))
                                 (snd cl)
                     end) out.
Definition weak_aos : list ao :=
  [(0%N, mkObs [] [] [(1%N, [(10%N, [mkTok true 3])])] [] []); (1%N, mkObs [] [] [(1%N, [(10%N, [mkTok true 3])])] [] [])].
Example tokens_ok_before_weak :
  tokens_ok_before [(1%N, 1%Z)] weak_aos [(1%N, [(10%N, [mkTok false 0])])] = true /\
  K.tokens_ok [(1%N, 1%Z)] weak_aos [(1%N, [(10%N, [mkTok false 0])])] = false /\
  (0 < f_plus_1 1)%N /\
  (f_plus_1 1 <= N.of_nat (length (supporters tok_eqb (tok_at 1 10 0) (mkTok true 3) weak_aos)))%N /\
  (forall t'', (f_plus_1 1 <= N.of_nat (length (supporters tok_eqb (tok_at 1 10 0) t'' weak_aos)))%N -> t'' = mkTok true 3) /\
  mkTok false 0 <> mkTok true 3.
Proof.
  split; [vm_compute; reflexivity|]. split; [vm_compute; reflexivity|]. split; [vm_compute; reflexivity|].
  split; [vm_compute; discriminate|]. split; [|discriminate].
  intros t'' H. destruct (tok_eqb_spec t'' (mkTok true 3)) as [E|Hne]; [exact E|]. exfalso.
  assert (Hz : supporters tok_eqb (tok_at 1 10 0) t'' weak_aos = []).
  { unfold supporters, weak_aos. cbn [filter snd tok_at o_tokens entries flat_map fst N.eqb Pos.eqb app nth_error existsb].
    destruct (tok_eqb_spec t'' (mkTok true 3)) as [E|_]; [contradiction|]. reflexivity. }
  rewrite Hz in H. vm_compute in H. now apply H.
Qed.

(* ---- costly ids: C07_costly and C07_costly_complete ---- *)
Lemma costly_ok_sound fdest aos out :
  NoDup (map fst aos) -> K.costly_ok fdest aos out = true ->
  NoDup out /\
  (forall x, In x out ->
     exists rs, NoDup rs /\ (fdest + 1 <= Z.of_nat (length rs))%Z /\
                forall o, In o rs <-> exists ob, In (o, ob) aos /\ In x (o_costly ob)) /\
  (forall x rs, NoDup rs -> rs <> [] -> (forall o, In o rs -> exists ob, In (o, ob) aos /\ In x (o_costly ob)) ->
     (fdest + 1 <= Z.of_nat (length rs))%Z -> In x out).
Proof.
  intros ND H. unfold K.costly_ok in H. apply andb_prop in H. destruct H as [H H3]. apply andb_prop in H.
  destruct H as [H1 H2]. rewrite forallb_forall in H2, H3. split; [|split].
  - now apply (nodupb_iff N.eqb N.eqb_spec).
  - intros x Hx. specialize (H2 _ Hx). unfold gte_f_plus_one in H2. apply Z.leb_le in H2.
    rewrite (support_len N.eqb o_costly) in H2. exists (supporters N.eqb o_costly x aos).
    split; [now apply supporters_nodup|]. split; [lia|]. intros o. apply (supporters_in N.eqb N.eqb_spec).
  - intros x rs NDr Hne Hrs Hthr.
    pose proof (reporters_in_items o_costly aos x rs Hne Hrs) as Hin. specialize (H3 _ Hin).
    pose proof (reporters_le_support N.eqb N.eqb_spec o_costly aos x rs NDr Hrs) as Hle.
    unfold gte_f_plus_one in H3.
    destruct (Z.leb_spec (fdest + 1) (Z.of_N (K.support N.eqb o_costly x aos))) as [_|Hlt]; [|lia].
    now apply memN_In.
Qed.

(* ---- nonces: C07_nonce; of C07_nonce_complete what Go's map leaves observable (the (source, sender) key) ---- *)
Lemma nonces_ok_sound fdest aos out :
  NoDup (map fst aos) -> K.nonces_ok fdest aos out = true ->
  NoDup (map K.nkey out) /\
  (forall x, In x out -> supported_by nonce_triples (f_plus_1 fdest) aos x) /\
  (forall x rs, NoDup rs -> rs <> [] -> (forall o, In o rs -> exists ob, In (o, ob) aos /\ In x (nonce_triples ob)) ->
     (f_plus_1 fdest <= N.of_nat (length rs))%N -> exists v, In (fst x, v) out).
Proof.
  intros ND H. unfold K.nonces_ok in H. apply andb_prop in H. destruct H as [H H3]. apply andb_prop in H.
  destruct H as [H1 H2]. rewrite forallb_forall in H2, H3. split; [|split].
  - now apply (nodupb_iff K.nkey_eqb nkey_eqb_spec).
  - intros x Hx. specialize (H2 _ Hx). apply N.leb_le in H2. now apply (support_supported nonce_eqb nonce_eqb_spec).
  - intros x rs NDr Hne Hrs Hthr.
    pose proof (reporters_in_items nonce_triples aos x rs Hne Hrs) as Hin. specialize (H3 _ Hin).
    pose proof (reporters_le_support nonce_eqb nonce_eqb_spec nonce_triples aos x rs NDr Hrs) as Hle.
    destruct (N.leb_spec (f_plus_1 fdest) (K.support nonce_eqb nonce_triples x aos)) as [_|Hlt]; [|lia].
    apply (existsb_eqb_in K.nkey_eqb nkey_eqb_spec) in H3. apply in_map_iff in H3. destruct H3 as [[kk v] [E Hi]].
    unfold K.nkey in E. cbn [fst] in E. exists v. now rewrite <- E.
Qed.

(* ====================================================================================================== *)
(*  3. (b) for the sink C07_merge: c07_ok                                                                  *)
(* ====================================================================================================== *)
Definition in_ids (aos : list (N * list N * obs)) : list N := map (fun a => fst (fst a)) aos.

Lemma accepted_in vals : forall aos o ob, In (o, ob) (K.accepted vals aos) -> exists sup, In (o, sup, ob) aos.
Proof.
  unfold K.accepted. induction vals as [|v vals IH]; intros [|[[o' s'] ob'] aos] o ob H; cbn [combine filter map] in H;
    try contradiction.
  destruct v; cbn [fst snd filter map] in H.
  - destruct H as [H|H].
    + inversion H; subst. exists s'. now left.
    + destruct (IH _ _ _ H) as [sup Hi]. exists sup. now right.
  - destruct (IH _ _ _ H) as [sup Hi]. exists sup. now right.
Qed.

Lemma accepted_nodup vals : forall aos, NoDup (in_ids aos) -> NoDup (map fst (K.accepted vals aos)).
Proof.
  induction vals as [|v vals IH]; intros [|[[o' s'] ob'] aos] ND; try (cbn; constructor).
  unfold in_ids in ND. cbn [map fst] in ND. inversion ND as [|? ? Hn ND']; subst.
  destruct v.
  2:{ change (K.accepted (false :: vals) ((o', s', ob') :: aos)) with (K.accepted vals aos). now apply IH. }
  change (K.accepted (true :: vals) ((o', s', ob') :: aos)) with ((o', ob') :: K.accepted vals aos).
  cbn [map fst]. constructor; [|now apply IH].
  intros Hi. apply in_map_iff in Hi. destruct Hi as [[o ob] [E Hi]]. cbn [fst] in E. subst o.
  destruct (accepted_in _ _ _ _ Hi) as [sup Hs]. apply Hn. apply in_map_iff. now exists (o', sup, ob).
Qed.

Lemma c07_ok_inv bigF dest fchain aos vals cs ms ts ks ns :
  K.c07_ok (bigF, dest, fchain, aos) (vals, Ok (cs, ms, ts, ks, ns)) = true ->
  let vaos := K.accepted vals aos in
  (bigF <= Z.of_nat (length vaos))%Z /\
  K.commits_ok dest fchain vaos cs = true /\ K.msgs_ok fchain vaos ms = true /\ K.tokens_ok fchain vaos ts = true /\
  K.costly_ok (f_dest dest fchain) vaos ks = true /\ K.nonces_ok (f_dest dest fchain) vaos ns = true.
Proof.
  unfold K.c07_ok. cbn [fst snd]. intros H.
  repeat (apply andb_prop in H; let H' := fresh "H" in destruct H as [H H']).
  apply negb_true_iff, Z.ltb_ge in H. repeat split; assumption.
Qed.

Section MergeSound.
  Variables (bigF : Z) (dest : N) (fchain : list (N * Z)) (aos : list (N * list N * obs)) (vals : list bool).
  Variables (cs : list (N * list commit)) (ms : list (N * list (N * msg))) (ts : list (N * list (N * list tok)))
            (ks : list N) (ns : list nonce_t).
  Hypothesis ND : NoDup (in_ids aos).
  Hypothesis Hok : K.c07_ok (bigF, dest, fchain, aos) (vals, Ok (cs, ms, ts, ks, ns)) = true.
  Let vaos := K.accepted vals aos.

  Theorem c07_sound_commit :
    (forall k l x, In (k, l) cs -> In x l ->
       In k (keys fchain) /\ c_src x = k /\ supported_by (commits_at k) (f_plus_1 (f_dest dest fchain)) vaos x) /\
    (forall k l, In (k, l) cs -> l <> [] /\ NoDup l) /\
    (forall k x rs, In k (keys fchain) -> NoDup rs -> rs <> [] ->
       (forall o, In o rs -> exists ob, In (o, ob) vaos /\ In x (commits_at k ob)) ->
       (f_plus_1 (f_dest dest fchain) <= N.of_nat (length rs))%N ->
       exists l, In (k, l) cs /\ In x l).
  Proof. apply commits_ok_sound; [now apply accepted_nodup|]. apply (c07_ok_inv _ _ _ _ _ _ _ _ _ _ Hok). Qed.

  Theorem c07_sound_message :
    (forall k l s m, In (k, l) ms -> In (s, m) l ->
       exists f, alookup k fchain = Some f /\ In (k, f) fchain /\ s = m_seq m /\
                 supported_by (msgs_at k) (f_plus_1 f) vaos m) /\
    (forall k l, In (k, l) ms -> NoDup (map fst l)) /\
    (forall k f x rs, In (k, f) fchain -> NoDup rs -> rs <> [] ->
       (forall o, In o rs -> exists ob, In (o, ob) vaos /\ In x (msgs_at k ob)) ->
       (f_plus_1 f <= N.of_nat (length rs))%N ->
       exists l m', In (k, l) ms /\ In (m_seq x, m') l).
  Proof. apply msgs_ok_sound; [now apply accepted_nodup|]. apply (c07_ok_inv _ _ _ _ _ _ _ _ _ _ Hok). Qed.

  Theorem c07_sound_token :
    forall c sl s slots i t, In (c, sl) ts -> In (s, slots) sl -> nth_error slots i = Some t ->
      exists f, alookup c fchain = Some f /\
        (t_ready t = true -> supported_by (tok_at c s i) (f_plus_1 f) vaos t) /\
        ((f_plus_1 f <= slot_reporters c s i vaos)%N \/ (slot_reporters c s 0 vaos < f_plus_1 f)%N) /\
        (forall t', (0 < f_plus_1 f)%N ->
           (f_plus_1 f <= N.of_nat (length (supporters tok_eqb (tok_at c s i) t' vaos)))%N ->
           (forall t'', (f_plus_1 f <= N.of_nat (length (supporters tok_eqb (tok_at c s i) t'' vaos)))%N -> t'' = t') ->
           t = t').
  Proof. apply tokens_ok_sound; [now apply accepted_nodup|]. apply (c07_ok_inv _ _ _ _ _ _ _ _ _ _ Hok). Qed.

  Theorem c07_sound_costly :
    NoDup ks /\
    (forall x, In x ks ->
       exists rs, NoDup rs /\ (f_dest dest fchain + 1 <= Z.of_nat (length rs))%Z /\
                  forall o, In o rs <-> exists ob, In (o, ob) vaos /\ In x (o_costly ob)) /\
    (forall x rs, NoDup rs -> rs <> [] -> (forall o, In o rs -> exists ob, In (o, ob) vaos /\ In x (o_costly ob)) ->
       (f_dest dest fchain + 1 <= Z.of_nat (length rs))%Z -> In x ks).
  Proof. apply costly_ok_sound; [now apply accepted_nodup|]. apply (c07_ok_inv _ _ _ _ _ _ _ _ _ _ Hok). Qed.

  Theorem c07_sound_nonce :
    NoDup (map fst ns) /\
    (forall x, In x ns -> supported_by nonce_triples (f_plus_1 (f_dest dest fchain)) vaos x) /\
    (forall x rs, NoDup rs -> rs <> [] -> (forall o, In o rs -> exists ob, In (o, ob) vaos /\ In x (nonce_triples ob)) ->
       (f_plus_1 (f_dest dest fchain) <= N.of_nat (length rs))%N -> exists v, In (fst x, v) ns).
  Proof. apply nonces_ok_sound; [now apply accepted_nodup|]. apply (c07_ok_inv _ _ _ _ _ _ _ _ _ _ Hok). Qed.
End MergeSound.

(* C07_non_blocking on an arbitrary output: the merge refuses exactly when fewer than F observations were accepted, and
   never panics *)
Theorem c07_sound_nonblocking bigF dest fchain aos vals r :
  K.c07_ok (bigF, dest, fchain, aos) (vals, r) = true ->
  match r with
  | Ok _ => (bigF <= Z.of_nat (length (K.accepted vals aos)))%Z
  | Err => (Z.of_nat (length (K.accepted vals aos)) < bigF)%Z
  | _ => False
  end.
Proof.
  destruct r as [[[[[cs ms] ts] ks] ns]| | |]; intros H.
  - apply (c07_ok_inv _ _ _ _ _ _ _ _ _ _ H).
  - unfold K.c07_ok in H. cbn [fst snd] in H. now apply Z.ltb_lt.
  - discriminate.
  - discriminate.
Qed.

(* ====================================================================================================== *)
(*  4. (b) for the sink C07_outcome: c07o_ok                                                               *)
(* ====================================================================================================== *)
(* membership in the list of agreed reports the flattened clause quantifies over: x was reported under a configured
   chain key k by f_dest+1 observations *)
Lemma all_agreed_in dest fchain aos x :
  In x (K.all_agreed dest fchain aos) <->
  exists k, In k (keys fchain) /\ In x (items_of (commits_at k) aos) /\
            (f_plus_1 (f_dest dest fchain) <= K.support commit_eqb (commits_at k) x aos)%N.
Proof.
  unfold K.all_agreed. rewrite in_flat_map. split.
  - intros [[k f] [Hkf Hx]]. cbn [fst] in Hx. apply filter_In in Hx. destruct Hx as [Hd Ha].
    unfold K.agreed_at in Ha. apply andb_prop in Ha. destruct Ha as [Ha Hs]. apply andb_prop in Ha. destruct Ha as [Hk Hi].
    exists k. split; [now apply memN_In|]. split; [|now apply N.leb_le].
    rewrite (dedup_in commit_eqb commit_eqb_spec) in Hd. exact Hd.
  - intros [k [Hk [Hi Hs]]]. unfold keys in Hk. apply in_map_iff in Hk. destruct Hk as [[k' f] [E Hkf]]. cbn [fst] in E. subst k'.
    exists (k, f). split; [exact Hkf|]. cbn [fst]. apply filter_In. split.
    + rewrite (dedup_in commit_eqb commit_eqb_spec). exact Hi.
    + unfold K.agreed_at. rewrite !andb_true_iff. split; [split|].
      * apply memN_In. unfold keys. apply in_map_iff. now exists (k, f).
      * now apply (existsb_eqb_in commit_eqb commit_eqb_spec).
      * now apply N.leb_le.
Qed.

Lemma commits_flat_ok_sound dest fchain aos out :
  NoDup (map fst aos) -> K.commits_flat_ok dest fchain aos out = true ->
  (forall x, In x out ->
     In (c_src x) (keys fchain) /\
     supported_by (commits_at (c_src x)) (f_plus_1 (f_dest dest fchain)) aos x) /\
  (forall x, In x (K.all_agreed dest fchain aos) ->
     (length (filter (K.c_conflicts x) (K.all_agreed dest fchain aos)) <= 1 -> In x out) /\
     (1 < length (filter (K.c_conflicts x) (K.all_agreed dest fchain aos)) -> ~ In x out)).
Proof.
  intros ND H. unfold K.commits_flat_ok in H. apply andb_prop in H. destruct H as [H1 H2].
  rewrite forallb_forall in H1, H2. split.
  - intros x Hx. specialize (H1 _ Hx). unfold K.agreed_at in H1. apply andb_prop in H1. destruct H1 as [H1 Hs].
    apply andb_prop in H1. destruct H1 as [Hk _]. apply N.leb_le in Hs. split; [now apply memN_In|].
    now apply (support_supported commit_eqb commit_eqb_spec).
  - intros x Hx. specialize (H2 _ Hx).
    destruct (Nat.leb_spec (length (filter (K.c_conflicts x) (K.all_agreed dest fchain aos))) 1) as [Hle|Hgt].
    + split; [|lia]. intros _. now apply (existsb_eqb_in commit_eqb commit_eqb_spec).
    + split; [lia|]. intros _ Hi. apply negb_true_iff in H2.
      apply (existsb_eqb_in commit_eqb commit_eqb_spec) in Hi. congruence.
Qed.

Theorem c07o_sound phase bigF dest fchain aos vals r :
  NoDup (in_ids aos) ->
  K.c07o_ok (phase, bigF, dest, fchain, aos) (vals, r) = true ->
  let vaos := K.accepted vals aos in
  match r with
  | Ok (cs, ms) =>
      (bigF <= Z.of_nat (length vaos))%Z /\
      (if N.eqb phase 1 then
         ms = [] /\
         (forall x, In x cs ->
            In (c_src x) (keys fchain) /\
            supported_by (commits_at (c_src x)) (f_plus_1 (f_dest dest fchain)) vaos x) /\
         (forall x, In x (K.all_agreed dest fchain vaos) ->
            (length (filter (K.c_conflicts x) (K.all_agreed dest fchain vaos)) <= 1 -> In x cs) /\
            (1 < length (filter (K.c_conflicts x) (K.all_agreed dest fchain vaos)) -> ~ In x cs))
       else
         cs = [] /\
         (forall k l s m, In (k, l) ms -> In (s, m) l ->
            exists f, alookup k fchain = Some f /\ In (k, f) fchain /\ s = m_seq m /\
                      supported_by (msgs_at k) (f_plus_1 f) vaos m) /\
         (forall k l, In (k, l) ms -> NoDup (map fst l)) /\
         (forall k f x rs, In (k, f) fchain -> NoDup rs -> rs <> [] ->
            (forall o, In o rs -> exists ob, In (o, ob) vaos /\ In x (msgs_at k ob)) ->
            (f_plus_1 f <= N.of_nat (length rs))%N ->
            exists l m', In (k, l) ms /\ In (m_seq x, m') l))
  | Err => (Z.of_nat (length vaos) < bigF)%Z
  | _ => False
  end.
Proof.
  intros ND H. pose proof (accepted_nodup vals aos ND) as NDv. cbv zeta.
  destruct r as [[cs ms]| | |]; unfold K.c07o_ok in H; cbn [fst snd] in H; try discriminate.
  - apply andb_prop in H. destruct H as [HF H]. apply negb_true_iff, Z.ltb_ge in HF. split; [exact HF|].
    destruct (N.eqb phase 1).
    + apply andb_prop in H. destruct H as [Hc Hm]. split; [destruct ms; [reflexivity|discriminate]|].
      now apply commits_flat_ok_sound.
    + apply andb_prop in H. destruct H as [Hm Hc]. split; [destruct cs; [reflexivity|discriminate]|].
      now apply msgs_ok_sound.
  - now apply Z.ltb_lt.
Qed.

(* ====================================================================================================== *)
(*  5. sink C07_quorum: the test is "o = model"                                                            *)
(* ====================================================================================================== *)
Definition quorum_ok (i : N * Z * N) (o : N) : bool := N.eqb (K.quorum_model i) o.
Lemma quorum_judge_is : K.quorum_judge = judge K.quorum_model N.eqb quorum_ok (fun _ => 0%N).
Proof. reflexivity. Qed.
Lemma quorum_model_passes i : quorum_ok i (K.quorum_model i) = true.
Proof. apply N.eqb_refl. Qed.
(* Plugin.ObservationQuorum answers "reached" exactly from F+1 observations on *)
Theorem quorum_sound x bigF cnt o :
  quorum_ok (x, bigF, cnt) o = true -> (o = 1%N <-> (bigF + 1 <= Z.of_N cnt)%Z) /\ (o = 0%N \/ o = 1%N).
Proof.
  unfold quorum_ok, K.quorum_model. intros H. apply N.eqb_eq in H. subst o.
  destruct (Z.leb_spec (bigF + 1) (Z.of_N cnt)); split; try tauto; split; intros; try lia; discriminate.
Qed.

(* ====================================================================================================== *)
(*  6. (a) every output that the comparison accepts as the model's passes the executable property          *)
(* ====================================================================================================== *)
Definition wf_tok (o : obs) : Prop :=
  NoDup (keys (o_tokens o)) /\ forall c l, In (c, l) (o_tokens o) -> NoDup (keys l).

(* what the model of the validation lets through: well-formed Go maps that pass validate for some role list *)
Definition vald (dest : N) (fchain : list (N * Z)) (vaos : list ao) : Prop :=
  forall o ob, In (o, ob) vaos -> wf_obs ob /\ wf_tok ob /\ exists sup, validate sup dest fchain ob = true.

Lemma list_eqb_in_r {A} (e : A -> A -> bool) : forall l1 l2 b,
  list_eqb e l1 l2 = true -> In b l2 -> exists a, In a l1 /\ e a b = true.
Proof.
  induction l1 as [|x l1 IH]; intros [|y l2] b H Hb; cbn [list_eqb] in H; try discriminate; [destruct Hb|].
  apply andb_prop in H. destruct H as [H1 H2]. destruct Hb as [<-|Hb].
  - exists x. split; [now left|exact H1].
  - destruct (IH _ _ H2 Hb) as [a [Ha He]]. exists a. split; [now right|exact He].
Qed.
Lemma list_eqb_in_l {A} (e : A -> A -> bool) : forall l1 l2 a,
  list_eqb e l1 l2 = true -> In a l1 -> exists b, In b l2 /\ e a b = true.
Proof.
  induction l1 as [|x l1 IH]; intros [|y l2] a H Ha; cbn [list_eqb] in H; try discriminate; [destruct Ha|].
  apply andb_prop in H. destruct H as [H1 H2]. destruct Ha as [<-|Ha].
  - exists y. split; [now left|exact H1].
  - destruct (IH _ _ H2 Ha) as [b [Hb He]]. exists b. split; [now right|exact He].
Qed.

Lemma assigned_inv {Kt T} (keq : Kt -> Kt -> bool) (teq : T -> T -> bool) mdl impl :
  K.assigned keq teq mdl impl = true ->
  nodupb keq (map fst impl) = true /\
  (forall kv, In kv impl -> exists kv', In kv' mdl /\ keq (fst kv) (fst kv') = true /\ teq (snd kv) (snd kv') = true) /\
  (forall kv, In kv mdl -> exists k', In k' (map fst impl) /\ keq (fst kv) k' = true).
Proof.
  unfold K.assigned. intros H. apply andb_prop in H. destruct H as [H H3]. apply andb_prop in H. destruct H as [H1 H2].
  rewrite forallb_forall in H2, H3. split; [exact H1|]. split.
  - intros kv Hkv. specialize (H2 _ Hkv). apply existsb_exists in H2. destruct H2 as [kv' [Hi He]].
    apply andb_prop in He. exists kv'. tauto.
  - intros kv Hkv. specialize (H3 _ Hkv). apply existsb_exists in H3. destruct H3 as [k' [Hi He]]. now exists k'.
Qed.

(* ---- costly ids (no premise) ---- *)
Lemma supporters_costly x aos : supporters N.eqb costly_of x aos = supporters N.eqb o_costly x aos.
Proof.
  unfold supporters. f_equal. apply filter_ext. intros a. unfold costly_of, dedupN. apply Bool.eq_true_iff_eq.
  rewrite !(existsb_eqb_in N.eqb N.eqb_spec). apply (dedup_in N.eqb N.eqb_spec).
Qed.

Lemma model_costly_ok vaos fdest : K.costly_ok fdest vaos (sortN (merge_costly fdest vaos)) = true.
Proof.
  unfold K.costly_ok. apply andb_true_intro. split; [apply andb_true_intro; split|].
  - apply (nodupb_iff N.eqb N.eqb_spec). eapply Permutation_NoDup; [symmetry; apply sortN_perm_self|].
    unfold merge_costly. apply NoDup_filter. apply (dedup_nodup N.eqb N.eqb_spec).
  - apply forallb_forall. intros x Hx. apply sort_by_in in Hx. apply merge_costly_iff in Hx. destruct Hx as [_ Hc].
    unfold gte_f_plus_one. apply Z.leb_le. rewrite (support_len N.eqb o_costly), <- supporters_costly. lia.
  - apply forallb_forall. intros x Hx.
    destruct (gte_f_plus_one fdest (K.support N.eqb o_costly x vaos)) eqn:Eg; [|reflexivity].
    apply memN_In. apply sort_by_in. apply merge_costly_iff. split.
    + change (K.all_items o_costly vaos) with (items_of o_costly vaos) in Hx. apply items_of_in in Hx.
      destruct Hx as [o [ob [Hi Hin]]]. apply items_of_in. exists o, ob. split; [exact Hi|].
      unfold costly_of, dedupN. now apply (dedup_in N.eqb N.eqb_spec).
    + unfold gte_f_plus_one in Eg. apply Z.leb_le in Eg.
      rewrite (support_len N.eqb o_costly), <- supporters_costly in Eg. lia.
Qed.


Section ModelSide.
  Variables (dest : N) (fchain : list (N * Z)) (vaos : list ao).
  Hypothesis Hv : vald dest fchain vaos.
  Hypothesis NDf : NoDup (keys fchain).

  Lemma nd_commits k a : In a vaos -> NoDup (commits_at k (snd a)).
  Proof.
    intros Ha. destruct a as [o ob]. destruct (Hv o ob Ha) as [Hw [_ [sup Hval]]].
    eapply validated_commits_nodup; eassumption.
  Qed.
  Lemma nd_msgs k a : In a vaos -> NoDup (msgs_at k (snd a)).
  Proof.
    intros Ha. destruct a as [o ob]. destruct (Hv o ob Ha) as [Hw [_ [sup Hval]]].
    eapply validated_msgs_nodup; eassumption.
  Qed.
  Lemma nd_nonces a : In a vaos -> NoDup (nonce_triples (snd a)).
  Proof. intros Ha. destruct a as [o ob]. destruct (Hv o ob Ha) as [Hw _]. now apply nonce_triples_nodup. Qed.

  Lemma vald_no_unknown :
    unknown_key fchain o_commits vaos = false /\ unknown_key fchain o_msgs vaos = false /\
    unknown_key fchain o_tokens vaos = false.
  Proof.
    assert (H : forall {V} (proj : obs -> list (N * V)),
               (forall ob k, In k (keys (proj ob)) -> In k (keys (o_commits ob) ++ keys (o_msgs ob) ++ keys (o_tokens ob))) ->
               unknown_key fchain proj vaos = false).
    { intros V proj Hsub. destruct (unknown_key fchain proj vaos) eqn:E; [|reflexivity]. exfalso. unfold unknown_key in E.
      apply existsb_exists in E. destruct E as [[o ob] [Hi E]]. apply existsb_exists in E. destruct E as [k [Hk E]].
      cbn [snd] in *. destruct (Hv o ob Hi) as [_ [_ [sup Hval]]]. unfold validate in Hval.
      apply andb_prop in Hval. destruct Hval as [Hval _].
      apply andb_prop in Hval. destruct Hval as [_ Hc]. unfold validate_chains in Hc.
      rewrite forallb_forall in Hc. rewrite (Hc k (Hsub ob k Hk)) in E. discriminate. }
    repeat split; apply H; intros ob k Hk; rewrite !in_app_iff; tauto.
  Qed.

  (* ---- commit reports ---- *)
  Lemma model_commits_ok :
    K.commits_ok dest fchain vaos
      (K.by_key (map (fun kl => (fst kl, K.by_cid (snd kl)))
                     (per_chain commit_eqb (fun k => commit_items k vaos) (dest_fchain dest fchain)))) = true.
  Proof.
    unfold K.commits_ok, K.by_key. apply andb_true_intro. split; apply forallb_forall.
    - intros [k l'] Hkl. apply sort_by_in in Hkl. apply in_map_iff in Hkl. destruct Hkl as [[k0 l] [E Hpc]].
      cbn [fst snd] in E. inversion E; subst k0 l'; clear E.
      apply per_chain_in in Hpc. destruct Hpc as [f [Hf [Hl Hne]]]. apply dest_fchain_in in Hf. destruct Hf as [Hk ->].
      cbn [fst snd]. rewrite !andb_true_iff. split; [split; [split|]|].
      + now apply memN_In.
      + destruct (K.by_cid l) as [|y l2] eqn:E2; [|reflexivity]. exfalso. apply Hne.
        assert (Hlen : length (K.by_cid l) = length l) by apply sort_by_length.
        rewrite E2 in Hlen. destruct l; [reflexivity|discriminate].
      + apply (nodupb_iff commit_eqb commit_eqb_spec). eapply Permutation_NoDup; [symmetry; apply sort_by_perm|].
        rewrite Hl. apply (valid_nodup commit_eqb commit_eqb_spec).
      + apply forallb_forall. intros x Hx. apply sort_by_in in Hx. rewrite Hl in Hx.
        apply (valid_spec commit_eqb commit_eqb_spec) in Hx. destruct Hx as [Hx Hc].
        change (commit_items k vaos) with (items_of (commits_at k) vaos) in Hx, Hc.
        rewrite (count_support commit_eqb commit_eqb_spec) in Hc by (intros a Ha; now apply nd_commits).
        apply items_of_in in Hx. destruct Hx as [o [ob [Hi Hin]]]. destruct (Hv o ob Hi) as [_ [_ [sup Hval]]].
        apply andb_true_intro. split; [apply N.eqb_eq; eapply validated_commit_key; eassumption|now apply N.leb_le].
    - intros [k f] Hkf. cbn [fst]. apply forallb_forall. intros x Hx.
      destruct (N.leb_spec (f_plus_1 (f_dest dest fchain)) (K.support commit_eqb (K.commits_at k) x vaos)) as [Hle|_];
        [|reflexivity].
      assert (Hxv : In x (valid commit_eqb (f_plus_1 (f_dest dest fchain)) (commit_items k vaos))).
      { apply (valid_spec commit_eqb commit_eqb_spec). split; [exact Hx|].
        change (commit_items k vaos) with (items_of (commits_at k) vaos).
        rewrite (count_support commit_eqb commit_eqb_spec) by (intros a Ha; now apply nd_commits). exact Hle. }
      apply (existsb_eqb_in commit_eqb commit_eqb_spec). apply entries_in.
      exists (K.by_cid (valid commit_eqb (f_plus_1 (f_dest dest fchain)) (commit_items k vaos))). split.
      + apply sort_by_in. apply in_map_iff.
        exists (k, valid commit_eqb (f_plus_1 (f_dest dest fchain)) (commit_items k vaos)). split; [reflexivity|].
        apply per_chain_in. exists (f_dest dest fchain). split; [|split; [reflexivity|]].
        * apply dest_fchain_in. split; [|reflexivity]. unfold keys. apply in_map_iff. now exists (k, f).
        * intros E. rewrite E in Hxv. destruct Hxv.
      + apply sort_by_in. exact Hxv.
  Qed.

  (* ---- messages: the implementation's map is a possible assignment of the model's valid messages ---- *)
  Lemma model_msgs_ok ms :
    K.msgs_eq (K.by_key (map (fun kl => (fst kl, K.by_key (map (fun x => (m_seq x, x)) (snd kl))))
                             (per_chain msg_eqb (fun k => msg_items k vaos) fchain))) ms = true ->
    K.msgs_ok fchain vaos ms = true.
  Proof.
    intros Heq. unfold K.msgs_eq in Heq. unfold K.msgs_ok. apply andb_true_intro. split; apply forallb_forall.
    - intros [k li] Hkl. destruct (list_eqb_in_r _ _ _ _ Heq Hkl) as [[k0 lm] [Hm He]]. cbn [fst snd] in He.
      apply andb_prop in He. destruct He as [Ek Has]. apply N.eqb_eq in Ek. subst k0.
      unfold K.by_key in Hm. apply sort_by_in in Hm. apply in_map_iff in Hm. destruct Hm as [[k0 l] [E Hpc]].
      cbn [fst snd] in E. inversion E; subst k0 lm; clear E.
      apply per_chain_in in Hpc. destruct Hpc as [f [Hf [Hl _]]].
      cbn [fst snd]. unfold K.thr_of. rewrite (alookup_NoDup_In k fchain f NDf Hf).
      destruct (assigned_inv _ _ _ _ Has) as [A1 [A2 _]].
      apply andb_true_intro. split; [exact A1|]. apply forallb_forall. intros [s m] Hsm. cbn [fst snd].
      destruct (A2 _ Hsm) as [[s' m'] [Hi [E1 E2]]]. cbn [fst snd] in E1, E2. apply N.eqb_eq in E1. apply msg_eqb_eq in E2.
      subst s' m'. apply sort_by_in in Hi. apply in_map_iff in Hi. destruct Hi as [x [E Hx]]. inversion E; subst s m; clear E.
      rewrite Hl in Hx. apply (valid_spec msg_eqb msg_eqb_spec) in Hx. destruct Hx as [_ Hc].
      change (msg_items k vaos) with (items_of (msgs_at k) vaos) in Hc.
      rewrite (count_support msg_eqb msg_eqb_spec) in Hc by (intros a Ha; now apply nd_msgs).
      apply andb_true_intro. split; [apply N.eqb_refl|now apply N.leb_le].
    - intros [k f] Hkf. cbn [fst snd]. apply forallb_forall. intros x Hx.
      destruct (N.leb_spec (f_plus_1 f) (K.support msg_eqb (K.msgs_at k) x vaos)) as [Hle|_]; [|reflexivity].
      assert (Hxv : In x (valid msg_eqb (f_plus_1 f) (msg_items k vaos))).
      { apply (valid_spec msg_eqb msg_eqb_spec). split; [exact Hx|].
        change (msg_items k vaos) with (items_of (msgs_at k) vaos).
        rewrite (count_support msg_eqb msg_eqb_spec) by (intros a Ha; now apply nd_msgs). exact Hle. }
      set (l := valid msg_eqb (f_plus_1 f) (msg_items k vaos)) in *.
      set (lm := K.by_key (map (fun x => (m_seq x, x)) l)).
      assert (Hm : In (k, lm) (K.by_key (map (fun kl => (fst kl, K.by_key (map (fun x => (m_seq x, x)) (snd kl))))
                                             (per_chain msg_eqb (fun k => msg_items k vaos) fchain)))).
      { apply sort_by_in. apply in_map_iff. exists (k, l). split; [reflexivity|]. apply per_chain_in. exists f.
        split; [exact Hkf|]. split; [reflexivity|]. intros E. rewrite E in Hxv. destruct Hxv. }
      destruct (list_eqb_in_l _ _ _ _ Heq Hm) as [[k2 li] [Hli He]]. cbn [fst snd] in He.
      apply andb_prop in He. destruct He as [Ek Has]. apply N.eqb_eq in Ek. subst k2.
      destruct (assigned_inv _ _ _ _ Has) as [_ [_ A3]].
      assert (Hxl : In (m_seq x, x) lm) by (apply sort_by_in, in_map_iff; now exists x).
      destruct (A3 _ Hxl) as [s' [Hs' E]]. cbn [fst] in E. apply N.eqb_eq in E. subst s'.
      apply memN_In. apply in_map_iff in Hs'. destruct Hs' as [[s m'] [E Hi]]. cbn [fst] in E. subst s.
      apply in_map_iff. exists (m_seq x, m'). split; [reflexivity|]. apply entries_in. now exists li.
  Qed.

  (* ---- token data ---- *)
  Lemma fold_max_lt (l : list nat) i : (i < fold_right Nat.max O l)%nat -> exists x, In x l /\ (i < x)%nat.
  Proof.
    induction l as [|y l IH]; cbn [fold_right]; intros H; [lia|].
    destruct (Nat.max_spec y (fold_right Nat.max O l)) as [[_ E]|[_ E]]; rewrite E in H.
    - destruct (IH H) as [x [Hx Hl]]. exists x. split; [now right|exact Hl].
    - exists y. split; [now left|exact H].
  Qed.

  Lemma existsb_false {A} (p : A -> bool) l x : existsb p l = false -> In x l -> p x = false.
  Proof.
    intros H Hx. destruct (p x) eqn:E; [|reflexivity].
    assert (existsb p l = true) by (apply existsb_exists; now exists x). congruence.
  Qed.

  Hypothesis Hlonely : K.lonely_slot fchain vaos = false.

  Lemma model_slot_clause c s i f :
    alookup c fchain = Some f -> (i < tok_slots c s vaos)%nat ->
    N.leb (f_plus_1 f) (K.support (fun _ _ => true) (K.has_slot c s i) tt vaos) ||
    negb (N.leb (f_plus_1 f) (K.support (fun _ _ => true) (K.has_slot c s O) tt vaos)) = true.
  Proof.
    intros Hf Hi. unfold tok_slots in Hi. apply fold_max_lt in Hi. destruct Hi as [n [Hn Hi]].
    apply in_map_iff in Hn. destruct Hn as [[o ob] [<- Ha]]. cbn [snd] in Hi.
    destruct (Hv o ob Ha) as [_ [[NDk NDl] _]].
    destruct (entries_cases c _ NDk) as [E|[cl [Hcl E]]]; rewrite E in Hi; [cbn in Hi; lia|].
    destruct (entries_cases s _ (NDl _ _ Hcl)) as [E2|[ss [Hss E2]]]; rewrite E2 in Hi; [cbn in Hi; lia|].
    destruct (nth_error ss i) as [t0|] eqn:En; [|apply nth_error_None in En; lia].
    unfold K.lonely_slot in Hlonely.
    pose proof (existsb_false _ _ _ Hlonely Ha) as H1. cbn [snd] in H1.
    pose proof (existsb_false _ _ _ H1 Hcl) as H2. cbn [snd] in H2.
    pose proof (existsb_false _ _ _ H2 Hss) as H3. cbn [fst snd] in H3.
    apply negb_false_iff in H3. pose proof (idx_forallb_nth _ _ _ _ _ H3 En) as H4. cbn [Nat.add] in H4.
    unfold K.thr_of in H4. rewrite Hf in H4. exact H4.
  Qed.

  Lemma model_tokens_ok r :
    merge_tokens fchain vaos = Ok r ->
    K.tokens_ok fchain vaos (K.by_key (map (fun kl => (fst kl, K.by_key (snd kl))) r)) = true.
  Proof.
    intros Hm. unfold merge_tokens in Hm. destruct (unknown_key fchain o_tokens vaos) eqn:Hu; [discriminate|].
    inversion Hm; subst r; clear Hm. unfold K.tokens_ok, K.by_key. apply forallb_forall.
    intros [c sl'] Hc. apply sort_by_in in Hc. apply in_map_iff in Hc. destruct Hc as [[c0 sl] [E Hc]].
    cbn [fst snd] in E. inversion E; subst c0 sl'; clear E.
    apply in_map_iff in Hc. destruct Hc as [c1 [E Hc]]. inversion E; subst c1; clear E.
    unfold tok_chains, dedupN in Hc. rewrite (dedup_in N.eqb N.eqb_spec) in Hc. apply in_flat_map in Hc.
    destruct Hc as [a [Ha Hk]]. destruct (unknown_key_false _ _ _ _ _ Hu Ha Hk) as [f Hf].
    cbn [fst snd]. unfold K.thr_of. rewrite Hf. apply forallb_forall. intros [s slots] Hs.
    apply sort_by_in in Hs. subst sl. apply in_map_iff in Hs. destruct Hs as [s1 [E Hs]]. inversion E; subst s1 slots; clear E.
    cbn [fst snd]. apply idx_forallb_intro. intros i t Hn. cbn [Nat.add].
    apply nth_error_map_seq in Hn. destruct Hn as [-> Hlt]. cbn [Nat.add].
    apply andb_true_intro. split; [apply andb_true_intro; split|].
    - destruct (t_ready (tok_slot (f_plus_1 f) c s vaos i)) eqn:Hr; [|reflexivity]. apply N.leb_le.
      unfold tok_slot in Hr |- *.
      destruct (valid tok_eqb (f_plus_1 f) (tok_votes c s i vaos)) as [|v [|w vs]] eqn:Ev; try discriminate Hr.
      assert (Hvv : In v (valid tok_eqb (f_plus_1 f) (tok_votes c s i vaos))) by (rewrite Ev; now left).
      apply (valid_spec tok_eqb tok_eqb_spec) in Hvv. destruct Hvv as [_ Hcnt].
      change (tok_votes c s i vaos) with (items_of (tok_at c s i) vaos) in Hcnt.
      rewrite (count_support tok_eqb tok_eqb_spec) in Hcnt by (intros; apply tok_at_nodup). exact Hcnt.
    - now apply model_slot_clause.
    - rewrite slot_candidates. unfold tok_slot.
      destruct (valid tok_eqb (f_plus_1 f) (tok_votes c s i vaos)) as [|v [|w vs]]; try reflexivity.
      destruct (tok_eqb_spec v v); congruence.
  Qed.

  (* ---- nonces: the implementation's map is a possible assignment of the model's valid triples ---- *)
  Lemma model_nonces_ok fdest ns :
    K.nonces_eq (sort_by K.nonce_le (merge_nonces fdest vaos)) ns = true -> K.nonces_ok fdest vaos ns = true.
  Proof.
    intros Heq. unfold K.nonces_eq in Heq. destruct (assigned_inv _ _ _ _ Heq) as [A1 [A2 A3]].
    unfold K.nonces_ok. apply andb_true_intro. split; [apply andb_true_intro; split|].
    - rewrite map_map in A1. exact A1.
    - apply forallb_forall. intros x Hx.
      assert (Hx' : In (K.nkey x, snd x) (map (fun t => (K.nkey t, snd t)) ns)) by (apply in_map_iff; now exists x).
      destruct (A2 _ Hx') as [kv' [Hi [E1 E2]]]. apply in_map_iff in Hi. destruct Hi as [t [<- Ht]].
      cbn [fst snd] in E1, E2. apply N.eqb_eq in E2. destruct (nkey_eqb_spec (K.nkey x) (K.nkey t)) as [E1'|]; [|discriminate].
      assert (t = x) by (destruct t, x; unfold K.nkey in E1'; cbn [fst snd] in *; congruence). subst t.
      apply sort_by_in in Ht. unfold merge_nonces in Ht. apply (valid_spec nonce_eqb nonce_eqb_spec) in Ht.
      destruct Ht as [_ Hc]. change (nonce_items vaos) with (items_of nonce_triples vaos) in Hc.
      rewrite (count_support nonce_eqb nonce_eqb_spec) in Hc by (intros a Ha; now apply nd_nonces). now apply N.leb_le.
    - apply forallb_forall. intros x Hx.
      destruct (N.leb_spec (f_plus_1 fdest) (K.support nonce_eqb nonce_triples x vaos)) as [Hle|_]; [|reflexivity].
      assert (Hxv : In x (merge_nonces fdest vaos)).
      { unfold merge_nonces. apply (valid_spec nonce_eqb nonce_eqb_spec). split; [exact Hx|].
        change (nonce_items vaos) with (items_of nonce_triples vaos).
        rewrite (count_support nonce_eqb nonce_eqb_spec) by (intros a Ha; now apply nd_nonces). exact Hle. }
      assert (Hm : In (K.nkey x, snd x) (map (fun t => (K.nkey t, snd t)) (sort_by K.nonce_le (merge_nonces fdest vaos)))).
      { apply in_map_iff. exists x. split; [reflexivity|]. now apply sort_by_in. }
      destruct (A3 _ Hm) as [k' [Hk' E]]. cbn [fst] in E. apply existsb_exists. exists k'. split; [|exact E].
      rewrite map_map in Hk'. exact Hk'.
  Qed.
End ModelSide.

(* ---- the flattened commit reports of the GetCommitReports outcome ---- *)
Lemma flat_map_ext_in {A B} (f g : A -> list B) l : (forall a, In a l -> f a = g a) -> flat_map f l = flat_map g l.
Proof.
  induction l as [|a l IH]; intros H; cbn [flat_map]; [reflexivity|].
  rewrite (H a (or_introl eq_refl)), IH; [reflexivity|]. intros b Hb. apply H. now right.
Qed.
Lemma flat_map_map {A B C} (g : A -> B) (f : B -> list C) l : flat_map f (map g l) = flat_map (fun a => f (g a)) l.
Proof. induction l as [|a l IH]; cbn [map flat_map]; [reflexivity|]. now rewrite IH. Qed.
Lemma perm_flat_map_pointwise {A B} (f g : A -> list B) l :
  (forall a, Permutation (f a) (g a)) -> Permutation (flat_map f l) (flat_map g l).
Proof. intros H. induction l as [|a l IH]; cbn [flat_map]; [constructor|]. now apply Permutation_app. Qed.
Lemma per_chain_flat {T} (eqb : T -> T -> bool) items fc :
  flat_map snd (per_chain eqb items fc) = flat_map (fun kf => valid eqb (f_plus_1 (snd kf)) (items (fst kf))) fc.
Proof.
  unfold per_chain. induction fc as [|kf fc IH]; cbn [flat_map]; [reflexivity|].
  rewrite flat_map_app, IH. f_equal.
  destruct (valid eqb (f_plus_1 (snd kf)) (items (fst kf))); [reflexivity|]. cbn [flat_map snd]. apply app_nil_r.
Qed.

Section ModelFlat.
  Variables (dest : N) (fchain : list (N * Z)) (vaos : list ao).
  Hypothesis Hv : vald dest fchain vaos.
  Let thrd := f_plus_1 (f_dest dest fchain).
  Let PC := per_chain commit_eqb (fun k => commit_items k vaos) (dest_fchain dest fchain).
  Let L := flat_map snd (K.by_key (map (fun kl => (fst kl, K.by_cid (snd kl))) PC)).

  Lemma agreed_is_valid k :
    In k (keys fchain) ->
    filter (K.agreed_at dest fchain vaos k) (dedup commit_eqb (K.all_items (K.commits_at k) vaos)) =
    valid commit_eqb thrd (commit_items k vaos).
  Proof.
    intros Hk. unfold valid. apply filter_ext_in. intros x Hx. rewrite (dedup_in commit_eqb commit_eqb_spec) in Hx.
    unfold K.agreed_at. apply memN_In in Hk. rewrite Hk. cbn [andb].
    assert (He : existsb (commit_eqb x) (K.all_items (K.commits_at k) vaos) = true)
      by now apply (existsb_eqb_in commit_eqb commit_eqb_spec).
    rewrite He. cbn [andb]. f_equal.
    change (commit_items k vaos) with (items_of (commits_at k) vaos).
    rewrite (count_support commit_eqb commit_eqb_spec); [reflexivity|].
    intros a Ha. eapply nd_commits; eassumption.
  Qed.

  Lemma L_perm_agreed : Permutation L (K.all_agreed dest fchain vaos).
  Proof.
    unfold L, K.by_key. etransitivity; [apply Permutation_flat_map, sort_by_perm|].
    rewrite flat_map_map. cbn [snd].
    etransitivity; [apply (perm_flat_map_pointwise _ snd); intros a; apply sort_by_perm|].
    unfold PC. rewrite per_chain_flat. unfold dest_fchain. rewrite flat_map_map. cbn [fst snd].
    unfold K.all_agreed. erewrite flat_map_ext_in; [reflexivity|].
    intros [k f] Hkf. cbn [fst]. symmetry. apply agreed_is_valid. unfold keys. apply in_map_iff. now exists (k, f).
  Qed.

  Lemma model_flat_ok :
    K.commits_flat_ok dest fchain vaos (K.by_cid (K.drop_conflicting_c L)) = true.
  Proof.
    pose proof L_perm_agreed as HP.
    unfold K.commits_flat_ok. apply andb_true_intro. split; apply forallb_forall.
    - intros x Hx. apply sort_by_in in Hx. unfold K.drop_conflicting_c in Hx. apply filter_In in Hx. destruct Hx as [Hx _].
      apply (Permutation_in _ HP) in Hx. apply all_agreed_in in Hx. destruct Hx as [k [Hk [Hi Hs]]].
      assert (Hsrc : c_src x = k).
      { apply items_of_in in Hi. destruct Hi as [o [ob [Ho Hin]]]. destruct (Hv o ob Ho) as [_ [_ [sup Hval]]].
        eapply validated_commit_key; eassumption. }
      rewrite Hsrc. unfold K.agreed_at. rewrite !andb_true_iff. split; [split|].
      + now apply memN_In.
      + now apply (existsb_eqb_in commit_eqb commit_eqb_spec).
      + now apply N.leb_le.
    - intros x Hx.
      assert (Hlen : length (filter (K.c_conflicts x) (K.all_agreed dest fchain vaos)) = length (filter (K.c_conflicts x) L))
        by (apply Permutation_length, Permutation_filter_compat; now symmetry).
      rewrite Hlen.
      destruct (Nat.leb (length (filter (K.c_conflicts x) L)) 1) eqn:El.
      + apply (existsb_eqb_in commit_eqb commit_eqb_spec). apply sort_by_in. unfold K.drop_conflicting_c.
        apply filter_In. split; [|exact El]. apply (Permutation_in x (Permutation_sym HP)). exact Hx.
      + apply negb_true_iff. destruct (existsb (commit_eqb x) (K.by_cid (K.drop_conflicting_c L))) eqn:Ee; [|reflexivity].
        apply (existsb_eqb_in commit_eqb commit_eqb_spec) in Ee. apply sort_by_in in Ee.
        unfold K.drop_conflicting_c in Ee. apply filter_In in Ee. destruct Ee as [_ Ee]. congruence.
  Qed.
End ModelFlat.

(* ---- assembling: the verdict list of the model and what it lets through ---- *)
Definition wf_in (aos : list (N * list N * obs)) : Prop :=
  forall o sup ob, In (o, sup, ob) aos -> wf_obs ob /\ wf_tok ob.
Definition model_vals (dest : N) (fchain : list (N * Z)) (aos : list (N * list N * obs)) : list bool :=
  map (fun a => validate (snd (fst a)) dest fchain (snd a)) aos.

Lemma accepted_model dest fchain : forall aos o ob,
  In (o, ob) (K.accepted (model_vals dest fchain aos) aos) ->
  exists sup, In (o, sup, ob) aos /\ validate sup dest fchain ob = true.
Proof.
  unfold K.accepted, model_vals. induction aos as [|[[o' s'] ob'] aos IH]; intros o ob H; cbn [map combine filter] in H;
    [destruct H|].
  cbn [fst snd] in H. destruct (validate s' dest fchain ob') eqn:E; cbn [map fst snd] in H.
  - destruct H as [H|H].
    + inversion H; subst. exists s'. split; [now left|exact E].
    + destruct (IH _ _ H) as [sup [Hi Hval]]. exists sup. split; [now right|exact Hval].
  - destruct (IH _ _ H) as [sup [Hi Hval]]. exists sup. split; [now right|exact Hval].
Qed.

Lemma accepted_vald dest fchain aos :
  wf_in aos -> vald dest fchain (K.accepted (model_vals dest fchain aos) aos).
Proof.
  intros Hw o ob Hi. destruct (accepted_model _ _ _ _ _ Hi) as [sup [Hin Hval]]. destruct (Hw _ _ _ Hin) as [H1 H2].
  split; [exact H1|]. split; [exact H2|]. now exists sup.
Qed.

Lemma consensus_on_vald bigF dest fchain vaos :
  vald dest fchain vaos -> Z.ltb (Z.of_nat (length vaos)) bigF = false ->
  exists T, merge_tokens fchain vaos = Ok T /\
    get_consensus bigF dest fchain vaos =
      Ok (mkMerged (per_chain commit_eqb (fun k => commit_items k vaos) (dest_fchain dest fchain))
                   (per_chain msg_eqb (fun k => msg_items k vaos) fchain) T
                   (merge_costly (f_dest dest fchain) vaos) (merge_nonces (f_dest dest fchain) vaos)).
Proof.
  intros Hv HF. destruct (vald_no_unknown _ _ _ Hv) as [H1 [H2 H3]].
  unfold get_consensus, merge_commits, merge_msgs. rewrite HF, H1, H2. cbn [rbind].
  destruct (merge_tokens fchain vaos) as [T| | |] eqn:Et;
    try (unfold merge_tokens in Et; rewrite H3 in Et; discriminate).
  exists T. split; reflexivity.
Qed.

Theorem c07_model_equiv_passes bigF dest fchain aos o :
  wf_in aos -> NoDup (keys fchain) -> K.c07_known (bigF, dest, fchain, aos) = 0%N ->
  K.c07_oeqb (K.c07_model (bigF, dest, fchain, aos)) o = true ->
  K.c07_ok (bigF, dest, fchain, aos) o = true.
Proof.
  intros Hw NDf Hk Heq. destruct o as [vals r]. unfold K.c07_oeqb, K.c07_model in Heq. cbn [fst snd] in Heq.
  apply andb_prop in Heq. destruct Heq as [Hvals Hres]. apply (list_eqb_eq _ bool_eqb_eq) in Hvals. subst vals.
  fold (model_vals dest fchain aos) in Hres |- *.
  pose proof (accepted_vald dest fchain aos Hw) as Hv.
  unfold K.c07_known in Hk. fold (model_vals dest fchain aos) in Hk.
  destruct (K.lonely_slot fchain (K.accepted (model_vals dest fchain aos) aos)) eqn:Hl; [discriminate|]. clear Hk.
  unfold K.c07_ok. cbn [fst snd]. set (vaos := K.accepted (model_vals dest fchain aos) aos) in *.
  destruct (Z.ltb (Z.of_nat (length vaos)) bigF) eqn:HF.
  - unfold get_consensus in Hres. rewrite HF in Hres. destruct r; try discriminate. reflexivity.
  - destruct (consensus_on_vald bigF dest fchain vaos Hv HF) as [T [Et Hg]]. rewrite Hg in Hres.
    destruct r as [[[[[cs ms] ts] ks] ns]| | |]; try discriminate. cbn [res_eqb] in Hres.
    unfold K.mout_eqb, K.canon in Hres. cbn [g_commits g_msgs g_tokens g_costly g_nonces] in Hres.
    apply andb_prop in Hres. destruct Hres as [Hres En]. apply andb_prop in Hres. destruct Hres as [Hres Ek].
    apply andb_prop in Hres. destruct Hres as [Hres Et']. apply andb_prop in Hres. destruct Hres as [Ec Em].
    apply (list_eqb_eq _ (pair_eqb_eq _ _ N_eqb_eq' (list_eqb_eq _ commit_eqb_eq))) in Ec. subst cs.
    apply (list_eqb_eq _ (pair_eqb_eq _ _ N_eqb_eq'
             (list_eqb_eq _ (pair_eqb_eq _ _ N_eqb_eq' (list_eqb_eq _ tok_eqb_eq))))) in Et'. subst ts.
    apply (list_eqb_eq _ N_eqb_eq') in Ek. subst ks.
    rewrite (model_commits_ok dest fchain vaos Hv), (model_msgs_ok dest fchain vaos Hv NDf ms Em),
      (model_tokens_ok dest fchain vaos Hv Hl T Et), (model_costly_ok vaos), (model_nonces_ok dest fchain vaos Hv _ ns En).
    reflexivity.
Qed.

(* the model's own output, when the comparison accepts it as itself (it does unless two valid messages share a
   sequence number or two valid nonces a sender: Go's map then keeps one, F17 / C10) *)
Corollary c07_model_passes bigF dest fchain aos :
  wf_in aos -> NoDup (keys fchain) -> K.c07_known (bigF, dest, fchain, aos) = 0%N ->
  K.c07_oeqb (K.c07_model (bigF, dest, fchain, aos)) (K.c07_model (bigF, dest, fchain, aos)) = true ->
  K.c07_ok (bigF, dest, fchain, aos) (K.c07_model (bigF, dest, fchain, aos)) = true.
Proof. intros. now apply c07_model_equiv_passes. Qed.

Theorem c07o_model_equiv_passes phase bigF dest fchain aos o :
  wf_in aos -> NoDup (keys fchain) ->
  K.c07o_oeqb (K.c07o_model (phase, bigF, dest, fchain, aos)) o = true ->
  K.c07o_ok (phase, bigF, dest, fchain, aos) o = true.
Proof.
  intros Hw NDf Heq. destruct o as [vals r]. unfold K.c07o_oeqb, K.c07o_model in Heq. cbn [fst snd] in Heq.
  apply andb_prop in Heq. destruct Heq as [Hvals Hres]. apply (list_eqb_eq _ bool_eqb_eq) in Hvals. subst vals.
  fold (model_vals dest fchain aos) in Hres |- *.
  pose proof (accepted_vald dest fchain aos Hw) as Hv.
  unfold K.c07o_ok. cbn [fst snd]. set (vaos := K.accepted (model_vals dest fchain aos) aos) in *.
  destruct (Z.ltb (Z.of_nat (length vaos)) bigF) eqn:HF.
  - unfold get_consensus in Hres. rewrite HF in Hres. destruct r; try discriminate. reflexivity.
  - destruct (consensus_on_vald bigF dest fchain vaos Hv HF) as [T [Et Hg]]. rewrite Hg in Hres.
    unfold K.canon in Hres. cbn [g_commits g_msgs g_tokens g_costly g_nonces] in Hres.
    destruct (N.eqb phase 1) eqn:Ep; destruct r as [[cs ms]| | |]; try discriminate; cbn [res_eqb fst snd] in Hres;
      apply andb_prop in Hres; destruct Hres as [Ec Em]; cbn [negb andb].
    + apply (list_eqb_eq _ commit_eqb_eq) in Ec. subst cs. unfold K.msgs_eq in Em. destruct ms; [|discriminate].
      rewrite (model_flat_ok dest fchain vaos Hv). reflexivity.
    + destruct cs; [|discriminate]. rewrite (model_msgs_ok dest fchain vaos Hv NDf ms Em). reflexivity.
Qed.

Corollary c07o_model_passes phase bigF dest fchain aos :
  wf_in aos -> NoDup (keys fchain) ->
  K.c07o_oeqb (K.c07o_model (phase, bigF, dest, fchain, aos)) (K.c07o_model (phase, bigF, dest, fchain, aos)) = true ->
  K.c07o_ok (phase, bigF, dest, fchain, aos) (K.c07o_model (phase, bigF, dest, fchain, aos)) = true.
Proof. intros. now apply c07o_model_equiv_passes. Qed.

(* ====================================================================================================== *)
(*  7. non-vacuity: the executable properties hold on a concrete case where every kind of item is merged   *)
(* ====================================================================================================== *)
Definition ex_in_aos : list (N * list N * obs) := [(0%N, [1; 2]%N, ex_obs); (1%N, [1; 2]%N, ex_obs)].
Example c07_ok_example :
  K.c07_ok (1%Z, 2%N, ex_fchain, ex_in_aos)
           ([true; true], Ok ([(1%N, [ex_c])], [(1%N, [(10%N, ex_m)])], [(1%N, [(10%N, [ex_t])])], [9%N], [(1%N, 4%N, 6%N)])) = true /\
  K.c07_model (1%Z, 2%N, ex_fchain, ex_in_aos) =
    ([true; true], Ok ([(1%N, [ex_c])], [(1%N, [(10%N, ex_m)])], [(1%N, [(10%N, [ex_t])])], [9%N], [(1%N, 4%N, 6%N)])) /\
  K.c07_known (1%Z, 2%N, ex_fchain, ex_in_aos) = 0%N /\ NoDup (in_ids ex_in_aos).
Proof.
  split; [vm_compute; reflexivity|]. split; [vm_compute; reflexivity|]. split; [vm_compute; reflexivity|].
  repeat constructor; cbn; intuition discriminate.
Qed.
Example c07o_ok_example :
  K.c07o_ok (1%N, 1%Z, 2%N, ex_fchain, ex_in_aos) ([true; true], Ok ([ex_c], [])) = true /\
  K.c07o_ok (2%N, 1%Z, 2%N, ex_fchain, ex_in_aos) ([true; true], Ok ([], [(1%N, [(10%N, ex_m)])])) = true /\
  K.c07o_model (1%N, 1%Z, 2%N, ex_fchain, ex_in_aos) = ([true; true], Ok ([ex_c], [])).
Proof. repeat split; vm_compute; reflexivity. Qed.
Example quorum_ok_example : quorum_ok (0%N, 1%Z, 2%N) 1%N = true /\ quorum_ok (0%N, 1%Z, 1%N) 0%N = true.
Proof. split; vm_compute; reflexivity. Qed.

(* SeqRangeP.v — theorems about SeqNumRange.Limit (Model/SeqRange.v). *)
Require Import Verif.Model.Base Verif.Model.SeqRange.
From Coq Require Import ZifyN ZifyNat ZifyBool.
Ltac Zify.zify_post_hook ::= Z.div_mod_to_equations.

(* ---------- uint64 helpers: when no wrap occurs the Go operators are the mathematical ones ---------- *)
Lemma add64_small a b : (a + b < two64)%N -> add64 a b = (a + b)%N.
Proof. intros H. unfold add64. apply N.mod_small. exact H. Qed.

Lemma sub64_small a b : (b <= a)%N -> (a < two64)%N -> sub64 a b = (a - b)%N.
Proof. intros H1 H2. unfold sub64, two64 in *. lia. Qed.

Lemma add64_lt a b : (add64 a b < two64)%N.
Proof. unfold add64. apply N.mod_lt. discriminate. Qed.

Lemma sub64_lt a b : (sub64 a b < two64)%N.
Proof. unfold sub64. apply N.mod_lt. discriminate. Qed.

Lemma succ64_small a : (a < max64)%N -> succ64 a = (a + 1)%N.
Proof. intros H. unfold succ64. apply add64_small. unfold max64, two64 in *. lia. Qed.

Lemma succ64_max : succ64 max64 = 0%N.
Proof. reflexivity. Qed.

(* ---------- Limit, repaired ---------- *)

(* The start never moves, whatever the arguments. *)
Lemma limit_start s e n : fst (limit s e n) = s.
Proof.
  unfold limit. destruct (N.ltb e s); [reflexivity|].
  destruct (N.leb n (sub64 e s)); [|reflexivity].
  destruct (N.ltb e (sub64 (add64 s n) 1)); reflexivity.
Qed.

(* Full specification on well-formed ranges: no wrap can occur, and the result is
   [s, min(e, s+n-1)] computed in unbounded arithmetic. *)
Theorem limit_spec s e n :
  (s <= e)%N -> u64 e -> (1 <= n)%N ->
  limit s e n = (s, N.min e (s + n - 1)).
Proof.
  intros Hse He Hn. unfold u64 in He. unfold limit.
  destruct (N.ltb_spec e s) as [H1|H1]; [lia|].
  rewrite (sub64_small e s Hse He).
  destruct (N.leb_spec n (e - s)) as [H2|H2].
  - assert (Hsn : (s + n < two64)%N) by lia.
    rewrite (add64_small s n Hsn).
    rewrite (sub64_small (s + n) 1) by lia.
    destruct (N.ltb_spec e (s + n - 1)) as [H3|H3]; f_equal; lia.
  - f_equal. lia.
Qed.

(* Consequences used by the interval theorem: bounded size, end never grows, end >= start. *)
Corollary limit_bounds s e n :
  (s <= e)%N -> u64 e -> (1 <= n)%N ->
  let r := limit s e n in
  fst r = s /\ (s <= snd r <= e)%N /\ (range_size r <= n)%N /\
  ((range_size (s, e) <= n)%N -> r = (s, e)) /\
  ((n < range_size (s, e))%N -> range_size r = n).
Proof.
  intros Hse He Hn. cbv zeta. rewrite (limit_spec s e n Hse He Hn).
  unfold range_size. cbn [fst snd].
  repeat split; try lia.
  intros H. f_equal. lia.
Qed.

(* Inverted ranges are returned unchanged (they never reach Limit from reportRangesOutcome, see CommitMerkleP). *)
Lemma limit_inverted s e n : (e < s)%N -> limit s e n = (s, e).
Proof. intros H. unfold limit. destruct (N.ltb_spec e s); [reflexivity|lia]. Qed.

Example limit_spec_nonvacuous :
  limit 100 110 10 = (100, 109)%N /\ limit 0 max64 256 = (0, 255)%N /\
  limit (max64 - 3) max64 256 = (max64 - 3, max64)%N /\ limit 7 7 1 = (7, 7)%N.
Proof. vm_compute. repeat split. Qed.

(* ---------- Limit before the repair (F02) ---------- *)

(* The full uint64 range is not truncated: numElems wraps to 0 and the function returns its argument. *)
Theorem limit_unfixed_full_range_refuted :
  exists s e n, (s <= e)%N /\ u64 e /\ (1 <= n)%N /\
    limit_unfixed s e n <> (s, N.min e (s + n - 1)).
Proof.
  exists 0%N, max64, 256%N. repeat split; try (vm_compute; congruence).
Qed.

(* ... and that input is the only one on which the old function was wrong. *)
Theorem limit_unfixed_except_known s e n :
  (s <= e)%N -> u64 e -> (1 <= n)%N -> ~ (s = 0%N /\ e = max64) ->
  limit_unfixed s e n = (s, N.min e (s + n - 1)).
Proof.
  intros Hse He Hn Hk. unfold u64 in He. unfold limit_unfixed.
  rewrite (sub64_small e s Hse He).
  assert (Hne : (e - s + 1 < two64)%N) by (unfold max64, two64 in *; lia).
  rewrite (add64_small (e - s) 1 Hne).
  destruct (N.leb_spec (e - s + 1) 0) as [H0|H0]; [lia|].
  destruct (N.ltb_spec n (e - s + 1)) as [H2|H2].
  - assert (Hsn : (s + n < two64)%N) by lia.
    rewrite (add64_small s n Hsn).
    rewrite (sub64_small (s + n) 1) by lia.
    destruct (N.ltb_spec e (s + n - 1)) as [H3|H3]; f_equal; lia.
  - f_equal. lia.
Qed.

Example limit_unfixed_except_known_nonvacuous :
  limit_unfixed 1 max64 256 = (1, 256)%N /\ limit_unfixed 0 (max64 - 1) 256 = (0, 255)%N.
Proof. vm_compute. split; reflexivity. Qed.

(* repaired and old function agree everywhere except on the full range *)
Corollary limit_unfixed_agrees s e n :
  (s <= e)%N -> u64 e -> (1 <= n)%N -> ~ (s = 0%N /\ e = max64) -> limit_unfixed s e n = limit s e n.
Proof.
  intros. rewrite limit_unfixed_except_known, limit_spec by assumption. reflexivity.
Qed.

(* ExecLivenessP.v — the liveness half of C09 for the Filter round (execute/report builder): a commit report whose
   messages reproduce the committed root, whose token data list is as long as its message list and whose all-ready
   report fits the remaining size / gas budget gets ONE chain report from Add that contains every eligible
   out-of-order-allowed message (not executed, token data ready, not too costly, nonce 0).  Sequenced messages
   (nonce <> 0) are covered as far as checkMessage accepts them: the report contains exactly the indices of
   [ready_of] (the checkMessage pass), stated as [add_reports_all_ready].  *)
Require Import Verif.Model.Base Verif.Proofs.BaseP Verif.Model.Merkle Verif.Proofs.MerkleP
               Verif.Model.ExecReport Verif.Proofs.ExecReportP.
From Coq Require Import Sorting.Sorted ZifyN ZifyNat ZifyBool.

Lemma In_select {A} (l : list A) idxs i x : In i idxs -> nth_error l i = Some x -> In x (select l idxs).
Proof.
  intros Hi Hx. unfold select. apply in_flat_map. exists i. split; [exact Hi|]. rewrite Hx. now left.
Qed.

Section ExecLiveness.
  Variable hash : N -> N -> N.
  Variable zero : N.
  Variable leaf_hash : msg -> option N.
  Variable enc_size : creport -> option N.
  Variable tree_gas : N -> N.
  Variable nonces : nmap.
  Variable max_size max_gas : N.

  Notation CheckAll := (check_all nonces).
  Notation Helper := (build_helper hash zero leaf_hash).
  Notation Verify := (verify_report enc_size tree_gas max_size max_gas).
  Notation Add := (add hash zero leaf_hash enc_size tree_gas nonces max_size max_gas).
  Notation Tree := (construct_tree hash zero leaf_hash).
  Notation ReportFor := (report_for hash zero leaf_hash).
  Notation Fits := (fits max_size max_gas).

  (* checkMessage never fails when the token data list covers the index *)
  Lemma check_message_total exp cd i m :
    i < length (c_td cd) -> exists exp1 b, check_message nonces exp cd i m = Ok (exp1, b).
  Proof.
    intros Hi. unfold check_message.
    destruct (memN (m_seq m) (c_exec cd)); [eauto|].
    destruct (nth_error (c_td cd) i) as [td|] eqn:Et; [|apply nth_error_None in Et; lia].
    destruct (td_ready td); cbn [negb]; [|eauto].
    destruct (memN (m_id m) (c_costly cd)); [eauto|].
    destruct (check_nonce nonces exp cd m) as [e okn]. destruct okn; cbn [negb]; eauto.
  Qed.

  (* an eligible message that allows out-of-order execution is accepted and leaves the nonce expectations alone *)
  Lemma check_message_unordered exp cd i m td :
    nth_error (c_td cd) i = Some td -> memN (m_seq m) (c_exec cd) = false ->
    memN (m_id m) (c_costly cd) = false -> td_ready td = true -> m_nonce m = 0%N ->
    check_message nonces exp cd i m = Ok (exp, true).
  Proof.
    intros Ht Hx Hc Hr Hn. unfold check_message. rewrite Hx, Ht, Hr, Hc. cbn [negb].
    unfold check_nonce. rewrite Hn. reflexivity.
  Qed.

  Lemma check_all_total cd : forall ms pre exp,
    c_msgs cd = pre ++ ms -> length (c_td cd) = length (c_msgs cd) ->
    exists exp' ready, CheckAll exp cd (length pre) ms = Ok (exp', ready).
  Proof.
    induction ms as [|m ms IH]; intros pre exp Hm Hl; [cbn; eauto|].
    cbn [check_all].
    assert (Hi : length pre < length (c_td cd)).
    { rewrite Hl, Hm, app_length. cbn [length]. lia. }
    destruct (check_message_total exp cd (length pre) m Hi) as [exp1 [b E1]]. rewrite E1. cbn [rbind fst snd].
    assert (Hm' : c_msgs cd = (pre ++ [m]) ++ ms) by (rewrite <- app_assoc; exact Hm).
    destruct (IH (pre ++ [m]) exp1 Hm' Hl) as [exp2 [r2 E2]].
    rewrite app_length in E2. cbn [length] in E2. rewrite Nat.add_1_r in E2. rewrite E2. cbn [rbind fst snd]. eauto.
  Qed.

  Lemma check_all_complete cd : forall ms pre exp exp' ready,
    c_msgs cd = pre ++ ms ->
    CheckAll exp cd (length pre) ms = Ok (exp', ready) ->
    forall i m, length pre <= i -> eligible cd i -> nth_error (c_msgs cd) i = Some m -> m_nonce m = 0%N ->
      In i ready.
  Proof.
    induction ms as [|m0 ms IH]; intros pre exp exp' ready Hm Hc i m Hi He Hnth Hn.
    - exfalso. rewrite app_nil_r in Hm. rewrite Hm in Hnth.
      assert (nth_error pre i <> None) by congruence. apply nth_error_Some in H. lia.
    - cbn [check_all] in Hc.
      destruct (check_message nonces exp cd (length pre) m0) as [[exp1 rdy]| | |] eqn:E1; try discriminate.
      cbn [rbind fst snd] in Hc.
      destruct (CheckAll exp1 cd (S (length pre)) ms) as [[exp2 r2]| | |] eqn:E2; try discriminate.
      cbn [rbind fst snd] in Hc. inversion Hc; subst exp' ready; clear Hc.
      assert (Hm' : c_msgs cd = (pre ++ [m0]) ++ ms) by (rewrite <- app_assoc; exact Hm).
      assert (Hl : length (pre ++ [m0]) = S (length pre)) by (rewrite app_length; cbn; lia).
      destruct (Nat.eq_dec i (length pre)) as [->|Hne].
      + (* this message *)
        assert (Hm0 : m = m0).
        { rewrite Hm, nth_error_app2, Nat.sub_diag in Hnth by lia. cbn in Hnth. congruence. }
        subst m0. destruct He as [m' [td [Hm1 [Ht [Hx [Hcs Hr]]]]]].
        assert (m' = m) by congruence. subst m'.
        rewrite (check_message_unordered exp cd (length pre) m td Ht Hx Hcs Hr Hn) in E1.
        inversion E1; subst. now left.
      + rewrite <- Hl in E2.
        assert (Hin : In i r2) by (apply (IH _ _ _ _ Hm' E2 i m); try assumption; lia).
        destruct rdy; [now right|exact Hin].
  Qed.

  Lemma tree_leaves_length cd : forall ms ls, tree_leaves leaf_hash cd ms = Ok ls -> length ls = length ms.
  Proof.
    intros ms ls H. pose proof (tree_leaves_spec leaf_hash cd ms ls H) as HF.
    clear H. induction HF; cbn [length]; [reflexivity|now f_equal].
  Qed.

  (* the all-ready report is built whenever the commit data reproduces its root *)
  Lemma helper_succeeds cd t ready :
    (forall a b, hash a b = hash b a) ->
    length (c_msgs cd) <= max_leaves -> length (c_td cd) = length (c_msgs cd) ->
    Tree cd = Ok t -> troot zero t = c_root cd ->
    ready <> [] -> asc ready -> (forall i, In i ready -> i < length (c_msgs cd)) ->
    exists r, Helper cd ready = Ok r /\ ReportFor cd ready r.
  Proof.
    intros Hcomm Hmax Hl Ht Hroot Hne Hs Hr.
    assert (Hp : exists pf, prove t ready = Ok pf).
    { unfold construct_tree in Ht. destruct (negb _); [discriminate|].
      destruct (tree_leaves leaf_hash cd (c_msgs cd)) as [ls| | |] eqn:El; cbn [rbind] in Ht; try discriminate.
      pose proof (tree_leaves_length _ _ _ El) as Hlen.
      destruct (MerkleP.multiproof hash zero Hcomm ls ready) as [t2 [ps [fl [M1 [M2 _]]]]]; try assumption.
      - lia.
      - intros i Hi. rewrite Hlen. apply Hr, Hi.
      - rewrite Ht in M1. inversion M1; subst t2. eauto. }
    destruct Hp as [pf Hp].
    exists (mkCR (c_src cd) (select (c_msgs cd) ready) (map td_bytes (select (c_td cd) ready))
                 (fst pf) (bools_to_flags (snd pf))).
    split.
    - unfold build_helper. destruct ready as [|i0 ready']; [contradiction|]. set (ready := i0 :: ready') in *.
      rewrite Hl, Nat.eqb_refl. cbn [negb]. rewrite Ht. cbn [rbind]. rewrite Hroot, N.eqb_refl. cbn [negb].
      rewrite (filter_mem_seq ready 0 (length (c_msgs cd)) Hs) by (intros i Hi; specialize (Hr i Hi); lia).
      rewrite Hp. reflexivity.
    - exists t, pf. repeat split; assumption.
  Qed.

  (* Add reports exactly the checkMessage-ready indices when their report fits *)
  Theorem add_reports_all_ready st cd t :
    (forall a b, hash a b = hash b a) ->
    length (c_msgs cd) <= max_leaves -> length (c_td cd) = length (c_msgs cd) ->
    Tree cd = Ok t -> troot zero t = c_root cd ->
    ready_of nonces st cd <> [] ->
    (forall r, ReportFor cd (ready_of nonces st cd) r ->
       exists sz, enc_size r = Some sz /\ Fits st sz (report_gas tree_gas r)) ->
    exists st' r,
      Add st cd = Ok (st', mark_executed r cd) /\ b_reports st' = b_reports st ++ [r] /\
      r_msgs r = select (c_msgs cd) (ready_of nonces st cd) /\ ReportFor cd (ready_of nonces st cd) r.
  Proof.
    intros Hcomm Hmax Hl Ht Hroot Hne Hfit. unfold ready_of in *.
    destruct (check_all_total cd (c_msgs cd) [] (b_exp st) eq_refl Hl) as [exp1 [ready Ec]].
    cbn [length] in Ec. rewrite Ec in *.
    destruct (check_all_spec hash leaf_hash tree_gas nonces zero cd (c_msgs cd) [] _ _ _ eq_refl Ec) as [Hs Hr].
    destruct (helper_succeeds cd t ready Hcomm Hmax Hl Ht Hroot Hne Hs) as [r [Hh Hrf]].
    { intros i Hi. apply Hr, Hi. }
    destruct (Hfit r Hrf) as [sz [Hsz [F1 F2]]].
    set (st1 := mkB (b_size st) (b_gas st) exp1 (b_reports st)).
    assert (Hv : Verify st1 r = Ok (Some (sz, report_gas tree_gas r))).
    { unfold verify_report. rewrite Hsz. subst st1. cbn [b_size b_gas].
      destruct (Z.ltb_spec (to_int64 (sub64 max_size (b_size st))) (Z.of_N sz)) as [H1|H1]; [lia|].
      destruct (N.ltb_spec (sub64 max_gas (b_gas st)) (report_gas tree_gas r)) as [H2|H2]; [lia|]. reflexivity. }
    exists (mkB (add64 (b_size st) sz) (add64 (b_gas st) (report_gas tree_gas r)) exp1 (b_reports st ++ [r])), r.
    split; [|split; [reflexivity|split; [|exact Hrf]]].
    - unfold add, build_single. rewrite Ec. destruct ready as [|i0 ready']; [contradiction|].
      set (ready := i0 :: ready') in *. fold st1. unfold choose. rewrite Hh. cbn [rbind]. rewrite Hv. cbn [rbind].
      unfold finalize. subst st1. cbn [b_size b_gas b_exp b_reports fst snd]. reflexivity.
    - destruct Hrf as [t' [pf [_ [_ [_ [_ ->]]]]]]. reflexivity.
  Qed.

  (* C09, Filter round: every eligible out-of-order-allowed message of a provable commit report whose all-ready
     report fits the limits is in the chain report appended by Add *)
  Theorem add_includes_eligible st cd t :
    (forall a b, hash a b = hash b a) ->
    length (c_msgs cd) <= max_leaves -> length (c_td cd) = length (c_msgs cd) ->
    Tree cd = Ok t -> troot zero t = c_root cd ->
    (forall r, ReportFor cd (ready_of nonces st cd) r ->
       exists sz, enc_size r = Some sz /\ Fits st sz (report_gas tree_gas r)) ->
    forall i m, eligible cd i -> nth_error (c_msgs cd) i = Some m -> m_nonce m = 0%N ->
    exists st' r,
      Add st cd = Ok (st', mark_executed r cd) /\ b_reports st' = b_reports st ++ [r] /\ In m (r_msgs r) /\
      memN (m_seq m) (c_exec (mark_executed r cd)) = true.
  Proof.
    intros Hcomm Hmax Hl Ht Hroot Hfit i m He Hnth Hn.
    assert (Hin : In i (ready_of nonces st cd)).
    { unfold ready_of. destruct (check_all_total cd (c_msgs cd) [] (b_exp st) eq_refl Hl) as [exp1 [ready Ec]].
      cbn [length] in Ec. rewrite Ec.
      apply (check_all_complete cd (c_msgs cd) [] _ _ _ eq_refl Ec i m); try assumption. cbn; lia. }
    assert (Hne : ready_of nonces st cd <> []) by (intros E; rewrite E in Hin; destruct Hin).
    destruct (add_reports_all_ready st cd t Hcomm Hmax Hl Ht Hroot Hne Hfit) as [st' [r [Ha [Hb [Hm _]]]]].
    exists st', r. split; [exact Ha|]. split; [exact Hb|].
    assert (Hmr : In m (r_msgs r)) by (rewrite Hm; eapply In_select; eassumption).
    split; [exact Hmr|].
    apply memN_In. apply (proj2 (proj1 (proj2 (proj2 (mark_executed_spec r cd))) (m_seq m))).
    right. exists m. split; [exact Hmr|reflexivity].
  Qed.
End ExecLiveness.

(* the premises are satisfiable: a two-message commit report, both eligible, generous limits *)
Module LiveEx.
  Definition h (a b : N) : N := (a + b + 1)%N.
  Definition leaf (m : msg) : option N := Some (m_id m).
  Definition enc (r : creport) : option N := Some (N.of_nat (length (r_msgs r)) * 100)%N.
  Definition tg (n : N) : N := (n * 10)%N.
  Definition m1 := mkMsg 11 1 5 0 7 10 10.
  Definition m2 := mkMsg 12 1 6 0 7 10 10.
  Definition root : N := Eval vm_compute in
    match new_tree h 0%N [11; 12]%N with Ok t => troot 0%N t | _ => 0%N end.
  Definition cd := mkCD 1 root 5 6 [] [m1; m2] [] [[]; []].
  Example add_both :
    exists st', add h 0%N leaf enc tg [] 10000 10000 b_init cd = Ok st' /\
                map m_seq (concat (map r_msgs (b_reports (fst st')))) = [5; 6]%N.
  Proof. eexists. split; [vm_compute; reflexivity|reflexivity]. Qed.
End LiveEx.

(* JudgeSoundRolesHistP.v — the executable property of Check/RolesHist_check.v (api_ok, shared by C11 and C12) is the
   role-map theorem C11_history_role_map / C12_history_role_map: (a) the model's answer (read off the poller's state
   machine after the scripted polls) passes it, (b) an answer that passes it IS the Roles accessor evaluated on the
   configuration of the most recent successful poll.  Also the helpers the C11 / C12 history judges share. *)
Require Import Verif.Model.Base Verif.Model.Roles Verif.Model.Pollers Verif.Model.RolesHist.
Require Import Verif.Proofs.BaseP Verif.Proofs.RolesP Verif.Proofs.PollersP Verif.Proofs.RolesHistP.
Require Import Verif.Check.RolesHist_check.

(* ---------- history contexts ---------- *)
Definition hctx_polls (h : hctx) : list hpoll := let '(_, _, _, polls) := h in polls.

(* the scripted polls of the harness are one short page each: state machine = latest successful poll *)
Lemma hctx_model_spec h : Forall short_poll (hctx_polls h) -> hctx_model h = hctx_spec h.
Proof. destruct h as [[[os d] f] polls]. cbn [hctx_polls hctx_model hctx_spec]. apply hist_cfg_spec. Qed.

(* the poller events of a history context as events of the system [hrun] *)
Definition hist_hevs (polls : list hpoll) : list hev := map HPoller (hist_events polls).

Lemma polls_of_map_poller l : polls_of (map HPoller l) = l.
Proof. unfold polls_of. induction l as [|e l IH]; cbn [map flat_map app]; [reflexivity| now rewrite IH]. Qed.

Lemma cfg_at_after_polls os d f polls e :
  cfg_at os d f (hist_hevs polls ++ e) (length (hist_hevs polls)) = hist_cfg os d f polls.
Proof.
  unfold cfg_at. rewrite firstn_app, firstn_all, Nat.sub_diag. cbn [firstn]. rewrite app_nil_r.
  unfold hist_hevs. rewrite polls_of_map_poller. unfold hist_cfg, hist_views, home_run.
  now rewrite views_latest.
Qed.

Lemma nth_after_polls polls (e : hev) r :
  nth_error (hist_hevs polls ++ e :: r) (length (hist_hevs polls)) = Some e.
Proof. rewrite nth_error_app2, Nat.sub_diag; [reflexivity|lia]. Qed.

(* ---------- boolean equalities of the case files decide equality ---------- *)
Notation decides e := (forall a b, e a b = true <-> a = b).

Lemma list_eqb_decides {A} (e : A -> A -> bool) : decides e -> decides (list_eqb e).
Proof.
  intros He l1. induction l1 as [|x l1 IH]; intros [|y l2]; cbn [list_eqb]; try (split; [discriminate|discriminate]).
  - split; reflexivity.
  - rewrite andb_true_iff, He, IH. split; [intros [-> ->]; reflexivity|intros [= -> ->]; split; reflexivity].
Qed.
Lemma option_eqb_decides {A} (e : A -> A -> bool) : decides e -> decides (option_eqb e).
Proof.
  intros He [x|] [y|]; cbn [option_eqb]; try (split; [discriminate|discriminate]).
  - rewrite He. split; [now intros ->|now intros [= ->]].
  - split; reflexivity.
Qed.
Lemma pair_eqb_decides {A B} (ea : A -> A -> bool) (eb : B -> B -> bool) :
  decides ea -> decides eb -> decides (pair_eqb ea eb).
Proof.
  intros Ha Hb [a1 b1] [a2 b2]. unfold pair_eqb. cbn [fst snd]. rewrite andb_true_iff, Ha, Hb.
  split; [intros [-> ->]; reflexivity|intros [= -> ->]; split; reflexivity].
Qed.
Lemma Neqb_decides : decides N.eqb. Proof. intros a b. apply N.eqb_eq. Qed.
Lemma Zeqb_decides : decides Z.eqb. Proof. intros a b. apply Z.eqb_eq. Qed.
Lemma booleqb_decides : decides Bool.eqb. Proof. intros a b. apply eqb_true_iff. Qed.

Lemma zl_eqb_decides : decides zl_eqb.
Proof.
  intros [a1 b1] [a2 b2]. unfold zl_eqb. cbn [fst snd].
  rewrite andb_true_iff, Z.eqb_eq, (list_eqb_decides _ Neqb_decides).
  split; [intros [-> ->]; reflexivity|intros [= -> ->]; split; reflexivity].
Qed.

Lemma apia_eqb_decides : decides apia_eqb.
Proof.
  intros a b. destruct a, b; cbn [apia_eqb]; try (split; [discriminate|discriminate]).
  - rewrite (list_eqb_decides _ Neqb_decides). split; [now intros ->|now intros [= ->]].
  - unfold oln_eqb. rewrite (option_eqb_decides _ (list_eqb_decides _ Neqb_decides)).
    split; [now intros ->|now intros [= ->]].
  - rewrite (option_eqb_decides _ zl_eqb_decides). split; [now intros ->|now intros [= ->]].
  - rewrite (list_eqb_decides _ (pair_eqb_decides _ _ Neqb_decides Zeqb_decides)).
    split; [now intros ->|now intros [= ->]].
  - rewrite (list_eqb_decides _ (pair_eqb_decides _ _ Neqb_decides zl_eqb_decides)).
    split; [now intros ->|now intros [= ->]].
  - rewrite (option_eqb_decides _ booleqb_decides). split; [now intros ->|now intros [= ->]].
Qed.

(* ---------- strictly ascending lists are determined by their members ---------- *)
Fixpoint ssorted (l : list N) : Prop :=
  match l with
  | [] => True
  | x :: l' => (forall y, In y l' -> (x < y)%N) /\ ssorted l'
  end.

Lemma ssorted_ext l1 : forall l2, ssorted l1 -> ssorted l2 -> (forall x, In x l1 <-> In x l2) -> l1 = l2.
Proof.
  induction l1 as [|a l1 IH]; intros [|b l2] H1 H2 Hm.
  - reflexivity.
  - exfalso. apply (proj2 (Hm b)). now left.
  - exfalso. apply (proj1 (Hm a)). now left.
  - cbn [ssorted] in H1, H2. destruct H1 as [Ha H1], H2 as [Hb H2].
    assert (Hab : a = b).
    { destruct (proj1 (Hm a) (or_introl eq_refl)) as [Heq|Hin]; [now symmetry|].
      destruct (proj2 (Hm b) (or_introl eq_refl)) as [Heq|Hin']; [exact Heq|].
      specialize (Hb _ Hin). specialize (Ha _ Hin'). lia. }
    subst b. f_equal. apply IH; try assumption. intros x. split; intros Hx.
    + destruct (proj1 (Hm x) (or_intror Hx)) as [<-|H]; [|exact H]. specialize (Ha _ Hx). lia.
    + destruct (proj2 (Hm x) (or_intror Hx)) as [<-|H]; [|exact H]. specialize (Hb _ Hx). lia.
Qed.

Lemma sinsert_ssorted x s : ssorted s -> ssorted (sinsert x s).
Proof.
  induction s as [|y s IH]; cbn [sinsert ssorted].
  - intros _. split; [intros z []|exact I].
  - intros [Hy Hs]. destruct (N.ltb_spec x y) as [Hlt|Hge]; cbn [ssorted In].
    + split; [|split; assumption]. intros z [<-|Hz]; [exact Hlt|]. specialize (Hy _ Hz). lia.
    + destruct (N.eqb_spec x y) as [->|Hne]; cbn [ssorted].
      * split; assumption.
      * split; [|apply IH; exact Hs]. intros z Hz. apply sinsert_In in Hz.
        destruct Hz as [->|Hz]; [lia|apply Hy; exact Hz].
Qed.

Lemma set_of_ssorted l : ssorted (set_of l).
Proof.
  unfold set_of. assert (H : ssorted []) by exact I. revert H. generalize (@nil N).
  induction l as [|x l IH]; intros acc Ha; cbn [fold_left]; [exact Ha|]. apply IH, sinsert_ssorted, Ha.
Qed.

Lemma filter_ssorted (f : N -> bool) l : ssorted l -> ssorted (filter f l).
Proof.
  induction l as [|x l IH]; cbn [filter ssorted]; [trivial|]. intros [Hx Hl].
  destruct (f x); cbn [ssorted]; [|now apply IH]. split; [|now apply IH].
  intros y Hy. apply filter_In in Hy. apply Hx. tauto.
Qed.

Lemma ksorted_keys {V} (m : list (N * V)) : ksorted m -> ssorted (map fst m).
Proof.
  induction m as [|[k v] m IH]; cbn [ksorted map fst ssorted]; [trivial|]. intros [Hk Hm]. split; [exact Hk|now apply IH].
Qed.

Lemma ksorted_map_snd {A B} (h : A -> B) (m : list (N * A)) :
  ksorted m -> ksorted (map (fun kv => (fst kv, h (snd kv))) m).
Proof.
  induction m as [|[k v] m IH]; cbn [ksorted map fst snd]; [trivial|]. intros [Hk Hm]. split; [|now apply IH].
  intros k'. rewrite map_map. cbn [fst]. exact (Hk k').
Qed.

(* key-sorted maps are determined by their lookups *)
Lemma ksorted_ext {V} (m1 : list (N * V)) : forall m2,
  ksorted m1 -> ksorted m2 -> (forall k, alookup k m1 = alookup k m2) -> m1 = m2.
Proof.
  induction m1 as [|[a va] m1 IH]; intros [|[b vb] m2] H1 H2 Hl.
  - reflexivity.
  - specialize (Hl b). cbn [alookup] in Hl. rewrite N.eqb_refl in Hl. discriminate.
  - specialize (Hl a). cbn [alookup] in Hl. rewrite N.eqb_refl in Hl. discriminate.
  - cbn [ksorted] in H1, H2. destruct H1 as [Ha H1], H2 as [Hb H2].
    assert (Hnot1 : forall k v, alookup k m1 = Some v -> (a < k)%N).
    { intros k v Hk. apply Ha. apply alookup_In in Hk. change k with (fst (k, v)). now apply in_map. }
    assert (Hnot2 : forall k v, alookup k m2 = Some v -> (b < k)%N).
    { intros k v Hk. apply Hb. apply alookup_In in Hk. change k with (fst (k, v)). now apply in_map. }
    assert (Hab : a = b).
    { pose proof (Hl a) as Hla. pose proof (Hl b) as Hlb. cbn [alookup] in Hla, Hlb.
      rewrite N.eqb_refl in Hla, Hlb. destruct (N.eqb_spec a b) as [E|E]; [exact E|].
      destruct (N.eqb_spec b a) as [E'|E']; [now symmetry|].
      symmetry in Hla. apply Hnot2 in Hla. apply Hnot1 in Hlb. lia. }
    subst b. pose proof (Hl a) as Hla. cbn [alookup] in Hla. rewrite N.eqb_refl in Hla. inversion Hla; subst vb.
    f_equal. apply IH; try assumption. intros k. specialize (Hl k). cbn [alookup] in Hl.
    destruct (N.eqb_spec k a) as [Eka|Hne]; [|exact Hl]. rewrite Eka. clear Hl.
    destruct (alookup a m1) as [v|] eqn:E1; [apply Hnot1 in E1; lia|].
    destruct (alookup a m2) as [v|] eqn:E2; [apply Hnot2 in E2; lia|]. reflexivity.
Qed.

(* every per-peer chain set the poller stores is strictly ascending *)
Definition nsup_sorted (m : list (N * list N)) : Prop := forall p s, alookup p m = Some s -> ssorted s.

Lemma add_supported_sorted ch m q : nsup_sorted m -> nsup_sorted (add_supported ch m q).
Proof.
  intros Hm p s. unfold add_supported. destruct (N.eq_dec q p) as [->|Hne].
  - rewrite alookup_minsert_eq. intros [= <-]. apply sinsert_ssorted.
    destruct (alookup p m) as [s'|] eqn:E; [exact (Hm p s' E)|exact I].
  - rewrite alookup_minsert_neq by exact Hne. apply Hm.
Qed.

Lemma create_nsup_sorted c : nsup_sorted (create_nsup c).
Proof.
  unfold create_nsup. assert (H : nsup_sorted []) by (intros p s; discriminate). revert H.
  generalize (@nil (N * list N)). induction c as [|[k cc] c IH]; intros m Hm; cbn [fold_left fst snd]; [exact Hm|].
  apply IH. clear IH. revert m Hm. induction (cc_nodes cc) as [|q nodes IHn]; intros m Hm; cbn [fold_left]; [exact Hm|].
  apply IHn, add_supported_sorted, Hm.
Qed.

Lemma get_supported_ssorted c p : ssorted (get_supported_chains (home_derive c) p).
Proof.
  unfold get_supported_chains. cbn [home_derive hv_nsup].
  destruct (alookup p (create_nsup c)) as [s|] eqn:E; [exact (create_nsup_sorted c p s E)|exact I].
Qed.

Lemma create_fchain_ksorted c : ksorted (create_fchain c).
Proof.
  unfold create_fchain. assert (H : ksorted (@nil (N * N))) by exact I. revert H.
  generalize (@nil (N * N)). induction c as [|kv c IH]; intros m Hm; cbn [fold_left]; [exact Hm|].
  apply IH, minsert_ksorted, Hm.
Qed.

(* ---------- one sorted configuration: the getters answer with the very lists the Roles accessors compute ---------- *)
Lemma supported_eq O d f c p : ksorted c ->
  get_supported_chains (home_derive c) p = filter (reads (cfg_of_home O d f c) p) (home_chains (cfg_of_home O d f c)).
Proof.
  intros Hs. destruct (one_config_api O d f c Hs) as (Hsup & _ & Hkn & _).
  apply ssorted_ext.
  - apply get_supported_ssorted.
  - apply filter_ssorted. rewrite home_chains_of_home. now apply ksorted_keys.
  - intros x. rewrite filter_In, <- !memN_In, Hsup. split.
    + intros Hr. split; [|exact Hr]. rewrite <- Hkn. cbn beta zeta in Hsup. rewrite <- Hsup in Hr.
      apply memN_In. apply memN_In in Hr.
      destruct (home_views_spec c Hs) as (_ & Hk & _ & Hsp). apply Hsp in Hr. destruct Hr as [cc [Hcc _]].
      apply Hk. now exists cc.
    + tauto.
Qed.

Lemma known_eq O d f c : ksorted c -> get_known_chains (home_derive c) = home_chains (cfg_of_home O d f c).
Proof.
  intros Hs. rewrite home_chains_of_home. unfold get_known_chains. cbn [home_derive hv_cc].
  apply ssorted_ext; [apply set_of_ssorted|now apply ksorted_keys|]. intros x. apply set_of_In.
Qed.

Lemma fchain_eq O d f c : ksorted c ->
  map (fun kv => (fst kv, Z.of_N (snd kv))) (get_fchain (home_derive c)) = home_fchain (cfg_of_home O d f c).
Proof.
  intros Hs. unfold home_fchain, cfg_of_home, chains_of_home, get_fchain. cbn [c_chains home_derive hv_fch].
  rewrite map_map. cbn [fst snd].
  assert (E : create_fchain c = map (fun kv => (fst kv, cc_f (snd kv))) c).
  { apply ksorted_ext; [apply create_fchain_ksorted|now apply ksorted_map_snd|].
    intros k. rewrite (fchain_spec c k Hs), (alookup_map_snd cc_f c k). now destruct (alookup k c). }
  rewrite E, map_map. reflexivity.
Qed.

Theorem one_config_api_eq O d f c q : ksorted c ->
  api_model O d (home_derive c) q = api_spec (cfg_of_home O d f c) q.
Proof.
  intros Hs. destruct q as [p| |ch| | |o|o|]; cbn [api_model api_spec].
  - f_equal. now apply supported_eq.
  - f_equal. now apply known_eq.
  - f_equal. unfold get_chain_config, cfg_of_home. cbn [home_derive hv_cc c_chains].
    now rewrite alookup_chains_of_home.
  - f_equal. now apply fchain_eq.
  - reflexivity.
  - f_equal. unfold supported_chains, known_oracle. cbn [cfg_of_home c_oracles].
    destruct (memN o O); [|reflexivity]. f_equal. now apply (supported_eq O d f).
  - f_equal. destruct (one_config_api O d f c Hs) as (_ & Hsd & _). apply Hsd.
  - f_equal. unfold sources. rewrite (known_eq O d f c Hs). reflexivity.
Qed.

(* ====================================================================================================
   sink *_api (api_judge)
   ==================================================================================================== *)
Lemma hist_views_derive polls : hist_views polls = home_derive (home_cfg_of (hist_events polls)).
Proof. unfold hist_views, home_run. apply home_snapshot. Qed.

Lemma spec_home_hist polls : Forall short_poll polls -> spec_home polls = home_cfg_of (hist_events polls).
Proof.
  intros H. unfold spec_home, home_cfg_of. rewrite (last_good_hist polls H). now destruct (last_some polls None).
Qed.

(* the answer read off the poller's state machine is the Roles accessor on the latest successful poll *)
Theorem api_model_is_spec : forall x,
  Forall short_poll (hctx_polls (fst x)) -> api_cmodel x = api_spec (hctx_spec (fst x)) (snd x).
Proof.
  intros [[[[os d] f] polls] q] Hs. cbn [fst snd hctx_polls] in *. unfold api_cmodel, hctx_spec, spec_cfg.
  rewrite hist_views_derive, (spec_home_hist polls Hs). apply one_config_api_eq, home_cfg_of_ksorted.
Qed.

Theorem api_model_passes : forall x, Forall short_poll (hctx_polls (fst x)) -> api_ok x (api_cmodel x) = true.
Proof. intros x Hs. unfold api_ok. rewrite (api_model_is_spec x Hs). now apply apia_eqb_decides. Qed.

(* api_ok is "answer = Roles accessor": soundness is that equality *)
Theorem api_sound : forall x a, api_ok x a = true -> a = api_spec (hctx_spec (fst x)) (snd x).
Proof. intros x a H. unfold api_ok in H. symmetry. now apply apia_eqb_decides. Qed.

(* transfers, in the vocabulary of the role-map theorem: per-peer chain sets, SupportsDestChain, per-chain config *)
Corollary api_sound_supported : forall h p l, api_ok (h, QSupported p) (ASet l) = true ->
  forall ch, memN ch l = reads (hctx_spec h) p ch.
Proof.
  intros h p l H ch. apply api_sound in H. cbn [fst snd api_spec] in H. inversion H; subst l.
  apply bool_eq_iff. rewrite memN_In, filter_In. split; [tauto|]. intros Hr. split; [|exact Hr].
  unfold reads in Hr. destruct (alookup ch (c_chains (hctx_spec h))) as [[z ns]|] eqn:E; [|discriminate].
  apply alookup_In in E. unfold home_chains. change ch with (fst (ch, (z, ns))). now apply in_map.
Qed.
Corollary api_sound_supports_dest : forall h o b, api_ok (h, QSupDest o) (AOptB b) = true ->
  b = supports_dest (hctx_spec h) o.
Proof. intros h o b H. apply api_sound in H. cbn [fst snd api_spec] in H. now inversion H. Qed.
Corollary api_sound_chain_config : forall h ch r, api_ok (h, QChainCfg ch) (ACfg r) = true ->
  r = alookup ch (c_chains (hctx_spec h)).
Proof. intros h ch r H. apply api_sound in H. cbn [fst snd api_spec] in H. now inversion H. Qed.

(* not vacuous: after A, B (oracle 2 loses chain 5) and a failed poll, oracle 2 supports chain 9 only *)
Example api_ok_example :
  let h : hctx := (ex_O, 9%N, 9%N, [ex_cfgA; ex_cfgB; None]) in
  api_ok (h, QSupported 2%N) (ASet [9%N]) = true /\ api_ok (h, QSupported 2%N) (ASet [5%N; 9%N]) = false /\
  api_ok (h, QSupDest 2%N) (AOptB (Some true)) = true /\ api_ok (h, QFChain) (AFch [(5%N, 1%Z); (9%N, 1%Z)]) = true /\
  api_cmodel (h, QKnownSrc) = ASet [5%N].
Proof. vm_compute. repeat split. Qed.

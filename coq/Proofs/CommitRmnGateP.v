(* CommitRmnGateP.v — theorems about the RMN gates (Model/CommitRmnGate.v) and the signed-root filter of
   buildReport (Model/CommitSM.v). *)
Require Import Verif.Model.Base Verif.Proofs.BaseP Verif.Model.SeqRange Verif.Model.CommitMerkle Verif.Model.CommitSM
               Verif.Model.Transmit Verif.Model.CommitRmnGate Verif.Proofs.CommitSMP.
From Coq Require Import Sorting.Sorted.

(* ---------- root equality: all four components ---------- *)
Lemma root_eqb_eq (x y : root) : root_eqb x y = true <-> x = y.
Proof.
  destruct x as [[[k [s e]] a] r], y as [[[k' [s' e']] a'] r']. unfold root_eqb.
  rewrite !andb_true_iff, !N.eqb_eq. split.
  - intros [[[[-> ->] ->] ->] ->]. reflexivity.
  - intros H. inversion H. tauto.
Qed.

Lemma signed_In (r : root) signed : existsb (root_eqb r) signed = true <-> In r signed.
Proof.
  rewrite existsb_exists. split.
  - intros [y [Hy He]]. apply root_eqb_eq in He. now subst.
  - intros H. exists r. split; [exact H|]. now apply root_eqb_eq.
Qed.

(* ---------- verifyQuery / Observation ---------- *)
Section CryptoP.
  Variable verify_sigs : verify_call -> bool.

  (* RMN enabled, building round, no retry announced: an observation is produced only if the bundle is present, the
     previous outcome carries an RMN remote config, every part of the bundle parses, and the crypto oracle accepted
     the signatures for exactly (report version, destination, RMN remote address, off-ramp, config digest of the
     PREVIOUS outcome's config, the bundle's lane updates) against that config's signer addresses. *)
  Theorem observe_requires_bundle st cfg_e d dest init chain_known offramp q :
    st = Building -> q_retry q = false ->
    observation verify_sigs true st cfg_e d dest init chain_known offramp q = Ok tt ->
    exists b sigs lanes off,
      q_sigs q = Some b /\ cfg_e = false /\ init <> 2%N /\ chain_known = true /\ offramp = Some off /\
      parse_sigs (b_sigs b) = Some sigs /\ parse_lanes (b_lanes b) = Some lanes /\
      verify_sigs (sigs, (cd_version d, dest, cd_contract d, off, cd_digest d, lanes), cd_signers d) = true.
  Proof.
    intros -> R. unfold observation, verify_args. rewrite R. cbn [state_eqb negb andb].
    destruct cfg_e; cbn [negb andb].
    - destruct (q_sigs q); discriminate.
    - destruct (N.eqb_spec init 2) as [->|Hi]; [discriminate|]. cbn [andb].
      destruct (q_sigs q) as [b|]; [|discriminate].
      destruct chain_known; cbn [negb]; [|discriminate].
      destruct offramp as [off|]; [|discriminate].
      destruct (parse_sigs (b_sigs b)) as [sigs|] eqn:PS; [|discriminate].
      destruct (parse_lanes (b_lanes b)) as [lanes|] eqn:PL; [|discriminate].
      destruct (verify_sigs (sigs, (cd_version d, dest, cd_contract d, off, cd_digest d, lanes), cd_signers d)) eqn:V; [|discriminate].
      intros _. exists b, sigs, lanes, off. repeat split; try reflexivity; assumption.
  Qed.

  Example observe_requires_bundle_nonvacuous :
    observation (fun _ => true) true Building false (mkDetail [1; 2] 3 4 5)%N 900 0 true (Some 7%N)
      (mkQuery false (Some (mkBundle [SigOk 11] [LaneOk 1 10 12 8 9]%N))) = Ok tt.
  Proof. vm_compute. reflexivity. Qed.

  (* a bundle in any other round is refused *)
  Theorem no_bundle_elsewhere st cfg_e d dest init chain_known offramp q :
    st <> Building -> q_sigs q <> None ->
    observation verify_sigs true st cfg_e d dest init chain_known offramp q = Err.
  Proof.
    intros S B. unfold observation, verify_args.
    destruct (true && negb cfg_e && N.eqb init 2)%bool; [reflexivity|]. cbn [negb].
    destruct (q_sigs q) as [b|]; [|congruence].
    assert (E : state_eqb st Building = false) by (destruct st; try reflexivity; congruence).
    rewrite E. cbn [andb negb]. reflexivity.
  Qed.

  (* a building round without bundle is refused unless the retry is announced; with the retry announced nothing is
     verified (and by C03 the outcome of such a round is the previous outcome, so no root is reported from it) *)
  Theorem building_without_bundle st cfg_e d dest init chain_known offramp q :
    st = Building -> q_sigs q = None ->
    observation verify_sigs true st cfg_e d dest init chain_known offramp q = Ok tt ->
    q_retry q = true.
  Proof.
    intros -> B. unfold observation, verify_args. rewrite B.
    destruct (true && negb cfg_e && N.eqb init 2)%bool; [discriminate|]. cbn [negb state_eqb].
    destruct (q_retry q); [reflexivity|discriminate].
  Qed.

  (* the signature oracle is consulted in no other situation: whenever Observation succeeds without having asked
     the oracle, either RMN is disabled, or the round is not a building round and carries no bundle, or it is an
     announced retry *)
  Theorem unverified_observation_cases enabled st cfg_e d dest init chain_known offramp q :
    verify_args enabled st cfg_e d dest init chain_known offramp q = Ok None ->
    enabled = false \/ (st <> Building /\ q_sigs q = None) \/ (st = Building /\ q_retry q = true).
  Proof.
    unfold verify_args. destruct (enabled && negb cfg_e && N.eqb init 2)%bool; [discriminate|].
    destruct enabled; cbn [negb]; [|intros _; left; reflexivity].
    destruct (q_sigs q) as [b|].
    - destruct st; cbn [state_eqb andb negb].
      + destruct cfg_e; discriminate.
      + destruct (q_retry q); [intros _; right; right; split; reflexivity|].
        destruct cfg_e; [discriminate|]. destruct chain_known; cbn [negb]; [|discriminate].
        destruct offramp; [|discriminate]. destruct (parse_sigs (b_sigs b)); [|discriminate].
        destruct (parse_lanes (b_lanes b)); discriminate.
      + destruct cfg_e; discriminate.
    - destruct st; cbn [state_eqb negb].
      + intros _. right; left. split; [discriminate|reflexivity].
      + destruct (q_retry q); [intros _; right; right; split; reflexivity|discriminate].
      + intros _. right; left. split; [discriminate|reflexivity].
  Qed.

  (* RMN disabled: the query is not looked at *)
  Theorem disabled_ignores_query st cfg_e d dest init chain_known offramp q :
    observation verify_sigs false st cfg_e d dest init chain_known offramp q = Ok tt.
  Proof. unfold observation, verify_args. cbn. reflexivity. Qed.
End CryptoP.

(* ---------- buildReport: only signed roots ---------- *)
(* With a bundle, the reported roots are exactly the agreed roots that equal some lane update of the bundle on
   chain, interval, on-ramp address and root (so: nothing unsigned or differently signed gets in, nothing agreed
   and signed is dropped); the signatures copied are the bundle's; a malformed bundle gives the empty outcome. *)
Theorem roots_signed q c prev b :
  q_sigs q = Some b ->
  let o := build_report q c prev in
  (o = empty_outcome /\ (parse_sigs (b_sigs b) = None \/ parse_lanes (b_lanes b) = None)) \/
  (exists sigs lanes,
     parse_sigs (b_sigs b) = Some sigs /\ parse_lanes (b_lanes b) = Some lanes /\
     (forall r, In r (o_roots o) <-> In r (c_roots c) /\ In r lanes) /\
     (o_roots o <> [] -> o_sigs o = sigs /\ o_type o = T_generated) /\
     (o_roots o = [] -> o_sigs o = [] /\ o_type o = T_empty)).
Proof.
  intros B. cbv zeta. unfold build_report. rewrite B.
  destruct (parse_sigs (b_sigs b)) as [sigs|]; [|left; split; [reflexivity|left; reflexivity]].
  destruct (parse_lanes (b_lanes b)) as [lanes|]; [|left; split; [reflexivity|right; reflexivity]].
  right. exists sigs, lanes. split; [reflexivity|]. split; [reflexivity|].
  set (kept := filter (fun r => existsb (root_eqb r) lanes) (sort_by root_le (c_roots c))).
  assert (K : forall r, In r kept <-> In r (c_roots c) /\ In r lanes).
  { intros r. unfold kept. rewrite filter_In, sort_by_in, signed_In. tauto. }
  destruct kept as [|x kept'] eqn:EK; cbn [finish_report o_roots o_sigs o_type].
  - split; [exact K|]. split; [congruence|]. intros _. split; reflexivity.
  - split; [exact K|]. split; [intros _; split; reflexivity|discriminate].
Qed.

Example roots_signed_nonvacuous :
  (* two agreed roots; the bundle signs the first exactly and the second with another merkle root *)
  let c := mkCons [(7, (10, 12), 5, 99); (8, (1, 2), 6, 98)]%N [] [] cfg_empty in
  let q := mkQuery false (Some (mkBundle [SigOk 1; SigOk 2] [LaneOk 7 10 12 5 99; LaneOk 8 1 2 6 97]%N)) in
  o_roots (build_report q c empty_outcome) = [(7, (10, 12), 5, 99)]%N /\ o_sigs (build_report q c empty_outcome) = [1; 2]%N.
Proof. vm_compute. split; reflexivity. Qed.

(* sorted by chain and, when the agreed roots have one root per chain, no chain twice *)
Theorem reported_roots_sorted q c prev :
  NoDup (map root_chain (c_roots c)) ->
  KSorted root_chain (o_roots (build_report q c prev)) /\ NoDup (map root_chain (o_roots (build_report q c prev))).
Proof.
  intros ND.
  assert (S0 : KSorted root_chain (sort_by root_le (c_roots c))) by exact (sort_ksorted root_chain (c_roots c)).
  assert (N0 : NoDup (map root_chain (sort_by root_le (c_roots c)))).
  { eapply Permutation_NoDup; [apply Permutation_map; symmetry; apply sort_by_perm|exact ND]. }
  assert (F : forall f (l : list root), KSorted root_chain l -> NoDup (map root_chain l) ->
              KSorted root_chain (filter f l) /\ NoDup (map root_chain (filter f l))).
  { intros f l. induction l as [|x l IH]; intros Hs Hn; cbn [filter]; [split; [constructor|constructor]|].
    inversion Hs as [|? ? Hs' Hall]; subst. inversion Hn as [|? ? Hx Hn']; subst.
    destruct (IH Hs' Hn') as [I1 I2]. destruct (f x); [|split; assumption]. split.
    - constructor; [exact I1|]. apply Forall_forall. intros y Hy. apply filter_In in Hy. destruct Hy as [Hy _].
      rewrite Forall_forall in Hall. now apply Hall.
    - cbn [map]. constructor; [|exact I2]. intros HI. apply Hx. apply in_map_iff in HI. destruct HI as [y [E Hy]].
      apply filter_In in Hy. apply in_map_iff. exists y. tauto. }
  assert (G : forall roots sigs, KSorted root_chain roots -> NoDup (map root_chain roots) ->
              KSorted root_chain (o_roots (finish_report prev roots sigs)) /\ NoDup (map root_chain (o_roots (finish_report prev roots sigs)))).
  { intros roots sigs Hs Hn. destruct roots; cbn [finish_report o_roots]; [split; constructor|split; assumption]. }
  unfold build_report. destruct (q_sigs q) as [b|]; [|now apply G].
  destruct (parse_sigs (b_sigs b)); [|cbn; split; constructor].
  destruct (parse_lanes (b_lanes b)); [|cbn; split; constructor].
  apply G; now apply F.
Qed.

(* ---------- composition: what an honest oracle observed on is what is reported ---------- *)
(* RMN enabled, building round without retry: if the oracle's Observation succeeded on query q, then every root that
   Outcome reports on the same q is an agreed root equal to one of the lane updates over which the crypto oracle
   accepted the bundle's signatures against the signers of the previous outcome's RMN config. *)
Theorem reported_roots_verified verify_sigs prev cfg_e d dest init chain_known offramp q c max n :
  next_state (o_type prev) = Building -> q_retry q = false ->
  observation verify_sigs true (next_state (o_type prev)) cfg_e d dest init chain_known offramp q = Ok tt ->
  let o := get_outcome max n prev q (Some c) in
  exists sigs lanes off,
    verify_sigs (sigs, (cd_version d, dest, cd_contract d, off, cd_digest d, lanes), cd_signers d) = true /\
    (forall r, In r (o_roots o) -> In r (c_roots c) /\ In r lanes) /\
    (o_roots o <> [] -> o_sigs o = sigs).
Proof.
  intros ST R OBS. cbv zeta.
  rewrite ST in OBS.
  destruct (observe_requires_bundle verify_sigs Building cfg_e d dest init chain_known offramp q eq_refl R OBS)
    as [b [sigs [lanes [off [B [_ [_ [_ [_ [PS [PL V]]]]]]]]]]].
  exists sigs, lanes, off. split; [exact V|].
  unfold get_outcome, get_outcome_with. rewrite ST, R. cbn [state_eqb andb].
  destruct (roots_signed q c prev b B) as [[_ [H|H]]|[sigs' [lanes' [PS' [PL' [K [K1 _]]]]]]]; try congruence.
  assert (sigs' = sigs) by congruence. assert (lanes' = lanes) by congruence. subst.
  split; [intros r Hr; now apply K|]. intros NE. now destruct (K1 NE).
Qed.

(* ---------- no signatures without roots ---------- *)
Definition sigs_imply_roots (o : outcome) : Prop := o_roots o = [] -> o_sigs o = [].

Lemma build_report_inv q c prev : sigs_imply_roots (build_report q c prev).
Proof.
  unfold sigs_imply_roots, build_report.
  assert (F : forall roots sigs, o_roots (finish_report prev roots sigs) = [] -> o_sigs (finish_report prev roots sigs) = []).
  { intros roots sigs. destruct roots; cbn; [reflexivity|discriminate]. }
  destruct (q_sigs q) as [b|]; [|apply F].
  destruct (parse_sigs (b_sigs b)); [|reflexivity].
  destruct (parse_lanes (b_lanes b)); [|reflexivity]. apply F.
Qed.

(* every outcome the state machine writes carries RMN signatures only together with roots; a retry round hands the
   previous outcome on, which has the property if it was itself produced by the state machine *)
Theorem no_sigs_without_roots max n prev q co :
  sigs_imply_roots prev -> sigs_imply_roots (get_outcome max n prev q co).
Proof.
  intros P. unfold get_outcome, get_outcome_with.
  destruct (state_eqb (next_state (o_type prev)) Building && q_retry q)%bool; [exact P|].
  destruct co as [c|]; [|intros _; reflexivity].
  destruct (next_state (o_type prev)).
  - unfold select_outcome_with. destruct (report_ranges_with limit (c_on c) (c_off c) n). intros _. reflexivity.
  - apply build_report_inv.
  - unfold check_transmission. destruct (off_updated (o_off prev) (c_off c)); [intros _; reflexivity|].
    destruct (N.leb max (add64 (o_attempts prev) 1)); intros _; reflexivity.
Qed.

Theorem run_no_sigs_without_roots max n rs : forall prev,
  sigs_imply_roots prev -> sigs_imply_roots (run max n prev rs).
Proof.
  induction rs as [|r rs IH]; intros prev P; [exact P|].
  unfold run in *. cbn [fold_left]. apply IH. unfold run_step. now apply no_sigs_without_roots.
Qed.

(* ... hence a report never carries RMN signatures without roots, and an outcome without roots and prices emits nothing *)
Theorem report_no_sigs_without_roots o tp gp roots sigs f :
  sigs_imply_roots o -> report_of o tp gp = Some (roots, sigs, f) -> sigs <> [] -> roots <> [].
Proof.
  intros P. unfold report_of. destruct (o_roots o) as [|x xs] eqn:R.
  - rewrite (P R). destruct (N.eqb tp 0 && N.eqb gp 0)%bool; [discriminate|]. intros H. inversion H; subst. congruence.
  - intros H. inversion H; subst. discriminate.
Qed.

Example report_nonvacuous :
  report_of (mkOutcome T_generated [] [(7, (10, 12), 5, 99)%N] [] 0 [1; 2]%N (4, 1)%N) 0 0
  = Some ([(7, (10, 12), 5, 99)%N], [1; 2]%N, 1%N) /\ sigs_imply_roots (mkOutcome T_generated [] [(7, (10, 12), 5, 99)%N] [] 0 [1; 2]%N (4, 1)%N).
Proof. split; [vm_compute; reflexivity|]. unfold sigs_imply_roots. cbn. discriminate. Qed.

(* F11: before the repair buildReport produced signatures without roots (no agreed root signed) *)
Theorem no_sigs_without_roots_unfixed_refuted :
  exists q c prev, ~ sigs_imply_roots (build_report_unfixed11 q c prev) /\
     exists roots sigs f, report_of (build_report_unfixed11 q c prev) 0 0 = Some (roots, sigs, f) /\ roots = [] /\ sigs <> [].
Proof.
  exists (mkQuery false (Some (mkBundle [SigOk 1; SigOk 2] [LaneOk 7 10 12 5 98]%N))),
         (mkCons [(7, (10, 12), 5, 99)]%N [] [] cfg_empty), empty_outcome.
  split.
  - unfold sigs_imply_roots. vm_compute. intros H. specialize (H eq_refl). discriminate.
  - exists [], [1; 2]%N, 0%N. split; [vm_compute; reflexivity|]. split; [reflexivity|discriminate].
Qed.

(* F10: before the repair a nil part of the bundle crashed Outcome *)
Theorem build_report_unfixed10_panics :
  exists q c prev, build_report_unfixed10 q c prev = Panic /\ build_report q c prev = empty_outcome.
Proof.
  exists (mkQuery false (Some (mkBundle [SigOk 1] [LaneNil]))), (mkCons [] [] [] cfg_empty), empty_outcome.
  split; vm_compute; reflexivity.
Qed.

(* ---------- acceptance gate ---------- *)
(* A report carrying roots is accepted with RMN enabled only with at least F_rmn + 1 signatures (all F, no bound). *)
Theorem accept_gate d roots tp gp sigs curse info rmn f :
  commit_should_accept d roots tp gp sigs curse info rmn f = Ok true ->
  rmn = true -> roots <> 0%N -> (f + 1 <= sigs)%N.
Proof.
  unfold commit_should_accept. intros H -> NZ.
  destruct (negb d); [discriminate|]. destruct (commit_report_empty roots tp gp sigs); [discriminate|].
  destruct (N.eqb curse 2); [discriminate|]. destruct (N.eqb curse 1); [discriminate|].
  destruct (negb info); [discriminate|].
  destruct (N.eqb_spec roots 0); [contradiction|]. cbn [negb andb] in H.
  destruct (N.ltb_spec sigs (f + 1)); [discriminate|]. assumption.
Qed.

Example accept_gate_nonvacuous :
  commit_should_accept true 1 0 0 2 0 true true 1 = Ok true /\ commit_should_accept true 1 0 0 1 0 true true 1 = Ok false.
Proof. vm_compute. split; reflexivity. Qed.

(* F28: the gate as it was (int conversion, f+1 in int) let a root-carrying report with no signature through for
   RemoteF >= 2^63-1, and agreed with the repaired gate below that *)
Theorem accept_gate_unfixed_refuted :
  exists roots sigs f, roots <> 0%N /\ ~ (f + 1 <= sigs)%N /\ rmn_gate_rejects_unfixed true roots sigs f = false.
Proof. exists 1%N, 0%N, 9223372036854775807%N. split; [discriminate|]. split; [lia|vm_compute; reflexivity]. Qed.

Theorem accept_gate_unfixed_except_known rmn roots sigs f :
  (f < 9223372036854775807)%N -> (sigs < 9223372036854775808)%N ->
  rmn_gate_rejects_unfixed rmn roots sigs f = rmn_gate_rejects rmn roots sigs f.
Proof.
  intros Hf Hs. unfold rmn_gate_rejects_unfixed, rmn_gate_rejects, lt_f_plus_one_int.
  f_equal. unfold to_int64.
  assert (E1 : ((Z.of_N f + 9223372036854775808) mod 18446744073709551616 - 9223372036854775808 = Z.of_N f)%Z).
  { rewrite Z.mod_small; lia. }
  rewrite E1.
  assert (E2 : ((Z.of_N f + 1 + 9223372036854775808) mod 18446744073709551616 - 9223372036854775808 = Z.of_N f + 1)%Z).
  { rewrite Z.mod_small; lia. }
  rewrite E2. destruct (Z.ltb_spec (Z.of_N sigs) (Z.of_N f + 1)), (N.ltb_spec sigs (f + 1)); try reflexivity; lia.
Qed.

(* ---------- the round as a whole ---------- *)
(* An announced retry in a building round is inert in every step: nothing is observed, only empty observations are
   valid, and the outcome is the previous outcome (so no root and no signature of that round's bundle, verified or
   not, reaches an outcome). *)
Theorem retry_round_inert max n prev q w co :
  next_state (o_type prev) = Building -> q_retry q = true ->
  get_observation Building q w = obs_empty /\
  (forall o, validate_retry q o = true -> obs_is_empty o = true) /\
  get_outcome max n prev q co = prev.
Proof.
  intros ST R. split; [unfold get_observation; now rewrite R|]. split.
  - intros o. unfold validate_retry. rewrite R. cbn [andb]. destruct (obs_is_empty o); [reflexivity|discriminate].
  - now apply retry_identity.
Qed.

(* whatever is returned next to a refusal is the empty observation *)
Theorem refused_observation_empty verify_sigs enabled st cfg_e d dest init known offramp q w :
  fst (observation_full verify_sigs enabled st cfg_e d dest init known offramp q w) <> Ok tt ->
  snd (observation_full verify_sigs enabled st cfg_e d dest init known offramp q w) = obs_empty.
Proof.
  unfold observation_full. destruct (observation verify_sigs enabled st cfg_e d dest init known offramp q) as [[]| | |];
    cbn [fst snd]; congruence.
Qed.

(* merkle roots are observed only in a building round without retry, and then they are the roots of the previous
   outcome's selected ranges (w_roots) *)
Theorem roots_observed_only_when_building st q w :
  ob_roots (get_observation st q w) <> [] -> st = Building /\ q_retry q = false /\ ob_roots (get_observation st q w) = w_roots w.
Proof.
  unfold get_observation. destruct st; cbn [ob_roots]; try congruence.
  destruct (q_retry q); cbn [obs_empty ob_roots]; [congruence|]. intros _. repeat split.
Qed.

(* the leader's honest query: a bundle comes only from the controller, asked for exactly the previous outcome's
   ranges with the bound on-ramp addresses; a timeout becomes the retry query without bundle *)
Theorem query_model_cases enabled st cfg_e init offramp ranges onramp ctrl q reqs :
  query_model enabled st cfg_e init offramp ranges onramp ctrl = (Ok q, reqs) ->
  (q = mkQuery false None /\ reqs = None /\ (enabled = false \/ st <> Building)) \/
  (enabled = true /\ st = Building /\ cfg_e = false /\ query_requests ranges onramp = reqs /\ reqs <> None /\
   ((exists b, ctrl = CtrlSigs b /\ q = mkQuery false (Some b)) \/ (ctrl = CtrlTimeout /\ q = mkQuery true None))).
Proof.
  unfold query_model. destruct enabled; cbn [negb]; [|intros H; inversion H; left; repeat split; now left].
  destruct st; cbn [state_eqb negb]; try (intros H; inversion H; left; repeat split; right; discriminate).
  destruct cfg_e; [discriminate|]. destruct (N.eqb init 2); [discriminate|].
  destruct offramp; [|discriminate]. destruct (query_requests ranges onramp) as [l|] eqn:Q; [|discriminate].
  destruct ctrl; intros H; inversion H; subst; right; repeat split; try discriminate.
  - left. exists b. split; reflexivity.
  - right. split; reflexivity.
Qed.

(* JudgeSoundC06bP.v — model theorems (Model/Rmn.v, repaired code) that the executable clauses [log_ok] / [kind_ok] of
   Check/C06_check.v are the twins of:
     requests_wellformed   every PeerClient.Send call of every run: to whom, for which chains, how often
     failure_origin        WHEN the call may end with which error
     sigs_strictly_ordered the signatures of a successful return are STRICTLY ascending by signer address
     giveup_only_after_asking_all  ErrInsufficientObservationResponses only after every observer of every lane was asked
     giveupB_only_after_asking_all ErrInsufficientSignatureResponses only after every signer RMNHome knows was asked
   All are for every configuration, every choice of what Go leaves to chance and every event list. *)
Require Import Verif.Model.Base Verif.Model.Rmn Verif.Proofs.BaseP Verif.Proofs.RmnP.
From Coq Require Import Sorting.Sorted.

Definition rk0 (r : send_rec) : bool := N.eqb (sd_kind r) 0.
Definition rk1 (r : send_rec) : bool := N.eqb (sd_kind r) 1.
Definition rk1ok (r : send_rec) : bool := rk1 r && sd_ok r.

Lemma chains_of_node_in n pairs ch : In ch (chains_of_node n pairs) <-> In (ch, n) pairs.
Proof.
  unfold chains_of_node. split.
  - intros H. apply (Permutation_in _ (sortN_perm_self _)) in H. apply in_map_iff in H as ([c m] & E & H).
    cbn [fst] in E. subst c. apply filter_In in H as [H E]. cbn [snd] in E. apply N.eqb_eq in E. now subst.
  - intros H. apply (Permutation_in _ (Permutation_sym (sortN_perm_self _))). apply in_map_iff. exists (ch, n).
    split; [reflexivity|]. apply filter_In. split; [exact H|]. cbn [snd]. apply N.eqb_refl.
Qed.

Lemma send_obs_log sc nodes pairs : forall ss,
  exists new, ss_log (send_obs sc nodes pairs ss) = ss_log ss ++ new /\ map sd_node new = nodes /\
    Forall (fun r => sd_kind r = 0%N /\ sd_chains r = chains_of_node (sd_node r) pairs) new.
Proof.
  induction nodes as [|n rest IH]; intros ss; cbn [send_obs].
  - exists []. rewrite app_nil_r. repeat split. constructor.
  - destruct (s_fail sc (ss_k ss)).
    + match goal with |- context [send_obs sc rest pairs ?x] => destruct (IH x) as (new & E & Hn & F) end.
      cbn [ss_log] in E. eexists (_ :: new). rewrite E, <- app_assoc. cbn [app map sd_node]. split; [reflexivity|].
      split; [now rewrite Hn|]. constructor; [cbn; auto|exact F].
    + match goal with |- context [send_obs sc rest pairs ?x] => destruct (IH x) as (new & E & Hn & F) end.
      cbn [ss_log] in E. eexists (_ :: new). rewrite E, <- app_assoc. cbn [app map sd_node]. split; [reflexivity|].
      split; [now rewrite Hn|]. constructor; [cbn; auto|exact F].
Qed.

Lemma node_pass_sub n us st :
  (forall p, In p (fst st) -> In p (all_pairs us)) -> forall p, In p (fst (node_pass n us st)) -> In p (all_pairs us).
Proof.
  intros H p Hp. apply node_pass_in in Hp as [Hp|(u & Hu & Hm & ->)]; [now apply H|].
  apply all_pairs_in. exists u. split; [exact Hu|]. split; [reflexivity|now apply memN_in].
Qed.
Lemma init_loop_sub order us : forall st,
  (forall p, In p (fst st) -> In p (all_pairs us)) -> forall p, In p (fst (init_loop order us st)) -> In p (all_pairs us).
Proof.
  induction order as [|n rest IH]; intros st H; cbn [init_loop]; [exact H|].
  destruct (Nat.eqb _ _); [exact H|]. apply IH. now apply node_pass_sub.
Qed.

Lemma filter_all_false {A} (f : A -> bool) l : (forall x, In x l -> f x = false) -> filter f l = [].
Proof.
  induction l as [|a l IH]; cbn; intros H; [reflexivity|].
  rewrite (H a (or_introl eq_refl)). apply IH. intros x Hx. apply H. now right.
Qed.
Lemma asked_app_l rq rq' n : asked rq n -> asked (rq ++ rq') n.
Proof. intros [ch H]. exists ch. apply in_app_iff. now left. Qed.
Lemma asked_app_r rq rq' n : asked rq' n -> asked (rq ++ rq') n.
Proof. intros [ch H]. exists ch. apply in_app_iff. now right. Qed.

Section LogInv.
  Variable edv : N -> observation -> N -> bool.
  Variable vrs : N -> N -> report -> bool.
  Variable cfg : config.
  Variable sc : sched.
  Hypothesis signers_nodup : NoDup (map sg_node (c_signers cfg)).

  Notation gstepF := (gstep edv vrs fixed cfg sc).
  Notation runF := (run edv vrs fixed cfg sc).

  (* one Send call: an observation request names only requested lanes the addressee observes; a report-signature
     request goes to a configured signer that RMNHome knows *)
  Definition rec_good (us : list upd) (r : send_rec) : Prop :=
    (sd_kind r = 0%N /\
     forall ch, In ch (sd_chains r) -> exists u, In u us /\ u_chain u = ch /\ In (sd_node r) (u_nodes u)) \/
    (sd_kind r = 1%N /\ In (sd_node r) (signer_nodes cfg) /\ is_home cfg (sd_node r) = true).
  (* the whole log: every call as above; no node is sent two observation requests; no signer has two accepted
     signature requests *)
  Definition log_good (us : list upd) (l : list send_rec) : Prop :=
    Forall (rec_good us) l /\ NoDup (map sd_node (filter rk0 l)) /\ NoDup (map sd_node (filter rk1ok l)).

  Definition all_k0 (l : list send_rec) : Prop := Forall (fun r => sd_kind r = 0%N) l.
  Lemma all_k0_filters l : all_k0 l -> filter rk0 l = l /\ filter rk1ok l = [] /\ filter rk1 l = [].
  Proof.
    intros H. unfold all_k0 in H. rewrite Forall_forall in H. split; [|split].
    - apply filter_all_true. intros r Hr. unfold rk0. now rewrite (H r Hr).
    - apply filter_all_false. intros r Hr. unfold rk1ok, rk1. now rewrite (H r Hr).
    - apply filter_all_false. intros r Hr. unfold rk1. now rewrite (H r Hr).
  Qed.

  Definition k0rec (us : list upd) (r : send_rec) : Prop :=
    sd_kind r = 0%N /\ forall ch, In ch (sd_chains r) -> In (ch, sd_node r) (all_pairs us).
  Lemma k0rec_good us r : k0rec us r -> rec_good us r.
  Proof.
    intros [K H]. left. split; [exact K|]. intros ch Hch. apply H, all_pairs_in in Hch as (u & Hu & -> & Hn). eauto.
  Qed.

  Definition gaI (us : list upd) (s : stA) : Prop :=
    Forall (k0rec us) (a_log s) /\ NoDup (map sd_node (a_log s)) /\
    (forall r, In r (a_log s) -> asked (a_rq s) (sd_node r)) /\
    (forall p, In p (a_rq s) -> In p (all_pairs us)).
  Lemma gaI_k0 us s : gaI us s -> all_k0 (a_log s).
  Proof. intros [F _]. unfold all_k0. eapply Forall_impl; [|exact F]. now intros r [K _]. Qed.
  Lemma gaI_good us s : gaI us s -> log_good us (a_log s).
  Proof.
    intros G. destruct (all_k0_filters _ (gaI_k0 _ _ G)) as (E0 & E1 & _). destruct G as (F & ND & _).
    split; [eapply Forall_impl; [|exact F]; apply k0rec_good|]. rewrite E0, E1. split; [exact ND|constructor].
  Qed.

  Definition failI (pre : list event) (g : gstate) : Prop :=
    match g with
    | GFinal (Failure f) l =>
        match f with
        | FTimeoutA | FTimeoutB => In CtxDone pre
        | FDupChain | FNoF | FNothingToDo => prepare cfg = inr f /\ l = []
        | FInsufObs => all_k0 l
        | _ => True
        end
    | _ => True
    end.
  Definition logI (g : gstate) : Prop :=
    match g with
    | GA us s => gaI us s
    | GB s => exists us, prepare cfg = inl (Ok us) /\ log_good us (b_log s) /\
                map sd_node (filter rk1ok (b_log s)) = b_asked s
    | GFinal f l => (exists fl, prepare cfg = inr fl /\ f = Failure fl /\ l = []) \/
                    (exists us, prepare cfg = inl (Ok us) /\ log_good us l)
    end.

  Lemma failI_mono pre e g : failI pre g -> failI (pre ++ [e]) g.
  Proof.
    destruct g as [| |[| f |] l]; cbn; auto. destruct f; auto; intros H; apply in_app_iff; now left.
  Qed.

  (* ---------- the first requests ---------- *)
  Lemma gaI_init us : gaI us (initA cfg sc us).
  Proof.
    unfold initA. set (rq := fst (init_loop _ us ([], []))).
    assert (Hsub : forall p, In p rq -> In p (all_pairs us)) by (apply init_loop_sub; intros p []).
    destruct (send_obs_log sc (order_by (s_sendA1 sc) (nodes_of_pairs rq)) rq (mkSendst [] 0 [])) as (new & E & Hn & F).
    cbn [ss_log app] in E. unfold gaI. cbn [a_log a_rq]. rewrite E. split; [|split; [|split]].
    - eapply Forall_impl; [|exact F]. intros r [K C]. split; [exact K|]. intros ch Hch. rewrite C in Hch.
      apply chains_of_node_in in Hch. now apply Hsub.
    - rewrite Hn. apply order_by_nodup, dkf_nodup.
    - intros r Hr. apply nodes_of_pairs_in. apply (order_by_in (s_sendA1 sc)). rewrite <- Hn. now apply in_map.
    - exact Hsub.
  Qed.

  (* ---------- phase A ---------- *)
  Lemma stepA_cont_same us s e s' :
    stepA edv fixed cfg sc us s e = Cont s' -> e <> TimerFire \/ a_exp s = true ->
    a_log s' = a_log s /\ a_rq s' = a_rq s.
  Proof.
    intros H Hc. destruct e as [n b| |]; cbn [stepA] in H.
    - destruct (parse _ _ _ _ _) as [[id p]|]; [|inversion H; auto].
      destruct (validate_obs _ _ _ _ _ _) as [v| | |]; try discriminate;
        (destruct (sufficient _ _) as [[|]| | |]; try discriminate; destruct (_ && _); try discriminate;
         inversion H; cbn; auto).
    - destruct (a_exp s) eqn:Ex; [inversion H; cbn; auto|]. destruct Hc as [Hc|Hc]; [congruence|discriminate].
    - discriminate.
  Qed.
  Lemma stepA_done_fail us s e f :
    stepA edv fixed cfg sc us s e = Done (inr f) ->
    (e = CtxDone /\ f = Failure FTimeoutA) \/ f = Crash \/ f = Failure FInsufObs.
  Proof.
    intros H. destruct e as [n b| |]; cbn [stepA] in H.
    - destruct (parse _ _ _ _ _) as [[id p]|]; [|discriminate].
      destruct (validate_obs _ _ _ _ _ _) as [v| | |]; try (inversion H; auto);
        (destruct (sufficient _ _) as [[|]| | |]; try (inversion H; auto); try discriminate;
         destruct (_ && _); inversion H; auto).
    - destruct (a_exp s); discriminate.
    - inversion H. auto.
  Qed.

  Lemma gaI_timer us s :
    gaI us s -> closed us (a_rq s) -> a_exp s = false ->
    forall s', stepA edv fixed cfg sc us s TimerFire = Cont s' -> gaI us s'.
  Proof.
    intros (F & ND & Ha & Hsub) C Ex s' H. cbn [stepA] in H. rewrite Ex in H.
    set (extra := filter (fun p => negb (rq_mem (fst p) (snd p) (a_rq s))) (all_pairs us)) in *.
    destruct (send_obs_log sc (order_by (s_sendA2 sc) (nodes_of_pairs extra)) extra
                (mkSendst (a_ids s) (a_k s) (a_log s))) as (new & E & Hn & Fn).
    cbn [ss_log] in E. inversion H; subst s'. clear H. unfold gaI. cbn [a_log a_rq]. rewrite E.
    assert (Hex : forall p, In p extra -> In p (all_pairs us)) by (intros p Hp; now apply filter_In in Hp as [Hp _]).
    split; [|split; [|split]].
    - apply Forall_app. split; [exact F|]. eapply Forall_impl; [|exact Fn]. intros r [K Cc]. split; [exact K|].
      intros ch Hch. rewrite Cc in Hch. apply chains_of_node_in in Hch. now apply Hex.
    - rewrite map_app, Hn. apply nodup_app; [exact ND|apply order_by_nodup, dkf_nodup|].
      intros x Hx Hx'. apply in_map_iff in Hx as (r & <- & Hr). apply order_by_in in Hx'.
      exact (extra_fresh us (a_rq s) (sd_node r) C Hx' (Ha r Hr)).
    - intros r Hr. apply in_app_iff in Hr as [Hr|Hr]; [apply asked_app_l, Ha, Hr|]. apply asked_app_r.
      apply nodes_of_pairs_in. apply (order_by_in (s_sendA2 sc)). rewrite <- Hn. now apply in_map.
    - intros p Hp. apply in_app_iff in Hp as [Hp|Hp]; auto.
  Qed.

  (* ---------- the signature requests ---------- *)
  Definition sigI (us : list upd) (st : sigsend) : Prop :=
    log_good us (gs_log st) /\ map sd_node (filter rk1ok (gs_log st)) = gs_asked st.

  Lemma sigI_fail us st n id ids k :
    sigI us st -> In n (signer_nodes cfg) -> is_home cfg n = true ->
    sigI us (mkSigsend ids (gs_asked st) k (gs_log st ++ [mkSend 1%N n id false []])).
  Proof.
    intros [(F & N0 & N1) E] Hn Hh. unfold sigI, log_good. cbn [gs_log gs_asked].
    rewrite !filter_app. cbn [filter rk0 rk1ok rk1 sd_kind sd_ok N.eqb andb]. rewrite !app_nil_r.
    split; [split; [|split]|]; auto.
    apply Forall_app. split; [exact F|]. constructor; [|constructor]. right. cbn. auto.
  Qed.
  Lemma sigI_ok us st n id ids k :
    sigI us st -> In n (signer_nodes cfg) -> is_home cfg n = true -> ~ In n (gs_asked st) ->
    sigI us (mkSigsend ids (set_addN n (gs_asked st)) k (gs_log st ++ [mkSend 1%N n id true []])).
  Proof.
    intros [(F & N0 & N1) E] Hn Hh Hna. unfold sigI, log_good. cbn [gs_log gs_asked].
    rewrite !filter_app. cbn [filter rk0 rk1ok rk1 sd_kind sd_ok N.eqb andb]. rewrite app_nil_r.
    rewrite map_app, E, (set_addN_fresh _ _ Hna). cbn [map sd_node].
    split; [split; [|split]|]; auto.
    - apply Forall_app. split; [exact F|]. constructor; [|constructor]. right. cbn. auto.
    - rewrite E in N1. apply nodup_app; [exact N1|repeat constructor; intros []|].
      intros x Hx [<-|[]]. apply Hna. exact Hx.
  Qed.

  Lemma send_sigs_more_sigI us order : forall st,
    (forall n, In n order -> In n (signer_nodes cfg)) -> sigI us st -> sigI us (send_sigs_more cfg sc order st).
  Proof.
    induction order as [|n rest IH]; intros st Ho I; cbn [send_sigs_more]; [exact I|].
    assert (Hr : forall m, In m rest -> In m (signer_nodes cfg)) by (intros m Hm; apply Ho; now right).
    destruct (memN n (gs_asked st)) eqn:Ea; [now apply IH|]. apply memN_false in Ea.
    destruct (is_home cfg n) eqn:Eh; cbn [negb]; [|now apply IH].
    destruct (s_fail sc (gs_k st)); apply IH; try exact Hr.
    - apply sigI_fail; auto. apply Ho. now left.
    - apply sigI_ok; auto. apply Ho. now left.
  Qed.
  Lemma send_sigs_first_sigI us order : forall st,
    (forall n, In n order -> In n (signer_nodes cfg)) -> NoDup order ->
    (forall n, In n order -> ~ In n (gs_asked st)) -> sigI us st -> sigI us (send_sigs_first cfg sc order st).
  Proof.
    induction order as [|n rest IH]; intros st Ho ND D I; cbn [send_sigs_first]; [exact I|].
    inversion ND as [|? ? Hn ND']; subst.
    assert (Hr : forall m, In m rest -> In m (signer_nodes cfg)) by (intros m Hm; apply Ho; now right).
    assert (Dr : forall m, In m rest -> ~ In m (gs_asked st)) by (intros m Hm; apply D; now right).
    destruct (gte_f_plus_one _ _); [exact I|].
    destruct (is_home cfg n) eqn:Eh; cbn [negb]; [|now apply IH].
    destruct (s_fail sc (gs_k st)); apply IH; try exact Hr; try exact ND'.
    - exact Dr.
    - apply sigI_fail; auto. apply Ho. now left.
    - cbn [gs_asked]. intros m Hm Hin. apply set_addN_in in Hin as [Hin| ->]; [exact (Dr m Hm Hin)|tauto].
    - apply sigI_ok; auto; [apply Ho; now left|apply D; now left].
  Qed.

  Lemma startB_cases us acc k log :
    let gs := send_sigs_first cfg sc (order_by (s_shufB1 sc) (signer_nodes cfg)) (mkSigsend [] [] k log) in
    (exists f, startB cfg sc us acc k log = Done (f, log) /\
               (f = Crash \/ f = Failure FRoots \/ f = Failure FDest)) \/
    startB cfg sc us acc k log = Done (Failure FSendSigs, gs_log gs) \/
    (exists sb, startB cfg sc us acc k log = Cont sb /\ b_log sb = gs_log gs /\ b_asked sb = gs_asked gs).
  Proof.
    intros gs. unfold startB. destruct (all_votes acc) as [vs| | |]; try (left; eexists; split; [reflexivity|auto]).
    destruct (select_roots sc vs us); [|left; eexists; split; [reflexivity|auto]].
    destruct (negb (c_dest_known cfg)); [left; eexists; split; [reflexivity|auto]|].
    destruct (tas_panics acc); [left; eexists; split; [reflexivity|auto]|].
    fold gs. destruct (lt_f_plus_one _ _); [right; left; reflexivity|].
    right. right. eexists. split; [reflexivity|]. cbn. auto.
  Qed.

  Lemma order_signers pref n : In n (order_by pref (signer_nodes cfg)) -> In n (signer_nodes cfg).
  Proof. apply order_by_in. Qed.

  (* ---------- one step ---------- *)
  Lemma inv_step pre g e :
    ginv edv vrs cfg pre g -> logI g -> failI pre g -> logI (gstepF g e) /\ failI (pre ++ [e]) (gstepF g e).
  Proof.
    intros G L Fi. destruct g as [us s|s|f l]; cbn [gstep].
    - destruct G as [P I]. cbn [logI] in L.
      destruct (stepA edv fixed cfg sc us s e) as [s'|[acc|f]] eqn:Es.
      + split; [|exact Logic.I]. cbn [logI].
        destruct e as [n b| |].
        * destruct (stepA_cont_same _ _ _ _ Es) as [E1 E2]; [left; discriminate|].
          destruct L as (A & B & C & D). unfold gaI. rewrite E1, E2. auto.
        * destruct (a_exp s) eqn:Ex.
          -- destruct (stepA_cont_same _ _ _ _ Es) as [E1 E2]; [now right|].
             destruct L as (A & B & C & D). unfold gaI. rewrite E1, E2. auto.
          -- eapply gaI_timer; eauto. now apply (iA_closed _ _ _ _ _ I).
        * cbn [stepA] in Es. discriminate.
      + (* phase A hands its observations on *)
        pose proof (gaI_good _ _ L) as LG. destruct (all_k0_filters _ (gaI_k0 _ _ L)) as (_ & E1 & _).
        assert (SI : sigI us (send_sigs_first cfg sc (order_by (s_shufB1 sc) (signer_nodes cfg))
                                (mkSigsend [] [] (a_k s) (a_log s)))).
        { apply send_sigs_first_sigI.
          - intros n. apply order_signers.
          - apply order_by_nodup, signers_nodup.
          - intros n _ [].
          - split; [exact LG|]. cbn [gs_log gs_asked]. now rewrite E1. }
        unfold enterB. destruct (startB_cases us acc (a_k s) (a_log s)) as [(f & E & Hf)|[E|(sb & E & Eb1 & Eb2)]];
          rewrite E.
        * split; [right; eauto|]. cbn. destruct Hf as [->|[->| ->]]; exact Logic.I.
        * split; [right; exists us; split; [exact P|apply SI]|exact Logic.I].
        * split; [|exact Logic.I]. cbn [logI]. exists us. rewrite Eb1, Eb2. split; [exact P|]. exact SI.
      + pose proof (gaI_good _ _ L) as LG. split; [right; eauto|].
        destruct (stepA_done_fail _ _ _ _ Es) as [[-> ->]|[->| ->]]; cbn.
        * apply in_app_iff. right. now left.
        * exact Logic.I.
        * now apply (gaI_k0 us).
    - destruct L as (us & P & LG & Ea).
      destruct (stepB vrs fixed cfg sc s e) as [s'|f] eqn:Es.
      + split; [|exact Logic.I]. cbn [logI]. exists us. split; [exact P|].
        destruct e as [n b| |]; cbn [stepB] in Es.
        * destruct (parse _ _ _ _ _) as [[id p]|]; [|inversion Es; subst; auto].
          destruct (validate_sig _ _ _ _ _) as [[a g0]| | |]; try discriminate;
            (destruct (gte_f_plus_one _ _); [discriminate|]; destruct (_ && _); [discriminate|];
             inversion Es; cbn; auto).
        * destruct (b_exp s); inversion Es; cbn [b_log b_asked]; [auto|].
          apply (send_sigs_more_sigI us); [intros n; apply order_signers|]. split; cbn [gs_log gs_asked]; auto.
        * discriminate.
      + split; [right; eauto|].
        destruct e as [n b| |]; cbn [stepB] in Es.
        * destruct (parse _ _ _ _ _) as [[id p]|]; [|discriminate].
          destruct (validate_sig _ _ _ _ _) as [[a g0]| | |]; try (inversion Es; subst; exact Logic.I);
            (destruct (gte_f_plus_one _ _); [inversion Es; subst; exact Logic.I|];
             destruct (_ && _); inversion Es; subst; exact Logic.I).
        * destruct (b_exp s); discriminate.
        * inversion Es; subst. cbn. apply in_app_iff. right. now left.
    - split; [exact L|now apply failI_mono].
  Qed.

  Lemma prepare_not_panic : forall r, prepare cfg = inl r -> exists us, r = Ok us.
  Proof.
    intros r H. unfold prepare in H. destruct (negb _); [discriminate|].
    destruct (with_F _ _); [|discriminate]. destruct (filter _ _); [discriminate|]. inversion H. eauto.
  Qed.

  Lemma inv_init : logI (ginit cfg sc) /\ failI [] (ginit cfg sc).
  Proof.
    unfold ginit. destruct (prepare cfg) as [r|f] eqn:E.
    - destruct (prepare_not_panic r E) as [us ->]. split; [apply gaI_init|exact Logic.I].
    - split; [left; eauto|]. cbn. destruct f; auto.
      all: unfold prepare in E; destruct (negb _); try discriminate;
        destruct (with_F _ _); try discriminate; destruct (filter _ _); discriminate.
  Qed.

  Lemma inv_fold evs : forall pre g,
    ginv edv vrs cfg pre g -> logI g -> failI pre g ->
    logI (fold_left gstepF evs g) /\ failI (pre ++ evs) (fold_left gstepF evs g).
  Proof.
    induction evs as [|e evs IH]; intros pre g G L Fi; cbn [fold_left].
    - rewrite app_nil_r. auto.
    - replace (pre ++ e :: evs) with ((pre ++ [e]) ++ evs) by (rewrite <- app_assoc; reflexivity).
      destruct (inv_step pre g e G L Fi) as [L' F']. apply IH; auto. now apply ginv_step.
  Qed.

  Theorem run_inv evs : logI (runF evs) /\ failI evs (runF evs).
  Proof.
    destruct inv_init as [L Fi]. apply (inv_fold evs [] (ginit cfg sc)); auto. now apply ginv_init.
  Qed.

  (* ---------- the theorems ---------- *)
  (* a configuration the call refuses is refused before anything is sent, whatever arrives *)
  Theorem refused_config f evs : prepare cfg = inr f -> runF evs = GFinal (Failure f) [].
  Proof.
    intros P. unfold run, ginit. rewrite P. apply fold_final.
  Qed.

  Theorem requests_wellformed evs us :
    prepare cfg = inl (Ok us) -> log_good us (g_log (runF evs)).
  Proof.
    intros P. destruct (run_inv evs) as [L _]. pose proof (ginv_run edv vrs cfg sc signers_nodup evs) as G.
    destruct (runF evs) as [us' s|s|f l]; cbn [g_log logI] in *.
    - destruct G as [P' _]. rewrite P in P'. inversion P'; subst us'. now apply gaI_good.
    - destruct L as (us' & P' & LG & _). rewrite P in P'. inversion P'; subst us'. exact LG.
    - destruct L as [(fl & P' & _)|(us' & P' & LG)]; rewrite P in P'; [discriminate|]. inversion P'; subst us'. exact LG.
  Qed.

  (* while the call is in phase A, and when it fails in phase A, no signature request has left the controller *)
  Theorem phaseA_no_sig_request evs us s : runF evs = GA us s -> all_k0 (a_log s).
  Proof. intros E. destruct (run_inv evs) as [L _]. rewrite E in L. now apply (gaI_k0 us). Qed.

  Theorem failure_origin evs f l :
    runF evs = GFinal (Failure f) l ->
    match f with
    | FTimeoutA | FTimeoutB => In CtxDone evs
    | FDupChain | FNoF | FNothingToDo => prepare cfg = inr f /\ l = []
    | FInsufObs => all_k0 l
    | _ => True
    end.
  Proof. intros E. destruct (run_inv evs) as [_ Fi]. rewrite E in Fi. exact Fi. Qed.

  (* ---------- order of the signatures ---------- *)
  Theorem sigs_strictly_ordered evs sigs rep log :
    NoDup (map sg_addr (c_signers cfg)) ->
    runF evs = GFinal (Success sigs rep) log ->
    exists entries : list (node * N * N),
      sigs = map snd entries /\
      StronglySorted (fun a b => (saddr a < saddr b)%N) entries /\
      forall x, In x entries -> sig_evidence vrs cfg evs rep x.
  Proof.
    intros NDa E. destruct (success_sound edv vrs cfg sc signers_nodup evs sigs rep log E)
      as (us & _ & _ & (en & E1 & NDn & _ & Srt & Hev)).
    exists en. split; [exact E1|]. split; [|exact Hev].
    clear E1. induction en as [|x en IH]; [constructor|].
    inversion Srt as [|? ? S' Fa]; subst. inversion NDn as [|? ? Hx NDn']; subst.
    constructor; [apply IH; auto; intros y Hy; apply Hev; now right|].
    rewrite Forall_forall in Fa |- *. intros y Hy. specialize (Fa y Hy).
    assert (saddr x <> saddr y); [|lia]. intros Eq. apply Hx.
    destruct x as [[n1 a1] g1], y as [[n2 a2] g2]. unfold saddr, snode in *. cbn [fst snd] in *. subst a2.
    destruct (Hev (n1, a1, g1) (or_introl eq_refl)) as [S1 _]. destruct (Hev (n2, a1, g2) (or_intror Hy)) as [S2 _].
    assert (Es : forall l, NoDup (map sg_addr l) -> In (mkSigner n1 a1) l -> In (mkSigner n2 a1) l -> n1 = n2).
    { clear. induction l as [|s l IHl]; cbn; [tauto|]. intros N. inversion N as [|? ? Hs N']; subst.
      intros [E1|H1] [E2|H2]; auto.
      - congruence.
      - subst s. exfalso. apply Hs. apply in_map_iff. exists (mkSigner n2 a1). auto.
      - subst s. exfalso. apply Hs. apply in_map_iff. exists (mkSigner n1 a1). auto. }
    rewrite (Es _ NDa S1 S2). apply in_map_iff. exists (n2, a1, g2). auto.
  Qed.
End LogInv.

(* ---------- giving up: ErrInsufficientObservationResponses only after EVERY observer has been asked ---------- *)
Section GiveUp.
  Variable edv : N -> observation -> N -> bool.
  Variable vrs : N -> N -> report -> bool.
  Variable cfg : config.
  Variable sc : sched.

  Notation gstepF := (gstep edv vrs fixed cfg sc).
  Notation runF := (run edv vrs fixed cfg sc).

  (* an observation request to node n naming lane ch is in the log (accepted by PeerClient.Send or not: the code adds
     the node to requestedNodes before it tries to send) *)
  Definition obs_asked (l : list send_rec) (ch : chain) (n : node) : Prop :=
    exists r, In r l /\ sd_kind r = 0%N /\ sd_node r = n /\ In ch (sd_chains r).

  Lemma obs_asked_app_l l l' ch n : obs_asked l ch n -> obs_asked (l ++ l') ch n.
  Proof. intros (r & H & K). exists r. split; [apply in_app_iff; now left|exact K]. Qed.

  Lemma send_obs_asks nodes pairs ss ch n :
    In n nodes -> In (ch, n) pairs -> 
    exists new, ss_log (send_obs sc nodes pairs ss) = ss_log ss ++ new /\ obs_asked new ch n.
  Proof.
    intros Hn Hp. destruct (send_obs_log sc nodes pairs ss) as (new & E & Em & F). exists new. split; [exact E|].
    rewrite <- Em in Hn. apply in_map_iff in Hn as (r & Er & Hr). rewrite Forall_forall in F.
    destruct (F r Hr) as [K C]. exists r. repeat split; auto. rewrite C, Er. now apply chains_of_node_in.
  Qed.

  Definition askI (g : gstate) : Prop :=
    match g with
    | GA us s =>
        prepare cfg = inl (Ok us) /\
        (forall ch n, In (ch, n) (a_rq s) -> obs_asked (a_log s) ch n) /\
        (a_exp s = true -> forall p, In p (all_pairs us) -> In p (a_rq s))
    | GFinal (Failure FInsufObs) l =>
        exists us, prepare cfg = inl (Ok us) /\ forall ch n, In (ch, n) (all_pairs us) -> obs_asked l ch n
    | _ => True
    end.

  Lemma askI_init : askI (ginit cfg sc).
  Proof.
    unfold ginit. destruct (prepare cfg) as [[us| | |]|f] eqn:P; try exact Logic.I.
    - cbn [askI]. split; [exact P|]. unfold initA. cbn [a_rq a_log a_exp].
      set (rq := fst (init_loop _ us ([], []))). split; [|discriminate].
      intros ch n Hp.
      destruct (send_obs_asks (order_by (s_sendA1 sc) (nodes_of_pairs rq)) rq (mkSendst [] 0 []) ch n) as (new & E & A);
        [apply order_by_in, nodes_of_pairs_in; now exists ch|exact Hp|].
      cbn [ss_log app] in E. now rewrite E.
    - cbn. destruct f; try exact Logic.I. exfalso. unfold prepare in P. destruct (negb _); [discriminate|].
      destruct (with_F _ _); [|discriminate]. destruct (filter _ _); discriminate.
  Qed.

  Lemma stepA_giveup_exp us s e :
    stepA edv fixed cfg sc us s e = Done (inr (Failure FInsufObs)) -> a_exp s = true.
  Proof.
    intros H. destruct e as [n b| |]; cbn [stepA] in H.
    - destruct (parse _ _ _ _ _) as [[id p]|]; [|discriminate].
      destruct (validate_obs _ _ _ _ _ _) as [v| | |]; try discriminate;
        (destruct (sufficient _ _) as [[|]| | |]; try discriminate;
         destruct (a_exp s); [reflexivity|cbn [andb] in H; discriminate]).
    - destruct (a_exp s); discriminate.
    - discriminate.
  Qed.

  Lemma stepA_cont_exp us s e s' :
    stepA edv fixed cfg sc us s e = Cont s' -> e <> TimerFire \/ a_exp s = true ->
    a_exp s' = a_exp s.
  Proof.
    intros H Hc. destruct e as [n b| |]; cbn [stepA] in H.
    - destruct (parse _ _ _ _ _) as [[id p]|]; [|inversion H; auto].
      destruct (validate_obs _ _ _ _ _ _) as [v| | |]; try discriminate;
        (destruct (sufficient _ _) as [[|]| | |]; try discriminate; destruct (_ && _); try discriminate;
         inversion H; cbn; auto).
    - destruct (a_exp s) eqn:Ex; [inversion H; cbn; auto|]. destruct Hc as [Hc|Hc]; [congruence|discriminate].
    - discriminate.
  Qed.

  Lemma askI_step g e : askI g -> askI (gstepF g e).
  Proof.
    intros I. destruct g as [us s|s|f l]; cbn [gstep]; [| |exact I].
    - destruct I as (P & Hl & Hx).
      destruct (stepA edv fixed cfg sc us s e) as [s'|[acc|f]] eqn:Es.
      + cbn [askI]. split; [exact P|].
        assert (Same : e <> TimerFire \/ a_exp s = true ->
                       (forall ch n, In (ch, n) (a_rq s') -> obs_asked (a_log s') ch n) /\
                       (a_exp s' = true -> forall p, In p (all_pairs us) -> In p (a_rq s'))).
        { intros Hc. destruct (stepA_cont_same edv cfg sc _ _ _ _ Es Hc) as [E1 E2].
          rewrite (stepA_cont_exp _ _ _ _ Es Hc), E1, E2. auto. }
        destruct e as [n b| |]; [apply Same; left; discriminate| |cbn [stepA] in Es; discriminate].
        destruct (a_exp s) eqn:Ex; [apply Same; now right|]. clear Same.
        cbn [stepA] in Es. rewrite Ex in Es.
        set (extra := filter (fun p => negb (rq_mem (fst p) (snd p) (a_rq s))) (all_pairs us)) in *.
        inversion Es; subst s'. clear Es. cbn [a_rq a_log a_exp]. split.
        * intros ch n Hp. apply in_app_iff in Hp as [Hp|Hp].
          -- destruct (send_obs_log sc (order_by (s_sendA2 sc) (nodes_of_pairs extra)) extra
                         (mkSendst (a_ids s) (a_k s) (a_log s))) as (new & E & _). cbn [ss_log] in E. rewrite E.
             now apply obs_asked_app_l, Hl.
          -- destruct (send_obs_asks (order_by (s_sendA2 sc) (nodes_of_pairs extra)) extra
                         (mkSendst (a_ids s) (a_k s) (a_log s)) ch n) as (new & E & (r & Hr & K));
               [apply order_by_in, nodes_of_pairs_in; now exists ch|exact Hp|].
             cbn [ss_log] in E. rewrite E. exists r. split; [apply in_app_iff; now right|exact K].
        * intros _ [ch n] Hp. apply in_app_iff. destruct (rq_mem ch n (a_rq s)) eqn:Em.
          -- left. now apply rq_mem_in.
          -- right. apply filter_In. split; [exact Hp|]. cbn [fst snd]. now rewrite Em.
      + unfold enterB. destruct (startB cfg sc us acc (a_k s) (a_log s)) as [sb|[f l]] eqn:Eb; [exact Logic.I|].
        destruct (startB_cases cfg sc us acc (a_k s) (a_log s)) as [(f' & E & Hf)|[E|(sb & E & _)]];
          rewrite E in Eb; inversion Eb; subst; cbn [askI]; [|exact Logic.I].
        destruct Hf as [->|[->| ->]]; exact Logic.I.
      + cbn [askI]. destruct f as [sigs rep|f|]; try exact Logic.I. destruct f; try exact Logic.I.
        exists us. split; [exact P|]. intros ch n Hp. apply Hl. apply Hx; [|exact Hp].
        exact (stepA_giveup_exp _ _ _ Es).
    - destruct (stepB vrs fixed cfg sc s e) as [s'|f] eqn:Es; [exact Logic.I|].
      cbn [askI]. destruct f as [sigs rep|f|]; try exact Logic.I. destruct f; try exact Logic.I.
      exfalso. destruct e as [n b| |]; cbn [stepB] in Es.
      * destruct (parse _ _ _ _ _) as [[id p]|]; [|discriminate].
        destruct (validate_sig _ _ _ _ _) as [[a g0]| | |]; try discriminate;
          (destruct (gte_f_plus_one _ _); [discriminate|]; destruct (_ && _); discriminate).
      * destruct (b_exp s); discriminate.
      * discriminate.
  Qed.

  Lemma askI_run evs : askI (runF evs).
  Proof.
    unfold run. generalize askI_init. generalize (ginit cfg sc) as g.
    induction evs as [|e evs IH]; intros g I; cbn [fold_left]; [exact I|]. apply IH. now apply askI_step.
  Qed.

  (* ErrInsufficientObservationResponses is returned only after an observation request naming lane u has gone to EVERY
     configured observer of every requested lane u: the call never gives up on observers it has not asked *)
  Theorem giveup_only_after_asking_all evs l us :
    runF evs = GFinal (Failure FInsufObs) l -> prepare cfg = inl (Ok us) ->
    forall u n, In u us -> In n (u_nodes u) -> obs_asked l (u_chain u) n.
  Proof.
    intros E P u n Hu Hn. pose proof (askI_run evs) as I. rewrite E in I. cbn [askI] in I.
    destruct I as (us' & P' & H). rewrite P in P'. inversion P'; subst us'. apply H. apply all_pairs_in. eauto.
  Qed.
End GiveUp.

(* ---------- giving up in phase B: ErrInsufficientSignatureResponses only after EVERY signer has been asked ---------- *)
Section GiveUpB.
  Variable edv : N -> observation -> N -> bool.
  Variable vrs : N -> N -> report -> bool.
  Variable cfg : config.
  Variable sc : sched.

  Notation gstepF := (gstep edv vrs fixed cfg sc).
  Notation runF := (run edv vrs fixed cfg sc).

  (* a report-signature request to node n is in the log (accepted by PeerClient.Send or not) *)
  Definition sig_asked (l : list send_rec) (n : node) : Prop := exists r, In r l /\ sd_kind r = 1%N /\ sd_node r = n.
  Lemma sig_asked_app_l l l' n : sig_asked l n -> sig_asked (l ++ l') n.
  Proof. intros (r & H & K). exists r. split; [apply in_app_iff; now left|exact K]. Qed.
  Lemma sig_asked_last l n id ok : sig_asked (l ++ [mkSend 1%N n id ok []]) n.
  Proof. eexists. split; [apply in_app_iff; right; left; reflexivity|]. cbn. auto. Qed.

  (* signersRequested only holds nodes a request was sent to *)
  Definition sgI (st : sigsend) : Prop := forall n, In n (gs_asked st) -> sig_asked (gs_log st) n.
  Lemma sgI_fail st n id ids k :
    sgI st -> sgI (mkSigsend ids (gs_asked st) k (gs_log st ++ [mkSend 1%N n id false []])).
  Proof. intros I m Hm. cbn [gs_asked gs_log] in *. now apply sig_asked_app_l, I. Qed.
  Lemma sgI_ok st n id ids k :
    sgI st -> sgI (mkSigsend ids (set_addN n (gs_asked st)) k (gs_log st ++ [mkSend 1%N n id true []])).
  Proof.
    intros I m Hm. cbn [gs_asked gs_log] in *. apply set_addN_in in Hm as [Hm| ->].
    - now apply sig_asked_app_l, I.
    - apply sig_asked_last.
  Qed.

  Lemma send_sigs_first_sgI order : forall st, sgI st -> sgI (send_sigs_first cfg sc order st).
  Proof.
    induction order as [|n rest IH]; intros st I; cbn [send_sigs_first]; [exact I|].
    destruct (gte_f_plus_one _ _); [exact I|]. destruct (negb (is_home cfg n)); [now apply IH|].
    destruct (s_fail sc (gs_k st)); apply IH; [now apply sgI_fail|now apply sgI_ok].
  Qed.

  Lemma send_sigs_more_all order : forall st,
    sgI st ->
    sgI (send_sigs_more cfg sc order st) /\
    (forall n, sig_asked (gs_log st) n -> sig_asked (gs_log (send_sigs_more cfg sc order st)) n) /\
    (forall n, In n order -> is_home cfg n = true -> sig_asked (gs_log (send_sigs_more cfg sc order st)) n).
  Proof.
    induction order as [|n rest IH]; intros st I; cbn [send_sigs_more]; [split; [exact I|split; [auto|intros n []]]|].
    destruct (memN n (gs_asked st)) eqn:Ea.
    { destruct (IH st I) as (I' & M & A). split; [exact I'|]. split; [exact M|].
      intros m [<-|Hm] Hh; [|now apply A]. apply M, I. now apply memN_in. }
    destruct (is_home cfg n) eqn:Eh; cbn [negb].
    2:{ destruct (IH st I) as (I' & M & A). split; [exact I'|]. split; [exact M|].
        intros m [<-|Hm] Hh; [congruence|now apply A]. }
    destruct (s_fail sc (gs_k st)).
    - match goal with |- context [send_sigs_more cfg sc rest ?x] => destruct (IH x) as (I' & M & A) end;
        [now apply sgI_fail|]. cbn [gs_log] in M. split; [exact I'|]. split.
      + intros m Hm. now apply M, sig_asked_app_l.
      + intros m [<-|Hm] Hh; [apply M, sig_asked_last|now apply A].
    - match goal with |- context [send_sigs_more cfg sc rest ?x] => destruct (IH x) as (I' & M & A) end;
        [now apply sgI_ok|]. cbn [gs_log] in M. split; [exact I'|]. split.
      + intros m Hm. now apply M, sig_asked_app_l.
      + intros m [<-|Hm] Hh; [apply M, sig_asked_last|now apply A].
  Qed.

  Definition all_signers_asked (l : list send_rec) : Prop :=
    forall n, In n (signer_nodes cfg) -> is_home cfg n = true -> sig_asked l n.

  Definition askBI (g : gstate) : Prop :=
    match g with
    | GB s =>
        (forall n, In n (b_asked s) -> sig_asked (b_log s) n) /\ (b_exp s = true -> all_signers_asked (b_log s))
    | GFinal (Failure FInsufSigs) l => (0 <= c_remoteF cfg)%Z /\ all_signers_asked l
    | _ => True
    end.

  Lemma prepare_inr_cases f : prepare cfg = inr f -> f = FDupChain \/ f = FNoF \/ f = FNothingToDo.
  Proof.
    unfold prepare. destruct (negb _); [intros H; inversion H; auto|].
    destruct (with_F _ _); [|intros H; inversion H; auto]. destruct (filter _ _); intros H; inversion H; auto.
  Qed.

  Lemma askBI_init : askBI (ginit cfg sc).
  Proof.
    unfold ginit. destruct (prepare cfg) as [[us| | |]|f] eqn:P; try exact Logic.I.
    destruct (prepare_inr_cases f P) as [->|[->| ->]]; exact Logic.I.
  Qed.

  Lemma askBI_step g e : askBI g -> askBI (gstepF g e).
  Proof.
    intros I. destruct g as [us s|s|f l]; cbn [gstep]; [| |exact I].
    - destruct (stepA edv fixed cfg sc us s e) as [s'|[acc|f]] eqn:Es; [exact Logic.I| |].
      + unfold enterB.
        destruct (startB_cases cfg sc us acc (a_k s) (a_log s)) as [(f' & E & Hf)|[E|(sb & E & Eb1 & Eb2)]]; rewrite E.
        * destruct Hf as [->|[->| ->]]; exact Logic.I.
        * exact Logic.I.
        * cbn [askBI]. rewrite Eb1, Eb2. split.
          -- apply send_sigs_first_sgI. intros n [].
          -- unfold startB in E. destruct (all_votes acc); try discriminate. destruct (select_roots _ _ _); try discriminate.
             destruct (negb _); try discriminate. destruct (tas_panics _); try discriminate.
             destruct (lt_f_plus_one _ _); try discriminate. inversion E; subst sb. cbn. discriminate.
      + destruct (stepA_done_fail edv cfg sc _ _ _ _ Es) as [[_ ->]|[->| ->]]; exact Logic.I.
    - destruct I as [Ia Ix]. destruct (stepB vrs fixed cfg sc s e) as [s'|f] eqn:Es.
      + cbn [askBI]. destruct e as [n b| |]; cbn [stepB] in Es.
        * destruct (parse _ _ _ _ _) as [[id p]|]; [|inversion Es; subst; auto].
          destruct (validate_sig _ _ _ _ _) as [[a g0]| | |]; try discriminate;
            (destruct (gte_f_plus_one _ _); [discriminate|]; destruct (_ && _); [discriminate|];
             inversion Es; cbn; auto).
        * destruct (b_exp s) eqn:Ex; inversion Es; cbn [b_log b_asked b_exp]; [auto|].
          destruct (send_sigs_more_all (order_by (s_shufB2 sc) (signer_nodes cfg))
                      (mkSigsend (b_ids s) (b_asked s) (b_k s) (b_log s))) as (I' & _ & A); [exact Ia|].
          split; [exact I'|]. intros _ n Hn Hh. apply A; [now apply order_by_in|exact Hh].
        * discriminate.
      + cbn [askBI]. destruct f as [sigs rep|f|]; try exact Logic.I. destruct f; try exact Logic.I.
        destruct e as [n b| |]; cbn [stepB] in Es.
        * destruct (parse _ _ _ _ _) as [[id p]|]; [|discriminate].
          assert (Hx : b_exp s = true /\ exists v, (0 <= v)%Z /\ gte_f_plus_one (c_remoteF cfg) v = false).
          { destruct (validate_sig _ _ _ _ _) as [[a g0]| | |]; try discriminate;
              (match type of Es with context [gte_f_plus_one ?f ?v] => destruct (gte_f_plus_one f v) eqn:Eg end;
               [discriminate|]; destruct (b_exp s); [split; [reflexivity|eexists; split; [|exact Eg]; unfold zlen; lia]|cbn [andb] in Es; discriminate]). }
          destruct Hx as [Ex (v & Hv & Eg)]. split; [|now apply Ix].
          unfold gte_f_plus_one in Eg. apply Z.leb_gt in Eg. lia.
        * destruct (b_exp s); discriminate.
        * discriminate.
  Qed.

  Lemma askBI_run evs : askBI (runF evs).
  Proof.
    unfold run. generalize askBI_init. generalize (ginit cfg sc) as g.
    induction evs as [|e evs IH]; intros g I; cbn [fold_left]; [exact I|]. apply IH. now apply askBI_step.
  Qed.

  (* ErrInsufficientSignatureResponses is returned only after a report-signature request has gone (accepted by
     PeerClient.Send or not) to EVERY configured signer that RMNHome knows; and only with F_remote >= 0 *)
  Theorem giveupB_only_after_asking_all evs l :
    runF evs = GFinal (Failure FInsufSigs) l ->
    (0 <= c_remoteF cfg)%Z /\
    forall n, In n (signer_nodes cfg) -> is_home cfg n = true -> sig_asked l n.
  Proof. intros E. pose proof (askBI_run evs) as I. rewrite E in I. exact I. Qed.
End GiveUpB.

(* non-vacuity: the honest run of Witness — four requests, well-formed; the strict order of its two signatures *)
Example requests_wellformed_example :
  exists us, prepare Witness.cfg = inl (Ok us) /\
    map (fun r => (sd_kind r, sd_node r)) (g_log (run Witness.edv Witness.vrs fixed Witness.cfg Witness.sc Witness.good_run))
    = [(0, 1); (0, 2); (1, 1); (1, 2)]%N.
Proof. eexists. split; vm_compute; reflexivity. Qed.
Example failure_origin_example :
  (exists l, run Witness.edv Witness.vrs fixed Witness.cfg Witness.sc [CtxDone] = GFinal (Failure FTimeoutA) l) /\
  (exists l, run Witness.edv Witness.vrs fixed Witness.cfg Witness.sc (firstn 2 Witness.good_run ++ [CtxDone])
             = GFinal (Failure FTimeoutB) l).
Proof. split; eexists; vm_compute; reflexivity. Qed.
(* giving up after everyone was asked: node 1 answers with a bad signature (the timer is reset to 0 and fires: node 3 is
   asked), node 2 votes 105, node 3 answers with a bad signature - all three requests finished, one vote *)
Example giveup_example :
  exists l, run Witness.edv Witness.vrs fixed Witness.cfg Witness.sc
              [Resp 1 (BMsg 1 (Witness.obs_of 99 105)); TimerFire; Resp 2 (BMsg 2 (Witness.obs_of 22 105));
               Resp 3 (BMsg 3 (Witness.obs_of 99 105))]%N = GFinal (Failure FInsufObs) l /\
            map (fun r => (sd_kind r, sd_node r, sd_chains r)) l = [(0, 1, [5]); (0, 2, [5]); (0, 3, [5])]%N.
Proof. eexists. split; vm_compute; reflexivity. Qed.
(* giving up in phase B after everyone was asked (Witness.cfg, F_remote = 1, first wave = signers 1 and 2): 1 answers
   with a bad signature (the timer is reset and fires: 3 is asked), 2 and 3 answer badly too *)
Example giveupB_example :
  exists l, run Witness.edv Witness.vrs fixed Witness.cfg Witness.sc
              [Resp 1 (BMsg 1 (Witness.obs_of 21 105)); Resp 2 (BMsg 2 (Witness.obs_of 22 105));
               Resp 1 (BMsg 3 (Witness.sig_of 9901)); TimerFire; Resp 2 (BMsg 4 (Witness.sig_of 9902));
               Resp 3 (BMsg 5 (Witness.sig_of 9903))]%N = GFinal (Failure FInsufSigs) l /\
            map (fun r => (sd_kind r, sd_node r)) l = [(0, 1); (0, 2); (1, 1); (1, 2); (1, 3)]%N.
Proof. eexists. split; vm_compute; reflexivity. Qed.
